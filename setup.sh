#!/bin/sh
# Build the framework from files on disk only (offline): Lean library + driver, Go extractor + harness.
set -e
cd "$(dirname "$0")"
export GOFLAGS=-mod=mod GOPROXY=off GOSUMDB=off GOTOOLCHAIN=local
mkdir -p go/bin .work evidence replays
(cd go && go build -o bin/extract ./cmd/extract && ./bin/extract -repo /repo -out ../lean/TSSVerif/Gen all && go build -tags verif -o bin/harness ./cmd/harness)
(cd lean && lake build)
echo "setup ok"
