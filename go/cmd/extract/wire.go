package main

import (
	"fmt"
	"go/ast"
	"go/token"
	"strings"
)

// needs returns the minimum length of slice `slice` for x to evaluate without an index panic,
// considering constant indices and constant slice bounds only.
func needs(x ast.Node, slice string) int {
	m := 0
	ast.Inspect(x, func(n ast.Node) bool {
		switch v := n.(type) {
		case *ast.IndexExpr:
			if isIdent(v.X, slice) {
				if k, ok := intLit(v.Index); ok && k+1 > m {
					m = k + 1
				}
			}
		case *ast.SliceExpr:
			if isIdent(v.X, slice) {
				if v.Low != nil {
					if k, ok := intLit(v.Low); ok && k > m {
						m = k
					}
				}
				if v.High != nil {
					if k, ok := intLit(v.High); ok && k > m {
						m = k
					}
				}
			}
		}
		return true
	})
	return m
}

type wireGen struct {
	sb strings.Builder
}

func (g *wireGen) p(format string, a ...interface{}) { fmt.Fprintf(&g.sb, format+"\n", a...) }

func wireHeader(g *wireGen, ns string) {
	g.p("-- REGENERATED on every run by /verif/go/cmd/extract from /repo — do not edit.")
	g.p("-- Integer expressions of the wire codecs, translated from the Go AST with Go's typing")
	g.p("-- (a shift has the type of its left operand; conversions truncate / zero-extend).")
	g.p("import TSSVerif.Model.WireBase")
	g.p("set_option linter.unusedVariables false")
	g.p("namespace TSSVerif.Gen.%s", ns)
	g.p("open TSSVerif.Model")
	g.p("")
}

// the acknowledgement codec of the reliable-broadcast layer
func genWire() string {
	g := &wireGen{}
	wireHeader(g, "Wire")
	th := load("threshold/threshold.go")
	g.ackEnc(th)
	g.ackDec(th)
	g.p("end TSSVerif.Gen.Wire")
	return g.sb.String()
}

// the synchroniser's codecs (topic name, view encoding, PRF input): a module of their own, so that a change in one
// codec does not stop the models of the other from building
func genWireDisc() string {
	g := &wireGen{}
	wireHeader(g, "WireDisc")
	th := load("threshold/threshold.go")
	g.topicName(th)
	di := load("disc/discovery.go")
	g.viewEnc(di)
	g.viewDec(di)
	g.prf(di)
	g.p("end TSSVerif.Gen.WireDisc")
	return g.sb.String()
}

func (g *wireGen) bad(name string, s *source, n ast.Node, why string) {
	g.p("-- extractor: %s: %s", name, why)
	g.p("def %s := unknown_shape %q", name, s.pos(n))
}

// threshold.go: func newRBCEncoding(digest string, sender uint16, msgRound uint8) rbcEncoding
func (g *wireGen) ackEnc(s *source) {
	fd := s.fn("newRBCEncoding")
	if fd == nil {
		g.p("def ackEnc := unknown_shape \"threshold/threshold.go: newRBCEncoding not found\"")
		return
	}
	e := &env{src: s, vars: map[string]leanVar{"sender": {"sender", 16}, "msgRound": {"msgRound", 8}}}
	body := bodyNoLog(fd)
	g.p("/-! `newRBCEncoding` (%s) -/", s.pos(fd))
	if len(body) != 4 {
		g.bad("ackEncShape", s, fd, fmt.Sprintf("expected 4 statements, found %d", len(body)))
		return
	}
	// 1: if <cond> { panic(...) }
	ifs, ok := body[0].(*ast.IfStmt)
	if !ok || ifs.Else != nil || len(ifs.Body.List) != 1 {
		g.bad("ackEncShape", s, body[0], "expected `if cond { panic }`")
		return
	}
	if es, ok := ifs.Body.List[0].(*ast.ExprStmt); !ok {
		g.bad("ackEncShape", s, body[0], "expected panic call")
		return
	} else if _, ok := isCall(es.X, "panic"); !ok {
		g.bad("ackEncShape", s, body[0], "expected panic call")
		return
	}
	g.p("def ackEncPanics (sender : B16) (msgRound : B8) : Bool := %s", e.transCond(ifs.Cond))
	// 2: m := rbcEncoding{e0, e1, e2}
	as, ok := body[1].(*ast.AssignStmt)
	if !ok || len(as.Rhs) != 1 {
		g.bad("ackEncShape", s, body[1], "expected composite literal assignment")
		return
	}
	cl, ok := as.Rhs[0].(*ast.CompositeLit)
	if !ok || len(cl.Elts) != 3 {
		g.bad("ackEncShape", s, body[1], "expected 3-element composite literal")
		return
	}
	for i, el := range cl.Elts {
		t, w := e.trans(el, 8)
		if w != 8 {
			t = unknown(s, el)
		}
		g.p("def ackEncByte%d (sender : B16) (msgRound : B8) : B8 := %s", i, t)
	}
	// 3: m = append(m, []byte(digest)...)
	as2, ok := body[2].(*ast.AssignStmt)
	okAppend := false
	if ok && len(as2.Rhs) == 1 {
		if c, ok := isCall(as2.Rhs[0], "append"); ok && len(c.Args) == 2 && c.Ellipsis != token.NoPos {
			if conv, ok := c.Args[1].(*ast.CallExpr); ok && len(conv.Args) == 1 && isIdent(conv.Args[0], "digest") {
				okAppend = true
			}
		}
	}
	if !okAppend {
		g.bad("ackEncShape", s, body[2], "expected `m = append(m, []byte(digest)...)`")
		return
	}
	if _, ok := body[3].(*ast.ReturnStmt); !ok {
		g.bad("ackEncShape", s, body[3], "expected return")
		return
	}
	g.p("def ackEncShape : Bool := true  -- header bytes, then the digest appended verbatim")
	g.p("")
}

// threshold.go: func (r rbcEncoding) Ack() (digest []byte, sender uint16, msgRound uint8, err error)
func (g *wireGen) ackDec(s *source) {
	fd := s.fn("rbcEncoding.Ack")
	if fd == nil {
		g.p("def ackDecGuards := unknown_shape \"threshold/threshold.go: rbcEncoding.Ack not found\"")
		return
	}
	g.p("/-! `rbcEncoding.Ack` (%s): guards in source order, then the field assignments -/", s.pos(fd))
	names := map[int]string{0: "r0", 1: "r1", 2: "r2"}
	e := &env{src: s, vars: map[string]leanVar{}, idx: constIndex("r", names)}
	body := bodyNoLog(fd)
	var guards []string
	i := 0
	for ; i < len(body); i++ {
		ifs, ok := body[i].(*ast.IfStmt)
		if !ok {
			break
		}
		if ifs.Else != nil || len(ifs.Body.List) != 1 {
			g.bad("ackDecGuards", s, ifs, "guard with else or several statements")
			return
		}
		ret, ok := ifs.Body.List[0].(*ast.ReturnStmt)
		if !ok || len(ret.Results) != 4 {
			g.bad("ackDecGuards", s, ifs, "guard body is not a 4-value return")
			return
		}
		out := ""
		if isIdent(ret.Results[3], "nil") && isIdent(ret.Results[0], "nil") {
			out = ".payload"
		} else if _, ok := isCall(ret.Results[3], "fmt.Errorf"); ok {
			out = ".malformed"
		} else {
			g.bad("ackDecGuards", s, ifs, "unrecognised guard result")
			return
		}
		var cond string
		if op, n, ok := isLenCmp(ifs.Cond, "r"); ok {
			switch op {
			case token.LSS:
				cond = fmt.Sprintf("decide (len < %d)", n)
			case token.EQL:
				cond = fmt.Sprintf("decide (len = %d)", n)
			case token.LEQ:
				cond = fmt.Sprintf("decide (len ≤ %d)", n)
			default:
				cond = unknown(s, ifs.Cond)
			}
		} else {
			cond = e.transCond(ifs.Cond)
		}
		guards = append(guards, fmt.Sprintf("{ needs := %d, cond := fun len r0 r1 r2 => %s, out := %s }", needs(ifs.Cond, "r"), cond, out))
	}
	g.p("def ackDecGuards : List AckGuard := [")
	for k, gd := range guards {
		sep := ","
		if k == len(guards)-1 {
			sep = ""
		}
		g.p("  %s%s", gd, sep)
	}
	g.p("]")
	// assignments
	var round, sender string
	digestFrom := -1
	need := 0
	for ; i < len(body); i++ {
		switch st := body[i].(type) {
		case *ast.AssignStmt:
			if len(st.Lhs) != 1 || len(st.Rhs) != 1 {
				g.bad("ackDecFields", s, st, "multi-assignment")
				return
			}
			if n := needs(st.Rhs[0], "r"); n > need {
				need = n
			}
			lhs, _ := st.Lhs[0].(*ast.Ident)
			switch {
			case lhs != nil && lhs.Name == "msgRound":
				t, w := e.trans(st.Rhs[0], 8)
				if w != 8 {
					t = unknown(s, st)
				}
				round = t
			case lhs != nil && lhs.Name == "sender":
				t, w := e.trans(st.Rhs[0], 16)
				if w != 16 {
					t = unknown(s, st)
				}
				sender = t
			case lhs != nil && lhs.Name == "digest":
				if sl, ok := st.Rhs[0].(*ast.SliceExpr); ok && isIdent(sl.X, "r") && sl.High == nil && sl.Low != nil {
					if k, ok := intLit(sl.Low); ok {
						digestFrom = k
					}
				}
			default:
				g.bad("ackDecFields", s, st, "assignment to unexpected variable")
				return
			}
		case *ast.ReturnStmt:
			if len(st.Results) != 0 {
				g.bad("ackDecFields", s, st, "expected bare return")
				return
			}
		default:
			g.bad("ackDecFields", s, st, "unexpected statement")
			return
		}
	}
	if round == "" || sender == "" || digestFrom < 0 {
		g.bad("ackDecFields", s, fd, "missing field assignment")
		return
	}
	g.p("def ackDecNeeds : Nat := %d", need)
	g.p("def ackDecRound (r0 r1 r2 : B8) : B8 := %s", round)
	g.p("def ackDecSender (r0 r1 r2 : B8) : B16 := %s", sender)
	g.p("def ackDecDigestFrom : Nat := %d", digestFrom)
	g.p("")
}

// pairLit recognises `[]byte{e0, e1}` and translates both with variable `v` of width 16.
func (g *wireGen) pairLit(s *source, x ast.Expr, v string) (string, string, bool) {
	cl, ok := x.(*ast.CompositeLit)
	if !ok || len(cl.Elts) != 2 {
		return "", "", false
	}
	e := &env{src: s, vars: map[string]leanVar{v: {"x", 16}}}
	a, aw := e.trans(cl.Elts[0], 8)
	b, bw := e.trans(cl.Elts[1], 8)
	if aw != 8 || bw != 8 {
		return "", "", false
	}
	return a, b, true
}

// threshold.go: membershipSyncTopicName — per member h.Write([]byte{e0, e1})
func (g *wireGen) topicName(s *source) {
	fd := s.fn("membershipSyncTopicName")
	g.p("/-! `membershipSyncTopicName`: the two bytes hashed per member, in order -/")
	found := false
	if fd != nil {
		ast.Inspect(fd, func(n ast.Node) bool {
			rs, ok := n.(*ast.RangeStmt)
			if !ok || found {
				return true
			}
			val, _ := rs.Value.(*ast.Ident)
			if val == nil || len(rs.Body.List) != 1 {
				return true
			}
			es, ok := rs.Body.List[0].(*ast.ExprStmt)
			if !ok {
				return true
			}
			c, ok := isCall(es.X, "h.Write")
			if !ok || len(c.Args) != 1 {
				return true
			}
			if a, b, ok := g.pairLit(s, c.Args[0], val.Name); ok {
				g.p("def topicMemberByte0 (x : B16) : B8 := %s", a)
				g.p("def topicMemberByte1 (x : B16) : B8 := %s", b)
				found = true
			}
			return true
		})
	}
	if !found {
		g.p("def topicMemberByte0 := unknown_shape \"threshold/threshold.go membershipSyncTopicName\"")
	}
	g.p("")
}

// discovery.go: makePRF — h.Write([]byte{byte(x), byte(x >> 8)})
func (g *wireGen) prf(s *source) {
	fd := s.fn("makePRF")
	g.p("/-! `makePRF`: the two bytes fed to HMAC for identifier x -/")
	found := false
	if fd != nil {
		ast.Inspect(fd, func(n ast.Node) bool {
			c, ok := n.(*ast.CallExpr)
			if !ok || found {
				return true
			}
			if cc, ok := isCall(c, "h.Write"); ok && len(cc.Args) == 1 {
				if a, b, ok := g.pairLit(s, cc.Args[0], "x"); ok {
					g.p("def prfByte0 (x : B16) : B8 := %s", a)
					g.p("def prfByte1 (x : B16) : B8 := %s", b)
					found = true
				}
			}
			return true
		})
	}
	if !found {
		g.p("def prfByte0 := unknown_shape \"disc/discovery.go makePRF\"")
	}
	g.p("")
}

// discovery.go: encodeTagAndMembershipList
func (g *wireGen) viewEnc(s *source) {
	fd := s.fn("encodeTagAndMembershipList")
	g.p("/-! `encodeTagAndMembershipList` -/")
	if fd == nil {
		g.p("def viewEncShape := unknown_shape \"disc/discovery.go encodeTagAndMembershipList\"")
		return
	}
	var tagLen, start, step = -1, -1, -1
	var lo, hi string
	var sizeOK, typeByteOK, tagCopyOK bool
	for _, st := range fd.Body.List {
		switch v := st.(type) {
		case *ast.IfStmt:
			// if len(tag) != 32 { panic }
			if op, n, ok := isLenCmp(v.Cond, "tag"); ok && op == token.NEQ {
				tagLen = n
			}
		case *ast.AssignStmt:
			if len(v.Lhs) == 1 && len(v.Rhs) == 1 {
				if isIdent(v.Lhs[0], "offset") && v.Tok == token.DEFINE {
					if n, ok := intLit(v.Rhs[0]); ok {
						start = n
					}
				}
				if isIdent(v.Lhs[0], "size") {
					// size := 32 + len(peers)*2 + 1
					if src := exprString(v.Rhs[0]); src == "32 + len(peers)*2 + 1" || src == "33 + len(peers)*2" || src == "1 + 32 + len(peers)*2" {
						sizeOK = true
					}
				}
				if ix, ok := v.Lhs[0].(*ast.IndexExpr); ok && isIdent(ix.X, "buff") {
					if k, ok := intLit(ix.Index); ok && k == 0 {
						if src := exprString(v.Rhs[0]); src == "uint8(msgType)" || src == "byte(msgType)" {
							typeByteOK = true
						}
					}
				}
			}
		case *ast.ExprStmt:
			if c, ok := isCall(v.X, "copy"); ok && len(c.Args) == 2 {
				if exprString(c.Args[0]) == "buff[1:]" && exprString(c.Args[1]) == "tag" {
					tagCopyOK = true
				}
			}
		case *ast.RangeStmt:
			val, _ := v.Value.(*ast.Ident)
			if val == nil || exprString(v.X) != "peers" {
				continue
			}
			e := &env{src: s, vars: map[string]leanVar{val.Name: {"p", 16}}}
			for _, bs := range v.Body.List {
				as, ok := bs.(*ast.AssignStmt)
				if !ok || len(as.Lhs) != 1 {
					continue
				}
				if as.Tok == token.ADD_ASSIGN && isIdent(as.Lhs[0], "offset") {
					if n, ok := intLit(as.Rhs[0]); ok {
						step = n
					}
					continue
				}
				ix, ok := as.Lhs[0].(*ast.IndexExpr)
				if !ok || !isIdent(ix.X, "buff") {
					continue
				}
				t, w := e.trans(as.Rhs[0], 8)
				if w != 8 {
					t = unknown(s, as)
				}
				switch exprString(ix.Index) {
				case "offset":
					lo = t
				case "offset + 1", "offset+1":
					hi = t
				}
			}
		}
	}
	if tagLen < 0 || start < 0 || step < 0 || lo == "" || hi == "" || !sizeOK || !typeByteOK || !tagCopyOK {
		g.bad("viewEncShape", s, fd, fmt.Sprintf("tagLen=%d start=%d step=%d lo=%q hi=%q size=%v type=%v tag=%v", tagLen, start, step, lo, hi, sizeOK, typeByteOK, tagCopyOK))
		return
	}
	g.p("def viewEncTagLen : Nat := %d", tagLen)
	g.p("def viewEncStart : Nat := %d", start)
	g.p("def viewEncStep : Nat := %d", step)
	g.p("def viewEncByteAt0 (p : B16) : B8 := %s", lo)
	g.p("def viewEncByteAt1 (p : B16) : B8 := %s", hi)
	g.p("def viewEncShape : Bool := true  -- buff[0] = type, buff[1:33] = tag, then 2 bytes per peer, size exact")
	g.p("")
}

// discovery.go: decodeTagAndMembershipList
func (g *wireGen) viewDec(s *source) {
	fd := s.fn("decodeTagAndMembershipList")
	g.p("/-! `decodeTagAndMembershipList` -/")
	if fd == nil {
		g.p("def viewDecShape := unknown_shape \"disc/discovery.go decodeTagAndMembershipList\"")
		return
	}
	minLen, start, step := -1, -1, -1
	tagLo, tagHi := -1, -1
	var peer string
	var typeRangeOK, loopCondOK, oddGuard bool
	loopNeeds := ""
	for _, st := range fd.Body.List {
		switch v := st.(type) {
		case *ast.IfStmt:
			if op, n, ok := isLenCmp(v.Cond, "msg"); ok && op == token.LSS {
				minLen = n
			} else if src := exprString(v.Cond); src == "msgType < msgTypeMembership || msgType > msgTypeResponse" {
				typeRangeOK = true
			} else if src == "(len(msg)-33)%2 != 0" || src == "len(msg)%2 == 0" || src == "len(msg)%2 != 1" {
				oddGuard = true
			}
		case *ast.AssignStmt:
			if len(v.Lhs) == 1 && isIdent(v.Lhs[0], "offset") && v.Tok == token.DEFINE {
				if n, ok := intLit(v.Rhs[0]); ok {
					start = n
				}
			}
		case *ast.ForStmt:
			if exprString(v.Cond) == "offset < len(msg)" {
				loopCondOK = true
				loopNeeds = "offset < len"
			} else if exprString(v.Cond) == "offset+1 < len(msg)" {
				loopCondOK = true
				loopNeeds = "offset+1 < len"
			}
			e := &env{src: s, vars: map[string]leanVar{}, idx: offsetIndex("msg", "offset", "lo", "hi")}
			for _, bs := range v.Body.List {
				as, ok := bs.(*ast.AssignStmt)
				if !ok || len(as.Lhs) != 1 {
					continue
				}
				if as.Tok == token.ADD_ASSIGN && isIdent(as.Lhs[0], "offset") {
					if n, ok := intLit(as.Rhs[0]); ok {
						step = n
					}
				}
				if as.Tok == token.DEFINE && isIdent(as.Lhs[0], "p") {
					t, w := e.trans(as.Rhs[0], 16)
					if w != 16 {
						t = unknown(s, as)
					}
					peer = t
				}
			}
		case *ast.ReturnStmt:
			if len(v.Results) == 4 {
				if c, ok := isCall(v.Results[1], "tag"); ok && len(c.Args) == 1 {
					if sl, ok := c.Args[0].(*ast.SliceExpr); ok && isIdent(sl.X, "msg") && sl.Low != nil && sl.High != nil {
						tagLo, _ = intLit(sl.Low)
						tagHi, _ = intLit(sl.High)
					}
				}
			}
		}
	}
	if minLen < 0 || start < 0 || step < 0 || peer == "" || !typeRangeOK || !loopCondOK || tagLo < 0 || tagHi < 0 {
		g.bad("viewDecShape", s, fd, fmt.Sprintf("minLen=%d start=%d step=%d peer=%q type=%v loop=%v tag=%d:%d", minLen, start, step, peer, typeRangeOK, loopCondOK, tagLo, tagHi))
		return
	}
	g.p("def viewDecMinLen : Nat := %d      -- shorter messages are rejected with an error", minLen)
	g.p("def viewDecOddTailRejected : Bool := %v  -- an explicit guard rejects a dangling last byte", oddGuard)
	g.p("def viewDecLoopGuardsPair : Bool := %v  -- loop condition `%s`", loopNeeds == "offset+1 < len", loopNeeds)
	g.p("def viewDecStart : Nat := %d", start)
	g.p("def viewDecStep : Nat := %d", step)
	g.p("def viewDecTagLo : Nat := %d", tagLo)
	g.p("def viewDecTagHi : Nat := %d", tagHi)
	g.p("def viewDecPeer (lo hi : B8) : B16 := %s", peer)
	g.p("def viewDecShape : Bool := true")
	g.p("")
}
