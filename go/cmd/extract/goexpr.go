package main

import (
	"fmt"
	"go/ast"
	"go/parser"
	"go/token"
	"path/filepath"
	"strconv"
	"strings"
)

// ---- loading ---------------------------------------------------------------------------------

type source struct {
	fset *token.FileSet
	file *ast.File
	path string
}

func load(rel string) *source {
	fset := token.NewFileSet()
	p := filepath.Join(*repo, rel)
	f, err := parser.ParseFile(fset, p, nil, parser.ParseComments)
	if err != nil {
		panic(err)
	}
	return &source{fset: fset, file: f, path: rel}
}

// fn finds a top-level function or method: "name" or "Recv.name".
func (s *source) fn(name string) *ast.FuncDecl {
	recv := ""
	if i := strings.Index(name, "."); i >= 0 {
		recv, name = name[:i], name[i+1:]
	}
	for _, d := range s.file.Decls {
		fd, ok := d.(*ast.FuncDecl)
		if !ok || fd.Name.Name != name {
			continue
		}
		if recv == "" && fd.Recv == nil {
			return fd
		}
		if recv != "" && fd.Recv != nil && len(fd.Recv.List) == 1 {
			t := fd.Recv.List[0].Type
			if st, ok := t.(*ast.StarExpr); ok {
				t = st.X
			}
			if id, ok := t.(*ast.Ident); ok && id.Name == recv {
				return fd
			}
		}
	}
	return nil
}

func (s *source) pos(n ast.Node) string {
	p := s.fset.Position(n.Pos())
	return fmt.Sprintf("%s:%d", s.path, p.Line)
}

// ---- integer expression translation ----------------------------------------------------------

// A variable known to the translator: Lean name and bit width. Byte-slice indexing at a constant
// (or at `base`, `base+1`) is mapped by the idx callback.
type env struct {
	vars map[string]leanVar
	// idx maps an index expression on a byte slice to a Lean variable (width 8); ok=false if unknown.
	idx func(x *ast.IndexExpr) (string, bool)
	src *source
}

type leanVar struct {
	name  string
	width int
}

var intTypes = map[string]int{"uint8": 8, "byte": 8, "uint16": 16, "uint32": 32, "uint64": 64}

func unknown(s *source, n ast.Node) string {
	return fmt.Sprintf("(unknown_shape %q)", s.pos(n))
}

// trans translates a Go unsigned-integer expression to a Lean BitVec term, respecting Go typing:
// a shift has the type of its left operand, conversions truncate or zero-extend, untyped constants
// take the width asked for by the context (want; 0 = none).
func (e *env) trans(x ast.Expr, want int) (string, int) {
	switch v := x.(type) {
	case *ast.ParenExpr:
		return e.trans(v.X, want)
	case *ast.Ident:
		if lv, ok := e.vars[v.Name]; ok {
			return lv.name, lv.width
		}
		return unknown(e.src, x), want
	case *ast.BasicLit:
		if v.Kind == token.INT && want > 0 {
			n, err := strconv.ParseUint(v.Value, 0, 64)
			if err == nil {
				return fmt.Sprintf("%d#%d", n, want), want
			}
		}
		return unknown(e.src, x), want
	case *ast.IndexExpr:
		if e.idx != nil {
			if name, ok := e.idx(v); ok {
				return name, 8
			}
		}
		return unknown(e.src, x), 8
	case *ast.CallExpr:
		if id, ok := v.Fun.(*ast.Ident); ok && len(v.Args) == 1 {
			if w, ok := intTypes[id.Name]; ok {
				inner, iw := e.trans(v.Args[0], 0)
				if iw == 0 {
					return unknown(e.src, x), w
				}
				if iw == w {
					return inner, w
				}
				return fmt.Sprintf("(BitVec.setWidth %d %s)", w, inner), w
			}
		}
		return unknown(e.src, x), want
	case *ast.BinaryExpr:
		switch v.Op {
		case token.SHL, token.SHR:
			l, lw := e.trans(v.X, want)
			c, ok := v.Y.(*ast.BasicLit)
			if !ok || c.Kind != token.INT || lw == 0 {
				return unknown(e.src, x), lw
			}
			op := "<<<"
			if v.Op == token.SHR {
				op = ">>>"
			}
			return fmt.Sprintf("(%s %s %s)", l, op, c.Value), lw
		case token.ADD, token.OR, token.AND, token.SUB:
			l, lw := e.trans(v.X, want)
			if lw == 0 {
				// maybe the right side fixes the type
				_, rw := e.trans(v.Y, want)
				l, lw = e.trans(v.X, rw)
			}
			r, rw := e.trans(v.Y, lw)
			if lw == 0 || lw != rw {
				return unknown(e.src, x), lw
			}
			op := map[token.Token]string{token.ADD: "+", token.OR: "|||", token.AND: "&&&", token.SUB: "-"}[v.Op]
			return fmt.Sprintf("(%s %s %s)", l, op, r), lw
		}
	}
	return unknown(e.src, x), want
}

// transCond translates a comparison of an integer expression with a constant.
func (e *env) transCond(x ast.Expr) string {
	b, ok := x.(*ast.BinaryExpr)
	if !ok {
		return unknown(e.src, x)
	}
	l, lw := e.trans(b.X, 0)
	if lw == 0 {
		return unknown(e.src, x)
	}
	r, rw := e.trans(b.Y, lw)
	if rw != lw {
		return unknown(e.src, x)
	}
	switch b.Op {
	case token.NEQ:
		return fmt.Sprintf("(%s != %s)", l, r)
	case token.EQL:
		return fmt.Sprintf("(%s == %s)", l, r)
	case token.LSS:
		return fmt.Sprintf("(decide (%s < %s))", l, r)
	case token.GTR:
		return fmt.Sprintf("(decide (%s > %s))", l, r)
	case token.LEQ:
		return fmt.Sprintf("(decide (%s ≤ %s))", l, r)
	case token.GEQ:
		return fmt.Sprintf("(decide (%s ≥ %s))", l, r)
	}
	return unknown(e.src, x)
}

// constIndex recognises xs[<int literal>] on the slice named `slice`.
func constIndex(slice string, names map[int]string) func(x *ast.IndexExpr) (string, bool) {
	return func(x *ast.IndexExpr) (string, bool) {
		id, ok := x.X.(*ast.Ident)
		if !ok || id.Name != slice {
			return "", false
		}
		lit, ok := x.Index.(*ast.BasicLit)
		if !ok || lit.Kind != token.INT {
			return "", false
		}
		n, err := strconv.Atoi(lit.Value)
		if err != nil {
			return "", false
		}
		name, ok := names[n]
		return name, ok
	}
}

// offsetIndex recognises xs[base] and xs[base+1] on the slice named `slice`.
func offsetIndex(slice, base, lo, hi string) func(x *ast.IndexExpr) (string, bool) {
	return func(x *ast.IndexExpr) (string, bool) {
		id, ok := x.X.(*ast.Ident)
		if !ok || id.Name != slice {
			return "", false
		}
		switch ix := x.Index.(type) {
		case *ast.Ident:
			if ix.Name == base {
				return lo, true
			}
		case *ast.BinaryExpr:
			if l, ok := ix.X.(*ast.Ident); ok && l.Name == base && ix.Op == token.ADD {
				if lit, ok := ix.Y.(*ast.BasicLit); ok && lit.Value == "1" {
					return hi, true
				}
			}
		}
		return "", false
	}
}

func intLit(x ast.Expr) (int, bool) {
	lit, ok := x.(*ast.BasicLit)
	if !ok || lit.Kind != token.INT {
		return 0, false
	}
	n, err := strconv.Atoi(lit.Value)
	return n, err == nil
}

func isIdent(x ast.Expr, name string) bool {
	id, ok := x.(*ast.Ident)
	return ok && id.Name == name
}

func isCall(x ast.Expr, fn string) (*ast.CallExpr, bool) {
	c, ok := x.(*ast.CallExpr)
	if !ok {
		return nil, false
	}
	switch f := c.Fun.(type) {
	case *ast.Ident:
		return c, f.Name == fn
	case *ast.SelectorExpr:
		if id, ok := f.X.(*ast.Ident); ok {
			return c, id.Name+"."+f.Sel.Name == fn
		}
	}
	return c, false
}

// isLenCmp recognises `len(<slice>) <op> <int>`.
func isLenCmp(x ast.Expr, slice string) (token.Token, int, bool) {
	b, ok := x.(*ast.BinaryExpr)
	if !ok {
		return 0, 0, false
	}
	c, ok := isCall(b.X, "len")
	if !ok || len(c.Args) != 1 || !isIdent(c.Args[0], slice) {
		return 0, 0, false
	}
	n, ok := intLit(b.Y)
	return b.Op, n, ok
}

// isLogging reports statements that cannot influence the result: calls on a Logger, fmt.Sprintf
// results that are dropped.
func isLogging(s ast.Stmt) bool {
	es, ok := s.(*ast.ExprStmt)
	if !ok {
		return false
	}
	c, ok := es.X.(*ast.CallExpr)
	if !ok {
		return false
	}
	sel, ok := c.Fun.(*ast.SelectorExpr)
	if !ok {
		return false
	}
	switch sel.Sel.Name {
	case "Debugf", "Infof", "Warnf", "Errorf":
		return true
	}
	return false
}

func bodyNoLog(fd *ast.FuncDecl) []ast.Stmt {
	var out []ast.Stmt
	for _, s := range fd.Body.List {
		if !isLogging(s) {
			out = append(out, s)
		}
	}
	return out
}

func exprString(x ast.Expr) string {
	var sb strings.Builder
	fset := token.NewFileSet()
	if err := printerFprint(&sb, fset, x); err != nil {
		return "?"
	}
	return sb.String()
}
