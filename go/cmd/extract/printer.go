package main

import (
	"go/printer"
	"go/token"
	"io"
)

func printerFprint(w io.Writer, fset *token.FileSet, x interface{}) error {
	return printer.Fprint(w, fset, x)
}

func tokenNewFileSet() *token.FileSet { return token.NewFileSet() }
