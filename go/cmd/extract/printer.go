package main

import (
	"go/printer"
	"go/token"
	"io"
)

func printerFprint(w io.Writer, fset *token.FileSet, x interface{}) error {
	return printer.Fprint(w, fset, x)
}
