package main

import (
	"fmt"
	"go/ast"
	"go/token"
	"strings"
)

// iotaConsts evaluates the `const ( a T = iota; b; c )` blocks of a file (plain iota only).
func iotaConsts(s *source) map[string]int {
	res := map[string]int{}
	for _, d := range s.file.Decls {
		gd, ok := d.(*ast.GenDecl)
		if !ok || gd.Tok != token.CONST {
			continue
		}
		isIota := false
		for i, sp := range gd.Specs {
			vs := sp.(*ast.ValueSpec)
			if len(vs.Values) == 1 {
				isIota = isIdent(vs.Values[0], "iota")
				if !isIota {
					if n, ok := intLit(vs.Values[0]); ok && len(vs.Names) == 1 {
						res[vs.Names[0].Name] = n
					}
				}
			}
			if isIota && len(vs.Names) == 1 && (len(vs.Values) == 0 || isIdent(vs.Values[0], "iota")) {
				res[vs.Names[0].Name] = i
			}
			if len(vs.Values) == 1 && !isIdent(vs.Values[0], "iota") {
				isIota = false
			}
		}
	}
	return res
}

// classifyTable reads `func (x *T) ClassifyMsg(msgBytes []byte) (uint8, bool, error)`:
// optional `if len(msgBytes) == 0 { return …, err }`, then `switch msgBytes[0] { case K: return R, B, nil … default: return 0, false, err }`.
func classifyTable(g *strings.Builder, s *source, recv, name string) {
	p := func(format string, a ...interface{}) { fmt.Fprintf(g, format+"\n", a...) }
	fd := s.fn(recv + ".ClassifyMsg")
	if fd == nil {
		p("def %sTable := unknown_shape %q", name, s.path+": ClassifyMsg not found")
		return
	}
	consts := iotaConsts(s)
	emptyRejected := false
	var sw *ast.SwitchStmt
	for _, st := range bodyNoLog(fd) {
		switch v := st.(type) {
		case *ast.IfStmt:
			if op, n, ok := isLenCmp(v.Cond, "msgBytes"); ok && ((op == token.EQL && n == 0) || (op == token.LSS && n == 1)) && len(v.Body.List) == 1 {
				if ret, ok := v.Body.List[0].(*ast.ReturnStmt); ok && len(ret.Results) == 3 && !isIdent(ret.Results[2], "nil") {
					emptyRejected = true
					continue
				}
			}
			p("def %sTable := unknown_shape %q", name, s.pos(v))
			return
		case *ast.SwitchStmt:
			sw = v
		default:
			p("def %sTable := unknown_shape %q", name, s.pos(st))
			return
		}
	}
	if sw == nil || exprString(sw.Tag) != "msgBytes[0]" {
		p("def %sTable := unknown_shape %q", name, s.pos(fd))
		return
	}
	var rows []string
	defaultErr := false
	for _, cc := range sw.Body.List {
		cl := cc.(*ast.CaseClause)
		if len(cl.Body) != 1 {
			p("def %sTable := unknown_shape %q", name, s.pos(cl))
			return
		}
		ret, ok := cl.Body[0].(*ast.ReturnStmt)
		if !ok || len(ret.Results) != 3 {
			p("def %sTable := unknown_shape %q", name, s.pos(cl))
			return
		}
		if cl.List == nil {
			defaultErr = !isIdent(ret.Results[2], "nil")
			continue
		}
		val := func(x ast.Expr) (int, bool) {
			if n, ok := intLit(x); ok {
				return n, true
			}
			if id, ok := x.(*ast.Ident); ok {
				n, ok := consts[id.Name]
				return n, ok
			}
			return 0, false
		}
		for _, kx := range cl.List {
			k, ok1 := val(kx)
			r, ok2 := val(ret.Results[0])
			b := exprString(ret.Results[1])
			if !ok1 || !ok2 || (b != "true" && b != "false") || !isIdent(ret.Results[2], "nil") {
				p("def %sTable := unknown_shape %q", name, s.pos(cl))
				return
			}
			rows = append(rows, fmt.Sprintf("(%d, %d, %s)", k, r, b))
		}
	}
	p("/-- `%s.ClassifyMsg` (%s): (first byte, round, broadcast-class) per case, in source order -/", recv, s.pos(fd))
	p("def %sTable : List (Nat × Nat × Bool) := [%s]", name, strings.Join(rows, ", "))
	p("def %sEmptyRejected : Bool := %v   -- a length test precedes `msgBytes[0]`", name, emptyRejected)
	p("def %sDefaultIsError : Bool := %v", name, defaultErr)
	p("")
}

func genClassify() string {
	var g strings.Builder
	g.WriteString("-- REGENERATED on every run by /verif/go/cmd/extract from /repo — do not edit.\n")
	g.WriteString("-- Classification tables of the built-in DKG backends (mpc/bls, mpc/ps).\n")
	g.WriteString("namespace TSSVerif.Gen.Classify\n\n")
	classifyTable(&g, load("mpc/bls/mpc.go"), "TBLS", "bls")
	classifyTable(&g, load("mpc/ps/tps.go"), "TPS", "ps")
	g.WriteString("end TSSVerif.Gen.Classify\n")
	return g.String()
}
