// Command extract regenerates Lean definitions (TSSVerif/Gen/*.lean) from the current /repo sources.
// Each extractor is deliberately tiny and syntactic. A shape it does not understand becomes
// `unknown_shape "<where>"`, an undefined Lean identifier, so the dependent theorem fails to build.
package main

import (
	"flag"
	"fmt"
	"os"
	"path/filepath"
)

var repo = flag.String("repo", "/repo", "repository root")
var allExtractors = []string{"wire", "wiredisc", "classify", "sites", "boxconsts", "adapter", "blocking", "net", "ps", "locks", "stmts"}

var outDir = flag.String("out", "/verif/lean/TSSVerif/Gen", "output directory for generated Lean files")

func main() {
	flag.Parse()
	which := flag.Args()
	if len(which) == 0 {
		which = []string{"wire"}
	}
	if len(which) == 1 && which[0] == "all" {
		which = allExtractors
	}
	for _, w := range which {
		var name, body string
		switch w {
		case "wire":
			name, body = "Wire", genWire()
		case "wiredisc":
			name, body = "WireDisc", genWireDisc()
		case "classify":
			name, body = "Classify", genClassify()
		case "sites":
			name, body = "Sites", genSites()
		case "boxconsts":
			name, body = "BoxConsts", genBoxConsts()
		case "adapter":
			name, body = "Adapter", genAdapter()
		case "blocking":
			name, body = "Blocking", genBlocking()
		case "net":
			name, body = "Net", genNet()
		case "ps":
			name, body = "Ps", genPs()
		case "locks":
			name, body = "Locks", genLocks()
		case "stmts":
			name, body = "Stmts", genStmts()
		default:
			fmt.Fprintf(os.Stderr, "unknown extractor %q\n", w)
			os.Exit(2)
		}
		p := filepath.Join(*outDir, name+".lean")
		_ = os.Remove(p)
		if err := os.WriteFile(p, []byte(body), 0o644); err != nil {
			fmt.Fprintln(os.Stderr, err)
			os.Exit(2)
		}
		fmt.Printf("generated %s (%d bytes)\n", p, len(body))
	}
}
