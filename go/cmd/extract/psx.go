package main

import (
	"fmt"
	"go/ast"
	"go/token"
	"sort"
	"strings"
)

// genPs extracts, for the functions that make up the PS and BLS schemes:
//   - arith: every statement that does group / scalar / pairing / hash arithmetic, in source order, with the loop
//     headers that enclose it (the equations Model/PsAlgebra.lean transcribes);
//   - aliasing census: every call of a receiver-mutating mathlib method (Add, Sub, Clone, Affine, Mod, InvModP,
//     Inverse) inside the verifying / signing functions, with where its receiver comes from: "fresh" (a local last
//     assigned from Copy / Mul / Mul2 / HashToG1 / a constructor) or "ALIAS" (a parameter, field or element of the
//     object being verified).
func genPs() string {
	var g strings.Builder
	g.WriteString("-- REGENERATED on every run by /verif/go/cmd/extract from /repo — do not edit.\n")
	g.WriteString("-- Arithmetic statements of the PS / BLS functions and the aliasing census of the verifying functions.\n")
	g.WriteString("namespace TSSVerif.Gen.Ps\n\n")
	norm := func(x string) string { return strings.Join(strings.Fields(x), " ") }
	arithWords := []string{".Mul(", ".Mul2(", ".Add(", ".Sub(", ".Copy()", ".Plus(", "ModNeg(", "Pairing2(", "FExp(", "IsUnity()", ".Equals(", "HashToZr(", "HashToG1(", "hash.Write(", "NewRandomZr(", "lagrangeCoefficient(", "commit(", "encrypt(", "randomOracleFor", "proveBlindingIsWellFormed(", "proveProofOfKnowledgeOfSignatureIsCorrectlyFormed(", ".Verify(", "checkcommitmentForm(", "neg(", ".Bytes()"}
	isArith := func(x string) bool {
		for _, w := range arithWords {
			if strings.Contains(x, w) {
				return true
			}
		}
		return false
	}
	var walk func(list []ast.Stmt, out *[]string)
	walk = func(list []ast.Stmt, out *[]string) {
		for _, st := range list {
			switch t := st.(type) {
			case *ast.ForStmt:
				var inner []string
				walk(t.Body.List, &inner)
				if len(inner) > 0 {
					hdr := "for "
					if t.Init != nil {
						hdr += norm(stmtString(t.Init))
					}
					hdr += "; "
					if t.Cond != nil {
						hdr += norm(exprString(t.Cond))
					}
					hdr += "; "
					if t.Post != nil {
						hdr += norm(stmtString(t.Post))
					}
					*out = append(*out, hdr+" {")
					*out = append(*out, inner...)
					*out = append(*out, "}")
				}
			case *ast.RangeStmt:
				var inner []string
				walk(t.Body.List, &inner)
				if len(inner) > 0 {
					*out = append(*out, "for "+norm(exprString(t.Key))+", "+func() string {
						if t.Value != nil {
							return norm(exprString(t.Value))
						}
						return "_"
					}()+" := range "+norm(exprString(t.X))+" {")
					*out = append(*out, inner...)
					*out = append(*out, "}")
				}
			case *ast.IfStmt:
				c := norm(exprString(t.Cond))
				if t.Init != nil {
					c = norm(stmtString(t.Init)) + "; " + c
				}
				var inner []string
				walk(t.Body.List, &inner)
				if isArith(c) || len(inner) > 0 {
					last := ""
					if n := len(t.Body.List); n > 0 {
						if _, ok := t.Body.List[n-1].(*ast.ReturnStmt); ok {
							last = " return"
						}
					}
					*out = append(*out, "if "+c+" {"+last)
					*out = append(*out, inner...)
					*out = append(*out, "}")
				}
			case *ast.BlockStmt:
				walk(t.List, out)
			default:
				x := norm(stmtString(st))
				if isArith(x) {
					// struct literals returned at the end are long; keep them, they fix which value goes into which field
					*out = append(*out, x)
				}
			}
		}
	}
	type fnRef struct{ file, fn, name string }
	fns := []fnRef{
		{"mpc/ps/ps.go", "Blind", "blind"}, {"mpc/ps/ps.go", "commit", "commit"}, {"mpc/ps/ps.go", "encrypt", "encrypt"},
		{"mpc/ps/ps.go", "proveBlindingIsWellFormed", "proveBlinding"}, {"mpc/ps/ps.go", "randomOracleForBlindingProof", "roBlinding"},
		{"mpc/ps/ps.go", "BlindCorrectFormProof.Verify", "verifyBlinding"}, {"mpc/ps/ps.go", "SignBlindSignature", "signBlind"},
		{"mpc/ps/ps.go", "UnBlind", "unblind"}, {"mpc/ps/ps.go", "PoKofSig", "pokOfSig"},
		{"mpc/ps/ps.go", "proveProofOfKnowledgeOfSignatureIsCorrectlyFormed", "provePoK"}, {"mpc/ps/ps.go", "randomOracleForPoKofSignature", "roPoK"},
		{"mpc/ps/ps.go", "PoKofSignaturePoCorrectForm.Verify", "verifyPoKForm"}, {"mpc/ps/ps.go", "PoKofSignaturePoCorrectForm.checkcommitmentForm", "checkCommitmentForm"},
		{"mpc/ps/ps.go", "SigPoK.Verify", "verifySigPoK"}, {"mpc/ps/ps.go", "LocalKeyGen", "localKeyGen"},
		{"mpc/ps/prover.go", "Prover.ProveKnowledgeOfSignature", "proveKnowledge"}, {"mpc/ps/prover.go", "Prover.UnBlind", "proverUnBlind"},
		{"mpc/bls/tbls.go", "localSign", "blsSign"}, {"mpc/bls/tbls.go", "localVerify", "blsVerify"},
		{"mpc/bls/tbls.go", "localAggregateSignatures", "blsAggregateSignatures"}, {"mpc/bls/tbls.go", "localAggregatePublicKeys", "blsAggregatePublicKeys"},
		{"mpc/bls/tbls.go", "localCreatePublicKeys", "blsCreatePublicKeys"},
	}
	srcs := map[string]*source{}
	get := func(f string) *source {
		if srcs[f] == nil {
			srcs[f] = load(f)
		}
		return srcs[f]
	}
	for _, f := range fns {
		fd := get(f.file).fn(f.fn)
		if fd == nil {
			fmt.Fprintf(&g, "def %s := unknown_shape %q\n", f.name, f.file+": "+f.fn)
			continue
		}
		var out []string
		walk(fd.Body.List, &out)
		fmt.Fprintf(&g, "def %s : List String := [\n", f.name)
		for i, x := range out {
			sep := ","
			if i == len(out)-1 {
				sep = ""
			}
			fmt.Fprintf(&g, "  %q%s\n", x, sep)
		}
		g.WriteString("]\n")
	}
	// --- aliasing census ---
	mutating := map[string]bool{"Add": true, "Sub": true, "Clone": true, "Affine": true, "Mod": true, "InvModP": true, "Inverse": true}
	freshCall := func(rhs string) bool {
		for _, w := range []string{".Copy()", ".Mul(", ".Mul2(", "HashToG1(", "HashToG2(", "NewG1FromBytes(", "NewG2FromBytes(", "NewZrFromBytes(", "HashToZr(", ".Plus(", "ModNeg(", "NewRandomZr(", "neg(", "commit(", "Pairing2(", "FExp("} {
			if strings.Contains(rhs, w) {
				return true
			}
		}
		return false
	}
	census := []fnRef{
		{"mpc/ps/ps.go", "BlindCorrectFormProof.Verify", ""}, {"mpc/ps/ps.go", "PoKofSignaturePoCorrectForm.Verify", ""},
		{"mpc/ps/ps.go", "PoKofSignaturePoCorrectForm.checkcommitmentForm", ""}, {"mpc/ps/ps.go", "SigPoK.Verify", ""},
		{"mpc/ps/ps.go", "SignBlindSignature", ""}, {"mpc/ps/ps.go", "UnBlind", ""}, {"mpc/ps/ps.go", "neg", ""},
		{"mpc/ps/verifier.go", "Verifier.Verify", ""}, {"mpc/ps/prover.go", "Prover.UnBlind", ""}, {"mpc/ps/prover.go", "Prover.ProveKnowledgeOfSignature", ""},
		{"mpc/bls/tbls.go", "localVerify", ""}, {"mpc/bls/tbls.go", "localAggregateSignatures", ""}, {"mpc/bls/tbls.go", "localAggregatePublicKeys", ""},
		{"mpc/bls/verifier.go", "Verifier.Verify", ""}, {"mpc/bls/verifier.go", "Verifier.AggregateSignatures", ""},
	}
	var rows []string
	for _, f := range census {
		s := get(f.file)
		fd := s.fn(f.fn)
		if fd == nil {
			rows = append(rows, f.file+"|"+f.fn+"|?|MISSING")
			continue
		}
		// assignments to identifiers, by position
		type asg struct {
			pos token.Pos
			rhs string
		}
		assigns := map[string][]asg{}
		ast.Inspect(fd.Body, func(n ast.Node) bool {
			if a, ok := n.(*ast.AssignStmt); ok && len(a.Lhs) == len(a.Rhs) {
				for i, l := range a.Lhs {
					if id, ok := l.(*ast.Ident); ok {
						assigns[id.Name] = append(assigns[id.Name], asg{a.Pos(), norm(exprString(a.Rhs[i]))})
					}
				}
			}
			return true
		})
		ast.Inspect(fd.Body, func(n ast.Node) bool {
			c, ok := n.(*ast.CallExpr)
			if !ok {
				return true
			}
			sel, ok := c.Fun.(*ast.SelectorExpr)
			if !ok || !mutating[sel.Sel.Name] {
				return true
			}
			recv := norm(exprString(sel.X))
			kind := "ALIAS"
			origin := "parameter, field or element"
			if id, ok := sel.X.(*ast.Ident); ok {
				var last *asg
				for i := range assigns[id.Name] {
					a := assigns[id.Name][i]
					if a.pos < c.Pos() && (last == nil || a.pos > last.pos) {
						last = &assigns[id.Name][i]
					}
				}
				if last != nil {
					origin = last.rhs
					if freshCall(last.rhs) {
						kind = "fresh"
					} else if last2, ok := assigns[last.rhs]; ok && len(last2) > 0 && freshCall(last2[len(last2)-1].rhs) {
						// one step of renaming (sum := zero)
						kind = "fresh"
						origin = last.rhs + " := " + last2[len(last2)-1].rhs
					}
				}
			}
			rows = append(rows, fmt.Sprintf("%s|%s|%s.%s|%s|%s", f.file, f.fn, recv, sel.Sel.Name, kind, origin))
			return true
		})
	}
	sort.Strings(rows)
	g.WriteString("def aliasCensus : List String := [\n")
	for i, x := range rows {
		sep := ","
		if i == len(rows)-1 {
			sep = ""
		}
		fmt.Fprintf(&g, "  %q%s\n", x, sep)
	}
	g.WriteString("]\n")
	g.WriteString("def aliasKinds : List String := [")
	for i, x := range rows {
		if i > 0 {
			g.WriteString(", ")
		}
		parts := strings.Split(x, "|")
		k := "?"
		if len(parts) >= 4 {
			k = parts[3]
		}
		fmt.Fprintf(&g, "%q", k)
	}
	g.WriteString("]\n")
	g.WriteString("\nend TSSVerif.Gen.Ps\n")
	return g.String()
}
