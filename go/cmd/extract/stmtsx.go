package main

import (
	"fmt"
	"go/ast"
	"strings"
)

// genStmts lists, for the functions the hand-written models were transcribed from, every statement in source order
// (whitespace-normalised, pure logging calls left out, loop / branch headers kept, function literals expanded), one Lean
// definition per function. Each property's Props file pins the lists of its functions against the committed
// transcription source (Model/StmtsExpected.lean): a change of any of these functions - harmless or not - makes that
// proof obligation fail, and the property's differential and monitored runs are then the search for a failing input.
func genStmts() string {
	var g strings.Builder
	g.WriteString("-- REGENERATED on every run by /verif/go/cmd/extract from /repo — do not edit.\n")
	g.WriteString("-- Statement lists of the functions the hand-written models were transcribed from.\n")
	g.WriteString("namespace TSSVerif.Gen.Stmts\n\n")
	norm := func(x string) string { return strings.Join(strings.Fields(x), " ") }
	var walk func(list []ast.Stmt, out *[]string)
	var lits func(n ast.Node, out *[]string)
	lits = func(n ast.Node, out *[]string) {
		// function literals inside a statement: their bodies follow, bracketed
		ast.Inspect(n, func(x ast.Node) bool {
			if fl, ok := x.(*ast.FuncLit); ok {
				*out = append(*out, "func-literal {")
				walk(fl.Body.List, out)
				*out = append(*out, "}")
				return false
			}
			return true
		})
	}
	short := func(x string) string {
		// a statement that contains a function literal is printed up to the literal's opening brace
		if i := strings.Index(x, "func("); i >= 0 {
			if j := strings.Index(x[i:], "{"); j >= 0 {
				return x[:i+j+1] + " … }"
			}
		}
		return x
	}
	walk = func(list []ast.Stmt, out *[]string) {
		for _, st := range list {
			if isLogging(st) {
				continue
			}
			switch t := st.(type) {
			case *ast.ForStmt:
				hdr := "for "
				if t.Init != nil {
					hdr += norm(stmtString(t.Init))
				}
				hdr += "; "
				if t.Cond != nil {
					hdr += norm(exprString(t.Cond))
				}
				hdr += "; "
				if t.Post != nil {
					hdr += norm(stmtString(t.Post))
				}
				*out = append(*out, hdr+" {")
				walk(t.Body.List, out)
				*out = append(*out, "}")
			case *ast.RangeStmt:
				k, v := "_", "_"
				if t.Key != nil {
					k = norm(exprString(t.Key))
				}
				if t.Value != nil {
					v = norm(exprString(t.Value))
				}
				*out = append(*out, "for "+k+", "+v+" := range "+short(norm(exprString(t.X)))+" {")
				lits(t.X, out)
				walk(t.Body.List, out)
				*out = append(*out, "}")
			case *ast.IfStmt:
				c := short(norm(exprString(t.Cond)))
				if t.Init != nil {
					c = short(norm(stmtString(t.Init))) + "; " + c
					lits(t.Init, out)
				}
				*out = append(*out, "if "+c+" {")
				lits(t.Cond, out)
				walk(t.Body.List, out)
				if t.Else != nil {
					*out = append(*out, "} else {")
					if b, ok := t.Else.(*ast.BlockStmt); ok {
						walk(b.List, out)
					} else {
						walk([]ast.Stmt{t.Else}, out)
					}
				}
				*out = append(*out, "}")
			case *ast.BlockStmt:
				*out = append(*out, "{")
				walk(t.List, out)
				*out = append(*out, "}")
			case *ast.SwitchStmt:
				h := "switch "
				if t.Init != nil {
					h += norm(stmtString(t.Init)) + "; "
				}
				if t.Tag != nil {
					h += norm(exprString(t.Tag))
				}
				*out = append(*out, h+" {")
				for _, c := range t.Body.List {
					cc := c.(*ast.CaseClause)
					if cc.List == nil {
						*out = append(*out, "default:")
					} else {
						var es []string
						for _, e := range cc.List {
							es = append(es, norm(exprString(e)))
						}
						*out = append(*out, "case "+strings.Join(es, ", ")+":")
					}
					walk(cc.Body, out)
				}
				*out = append(*out, "}")
			case *ast.SelectStmt:
				*out = append(*out, "select {")
				for _, c := range t.Body.List {
					cc := c.(*ast.CommClause)
					if cc.Comm == nil {
						*out = append(*out, "default:")
					} else {
						*out = append(*out, "case "+norm(stmtString(cc.Comm))+":")
					}
					walk(cc.Body, out)
				}
				*out = append(*out, "}")
			case *ast.LabeledStmt:
				*out = append(*out, t.Label.Name+":")
				walk([]ast.Stmt{t.Stmt}, out)
			default:
				*out = append(*out, short(norm(stmtString(st))))
				lits(st, out)
			}
		}
	}
	type fref struct{ file, fn string }
	groups := []struct {
		name string
		fns  []fref
	}{
		{"disc", []fref{{"disc/discovery.go", "Member.Synchronize"}, {"disc/discovery.go", "Member.intersectedView"}, {"disc/discovery.go", "Member.myMemberViewSorted"},
			{"disc/discovery.go", "Member.registerInterestInTopic"}, {"disc/discovery.go", "Member.precomputeTagsForTopic"}, {"disc/discovery.go", "Member.HandleMessage"},
			{"disc/discovery.go", "Member.handleResponse"}, {"disc/discovery.go", "Member.handleMembershipMessage"}, {"disc/discovery.go", "Member.respondToQuery"}}},
		{"rbc", []fref{{"rbc/rbc.go", "Receiver.Receive"}, {"rbc/rbc.go", "Receiver.registerMsg"}, {"rbc/rbc.go", "Receiver.initIfNeeded"},
			{"threshold/threshold.go", "Scheme.handleMPC"}, {"threshold/threshold.go", "Scheme.handleRBC"}, {"threshold/threshold.go", "Scheme.handleAck"},
			{"threshold/threshold.go", "rbcFilter.Receive"}, {"threshold/threshold.go", "threadSafeRBC.Receive"},
			{"threshold/threshold.go", "Scheme.runDKG"}, {"threshold/threshold.go", "Scheme.prepareSigning"}}},
		{"dkg", []fref{{"mpc/bls/mpc.go", "TBLS.OnMsg"}, {"mpc/bls/mpc.go", "TBLS.KeyGen"}, {"mpc/bls/mpc.go", "TBLS.waitForShareDistribution"},
			{"mpc/bls/mpc.go", "TBLS.waitForCommitmentDistribution"}, {"mpc/bls/mpc.go", "TBLS.waitForDeCommitmentDistribution"}, {"mpc/bls/mpc.go", "TBLS.combineShares"},
			{"mpc/bls/mpc.go", "TBLS.commitPhase"}, {"mpc/bls/mpc.go", "TBLS.revealPhase"}, {"mpc/bls/mpc.go", "TBLS.shareDistribution"},
			{"mpc/bls/mpc.go", "TBLS.validateCommitments"}, {"mpc/bls/mpc.go", "TBLS.assembleThresholdPublicKey"}, {"mpc/bls/mpc.go", "TBLS.Init"},
			{"mpc/bls/mpc.go", "TBLS.monitorContextTimeout"}, {"mpc/ps/tps.go", "TPS.monitorContextTimeout"},
			{"mpc/ps/tps.go", "TPS.OnMsg"}, {"mpc/ps/tps.go", "TPS.KeyGen"}, {"mpc/ps/tps.go", "TPS.waitForShareDistribution"},
			{"mpc/ps/tps.go", "TPS.waitForCommitmentDistribution"}, {"mpc/ps/tps.go", "TPS.waitForDeCommitmentDistribution"}, {"mpc/ps/tps.go", "TPS.combineShares"},
			{"mpc/ps/tps.go", "TPS.commitPhase"}, {"mpc/ps/tps.go", "TPS.revealPhase"}, {"mpc/ps/tps.go", "TPS.shareDistribution"},
			{"mpc/ps/tps.go", "TPS.validateCommitments"}, {"mpc/ps/tps.go", "TPS.assembleThresholdPublicKey"}, {"mpc/ps/tps.go", "TPS.Init"}}},
		{"dkgps", []fref{{"mpc/ps/tps.go", "TPS.OnMsg"}, {"mpc/ps/tps.go", "TPS.KeyGen"}, {"mpc/ps/tps.go", "TPS.waitForShareDistribution"},
			{"mpc/ps/tps.go", "TPS.waitForCommitmentDistribution"}, {"mpc/ps/tps.go", "TPS.waitForDeCommitmentDistribution"}, {"mpc/ps/tps.go", "TPS.combineShares"},
			{"mpc/ps/tps.go", "TPS.commitPhase"}, {"mpc/ps/tps.go", "TPS.revealPhase"}, {"mpc/ps/tps.go", "TPS.shareDistribution"},
			{"mpc/ps/tps.go", "TPS.validateCommitments"}, {"mpc/ps/tps.go", "TPS.assembleThresholdPublicKey"}, {"mpc/ps/tps.go", "TPS.Init"},
			{"mpc/ps/tps.go", "TPS.monitorContextTimeout"}}},
		{"box", []fref{{"msg/msgbox.go", "Box.HandleMessage"}, {"msg/msgbox.go", "Box.storeOrForward"}, {"msg/msgbox.go", "Box.Send"},
			{"msg/msgbox.go", "Box.getOrCreateMessagesByTopic"}, {"msg/msgbox.go", "Box.markTopicForSender"}, {"msg/msgbox.go", "storedMessages.add"},
			{"msg/msgbox.go", "Box.maybeGC"}, {"msg/msgbox.go", "Box.mark"}, {"msg/msgbox.go", "Box.sweep"}, {"msg/msgbox.go", "Box.startClock"}}},
		{"translate", []fref{{"threshold/threshold.go", "computeMembership"}, {"threshold/threshold.go", "membership.partyIDsByUniversalIDs"},
			{"threshold/threshold.go", "membership.universalIDsByPartyIDs"}, {"threshold/threshold.go", "membership.partyIDByUniversalID"},
			{"threshold/threshold.go", "Scheme.initializeDKG"}, {"threshold/threshold.go", "Scheme.initializeThresholdSigning"}}},
		{"orch", []fref{{"threshold/threshold.go", "Scheme.KeyGen"}, {"threshold/threshold.go", "Scheme.runDKG"}, {"threshold/threshold.go", "Scheme.Sign"},
			{"threshold/threshold.go", "Scheme.prepareSigning"}, {"threshold/threshold.go", "Scheme.initializeHandlers"}, {"threshold/threshold.go", "Scheme.initializeSyncForSigning"},
			{"threshold/threshold.go", "Scheme.registerWhileActive"}, {"threshold/threshold.go", "Scheme.ensureDKGNotRunning"}, {"threshold/threshold.go", "Scheme.runSigningProtocol"},
			{"threshold/threshold.go", "Scheme.HandleMessage"}, {"threshold/threshold.go", "Scheme.handleSync"}, {"threshold/threshold.go", "Scheme.initializeDKG"}, {"threshold/threshold.go", "Scheme.initializeThresholdSigning"}}},
		{"auth", []fref{{"net/net.go", "handleConn"}, {"net/net.go", "authenticateConnection"}, {"net/net.go", "sha256Digest"},
			{"net/net.go", "extractTLSBinding"}, {"net/net.go", "Handshake.Read"}, {"net/net.go", "Handshake.Write"}, {"net/net.go", "Handshake.Bytes"},
			{"net/net.go", "ServiceConnections"}}},
		{"net", []fref{{"net/net.go", "handleConn"}, {"net/net.go", "readMsg"},
			{"net/net.go", "remoteParty.sendMessages"}, {"net/net.go", "remoteParty.send"}, {"net/net.go", "remoteParty.maybeConnect"}, {"net/net.go", "outChan.enqueue"},
			{"net/net.go", "SocketRemoteParties.Send"}, {"net/net.go", "ServiceConnections"}, {"net/net.go", "remoteParty.startOnce"}}},
		{"sss", []fref{{"mpc/bls/sss.go", "Polynomial.ValueAt"}, {"mpc/bls/sss.go", "Shares.reconstruct"}, {"mpc/bls/sss.go", "SSS.Gen"}, {"mpc/bls/sss.go", "lagrangeCoefficient"},
			{"mpc/bls/choose.go", "chooseKoutOfN"}, {"mpc/bls/choose.go", "choose"}, {"mpc/bls/choose.go", "concatInts"},
			{"mpc/bls/tbls.go", "localCreatePublicKeys"}, {"mpc/bls/tbls.go", "localAggregatePublicKeys"}, {"mpc/bls/tbls.go", "localAggregateSignatures"},
			{"mpc/ps/sss.go", "Polynomial.ValueAt"}, {"mpc/ps/sss.go", "Shares.reconstruct"}, {"mpc/ps/sss.go", "SSS.Gen"}, {"mpc/ps/sss.go", "lagrangeCoefficient"},
			{"mpc/ps/choose.go", "chooseKoutOfN"}, {"mpc/ps/choose.go", "choose"}, {"mpc/ps/choose.go", "concatInts"},
			{"mpc/ps/tps.go", "localAggregatePublicKeys"}, {"mpc/ps/tps.go", "localAggregateECPoints"},
			{"mpc/bls/mpc.go", "TBLS.assembleThresholdPublicKey"}, {"mpc/ps/tps.go", "TPS.assembleThresholdPublicKey"}}},
		{"adapter", []fref{{"mpc/binance/ecdsa/mpc.go", "party.ClassifyMsg"}, {"mpc/binance/ecdsa/mpc.go", "party.OnMsg"}, {"mpc/binance/ecdsa/mpc.go", "party.Sign"},
			{"mpc/binance/ecdsa/mpc.go", "hashToInt"}, {"mpc/binance/ecdsa/mpc.go", "digest"}, {"mpc/binance/ecdsa/mpc.go", "party.sendMessages"},
			{"mpc/binance/ecdsa/mpc.go", "party.Init"}, {"mpc/binance/ecdsa/mpc.go", "party.locatePartyIndex"}, {"mpc/binance/ecdsa/mpc.go", "partyIDsFromNumbers"},
			{"mpc/binance/eddsa/mpc.go", "party.ClassifyMsg"}, {"mpc/binance/eddsa/mpc.go", "party.OnMsg"}, {"mpc/binance/eddsa/mpc.go", "party.Sign"},
			{"mpc/binance/eddsa/mpc.go", "digest"}, {"mpc/binance/eddsa/mpc.go", "party.sendMessages"}, {"mpc/binance/eddsa/mpc.go", "party.Init"},
			{"mpc/binance/eddsa/mpc.go", "party.locatePartyIndex"}, {"mpc/binance/eddsa/mpc.go", "partyIDsFromNumbers"}, {"mpc/binance/eddsa/mpc.go", "copyBytes"}}},
	}
	srcs := map[string]*source{}
	usedNames := map[string]bool{}
	for _, grp := range groups {
		var names []string
		for _, f := range grp.fns {
			if srcs[f.file] == nil {
				srcs[f.file] = load(f.file)
			}
			fd := srcs[f.file].fn(f.fn)
			name := grp.name + "_" + strings.NewReplacer(".", "_", "/", "_").Replace(strings.TrimSuffix(f.file[strings.LastIndex(f.file, "/")+1:], ".go")+"_"+f.fn)
			if usedNames[name] { // same file and function name in another directory (the two adapters, the two sss.go copies)
				dir := f.file[:strings.LastIndex(f.file, "/")]
				name = grp.name + "_" + strings.NewReplacer(".", "_", "/", "_").Replace(dir[strings.LastIndex(dir, "/")+1:]+"_"+strings.TrimSuffix(f.file[strings.LastIndex(f.file, "/")+1:], ".go")+"_"+f.fn)
			}
			usedNames[name] = true
			names = append(names, name)
			if fd == nil {
				// (a string, not a build error: only the group that pins this function stops checking)
				fmt.Fprintf(&g, "def %s : List String := [%q]\n", name, "<function not found: "+f.file+": "+f.fn+">")
				continue
			}
			var out []string
			walk(fd.Body.List, &out)
			fmt.Fprintf(&g, "def %s : List String := [\n", name)
			for i, x := range out {
				sep := ","
				if i == len(out)-1 {
					sep = ""
				}
				fmt.Fprintf(&g, "  %q%s\n", x, sep)
			}
			g.WriteString("]\n")
		}
		// the group as one list of lists, so that a property pins a whole group with one equation
		fmt.Fprintf(&g, "def %s : List (List String) := [%s]\n\n", grp.name, strings.Join(names, ", "))
	}
	g.WriteString("end TSSVerif.Gen.Stmts\n")
	return g.String()
}
