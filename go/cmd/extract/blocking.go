package main

import (
	"fmt"
	"go/ast"
	"strings"
)

var blockingFuncs = map[string][]string{
	"threshold/threshold.go":   {"Scheme.KeyGen", "Scheme.runDKG", "Scheme.Sign", "Scheme.runSigningProtocol"},
	"disc/discovery.go":        {"Member.Synchronize"},
	"mpc/bls/mpc.go":           {"TBLS.KeyGen", "TBLS.waitForShareDistribution", "TBLS.waitForCommitmentDistribution", "TBLS.waitForDeCommitmentDistribution", "TBLS.monitorContextTimeout"},
	"mpc/ps/tps.go":            {"TPS.KeyGen", "TPS.waitForShareDistribution", "TPS.waitForCommitmentDistribution", "TPS.waitForDeCommitmentDistribution", "TPS.monitorContextTimeout"},
	"mpc/binance/ecdsa/mpc.go": {"party.KeyGen", "party.Sign", "party.sendMessages"},
	"mpc/binance/eddsa/mpc.go": {"party.KeyGen", "party.Sign", "party.sendMessages"},
}

// genBlocking lists every construct that can block in the functions a KeyGen/Sign call runs in, with
// the escape it has: a `ctx.Done()` (or close-channel) case, a `default`, or an enclosing loop that tests
// the context before waiting.
func genBlocking() string {
	var g strings.Builder
	g.WriteString("-- REGENERATED on every run by /verif/go/cmd/extract from /repo — do not edit.\n")
	g.WriteString("-- Census of blocking constructs (select, channel send/receive outside select, Wait) in the functions of a KeyGen/Sign call:\n")
	g.WriteString("-- (file|function|construct, escape) with escape in ctx | default | loop-ctx | closechan | none.\n")
	g.WriteString("namespace TSSVerif.Gen.Blocking\n\ndef sites : List (String × String) := [\n")
	var rows []string
	files := make([]string, 0)
	for f := range blockingFuncs {
		files = append(files, f)
	}
	sortStrings(files)
	for _, f := range files {
		s := load(f)
		for _, fn := range blockingFuncs[f] {
			fd := s.fn(fn)
			if fd == nil {
				rows = append(rows, fmt.Sprintf("  (%q, %q)", f+"|"+fn+"|missing", "none"))
				continue
			}
			inSelect := map[ast.Node]bool{}
			var walk func(n ast.Node, loopHasCtx bool)
			walk = func(n ast.Node, loopHasCtx bool) {
				ast.Inspect(n, func(x ast.Node) bool {
					switch v := x.(type) {
					case *ast.ForStmt:
						has := strings.Contains(exprString2(v), "contextTimedOut") || strings.Contains(exprString2(v), "ctx.Done()")
						if v.Cond != nil {
							walk(v.Cond, loopHasCtx)
						}
						walk(v.Body, has || loopHasCtx)
						return false
					case *ast.SelectStmt:
						esc := "none"
						var cases []string
						for _, c := range v.Body.List {
							cc := c.(*ast.CommClause)
							if cc.Comm == nil {
								esc = "default"
								cases = append(cases, "default")
								continue
							}
							inSelect[cc.Comm] = true
							txt := strings.Join(strings.Fields(exprString2(cc.Comm)), " ")
							cases = append(cases, txt)
							if strings.Contains(txt, "ctx.Done()") && esc == "none" {
								esc = "ctx"
							}
							if (strings.Contains(txt, "closeChan") || strings.Contains(txt, "keygenFinished") || strings.Contains(txt, "stopChan")) && esc == "none" {
								esc = "closechan"
							}
							ast.Inspect(cc.Comm, func(y ast.Node) bool {
								inSelect[y] = true
								return true
							})
						}
						rows = append(rows, fmt.Sprintf("  (%q, %q)", f+"|"+fn+"|select{"+strings.Join(cases, "; ")+"}", esc))
					case *ast.SendStmt:
						if !inSelect[v] {
							rows = append(rows, fmt.Sprintf("  (%q, %q)", f+"|"+fn+"|send "+strings.Join(strings.Fields(exprString2(v.Chan)), " "), "none"))
						}
					case *ast.UnaryExpr:
						if v.Op.String() == "<-" && !inSelect[v] {
							rows = append(rows, fmt.Sprintf("  (%q, %q)", f+"|"+fn+"|recv "+strings.Join(strings.Fields(exprString2(v.X)), " "), "none"))
						}
					case *ast.CallExpr:
						if sel, ok := v.Fun.(*ast.SelectorExpr); ok && sel.Sel.Name == "Wait" {
							esc := "none"
							if loopHasCtx {
								esc = "loop-ctx"
							}
							rows = append(rows, fmt.Sprintf("  (%q, %q)", f+"|"+fn+"|"+strings.Join(strings.Fields(exprString2(v)), " "), esc))
						}
					}
					return true
				})
			}
			walk(fd.Body, false)
		}
	}
	seen := map[string]bool{}
	var uniq []string
	for _, r := range rows {
		if !seen[r] {
			seen[r] = true
			uniq = append(uniq, r)
		}
	}
	g.WriteString(strings.Join(uniq, ",\n"))
	g.WriteString("\n]\n\nend TSSVerif.Gen.Blocking\n")
	return g.String()
}

func sortStrings(l []string) {
	for i := 1; i < len(l); i++ {
		for j := i; j > 0 && l[j] < l[j-1]; j-- {
			l[j], l[j-1] = l[j-1], l[j]
		}
	}
}
