package main

import (
	"fmt"
	"go/ast"
	"go/parser"
	"go/token"
	"os"
	"os/exec"
	"path/filepath"
	"regexp"
	"sort"
	"strconv"
	"strings"
)

func modCache() string {
	if v := os.Getenv("GOMODCACHE"); v != "" {
		return v
	}
	if out, err := exec.Command("go", "env", "GOMODCACHE").Output(); err == nil && strings.TrimSpace(string(out)) != "" {
		return strings.TrimSpace(string(out))
	}
	return filepath.Join(os.Getenv("HOME"), "go", "pkg", "mod")
}

// tssLibDir finds the tss-lib version pinned by the adapter's go.mod in the module cache.
func tssLibDir(adapter string) (string, string) {
	b, err := os.ReadFile(filepath.Join(*repo, "mpc/binance", adapter, "go.mod"))
	if err != nil {
		return "", ""
	}
	m := regexp.MustCompile(`github.com/bnb-chain/tss-lib/v2 (v[0-9A-Za-z.\-+]+)`).FindSubmatch(b)
	if m == nil {
		return "", ""
	}
	return filepath.Join(modCache(), "github.com/bnb-chain/tss-lib/v2@"+string(m[1])), string(m[1])
}

// mapLiteral reads a package-level `name = map[string]T{ "k": v, ... }`; values as printed.
func mapLiteral(s *source, name string) ([][2]string, bool) {
	var res [][2]string
	found := false
	ast.Inspect(s.file, func(n ast.Node) bool {
		vs, ok := n.(*ast.ValueSpec)
		if !ok || found {
			return true
		}
		for i, id := range vs.Names {
			if id.Name != name || i >= len(vs.Values) {
				continue
			}
			cl, ok := vs.Values[i].(*ast.CompositeLit)
			if !ok {
				continue
			}
			found = true
			for _, el := range cl.Elts {
				kv, ok := el.(*ast.KeyValueExpr)
				if !ok {
					found = false
					return false
				}
				k, ok := kv.Key.(*ast.BasicLit)
				if !ok || k.Kind != token.STRING {
					found = false
					return false
				}
				ks, _ := strconv.Unquote(k.Value)
				res = append(res, [2]string{ks, exprString(kv.Value)})
			}
		}
		return true
	})
	return res, found
}

// libMessages reads every `func NewX(...) tss.ParsedMessage` of a tss-lib messages.go: the content
// type (`content := &T{`) and the IsBroadcast literal of its routing.
func libMessages(path string) ([][2]string, error) {
	fset := token.NewFileSet()
	f, err := parser.ParseFile(fset, path, nil, 0)
	if err != nil {
		return nil, err
	}
	var res [][2]string
	for _, d := range f.Decls {
		fd, ok := d.(*ast.FuncDecl)
		if !ok || fd.Recv != nil || !strings.HasPrefix(fd.Name.Name, "New") || fd.Body == nil {
			continue
		}
		typ, bc := "", ""
		ast.Inspect(fd.Body, func(n ast.Node) bool {
			switch v := n.(type) {
			case *ast.KeyValueExpr:
				if isIdent(v.Key, "IsBroadcast") {
					bc = exprString(v.Value)
				}
			case *ast.AssignStmt:
				if len(v.Lhs) == 1 && isIdent(v.Lhs[0], "content") && len(v.Rhs) == 1 {
					if u, ok := v.Rhs[0].(*ast.UnaryExpr); ok && u.Op == token.AND {
						if cl, ok := u.X.(*ast.CompositeLit); ok {
							typ = exprString(cl.Type)
						}
					}
				}
			}
			return true
		})
		if typ == "" || (bc != "true" && bc != "false") {
			return nil, fmt.Errorf("%s: %s: content type %q, IsBroadcast %q not understood", path, fd.Name.Name, typ, bc)
		}
		res = append(res, [2]string{typ, bc})
	}
	return res, nil
}

func genAdapter() string {
	var g strings.Builder
	g.WriteString("-- REGENERATED on every run by /verif/go/cmd/extract from /repo and the pinned tss-lib sources — do not edit.\n")
	g.WriteString("namespace TSSVerif.Gen.Adapter\n\n")
	for _, ad := range []string{"ecdsa", "eddsa"} {
		s := load("mpc/binance/" + ad + "/mpc.go")
		rounds, ok1 := mapLiteral(s, "msgURL2Round")
		bcast, ok2 := mapLiteral(s, "broadcastMessages")
		if !ok1 || !ok2 {
			fmt.Fprintf(&g, "def %sRounds := unknown_shape %q\n", ad, s.path+": table literals")
			continue
		}
		fmt.Fprintf(&g, "/-- `msgURL2Round` of mpc/binance/%s/mpc.go -/\ndef %sRounds : List (String × Nat) := [\n", ad, ad)
		for i, kv := range rounds {
			sep := ","
			if i == len(rounds)-1 {
				sep = ""
			}
			fmt.Fprintf(&g, "  (%q, %s)%s\n", kv[0], kv[1], sep)
		}
		g.WriteString("]\n")
		fmt.Fprintf(&g, "/-- keys of `broadcastMessages` -/\ndef %sBroadcast : List String := [\n", ad)
		for i, kv := range bcast {
			sep := ","
			if i == len(bcast)-1 {
				sep = ""
			}
			fmt.Fprintf(&g, "  %q%s\n", kv[0], sep)
		}
		g.WriteString("]\n")
		// ClassifyMsg: `if round > K { round = round - K }`
		fd := s.fn("party.ClassifyMsg")
		thr, sub := "", ""
		if fd != nil {
			ast.Inspect(fd, func(n ast.Node) bool {
				ifs, ok := n.(*ast.IfStmt)
				if !ok {
					return true
				}
				if b, ok := ifs.Cond.(*ast.BinaryExpr); ok && b.Op == token.GTR && isIdent(b.X, "round") && len(ifs.Body.List) == 1 {
					if as, ok := ifs.Body.List[0].(*ast.AssignStmt); ok && len(as.Rhs) == 1 {
						if bb, ok := as.Rhs[0].(*ast.BinaryExpr); ok && bb.Op == token.SUB && isIdent(bb.X, "round") {
							thr, sub = exprString(b.Y), exprString(bb.Y)
						}
					}
				}
				return true
			})
		}
		if thr == "" {
			fmt.Fprintf(&g, "def %sPhaseShift := unknown_shape %q\n", ad, s.path+": ClassifyMsg round adjustment")
		} else {
			fmt.Fprintf(&g, "/-- `if round > %s { round = round - %s }` -/\ndef %sPhaseShift : Nat × Nat := (%s, %s)\n", thr, sub, ad, thr, sub)
		}
		fmt.Fprintf(&g, "def %sSenderCheck : String := %q\n", ad, cmpAny(s, "party.OnMsg", "claimedFrom"))
		fmt.Fprintf(&g, "def %sKeyRangeCheck : String := %q\n", ad, cmpAny(s, "party.OnMsg", "MaxUint16"))
		fmt.Fprintf(&g, "def %sDigestCheck : String := %q\n", ad, cmpAny(s, "party.Sign", "sigOut.M"))
		// library side
		dir, ver := tssLibDir(ad)
		fmt.Fprintf(&g, "/-- message constructors of tss-lib %s (%s): (phase, type URL, IsBroadcast) -/\ndef %sLib : List (String × String × Bool) := [\n", ver, ad, ad)
		var rows []string
		for _, phase := range []string{"keygen", "signing"} {
			msgs, err := libMessages(filepath.Join(dir, ad, phase, "messages.go"))
			if err != nil {
				rows = append(rows, fmt.Sprintf("  unknown_shape %q", err.Error()))
				continue
			}
			for _, m := range msgs {
				rows = append(rows, fmt.Sprintf("  (%q, %q, %s)", phase, "type.googleapis.com/binance.tsslib."+ad+"."+phase+"."+m[0], m[1]))
			}
		}
		sort.Strings(rows)
		g.WriteString(strings.Join(rows, ",\n"))
		g.WriteString("\n]\n\n")
	}
	g.WriteString("end TSSVerif.Gen.Adapter\n")
	return g.String()
}

// cmpAny returns the first comparison (any operator, incl. == != and bytes.Equal negation) in fn mentioning needle.
func cmpAny(s *source, fn, needle string) string {
	fd := s.fn(fn)
	if fd == nil {
		return "?"
	}
	res := ""
	ast.Inspect(fd, func(n ast.Node) bool {
		if res != "" {
			return false
		}
		switch v := n.(type) {
		case *ast.IfStmt:
			c := strings.Join(strings.Fields(exprString(v.Cond)), " ")
			if strings.Contains(c, needle) {
				res = c
			}
		}
		return true
	})
	return res
}
