package main

import (
	"fmt"
	"go/ast"
	"go/token"
	"strings"
)

// genNet extracts from net/net.go what Model/Net.lean hard-codes:
//   - the decision sequence of authenticateConnection: every `if` that ends in `return "", 0, false`, in source
//     order, with its condition; the expression the signature is verified over; the table key; the final return;
//   - the frame format constants (size limit, the comparison in readMsg, which types carry a topic, header layout);
//   - the panic sites of the sending side (Send's time-out handler, remoteParty.send).
func genNet() string {
	var g strings.Builder
	s := load("net/net.go")
	g.WriteString("-- REGENERATED on every run by /verif/go/cmd/extract from /repo — do not edit.\n")
	g.WriteString("-- Decision sequence of authenticateConnection and frame constants of net/net.go that Model/Net.lean hard-codes.\n")
	g.WriteString("namespace TSSVerif.Gen.Net\n\n")
	norm := func(x string) string { return strings.Join(strings.Fields(x), " ") }
	// --- authenticateConnection ---
	fd := s.fn("authenticateConnection")
	if fd == nil {
		g.WriteString("def authRejects := unknown_shape \"net/net.go: authenticateConnection\"\n")
	} else {
		isReject := func(st ast.Stmt) bool {
			r, ok := st.(*ast.ReturnStmt)
			return ok && len(r.Results) == 3 && exprString(r.Results[2]) == "false"
		}
		var conds []string
		var finalRet, verifyOver, tableKey string
		for _, st := range fd.Body.List {
			switch t := st.(type) {
			case *ast.IfStmt:
				last := t.Body.List[len(t.Body.List)-1]
				c := exprString(t.Cond)
				if t.Init != nil {
					c = stmtString(t.Init) + "; " + c
				}
				if isReject(last) {
					conds = append(conds, norm(c))
				} else {
					conds = append(conds, "NOT-REJECTING: "+norm(c))
				}
			case *ast.ReturnStmt:
				finalRet = norm(stmtString(t))
			case *ast.AssignStmt:
				if len(t.Lhs) >= 1 && exprString(t.Lhs[0]) == "lookupKey" {
					tableKey = norm(exprString(t.Rhs[0]))
				}
				if len(t.Lhs) >= 1 && exprString(t.Lhs[0]) == "signedBytes" {
					verifyOver = norm(stmtString(t))
				}
			}
		}
		g.WriteString("def authRejects : List String := [\n")
		for i, c := range conds {
			sep := ","
			if i == len(conds)-1 {
				sep = ""
			}
			fmt.Fprintf(&g, "  %q%s\n", c, sep)
		}
		g.WriteString("]\n")
		fmt.Fprintf(&g, "def authSignedBytes : String := %q\n", verifyOver)
		// statements between `sig := h.Signature` and the marshal: the signature field is blanked
		blank := ""
		for _, st := range fd.Body.List {
			if a, ok := st.(*ast.AssignStmt); ok && len(a.Lhs) == 1 && exprString(a.Lhs[0]) == "h.Signature" {
				blank = norm(stmtString(a))
			}
		}
		fmt.Fprintf(&g, "def authBlanksSignature : String := %q\n", blank)
		fmt.Fprintf(&g, "def authTableKey : String := %q\n", tableKey)
		fmt.Fprintf(&g, "def authAccepts : String := %q\n", finalRet)
	}
	// --- handleConn: nothing is sent on the channel before authentication succeeded ---
	if hd := s.fn("handleConn"); hd != nil {
		var seq []string
		for _, st := range hd.Body.List {
			switch t := st.(type) {
			case *ast.AssignStmt:
				seq = append(seq, norm(stmtString(t)))
			case *ast.IfStmt:
				last := t.Body.List[len(t.Body.List)-1]
				if _, ok := last.(*ast.ReturnStmt); ok {
					seq = append(seq, "if "+norm(exprString(t.Cond))+" return")
				}
			case *ast.ForStmt:
				sends := 0
				ast.Inspect(t, func(n ast.Node) bool {
					if _, ok := n.(*ast.SendStmt); ok {
						sends++
					}
					return true
				})
				seq = append(seq, fmt.Sprintf("for … (%d channel sends)", sends))
			default:
				ast.Inspect(st, func(n ast.Node) bool {
					if _, ok := n.(*ast.SendStmt); ok {
						seq = append(seq, "channel send outside the loop")
					}
					return true
				})
			}
		}
		fmt.Fprintf(&g, "def handleConnShape : List String := [%s]\n", quoteAll(seq))
	} else {
		g.WriteString("def handleConnShape := unknown_shape \"net/net.go: handleConn\"\n")
	}
	// --- frames ---
	maxB := ""
	topicTypes := ""
	for _, d := range s.file.Decls {
		gd, ok := d.(*ast.GenDecl)
		if !ok {
			continue
		}
		for _, sp := range gd.Specs {
			vs, ok := sp.(*ast.ValueSpec)
			if !ok {
				continue
			}
			for i, n := range vs.Names {
				if n.Name == "maxBuffLen" && i < len(vs.Values) {
					maxB = norm(exprString(vs.Values[i]))
				}
				if n.Name == "shouldHaveTopic" && i < len(vs.Values) {
					topicTypes = norm(exprString(vs.Values[i]))
				}
			}
		}
	}
	fmt.Fprintf(&g, "def maxBuffLen : String := %q\n", maxB)
	fmt.Fprintf(&g, "def shouldHaveTopic : String := %q\n", topicTypes)
	consts := iotaConsts(s)
	fmt.Fprintf(&g, "def msgTypeDiscovery : Nat := %d\ndef msgTypeMPC : Nat := %d\n", consts["MsgTypeDiscovery"], consts["MsgTypeMPC"])
	fmt.Fprintf(&g, "def readTooBigWhen : String := %q\n", cmpIn(s, "readMsg", "maxBuffLen"))
	// calls in readMsg / send that fix the layout
	layout := func(fn string, want ...string) string {
		fd := s.fn(fn)
		if fd == nil {
			return "?"
		}
		var got []string
		ast.Inspect(fd, func(n ast.Node) bool {
			if e, ok := n.(ast.Expr); ok {
				x := norm(exprString(e))
				for _, w := range want {
					if strings.HasPrefix(x, w) && !containsStr(got, x) {
						got = append(got, x)
					}
				}
			}
			return true
		})
		return strings.Join(got, " ; ")
	}
	fmt.Fprintf(&g, "def readLayout : String := %q\n", layout("readMsg", "make([]byte", "MsgType(typeAndLengthBuff", "binary.LittleEndian.Uint32(", "shouldHaveTopic["))
	fmt.Fprintf(&g, "def sendLayout : String := %q\n", layout("remoteParty.send", "1 + 4 + len(", "binary.LittleEndian.PutUint32(", "copy(header", "uint8(msg.msgType)", "rp.conn.Write("))
	// --- panic sites of the sending side ---
	panics := func(fn string) []string {
		fd := s.fn(fn)
		if fd == nil {
			return []string{"?"}
		}
		var got []string
		ast.Inspect(fd, func(n ast.Node) bool {
			if c, ok := n.(*ast.CallExpr); ok {
				if id, ok := c.Fun.(*ast.Ident); ok && id.Name == "panic" {
					got = append(got, norm(exprString(c)))
				}
			}
			return true
		})
		return got
	}
	fmt.Fprintf(&g, "def sendPanics : List String := [%s]\n", quoteAll(panics("SocketRemoteParties.Send")))
	fmt.Fprintf(&g, "def writerPanics : List String := [%s]\n", quoteAll(panics("remoteParty.send")))
	fmt.Fprintf(&g, "def writerLoopPanics : List String := [%s]\n", quoteAll(append(panics("remoteParty.sendMessages"), panics("outChan.enqueue")...)))
	_ = token.ADD
	g.WriteString("\nend TSSVerif.Gen.Net\n")
	return g.String()
}

func quoteAll(l []string) string {
	q := make([]string, len(l))
	for i, x := range l {
		q[i] = fmt.Sprintf("%q", x)
	}
	return strings.Join(q, ", ")
}

func containsStr(l []string, x string) bool {
	for _, y := range l {
		if y == x {
			return true
		}
	}
	return false
}

func stmtString(x ast.Stmt) string {
	var sb strings.Builder
	if err := printerFprint(&sb, token.NewFileSet(), x); err != nil {
		return "?"
	}
	return sb.String()
}
