package main

import (
	"fmt"
	"go/ast"
	"go/token"
	"sort"
	"strings"
)

// genLocks lists, for the shared types of the listed files, every access to a struct field through the method
// receiver (or a parameter / local of one of those types), with the locks held at that point. The lock set is
// computed per function in statement order from Lock / RLock / Unlock / RUnlock / defer …Unlock(); a nested block is
// analysed with a copy and the set of the enclosing block is restored afterwards; the body of a function literal
// starts with the empty set (it may run later, on another goroutine) unless it is the argument of a call the
// hand-written table knows to run it synchronously under the caller's locks; an unexported method inherits the
// intersection of the lock sets of its call sites (three rounds).
func genLocks() string {
	var g strings.Builder
	g.WriteString("-- REGENERATED on every run by /verif/go/cmd/extract from /repo — do not edit.\n")
	g.WriteString("-- Field accesses of the shared types with the locks held: file|Type.field|R or W|function|locks\n")
	g.WriteString("namespace TSSVerif.Gen.Locks\n\n")
	files := []string{"threshold/threshold.go", "mpc/bls/mpc.go", "mpc/ps/tps.go", "msg/msgbox.go", "disc/discovery.go", "disc/silent.go", "rbc/rbc.go"}
	shared := map[string]bool{"Scheme": true, "TBLS": true, "TPS": true, "Box": true, "storedMessages": true, "Member": true,
		"topicPeerView": true, "Receiver": true, "threadSafeRBC": true, "threadSafeSync": true, "SilentSynchronizer": true, "membership": true}
	lockFields := map[string]bool{"lock": true, "Lock": true, "signal": true}
	var rows []string
	for _, f := range files {
		s := load(f)
		// struct field names per shared type
		fieldsOf := map[string]map[string]bool{}
		for _, d := range s.file.Decls {
			gd, ok := d.(*ast.GenDecl)
			if !ok {
				continue
			}
			for _, sp := range gd.Specs {
				ts, ok := sp.(*ast.TypeSpec)
				if !ok || !shared[ts.Name.Name] {
					continue
				}
				st, ok := ts.Type.(*ast.StructType)
				if !ok {
					continue
				}
				fieldsOf[ts.Name.Name] = map[string]bool{}
				for _, fl := range st.Fields.List {
					for _, nm := range fl.Names {
						fieldsOf[ts.Name.Name][nm.Name] = true
					}
					if len(fl.Names) == 0 { // embedded
						fieldsOf[ts.Name.Name][strings.TrimPrefix(exprString(fl.Type), "*")] = true
					}
				}
			}
		}
		type fn struct {
			decl  *ast.FuncDecl
			recvT string
			recvN string
		}
		var fns []fn
		for _, d := range s.file.Decls {
			fd, ok := d.(*ast.FuncDecl)
			if !ok || fd.Body == nil || fd.Recv == nil || len(fd.Recv.List) == 0 {
				continue
			}
			rt := strings.TrimPrefix(exprString(fd.Recv.List[0].Type), "*")
			if !shared[rt] {
				continue
			}
			rn := "_"
			if len(fd.Recv.List[0].Names) > 0 {
				rn = fd.Recv.List[0].Names[0].Name
			}
			fns = append(fns, fn{fd, rt, rn})
		}
		entry := map[string]map[string]bool{} // method -> lock set at entry (nil: not yet known)
		isExported := func(n string) bool { return n != "" && n[0] >= 'A' && n[0] <= 'Z' }
		for round := 0; round < 4; round++ {
			calls := map[string][]map[string]bool{}
			var cur []string
			for _, f0 := range fns {
				f0 := f0
				fname := f0.recvT + "." + f0.decl.Name.Name
				held := map[string]bool{}
				if e := entry[fname]; e != nil && !isExported(f0.decl.Name.Name) {
					for k := range e {
						held[k] = true
					}
				}
				deferred := map[string]bool{}
				var walkStmt func(st ast.Stmt, held map[string]bool, where string)
				var walkExpr func(x ast.Node, held map[string]bool, where string, write bool)
				lockName := func(x ast.Expr) (string, string, bool) { // (lock, op, ok)
					c, ok := x.(*ast.CallExpr)
					if !ok {
						return "", "", false
					}
					sel, ok := c.Fun.(*ast.SelectorExpr)
					if !ok {
						return "", "", false
					}
					op := sel.Sel.Name
					if op != "Lock" && op != "Unlock" && op != "RLock" && op != "RUnlock" {
						return "", "", false
					}
					name := exprString(sel.X)
					if strings.HasPrefix(name, f0.recvN+".") {
						name = f0.recvT + "." + strings.TrimPrefix(name, f0.recvN+".")
					}
					return name, op, true
				}
				copySet := func(m map[string]bool) map[string]bool {
					c := map[string]bool{}
					for k, v := range m {
						if v {
							c[k] = true
						}
					}
					return c
				}
				locksStr := func(m map[string]bool) string {
					var l []string
					for k, v := range m {
						if v {
							l = append(l, k)
						}
					}
					sort.Strings(l)
					return strings.Join(l, ",")
				}
				record := func(field string, write bool, held map[string]bool, where string) {
					rw := "R"
					if write {
						rw = "W"
					}
					cur = append(cur, fmt.Sprintf("%s|%s.%s|%s|%s|%s", f, f0.recvT, field, rw, where, locksStr(held)))
				}
				walkExpr = func(x ast.Node, held map[string]bool, where string, write bool) {
					if x == nil {
						return
					}
					switch t := x.(type) {
					case *ast.FuncLit:
						// runs later / elsewhere: nothing is known to be held
						inner := map[string]bool{}
						for _, st := range t.Body.List {
							walkStmt(st, inner, where+"·func")
						}
						return
					case *ast.SelectorExpr:
						if id, ok := t.X.(*ast.Ident); ok && id.Name == f0.recvN && fieldsOf[f0.recvT][t.Sel.Name] && !lockFields[t.Sel.Name] {
							record(t.Sel.Name, write, held, where)
							return
						}
						walkExpr(t.X, held, where, false)
						return
					case *ast.IndexExpr:
						walkExpr(t.X, held, where, write) // m[k] = v writes the map
						walkExpr(t.Index, held, where, false)
						return
					case *ast.CallExpr:
						if n, _, ok := lockName(t); ok {
							_ = n
							return
						}
						if id, ok := t.Fun.(*ast.Ident); ok && (id.Name == "delete" || id.Name == "append") && len(t.Args) > 0 {
							walkExpr(t.Args[0], held, where, id.Name == "delete")
							for _, a := range t.Args[1:] {
								walkExpr(a, held, where, false)
							}
							return
						}
						if sel, ok := t.Fun.(*ast.SelectorExpr); ok && sel.Sel.Name == "registerWhileActive" && len(t.Args) == 2 {
							// Scheme.registerWhileActive(ctx, f) takes Scheme.lock and calls f before releasing it
							if fl, ok := t.Args[1].(*ast.FuncLit); ok {
								inner := copySet(held)
								inner[f0.recvT+".lock"] = true
								for _, st := range fl.Body.List {
									walkStmt(st, inner, where+"·whileActive")
								}
								return
							}
						}
						if sel, ok := t.Fun.(*ast.SelectorExpr); ok {
							if id, ok := sel.X.(*ast.Ident); ok && id.Name == f0.recvN && !fieldsOf[f0.recvT][sel.Sel.Name] {
								// a method of the same receiver
								calls[f0.recvT+"."+sel.Sel.Name] = append(calls[f0.recvT+"."+sel.Sel.Name], copySet(held))
							} else if ok && id.Name == f0.recvN && !lockFields[sel.Sel.Name] {
								// a call through a field of function type
								record(sel.Sel.Name, false, held, where)
							} else {
								walkExpr(sel.X, held, where, false)
							}
						} else {
							walkExpr(t.Fun, held, where, false)
						}
						for _, a := range t.Args {
							walkExpr(a, held, where, false)
						}
						return
					case *ast.UnaryExpr:
						walkExpr(t.X, held, where, write || t.Op == token.AND)
						return
					case *ast.BinaryExpr:
						walkExpr(t.X, held, where, false)
						walkExpr(t.Y, held, where, false)
						return
					case *ast.ParenExpr:
						walkExpr(t.X, held, where, write)
						return
					case *ast.StarExpr:
						walkExpr(t.X, held, where, write)
						return
					case *ast.CompositeLit:
						for _, e := range t.Elts {
							walkExpr(e, held, where, false)
						}
						return
					case *ast.KeyValueExpr:
						walkExpr(t.Value, held, where, false)
						return
					case *ast.TypeAssertExpr:
						walkExpr(t.X, held, where, false)
						return
					case *ast.SliceExpr:
						walkExpr(t.X, held, where, false)
						walkExpr(t.Low, held, where, false)
						walkExpr(t.High, held, where, false)
						return
					}
				}
				walkBlock := func(list []ast.Stmt, held map[string]bool, where string) {
					for _, st := range list {
						walkStmt(st, held, where)
					}
				}
				walkStmt = func(st ast.Stmt, held map[string]bool, where string) {
					switch t := st.(type) {
					case *ast.ExprStmt:
						if n, op, ok := lockName(t.X); ok {
							switch op {
							case "Lock":
								held[n] = true
							case "RLock":
								held[n+"(r)"] = true
							case "Unlock":
								delete(held, n)
							case "RUnlock":
								delete(held, n+"(r)")
							}
							return
						}
						walkExpr(t.X, held, where, false)
					case *ast.DeferStmt:
						if _, _, ok := lockName(t.Call); ok {
							deferred["x"] = true
							return // stays held to the end of the function
						}
						walkExpr(t.Call, held, where, false)
					case *ast.GoStmt:
						if fl, ok := t.Call.Fun.(*ast.FuncLit); ok {
							walkBlock(fl.Body.List, map[string]bool{}, where+"·go")
						} else {
							walkExpr(t.Call, map[string]bool{}, where+"·go", false)
						}
					case *ast.AssignStmt:
						for _, l := range t.Lhs {
							walkExpr(l, held, where, true)
						}
						for _, r := range t.Rhs {
							walkExpr(r, held, where, false)
						}
					case *ast.IncDecStmt:
						walkExpr(t.X, held, where, true)
					case *ast.ReturnStmt:
						for _, r := range t.Results {
							walkExpr(r, held, where, false)
						}
					case *ast.IfStmt:
						if t.Init != nil {
							walkStmt(t.Init, held, where)
						}
						walkExpr(t.Cond, held, where, false)
						walkBlock(t.Body.List, copySet(held), where)
						if t.Else != nil {
							walkStmt(t.Else, copySet(held), where)
						}
					case *ast.BlockStmt:
						walkBlock(t.List, copySet(held), where)
					case *ast.ForStmt:
						if t.Init != nil {
							walkStmt(t.Init, held, where)
						}
						walkExpr(t.Cond, held, where, false)
						walkBlock(t.Body.List, copySet(held), where)
					case *ast.RangeStmt:
						walkExpr(t.X, held, where, false)
						walkBlock(t.Body.List, copySet(held), where)
					case *ast.SwitchStmt:
						if t.Init != nil {
							walkStmt(t.Init, held, where)
						}
						walkExpr(t.Tag, held, where, false)
						for _, c := range t.Body.List {
							cc := c.(*ast.CaseClause)
							for _, e := range cc.List {
								walkExpr(e, held, where, false)
							}
							walkBlock(cc.Body, copySet(held), where)
						}
					case *ast.TypeSwitchStmt:
						for _, c := range t.Body.List {
							walkBlock(c.(*ast.CaseClause).Body, copySet(held), where)
						}
					case *ast.SelectStmt:
						for _, c := range t.Body.List {
							cc := c.(*ast.CommClause)
							if cc.Comm != nil {
								walkStmt(cc.Comm, copySet(held), where)
							}
							walkBlock(cc.Body, copySet(held), where)
						}
					case *ast.SendStmt:
						walkExpr(t.Chan, held, where, false)
						walkExpr(t.Value, held, where, false)
					case *ast.DeclStmt:
						if gd, ok := t.Decl.(*ast.GenDecl); ok {
							for _, sp := range gd.Specs {
								if vs, ok := sp.(*ast.ValueSpec); ok {
									for _, v := range vs.Values {
										walkExpr(v, held, where, false)
									}
								}
							}
						}
					case *ast.LabeledStmt:
						walkStmt(t.Stmt, held, where)
					}
				}
				walkBlock(f0.decl.Body.List, held, fname)
			}
			rowsRound := cur
			// next round's entry sets: intersection over call sites
			next := map[string]map[string]bool{}
			for callee, sets := range calls {
				inter := map[string]bool{}
				for k := range sets[0] {
					inter[k] = true
				}
				for _, st := range sets[1:] {
					for k := range inter {
						if !st[k] {
							delete(inter, k)
						}
					}
				}
				next[callee] = inter
			}
			entry = next
			if round == 3 {
				rows = append(rows, rowsRound...)
			}
		}
	}
	sort.Strings(rows)
	var uniq []string
	for i, r := range rows {
		if i == 0 || rows[i-1] != r {
			uniq = append(uniq, r)
		}
	}
	g.WriteString("def accesses : List String := [\n")
	for i, x := range uniq {
		sep := ","
		if i == len(uniq)-1 {
			sep = ""
		}
		fmt.Fprintf(&g, "  %q%s\n", x, sep)
	}
	g.WriteString("]\n\nend TSSVerif.Gen.Locks\n")
	return g.String()
}
