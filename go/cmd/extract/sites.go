package main

import (
	"fmt"
	"go/ast"
	"sort"
	"strings"
)

// Input-handling functions whose partial operations are censused for C10.
var siteFuncs = map[string][]string{
	"threshold/threshold.go": {"Scheme.HandleMessage", "Scheme.handleSync", "Scheme.handleMPC", "Scheme.handleRBC", "Scheme.handleAck",
		"Scheme.runDKG", "Scheme.prepareSigning", "rbcEncoding.Ack", "rbcEncoding.Payload", "rbcMsg.Ack", "rbcFilter.Receive", "threadSafeRBC.Receive", "threadSafeSync.HandleMessage", "prefix"},
	"rbc/rbc.go":          {"Receiver.Receive", "Receiver.registerMsg", "Receiver.initIfNeeded", "prefix"},
	"disc/discovery.go":   {"Member.HandleMessage", "Member.handleResponse", "Member.handleMembershipMessage", "Member.respondToQuery", "decodeTagAndMembershipList", "Member.myMemberViewSorted", "Member.computeMyTag"},
	"msg/msgbox.go":       {"Box.HandleMessage", "Box.storeOrForward", "Box.getOrCreateMessagesByTopic", "Box.markTopicForSender", "storedMessages.add", "topicPrefix"},
	"mpc/bls/mpc.go":      {"TBLS.ClassifyMsg", "TBLS.OnMsg"},
	"mpc/bls/verifier.go": {"Verifier.Init", "Verifier.Verify"},
	"mpc/ps/tps.go":       {"TPS.ClassifyMsg", "TPS.OnMsg", "TPS.Sign", "unmarshalPK", "unmarshalShare"},
	"mpc/ps/verifier.go":  {"Verifier.Init", "Verifier.Verify"},
	"mpc/ps/ps.go": {"BlindSignature.fromBytes", "SignBlindSignature", "BlindCorrectFormProof.fromBytes", "BlindCorrectFormProof.Verify", "randomOracleForBlindingProof",
		"SigPoK.fromBytes", "SigPoK.Verify", "PoKofSignaturePoCorrectForm.fromBytes", "PoKofSignaturePoCorrectForm.Verify", "PoKofSignaturePoCorrectForm.checkcommitmentForm",
		"randomOracleForPoKofSignature", "PK.fromBytes"},
	"net/net.go":               {"handleConn", "authenticateConnection", "readMsg", "Handshake.Read", "extractTLSBinding"},
	"mpc/binance/ecdsa/mpc.go": {"party.ClassifyMsg", "party.OnMsg", "party.locatePartyIndex"},
	"mpc/binance/eddsa/mpc.go": {"party.ClassifyMsg", "party.OnMsg", "party.locatePartyIndex"},
}

func collectSites(s *source, fn string) []string {
	fd := s.fn(fn)
	if fd == nil {
		return []string{fmt.Sprintf("%s|%s|missing|function not found|", s.path, fn)}
	}
	var res []string
	add := func(kind string, n ast.Node, loop string) {
		txt := exprString2(n)
		txt = strings.Join(strings.Fields(txt), " ")
		res = append(res, fmt.Sprintf("%s|%s|%s|%s|%s", s.path, fn, kind, txt, loop))
	}
	okAsserts := map[*ast.TypeAssertExpr]bool{}
	var walk func(n ast.Node, loop string)
	walk = func(n ast.Node, loop string) {
		ast.Inspect(n, func(x ast.Node) bool {
			switch v := x.(type) {
			case *ast.FuncLit:
				// closures are separate goroutine/callback bodies only if invoked; count their sites too
				return true
			case *ast.ForStmt:
				if v.Init != nil {
					walk(v.Init, loop)
				}
				l := "for " + strings.Join(strings.Fields(exprString2(v.Cond)), " ")
				if v.Cond != nil {
					walk(v.Cond, loop)
				}
				if v.Post != nil {
					walk(v.Post, l)
				}
				walk(v.Body, l)
				return false
			case *ast.RangeStmt:
				walk(v.X, loop)
				walk(v.Body, "range "+strings.Join(strings.Fields(exprString2(v.X)), " "))
				return false
			case *ast.AssignStmt:
				if len(v.Lhs) == 2 && len(v.Rhs) == 1 {
					if ta, ok := v.Rhs[0].(*ast.TypeAssertExpr); ok {
						okAsserts[ta] = true
					}
				}
			case *ast.IndexExpr:
				add("index", v, loop)
			case *ast.SliceExpr:
				add("slice", v, loop)
			case *ast.TypeAssertExpr:
				if v.Type != nil && !okAsserts[v] {
					add("assert", v, loop)
				}
			case *ast.SendStmt:
				add("send", v, loop)
			case *ast.CallExpr:
				if id, ok := v.Fun.(*ast.Ident); ok && id.Name == "panic" {
					add("panic", v, loop)
				}
			}
			return true
		})
	}
	walk(fd.Body, "")
	return res
}

func exprString2(n ast.Node) string {
	if n == nil {
		return ""
	}
	var sb strings.Builder
	if err := printerFprint(&sb, tokenNewFileSet(), n); err != nil {
		return "?"
	}
	return sb.String()
}

func genSites() string {
	var g strings.Builder
	g.WriteString("-- REGENERATED on every run by /verif/go/cmd/extract from /repo — do not edit.\n")
	g.WriteString("-- Census of the partial operations (index, slice, unchecked type assertion, explicit panic, channel send)\n")
	g.WriteString("-- in the functions that handle input from peers and clients: file|function|kind|expression|enclosing loop.\n")
	g.WriteString("namespace TSSVerif.Gen.Sites\n\ndef sites : List String := [\n")
	files := make([]string, 0, len(siteFuncs))
	for f := range siteFuncs {
		files = append(files, f)
	}
	sort.Strings(files)
	var all []string
	for _, f := range files {
		s := load(f)
		for _, fn := range siteFuncs[f] {
			all = append(all, collectSites(s, fn)...)
		}
	}
	// duplicates (the same expression twice in one function) are kept once
	seen := map[string]bool{}
	var uniq []string
	for _, x := range all {
		if !seen[x] {
			seen[x] = true
			uniq = append(uniq, x)
		}
	}
	for i, x := range uniq {
		sep := ","
		if i == len(uniq)-1 {
			sep = ""
		}
		fmt.Fprintf(&g, "  %q%s\n", x, sep)
	}
	g.WriteString("]\n\nend TSSVerif.Gen.Sites\n")
	return g.String()
}
