package main

import (
	"fmt"
	"go/ast"
	"go/token"
	"strings"
)

// cmpIn finds, in function fn, the first comparison whose printed left or right operand contains `needle`
// and returns it normalised as "<left> <op> <right>".
func cmpIn(s *source, fn, needle string) string {
	fd := s.fn(fn)
	if fd == nil {
		return ""
	}
	res := ""
	ast.Inspect(fd, func(n ast.Node) bool {
		b, ok := n.(*ast.BinaryExpr)
		if !ok || res != "" {
			return true
		}
		switch b.Op {
		case token.LSS, token.GTR, token.LEQ, token.GEQ:
			l, r := exprString(b.X), exprString(b.Y)
			if strings.Contains(l, needle) || strings.Contains(r, needle) {
				res = strings.Join(strings.Fields(l+" "+b.Op.String()+" "+r), " ")
			}
		}
		return true
	})
	return res
}

func genBoxConsts() string {
	var g strings.Builder
	s := load("msg/msgbox.go")
	g.WriteString("-- REGENERATED on every run by /verif/go/cmd/extract from /repo — do not edit.\n")
	g.WriteString("-- Constants and comparison operators of msg/msgbox.go that the model Model/Box.lean hard-codes.\n")
	g.WriteString("namespace TSSVerif.Gen.BoxConsts\n\n")
	consts := iotaConsts(s)
	if v, ok := consts["limitPerSender"]; ok {
		fmt.Fprintf(&g, "def limitPerSender : Nat := %d\n", v)
	} else {
		g.WriteString("def limitPerSender := unknown_shape \"msg/msgbox.go: limitPerSender\"\n")
	}
	emit := func(name, fn, needle string) {
		c := cmpIn(s, fn, needle)
		if c == "" {
			fmt.Fprintf(&g, "def %s := unknown_shape %q\n", name, "msg/msgbox.go: "+fn)
			return
		}
		fmt.Fprintf(&g, "def %s : String := %q\n", name, c)
	}
	emit("addDropsWhen", "storedMessages.add", "limitPerSender")
	emit("topicsDropWhen", "Box.storeOrForward", "MaxInFlightTopicsBySender")
	emit("gcSkipsWhen", "Box.maybeGC", "epochsAfterWhichWeGC")
	emit("markPendingWhen", "Box.mark", "lastUsed")
	emit("markStartedWhen", "Box.mark", "lastSent")
	emit("clockRequires", "Box.startClock", "GCSweep")
	g.WriteString("\nend TSSVerif.Gen.BoxConsts\n")
	return g.String()
}
