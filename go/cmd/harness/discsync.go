package main

// Component "sync": the membership synchroniser (disc/discovery.go), property C07.
//
//  1. step: a real Member driven single-threaded through its internal steps (register, HandleMessage,
//     intersectedView, myMemberViewSorted, taking a confirmation), state snapshot after every step;
//     compared line by line with the Lean model (Model/Disc.lean, Member.handle / intersect / ownView).
//  2. lockstep: a real Synchronize goroutine, parked at the verif yield points and inside its
//     Broadcast callback, so that every pass over the peer table, every evaluation, every tick, every
//     confirmation taken and the final result is one event; compared with the model's phase machine.
//  3. net: real Synchronize goroutines of several honest members over an in-process network with
//     scripted corrupted members (lying about views, confirming anything, replaying, answering for
//     others, foreign tags, outsiders) and messages delivered inside the window after a pass over the
//     peer table (yield hook); direct monitors for validity, agreement, result/continuation
//     consistency, and completion of honest runs.

import (
	"context"
	"fmt"
	"sort"
	"strings"
	"sync"
	"time"

	discovery "github.com/IBM/TSS/disc"

	"verif/internal/out"
	"verif/internal/prng"
)

func init() { components["sync"] = runSync }

func runSync(r *prng.R, s *out.Sink, tier string) {
	syncRender(r, s)
	for _, part := range []func(*prng.R, *out.Sink, string){syncStep, syncLockstep, syncNet} {
		before := 0
		for _, v := range s.Monitor {
			if v.Property == "C07" {
				before++
			}
		}
		part(r.Fork(), s, tier)
		after := 0
		for _, v := range s.Monitor {
			if v.Property == "C07" && strings.Contains(v.What, "does not return") {
				after++
			}
		}
		if after > 0 {
			return // a handler is blocked: the member objects of the later parts would only hang on it
		}
		_ = before
	}
}

// ---------------------------------------------------------------------------------------------------

// the model compares views as lists; the code compares their %v renderings and lengths
func syncRender(r *prng.R, s *out.Sink) {
	mk := func() []uint16 {
		n := r.Intn(5)
		l := make([]uint16, n)
		for i := range l {
			l[i] = []uint16{0, 1, 2, 10, 12, 255, 256, 65535}[r.Intn(8)]
		}
		return l
	}
	for i := 0; i < 4000; i++ {
		a, b := mk(), mk()
		if r.Intn(3) == 0 {
			b = append([]uint16{}, a...)
		}
		same := len(a) == len(b)
		for j := 0; same && j < len(a); j++ {
			same = a[j] == b[j]
		}
		rs := fmt.Sprintf("%v", a) == fmt.Sprintf("%v", b) && len(a) == len(b)
		s.Count("render/pair")
		s.N++
		if same != rs {
			s.Violate("C07", fmt.Sprintf("rendering of %v and %v compares %v but the lists compare %v (the model equates the two)", a, b, rs, same), "")
		}
	}
	var nilv []uint16
	if fmt.Sprintf("%v", nilv) != fmt.Sprintf("%v", []uint16{}) {
		s.Violate("C07", "nil and empty views render differently", "")
	}
}

var syncIDPool = []uint16{0, 1, 2, 3, 4, 5, 7, 11, 200, 255, 256, 257, 511, 4096, 32768, 65534, 65535}

func pickIDs(r *prng.R, n int) []uint16 {
	p := r.Perm(len(syncIDPool))
	l := make([]uint16, n)
	for i := range l {
		l[i] = syncIDPool[p[i]]
	}
	return l
}

func tagTable(topic []byte, cfg []uint16) string {
	parts := make([]string, len(cfg))
	for i, id := range cfg {
		parts[i] = fmt.Sprintf("%d:%s", id, out.Hex(discovery.VerifPRF(topic, id)))
	}
	if len(parts) == 0 {
		return "-"
	}
	return strings.Join(parts, ",")
}

func discSnapReal(m *discovery.Member, topic []byte) string {
	st := m.VerifTopicState(topic)
	if !st.Registered {
		return "unregistered"
	}
	var ks []int
	for k := range st.Views {
		ks = append(ks, int(k))
	}
	sort.Ints(ks)
	vs := make([]string, len(ks))
	for i, k := range ks {
		vs[i] = fmt.Sprintf("%d:[%s]", k, out.U16s(st.Views[uint16(k)]))
	}
	kv := "-"
	if len(vs) > 0 {
		kv = strings.Join(vs, ";")
	}
	rs := append([]uint16{}, st.Responded...)
	sort.Slice(rs, func(i, j int) bool { return rs[i] < rs[j] })
	return fmt.Sprintf("views=%s responded=%s queued=%d", kv, out.U16s(rs), st.Queued)
}

var kindNames = map[uint8]string{1: "membership", 2: "query", 3: "response"}

// decodeOut renders a message the member emitted (and checks that it carries the member's own tag)
func decodeOut(s *out.Sink, self uint16, topic []byte, prefix string, msg []byte) string {
	t, tg, peers, err := discovery.VerifDecodeTagAndMembershipList(msg)
	if err != nil {
		s.Violate("C07", "a member emitted a message its own decoder rejects", out.Hex(msg))
		return prefix + "undecodable"
	}
	if topic != nil && tg != string(discovery.VerifPRF(topic, self)) {
		s.Violate("C07", "a member emitted a message that does not carry its own tag for the topic", out.Hex(msg))
	}
	return fmt.Sprintf("%s%s:%s", prefix, kindNames[t], out.U16s(peers))
}

func randView(r *prng.R, cfg []uint16) []uint16 {
	switch r.Intn(6) {
	case 0:
		return nil
	case 1: // arbitrary, possibly unsorted / duplicated / foreign
		n := r.Intn(5)
		l := make([]uint16, n)
		for i := range l {
			l[i] = syncIDPool[r.Intn(len(syncIDPool))]
		}
		return l
	default: // sorted subset of the configuration
		var l []uint16
		for _, id := range cfg {
			if r.Intn(2) == 0 {
				l = append(l, id)
			}
		}
		sort.Slice(l, func(i, j int) bool { return l[i] < l[j] })
		return l
	}
}

func syncStep(r *prng.R, s *out.Sink, tier string) {
	histories := 120
	if tier == "thorough" {
		histories = 1500
	}
	for h := 0; h < histories; h++ {
		n := 2 + r.Intn(5)
		cfg := pickIDs(r, n)
		self := cfg[r.Intn(n)]
		// (a member that is not part of its own configuration is outside the model's well-formedness assumption:
		// its confirmation channel, of capacity len(Membership)-1, can then fill up and block a handler)
		var sent []string
		m := &discovery.Member{Membership: cfg, ID: self, Logger: nopLogger{},
			Broadcast: func(msg []byte) { sent = append(sent, decodeOut(s, self, nil, "bcast:", msg)) },
			Send: func(msg []byte, to uint16) {
				sent = append(sent, decodeOut(s, self, nil, fmt.Sprintf("send:%d:", to), msg))
			}}
		s.Op("step/new", false, fmt.Sprintf("ds new %d %d %s", h, self, out.U16s(cfg)), "ok")
		topics := [][]byte{r.Bytes(8 + r.Intn(24)), r.Bytes(16), r.Bytes(32)}
		registered := map[int]bool{}
		steps := 20 + r.Intn(60)
		for i := 0; i < steps; i++ {
			ti := r.Intn(len(topics))
			topic := topics[ti]
			switch c := r.Intn(20); {
			case c < 2 || (i < 2 && !registered[ti]):
				e := r.Intn(n + 2)
				ans := "ok"
				if err := m.VerifRegister(topic); err != nil {
					ans = "already"
				}
				registered[ti] = true
				s.Op("step/register", true, fmt.Sprintf("ds reg %d %s %d %s", h, out.Hex(topic), e, tagTable(topic, cfg)), ans)
			case c < 4:
				s.Op("step/intersect", true, fmt.Sprintf("ds intersect %d %s", h, out.Hex(topic)), func() string {
					if !registered[ti] {
						return "bad-op"
					}
					return out.U16s(m.VerifIntersect(topic))
				}())
			case c < 5:
				s.Op("step/ownview", true, fmt.Sprintf("ds ownview %d %s", h, out.Hex(topic)), out.U16s(m.VerifOwnView(topic)))
			case c < 7:
				ans := "bad-op"
				if registered[ti] {
					if v, ok := m.VerifPopResponse(topic); ok {
						ans = "some " + out.U16s(v)
					} else {
						ans = "none"
					}
				}
				s.Op("step/pop", true, fmt.Sprintf("ds pop %d %s", h, out.Hex(topic)), ans)
			default:
				// a message: mostly well-formed, from a configured member under its own tag
				from := cfg[r.Intn(n)]
				claimed := from
				kind := uint8(1 + r.Intn(3))
				view := randView(r, cfg)
				what := "valid"
				switch r.Intn(12) {
				case 0:
					claimed = cfg[r.Intn(n)]
					what = "tag-of-another-member"
				case 1:
					from = syncIDPool[r.Intn(len(syncIDPool))]
					what = "arbitrary-sender"
				case 2:
					from, claimed = self, self
					what = "own-identity"
				}
				tg := discovery.VerifPRF(topic, claimed)
				var msg []byte
				switch r.Intn(14) {
				case 0:
					tg = r.Bytes(32)
					what = "unknown-tag"
					msg = discovery.VerifEncodeTagAndMembershipList(kind, string(tg), view)
				case 1:
					msg = r.Bytes(r.Intn(40))
					what = "random-bytes"
				case 2:
					msg = discovery.VerifEncodeTagAndMembershipList(kind, string(tg), view)
					msg = append(msg, byte(r.Intn(256)))
					what = "dangling-byte"
				case 3:
					msg = discovery.VerifEncodeTagAndMembershipList(kind, string(tg), view)
					msg[0] = byte(r.Intn(256))
					what = "arbitrary-type"
				default:
					msg = discovery.VerifEncodeTagAndMembershipList(kind, string(tg), view)
				}
				sent = nil
				resCh := make(chan string, 1)
				go func() { resCh <- safely(func() string { m.HandleMessage(from, msg); return "" }) }()
				res := ""
				select {
				case res = <-resCh:
				case <-time.After(5 * time.Second):
					// a handler that blocks: the member's tables took something they should have refused (its confirmation
					// channel has room for one confirmation per other member)
					s.Violate("C07", fmt.Sprintf("Member.HandleMessage does not return (blocked for 5 s) on a %s %s message attributed to member %d: the message was taken although the handler of a correct member never has more to do than its tables have room for", what, kindNames[kind], from), fmt.Sprintf("ds handle %d %d %s", h, from, out.Hex(msg)))
					s.Violate("C10", "disc.HandleMessage does not return (blocked for 5 s)", fmt.Sprintf("from %d: %s", from, out.Hex(msg)))
					return
				}
				ans := "-"
				if res == "panic" {
					ans = "panic"
					s.Violate("C10", "disc.HandleMessage panics", fmt.Sprintf("from %d: %s", from, out.Hex(msg)))
				} else if len(sent) > 0 {
					ans = strings.Join(sent, " ")
				}
				s.Op("step/handle/"+what+"/"+kindNames[kind], true, fmt.Sprintf("ds handle %d %d %s", h, from, out.Hex(msg)), ans)
			}
			for tj, t := range topics {
				if registered[tj] || r.Intn(8) == 0 {
					s.Op("step/snap", false, fmt.Sprintf("ds snap %d %s", h, out.Hex(t)), discSnapReal(m, t))
				}
			}
		}
	}
}

// ---------------------------------------------------------------------------------------------------

type park struct {
	point string // intersect | select | wait | ack | bcast | returned
	msg   []byte // bcast
	err   error  // returned
}

// lockstep drive of one real Synchronize goroutine
func syncLockstep(r *prng.R, s *out.Sink, tier string) {
	runs := 150
	if tier == "thorough" {
		runs = 2000
	}
	defer func() { discovery.VerifYield = nil }()
	for run := 0; run < runs; run++ {
		if !lockstepRun(r, s, 100000+run) {
			return
		}
	}
}

func lockstepRun(r *prng.R, s *out.Sink, inst int) bool {
	n := 2 + r.Intn(4)
	cfg := pickIDs(r, n)
	self := cfg[0]
	peers := cfg[1:]
	expected := 1 + r.Intn(n)
	if r.Intn(12) == 0 {
		expected = r.Intn(n + 2)
	}
	topic := r.Bytes(16)
	parked := make(chan park)
	resume := make(chan struct{})
	var sent []string
	discovery.VerifYield = func(id uint16, point string) {
		parked <- park{point: point}
		<-resume
	}
	var contArgs [][]uint16
	m := &discovery.Member{Membership: cfg, ID: self, Logger: nopLogger{},
		Send: func(msg []byte, to uint16) {
			sent = append(sent, decodeOut(s, self, topic, fmt.Sprintf("send:%d:", to), msg))
		}}
	m.Broadcast = func(msg []byte) {
		parked <- park{point: "bcast", msg: msg}
		<-resume
	}
	ctx, cancel := context.WithCancel(context.Background())
	defer cancel()
	var hist []string
	emit := func(kind, op, ans string) {
		s.Op(kind, true, op, ans)
		hist = append(hist, op+"   => "+ans)
	}
	th := out.Hex(topic)
	emit("lock/new", fmt.Sprintf("ds new %d %d %s", inst, self, out.U16s(cfg)), "ok")
	// registration happens inside Synchronize before the first yield; the model registers here
	emit("lock/register", fmt.Sprintf("ds reg %d %s %d %s", inst, th, expected, tagTable(topic, cfg)), "ok")
	go func() {
		err := m.Synchronize(ctx, func(l []uint16) { contArgs = append(contArgs, append([]uint16{}, l...)) }, topic, expected, 300*time.Microsecond)
		parked <- park{point: "returned", err: err}
	}()
	// the list the scripted peers steer towards
	k := expected - 1
	if k < 0 || k > len(peers) {
		k = len(peers)
	}
	tpeers := peers[:k]
	target := append([]uint16{self}, tpeers...)
	sort.Slice(target, func(i, j int) bool { return target[i] < target[j] })
	spoke := map[uint16]bool{} // members that sent anything on the topic
	deliver := func(kind uint8, from uint16, view []uint16) {
		msg := discovery.VerifEncodeTagAndMembershipList(kind, string(discovery.VerifPRF(topic, from)), view)
		sent = nil
		spoke[from] = true
		m.HandleMessage(from, msg)
		ans := "-"
		if len(sent) > 0 {
			ans = strings.Join(sent, " ")
		}
		emit("lock/handle/"+kindNames[kind], fmt.Sprintf("ds handle %d %d %s", inst, from, out.Hex(msg)), ans)
	}
	somePeer := func() uint16 {
		if len(tpeers) > 0 && r.Intn(4) != 0 {
			return tpeers[r.Intn(len(tpeers))]
		}
		return peers[r.Intn(len(peers))]
	}
	someDeliveries := func() {
		for k := r.Intn(3); k > 0; k-- {
			v := target
			if r.Intn(4) == 0 {
				v = randView(r, cfg)
			}
			deliver([]uint8{1, 1, 2, 3}[r.Intn(4)], somePeer(), v)
		}
	}
	var pending *park
	next := func() (park, bool) {
		if pending != nil {
			p := *pending
			pending = nil
			return p, true
		}
		select {
		case p := <-parked:
			return p, true
		case <-time.After(20 * time.Second):
			s.Violate("C07", "lockstep: the Synchronize goroutine neither reached a yield point nor returned within 20 s", strings.Join(hist, "\n"))
			return park{}, false
		}
	}
	finish := func(p park) {
		res := "ret:nil"
		if p.err != nil {
			res = "ret:err"
		}
		s.Count("lock/result/" + res)
		if p.err == nil && len(contArgs) != 1 || p.err != nil && len(contArgs) != 0 {
			s.Violate("C07", fmt.Sprintf("Synchronize returned %v after %d continuation calls", p.err, len(contArgs)), strings.Join(hist, "\n"))
		}
		// the property itself, on the list the real call completed with (independent of the model)
		if p.err == nil && len(contArgs) == 1 {
			l := contArgs[0]
			bad := ""
			hasSelf := false
			for i, x := range l {
				if i > 0 && l[i-1] >= x {
					bad = "is not sorted and duplicate-free"
				}
				if x == self {
					hasSelf = true
				} else if !spoke[x] {
					bad = fmt.Sprintf("contains %d, which never announced itself on the topic", x)
				}
				known := false
				for _, c := range cfg {
					known = known || c == x
				}
				if !known {
					bad = fmt.Sprintf("contains %d, which is not a configured member", x)
				}
			}
			if !hasSelf {
				bad = "does not contain the party itself"
			}
			if expected >= 1 && len(l) != expected {
				bad = fmt.Sprintf("has %d members where exactly %d were expected", len(l), expected)
			}
			if bad != "" {
				s.Violate("C07", fmt.Sprintf("validity: member %d completed with %v, which %s", self, l, bad), strings.Join(hist, "\n"))
			}
		}
	}
	phase := "collect" // collect | evaluating | query | done
	queried := ""
	cancelled := false
	budget := 40 + r.Intn(80)
	for ev := 0; ; ev++ {
		p, ok := next()
		if !ok {
			return false
		}
		if ev > budget && !cancelled {
			cancel()
			cancelled = true
		}
		switch p.point {
		case "returned":
			switch {
			case phase == "evaluating" && p.err != nil: // too many members
				emit("lock/eval/failed", fmt.Sprintf("ds sync %d %s eval", inst, th), "ret:err / failed")
			case phase != "done" && p.err != nil:
				emit("lock/ctx", fmt.Sprintf("ds sync %d %s ctx", inst, th), "ret:err / failed")
			case phase != "done":
				s.Violate("C07", "Synchronize returned nil without having confirmed a list", strings.Join(hist, "\n"))
			}
			finish(p)
			return true
		case "intersect":
			emit("lock/read", fmt.Sprintf("ds sync %d %s read", inst, th), "- / collect")
			someDeliveries() // lands in the window after the pass
			phase = "evaluating"
		case "select":
			if phase == "evaluating" {
				emit("lock/eval/collect", fmt.Sprintf("ds sync %d %s eval", inst, th), "- / collect")
			}
			phase = "collect"
			someDeliveries()
		case "bcast":
			o := decodeOut(s, self, topic, "bcast:", p.msg)
			if strings.HasPrefix(o, "bcast:membership:") {
				emit("lock/tick", fmt.Sprintf("ds sync %d %s tick", inst, th), o+" / collect")
			} else { // the query: the evaluation succeeded
				queried = strings.TrimPrefix(o, "bcast:query:")
				if expected-1 <= 0 {
					emit("lock/eval/done", fmt.Sprintf("ds sync %d %s eval", inst, th), fmt.Sprintf("%s cont:%s ret:nil / done %s", o, queried, queried))
					phase = "done"
				} else {
					emit("lock/eval/query", fmt.Sprintf("ds sync %d %s eval", inst, th), fmt.Sprintf("%s / query %s", o, queried))
					phase = "query"
				}
			}
		case "wait":
			for k := 1 + r.Intn(2); k > 0; k-- {
				v := target
				if r.Intn(4) == 0 {
					v = randView(r, cfg)
				}
				deliver(3, somePeer(), v)
			}
			if m.VerifTopicState(topic).Queued == 0 {
				for _, q := range peers {
					deliver(3, q, target)
				}
				if m.VerifTopicState(topic).Queued == 0 && !cancelled {
					cancel()
					cancelled = true
				}
			}
		case "ack":
			// the model takes the same confirmation; the very next event tells how it was judged
			resume <- struct{}{}
			q, ok := next()
			if !ok {
				return false
			}
			if q.point == "returned" && q.err == nil {
				emit("lock/resp/done", fmt.Sprintf("ds sync %d %s resp", inst, th), fmt.Sprintf("cont:%s ret:nil / done %s", queried, queried))
				if len(contArgs) != 1 || out.U16s(contArgs[0]) != queried {
					s.Violate("C07", "the continuation did not receive exactly the list that was queried", strings.Join(hist, "\n"))
				}
				finish(q)
				return true
			}
			emit("lock/resp/wait", fmt.Sprintf("ds sync %d %s resp", inst, th), "- / query "+queried)
			pending = &q
			continue
		}
		resume <- struct{}{}
	}
}

// ---------------------------------------------------------------------------------------------------

type syncNode struct {
	id     uint16
	m      *discovery.Member
	err    error
	ret    bool
	cont   [][]uint16
	bcasts []string // every view it broadcast (membership or query), rendered
}

type syncWorld struct {
	mu       sync.Mutex // queues, adversary state, random source
	hm       sync.Mutex // handlers run one at a time (the orchestrator's threadSafeSync does the same per member)
	r        *prng.R
	topic    []byte
	cfg      []uint16
	nodes    map[uint16]*syncNode
	links    map[[2]uint16][][]byte
	order    [][2]uint16
	held     func(from, to uint16) bool
	observe  func(w *syncWorld, from uint16, to int, msg []byte) // to = -1: broadcast
	window   func(w *syncWorld, id uint16)
	stop     chan struct{}
	received map[[2]uint16]bool // (to, from): a message under from's own tag for the topic was handed to `to`
	fifo     bool
}

// wasReceived: did `to` get a message of `from` on the topic? (the deliverer may still be running: under the lock)
func (w *syncWorld) wasReceived(to, from uint16) bool {
	w.mu.Lock()
	defer w.mu.Unlock()
	return w.received[[2]uint16{to, from}]
}

func (w *syncWorld) enqueue(from, to uint16, msg []byte) {
	w.mu.Lock()
	k := [2]uint16{from, to}
	if _, ok := w.links[k]; !ok {
		w.order = append(w.order, k)
	}
	w.links[k] = append(w.links[k], msg)
	w.mu.Unlock()
}

// handTo gives one message to an honest member's handler
func (w *syncWorld) handTo(from, to uint16, msg []byte) {
	nd := w.nodes[to]
	if nd == nil {
		return
	}
	w.hm.Lock()
	if _, tg, _, err := discovery.VerifDecodeTagAndMembershipList(msg); err == nil && tg == string(discovery.VerifPRF(w.topic, from)) {
		w.mu.Lock()
		w.received[[2]uint16{to, from}] = true
		w.mu.Unlock()
	}
	nd.m.HandleMessage(from, msg)
	w.hm.Unlock()
}

// pop takes the next message of a random (or the given) non-held link towards `only` (or anybody)
func (w *syncWorld) pop(only int) (uint16, uint16, []byte, bool) {
	w.mu.Lock()
	defer w.mu.Unlock()
	var cands [][2]uint16
	for _, k := range w.order {
		if len(w.links[k]) == 0 || (only >= 0 && k[1] != uint16(only)) || (w.held != nil && w.held(k[0], k[1])) {
			continue
		}
		cands = append(cands, k)
	}
	if len(cands) == 0 {
		return 0, 0, nil, false
	}
	k := cands[w.r.Intn(len(cands))]
	q := w.links[k]
	i := 0
	if !w.fifo {
		i = w.r.Intn(len(q))
	}
	msg := q[i]
	w.links[k] = append(append([][]byte{}, q[:i]...), q[i+1:]...)
	return k[0], k[1], msg, true
}

func (w *syncWorld) deliverer() {
	for {
		select {
		case <-w.stop:
			return
		default:
		}
		from, to, msg, ok := w.pop(-1)
		if !ok {
			time.Sleep(50 * time.Microsecond)
			continue
		}
		w.handTo(from, to, msg)
	}
}

func encView(topic []byte, kind uint8, as uint16, view []uint16) []byte {
	return discovery.VerifEncodeTagAndMembershipList(kind, string(discovery.VerifPRF(topic, as)), view)
}

func sortedU16(l []uint16) []uint16 {
	c := append([]uint16{}, l...)
	sort.Slice(c, func(i, j int) bool { return c[i] < c[j] })
	return c
}

// syncScenario runs one world: honest callers with their expected counts, a deadline, and returns the nodes
func syncScenario(w *syncWorld, callers []uint16, expected int, deadline time.Duration, s *out.Sink) {
	w.nodes = map[uint16]*syncNode{}
	w.links = map[[2]uint16][][]byte{}
	w.received = map[[2]uint16]bool{}
	w.stop = make(chan struct{})
	for _, id := range callers {
		id := id
		nd := &syncNode{id: id}
		nd.m = &discovery.Member{Membership: w.cfg, ID: id, Logger: nopLogger{},
			Broadcast: func(msg []byte) {
				if _, _, peers, err := discovery.VerifDecodeTagAndMembershipList(msg); err == nil {
					w.mu.Lock()
					nd.bcasts = append(nd.bcasts, out.U16s(peers))
					w.mu.Unlock()
				}
				for _, to := range w.cfg {
					if to != id {
						w.enqueue(id, to, msg)
					}
				}
				if w.observe != nil {
					w.observe(w, id, -1, msg)
				}
			},
			Send: func(msg []byte, to uint16) {
				w.enqueue(id, to, msg)
				if w.observe != nil {
					w.observe(w, id, int(to), msg)
				}
			}}
		w.nodes[id] = nd
	}
	discovery.VerifYield = func(id uint16, point string) {
		if point == "intersect" && w.window != nil {
			w.window(w, id)
		}
	}
	go w.deliverer()
	ctx, cancel := context.WithTimeout(context.Background(), deadline)
	var wg sync.WaitGroup
	for _, nd := range w.nodes {
		nd := nd
		wg.Add(1)
		go func() {
			defer wg.Done()
			err := nd.m.Synchronize(ctx, func(l []uint16) { nd.cont = append(nd.cont, append([]uint16{}, l...)) }, w.topic, expected, time.Millisecond)
			nd.err, nd.ret = err, true
		}()
	}
	fin := make(chan struct{})
	go func() { wg.Wait(); close(fin) }()
	select {
	case <-fin:
	case <-time.After(deadline + 20*time.Second):
		s.Violate("C07", "Synchronize did not return within 20 s of its deadline", fmt.Sprintf("cfg %v callers %v expected %d", w.cfg, callers, expected))
	}
	cancel()
	close(w.stop)
	discovery.VerifYield = nil
}

// syncMonitors checks what the callers saw against the statement of C07
func syncMonitors(w *syncWorld, callers []uint16, expected int, honest map[uint16]bool, desc string, s *out.Sink) (completed int) {
	inCfg := map[uint16]bool{}
	for _, id := range w.cfg {
		inCfg[id] = true
	}
	for _, id := range callers {
		nd := w.nodes[id]
		if !nd.ret {
			continue
		}
		if nd.err == nil && len(nd.cont) != 1 || nd.err != nil && len(nd.cont) != 0 {
			s.Violate("C07", fmt.Sprintf("member %d: Synchronize returned %v after %d continuation calls", id, nd.err, len(nd.cont)), desc)
			continue
		}
		if nd.err != nil {
			continue
		}
		completed++
		l := nd.cont[0]
		bad := ""
		has := false
		for i, k := range l {
			if i > 0 && l[i-1] >= k {
				bad = "not strictly sorted"
			}
			if k == id {
				has = true
			} else {
				if !inCfg[k] {
					bad = fmt.Sprintf("contains %d, which is not configured", k)
				} else if !w.wasReceived(id, k) {
					bad = fmt.Sprintf("contains %d, from which no message on the topic was received", k)
				} else if honest[k] {
					ok := false
					if other := w.nodes[k]; other != nil {
						w.mu.Lock()
						bc := append([]string(nil), other.bcasts...)
						w.mu.Unlock()
						for _, b := range bc {
							ok = ok || b == out.U16s(l)
						}
					}
					if !ok {
						bad = fmt.Sprintf("contains honest member %d, which never announced this list", k)
					}
				}
			}
		}
		if !has {
			bad = "does not contain the member itself"
		}
		if len(l) != expected {
			bad = fmt.Sprintf("has %d entries, expected %d", len(l), expected)
		}
		if bad != "" {
			s.Violate("C07", fmt.Sprintf("validity: member %d obtained %v, which %s", id, l, bad), desc)
		}
	}
	for _, a := range callers {
		for _, b := range callers {
			na, nb := w.nodes[a], w.nodes[b]
			if a == b || len(na.cont) != 1 || len(nb.cont) != 1 {
				continue
			}
			la, lb := na.cont[0], nb.cont[0]
			in := false
			for _, k := range la {
				in = in || k == b
			}
			if in && out.U16s(la) != out.U16s(lb) {
				s.Violate("C07", fmt.Sprintf("agreement: honest %d obtained %v, honest %d (on that list) obtained %v", a, la, b, lb), desc)
			}
		}
	}
	return completed
}

func syncNet(r *prng.R, s *out.Sink, tier string) {
	runs := 70
	if tier == "thorough" {
		runs = 900
	}
	defer func() { discovery.VerifYield = nil }()
	// the recorded failure first: the split inside the windows after the passes (F25)
	for i := 0; i < 3; i++ {
		syncWindowSplit(r, s)
	}
	for run := 0; run < runs; run++ {
		n := 2 + r.Intn(5)
		cfg := pickIDs(r, n)
		topic := r.Bytes(16)
		w := &syncWorld{r: r.Fork(), topic: topic, cfg: cfg, fifo: true}
		mode := r.Intn(10)
		switch {
		case mode < 3: // exactly the expected number of honest members, nobody else says anything: all must complete
			e := 1 + r.Intn(n)
			callers := cfg[:e]
			honest := map[uint16]bool{}
			for _, id := range cfg {
				honest[id] = true
			}
			if r.Intn(2) == 0 { // messages delivered inside the windows after the passes as well
				w.window = func(w *syncWorld, id uint16) {
					for k := 0; k < 2; k++ {
						if from, to, msg, ok := w.pop(int(id)); ok {
							w.handTo(from, to, msg)
						}
					}
				}
			}
			desc := fmt.Sprintf("all honest, cfg %v, callers %v, expected %d, FIFO links, everything delivered", cfg, callers, e)
			syncScenario(w, callers, e, 10*time.Second, s)
			done := syncMonitors(w, callers, e, honest, desc, s)
			s.Count(fmt.Sprintf("net/all-honest/e=%d", e))
			s.N++
			s.Distinct["net|"+desc] = struct{}{}
			if done != e {
				s.Violate("C07", fmt.Sprintf("liveness: only %d of %d honest callers completed within 10 s although exactly the expected number invoked the synchronisation and every message was delivered", done, e), desc)
			}
		case mode < 4: // fewer callers than expected: everybody returns an error, no continuation
			if n < 3 {
				continue
			}
			e := 2 + r.Intn(n-1)
			callers := cfg[:e-1]
			honest := map[uint16]bool{}
			for _, id := range cfg {
				honest[id] = true
			}
			desc := fmt.Sprintf("all honest, cfg %v, callers %v, expected %d (one too few)", cfg, callers, e)
			syncScenario(w, callers, e, 60*time.Millisecond, s)
			done := syncMonitors(w, callers, e, honest, desc, s)
			s.Count("net/too-few")
			s.N++
			s.Distinct["net|"+desc] = struct{}{}
			if done != 0 {
				s.Violate("C07", "a member completed although fewer members than expected took part", desc)
			}
		default: // corrupted members
			if n < 3 {
				continue
			}
			f := 1 + r.Intn(imin2(2, n-2))
			bad := cfg[n-f:]
			good := cfg[:n-f]
			e := 2 + r.Intn(n-1)
			honest := map[uint16]bool{}
			for _, id := range good {
				honest[id] = true
			}
			w.fifo = r.Intn(2) == 0
			strategy := r.Intn(4)
			adv := &syncAdversary{r: r.Fork(), bad: bad, good: good, e: e, strategy: strategy}
			w.observe = adv.observe
			w.window = adv.window
			desc := fmt.Sprintf("cfg %v, honest callers %v, corrupted %v, expected %d, adversary strategy %d, fifo %v", cfg, good, bad, e, strategy, w.fifo)
			adv.open(w)
			syncScenario(w, good, e, 80*time.Millisecond, s)
			done := syncMonitors(w, good, e, honest, desc, s)
			s.Count(fmt.Sprintf("net/adversary-%d/completed=%d", strategy, done))
			s.N++
			s.Distinct["net|"+desc] = struct{}{}
		}
	}
}

// scripted corrupted members
type syncAdversary struct {
	mu       sync.Mutex // observe is called from the members' own goroutines
	r        *prng.R
	bad      []uint16
	good     []uint16
	e        int
	strategy int
	seen     [][]byte
}

// tailored: a list of the expected size that contains the victim and the liar (different for different victims)
func (a *syncAdversary) tailored(w *syncWorld, victim, liar uint16) []uint16 {
	l := []uint16{victim, liar}
	p := a.r.Perm(len(w.cfg))
	for _, i := range p {
		if len(l) >= a.e {
			break
		}
		if id := w.cfg[i]; id != victim && id != liar {
			l = append(l, id)
		}
	}
	return sortedU16(l)
}

func (a *syncAdversary) open(w *syncWorld) {
	w.mu.Lock()
	defer w.mu.Unlock()
	for _, b := range a.bad {
		for _, g := range a.good {
			k := [2]uint16{b, g}
			w.order = append(w.order, k)
			if w.links == nil {
				w.links = map[[2]uint16][][]byte{}
			}
		}
	}
}

func (a *syncAdversary) observe(w *syncWorld, from uint16, to int, msg []byte) {
	kind, _, view, err := discovery.VerifDecodeTagAndMembershipList(msg)
	if err != nil {
		return
	}
	a.mu.Lock()
	defer a.mu.Unlock()
	w.mu.Lock()
	a.seen = append(a.seen, msg)
	liar := a.bad[a.r.Intn(len(a.bad))]
	coin := a.r.Intn(6)
	var replay []byte
	if len(a.seen) > 0 {
		replay = a.seen[a.r.Intn(len(a.seen))]
	}
	other := w.cfg[a.r.Intn(len(w.cfg))]
	w.mu.Unlock()
	switch a.strategy {
	case 0: // split: every victim is told a list of its own; every query is confirmed as asked, by every corrupted member
		if kind == 1 {
			w.enqueue(liar, from, encView(w.topic, 1, liar, a.tailored(w, from, liar)))
		}
		if kind == 2 {
			for _, b := range a.bad {
				w.enqueue(b, from, encView(w.topic, 1, b, view))
				w.enqueue(b, from, encView(w.topic, 3, b, view))
			}
		}
	case 1: // echo: agree with whatever the victim says, plus ourselves
		v := view
		if coin < 3 {
			v = sortedU16(append(append([]uint16{}, view...), liar))
		}
		w.enqueue(liar, from, encView(w.topic, []uint8{1, 2, 3}[coin%3], liar, v))
		if kind == 2 {
			w.enqueue(liar, from, encView(w.topic, 3, liar, view))
		}
	case 2: // noise: answering for others, foreign topics, replays, unsorted and oversized views, outsiders
		switch coin {
		case 0:
			w.enqueue(liar, from, encView(w.topic, 3, other, view)) // someone else's tag
		case 1:
			w.enqueue(liar, from, encView([]byte("another topic"), 1, liar, view))
		case 2:
			if replay != nil {
				w.enqueue(liar, from, replay) // an honest member's message, replayed under our identity
			}
		case 3:
			w.enqueue(liar, from, encView(w.topic, 1, liar, append(append([]uint16{}, view...), view...)))
		case 4:
			w.enqueue(60000, from, encView(w.topic, 1, 60000, view)) // not configured
		default:
			w.enqueue(liar, from, encView(w.topic, 2, liar, a.tailored(w, from, liar)))
		}
		if kind == 2 {
			w.enqueue(liar, from, encView(w.topic, 3, liar, view))
		}
	default: // patient: say nothing until queried, then confirm and afterwards change the story
		if kind == 2 {
			for _, b := range a.bad {
				w.enqueue(b, from, encView(w.topic, 3, b, view))
				w.enqueue(b, from, encView(w.topic, 1, b, a.tailored(w, from, b)))
			}
		} else if coin == 0 {
			w.enqueue(liar, from, encView(w.topic, 1, liar, a.tailored(w, from, liar)))
		}
	}
}

// inside the window after a pass over the peer table: hand over whatever is pending for that member
func (a *syncAdversary) window(w *syncWorld, id uint16) {
	for k := 0; k < 3; k++ {
		if from, to, msg, ok := w.pop(int(id)); ok {
			w.handTo(from, to, msg)
		}
	}
}

// syncWindowSplit: the history that separated two honest members before F25 was repaired. Honest A and C, corrupted
// B and D, expected 3. B tells A {A,B,C}; D tells C {A,C,D}; C's first announcement reaches A, and A's reaches C,
// exactly inside the windows after their passes over the peer table; B and D confirm every query as asked.
func syncWindowSplit(r *prng.R, s *out.Sink) {
	ids := pickIDs(r, 4)
	A, B, C, D := ids[0], ids[1], ids[2], ids[3]
	topic := r.Bytes(16)
	w := &syncWorld{r: r.Fork(), topic: topic, cfg: ids, fifo: true}
	var once sync.Map
	w.held = func(from, to uint16) bool { return (from == A && to == C) || (from == C && to == A) }
	w.observe = func(w *syncWorld, from uint16, to int, msg []byte) {
		kind, _, view, err := discovery.VerifDecodeTagAndMembershipList(msg)
		if err != nil {
			return
		}
		if kind == 2 {
			for _, b := range []uint16{B, D} {
				w.enqueue(b, from, encView(topic, 3, b, view))
			}
		}
	}
	w.window = func(w *syncWorld, id uint16) {
		var liar, other uint16
		switch id {
		case A:
			liar, other = B, C
		case C:
			liar, other = D, A
		default:
			return
		}
		if _, done := once.Load(id); done {
			return
		}
		st := w.nodes[id].m.VerifTopicState(topic)
		if len(st.Views) != 1 || st.Views[liar] == nil {
			return
		}
		w.mu.Lock()
		q := w.links[[2]uint16{other, id}]
		var msg []byte
		if len(q) > 0 {
			msg = q[0]
			w.links[[2]uint16{other, id}] = q[1:]
		}
		w.mu.Unlock()
		if msg == nil {
			return
		}
		once.Store(id, true)
		w.handTo(other, id, msg)
	}
	// the two lies are in the links before anybody starts
	w.links = map[[2]uint16][][]byte{}
	desc := fmt.Sprintf("window split: honest A=%d C=%d, corrupted B=%d D=%d, expected 3; B tells A %v, D tells C %v; the honest announcements land inside the windows after the passes; B and D confirm every query",
		A, C, B, D, sortedU16([]uint16{A, B, C}), sortedU16([]uint16{A, C, D}))
	go func() {
		time.Sleep(2 * time.Millisecond)
		w.enqueue(B, A, encView(topic, 1, B, sortedU16([]uint16{A, B, C})))
		w.enqueue(D, C, encView(topic, 1, D, sortedU16([]uint16{A, C, D})))
	}()
	syncScenario(w, []uint16{A, C}, 3, 150*time.Millisecond, s)
	done := syncMonitors(w, []uint16{A, C}, 3, map[uint16]bool{A: true, C: true}, desc, s)
	s.Count(fmt.Sprintf("net/window-split/completed=%d", done))
	s.N++
	s.Distinct["net|"+desc] = struct{}{}
}

func imin2(a, b int) int {
	if a < b {
		return a
	}
	return b
}
