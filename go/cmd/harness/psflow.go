package main

// Component "psflow": the PS blind threshold signature and the BLS threshold signature end to end on the real
// code, properties C08 (completeness) and C09 (anything altered is rejected; verifying is side-effect free).
//
//  1. complete: real DKG (random delivery schedule) for several (n, t) and message lengths; all parties must report
//     identical public material; for every signer subset of size >= t (all of size t, the full set, random others):
//     Blind -> every signer's Sign -> UnBlind under that signer's key -> ProveKnowledgeOfSignature -> Verifier.Verify.
//     Message vectors with empty, equal and long entries.
//  2. altered: every group element and scalar of the request, of its proof, of a partial signature, of the proof of
//     knowledge and of its inner proof is perturbed algebraically (add the generator / add one, double, swap with a
//     sibling, substitute from another session); witnesses are swapped between signers, fewer than t are used, the
//     proof is verified under another key; BLS: other digest, share + generator, signer/share assignment permuted,
//     fewer than t shares, other key. Every one of these must be rejected (Props/C09 says exactly which alterations
//     could survive: none of these, since the shares, coefficients and points involved are distinct and non-zero —
//     checked here on the real values).
//  3. pure: SignBlindSignature, UnBlind, SigPoK.Verify, Verifier.Verify and the BLS verifier are each called twice
//     on the same object; same verdict, and the object's encoding is unchanged (recorded failure F29).

import (
	"bytes"
	"context"
	"encoding/asn1"
	"fmt"
	"sort"
	"time"

	math "github.com/IBM/mathlib"

	"github.com/IBM/TSS/mpc/bls"
	"github.com/IBM/TSS/mpc/ps"

	"verif/internal/out"
	"verif/internal/prng"
)

func init() { components["psflow"] = runPSFlow }

func psMessages(r *prng.R, msgLen int) [][][]byte {
	long := r.Bytes(300)
	mk := func(f func(i int) []byte) [][]byte {
		m := make([][]byte, msgLen)
		for i := range m {
			m[i] = f(i)
		}
		return m
	}
	return [][][]byte{
		mk(func(i int) []byte { return r.Bytes(1 + r.Intn(20)) }),
		mk(func(i int) []byte { return nil }),            // all empty
		mk(func(i int) []byte { return []byte("same") }), // all equal
		mk(func(i int) []byte { return append([]byte{byte(i)}, long...) }),
	}
}

type psWorld struct {
	n, t, msgLen int
	parties      []uint16
	shares       map[uint16][]byte
	tpk          []byte
	prover       *ps.Prover
	verifier     *ps.Verifier
}

func (w *psWorld) signer(id uint16) *ps.TPS {
	p := &ps.TPS{Party: id, Logger: nopLogger{}, Curve: math.Curves[1], MessageLength: w.msgLen}
	p.Init(w.parties, w.t, func([]byte, bool, uint16) {})
	if err := p.SetShareData(w.shares[id]); err != nil {
		panic(err)
	}
	return p
}

var psWorldCount = 0

func newPSWorld(r *prng.R, s *out.Sink, n, t, msgLen int) *psWorld {
	parties := make([]uint16, n)
	for i := range parties {
		parties[i] = uint16(i + 1)
	}
	psWorldCount++
	if psWorldCount%3 != 1 {
		// party identifiers from the corners of the 16-bit range
		parties = pickIDs(r, n)
		sort.Slice(parties, func(i, j int) bool { return parties[i] < parties[j] })
		s.Count("complete/corner-identifiers")
	}
	if psWorldCount%2 == 0 {
		// the party list in another than ascending order, the same at every party and at the prover (a party's evaluation
		// point and its place in the public material are its position in the list)
		parties[0], parties[n-1] = parties[n-1], parties[0]
		s.Count("complete/permuted-party-list")
	}
	d := newDkgRun("ps", parties, t, msgLen)
	d.reorder = r.Intn(3) != 0
	if d.reorder && n >= 2 {
		// on one link the sender's key overtakes its commitment, by construction
		a := r.Intn(n)
		b := (a + 1 + r.Intn(n-1)) % n
		d.overtake = [2]uint16{parties[a], parties[b]}
	}
	d.run(r.Fork(), parties, 30*time.Second)
	w := &psWorld{n: n, t: t, msgLen: msgLen, parties: parties, shares: map[uint16][]byte{}}
	desc := fmt.Sprintf("ps DKG n=%d t=%d msgLen=%d schedule %s", n, t, msgLen, d.describe())
	for _, id := range parties {
		if d.errs[id] != nil {
			s.Violate("C08", fmt.Sprintf("DKG failed at party %d: %v", id, d.errs[id]), desc)
			return nil
		}
		w.shares[id] = d.results[id]
	}
	// all parties report identical public material
	for _, id := range parties {
		tpk, err := d.backs[id].(*ps.TPS).ThresholdPK()
		if err != nil {
			s.Violate("C08", fmt.Sprintf("ThresholdPK failed at party %d: %v", id, err), desc)
			return nil
		}
		if w.tpk == nil {
			w.tpk = tpk
		} else if !bytes.Equal(w.tpk, tpk) {
			s.Violate("C08", fmt.Sprintf("party %d reports other public material than party %d after the same DKG", id, parties[0]), desc)
		}
	}
	w.prover = &ps.Prover{Logger: nopLogger{}}
	if err := w.prover.Init(math.Curves[1], msgLen, w.tpk, parties); err != nil {
		s.Violate("C08", "Prover.Init failed on the generated public material: "+err.Error(), desc)
		return nil
	}
	w.verifier = &ps.Verifier{}
	if err := w.verifier.Init(math.Curves[1], msgLen, w.tpk); err != nil {
		s.Violate("C08", "Verifier.Init failed on the generated public material: "+err.Error(), desc)
		return nil
	}
	return w
}

// flow runs one complete signing for signer set S and returns the objects
type psObjects struct {
	request  []byte
	secret   *ps.UnblindingSecret
	partials map[uint16][]byte
	wits     map[uint16]ps.SignatureWitness
	proof    []byte
}

func (w *psWorld) flow(s *out.Sink, msg [][]byte, S []uint16, desc string) *psObjects {
	req, secret := w.prover.Blind(msg)
	o := &psObjects{request: req.Bytes(), secret: &secret, partials: map[uint16][]byte{}, wits: map[uint16]ps.SignatureWitness{}}
	var wits []ps.SignatureWitness
	for _, id := range S {
		sig, err := w.signer(id).Sign(context.Background(), o.request)
		if err != nil {
			s.Violate("C08", fmt.Sprintf("signer %d refused an honest request: %v", id, err), desc)
			return nil
		}
		o.partials[id] = sig
		wit, err := w.prover.UnBlind(id, sig, o.secret)
		if err != nil {
			s.Violate("C08", fmt.Sprintf("the partial signature of signer %d does not unblind to a witness valid under its published key: %v", id, err), desc)
			return nil
		}
		o.wits[id] = wit
		wits = append(wits, wit)
	}
	proof := w.prover.ProveKnowledgeOfSignature(o.secret, S, wits)
	o.proof = proof.Bytes()
	if err := w.verifier.Verify(o.proof); err != nil {
		s.Violate("C08", fmt.Sprintf("the proof of knowledge built from the witnesses of %v does not verify under the threshold public key: %v", S, err), desc)
		return nil
	}
	// the same set with its witnesses listed in another (arrival) order: a set of signers has no order
	if len(S) >= 2 {
		P := make([]uint16, len(S))
		wp := make([]ps.SignatureWitness, len(S))
		for i := range S {
			P[len(S)-1-i], wp[len(S)-1-i] = S[i], wits[i]
		}
		if len(S) >= 3 {
			P[0], P[1] = P[1], P[0]
			wp[0], wp[1] = wp[1], wp[0]
		}
		s.Count("complete/flow-arrival-order")
		pr := w.prover.ProveKnowledgeOfSignature(o.secret, append([]uint16(nil), P...), wp)
		if err := w.verifier.Verify(pr.Bytes()); err != nil {
			s.Violate("C08", fmt.Sprintf("the proof of knowledge built from the witnesses of the signers listed as %v does not verify under the threshold public key: %v", P, err), desc)
		}
	}
	return o
}

func subsetsAtLeast(r *prng.R, ids []uint16, t int, extra int) [][]uint16 {
	res := subsetsOfIDs(ids, t)
	if len(ids) > t {
		res = append(res, append([]uint16{}, ids...))
	}
	for k := 0; k < extra && len(ids) > t+1; k++ {
		sz := t + 1 + r.Intn(len(ids)-t-1)
		p := r.Perm(len(ids))
		var S []uint16
		for _, i := range p[:sz] {
			S = append(S, ids[i])
		}
		sort.Slice(S, func(i, j int) bool { return S[i] < S[j] })
		res = append(res, S)
	}
	return res
}

func runPSFlow(r *prng.R, s *out.Sink, tier string) {
	type cfg struct{ n, t, l int }
	cfgs := []cfg{{2, 2, 1}, {3, 2, 2}, {3, 3, 1}, {4, 3, 2}, {4, 2, 3}, {5, 3, 2}}
	if tier == "thorough" {
		cfgs = append(cfgs, cfg{4, 2, 4}, cfg{5, 3, 3}, cfg{5, 5, 1}, cfg{5, 4, 8}, cfg{6, 4, 2}, cfg{7, 4, 1}, cfg{8, 5, 2})
	}
	var worlds []*psWorld
	for _, c := range cfgs {
		w := newPSWorld(r, s, c.n, c.t, c.l)
		if w == nil {
			return
		}
		worlds = append(worlds, w)
		s.Count(fmt.Sprintf("complete/dkg n=%d t=%d l=%d", c.n, c.t, c.l))
		for mi, msg := range psMessages(r, c.l) {
			subsets := subsetsAtLeast(r, w.parties, c.t, 2)
			if mi > 0 && len(subsets) > 3 {
				subsets = subsets[:3]
			}
			for _, S := range subsets {
				desc := fmt.Sprintf("n=%d t=%d msgLen=%d message variant %d signers %v", c.n, c.t, c.l, mi, S)
				s.N++
				s.Count(fmt.Sprintf("complete/flow |S|-t=%d", len(S)-c.t))
				s.Distinct["complete|"+desc] = struct{}{}
				w.flow(s, msg, S, desc)
			}
		}
	}
	psAltered(r, s, worlds)
	psPure(r, s)
	blsAltered(r, s, tier)
}

// ---- algebraic perturbations ------------------------------------------------------------------------------------

var psCurve = math.Curves[1]

func g1Plus(b []byte) []byte {
	p, err := psCurve.NewG1FromBytes(b)
	if err != nil {
		return nil
	}
	p.Add(psCurve.GenG1)
	return p.Bytes()
}
func g1Double(b []byte) []byte {
	p, err := psCurve.NewG1FromBytes(b)
	if err != nil {
		return nil
	}
	return p.Mul(psCurve.NewZrFromInt(2)).Bytes()
}
func g2Plus(b []byte) []byte {
	p, err := psCurve.NewG2FromBytes(b)
	if err != nil {
		return nil
	}
	p.Add(psCurve.GenG2)
	return p.Bytes()
}
func zrPlus(b []byte) []byte {
	return psCurve.NewZrFromBytes(b).Plus(psCurve.NewZrFromInt(1)).Bytes()
}

type alt struct {
	what string
	obj  []byte
}

func requestAlterations(req, other []byte) []alt {
	var raw, oraw ps.RawBlindSignature
	asn1.Unmarshal(req, &raw)
	asn1.Unmarshal(other, &oraw)
	var pr, opr ps.RawBlindCorrectProof
	asn1.Unmarshal(raw.CorrectFormProof, &pr)
	asn1.Unmarshal(oraw.CorrectFormProof, &opr)
	var res []alt
	emit := func(what string, f func(q *ps.RawBlindSignature, p *ps.RawBlindCorrectProof)) {
		q := raw
		q.A = append([][]byte{}, raw.A...)
		q.B = append([][]byte{}, raw.B...)
		p := pr
		p.X = append([][]byte{}, pr.X...)
		p.Y = append([][]byte{}, pr.Y...)
		p.D = append([][]byte{}, pr.D...)
		p.F = append([][]byte{}, pr.F...)
		f(&q, &p)
		q.CorrectFormProof = remarshal(p)
		res = append(res, alt{what, remarshal(q)})
	}
	emit("cm + g", func(q *ps.RawBlindSignature, p *ps.RawBlindCorrectProof) { q.CM = g1Plus(q.CM) })
	emit("cm doubled", func(q *ps.RawBlindSignature, p *ps.RawBlindCorrectProof) { q.CM = g1Double(q.CM) })
	emit("cm of another session", func(q *ps.RawBlindSignature, p *ps.RawBlindCorrectProof) { q.CM = oraw.CM })
	emit("u + g", func(q *ps.RawBlindSignature, p *ps.RawBlindCorrectProof) { q.U = g1Plus(q.U) })
	emit("u of another session", func(q *ps.RawBlindSignature, p *ps.RawBlindCorrectProof) { q.U = oraw.U })
	emit("s + g", func(q *ps.RawBlindSignature, p *ps.RawBlindCorrectProof) { p.S = g1Plus(p.S) })
	emit("z + 1", func(q *ps.RawBlindSignature, p *ps.RawBlindCorrectProof) { p.Z = zrPlus(p.Z) })
	emit("proof of another session", func(q *ps.RawBlindSignature, p *ps.RawBlindCorrectProof) { *p = opr })
	for i := range raw.A {
		i := i
		emit(fmt.Sprintf("a[%d] + g", i), func(q *ps.RawBlindSignature, p *ps.RawBlindCorrectProof) { q.A[i] = g1Plus(q.A[i]) })
		emit(fmt.Sprintf("b[%d] + g", i), func(q *ps.RawBlindSignature, p *ps.RawBlindCorrectProof) { q.B[i] = g1Plus(q.B[i]) })
		emit(fmt.Sprintf("b[%d] doubled", i), func(q *ps.RawBlindSignature, p *ps.RawBlindCorrectProof) { q.B[i] = g1Double(q.B[i]) })
		emit(fmt.Sprintf("a[%d] of another session", i), func(q *ps.RawBlindSignature, p *ps.RawBlindCorrectProof) { q.A[i] = oraw.A[i] })
		emit(fmt.Sprintf("d[%d] + g", i), func(q *ps.RawBlindSignature, p *ps.RawBlindCorrectProof) { p.D[i] = g1Plus(p.D[i]) })
		emit(fmt.Sprintf("f[%d] + g", i), func(q *ps.RawBlindSignature, p *ps.RawBlindCorrectProof) { p.F[i] = g1Plus(p.F[i]) })
		emit(fmt.Sprintf("x[%d] + 1", i), func(q *ps.RawBlindSignature, p *ps.RawBlindCorrectProof) { p.X[i] = zrPlus(p.X[i]) })
		emit(fmt.Sprintf("y[%d] + 1", i), func(q *ps.RawBlindSignature, p *ps.RawBlindCorrectProof) { p.Y[i] = zrPlus(p.Y[i]) })
		if i+1 < len(raw.A) {
			emit(fmt.Sprintf("a[%d] <-> a[%d]", i, i+1), func(q *ps.RawBlindSignature, p *ps.RawBlindCorrectProof) { q.A[i], q.A[i+1] = q.A[i+1], q.A[i] })
			emit(fmt.Sprintf("b[%d] <-> b[%d]", i, i+1), func(q *ps.RawBlindSignature, p *ps.RawBlindCorrectProof) { q.B[i], q.B[i+1] = q.B[i+1], q.B[i] })
			emit(fmt.Sprintf("d[%d] <-> d[%d]", i, i+1), func(q *ps.RawBlindSignature, p *ps.RawBlindCorrectProof) { p.D[i], p.D[i+1] = p.D[i+1], p.D[i] })
			emit(fmt.Sprintf("x[%d] <-> x[%d]", i, i+1), func(q *ps.RawBlindSignature, p *ps.RawBlindCorrectProof) { p.X[i], p.X[i+1] = p.X[i+1], p.X[i] })
		}
	}
	return res
}

func proofAlterations(proof, other []byte) []alt {
	var raw, oraw ps.RawSigPok
	asn1.Unmarshal(proof, &raw)
	asn1.Unmarshal(other, &oraw)
	var psi, opsi ps.RawPoKofSignaturePoCorrectForm
	asn1.Unmarshal(raw.Data[0], &psi)
	asn1.Unmarshal(oraw.Data[0], &opsi)
	var res []alt
	emit := func(what string, f func(d [][]byte, p *ps.RawPoKofSignaturePoCorrectForm)) {
		d := append([][]byte{}, raw.Data...)
		p := psi
		p.X = append([][]byte{}, psi.X...)
		f(d, &p)
		if bytes.Equal(d[0], raw.Data[0]) {
			d[0] = remarshal(p)
		}
		res = append(res, alt{what, remarshal(ps.RawSigPok{Data: d})})
	}
	names := []string{"", "h^e", "h'^e", "nu"}
	for k := 1; k <= 3; k++ {
		k := k
		emit(names[k]+" + g", func(d [][]byte, p *ps.RawPoKofSignaturePoCorrectForm) { d[k] = g1Plus(d[k]) })
		emit(names[k]+" doubled", func(d [][]byte, p *ps.RawPoKofSignaturePoCorrectForm) { d[k] = g1Double(d[k]) })
		emit(names[k]+" of another proof", func(d [][]byte, p *ps.RawPoKofSignaturePoCorrectForm) { d[k] = oraw.Data[k] })
	}
	emit("kappa + g2", func(d [][]byte, p *ps.RawPoKofSignaturePoCorrectForm) { d[4] = g2Plus(d[4]) })
	emit("kappa of another proof", func(d [][]byte, p *ps.RawPoKofSignaturePoCorrectForm) { d[4] = oraw.Data[4] })
	emit("h^e <-> nu", func(d [][]byte, p *ps.RawPoKofSignaturePoCorrectForm) { d[1], d[3] = d[3], d[1] })
	emit("inner proof of another proof", func(d [][]byte, p *ps.RawPoKofSignaturePoCorrectForm) { d[0] = oraw.Data[0] })
	emit("Gamma + g2", func(d [][]byte, p *ps.RawPoKofSignaturePoCorrectForm) { p.Gamma = g2Plus(p.Gamma) })
	emit("Phi + g", func(d [][]byte, p *ps.RawPoKofSignaturePoCorrectForm) { p.Phi = g1Plus(p.Phi) })
	emit("y + 1", func(d [][]byte, p *ps.RawPoKofSignaturePoCorrectForm) { p.Y = zrPlus(p.Y) })
	for i := range psi.X {
		i := i
		emit(fmt.Sprintf("x[%d] + 1", i), func(d [][]byte, p *ps.RawPoKofSignaturePoCorrectForm) { p.X[i] = zrPlus(p.X[i]) })
		if i+1 < len(psi.X) {
			emit(fmt.Sprintf("x[%d] <-> x[%d]", i, i+1), func(d [][]byte, p *ps.RawPoKofSignaturePoCorrectForm) { p.X[i], p.X[i+1] = p.X[i+1], p.X[i] })
		}
	}
	return res
}

func psAltered(r *prng.R, s *out.Sink, worlds []*psWorld) {
	for wi, w := range worlds {
		msgs := psMessages(r, w.msgLen)
		S := append([]uint16{}, w.parties[:w.t]...)
		desc := fmt.Sprintf("n=%d t=%d msgLen=%d signers %v", w.n, w.t, w.msgLen, S)
		o := w.flow(s, msgs[0], S, desc)
		o2 := w.flow(s, msgs[3], S, desc+" (second session)")
		if o == nil || o2 == nil {
			return
		}
		signer := w.signer(S[0])
		reject := func(kind, what string, err error) {
			s.N++
			s.Count("altered/" + kind)
			s.Distinct["altered|"+desc+"|"+kind+"|"+what] = struct{}{}
			if err == nil {
				s.Violate("C09", fmt.Sprintf("%s accepted an altered object: %s", kind, what), desc)
			}
		}
		for _, a := range requestAlterations(o.request, o2.request) {
			_, err := signer.Sign(context.Background(), a.obj)
			reject("request/TPS.Sign", a.what, err)
		}
		// a partial signature altered: must not unblind
		var rs ps.RawSignature
		asn1.Unmarshal(o.partials[S[0]], &rs)
		for _, a := range []alt{
			{"a + g", remarshal(ps.RawSignature{A: g1Plus(rs.A), B: rs.B})},
			{"b + g", remarshal(ps.RawSignature{A: rs.A, B: g1Plus(rs.B)})},
			{"b doubled", remarshal(ps.RawSignature{A: rs.A, B: g1Double(rs.B)})},
			{"a <-> b", remarshal(ps.RawSignature{A: rs.B, B: rs.A})},
			{"the partial signature of another signer", o.partials[S[len(S)-1]]},
			{"the partial signature of another session", o2.partials[S[0]]},
		} {
			if a.what == "the partial signature of another signer" && len(S) < 2 {
				continue
			}
			_, err := w.prover.UnBlind(S[0], a.obj, o.secret)
			reject("partial/Prover.UnBlind", a.what, err)
		}
		// the proof of knowledge altered
		for _, a := range proofAlterations(o.proof, o2.proof) {
			reject("proof/Verifier.Verify", a.what, w.verifier.Verify(a.obj))
		}
		// witnesses under the wrong signers, too few witnesses, another key
		wits := func(ids []uint16) []ps.SignatureWitness {
			var l []ps.SignatureWitness
			for _, id := range ids {
				l = append(l, o.wits[id])
			}
			return l
		}
		if len(S) >= 2 {
			sw := append([]uint16{}, S...)
			sw[0], sw[1] = sw[1], sw[0]
			p := w.prover.ProveKnowledgeOfSignature(o.secret, S, wits(sw))
			reject("assignment/Verifier.Verify", fmt.Sprintf("witnesses of %v combined under the indices %v", sw, S), w.verifier.Verify(p.Bytes()))
			// (a single evaluation point makes lagrangeCoefficient panic in the prover's own process: C18 exec_lagrange_panics_iff)
			if few := S[:len(S)-1]; len(few) >= 2 {
				p = w.prover.ProveKnowledgeOfSignature(o.secret, few, wits(few))
				reject("fewer-than-t/Verifier.Verify", fmt.Sprintf("%d of the %d required witnesses", len(few), w.t), w.verifier.Verify(p.Bytes()))
			}
		}
		if w.n > w.t {
			// a signer outside S in place of one inside, under the old index
			repl := append([]uint16{}, S...)
			other := w.parties[w.t]
			sig, err := w.signer(other).Sign(context.Background(), o.request)
			if err == nil {
				if wit, err := w.prover.UnBlind(other, sig, o.secret); err == nil {
					l := wits(repl)
					l[0] = wit
					p := w.prover.ProveKnowledgeOfSignature(o.secret, S, l)
					reject("assignment/Verifier.Verify", fmt.Sprintf("the witness of %d combined under the index of %d", other, S[0]), w.verifier.Verify(p.Bytes()))
				}
			}
		}
		if wi+1 < len(worlds) && worlds[wi+1].msgLen == w.msgLen {
			reject("other-key/Verifier.Verify", "verified under the threshold key of another DKG", worlds[wi+1].verifier.Verify(o.proof))
		} else {
			// a fresh key of the same shape
			w2 := newPSWorld(r, s, 2, 2, w.msgLen)
			if w2 != nil {
				reject("other-key/Verifier.Verify", "verified under the threshold key of another DKG", w2.verifier.Verify(o.proof))
			}
		}
	}
}

// ---- purity ---------------------------------------------------------------------------------------------------

func psPure(r *prng.R, s *out.Sink) {
	for _, l := range []int{1, 3} {
		pp := ps.Setup(psCurve, l)
		sk, pk := ps.LocalKeyGen(pp)
		m := make([]*math.Zr, l)
		for i := range m {
			m[i] = psCurve.HashToZr(r.Bytes(10))
		}
		σ, secret := ps.Blind(&pp, psCurve, m)
		before := σ.Bytes()
		desc := fmt.Sprintf("local key, message length %d", l)
		var sig *ps.Signature
		for k := 1; k <= 3; k++ {
			var err error
			sig, err = ps.SignBlindSignature(&pp, σ, sk)
			s.N++
			s.Count("pure/SignBlindSignature")
			if err != nil {
				s.Violate("C09", fmt.Sprintf("signing the same request object for the %d. time fails (%v) although the first time succeeded: verification has a side effect", k, err), desc)
				break
			}
			if !bytes.Equal(before, σ.Bytes()) {
				s.Violate("C09", "SignBlindSignature modified the request it was given", desc)
				break
			}
		}
		if sig == nil {
			continue
		}
		h, msg, z := ps.VerifSecretParts(&secret)
		sb := sig.Bytes()
		var hPrime *math.G1
		for k := 1; k <= 2; k++ {
			var err error
			hPrime, err = ps.UnBlind(&pp, pk, sig, h, msg, z)
			s.N++
			s.Count("pure/UnBlind")
			if err != nil {
				s.Violate("C09", fmt.Sprintf("UnBlind call %d on the same signature fails: %v", k, err), desc)
			}
			if !bytes.Equal(sb, sig.Bytes()) || !bytes.Equal(pk.Bytes(), pk.Bytes()) {
				s.Violate("C09", "UnBlind modified the signature it was given", desc)
			}
		}
		if hPrime == nil {
			continue
		}
		pkb := pk.Bytes()
		pok := ps.PoKofSig(&pp, pk, h, hPrime, msg)
		pb := pok.Bytes()
		for k := 1; k <= 3; k++ {
			err := pok.Verify(&pp, pk)
			s.N++
			s.Count("pure/SigPoK.Verify")
			if err != nil {
				s.Violate("C09", fmt.Sprintf("SigPoK.Verify call %d on the same proof object fails: %v", k, err), desc)
			}
			if !bytes.Equal(pb, pok.Bytes()) || !bytes.Equal(pkb, pk.Bytes()) {
				s.Violate("C09", "SigPoK.Verify modified the proof or the key it was given", desc)
			}
		}
		s.Distinct["pure|"+desc] = struct{}{}
		// proofs made without a signature under pk: the prover's own routine run on points that are no signature
		// (the identity of G1 in either or both places, the bare generator, h with an unrelated second component).
		// "verifies only if it was produced by at least t genuine shares of the key": each must be refused, by
		// SigPoK.Verify and by a Verifier initialised with this key.
		zero := psCurve.GenG1.Copy()
		zero.Sub(zero)
		ver := &ps.Verifier{}
		rawTPK, _ := asn1.Marshal(ps.ThresholdPK{TPK: pk.Bytes()})
		verOK := ver.Init(psCurve, l, rawTPK) == nil
		for _, f := range []struct {
			what      string
			h, hPrime *math.G1
		}{
			{"h = 0, h' = 0 (no signer involved)", zero.Copy(), zero.Copy()},
			{"h = 0, h' genuine", zero.Copy(), hPrime.Copy()},
			{"h genuine, h' = 0", h.Copy(), zero.Copy()},
			{"h = g, h' = g (no signer involved)", psCurve.GenG1.Copy(), psCurve.GenG1.Copy()},
			{"h genuine, h' = h", h.Copy(), h.Copy()},
		} {
			res := safely(func() string {
				forged := ps.PoKofSig(&pp, pk, f.h, f.hPrime, msg)
				fb := forged.Bytes()
				for k := 1; k <= 2; k++ {
					if forged.Verify(&pp, pk) == nil {
						return fmt.Sprintf("SigPoK.Verify (call %d) accepts", k)
					}
					if verOK && ver.Verify(fb) == nil {
						return fmt.Sprintf("Verifier.Verify (call %d) accepts", k)
					}
				}
				return "rejected"
			})
			s.N++
			s.Count("forged/" + res)
			if res != "rejected" && res != "panic" {
				s.Violate("C09", res+" a proof of knowledge made without any genuine signature share: PoKofSig run on "+f.what, desc+"; "+f.what)
			}
			s.Distinct["forged|"+desc+"|"+f.what] = struct{}{}
		}
		psBinding(r, s, l, &pp, pk, σ, &secret, pok, desc)
	}
}

// psBinding: alterations that keep every verification equation true for the challenge the honest object was made
// with — a response shifted by t together with the commitments shifted to match. Only the Fiat-Shamir hash (which
// must cover the shifted commitment) can reject them; Props/C09 pok_commitments_determined /
// blinding_commitments_determined say the equations alone cannot.
func psBinding(r *prng.R, s *out.Sink, l int, pp *ps.PP, pk ps.PK, σ ps.BlindSignature, secret *ps.UnblindingSecret, pok ps.SigPoK, desc string) {
	g, g0, gs, g2 := ps.VerifPPParts(pp)
	h, _, _ := ps.VerifSecretParts(secret)
	t := psCurve.NewZrFromInt(int64(2 + r.Intn(1000)))
	addG1 := func(b []byte, p *math.G1) []byte {
		x, _ := psCurve.NewG1FromBytes(b)
		x.Add(p.Mul(t))
		return x.Bytes()
	}
	addG2 := func(b []byte, p *math.G2) []byte {
		x, _ := psCurve.NewG2FromBytes(b)
		x.Add(p.Mul(t))
		return x.Bytes()
	}
	addZr := func(b []byte) []byte { return psCurve.NewZrFromBytes(b).Plus(t).Bytes() }
	reject := func(kind, what string, err error) {
		s.N++
		s.Count("binding/" + kind)
		s.Distinct["binding|"+desc+"|"+kind+"|"+what] = struct{}{}
		if err == nil {
			s.Violate("C09", fmt.Sprintf("%s accepted an object whose commitments were shifted to match a shifted response (%s): the challenge does not bind that commitment", kind, what), desc)
		}
	}
	// ---- the proof of knowledge ----
	tpkBytes := remarshal(ps.ThresholdPK{TPK: pk.Bytes()})
	var v ps.Verifier
	if err := v.Init(psCurve, l, tpkBytes); err != nil {
		s.Violate("C09", "Verifier.Init failed on a local key: "+err.Error(), desc)
		return
	}
	if err := v.Verify(pok.Bytes()); err != nil {
		s.Violate("C09", "an honest proof of knowledge under a local key does not verify: "+err.Error(), desc)
		return
	}
	var raw ps.RawSigPok
	asn1.Unmarshal(pok.Bytes(), &raw)
	var psi ps.RawPoKofSignaturePoCorrectForm
	asn1.Unmarshal(raw.Data[0], &psi)
	hε, _ := psCurve.NewG1FromBytes(raw.Data[1])
	for i := range psi.X {
		p := psi
		p.X = append([][]byte{}, psi.X...)
		p.X[i] = addZr(p.X[i])
		p.Gamma = addG2(p.Gamma, pk.Y[i])
		d := append([][]byte{remarshal(p)}, raw.Data[1:]...)
		reject("proof/Verifier.Verify", fmt.Sprintf("x[%d] + t, Gamma + t*Y[%d]", i, i), v.Verify(remarshal(ps.RawSigPok{Data: d})))
	}
	{
		p := psi
		p.Y = addZr(p.Y)
		p.Gamma = addG2(p.Gamma, g2)
		p.Phi = addG1(p.Phi, hε)
		d := append([][]byte{remarshal(p)}, raw.Data[1:]...)
		reject("proof/Verifier.Verify", "y + t, Gamma + t*g2, Phi + t*h^e", v.Verify(remarshal(ps.RawSigPok{Data: d})))
	}
	// ---- the request ----
	sk, _ := ps.LocalKeyGen(*pp)
	var rq ps.RawBlindSignature
	asn1.Unmarshal(σ.Bytes(), &rq)
	var pr ps.RawBlindCorrectProof
	asn1.Unmarshal(rq.CorrectFormProof, &pr)
	u, _ := psCurve.NewG1FromBytes(rq.U)
	signer := func(q ps.RawBlindSignature, p ps.RawBlindCorrectProof) error {
		q.CorrectFormProof = remarshal(p)
		tps := &ps.TPS{Party: 1, Logger: nopLogger{}, Curve: psCurve, MessageLength: l}
		tps.Init([]uint16{1, 2}, 2, func([]byte, bool, uint16) {})
		if err := tps.SetShareData(remarshal(ps.StoredData{Sk: sk.Bytes(), PublicKeys: [][]byte{pk.Bytes(), pk.Bytes()}, ThresholdPK: pk.Bytes()})); err != nil {
			return fmt.Errorf("harness: share data: %v", err)
		}
		_, err := tps.Sign(context.Background(), remarshal(q))
		return err
	}
	if err := signer(rq, pr); err != nil {
		// the honest request must be signable through this route, or the rejections below mean nothing
		s.Violate("C09", "harness: the honest request is refused through the local-key route: "+err.Error(), desc)
		return
	}
	cp := func() ps.RawBlindCorrectProof {
		p := pr
		p.X = append([][]byte{}, pr.X...)
		p.Y = append([][]byte{}, pr.Y...)
		p.D = append([][]byte{}, pr.D...)
		p.F = append([][]byte{}, pr.F...)
		return p
	}
	for i := range pr.X {
		p := cp()
		p.X[i] = addZr(p.X[i])
		p.D[i] = addG1(p.D[i], u)
		p.F[i] = addG1(p.F[i], g)
		reject("request/TPS.Sign", fmt.Sprintf("x[%d] + t, d[%d] + t*u, f[%d] + t*g", i, i, i), signer(rq, p))
		p = cp()
		p.Y[i] = addZr(p.Y[i])
		p.D[i] = addG1(p.D[i], h)
		p.S = addG1(p.S, gs[i])
		reject("request/TPS.Sign", fmt.Sprintf("y[%d] + t, d[%d] + t*h, s + t*gs[%d]", i, i, i), signer(rq, p))
	}
	p := cp()
	p.Z = addZr(p.Z)
	p.S = addG1(p.S, g0)
	reject("request/TPS.Sign", "z + t, s + t*g0", signer(rq, p))
	// the commitment against the scalar m' the request carries beside it: the completed commitment cm * g_n^m' (from which h
	// and the whole proof are derived) is unchanged when cm is shifted by t*g_n and m' by -t; only deriving m' from cm
	// itself (m' = H(cm)) rejects it
	{
		q := rq
		q.CM = addG1(rq.CM, gs[len(gs)-1])
		negT := psCurve.ModNeg(t, psCurve.GroupOrder)
		q.MPrime = psCurve.ModAdd(psCurve.NewZrFromBytes(rq.MPrime), negT, psCurve.GroupOrder).Bytes()
		reject("request/TPS.Sign", "cm + t*g_n, m' - t", signer(q, cp()))
	}
}

// ---- BLS ------------------------------------------------------------------------------------------------------

func blsAltered(r *prng.R, s *out.Sink, tier string) {
	type cfg struct{ n, t int }
	cfgs := []cfg{{3, 2}, {4, 3}}
	if tier == "thorough" {
		cfgs = append(cfgs, cfg{5, 3}, cfg{5, 5}, cfg{6, 4})
	}
	c := bls.VerifCurve()
	var prevV *bls.Verifier
	for _, cf := range cfgs {
		parties := make([]uint16, cf.n)
		for i := range parties {
			parties[i] = uint16(i + 1)
		}
		d := newDkgRun("bls", parties, cf.t, 0)
		d.reorder = r.Intn(3) != 0
		if d.reorder {
			a := r.Intn(cf.n)
			b := (a + 1 + r.Intn(cf.n-1)) % cf.n
			d.overtake = [2]uint16{parties[a], parties[b]}
		}
		d.run(r.Fork(), parties, 60*time.Second)
		desc := fmt.Sprintf("bls n=%d t=%d", cf.n, cf.t)
		if d.errs[1] != nil {
			s.Violate("C09", "BLS DKG failed: "+d.errs[1].Error(), desc)
			return
		}
		signer := func(id uint16) *bls.TBLS {
			t := &bls.TBLS{Party: id, Logger: nopLogger{}}
			t.Init(parties, cf.t, func([]byte, bool, uint16) {})
			t.SetShareData(d.results[id])
			return t
		}
		pp, _ := signer(1).ThresholdPK()
		var v bls.Verifier
		if err := v.Init(pp); err != nil {
			s.Violate("C09", "bls Verifier.Init failed: "+err.Error(), desc)
			return
		}
		digest := r.Bytes(32)
		partial := map[uint16][]byte{}
		for _, id := range parties {
			sg, err := signer(id).Sign(context.Background(), digest)
			if err != nil {
				s.Violate("C09", "bls Sign failed: "+err.Error(), desc)
				return
			}
			partial[id] = sg
		}
		S := parties[:cf.t]
		sigs := func(ids []uint16) [][]byte {
			var l [][]byte
			for _, id := range ids {
				l = append(l, partial[id])
			}
			return l
		}
		agg, err := v.AggregateSignatures(sigs(S), S)
		if err != nil || v.Verify(digest, agg) != nil {
			s.Violate("C09", "honest BLS aggregate does not verify", desc)
			return
		}
		reject := func(kind, what string, err error) {
			s.N++
			s.Count("altered/bls/" + kind)
			s.Distinct["altered|"+desc+"|"+kind+"|"+what] = struct{}{}
			if err == nil {
				s.Violate("C09", fmt.Sprintf("bls.Verifier.Verify accepted: %s", what), desc)
			}
		}
		// twice on the same input: same verdict, input unchanged
		ab := append([]byte{}, agg...)
		for k := 0; k < 2; k++ {
			s.N++
			s.Count("pure/bls.Verifier.Verify")
			if v.Verify(digest, agg) != nil || !bytes.Equal(ab, agg) {
				s.Violate("C09", "verifying the same BLS signature again gives another verdict or modifies it", desc)
			}
		}
		other := append([]byte{}, digest...)
		other[0] ^= 1
		reject("message", "the signature on another digest", v.Verify(other, agg))
		reject("message", "the signature on the empty digest", v.Verify(nil, agg))
		// one share altered
		for i := range S {
			l := sigs(S)
			p, _ := c.NewG1FromBytes(l[i])
			p.Add(c.GenG1)
			l[i] = p.Bytes()
			a, _ := v.AggregateSignatures(l, S)
			reject("share", fmt.Sprintf("share of signer %d + g", S[i]), v.Verify(digest, a))
			l = sigs(S)
			p, _ = c.NewG1FromBytes(l[i])
			l[i] = p.Mul(c.NewZrFromInt(2)).Bytes()
			a, _ = v.AggregateSignatures(l, S)
			reject("share", fmt.Sprintf("share of signer %d doubled", S[i]), v.Verify(digest, a))
		}
		// assignment permuted: shares of S combined under a rotated signer list
		if len(S) >= 2 {
			rot := append(append([]uint16{}, S[1:]...), S[0])
			a, _ := v.AggregateSignatures(sigs(S), rot)
			reject("assignment", fmt.Sprintf("shares of %v combined under the indices %v", S, rot), v.Verify(digest, a))
		}
		if cf.n > cf.t {
			// the share of an outsider under an insider's index
			l := sigs(S)
			l[0] = partial[parties[cf.t]]
			a, _ := v.AggregateSignatures(l, S)
			reject("assignment", fmt.Sprintf("the share of %d combined under the index of %d", parties[cf.t], S[0]), v.Verify(digest, a))
		}
		// fewer than t
		if cf.t >= 3 {
			few := S[:cf.t-1]
			a, _ := v.AggregateSignatures(sigs(few), few)
			reject("fewer-than-t", fmt.Sprintf("%d of the %d required shares", len(few), cf.t), v.Verify(digest, a))
		}
		// a single share as if it were the signature
		reject("fewer-than-t", "a single share presented as the signature", v.Verify(digest, partial[S[0]]))
		// another key
		if prevV != nil {
			reject("key", "verified under the threshold key of another DKG", prevV.Verify(digest, agg))
		}
		vv := v
		prevV = &vv
	}
}
