package main

import (
	"bytes"
	"context"
	"crypto/sha256"
	"encoding/asn1"
	"fmt"
	"sort"
	"sync"
	"time"

	eddsa "github.com/IBM/TSS/mpc/binance/eddsa"
	"github.com/IBM/TSS/mpc/bls"
	"github.com/IBM/TSS/mpc/ps"
	"github.com/IBM/TSS/threshold"
	tss "github.com/IBM/TSS/types"
	math "github.com/IBM/mathlib"

	"verif/internal/out"
	"verif/internal/prng"
)

func init() { components["fullstack"] = runFullStack }

type stackCfg struct {
	scheme string // bls | ps | eddsa
	mode   string // loud | silent
	n, t   int
	ids    []uint16
	msgLen int
}

func factories(scheme string, msgLen int) (tss.KeyGenFactory, tss.SignerFactory) {
	switch scheme {
	case "bls-hello":
		return func(id uint16) tss.KeyGenerator { return &bls.TBLS{Party: id, Logger: nopLogger{}} },
			func(id uint16) tss.Signer { return newHelloSigner(id) }
	case "bls":
		return func(id uint16) tss.KeyGenerator { return &bls.TBLS{Party: id, Logger: nopLogger{}} },
			func(id uint16) tss.Signer { return &bls.TBLS{Party: id, Logger: nopLogger{}} }
	case "ps":
		return func(id uint16) tss.KeyGenerator {
				return &ps.TPS{Party: id, Logger: nopLogger{}, Curve: math.Curves[1], MessageLength: msgLen}
			}, func(id uint16) tss.Signer {
				return &ps.TPS{Party: id, Logger: nopLogger{}, Curve: math.Curves[1], MessageLength: msgLen}
			}
	case "eddsa":
		return func(id uint16) tss.KeyGenerator { return eddsa.NewParty(id, nopLogger{}) },
			func(id uint16) tss.Signer { return eddsa.NewParty(id, nopLogger{}) }
	}
	panic("unknown scheme")
}

// helloSigner makes the (non-interactive) BLS partial signing interactive in the way every real multi-round signing
// protocol is: a party sends one point-to-point message to every other participant of the session and returns its
// partial signature once it has heard from all of them. (Without that, a party may finish and remove its pre-signing
// synchroniser before a slower party's query arrives: known finding KF-C01-fastsigner.)
type helloSigner struct {
	*bls.TBLS
	mu      sync.Mutex
	cond    *sync.Cond
	parties []uint16
	send    func(msg []byte, isBroadcast bool, to uint16)
	heard   map[uint16]bool
}

func newHelloSigner(id uint16) *helloSigner {
	h := &helloSigner{TBLS: &bls.TBLS{Party: id, Logger: nopLogger{}}, heard: map[uint16]bool{}}
	h.cond = sync.NewCond(&h.mu)
	return h
}

func (h *helloSigner) Init(parties []uint16, threshold int, sendMsg func(msg []byte, isBroadcast bool, to uint16)) {
	h.TBLS.Init(parties, threshold, sendMsg)
	h.mu.Lock()
	h.parties, h.send = parties, sendMsg
	h.mu.Unlock()
}

func (h *helloSigner) ClassifyMsg(msg []byte) (uint8, bool, error) {
	if len(msg) == 1 && msg[0] == 0x68 {
		return 1, false, nil
	}
	return 0, false, fmt.Errorf("unknown message")
}

func (h *helloSigner) OnMsg(msg []byte, from uint16, _ bool) {
	if len(msg) == 1 && msg[0] == 0x68 {
		h.mu.Lock()
		h.heard[from] = true
		h.mu.Unlock()
		h.cond.Broadcast()
	}
}

func (h *helloSigner) Sign(ctx context.Context, digest []byte) ([]byte, error) {
	h.mu.Lock()
	parties, send := h.parties, h.send
	h.mu.Unlock()
	for _, p := range parties {
		if p != h.TBLS.Party {
			send([]byte{0x68}, false, p)
		}
	}
	stop := make(chan struct{})
	defer close(stop)
	go func() {
		select {
		case <-ctx.Done():
			h.cond.Broadcast()
		case <-stop:
		}
	}()
	h.mu.Lock()
	for len(h.heard) < len(parties)-1 {
		if ctx.Err() != nil {
			h.mu.Unlock()
			return nil, ctx.Err()
		}
		h.cond.Wait()
	}
	h.mu.Unlock()
	return h.TBLS.Sign(ctx, digest)
}

// buildStack creates n real Schemes on a fresh network.
func buildStack(r *prng.R, c stackCfg) (*simNet, map[uint16]tss.MpcParty) {
	net := newSimNet()
	kgf, sf := factories(c.scheme, c.msgLen)
	membership := identityMembership(c.ids)
	nodes := map[uint16]tss.MpcParty{}
	for _, id := range c.ids {
		// signing threshold of the orchestrator: Threshold+1 parties sign
		if c.mode == "loud" {
			nodes[id] = net.loudNode(id, c.t-1, membership, kgf, sf)
		} else {
			ids := append([]uint16(nil), c.ids...)
			nodes[id] = net.silentNode(id, c.t-1, membership, kgf, sf, func(topic []byte, expected int) []uint16 {
				// the silent synchroniser returns what the application agreed out of band: the first `expected` members
				// — in an order of the application's choosing (here derived from the topic, so that all nodes agree on it):
				// ascending, descending or rotated
				s := append([]uint16(nil), ids...)
				sort.Slice(s, func(i, j int) bool { return s[i] < s[j] })
				s = s[:expected]
				switch sha(topic)[0] % 3 {
				case 1:
					for i, j := 0, len(s)-1; i < j; i, j = i+1, j-1 {
						s[i], s[j] = s[j], s[i]
					}
				case 2:
					s = append(s[1:], s[0])
				}
				return s
			})
		}
	}
	net.start(r.Fork())
	return net, nodes
}

func publicMaterial(scheme string, stored []byte) ([]byte, error) {
	switch scheme {
	case "bls":
		var sd bls.StoredData
		if _, err := asn1.Unmarshal(stored, &sd); err != nil {
			return nil, err
		}
		return asn1.Marshal(struct {
			P [][]byte
			T []byte
		}{sd.PublicKeys, sd.ThresholdPK})
	case "ps":
		var sd ps.StoredData
		if _, err := asn1.Unmarshal(stored, &sd); err != nil {
			return nil, err
		}
		return asn1.Marshal(struct {
			P [][]byte
			T []byte
		}{sd.PublicKeys, sd.ThresholdPK})
	}
	return nil, nil
}

func subsetsOfIDs(ids []uint16, minSize int) [][]uint16 {
	var res [][]uint16
	for mask := 1; mask < 1<<uint(len(ids)); mask++ {
		var s []uint16
		for i := range ids {
			if mask&(1<<uint(i)) != 0 {
				s = append(s, ids[i])
			}
		}
		if len(s) >= minSize {
			res = append(res, s)
		}
	}
	return res
}

// checkBLSSubsets: for every subset of >= t parties the partial signatures made from the stored shares
// aggregate to a signature that verifies under the threshold public key.
func checkBLSSubsets(s *out.Sink, c stackCfg, shares map[uint16][]byte, digests [][]byte, desc string) {
	signer := func(id uint16) *bls.TBLS {
		t := &bls.TBLS{Party: id, Logger: nopLogger{}}
		t.Init(c.ids, c.t, func([]byte, bool, uint16) {})
		t.SetShareData(shares[id])
		return t
	}
	pp, err := signer(c.ids[0]).ThresholdPK()
	if err != nil {
		s.Violate("C01", "ThresholdPK failed: "+err.Error(), desc)
		return
	}
	var v bls.Verifier
	if err := v.Init(pp); err != nil {
		s.Violate("C01", "Verifier.Init failed on the generated public parameters: "+err.Error(), desc)
		return
	}
	for _, d := range digests {
		partial := map[uint16][]byte{}
		for _, id := range c.ids {
			sig, err := signer(id).Sign(context.Background(), d)
			if err != nil {
				s.Violate("C01", "Sign failed: "+err.Error(), desc)
				return
			}
			partial[id] = sig
		}
		for _, S := range subsetsOfIDs(c.ids, c.t) {
			var sigs [][]byte
			for _, id := range S {
				sigs = append(sigs, partial[id])
			}
			s.Count("bls/subset-verify")
			s.N++
			s.Distinct[fmt.Sprintf("%s n=%d t=%d S=%v", desc, c.n, c.t, S)] = struct{}{}
			agg, err := v.AggregateSignatures(sigs, S)
			if err != nil || v.Verify(d, agg) != nil {
				s.Violate("C01", fmt.Sprintf("signers %v (n=%d, t=%d): aggregated signature does not verify under the threshold public key", S, c.n, c.t), desc)
			}
			// the same signers listed in another (arrival) order: the combiner of the public API gets what it is handed
			if len(S) >= 2 {
				P := append([]uint16(nil), S...)
				for i, j := 0, len(P)-1; i < j; i, j = i+1, j-1 {
					P[i], P[j] = P[j], P[i]
				}
				if len(P) >= 3 {
					P[0], P[1] = P[1], P[0]
				}
				var sigsP [][]byte
				for _, id := range P {
					sigsP = append(sigsP, partial[id])
				}
				s.Count("bls/subset-verify-arrival-order")
				s.N++
				agg, err := v.AggregateSignatures(sigsP, append([]uint16(nil), P...))
				if err != nil || v.Verify(d, agg) != nil {
					s.Violate("C01", fmt.Sprintf("signers listed as %v (n=%d, t=%d): aggregated signature does not verify under the threshold public key", P, c.n, c.t), desc)
				}
			}
		}
	}
}

// fastSignerScenario: the schedule of known finding KF-C01-fastsigner, steered (without breaking the FIFO order of any link).
// Two parties, loud mode, the plain (non-interactive) BLS signer. Whoever sends its query of the pre-signing
// synchronisation second, after it has already answered the first party's query, has that query delayed until the first
// party — which has meanwhile received everything it needs, signed and removed its pre-signing synchroniser — returned.
func fastSignerScenario(r *prng.R, s *out.Sink) {
	for attempt := 0; attempt < 12; attempt++ {
		if fastSignerAttempt(r, s, attempt) {
			return
		}
	}
	s.Count("sign/fast-signer-scenario/inconclusive")
}

func fastSignerAttempt(r *prng.R, s *out.Sink, attempt int) bool {
	ids := []uint16{1, 2}
	c := stackCfg{scheme: "bls", mode: "loud", n: 2, t: 2, ids: ids, msgLen: 0}
	net, nodes := buildStack(r, c)
	defer net.stop()
	res := keygenAll(nodes, ids, 2, 2, 60*time.Second)
	for _, id := range ids {
		if res[id].err != nil {
			s.Violate("C01", fmt.Sprintf("KeyGen failed at party %d in a fault-free run: %v", id, res[id].err), "fast-signer scenario")
			return true
		}
		nodes[id].SetStoredData(res[id].data)
	}
	topic := fmt.Sprintf("fast-signer-topic-%d", attempt)
	h1 := sha256.Sum256([]byte(topic))
	h2 := sha256.Sum256(h1[:])
	var mu sync.Mutex
	var first uint16 // who queried first
	responded := map[uint16]bool{}
	returned := map[uint16]bool{}
	held := false
	net.mu.Lock()
	net.onSend = func(from, to uint16, m *tss.IncMessage) {
		if m.MsgType != uint8(tss.MsgTypeSync) || !bytes.Equal(m.Topic, h2[:]) || len(m.Data) == 0 {
			return
		}
		mu.Lock()
		defer mu.Unlock()
		if m.Data[0] == 2 && first == 0 {
			first = from
		}
		if m.Data[0] == 3 {
			responded[from] = true
		}
	}
	net.hold = func(from, to uint16, m *tss.IncMessage) bool {
		if m.MsgType != uint8(tss.MsgTypeSync) || !bytes.Equal(m.Topic, h2[:]) || len(m.Data) == 0 || m.Data[0] != 2 {
			return false
		}
		mu.Lock()
		defer mu.Unlock()
		if first != 0 && from != first && responded[from] && !returned[first] {
			held = true
			return true
		}
		return false
	}
	net.mu.Unlock()
	digest := sha([]byte("m"))
	type rr struct {
		id  uint16
		err error
	}
	ch := make(chan rr, 2)
	for _, id := range ids {
		id := id
		go func() {
			ctx, cancel := context.WithTimeout(context.Background(), 2*time.Second)
			defer cancel()
			_, err := nodes[id].Sign(ctx, digest, topic)
			mu.Lock()
			returned[id] = true
			mu.Unlock()
			net.cond.Broadcast()
			ch <- rr{id, err}
		}()
	}
	errs := map[uint16]error{}
	for range ids {
		x := <-ch
		errs[x.id] = x.err
	}
	mu.Lock()
	defer mu.Unlock()
	if !held {
		return false // the second party had queried before it answered: nothing to delay on a FIFO link
	}
	s.Count("sign/fast-signer-scenario/steered")
	s.N++
	second := uint16(3) - first
	if errs[first] == nil && errs[second] != nil {
		s.Violate("C01", fmt.Sprintf("fast-signer race: with a non-interactive signer, party %d completed the pre-signing synchronisation, signed and removed its synchroniser before the query of party %d arrived; the Sign of party %d fails with %v", first, second, second, errs[second]),
			"2 parties, loud mode, plain BLS signer; the second party's pre-signing query reaches the first party after it returned (FIFO links kept)")
	}
	return true
}

func runFullStack(r *prng.R, s *out.Sink, tier string) {
	threshold.SyncInterval = 4 * time.Millisecond
	fastSignerScenario(r.Fork(), s)
	type nt struct{ n, t int }
	nts := []nt{{2, 2}, {3, 2}, {4, 3}}
	schedules := 2
	schemes := []string{"bls", "ps"}
	modes := []string{"loud", "silent"}
	if tier == "thorough" {
		nts = []nt{{2, 2}, {3, 2}, {3, 3}, {4, 2}, {4, 3}, {5, 3}, {5, 5}, {6, 4}, {7, 4}}
		schedules = 8
	}
	for _, x := range nts {
		for _, scheme := range schemes {
			for _, mode := range modes {
				for k := 0; k < schedules; k++ {
					ids := make([]uint16, x.n)
					for i := range ids {
						ids[i] = uint16(i + 1)
					}
					if k%2 == 1 {
						// node = party identifiers from the corners of the 16-bit range (the map is still the identity)
						ids = pickIDs(r, x.n)
						sort.Slice(ids, func(i, j int) bool { return ids[i] < ids[j] })
						s.Count("dkg/corner-identifiers")
					}
					c := stackCfg{scheme: scheme, mode: mode, n: x.n, t: x.t, ids: ids, msgLen: 2}
					if scheme == "bls" {
						c.scheme = "bls-hello" // orchestrated signing with the partial signer made interactive (see helloSigner)
					}
					desc := fmt.Sprintf("%s %s n=%d t=%d schedule#%d", scheme, mode, x.n, x.t, k)
					net, nodes := buildStack(r, c)
					res := keygenAll(nodes, ids, x.n, x.t, 60*time.Second)
					s.Count("dkg/" + scheme + "/" + mode)
					s.N++
					s.Distinct[desc] = struct{}{}
					if len(s.Samples) < 6 {
						s.Samples = append(s.Samples, desc)
					}
					var pub []byte
					okRun := true
					shares := map[uint16][]byte{}
					for _, id := range ids {
						if res[id].err != nil {
							s.Violate("C01", fmt.Sprintf("KeyGen failed at party %d in a fault-free run: %v", id, res[id].err), desc)
							okRun = false
							continue
						}
						shares[id] = res[id].data
						pm, err := publicMaterial(scheme, res[id].data)
						if err != nil {
							s.Violate("C01", "stored data does not parse: "+err.Error(), desc)
							okRun = false
							continue
						}
						if pub == nil {
							pub = pm
						} else if !bytes.Equal(pub, pm) {
							s.Violate("C01", fmt.Sprintf("party %d reports public material different from party %d", id, ids[0]), desc)
							okRun = false
						}
					}
					if okRun && scheme == "bls" {
						digests := [][]byte{sha([]byte("m1")), r.Bytes(32)}
						checkBLSSubsets(s, c, shares, digests, desc)
						// orchestrated signing: t parties call Sign on a fresh topic
						for _, id := range ids {
							nodes[id].SetStoredData(shares[id])
						}
						signers := ids[:x.t]
						topic := fmt.Sprintf("topic-%d-%d", k, r.Intn(1<<30))
						sres := signAll(nodes, signers, digests[0], topic, 30*time.Second)
						var sigs [][]byte
						for _, id := range signers {
							if sres[id].err != nil {
								s.Violate("C01", fmt.Sprintf("orchestrated Sign failed at party %d: %v", id, sres[id].err), desc)
							}
							sigs = append(sigs, sres[id].data)
						}
						s.Count("sign/" + scheme + "/" + mode)
						s.N++
						t0 := &bls.TBLS{Party: ids[0], Logger: nopLogger{}}
						t0.Init(ids, x.t, func([]byte, bool, uint16) {})
						t0.SetShareData(shares[ids[0]])
						pp, _ := t0.ThresholdPK()
						var v bls.Verifier
						if v.Init(pp) == nil {
							agg, err := v.AggregateSignatures(sigs, signers)
							if err != nil || v.Verify(digests[0], agg) != nil {
								s.Violate("C01", "orchestrated signing session: aggregated signature does not verify", desc)
							}
						}
					}
					net.stop()
				}
			}
		}
	}
}
