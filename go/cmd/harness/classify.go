package main

import (
	"fmt"

	"github.com/IBM/TSS/mpc/bls"
	"github.com/IBM/TSS/mpc/ps"

	"verif/internal/out"
	"verif/internal/prng"
)

func init() { components["classify"] = runClassify }

func runClassify(r *prng.R, s *out.Sink, tier string) {
	b := &bls.TBLS{Logger: nopLogger{}}
	p := &ps.TPS{Logger: nopLogger{}}
	cls := func(f func([]byte) (uint8, bool, error), in []byte) string {
		return safely(func() string {
			rd, bc, err := f(in)
			if err != nil {
				return "error"
			}
			x := 0
			if bc {
				x = 1
			}
			return fmt.Sprintf("ok %d %d", rd, x)
		})
	}
	try := func(in []byte) {
		rb := cls(b.ClassifyMsg, in)
		rp := cls(p.ClassifyMsg, in)
		s.Op("bls/"+rb[:2], true, "cls bls "+out.Hex(in), rb)
		s.Op("ps/"+rp[:2], true, "cls ps "+out.Hex(in), rp)
		if rb == "panic" || rp == "panic" {
			s.Violate("C10", "ClassifyMsg panics", out.Hex(in))
		}
	}
	try(nil)
	for first := 0; first < 256; first++ {
		try([]byte{byte(first)})
		try(append([]byte{byte(first)}, r.Bytes(1+r.Intn(40))...))
	}
}
