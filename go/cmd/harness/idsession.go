package main

// Component "idsession" (C13): whole sessions — key generation and signing through real Schemes, synchroniser, reliable
// broadcast and the built-in BLS backend — whose participants have identifiers from the corners of the 16-bit range
// (0, one byte / two bytes, the sign bit, the maximum) must complete exactly as the control session with identifiers
// 1, 2, 3 does. Node and party identifiers coincide (the built-in backends are constructed by a factory that is handed the
// node identifier; maps other than the identity are C06's subject, with a scripted backend).

import (
	"context"
	"fmt"
	"time"

	"github.com/IBM/TSS/threshold"
	tss "github.com/IBM/TSS/types"

	"verif/internal/out"
	"verif/internal/prng"
)

func init() { components["idsession"] = runIDSession }

func runIDSession(r *prng.R, s *out.Sink, tier string) {
	sets := [][]uint16{{1, 2, 3}, {0, 1, 2}, {0, 255, 256}, {254, 255, 511}, {32767, 32768, 65535}, {0, 65535, 300}}
	if tier == "thorough" {
		for k := 0; k < 12; k++ {
			ids := pickIDs(r, 3)
			sets = append(sets, ids)
		}
	}
	threshold.SyncInterval = 3 * time.Millisecond
	for _, ids := range sets {
		idSessionRun(r, s, ids, false)
	}
}

func idSessionRun(r *prng.R, s *out.Sink, ids []uint16, rotated bool) {
	sorted := append([]uint16(nil), ids...)
	for i := range sorted {
		for j := i + 1; j < len(sorted); j++ {
			if sorted[j] < sorted[i] {
				sorted[i], sorted[j] = sorted[j], sorted[i]
			}
		}
	}
	membership := map[tss.UniversalID]tss.PartyID{}
	for i, id := range sorted {
		p := id
		if rotated {
			p = sorted[(i+1)%len(sorted)]
		}
		membership[tss.UniversalID(id)] = tss.PartyID(p)
	}
	desc := fmt.Sprintf("nodes %v rotated-parties=%v", sorted, rotated)
	net := newSimNet()
	defer net.stop()
	kgf, sf := factories("bls-hello", 0)
	nodes := map[uint16]tss.MpcParty{}
	for _, id := range sorted {
		nodes[id] = net.loudNode(id, 1, membership, kgf, sf) // threshold 1: two of the three sign
	}
	net.start(r.Fork())
	s.N++
	s.Count(fmt.Sprintf("idsession/rotated=%v", rotated))
	s.Distinct[desc] = struct{}{}
	res := keygenAll(nodes, sorted, 3, 2, 20*time.Second)
	for _, id := range sorted {
		if res[id].err != nil {
			s.Violate("C13", fmt.Sprintf("a fault-free key generation among nodes %v (parties rotated: %v) fails at node %d: %v — the same session with identifiers 1, 2, 3 completes", sorted, rotated, id, res[id].err), desc)
			return
		}
		nodes[id].SetStoredData(res[id].data)
	}
	type rr struct {
		id  uint16
		err error
	}
	// threshold + 1 = 2 of the three sign: exactly that many invoke the signing session (all pairs in turn)
	pairs := [][2]int{{0, 1}, {1, 2}, {0, 2}}
	pair := pairs[int(sorted[0]+sorted[2])%3]
	signers := []uint16{sorted[pair[0]], sorted[pair[1]]}
	ch := make(chan rr, len(signers))
	for _, id := range signers {
		id := id
		go func() {
			ctx, cancel := context.WithTimeout(context.Background(), 20*time.Second)
			defer cancel()
			_, err := nodes[id].Sign(ctx, sha([]byte("m")), "idsession-topic")
			ch <- rr{id, err}
		}()
	}
	// the two selected signers must succeed (the third is told so)
	okCount := 0
	var errs []string
	for range signers {
		x := <-ch
		if x.err == nil {
			okCount++
		} else {
			errs = append(errs, fmt.Sprintf("node %d: %v", x.id, x.err))
		}
	}
	if okCount < 2 {
		s.Violate("C13", fmt.Sprintf("a fault-free signing session among nodes %v (parties rotated: %v) does not complete at its two signers %v: %v — the same session with identifiers 1, 2, 3 does", sorted, rotated, signers, errs), desc)
	}
}
