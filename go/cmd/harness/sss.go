package main

import (
	"fmt"
	"math/big"
	"strings"

	"github.com/IBM/TSS/mpc/bls"
	"github.com/IBM/TSS/mpc/ps"
	math "github.com/IBM/mathlib"

	"verif/internal/out"
	"verif/internal/prng"
)

func init() { components["sss"] = runSss }

func zrDec(z *math.Zr) string { return new(big.Int).SetBytes(z.Bytes()).String() }

func ints(l []int64) string {
	if len(l) == 0 {
		return "-"
	}
	parts := make([]string, len(l))
	for i, x := range l {
		parts[i] = fmt.Sprint(x)
	}
	return strings.Join(parts, ",")
}

func subsetsOf(n int) [][]int64 {
	var res [][]int64
	for mask := 1; mask < 1<<uint(n); mask++ {
		var s []int64
		for i := 0; i < n; i++ {
			if mask&(1<<uint(i)) != 0 {
				s = append(s, int64(i+1))
			}
		}
		res = append(res, s)
	}
	return res
}

type sssImpl struct {
	name     string
	gen      func(t, n int, r *prng.R) ([]*math.Zr, []*math.Zr)
	lagrange func(i int64, pts ...int64) *math.Zr
	reconstr func(shares []*math.Zr, pts ...int64) *math.Zr
	choose   func(n, k int, f func([]int64))
	valueAt  func(poly []*math.Zr, x int) *math.Zr
}

func runSss(r *prng.R, s *out.Sink, tier string) {
	c := math.Curves[1]
	p := zrDec(c.GroupOrder)
	// Bytes() of the group order itself is not reduced; take it from the big.Int
	p = new(big.Int).SetBytes(c.GroupOrder.Bytes()).String()
	impls := []sssImpl{
		{"bls",
			func(t, n int, r *prng.R) ([]*math.Zr, []*math.Zr) {
				poly, sh := (&bls.SSS{Threshold: t}).Gen(n, r)
				return poly, sh
			},
			bls.VerifLagrangeCoefficient,
			func(sh []*math.Zr, pts ...int64) *math.Zr { return bls.VerifReconstruct(bls.Shares(sh), pts...) },
			bls.VerifChooseKoutOfN,
			func(poly []*math.Zr, x int) *math.Zr { return bls.Polynomial(poly).ValueAt(x) }},
		{"ps",
			func(t, n int, r *prng.R) ([]*math.Zr, []*math.Zr) {
				poly, sh := (&ps.SSS{Threshold: t}).Gen(n, r)
				return poly, sh
			},
			ps.VerifLagrangeCoefficient,
			func(sh []*math.Zr, pts ...int64) *math.Zr { return ps.VerifReconstruct(ps.Shares(sh), pts...) },
			ps.VerifChooseKoutOfN,
			func(poly []*math.Zr, x int) *math.Zr { return ps.Polynomial(poly).ValueAt(x) }},
	}
	maxN, polys, chooseN := 6, 4, 10
	if tier == "thorough" {
		maxN, polys, chooseN = 9, 12, 16
	}
	for _, im := range impls {
		// --- subset enumeration ---------------------------------------------------------------
		for n := 0; n <= chooseN; n++ {
			for k := 0; k <= n+1; k++ {
				var got []string
				res := safely(func() string {
					im.choose(n, k, func(x []int64) { got = append(got, ints(x)) })
					if len(got) == 0 {
						return "-"
					}
					return strings.Join(got, ";")
				})
				s.Op(im.name+"/choose", k >= 1 && k <= n, fmt.Sprintf("sss choose %d %d", n, k), res)
			}
		}
		// --- Lagrange coefficients, evaluation, reconstruction ---------------------------------
		for n := 2; n <= maxN; n++ {
			subs := subsetsOf(n)
			for _, S := range subs {
				for _, i := range S {
					res := safely(func() string { return zrDec(im.lagrange(i, S...)) })
					s.Op(im.name+"/lagrange", len(S) >= 2, fmt.Sprintf("sss lagrange %s %d %s", p, i, ints(S)), res)
				}
			}
			for t := 2; t <= n; t++ {
				for k := 0; k < polys; k++ {
					poly, shares := im.gen(t, n, r.Fork())
					coeffs := make([]string, len(poly))
					for i, z := range poly {
						coeffs[i] = zrDec(z)
					}
					shs := make([]string, len(shares))
					for i, z := range shares {
						shs[i] = zrDec(z)
						s.Op(im.name+"/valueat", true, fmt.Sprintf("sss valueat %s %s %d", p, strings.Join(coeffs, ","), i+1), zrDec(im.valueAt(poly, i+1)))
						if zrDec(im.valueAt(poly, i+1)) != shs[i] {
							s.Violate("C18", "Gen's share differs from ValueAt", fmt.Sprintf("%s n=%d t=%d", im.name, n, t))
						}
					}
					for _, S := range subs {
						if len(S) < 2 || (k > 0 && r.Intn(4) != 0) {
							continue
						}
						res := safely(func() string { return zrDec(im.reconstr(shares, S...)) })
						s.Op(im.name+"/reconstruct", true, fmt.Sprintf("sss reconstruct %s %s %s", p, strings.Join(shs, ","), ints(S)), res)
						if len(S) >= t && res != coeffs[0] {
							s.Violate("C18", fmt.Sprintf("%s: shares %v of a threshold-%d sharing reconstruct %s, dealt secret %s", im.name, S, t, res, coeffs[0]),
								fmt.Sprintf("sss reconstruct %s %s %s", p, strings.Join(shs, ","), ints(S)))
						}
						// the same set listed in another order (signers are listed in arrival order by a caller of the public
						// API): a set of evaluation points has no order
						if len(S) >= 2 && r.Intn(2) == 0 {
							P := shuffled(r, S)
							passed := append([]int64(nil), P...)
							res := safely(func() string { return zrDec(im.reconstr(shares, passed...)) })
							s.Op(im.name+"/reconstruct-shuffled", !sorted(P), fmt.Sprintf("sss reconstruct %s %s %s", p, strings.Join(shs, ","), ints(P)), res)
							if len(P) >= t && res != coeffs[0] {
								s.Violate("C18", fmt.Sprintf("%s: shares at points %v (in this order) of a threshold-%d sharing reconstruct %s, dealt secret %s", im.name, P, t, res, coeffs[0]),
									fmt.Sprintf("sss reconstruct %s %s %s", p, strings.Join(shs, ","), ints(P)))
							}
						}
					}
				}
			}
		}
	}
	// --- large thresholds and evaluation points: evaluation must stay in the field (no native-integer arithmetic) ---
	for _, im := range impls {
		for _, t := range []int{2, 3, 5, 9, 10, 12, 13, 16, 17, 20, 33, 64} {
			poly, _ := im.gen(t, 1, r.Fork())
			coeffs := make([]string, len(poly))
			for i, z := range poly {
				coeffs[i] = zrDec(z)
			}
			for _, x := range []int{1, 2, 3, 7, 15, 16, 17, 19, 23, 31, 40, 64, 128, 255, 256, 1000, 65535} {
				s.Op(im.name+"/valueat-large", true, fmt.Sprintf("sss valueat %s %s %d", p, strings.Join(coeffs, ","), x), zrDec(im.valueAt(poly, x)))
			}
		}
		// dealing and reconstructing with many parties: the top t points and a spread subset
		for _, nt := range [][2]int{{17, 17}, {20, 16}, {24, 15}, {40, 13}} {
			n, t := nt[0], nt[1]
			poly, shares := im.gen(t, n, r.Fork())
			secret := zrDec(poly[0])
			shs := make([]string, len(shares))
			for i, z := range shares {
				shs[i] = zrDec(z)
			}
			var top, spread []int64
			for i := n - t + 1; i <= n; i++ {
				top = append(top, int64(i))
			}
			for i := 1; len(spread) < t; i += 1 + (n-t)/t {
				if i > n {
					break
				}
				spread = append(spread, int64(i))
			}
			for _, S := range [][]int64{top, spread} {
				if len(S) < t {
					continue
				}
				res := safely(func() string { return zrDec(im.reconstr(shares, S...)) })
				s.Op(im.name+"/reconstruct-large", true, fmt.Sprintf("sss reconstruct %s %s %s", p, strings.Join(shs, ","), ints(S)), res)
				if res != secret {
					s.Violate("C18", fmt.Sprintf("%s: n=%d t=%d: shares at points %v reconstruct %s, dealt secret %s", im.name, n, t, S, res, secret), fmt.Sprintf("n=%d t=%d S=%v", n, t, S))
				}
			}
		}
	}
	// --- group level, public API flavour: keys of the shares aggregate to the key of the secret;
	// the t-subset cross-check catches one off-polynomial key whichever party it belongs to ----
	gN := 5
	if tier == "thorough" {
		gN = 7
	}
	for n := 2; n <= gN; n++ {
		for t := 2; t <= n; t++ {
			poly, shares := (&bls.SSS{Threshold: t}).Gen(n, r.Fork())
			pks := bls.VerifLocalCreatePublicKeys(bls.Shares(shares))
			want := c.GenG2.Mul(poly[0])
			distinctKeys := func(keys []*math.G2) int {
				seen := map[string]bool{}
				bls.VerifChooseKoutOfN(n, t, func(pts []int64) {
					seen[string(bls.VerifLocalAggregatePublicKeys(keys, pts...).Bytes())] = true
				})
				return len(seen)
			}
			for _, S := range subsetsOf(n) {
				if len(S) < t || len(S) < 2 {
					continue
				}
				s.Count("group/aggregate")
				s.N++
				got := bls.VerifLocalAggregatePublicKeys(pks, S...)
				if !got.Equals(want) {
					s.Violate("C18", fmt.Sprintf("public keys of shares %v (n=%d,t=%d) do not aggregate to the key of the secret", S, n, t), ints(S))
				}
				// the same set in another order, and the signatures of its members aggregated in that order
				P := shuffled(r, S)
				s.Count("group/aggregate-shuffled")
				s.N++
				if !sorted(P) {
					s.Distinct[fmt.Sprintf("shuffled n=%d t=%d %v", n, t, P)] = struct{}{}
				}
				if got := bls.VerifLocalAggregatePublicKeys(pks, append([]int64(nil), P...)...); !got.Equals(want) {
					s.Violate("C18", fmt.Sprintf("public keys of shares %v (in this order; n=%d,t=%d) do not aggregate to the key of the secret", P, n, t), ints(P))
				}
			}
			if d := distinctKeys(pks); d != 1 {
				s.Violate("C18", fmt.Sprintf("keys on one polynomial (n=%d,t=%d) rejected by the cross-check: %d distinct aggregates", n, t, d), "")
			}
			s.Count("group/crosscheck-accept")
			s.N++
			if t < n {
				for j := 0; j < n; j++ {
					bad := make([]*math.G2, n)
					copy(bad, pks)
					bad[j] = c.GenG2.Mul(shares[j].Plus(c.NewZrFromInt(int64(1 + r.Intn(1000)))))
					s.Count("group/crosscheck-offpoly")
					s.N++
					s.Distinct[fmt.Sprintf("offpoly n=%d t=%d j=%d", n, t, j)] = struct{}{}
					if d := distinctKeys(bad); d < 2 {
						s.Violate("C18", fmt.Sprintf("off-polynomial key of party %d not detected by the t-subset cross-check (n=%d,t=%d)", j+1, n, t), "")
					}
				}
			}
		}
	}
}

func shuffled(r *prng.R, S []int64) []int64 {
	P := append([]int64(nil), S...)
	for i := len(P) - 1; i > 0; i-- {
		j := r.Intn(i + 1)
		P[i], P[j] = P[j], P[i]
	}
	return P
}

func sorted(S []int64) bool {
	for i := 1; i < len(S); i++ {
		if S[i-1] > S[i] {
			return false
		}
	}
	return true
}
