package main

import (
	"context"
	"crypto/sha256"
	"fmt"
	"strings"
	"sync"
	"time"

	"github.com/IBM/TSS/threshold"
	tss "github.com/IBM/TSS/types"
)

// ---- scripted MPC backend ------------------------------------------------------------------------

// scriptedClassify is the classifier of the scripted backend: payload = round byte, class byte
// (0 point-to-point, 1 broadcast), body. Mirrored by `scriptedClassify` in the Lean driver.
func scriptedClassify(b []byte) (uint8, bool, error) {
	if len(b) < 2 || b[0] >= 128 {
		return 0, false, fmt.Errorf("malformed")
	}
	switch b[1] {
	case 0:
		return b[0], false, nil
	case 1:
		return b[0], true, nil
	}
	return 0, false, fmt.Errorf("bad class")
}

// permissiveClassify accepts every payload, the empty one included.
func permissiveClassify(b []byte) (uint8, bool, error) {
	switch len(b) {
	case 0:
		return 0, true, nil
	case 1:
		return b[0] % 128, true, nil
	}
	return b[0] % 128, b[1]%2 == 1, nil
}

type backendEvent struct {
	kind    string // init | onmsg
	payload []byte
	from    uint16
	bcast   bool
	parties []uint16
	t       int
}

type scriptedBackend struct {
	mu          sync.Mutex
	id          uint16
	permissive  bool
	events      []backendEvent
	send        func(msg []byte, isBroadcast bool, to uint16)
	started     chan struct{}
	release     chan error
	result      []byte
	shareData   []byte
	setShareErr error
	onEvent     func(backendEvent)
}

func newScriptedBackend(id uint16) *scriptedBackend {
	return &scriptedBackend{id: id, started: make(chan struct{}), release: make(chan error, 1), result: []byte("share")}
}

func (b *scriptedBackend) ClassifyMsg(m []byte) (uint8, bool, error) {
	if b.permissive {
		return permissiveClassify(m)
	}
	return scriptedClassify(m)
}

func (b *scriptedBackend) record(e backendEvent) {
	b.mu.Lock()
	b.events = append(b.events, e)
	cb := b.onEvent
	b.mu.Unlock()
	if cb != nil {
		cb(e)
	}
}

func (b *scriptedBackend) Init(parties []uint16, threshold int, sendMsg func(msg []byte, isBroadcast bool, to uint16)) {
	b.send = sendMsg
	b.record(backendEvent{kind: "init", parties: append([]uint16(nil), parties...), t: threshold})
}

func (b *scriptedBackend) OnMsg(msgBytes []byte, from uint16, broadcast bool) {
	b.record(backendEvent{kind: "onmsg", payload: append([]byte(nil), msgBytes...), from: from, bcast: broadcast})
}

func (b *scriptedBackend) wait(ctx context.Context) ([]byte, error) {
	close(b.started)
	select {
	case err := <-b.release:
		if err != nil {
			return nil, err
		}
		return b.result, nil
	case <-ctx.Done():
		return nil, ctx.Err()
	}
}

func (b *scriptedBackend) KeyGen(ctx context.Context) ([]byte, error)           { return b.wait(ctx) }
func (b *scriptedBackend) Sign(ctx context.Context, msg []byte) ([]byte, error) { return b.wait(ctx) }
func (b *scriptedBackend) SetShareData(d []byte) error {
	b.shareData = d
	return b.setShareErr
}
func (b *scriptedBackend) ThresholdPK() ([]byte, error) { return []byte("tpk"), nil }

func (b *scriptedBackend) takeEvents() []backendEvent {
	b.mu.Lock()
	defer b.mu.Unlock()
	ev := b.events
	b.events = nil
	return ev
}

// ---- scripted synchroniser: returns the agreed list at once --------------------------------------

type scriptedSync struct {
	members func(topic []byte, expected int) []uint16
}

func (s *scriptedSync) Synchronize(ctx context.Context, f func([]uint16), topic []byte, expected int, _ time.Duration) error {
	m := s.members(topic, expected)
	if m == nil {
		<-ctx.Done()
		return fmt.Errorf("scripted synchroniser: no agreement")
	}
	f(m)
	return nil
}

func (s *scriptedSync) HandleMessage(from uint16, msg []byte) {}

func fixedSyncFactory(agreed []uint16) tss.SynchronizerFactory {
	return func(members []uint16, broadcast func(msg []byte), send func(msg []byte, to uint16)) tss.Synchronizer {
		return &scriptedSync{members: func([]byte, int) []uint16 { return append([]uint16(nil), agreed...) }}
	}
}

// ---- a real Scheme with recorded Send ------------------------------------------------------------

type sentMsg struct {
	msgType uint8
	topic   []byte
	data    []byte
	to      []uint16
}

type schemeRig struct {
	scheme        *threshold.Scheme
	mu            sync.Mutex
	sent          []sentMsg
	onSend        func(sentMsg)
	kg            *scriptedBackend // most recent key generation backend
	signer        *scriptedBackend // most recent signing backend
	signers       []*scriptedBackend
	failShareData bool // SetShareData of the signers created from now on fails
}

func (rg *schemeRig) takeSent() []sentMsg {
	rg.mu.Lock()
	defer rg.mu.Unlock()
	s := rg.sent
	rg.sent = nil
	return s
}

func sha(b []byte) []byte {
	h := sha256.Sum256(b)
	return h[:]
}

// newSchemeRig builds a real loud-mode Scheme (real dispatcher, filter, thread-safety wrappers and
// rbc.Receiver) for node `self` with the given membership map, a scripted backend and the given
// synchroniser factory (nil: the real disc.Member is kept).
// rigLogger is the logger handed to the Schemes of the rigs (the library logs inside its critical sections; an
// application's logger may be slow)
var rigLogger tss.Logger = nopLogger{}

// slowRegisterLogger dawdles at the "Registering …" line of the reliable broadcast, which sits between the look-up of a
// sender's pinned digest and its assignment
type slowRegisterLogger struct{ nopLogger }

func (slowRegisterLogger) Debugf(format string, a ...interface{}) {
	if strings.HasPrefix(format, "Registering") {
		time.Sleep(40 * time.Microsecond)
	}
}

func newSchemeRig(self uint16, threshold_ int, membership map[tss.UniversalID]tss.PartyID, syncFactory tss.SynchronizerFactory, permissive bool) *schemeRig {
	rg := &schemeRig{}
	send := func(msgType uint8, topic []byte, msg []byte, to ...uint16) {
		sm := sentMsg{msgType, append([]byte(nil), topic...), append([]byte(nil), msg...), append([]uint16(nil), to...)}
		rg.mu.Lock()
		rg.sent = append(rg.sent, sm)
		cb := rg.onSend
		rg.mu.Unlock()
		if cb != nil {
			cb(sm)
		}
	}
	kgf := func(id uint16) tss.KeyGenerator {
		b := newScriptedBackend(id)
		b.permissive = permissive
		rg.mu.Lock()
		rg.kg = b
		rg.mu.Unlock()
		return b
	}
	sf := func(id uint16) tss.Signer {
		b := newScriptedBackend(id)
		b.permissive = permissive
		rg.mu.Lock()
		if rg.failShareData {
			b.setShareErr = fmt.Errorf("scripted: share data unusable")
		}
		rg.signer = b
		rg.signers = append(rg.signers, b)
		rg.mu.Unlock()
		return b
	}
	party := threshold.LoudScheme(self, rigLogger, kgf, sf, threshold_, send, func() map[tss.UniversalID]tss.PartyID { return membership })
	rg.scheme = party.(*threshold.Scheme)
	if syncFactory != nil {
		rg.scheme.SyncFactory = syncFactory
	}
	return rg
}
