package main

import (
	"context"
	stdecdsa "crypto/ecdsa"
	"crypto/ed25519"
	"crypto/x509"
	"fmt"
	"math/big"
	"sync"
	"time"

	ecdsa "github.com/IBM/TSS/mpc/binance/ecdsa"
	eddsa "github.com/IBM/TSS/mpc/binance/eddsa"
	tss "github.com/IBM/TSS/types"
	"github.com/golang/protobuf/proto"
	"github.com/golang/protobuf/ptypes/any"

	"verif/internal/out"
	"verif/internal/prng"
)

func init() { components["adapter"] = runAdapter }

type adapterParty interface {
	tss.KeyGenerator
	tss.Signer
}

type captured struct {
	data  []byte
	bcast bool
	from  uint16
}

// adapterRun wires n adapter parties directly (as the adapters' own tests do), captures every message
// with the routing flag the library gave it, runs key generation and one signing.
func adapterRun(kind string, n, t int, digest []byte, timeout time.Duration) ([]captured, [][]byte, error) {
	caps, sigs, _, err := adapterRunPK(kind, n, t, [][]byte{digest}, timeout)
	if err != nil {
		return caps, nil, err
	}
	return caps, sigs[0], nil
}

// adapterRunPK: key generation, then one signing session per digest; returns the threshold public key too.
func adapterRunPK(kind string, n, t int, digests [][]byte, timeout time.Duration) ([]captured, [][][]byte, []byte, error) {
	mk := func(id uint16) adapterParty {
		if kind == "ecdsa" {
			return ecdsa.NewParty(id, nopLogger{})
		}
		return eddsa.NewParty(id, nopLogger{})
	}
	ids := make([]uint16, n)
	for i := range ids {
		ids[i] = uint16(i + 1)
	}
	var mu sync.Mutex
	var caps []captured
	build := func() []adapterParty {
		ps := make([]adapterParty, n)
		for i := range ps {
			ps[i] = mk(ids[i])
		}
		for i := range ps {
			src := ids[i]
			ps[i].Init(ids, t, func(msg []byte, bc bool, to uint16) {
				mu.Lock()
				caps = append(caps, captured{append([]byte(nil), msg...), bc, src})
				mu.Unlock()
				for j := range ps {
					if ids[j] == src {
						continue
					}
					if bc || ids[j] == to {
						ps[j].OnMsg(msg, src, bc)
					}
				}
			})
		}
		return ps
	}
	ctx, cancel := context.WithTimeout(context.Background(), timeout)
	defer cancel()
	ps := build()
	shares := make([][]byte, n)
	errs := make([]error, n)
	var wg sync.WaitGroup
	for i := range ps {
		wg.Add(1)
		go func(i int) { defer wg.Done(); shares[i], errs[i] = ps[i].KeyGen(ctx) }(i)
	}
	wg.Wait()
	for _, e := range errs {
		if e != nil {
			return caps, nil, nil, fmt.Errorf("keygen: %v", e)
		}
	}
	var all [][][]byte
	var pk []byte
	for _, digest := range digests {
		ps = build()
		for i := range ps {
			if err := ps[i].SetShareData(shares[i]); err != nil {
				return caps, nil, nil, err
			}
		}
		if pk == nil {
			pk, _ = ps[0].ThresholdPK()
		}
		sigs := make([][]byte, n)
		for i := range ps {
			wg.Add(1)
			go func(i int) { defer wg.Done(); sigs[i], errs[i] = ps[i].Sign(ctx, digest) }(i)
		}
		wg.Wait()
		for _, e := range errs {
			if e != nil {
				return caps, nil, nil, fmt.Errorf("sign: %v", e)
			}
		}
		all = append(all, sigs)
	}
	return caps, all, pk, nil
}

func runAdapter(r *prng.R, s *out.Sink, tier string) {
	type cfg struct {
		kind string
		n, t int
	}
	cfgs := []cfg{{"eddsa", 2, 1}, {"eddsa", 3, 1}, {"eddsa", 3, 2}}
	if tier == "thorough" {
		cfgs = append(cfgs, cfg{"eddsa", 4, 2}, cfg{"ecdsa", 2, 1}, cfg{"ecdsa", 3, 1})
	}
	for _, c := range cfgs {
		digest := sha(r.Bytes(20))
		caps, sigs, err := adapterRun(c.kind, c.n, c.t, digest, 10*time.Minute)
		if err != nil {
			s.Violate("C19", fmt.Sprintf("%s (n=%d,t=%d) run failed: %v", c.kind, c.n, c.t, err), "")
			continue
		}
		for i := 1; i < len(sigs); i++ {
			if string(sigs[i]) != string(sigs[0]) {
				s.Violate("C19", fmt.Sprintf("%s (n=%d,t=%d): parties returned different signatures", c.kind, c.n, c.t), "")
			}
		}
		var classifier adapterParty
		if c.kind == "ecdsa" {
			classifier = ecdsa.NewParty(9, nopLogger{})
		} else {
			classifier = eddsa.NewParty(9, nopLogger{})
		}
		seenURL := map[string]bool{}
		for _, m := range caps {
			a := &any.Any{}
			if err := proto.Unmarshal(m.data, a); err != nil {
				s.Violate("C19", "captured message does not parse as protobuf Any", "")
				continue
			}
			rd, bc, err := classifier.ClassifyMsg(m.data)
			res := "error"
			if err == nil {
				x := 0
				if bc {
					x = 1
				}
				res = fmt.Sprintf("%d %d", rd, x)
			}
			if !seenURL[a.TypeUrl] {
				seenURL[a.TypeUrl] = true
				s.Op(c.kind+"/classify", true, fmt.Sprintf("adp %s classify %s", c.kind, a.TypeUrl), res)
			} else {
				s.Count(c.kind + "/classify-repeat")
				s.N++
			}
			if err != nil || bc != m.bcast {
				s.Violate("C19", fmt.Sprintf("%s: message %s routed by the library with IsBroadcast=%v is classified broadcast=%v by the receiver", c.kind, a.TypeUrl, m.bcast, bc), a.TypeUrl)
			}
		}
		// the classification depends on the message alone — also when the orchestrator's dispatcher goroutines classify
		// several messages at once on the same instance (threshold.Scheme.handleMPC holds no lock around the classifier)
		{
			type sample struct {
				data []byte
				url  string
				rd   uint8
				bc   bool
			}
			var samples []sample
			seen := map[string]bool{}
			for _, m := range caps {
				a := &any.Any{}
				if proto.Unmarshal(m.data, a) != nil || seen[a.TypeUrl] {
					continue
				}
				if rd, bc, err := classifier.ClassifyMsg(m.data); err == nil {
					seen[a.TypeUrl] = true
					samples = append(samples, sample{m.data, a.TypeUrl, rd, bc})
				}
			}
			if len(samples) >= 2 {
				var wg sync.WaitGroup
				var mu sync.Mutex
				bad := map[string]string{}
				for g := 0; g < 8; g++ {
					g := g
					wg.Add(1)
					go func() {
						defer wg.Done()
						defer func() { recover() }()
						for k := 0; k < 3000; k++ {
							x := samples[(g+k)%len(samples)]
							rd, bc, err := classifier.ClassifyMsg(x.data)
							if err != nil || rd != x.rd || bc != x.bc {
								mu.Lock()
								bad[x.url] = fmt.Sprintf("(round %d, broadcast %v, err %v) where the same message alone is classified (round %d, broadcast %v)", rd, bc, err, x.rd, x.bc)
								mu.Unlock()
							}
						}
					}()
				}
				wg.Wait()
				s.Count(c.kind + "/classify-concurrent")
				s.N++
				for url, what := range bad {
					s.Violate("C19", fmt.Sprintf("%s: classified concurrently with messages of other types on the same instance, %s came out as %s", c.kind, url, what), url)
				}
			}
		}
		s.Extra[fmt.Sprintf("%s-%d-%d messages", c.kind, c.n, c.t)] = len(caps)
		s.Extra[fmt.Sprintf("%s-%d-%d types", c.kind, c.n, c.t)] = len(seenURL)
	}
	// a signature is returned only for the digest that was asked for: digests of several lengths, verified with the
	// standard library against the threshold public key (and not valid for a mere prefix of the digest)
	{
		var digests [][]byte
		for _, l := range []int{20, 32, 33, 48, 64} {
			d := r.Bytes(l)
			d[0] |= 1 // no leading zero byte (the adapter passes the digest through a big integer)
			digests = append(digests, d)
		}
		_, sigs, pk, err := adapterRunPK("eddsa", 3, 1, digests, 5*time.Minute)
		if err != nil {
			s.Violate("C19", "eddsa signing of digests of several lengths failed: "+err.Error(), "")
		} else {
			for i, d := range digests {
				s.Count("eddsa/sign-verify")
				s.N++
				s.Distinct[fmt.Sprintf("eddsa digest length %d", len(d))] = struct{}{}
				sig := sigs[i][0]
				if !ed25519.Verify(ed25519.PublicKey(pk), d, sig) {
					s.Violate("C19", fmt.Sprintf("eddsa: the signature returned for a %d-byte digest does not verify for that digest", len(d)), out.Hex(d))
				}
			}
		}
	}
	// the same for the ECDSA adapter (thorough: its key generation takes a while): signatures for digests shorter than,
	// as long as and longer than the group order, verified with crypto/ecdsa for exactly the digest asked for
	if tier == "thorough" {
		var digests [][]byte
		for _, l := range []int{20, 28, 32, 48} {
			d := r.Bytes(l)
			d[0] |= 1
			digests = append(digests, d)
		}
		_, sigs, pkDER, err := adapterRunPK("ecdsa", 2, 1, digests, 10*time.Minute)
		if err != nil {
			s.Violate("C19", "ecdsa signing of digests of several lengths failed: "+err.Error(), "")
		} else if pub, perr := x509.ParsePKIXPublicKey(pkDER); perr != nil {
			s.Violate("C19", "ecdsa threshold public key does not parse: "+perr.Error(), "")
		} else {
			for i, d := range digests {
				s.Count("ecdsa/sign-verify")
				s.N++
				s.Distinct[fmt.Sprintf("ecdsa digest length %d", len(d))] = struct{}{}
				if !stdecdsa.VerifyASN1(pub.(*stdecdsa.PublicKey), d, sigs[i][0]) {
					s.Violate("C19", fmt.Sprintf("ecdsa: the signature returned for the %d-byte digest %s does not verify for that digest", len(d), out.Hex(d)), out.Hex(d))
				}
			}
		}
	}
	// the same adapter objects used for a second session with another party list (the orchestrator's factories may hand out
	// one object per node): key generation among {1,2,3}, then — parties 2 and 3 re-initialised — among {2,3}, where both
	// have another position. Every message is still bound to its transport-authenticated sender's place in *this* session.
	{
		objs := map[uint16]adapterParty{}
		for _, id := range []uint16{1, 2, 3} {
			objs[id] = eddsa.NewParty(id, nopLogger{})
		}
		session := func(group []uint16) error {
			for _, id := range group {
				src := id
				objs[id].Init(group, 1, func(msg []byte, bc bool, to uint16) {
					for _, q := range group {
						if q != src && (bc || q == to) {
							objs[q].OnMsg(msg, src, bc)
						}
					}
				})
			}
			ctx, cancel := context.WithTimeout(context.Background(), 20*time.Second)
			defer cancel()
			errs := make(chan error, len(group))
			for _, id := range group {
				id := id
				go func() { _, err := objs[id].KeyGen(ctx); errs <- err }()
			}
			var first error
			for range group {
				if err := <-errs; err != nil && first == nil {
					first = err
				}
			}
			return first
		}
		s.Count("eddsa/re-init-other-list")
		s.N++
		if err := session([]uint16{1, 2, 3}); err != nil {
			s.Violate("C19", "eddsa: key generation among {1,2,3} on fresh adapter objects failed: "+err.Error(), "")
		} else if err := session([]uint16{2, 3}); err != nil {
			s.Violate("C19", "eddsa: the adapter objects of parties 2 and 3, used for a session among {1,2,3} before, do not complete a key generation among {2,3}: "+err.Error()+" (messages are filed under the senders' positions of the earlier session?)", "Init([1 2 3]) + KeyGen, then Init([2 3]) + KeyGen on the same objects")
		}
	}
	// garbage into ClassifyMsg / OnMsg of an initialised party
	p := eddsa.NewParty(1, nopLogger{})
	p.Init([]uint16{1, 2, 3}, 1, func([]byte, bool, uint16) {})
	for i := 0; i < 300; i++ {
		b := r.Bytes(r.Intn(60))
		guarded(s, "eddsa/ClassifyMsg+OnMsg/garbage", out.Hex(b), func() {
			p.ClassifyMsg(b)
			p.OnMsg(b, uint16(r.Intn(5)), r.Bool())
		})
	}
	// hashToInt for every digest length 0..64
	for l := 0; l <= 64; l++ {
		for k := 0; k < 3; k++ {
			h := r.Bytes(l)
			if k == 1 {
				for i := range h {
					h[i] = 0xff
				}
			}
			got := ecdsa.VerifHashToInt(h)
			s.Op("hashtoint", true, "adp hashtoint "+out.Hex(h), got.String())
			// the integer a standard ECDSA verifier derives from this digest (FIPS 186-4 / crypto/ecdsa): the leftmost
			// 256 bits of the digest, the digest itself when it is shorter. Sign runs the protocol on the adapter's
			// integer, so a difference means the returned signature is one for another digest than the caller's.
			if want := refHashToInt(h); got.Cmp(want) != 0 {
				s.Violate("C19", fmt.Sprintf("ecdsa: for the %d-byte digest %s Sign runs on the integer %s, a standard verifier of that digest uses %s: the signature returned is not one for the digest asked for", l, out.Hex(h), got, want), out.Hex(h))
			}
		}
	}
}

// refHashToInt is the digest-to-integer conversion of ECDSA over P-256 as the standard states it (leftmost min(256,
// 8*len) bits), written without reference to the adapter's code.
func refHashToInt(h []byte) *big.Int {
	if len(h) > 32 {
		h = h[:32]
	}
	return new(big.Int).SetBytes(h)
}
