package main

import (
	"context"
	"encoding/asn1"
	"fmt"
	"runtime"
	"strings"
	"sync"
	"time"

	"github.com/IBM/TSS/mpc/bls"
	"github.com/IBM/TSS/mpc/ps"
	"github.com/IBM/TSS/threshold"
	tss "github.com/IBM/TSS/types"

	"verif/internal/out"
	"verif/internal/prng"
)

func init() { components["faults"] = runFaults }

const faultMargin = 3 * time.Second

// backendFaultRun: n built-in backends wired directly; everything party `silent` sends after its k-th
// message is dropped (k = -1: nobody is silenced), or the single message number `withhold` (global send
// order) is dropped. The others run KeyGen with the given deadline or are cancelled explicitly after it.
func backendFaultRun(r *prng.R, kind string, n, t int, silent uint16, k int, withhold int, deadline time.Duration, explicitCancel bool) (map[uint16]error, map[uint16]time.Duration, int) {
	parties := make([]uint16, n)
	for i := range parties {
		parties[i] = uint16(i + 1)
	}
	d := newDkgRun(kind, parties, t, 1)
	perSource := map[uint16]int{}
	total := 0
	d.tamper = func(m wireMsg) []wireMsg {
		perSource[m.from]++
		total++
		if m.from == silent && k >= 0 && perSource[m.from] > k {
			return nil
		}
		if total == withhold {
			return nil
		}
		return []wireMsg{m}
	}
	errs := map[uint16]error{}
	took := map[uint16]time.Duration{}
	var mu sync.Mutex
	var wg sync.WaitGroup
	// the scheduler of dkgRun delivers; KeyGen calls are started here so that each gets its own context
	active := parties
	ctxs := map[uint16]context.Context{}
	var cancels []context.CancelFunc
	for _, id := range active {
		var ctx context.Context
		var cancel context.CancelFunc
		if explicitCancel {
			ctx, cancel = context.WithCancel(context.Background())
			c := cancel
			time.AfterFunc(deadline, c)
		} else {
			ctx, cancel = context.WithTimeout(context.Background(), deadline)
		}
		ctxs[id] = ctx
		cancels = append(cancels, cancel)
	}
	stop := make(chan struct{})
	go func() { // delivery loop
		for {
			select {
			case <-stop:
				return
			default:
			}
			d.mu.Lock()
			var links [][2]uint16
			for key, q := range d.queues {
				if len(q) > 0 {
					links = append(links, key)
				}
			}
			if len(links) == 0 {
				d.mu.Unlock()
				time.Sleep(200 * time.Microsecond)
				continue
			}
			sortLinks(links)
			key := links[r.Intn(len(links))]
			m := d.queues[key][0]
			d.queues[key] = d.queues[key][1:]
			d.mu.Unlock()
			d.backs[m.to].OnMsg(m.data, m.from, m.bcast)
		}
	}()
	for _, id := range active {
		wg.Add(1)
		go func(id uint16) {
			defer wg.Done()
			t0 := time.Now()
			_, err := d.backs[id].KeyGen(ctxs[id])
			mu.Lock()
			errs[id] = err
			took[id] = time.Since(t0)
			mu.Unlock()
		}(id)
	}
	finished := make(chan struct{})
	go func() { wg.Wait(); close(finished) }()
	select {
	case <-finished:
	case <-time.After(deadline + faultMargin):
		mu.Lock()
		for _, id := range active {
			if _, ok := took[id]; !ok {
				errs[id] = fmt.Errorf("DID-NOT-RETURN")
				took[id] = deadline + faultMargin
			}
		}
		mu.Unlock()
	}
	close(stop)
	for _, c := range cancels {
		c()
	}
	return errs, took, total
}

func runFaults(r *prng.R, s *out.Sink, tier string) {
	faultsBackPressure(s)
	threshold.SyncInterval = 4 * time.Millisecond
	base := runtime.NumGoroutine()
	kinds := []string{"bls"}
	if tier == "thorough" {
		kinds = []string{"bls", "ps"}
	}
	deadline := 120 * time.Millisecond
	// --- A: built-in backends, every (peer, k) and every single withheld message --------------------------------
	for _, kind := range kinds {
		n, t := 3, 2
		_, _, total := backendFaultRun(r.Fork(), kind, n, t, 0, -1, 0, 5*time.Second, false)
		perParty := total / n
		type job struct {
			silent   uint16
			k        int
			withhold int
			cancel   bool
		}
		var jobs []job
		for p := 1; p <= n; p++ {
			for k := 0; k <= perParty; k++ {
				jobs = append(jobs, job{uint16(p), k, 0, k%2 == 1})
			}
		}
		for w := 1; w <= total; w++ {
			jobs = append(jobs, job{0, -1, w, w%2 == 0})
		}
		var wg sync.WaitGroup
		sem := make(chan struct{}, 8)
		var mu sync.Mutex
		for _, j := range jobs {
			wg.Add(1)
			sem <- struct{}{}
			go func(j job, rr *prng.R) {
				defer wg.Done()
				defer func() { <-sem }()
				errs, took, _ := backendFaultRun(rr, kind, n, t, j.silent, j.k, j.withhold, deadline, j.cancel)
				mu.Lock()
				defer mu.Unlock()
				desc := fmt.Sprintf("%s backend n=%d t=%d: party %d silent after its message #%d, withheld message #%d, explicit cancel=%v", kind, n, t, j.silent, j.k, j.withhold, j.cancel)
				s.Count(kind + "/backend-fault-point")
				s.N++
				s.Distinct[desc] = struct{}{}
				if len(s.Samples) < 5 {
					s.Samples = append(s.Samples, desc)
				}
				for id, e := range errs {
					if e != nil && e.Error() == "DID-NOT-RETURN" {
						s.Violate("C11", fmt.Sprintf("KeyGen of party %d did not return within %v after its context ended", id, faultMargin), desc)
					}
					if took[id] > deadline+faultMargin {
						s.Violate("C11", fmt.Sprintf("KeyGen of party %d returned only after %v", id, took[id]), desc)
					}
				}
			}(j, r.Fork())
		}
		wg.Wait()
	}
	// --- B: full stack, loud mode: peer P goes silent after its k-th outgoing message ------------------------------
	stackKinds := []string{"bls"}
	if tier == "thorough" {
		stackKinds = []string{"bls", "ps"}
	}
	for _, scheme := range stackKinds {
		for _, mode := range []string{"loud", "silent"} {
			if mode == "silent" && tier != "thorough" {
				continue
			}
			ids := []uint16{1, 2, 3}
			c := stackCfg{scheme: scheme, mode: mode, n: 3, t: 2, ids: ids, msgLen: 1}
			// how many messages does a party send in a complete run?
			net0, nodes0 := buildStack(r, c)
			keygenAll(nodes0, ids, 3, 2, 20*time.Second)
			net0.mu.Lock()
			maxK := net0.sentCount[2]
			net0.mu.Unlock()
			net0.stop()
			step := 1
			if maxK > 24 {
				step = maxK / 24
			}
			var wg sync.WaitGroup
			sem := make(chan struct{}, 6)
			var mu sync.Mutex
			for k := 0; k <= maxK; k += step {
				wg.Add(1)
				sem <- struct{}{}
				go func(k int, rr *prng.R) {
					defer wg.Done()
					defer func() { <-sem }()
					net, nodes := buildStack(rr, c)
					net.mu.Lock()
					net.drop = func(from, to uint16, m *tss.IncMessage, nth int) bool { return from == 2 && nth > k }
					net.mu.Unlock()
					dl := 350 * time.Millisecond
					res := keygenAll(nodes, ids, 3, 2, dl)
					net.stop()
					mu.Lock()
					defer mu.Unlock()
					desc := fmt.Sprintf("%s %s full stack n=3 t=2: node 2 silent after its message #%d of %d", scheme, mode, k, maxK)
					s.Count(scheme + "/" + mode + "/stack-fault-point")
					s.N++
					s.Distinct[desc] = struct{}{}
					for id, cr := range res {
						if cr.took > dl+faultMargin {
							s.Violate("C11", fmt.Sprintf("KeyGen at node %d returned only after %v (deadline %v)", id, cr.took, dl), desc)
						}
						if cr.err == nil && k < maxK/2 {
							// completing although a peer vanished early would mean the result does not depend on that peer
							_ = cr
						}
					}
				}(k, r.Fork())
			}
			wg.Wait()
		}
	}
	// --- C: unusable stored share data: Sign must return an error at once, not wait for the deadline -------------
	for _, scheme := range []string{"bls", "ps"} {
		good := map[string][]byte{}
		{
			d := newDkgRun(scheme, []uint16{1, 2, 3}, 2, 1)
			d.run(r.Fork(), []uint16{1, 2, 3}, 30*time.Second)
			good[scheme] = d.results[1]
		}
		var bads [][]byte
		bads = append(bads, nil, []byte{}, []byte("garbage"), r.Bytes(40), good[scheme][:len(good[scheme])/2])
		if scheme == "ps" {
			var sd ps.StoredData
			asn1.Unmarshal(good[scheme], &sd)
			sd.PublicKeys = sd.PublicKeys[:1]
			b, _ := asn1.Marshal(sd)
			bads = append(bads, b)
		} else {
			var sd bls.StoredData
			asn1.Unmarshal(good[scheme], &sd)
			sd.PublicKeys = sd.PublicKeys[:1]
			b, _ := asn1.Marshal(sd)
			bads = append(bads, b)
		}
		for bi, bad := range bads {
			ids := []uint16{1, 2, 3}
			c := stackCfg{scheme: scheme, mode: "silent", n: 3, t: 2, ids: ids, msgLen: 1}
			net, nodes := buildStack(r, c)
			nodes[1].SetStoredData(bad)
			ctx, cancel := context.WithTimeout(context.Background(), 4*time.Second)
			t0 := time.Now()
			_, err := nodes[1].Sign(ctx, sha([]byte("d")), fmt.Sprintf("bad-data-%d", bi))
			el := time.Since(t0)
			cancel()
			net.stop()
			desc := fmt.Sprintf("%s: Sign with unusable stored data variant %d (%d bytes)", scheme, bi, len(bad))
			s.Count(scheme + "/bad-share-data")
			s.N++
			s.Distinct[desc] = struct{}{}
			isTruncatedKeys := bi == len(bads)-1
			if err == nil && !isTruncatedKeys {
				s.Violate("C11", "Sign with unusable stored share data returned no error", desc)
			}
			if el > 2*time.Second {
				s.Violate("C11", fmt.Sprintf("Sign with unusable stored share data waited %v instead of failing at once", el), desc)
			}
		}
	}
	// --- goroutines of the calls must have ended --------------------------------------------------------------------
	// (what counts is a goroutine still inside a KeyGen / Sign / Synchronize / wait loop of the library; the clock
	// goroutine every silent-mode Scheme's box keeps for its lifetime, and the harness's own, do not)
	stuck := func() (int, string) {
		buf := make([]byte, 8<<20)
		buf = buf[:runtime.Stack(buf, true)]
		n, sample := 0, ""
		for _, g := range strings.Split(string(buf), "\n\n") {
			if !strings.Contains(g, "github.com/IBM/TSS/") {
				continue
			}
			for _, pat := range []string{").KeyGen(", ").Sign(", ").Synchronize(", ").waitFor", ").runDKG", ").runSigningProtocol(", ").prepareSigning("} {
				if strings.Contains(g, pat) {
					n++
					if sample == "" {
						sample = g
					}
					break
				}
			}
		}
		return n, sample
	}
	deadlineG := time.Now().Add(6 * time.Second)
	n, sample := stuck()
	for n > 0 && time.Now().Before(deadlineG) {
		time.Sleep(50 * time.Millisecond)
		n, sample = stuck()
	}
	s.Extra["goroutines_before"] = base
	s.Extra["goroutines_after"] = runtime.NumGoroutine()
	s.Extra["library_call_goroutines_left"] = n
	if n > 0 {
		s.Violate("C11", fmt.Sprintf("%d goroutines are still inside a KeyGen / Sign / Synchronize of the library 6 s after all calls returned: something stays blocked", n), trunc(sample, 3000))
	}
}
