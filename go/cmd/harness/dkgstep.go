package main

// Component "dkgstep": one real built-in DKG backend (BLS or PS) under test, driven in lockstep through the park
// hooks of its three wait loops, the n-1 other participants played by real backends whose traffic towards the
// party under test passes through the harness: any delivery order, duplicates, a value substituted for another
// (a share off the polynomial, a key that does not match its commitment, another key before the real one),
// malformed and junk messages, messages withheld for good, the context ending at any point. Properties C05 and C01.
//
// Every message handed to OnMsg and every run of the KeyGen goroutine (from a wake-up to the next park or return)
// is one operation for the Lean model (Model/Dkg.lean): what the goroutine emits (commitment, key, result) and
// when is compared. The curve-dependent facts are measured here: whether a payload is well-formed (by
// construction), SHA-256 of every key, and whether all C(n,t) interpolations of the final key table coincide (by
// construction: t = n, or no substituted share / key was the first to arrive).
//
// Direct monitors: the key is not disclosed before commitments of all n-1 others were handed over; parties that
// complete report identical public material; their shares sign under it (BLS).

import (
	"bytes"
	"context"
	"crypto/sha256"
	"encoding/asn1"
	"fmt"
	"os"
	"sort"
	"strings"
	"sync"
	"sync/atomic"
	"time"

	"github.com/IBM/TSS/mpc/bls"
	"github.com/IBM/TSS/mpc/ps"
	tss "github.com/IBM/TSS/types"

	"verif/internal/out"
	"verif/internal/prng"
)

func init() { components["dkgstep"] = runDkgStep }

var dkgStepInst = 0
var honestRuns = map[string]int{}

func runDkgStep(r *prng.R, s *out.Sink, tier string) {
	runs := 60
	if tier == "thorough" {
		runs = 900
	}
	defer func() { bls.VerifPark, ps.VerifPark = nil, nil }()
	for i := 0; i < runs; i++ {
		kind := []string{"bls", "ps"}[i%2]
		n := 2 + r.Intn(4)
		t := 2 + r.Intn(n-1)
		// one run in four fault-free, one in four with exactly one substituted share / commitment / key and nothing else
		// wrong (so that the run goes all the way to the verdict), the rest a random mix
		scenario := []string{"honest", "one-share", "mix", "bad-point", "honest", "one-reveal", "mix", "one-commit", "honest", "one-share", "mix", "mix"}[(i/2)%12] // (i/2: every scenario with both backends)
		if scenario == "one-share" && n == t && n < 5 {
			n++ // the cross-check needs t < n
		}
		if !dkgStepRun(kind, r, s, n, t, 1+r.Intn(2), scenario) {
			s.Count("dkg/abandoned-run")
		}
	}
}

type stepWorld struct {
	mu       sync.Mutex
	victim   uint16
	backs    map[uint16]tss.KeyGenerator
	pending  []wireMsg // towards the victim, in emission order
	vout     []string  // what the victim emitted since last looked at
	vmsgs    []wireMsg
	events   chan string
	stopped  bool
	puppetWG sync.WaitGroup
}

func (w *stepWorld) route(from uint16, msg []byte, bcast bool, to uint16, parties []uint16) {
	var dests []uint16
	if bcast {
		for _, q := range parties {
			if q != from {
				dests = append(dests, q)
			}
		}
	} else {
		dests = []uint16{to}
	}
	data := append([]byte(nil), msg...)
	if from == w.victim {
		w.mu.Lock()
		k := "?"
		if len(data) > 0 {
			k = map[byte]string{1: "shares", 2: "commit", 3: "reveal"}[data[0]]
		}
		if len(w.vout) == 0 || w.vout[len(w.vout)-1] != k || k != "shares" {
			w.vout = append(w.vout, k)
		}
		w.vmsgs = append(w.vmsgs, wireMsg{from: from, bcast: bcast, data: data})
		w.mu.Unlock()
	}
	for _, q := range dests {
		if q == w.victim {
			w.mu.Lock()
			w.pending = append(w.pending, wireMsg{from: from, to: q, bcast: bcast, data: data})
			w.mu.Unlock()
			continue
		}
		w.mu.Lock()
		stopped := w.stopped
		w.mu.Unlock()
		if !stopped {
			w.backs[q].OnMsg(data, from, bcast)
		}
	}
}

func dkgStepRun(kind string, r *prng.R, s *out.Sink, n, t, msgLen int, scenario string) bool {
	honest := scenario != "mix"
	// bad-point: one participant commits to, and then reveals, a string of exactly the size of a key that is not a point of
	// the group (each of the two messages is delivered before the genuine one, which is then ignored: first value wins).
	// The key is refused on arrival; the run must end with an error, never with a panic.
	var badPointFrom uint16
	badPoint := r.Bytes(128)
	// (a string the library's parser refuses: for some first bytes it reads the rest leniently and takes 128 random bytes
	// for a point — delivering that to the party under test only would be an equivocating *broadcast*, which the layer
	// below excludes and this component must not fabricate)
	for tries := 0; tries < 40; tries++ {
		if _, err := bls.VerifCurve().NewG2FromBytes(badPoint); err != nil {
			break
		}
		badPoint = r.Bytes(128)
	}
	if kind == "ps" && scenario == "bad-point" {
		scenario = "one-reveal"
	}
	oneKind := map[string]byte{"one-share": 1, "one-commit": 2, "one-reveal": 3}[scenario]
	_ = badPointFrom
	oneDone := false
	dkgStepInst++
	inst := dkgStepInst
	parties := make([]uint16, n)
	for i := range parties {
		parties[i] = uint16(i + 1)
	}
	switch dkgStepInst % 6 {
	case 0, 3, 4:
		// party identifiers from the corners of the 16-bit range (sorted, as the orchestrator hands them over)
		parties = pickIDs(r, n)
		sort.Slice(parties, func(i, j int) bool { return parties[i] < parties[j] })
		s.Count("dkg/corner-identifiers")
	case 1:
		// the same list in another order, identical at every party (the backend's interface does not ask for a sorted list;
		// a party's evaluation point is its position)
		parties[0], parties[n-1] = parties[n-1], parties[0]
		s.Count("dkg/permuted-party-list")
	}
	w := &stepWorld{victim: parties[r.Intn(n)], backs: map[uint16]tss.KeyGenerator{}, events: make(chan string, 64)}
	V := w.victim
	// cancel-at-park (fault-free runs only): the context of the party under test ends at the very moment it is about to
	// wait — after it has tested the context, holding its lock, before sync.Cond.Wait. The context monitor's wake-up must
	// not get lost in that window.
	cancelAtPark := 0
	if scenario == "honest" {
		// every second fault-free run of each backend
		honestRuns[kind]++
		if honestRuns[kind]%2 == 1 {
			cancelAtPark = 1 + r.Intn(3)
		}
	}
	var parks, hookCancelled int32
	var cancelHook func()
	park := func(p uint16, where string) {
		if p == V {
			if k := atomic.AddInt32(&parks, 1); int(k) == cancelAtPark && cancelHook != nil {
				cancelHook()
				atomic.StoreInt32(&hookCancelled, 1)
				time.Sleep(3 * time.Millisecond) // room for the monitor goroutine to react while nobody waits yet
			}
			w.events <- "park"
		}
	}
	bls.VerifPark, ps.VerifPark = park, park
	for _, id := range parties {
		w.backs[id] = newBackend(kind, id, msgLen)
	}
	for _, id := range parties {
		id := id
		w.backs[id].Init(append([]uint16(nil), parties...), t, func(msg []byte, isBroadcast bool, to uint16) {
			w.route(id, msg, isBroadcast, to, parties)
		})
	}
	var hist []string
	emit := func(k, op, ans string) {
		s.Op(k, true, op, ans)
		hist = append(hist, op+"   => "+ans)
	}
	desc := fmt.Sprintf("%s n=%d t=%d party under test %d scenario %s", kind, n, t, V, scenario)
	ctx, cancel := context.WithCancel(context.Background())
	cancelHook = cancel
	pctx, pcancel := context.WithTimeout(context.Background(), 20*time.Second)
	results := map[uint16][]byte{}
	var resMu sync.Mutex
	for _, id := range parties {
		if id == V {
			continue
		}
		id := id
		w.puppetWG.Add(1)
		go func() {
			defer w.puppetWG.Done()
			defer func() { recover() }()
			res, err := w.backs[id].KeyGen(pctx)
			if err == nil {
				resMu.Lock()
				results[id] = res
				resMu.Unlock()
			}
		}()
	}
	var vres []byte
	var verr error
	vpanicked := false
	go func() {
		var err error
		x := safely(func() string { vres, err = w.backs[V].KeyGen(ctx); return "" })
		verr = err
		switch {
		case x == "panic":
			vpanicked = true
			w.events <- "panic"
		case err != nil:
			w.events <- "ret:err"
		default:
			w.events <- "ret:ok"
		}
	}()
	finishRun := func() {
		cancel()
		w.mu.Lock()
		w.stopped = true
		w.mu.Unlock()
		pcancel()
		w.puppetWG.Wait()
		bls.VerifPark, ps.VerifPark = nil, nil
	}
	waitEvent := func() (string, bool) {
		select {
		case e := <-w.events:
			return e, true
		case <-time.After(20 * time.Second):
			s.Violate("C11", "dkgstep: the KeyGen goroutine neither parked nor returned within 20 s of its wake-up", desc+"\n"+strings.Join(hist, "\n"))
			return "", false
		}
	}
	takeOut := func() []string {
		w.mu.Lock()
		defer w.mu.Unlock()
		o := w.vout
		w.vout = nil
		return o
	}
	emit("dkg/new/"+kind, fmt.Sprintf("dkg new %d %d %s", inst, V, out.U16s(parties)), "ok")
	// bookkeeping of what the victim has stored (first well-formed value per sender and kind)
	stored := map[string]bool{}
	storedCommits := 0
	tamperedFirst := false    // a substituted share or key was the first of its sender to arrive
	mismatchFrom := uint16(0) // a sender whose recorded commitment and recorded key cannot match (one of them was substituted)
	revealedAtCommits := -1
	// the start: shares go out, then the first park
	ev, ok := waitEvent()
	if !ok {
		finishRun()
		return false
	}
	first := takeOut()
	logWake := func(ev string, outs []string) {
		var parts []string
		for _, o := range outs {
			if o != "shares" {
				parts = append(parts, o)
			}
			if o == "reveal" && revealedAtCommits < 0 {
				revealedAtCommits = storedCommits
			}
		}
		if ev != "park" {
			parts = append(parts, ev)
		}
		agree := 1
		if t < n && tamperedFirst {
			agree = 0
		}
		emit("dkg/facts", fmt.Sprintf("dkg facts %d %d", inst, agree), "ok")
		a := "-"
		if len(parts) > 0 {
			a = strings.Join(parts, " ")
		}
		emit("dkg/wake/"+strings.ReplaceAll(a, " ", "+"), fmt.Sprintf("dkg wake %d", inst), a)
	}
	if len(first) != 1 || first[0] != "shares" {
		s.Violate("C05", fmt.Sprintf("the party under test emitted %v before its first wait", first), desc)
	}
	logWake(ev, first)
	cancelled := false
	finished := ev != "park"
	var deliveredLog []wireMsg
	honestShare := map[uint16][]byte{}
	honestReveal := map[uint16][]byte{}
	deliver := func(m wireMsg, what string, wf bool) bool {
		kindName := "junk"
		opTail := "junk"
		if len(m.data) > 0 {
			switch m.data[0] {
			case 1:
				kindName = "share"
				opTail = fmt.Sprintf("share %d", b2i(wf))
			case 2:
				kindName = "commit"
				opTail = "commit " + out.Hex(m.data[1:])
				wf = true
			case 3:
				kindName = "reveal"
				h := sha256.Sum256(m.data[1:])
				opTail = fmt.Sprintf("reveal %s %s %d", out.Hex(m.data[1:]), out.Hex(h[:]), b2i(wf))
			}
		}
		key := fmt.Sprintf("%s/%d", kindName, m.from)
		signal := kindName != "junk" && wf && !stored[key]
		w.backs[V].OnMsg(m.data, m.from, m.bcast)
		emit("dkg/msg/"+kindName+"/"+what, fmt.Sprintf("dkg msg %d %d %s", inst, m.from, opTail), "-")
		if signal {
			stored[key] = true
			if kindName == "commit" {
				storedCommits++
			}
			if what == "substituted" && (kindName == "share" || kindName == "reveal") {
				tamperedFirst = true
			}
			if what == "substituted" && (kindName == "commit" || kindName == "reveal") {
				mismatchFrom = m.from
			}
			// (a stored value wakes the waiting loop. Should the wake-up not come — a changed OnMsg that stored or refused
			// otherwise than the bookkeeping here expects — the run goes on: the monitors below judge how it ends.)
			select {
			case ev := <-w.events:
				logWake(ev, takeOut())
				if ev != "park" {
					finished = true
				}
			case <-time.After(3 * time.Second):
				s.Count("dkg/missing-wake")
			}
		} else if !finished {
			// nothing new was stored, so the waiting loop is not signalled — by the code as it stands. Should it wake up all
			// the same (a changed OnMsg that signals for, or stores, a value it ought to ignore), the wake-up is taken as a
			// step of its own, so that the history stays aligned and the monitors below see the run to its end
			select {
			case ev := <-w.events:
				s.Count("dkg/unexpected-wake")
				logWake(ev, takeOut())
				if ev != "park" {
					finished = true
				}
			case <-time.After(2 * time.Millisecond):
			}
		}
		return true
	}
	b2 := func(kind byte, payload []byte) []byte { return append([]byte{kind}, payload...) }
	budget := 8 + r.Intn(60)
	for step := 0; !finished; step++ {
		if atomic.LoadInt32(&hookCancelled) == 1 && !cancelled {
			// the context ended while the party was about to wait: the model takes the same event; the party must wake up
			// and return
			cancelled = true
			s.Count("dkg/cancel-at-park")
			emit("dkg/ctx", fmt.Sprintf("dkg ctx %d", inst), "-")
			select {
			case ev := <-w.events:
				logWake(ev, takeOut())
				finished = ev != "park"
			case <-time.After(5 * time.Second):
				s.Violate("C11", fmt.Sprintf("KeyGen of party %d did not return: its context ended while it was about to wait (after its test of the context, before sync.Cond.Wait) and the wake-up of the context monitor was lost", V), desc+"\n"+strings.Join(hist, "\n"))
				finishRun()
				return false
			}
			continue
		}
		w.mu.Lock()
		np := len(w.pending)
		w.mu.Unlock()
		if np == 0 {
			// the others may still be computing; give them a moment, then give up on the run
			deadline := time.Now().Add(800 * time.Millisecond)
			for time.Now().Before(deadline) {
				w.mu.Lock()
				np = len(w.pending)
				w.mu.Unlock()
				if np > 0 {
					break
				}
				time.Sleep(200 * time.Microsecond)
			}
		}
		if np == 0 || (!honest && step > budget && !cancelled) {
			if cancelled {
				s.Violate("C11", "dkgstep: KeyGen did not return after its context was cancelled", desc+"\n"+strings.Join(hist, "\n"))
				finishRun()
				return false
			}
			cancel()
			cancelled = true
			emit("dkg/ctx", fmt.Sprintf("dkg ctx %d", inst), "-")
			ev, ok := waitEvent()
			if !ok {
				finishRun()
				return false
			}
			logWake(ev, takeOut())
			finished = ev != "park"
			continue
		}
		w.mu.Lock()
		i := r.Intn(len(w.pending))
		m := w.pending[i]
		w.pending = append(append([]wireMsg{}, w.pending[:i]...), w.pending[i+1:]...)
		w.mu.Unlock()
		if len(m.data) > 0 && m.data[0] == 1 {
			honestShare[m.from] = m.data[1:]
		}
		if len(m.data) > 0 && m.data[0] == 3 {
			honestReveal[m.from] = m.data[1:]
		}
		choice := 0
		if !honest {
			choice = r.Intn(12)
		}
		if oneKind != 0 && !oneDone && len(m.data) > 0 && m.data[0] == oneKind {
			// the single deviation of this run - once another participant's value of the same kind is known
			have := len(honestShare)
			if oneKind == 3 {
				have = len(honestReveal)
			}
			if oneKind == 2 || have >= 2 {
				choice = 2
				oneDone = true
			}
		}
		okRun := true
		if scenario == "bad-point" && len(m.data) > 0 && (m.data[0] == 2 || m.data[0] == 3) && (badPointFrom == 0 || badPointFrom == m.from) && !(m.data[0] == 3 && badPointFrom == 0) {
			badPointFrom = m.from
			sub := m
			if m.data[0] == 2 {
				h := sha256.Sum256(badPoint)
				sub.data = append([]byte{2}, h[:]...)
			} else {
				sub.data = append([]byte{3}, badPoint...)
			}
			wf := false
			if _, err := bls.VerifCurve().NewG2FromBytes(badPoint); err == nil {
				wf = true
			}
			s.Count("dkg/bad-point-message")
			// bookkeeping for the monitors: if the string is refused on arrival (it is not a point), the genuine key is the one
			// recorded and cannot match the commitment to the string; if the library's parser takes it for a point after all
			// (some first bytes make it read the rest leniently), commitment and key are consistent — a corrupted
			// participant's own business — but the key is off the common polynomial
			if m.data[0] == 3 {
				if wf {
					tamperedFirst = true
					s.Count("dkg/bad-point-parsed-as-a-point")
				} else {
					mismatchFrom = m.from
				}
			}
			okRun = deliver(sub, "bad-point", wf || m.data[0] == 2)
			if okRun && !finished {
				okRun = deliver(m, "as-sent", true)
			}
			deliveredLog = append(deliveredLog, m)
			if !okRun {
				finishRun()
				return false
			}
			continue
		}
		switch choice {
		case 1: // a duplicate of something delivered earlier, then the message
			if len(deliveredLog) > 0 {
				okRun = deliver(deliveredLog[r.Intn(len(deliveredLog))], "duplicate", true)
			}
			if okRun && !finished {
				okRun = deliver(m, "as-sent", true)
			}
		case 2: // a substituted value first (it wins), then the real one (ignored)
			sub := m
			switch {
			case len(m.data) > 0 && m.data[0] == 2:
				// a commitment that is not the sender's: random, or the real one with one bit flipped at either end,
				// one byte short, one byte long
				c := append([]byte{}, m.data[1:]...)
				switch r.Intn(5) {
				case 0:
					c = r.Bytes(32)
				case 1:
					c[len(c)-1] ^= 1
				case 2:
					c[0] ^= 0x80
				case 3:
					c = c[:len(c)-1]
				default:
					c = append(c, 0)
				}
				sub.data = b2(2, c)
			case len(m.data) > 0 && m.data[0] == 1:
				// another participant's share: well-formed, off this sender's polynomial - as a whole, or (PS) in its x
				// component only, or in a single y component only
				for p, sh := range honestShare {
					if p != m.from {
						sub.data = b2(1, sh)
						if kind == "ps" {
							var mine, other ps.XYs
							if _, e1 := asn1.Unmarshal(m.data[1:], &mine); e1 == nil {
								if _, e2 := asn1.Unmarshal(sh, &other); e2 == nil && len(mine.Ys) == len(other.Ys) && len(mine.Ys) > 0 {
									switch r.Intn(3) {
									case 0:
										mine.X = other.X
										sub.data = b2(1, remarshal(mine))
									case 1:
										i := r.Intn(len(mine.Ys))
										mine.Ys = append([][]byte{}, mine.Ys...)
										mine.Ys[i] = other.Ys[i]
										sub.data = b2(1, remarshal(mine))
									}
								}
							}
						}
					}
				}
			case len(m.data) > 0 && m.data[0] == 3:
				for p, pk := range honestReveal {
					if p != m.from {
						sub.data = b2(3, pk)
					}
				}
			}
			if !bytes.Equal(sub.data, m.data) {
				okRun = deliver(sub, "substituted", true)
			}
			if okRun && !finished {
				okRun = deliver(m, "as-sent", true)
			}
		case 3: // junk in between
			j := wireMsg{from: m.from, to: V}
			switch r.Intn(4) {
			case 0:
				j.data = nil
			case 1:
				j.data = b2(byte(4+r.Intn(200)), r.Bytes(10))
			case 2:
				j.data = b2(3, r.Bytes(5+r.Intn(100))) // a key that is not a point
			default:
				j.data = []byte{0}
			}
			// is it, by accident, a well-formed key after all? (random bytes of the right length can be a compressed point)
			wf := false
			if kind == "bls" && len(j.data) > 1 && j.data[0] == 3 {
				if _, err := bls.VerifCurve().NewG2FromBytes(j.data[1:]); err == nil {
					wf = true
				}
			}
			okRun = deliver(j, "junk-or-malformed", wf)
			if okRun && !finished {
				okRun = deliver(m, "as-sent", true)
			}
		case 4: // withheld for good
			emit("dkg/withheld", fmt.Sprintf("dkg facts %d 1", inst), "ok")
		default:
			okRun = deliver(m, "as-sent", true)
		}
		deliveredLog = append(deliveredLog, m)
		if !okRun {
			finishRun()
			return false
		}
	}
	finishRun()
	if os.Getenv("VERIF_DKG_DEBUG") != "" {
		fmt.Fprintf(os.Stderr, "DEBUG %s vres=%v mismatchFrom=%d tamperedFirst=%v oneDone=%v\n", desc, vres != nil, mismatchFrom, tamperedFirst, oneDone)
	}
	// ---- monitors --------------------------------------------------------------------------------------------------
	if revealedAtCommits >= 0 && revealedAtCommits != n-1 {
		s.Violate("C05", fmt.Sprintf("the party under test disclosed its public key when it held the commitments of %d of the %d other participants", revealedAtCommits, n-1), desc+"\n"+strings.Join(hist, "\n"))
	}
	if vres != nil && mismatchFrom != 0 {
		s.Violate("C05", fmt.Sprintf("the party under test completed although the key it recorded for party %d does not match the commitment it recorded for that party", mismatchFrom), desc+"\n"+strings.Join(hist, "\n"))
	}
	if vres != nil && tamperedFirst && t < n && mismatchFrom == 0 {
		s.Violate("C05", "the party under test completed although a share off its dealer's polynomial was the first to arrive (the keys cannot lie on one polynomial)", desc+"\n"+strings.Join(hist, "\n"))
	}
	if vpanicked {
		s.Violate("C10", fmt.Sprintf("KeyGen of party %d panicked on the messages of its peers (%s backend, scenario %s)", V, kind, scenario), desc+"\n"+strings.Join(hist, "\n"))
		s.Violate("C11", fmt.Sprintf("KeyGen of party %d panicked (%s backend, scenario %s)", V, kind, scenario), desc+"\n"+strings.Join(hist, "\n"))
	}
	// the all-subsets cross-check of the real KeyGen (C18): an off-polynomial key is detected whichever party it belongs to,
	// keys on one polynomial are always accepted — whatever the party identifiers are
	if vres != nil && tamperedFirst && t < n && mismatchFrom == 0 {
		s.Violate("C18", fmt.Sprintf("the t-subset cross-check of the key generation accepted a set of keys one of which is off the common polynomial (n=%d, t=%d, parties %v)", n, t, parties), desc+"\n"+strings.Join(hist, "\n"))
	}
	if scenario == "honest" && (vpanicked || (!cancelled && cancelAtPark == 0)) {
		switch {
		case vpanicked:
			s.Violate("C18", fmt.Sprintf("a fault-free key generation with parties %v (n=%d, t=%d) panicked in the party under test", parties, n, t), desc+"\n"+strings.Join(hist, "\n"))
		case verr != nil:
			s.Violate("C18", fmt.Sprintf("a fault-free key generation with parties %v (n=%d, t=%d: keys on one polynomial) was rejected: %v", parties, n, t, verr), desc+"\n"+strings.Join(hist, "\n"))
		}
	}
	if vres != nil {
		vpk := thresholdPKOf(kind, V, parties, t, msgLen, vres)
		resMu.Lock()
		for id, res := range results {
			if !bytes.Equal(thresholdPKOf(kind, id, parties, t, msgLen, res), vpk) {
				s.Violate("C05", fmt.Sprintf("party %d and party %d both completed but report different public material", V, id), desc+"\n"+strings.Join(hist, "\n"))
			}
		}
		// every set of >= t completers signs under the reported key (BLS)
		if kind == "bls" {
			shares := map[uint16][]byte{V: vres}
			ids := []uint16{}
			for id, res := range results {
				shares[id] = res
			}
			for _, id := range parties {
				if shares[id] != nil {
					ids = append(ids, id)
				}
			}
			if len(ids) >= t {
				checkBLSCompleters(s, parties, t, ids, shares, r.Bytes(32), desc+"\n"+strings.Join(hist, "\n"))
			}
		}
		resMu.Unlock()
		s.Count("dkg/completed/" + kind)
	} else {
		s.Count("dkg/not-completed/" + kind)
	}
	return true
}

func b2i(b bool) int {
	if b {
		return 1
	}
	return 0
}

func thresholdPKOf(kind string, id uint16, parties []uint16, t, msgLen int, share []byte) []byte {
	b := newBackend(kind, id, msgLen)
	b.Init(append([]uint16(nil), parties...), t, func([]byte, bool, uint16) {})
	switch x := b.(type) {
	case *bls.TBLS:
		x.SetShareData(share)
		pk, _ := x.ThresholdPK()
		return pk
	case *ps.TPS:
		x.SetShareData(share)
		pk, _ := x.ThresholdPK()
		return pk
	}
	return nil
}

func checkBLSCompleters(s *out.Sink, parties []uint16, t int, ids []uint16, shares map[uint16][]byte, digest []byte, desc string) {
	signer := func(id uint16) *bls.TBLS {
		b := &bls.TBLS{Party: id, Logger: nopLogger{}}
		b.Init(parties, t, func([]byte, bool, uint16) {})
		b.SetShareData(shares[id])
		return b
	}
	pp, err := signer(ids[0]).ThresholdPK()
	if err != nil {
		return
	}
	var v bls.Verifier
	if v.Init(pp) != nil {
		s.Violate("C05", "the reported public material does not initialise a verifier", desc)
		return
	}
	for _, S := range subsetsOfIDs(ids, t) {
		if len(S) > t+1 {
			continue
		}
		var sigs [][]byte
		for _, id := range S {
			sg, _ := signer(id).Sign(context.Background(), digest)
			sigs = append(sigs, sg)
		}
		agg, err := v.AggregateSignatures(sigs, S)
		if err != nil || v.Verify(digest, agg) != nil {
			s.Violate("C05", fmt.Sprintf("the shares of the completed parties %v do not sign under the reported key", S), desc)
		}
	}
}
