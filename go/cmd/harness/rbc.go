package main

import (
	"fmt"
	"strings"

	"github.com/IBM/TSS/rbc"

	"verif/internal/out"
	"verif/internal/prng"
)

func init() {
	components["rbc"] = runRbc
	components["rbcsys"] = runRbcSys
}

// hmsg is the harness' implementation of rbc.Message (what the orchestrator's rbcMsg is to the
// receiver): a payload message (point-to-point or broadcast class) or an acknowledgement.
type hmsg struct {
	payload   []byte
	digest    []byte
	round     uint8
	broadcast bool
	ackSender uint16
	isAck     bool
}

func (m *hmsg) Round() uint8       { return m.round }
func (m *hmsg) Digest() []byte     { return m.digest }
func (m *hmsg) WasBroadcast() bool { return m.broadcast }
func (m *hmsg) Ack() ([]byte, uint16, uint8) {
	if !m.isAck {
		return nil, 0, 0
	}
	return m.digest, m.ackSender, m.round
}

type nopLogger struct{}

func (nopLogger) DebugEnabled() bool                     { return false }
func (nopLogger) Debugf(format string, a ...interface{}) {}
func (nopLogger) Infof(format string, a ...interface{})  {}
func (nopLogger) Warnf(format string, a ...interface{})  {}
func (nopLogger) Errorf(format string, a ...interface{}) {}

// recv wraps one real rbc.Receiver and records its callbacks in call order.
type recv struct {
	r      *rbc.Receiver
	events []string
	// monitor state
	delivered map[string]int    // "sender/round" -> count of broadcast-class hand-overs
	direct    map[string]bool   // "sender/payloadhex": payload received directly from sender (broadcast class)
	handB     map[string]string // "sender/round" -> payload handed over
	halted    bool
}

func newRecv(self uint16, n int) *recv {
	rv := &recv{delivered: map[string]int{}, direct: map[string]bool{}, handB: map[string]string{}}
	rv.r = &rbc.Receiver{SelfID: self, N: n, Logger: nopLogger{},
		ForwardToBackend: func(m interface{}, from uint16) {
			hm, _ := m.(*hmsg)
			if hm == nil {
				rv.events = append(rv.events, fmt.Sprintf("deliver nil %d b", from))
				return
			}
			cls := "p"
			if hm.broadcast {
				cls = "b"
			}
			rv.events = append(rv.events, fmt.Sprintf("deliver %s %d %s", out.Hex(hm.payload), from, cls))
		},
		BroadcastAck: func(digest string, sender uint16, round uint8) {
			rv.events = append(rv.events, fmt.Sprintf("ack %s %d %d", out.Hex([]byte(digest)), sender, round))
		},
	}
	return rv
}

// step feeds one message to the real receiver and returns the canonical answer line.
func (rv *recv) step(m *hmsg, from uint16) string {
	rv.events = rv.events[:0]
	res := safely(func() string {
		rv.r.Receive(m, from)
		return ""
	})
	if res == "panic" {
		rv.events = append(rv.events, "panic")
	}
	if len(rv.events) == 0 {
		return "-"
	}
	return strings.Join(rv.events, " ; ")
}

func opLine(inst int, m *hmsg, from uint16) string {
	switch {
	case m.isAck:
		return fmt.Sprintf("rbc %d ack %d %s %d %d", inst, from, out.Hex(m.digest), m.ackSender, m.round)
	case m.broadcast:
		return fmt.Sprintf("rbc %d bcast %d %s %s %d", inst, from, out.Hex(m.payload), out.Hex(m.digest), m.round)
	default:
		return fmt.Sprintf("rbc %d p2p %d %s", inst, from, out.Hex(m.payload))
	}
}

// monitorC03 checks the integrity statement directly on the implementation's hand-overs.
func (rv *recv) monitorC03(s *out.Sink, self uint16, m *hmsg, from uint16, answer string, history *[]string) {
	*history = append(*history, opLine(0, m, from))
	if !m.isAck && m.broadcast {
		rv.direct[fmt.Sprintf("%d/%s", from, out.Hex(m.payload))] = true
	}
	for _, ev := range strings.Split(answer, " ; ") {
		f := strings.Fields(ev)
		if len(f) != 4 || f[0] != "deliver" {
			continue
		}
		replay := strings.Join(*history, "\n")
		if f[1] == "nil" {
			s.Violate("C03", fmt.Sprintf("empty placeholder handed to the backend, attributed to %s", f[2]), replay)
			continue
		}
		if f[3] == "b" {
			key := fmt.Sprintf("%s/%d", f[2], m.round)
			rv.delivered[key]++
			if rv.delivered[key] > 1 {
				s.Violate("C03", fmt.Sprintf("broadcast-class message of sender %s round %d handed over %d times", f[2], m.round, rv.delivered[key]), replay)
			}
			if !rv.direct[f[2]+"/"+f[1]] {
				s.Violate("C03", fmt.Sprintf("broadcast-class payload %s attributed to %s was never received directly from it", f[1], f[2]), replay)
			}
		} else {
			if m.isAck || m.broadcast || f[1] != out.Hex(m.payload) || f[2] != fmt.Sprint(from) {
				s.Violate("C03", "point-to-point hand-over differs from what was received", replay)
			}
		}
	}
}

type pools struct {
	payloads [][]byte
	digests  [][]byte
}

func mkPools(r *prng.R) pools {
	p := pools{}
	for i := 0; i < 3; i++ {
		p.payloads = append(p.payloads, append([]byte{byte(i + 1), 1}, r.Bytes(1+r.Intn(4))...))
		p.digests = append(p.digests, r.Bytes(32))
	}
	// one short digest: acknowledgements may carry any non-empty byte string
	p.digests = append(p.digests, r.Bytes(1+r.Intn(7)))
	return p
}

// randMsg draws a message as some member (honest or not) could send it to `self`.
func randMsg(r *prng.R, p pools, ids []uint16, self uint16) (*hmsg, uint16) {
	from := ids[r.Intn(len(ids))]
	for from == self && r.Intn(50) != 0 { // a message attributed to ourselves: rare (transport never does it)
		from = ids[r.Intn(len(ids))]
	}
	round := uint8(1 + r.Intn(2))
	switch r.Intn(10) {
	case 0:
		return &hmsg{payload: p.payloads[r.Intn(3)], round: round}, from
	case 1, 2, 3:
		i := r.Intn(3)
		return &hmsg{payload: p.payloads[i], digest: p.digests[i], round: round, broadcast: true}, from
	default:
		i := r.Intn(len(p.digests))
		about := ids[r.Intn(len(ids))]
		return &hmsg{isAck: true, digest: p.digests[i], ackSender: about, round: round}, from
	}
}

// sessionScript builds a mostly valid input sequence for one receiver: for every other member s and
// round r a canonical payload, its direct copy and the acknowledgements of all other non-senders,
// shuffled, with deviations (conflicting digests, self-acknowledgements, replays, short digests,
// acknowledgements from ourselves, point-to-point traffic) injected at a per-session rate.
type scripted struct {
	m    *hmsg
	from uint16
	tag  string
}

func sessionScript(r *prng.R, p pools, ids []uint16, self uint16) []scripted {
	var evs []scripted
	devRate := []int{0, 0, 5, 15, 40}[r.Intn(5)] // percent
	rounds := 1 + r.Intn(2)
	for _, s := range ids {
		if s == self {
			continue
		}
		for rd := 1; rd <= rounds; rd++ {
			if r.Intn(4) == 0 {
				continue // this sender does not broadcast in this round
			}
			c := r.Intn(3)
			if r.Intn(100) >= 8 || devRate == 0 { // direct copy (sometimes withheld)
				evs = append(evs, scripted{&hmsg{payload: p.payloads[c], digest: p.digests[c], round: uint8(rd), broadcast: true}, s, "direct"})
			}
			for _, q := range ids {
				if q == s || q == self {
					continue
				}
				if r.Intn(100) < 6 && devRate > 0 {
					continue // acknowledgement withheld
				}
				evs = append(evs, scripted{&hmsg{isAck: true, digest: p.digests[c], ackSender: s, round: uint8(rd)}, q, "ack"})
			}
			// acknowledgements about our own broadcasts also arrive
			if r.Intn(3) == 0 {
				evs = append(evs, scripted{&hmsg{isAck: true, digest: p.digests[r.Intn(3)], ackSender: self, round: uint8(rd)}, s, "ack-about-self"})
			}
		}
	}
	for i := 0; i < 1+r.Intn(4); i++ {
		from := ids[r.Intn(len(ids))]
		if from != self {
			evs = append(evs, scripted{&hmsg{payload: p.payloads[r.Intn(3)], round: uint8(1 + r.Intn(2))}, from, "p2p"})
		}
	}
	// shuffle
	perm := r.Perm(len(evs))
	sh := make([]scripted, len(evs))
	for i, j := range perm {
		sh[i] = evs[j]
	}
	// deviations
	var outp []scripted
	for _, e := range sh {
		if r.Intn(100) < devRate {
			switch r.Intn(7) {
			case 0: // the sender vouches for itself
				outp = append(outp, scripted{&hmsg{isAck: true, digest: p.digests[r.Intn(3)], ackSender: e.from, round: e.m.round}, e.from, "dev-self-ack"})
			case 1: // replay of something earlier
				if len(outp) > 0 {
					x := outp[r.Intn(len(outp))]
					outp = append(outp, scripted{x.m, x.from, "dev-replay"})
				}
			case 2: // conflicting digest for the same sender and round
				if e.m.isAck {
					outp = append(outp, scripted{&hmsg{isAck: true, digest: p.digests[r.Intn(len(p.digests))], ackSender: e.m.ackSender, round: e.m.round}, e.from, "dev-conflict-ack"})
				} else {
					c := r.Intn(3)
					outp = append(outp, scripted{&hmsg{payload: p.payloads[c], digest: p.digests[c], round: e.m.round, broadcast: true}, e.from, "dev-conflict-payload"})
				}
			case 3: // short digest
				outp = append(outp, scripted{&hmsg{isAck: true, digest: p.digests[3], ackSender: ids[r.Intn(len(ids))], round: uint8(3)}, e.from, "dev-short-digest"})
			case 4: // acknowledgement about a non-member / far round
				outp = append(outp, scripted{&hmsg{isAck: true, digest: p.digests[r.Intn(3)], ackSender: uint16(40000 + r.Intn(10)), round: uint8(r.Intn(128))}, e.from, "dev-ack-nonmember"})
			case 5: // same payload re-sent
				if !e.m.isAck {
					outp = append(outp, e)
				}
			case 6: // attributed to ourselves (the transport never does this; the receiver panics on acks)
				if r.Intn(10) == 0 {
					outp = append(outp, scripted{e.m, self, "dev-from-self"})
				}
			}
		}
		outp = append(outp, e)
	}
	return outp
}

// runRbc: single real receiver, arbitrary input sequences (all adversaries, all orders, as far as
// one receiver can tell), step-exact against the model, with the C03 monitors.
// rbcReentrant: the backend reacts to a hand-over at once and the transport delivers in-process (as the synchronous
// network of the repository's own receiver test does), so a peer's repeated acknowledgement — or the payload re-sent —
// re-enters Receive while the hand-over is still in progress; in a second variant the hand-over ends abnormally (the
// backend panics, the caller recovers) and the repetition comes afterwards. At most once per sender and round.
func rbcReentrant(s *out.Sink) {
	for _, variant := range []string{"repeated-ack-during-hand-over", "resent-payload-during-hand-over", "repeated-ack-after-backend-panic"} {
		for _, n := range []int{3, 4} {
			count := 0
			var rcv *rbc.Receiver
			payload := &hmsg{payload: []byte{1, 1, 7}, round: 1, broadcast: true, digest: sha([]byte{1, 1, 7})}
			ackFrom := func(from uint16) {
				rcv.Receive(&hmsg{isAck: true, digest: payload.digest, ackSender: 1, round: 1}, from)
			}
			rcv = &rbc.Receiver{SelfID: 0, N: n, Logger: nopLogger{},
				ForwardToBackend: func(m interface{}, from uint16) {
					count++
					if count > 4 {
						return
					}
					switch variant {
					case "repeated-ack-during-hand-over":
						ackFrom(2)
					case "resent-payload-during-hand-over":
						rcv.Receive(payload, 1)
					case "repeated-ack-after-backend-panic":
						if count == 1 {
							panic("scripted backend failure")
						}
					}
				},
				BroadcastAck: func(string, uint16, uint8) {},
			}
			safely(func() string {
				rcv.Receive(payload, 1)
				for q := uint16(2); int(q) < n; q++ {
					ackFrom(q)
				}
				return ""
			})
			if variant == "repeated-ack-after-backend-panic" {
				safely(func() string { ackFrom(2); return "" })
			}
			s.N++
			s.Count("reentrant/" + variant)
			s.Distinct[fmt.Sprintf("reentrant %s n=%d", variant, n)] = struct{}{}
			if count != 1 {
				s.Violate("C03", fmt.Sprintf("the broadcast of sender 1, round 1 was handed to the backend %d times (%s, N=%d): at most once per sender and round", count, variant, n),
					fmt.Sprintf("receiver 0 of %d: payload from 1, acknowledgements of the others; %s", n, variant))
			}
		}
	}
}

func runRbc(r *prng.R, s *out.Sink, tier string) {
	rbcReentrant(s)
	sessions := 600
	if tier == "thorough" {
		sessions = 12000
	}
	deliveries, halts := 0, 0
	for k := 0; k < sessions; k++ {
		n := 2 + r.Intn(5)
		ids := make([]uint16, n)
		base := uint16(r.Intn(3)) * 250
		for i := range ids {
			ids[i] = base + uint16(i)*uint16(1+r.Intn(2)) + uint16(i)
		}
		self := ids[r.Intn(n)]
		p := mkPools(r)
		rv := newRecv(self, n)
		var hist []string
		s.Op("new", false, fmt.Sprintf("rbc 0 new %d %d %s 0", self, n, out.U16s(ids)), "ok")
		hist = append(hist, fmt.Sprintf("rbc 0 new %d %d %s 0", self, n, out.U16s(ids)))
		var script []scripted
		if k%5 == 4 {
			for i := 0; i < 20+r.Intn(100); i++ { // unstructured stream
				m, from := randMsg(r, p, ids, self)
				script = append(script, scripted{m, from, "random"})
			}
		} else {
			script = sessionScript(r, p, ids, self)
		}
		for _, e := range script {
			ans := rv.step(e.m, e.from)
			kind := e.tag
			if strings.Contains(ans, "deliver") {
				kind += "+deliver"
				deliveries++
			}
			s.Op(kind, true, opLine(0, e.m, e.from), ans)
			rv.monitorC03(s, self, e.m, e.from, ans, &hist)
			if strings.Contains(ans, "panic") {
				if !(e.m.isAck && e.from == self) {
					s.Violate("C10", "rbc.Receiver.Receive panics", strings.Join(hist, "\n"))
				}
				break
			}
		}
	}
	s.Extra["sessions"] = sessions
	s.Extra["hand_overs"] = deliveries
	_ = halts
}

// ---- several real receivers wired together, Byzantine members, arbitrary arrival order ---------

type flight struct {
	to, from uint16
	m        *hmsg
}

type sysRun struct {
	ids    []uint16
	honest map[uint16]bool
	rv     map[uint16]*recv
	inst   map[uint16]int
	net    []flight
	hist   []string
	handed map[uint16]map[string]string // party -> "sender/round" -> payload (broadcast class)
}

func (sr *sysRun) deliver(s *out.Sink, f flight) {
	rv := sr.rv[f.to]
	ans := rv.step(f.m, f.from)
	line := opLine(sr.inst[f.to], f.m, f.from)
	kind := "sys-p2p"
	if f.m.isAck {
		kind = "sys-ack"
	} else if f.m.broadcast {
		kind = "sys-bcast"
	}
	if strings.Contains(ans, "deliver") {
		kind += "+deliver"
	}
	s.Op(kind, true, line, ans)
	sr.hist = append(sr.hist, line)
	for _, ev := range strings.Split(ans, " ; ") {
		f2 := strings.Fields(ev)
		switch {
		case len(f2) == 4 && f2[0] == "ack":
			// the honest party broadcasts its acknowledgement to every other member
			var d []byte
			fmt.Sscanf(f2[1], "%x", &d)
			var sender, round int
			fmt.Sscan(f2[2], &sender)
			fmt.Sscan(f2[3], &round)
			for _, q := range sr.ids {
				if q != f.to && sr.honest[q] {
					sr.net = append(sr.net, flight{to: q, from: f.to, m: &hmsg{isAck: true, digest: d, ackSender: uint16(sender), round: uint8(round)}})
				}
			}
		case len(f2) == 4 && f2[0] == "deliver" && f2[3] == "b":
			key := fmt.Sprintf("%s/%d", f2[2], f.m.round)
			if sr.handed[f.to] == nil {
				sr.handed[f.to] = map[string]string{}
			}
			sr.handed[f.to][key] = f2[1]
			for q, hq := range sr.handed {
				if q != f.to && sr.honest[q] {
					if other, ok := hq[key]; ok && other != f2[1] {
						s.Violate("C02", fmt.Sprintf("honest parties %d and %d handed different payloads (%s vs %s) of sender %s round %d to their backends",
							q, f.to, other, f2[1], f2[2], f.m.round), strings.Join(sr.hist, "\n"))
					}
				}
			}
		}
	}
}

func runRbcSys(r *prng.R, s *out.Sink, tier string) {
	runs := 400
	if tier == "thorough" {
		runs = 8000
	}
	handovers := 0
	for k := 0; k < runs; k++ {
		n := 3 + r.Intn(3)
		sr := &sysRun{honest: map[uint16]bool{}, rv: map[uint16]*recv{}, inst: map[uint16]int{}, handed: map[uint16]map[string]string{}}
		for i := 0; i < n; i++ {
			sr.ids = append(sr.ids, uint16(10+i))
		}
		nBad := 1 + r.Intn(n-2) // at least two honest
		bad := r.Perm(n)[:nBad]
		for _, id := range sr.ids {
			sr.honest[id] = true
		}
		var corrupted []uint16
		for _, i := range bad {
			sr.honest[sr.ids[i]] = false
			corrupted = append(corrupted, sr.ids[i])
		}
		inst := 0
		var honestIDs []uint16
		for _, id := range sr.ids {
			if sr.honest[id] {
				honestIDs = append(honestIDs, id)
				sr.rv[id] = newRecv(id, n)
				sr.inst[id] = inst
				line := fmt.Sprintf("rbc %d new %d %d %s 0", inst, id, n, out.U16s(sr.ids))
				s.Op("new", false, line, "ok")
				sr.hist = append(sr.hist, line)
				inst++
			}
		}
		p := mkPools(r)
		strategy := []string{"equivocate", "equivocate-collude", "partial", "mostly-honest", "random", "early-acks"}[r.Intn(6)]
		s.Count("strategy/" + strategy)
		bcastTo := func(from uint16, to []uint16, c int, round uint8) {
			for _, q := range to {
				if q != from {
					sr.net = append(sr.net, flight{to: q, from: from, m: &hmsg{payload: p.payloads[c], digest: p.digests[c], round: round, broadcast: true}})
				}
			}
		}
		ackTo := func(from uint16, to []uint16, c int, about uint16, round uint8) {
			for _, q := range to {
				if q != from {
					sr.net = append(sr.net, flight{to: q, from: from, m: &hmsg{isAck: true, digest: p.digests[c], ackSender: about, round: round}})
				}
			}
		}
		// honest senders broadcast to everybody; corrupted members acknowledge them (mostly)
		for _, h := range honestIDs {
			if r.Intn(3) != 0 {
				c := r.Intn(3)
				bcastTo(h, honestIDs, c, 2)
				for _, cm := range corrupted {
					if strategy == "mostly-honest" || r.Intn(4) != 0 {
						ackTo(cm, honestIDs, c, h, 2)
					}
				}
			}
		}
		// the corrupted sender's round-1 broadcast
		c0 := corrupted[0]
		half := 1 + r.Intn(len(honestIDs)-1)
		v1, v2 := honestIDs[:half], honestIDs[half:]
		switch strategy {
		case "equivocate", "equivocate-collude", "early-acks":
			bcastTo(c0, v1, 0, 1)
			bcastTo(c0, v2, 1, 1)
			ackTo(c0, v1, 0, c0, 1) // vouches for itself
			ackTo(c0, v2, 1, c0, 1)
			if strategy != "equivocate" {
				for _, cm := range corrupted[1:] {
					ackTo(cm, v1, 0, c0, 1)
					ackTo(cm, v2, 1, c0, 1)
				}
			}
			if strategy == "early-acks" { // every corrupted member also acknowledges both variants everywhere
				for _, cm := range corrupted {
					ackTo(cm, honestIDs, r.Intn(2), c0, 1)
				}
			}
		case "partial":
			bcastTo(c0, v1, 0, 1)
			for _, cm := range corrupted[1:] {
				ackTo(cm, honestIDs, 0, c0, 1)
			}
		case "mostly-honest":
			bcastTo(c0, honestIDs, 0, 1)
			for _, cm := range corrupted[1:] {
				ackTo(cm, honestIDs, 0, c0, 1)
			}
		}
		budget := 0
		if strategy == "random" || r.Intn(3) == 0 {
			budget = 10 + r.Intn(40)
		}
		for step := 0; step < budget || len(sr.net) > 0; step++ {
			if step > 800 {
				break
			}
			if step < budget && (len(sr.net) == 0 || r.Intn(3) == 0) {
				// adversary move: a corrupted member sends something to an honest party
				c := corrupted[r.Intn(len(corrupted))]
				victim := honestIDs[r.Intn(len(honestIDs))]
				var m *hmsg
				switch r.Intn(6) {
				case 0, 1:
					i := r.Intn(3)
					m = &hmsg{payload: p.payloads[i], digest: p.digests[i], round: 1, broadcast: true}
				case 2:
					m = &hmsg{isAck: true, digest: p.digests[r.Intn(3)], ackSender: c, round: 1}
				case 3:
					m = &hmsg{isAck: true, digest: p.digests[r.Intn(len(p.digests))], ackSender: sr.ids[r.Intn(n)], round: uint8(1 + r.Intn(2))}
				case 4:
					if len(sr.net) > 0 {
						f := sr.net[r.Intn(len(sr.net))]
						if !sr.honest[f.from] {
							m = f.m
						}
					}
					if m == nil {
						m = &hmsg{isAck: true, digest: p.digests[0], ackSender: c, round: 1}
					}
				default:
					m = &hmsg{payload: p.payloads[r.Intn(3)], round: 1}
				}
				sr.net = append(sr.net, flight{to: victim, from: c, m: m})
				continue
			}
			if len(sr.net) == 0 {
				continue
			}
			// deliver any in-flight message (arbitrary order); corrupted traffic may be duplicated
			i := r.Intn(len(sr.net))
			f := sr.net[i]
			if !(r.Intn(10) == 0 && !sr.honest[f.from] && step < 400) {
				sr.net = append(sr.net[:i], sr.net[i+1:]...)
			}
			sr.deliver(s, f)
		}
		for _, h := range sr.handed {
			handovers += len(h)
		}
	}
	s.Extra["runs"] = runs
	s.Extra["broadcast_hand_overs"] = handovers
	rbcSearch(r, s, tier)
}

// rbcSearch is the cheap adversary search behind C02: sessions of three or four parties with one
// corrupted sender that draws its moves from a small menu (payload A or B to a chosen victim, its own
// acknowledgement of A or B to a chosen victim), interleaved at random with the delivery of the honest
// acknowledgements (per-link FIFO or arbitrary order). Only the direct monitor runs here (no model
// comparison): hundreds of thousands of tiny executions on real receivers.
func rbcSearch(r *prng.R, s *out.Sink, tier string) {
	trials := 60000
	if tier == "thorough" {
		trials = 1500000
	}
	A := &hmsg{payload: []byte{1, 1, 0xA}, digest: []byte("digest-of-A-0123456789abcdef0123"), round: 1, broadcast: true}
	B := &hmsg{payload: []byte{1, 1, 0xB}, digest: []byte("digest-of-B-0123456789abcdef0123"), round: 1, broadcast: true}
	quiet := &out.Sink{Hist: map[string]int{}, Distinct: map[string]struct{}{}, Extra: map[string]interface{}{}}
	_ = quiet
	found := 0
	for k := 0; k < trials && found < 3; k++ {
		n := 3 + k%2
		ids := []uint16{0, 1, 2, 3}[:n]
		rv := map[uint16]*recv{}
		for _, id := range ids[1:] {
			rv[id] = newRecv(id, n)
		}
		fifo := k%3 != 0
		var net []flight
		var hist []string
		handed := map[uint16]string{}
		moves := 2 + r.Intn(5)
		for step := 0; step < 40 && (moves > 0 || len(net) > 0); step++ {
			if moves > 0 && (len(net) == 0 || r.Intn(2) == 0) {
				moves--
				victim := ids[1+r.Intn(n-1)]
				pl := A
				if r.Bool() {
					pl = B
				}
				var m *hmsg
				if r.Intn(3) == 0 {
					m = &hmsg{isAck: true, digest: pl.digest, ackSender: 0, round: 1}
				} else {
					m = pl
				}
				net = append(net, flight{to: victim, from: 0, m: m})
				continue
			}
			i := r.Intn(len(net))
			if fifo {
				// the oldest message of a randomly chosen link
				link := [2]uint16{net[i].from, net[i].to}
				for j := range net {
					if [2]uint16{net[j].from, net[j].to} == link {
						i = j
						break
					}
				}
			}
			f := net[i]
			net = append(net[:i:i], net[i+1:]...)
			ans := rv[f.to].step(f.m, f.from)
			hist = append(hist, opLine(int(f.to), f.m, f.from))
			for _, ev := range strings.Split(ans, " ; ") {
				f2 := strings.Fields(ev)
				switch {
				case len(f2) == 4 && f2[0] == "ack":
					var d []byte
					fmt.Sscanf(f2[1], "%x", &d)
					for _, q := range ids[1:] {
						if q != f.to {
							net = append(net, flight{to: q, from: f.to, m: &hmsg{isAck: true, digest: d, ackSender: 0, round: 1}})
						}
					}
				case len(f2) == 4 && f2[0] == "deliver" && f2[3] == "b":
					for q, other := range handed {
						if q != f.to && other != f2[1] {
							found++
							s.Violate("C02", fmt.Sprintf("honest parties %d and %d handed different payloads (%s vs %s) of sender 0 round 1 to their backends", q, f.to, other, f2[1]),
								fmt.Sprintf("N=%d, corrupted sender 0, fifo=%v; operations in order (rbc <party> ...):\n%s", n, fifo, strings.Join(hist, "\n")))
						}
					}
					handed[f.to] = f2[1]
				}
			}
		}
	}
	s.Count("adversary-search-trials")
	s.N += trials
	s.Extra["adversary_search_trials"] = trials
}
