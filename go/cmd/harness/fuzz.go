package main

import (
	"context"
	"encoding/asn1"
	"fmt"
	"time"

	disc "github.com/IBM/TSS/disc"
	"github.com/IBM/TSS/mpc/bls"
	"github.com/IBM/TSS/mpc/ps"
	"github.com/IBM/TSS/threshold"
	tss "github.com/IBM/TSS/types"
	math "github.com/IBM/mathlib"

	"verif/internal/out"
	"verif/internal/prng"
)

func init() { components["fuzz"] = runFuzz }

// guarded runs f, reporting a panic or a hang (no return within the limit) as C10 violations.
func guarded(s *out.Sink, kind, replay string, f func()) {
	s.Count(kind)
	s.N++
	s.Distinct[kind+"|"+replay] = struct{}{}
	if len(s.Samples) < 14 && s.Hist[kind] <= 1 {
		s.Samples = append(s.Samples, kind+": "+trunc(replay, 160))
	}
	done := make(chan string, 1)
	go func() {
		done <- safely(func() string { f(); return "" })
	}()
	select {
	case r := <-done:
		if r == "panic" {
			s.Violate("C10", kind+" panics", replay)
		}
	case <-time.After(5 * time.Second):
		s.Violate("C10", kind+" does not return (blocked for 5 s)", replay)
	}
}

func trunc(x string, n int) string {
	if len(x) > n {
		return x[:n] + "…"
	}
	return x
}

// mutations of a byte string: truncations, extension, bit flips, first-byte variants, emptiness.
func mutations(r *prng.R, b []byte, dense bool) [][]byte {
	var res [][]byte
	res = append(res, b, nil, []byte{}, []byte{0}, []byte{255})
	step := 1
	if !dense && len(b) > 48 {
		step = len(b)/48 + 1
	}
	for l := 0; l < len(b); l += step {
		res = append(res, b[:l])
	}
	for _, l := range []int{1, 2, 3, 7, 8, 31, 32, 33} {
		if l < len(b) {
			res = append(res, b[:l])
		}
	}
	res = append(res, append(append([]byte{}, b...), r.Bytes(1+r.Intn(5))...))
	for k := 0; k < 12; k++ {
		if len(b) == 0 {
			break
		}
		c := append([]byte{}, b...)
		c[r.Intn(len(c))] ^= byte(1 << uint(r.Intn(8)))
		res = append(res, c)
	}
	for _, fb := range []byte{0, 1, 2, 3, 4, 127, 128, 255} {
		if len(b) > 0 {
			c := append([]byte{}, b...)
			c[0] = fb
			res = append(res, c)
		}
	}
	res = append(res, r.Bytes(r.Intn(64)))
	return res
}

func runFuzz(r *prng.R, s *out.Sink, tier string) {
	dense := tier == "thorough"
	fuzzDispatcher(r, s, dense)
	fuzzDisc(r, s, dense)
	fuzzBackends(r, s, dense)
	fuzzPSObjects(r, s, dense)
	fuzzBLSVerifier(r, s, dense)
	fuzzSilentQuota(r, s)
}

// fuzzSilentQuota: a silent-mode node (message buffer in front of the dispatcher) whose peer 2 exceeds every quota of the
// buffer with well-formed traffic — more distinct not-yet-started topics than a sender may have in flight, then more
// messages on one topic than a sender may buffer. Excess traffic is shed; the node goes on serving: a message of another
// peer and the node's own first send on one of the topics return.
func fuzzSilentQuota(r *prng.R, s *out.Sink) {
	ids := []uint16{1, 2, 3}
	membership := identityMembership(ids)
	kgf, sf := factories("bls", 0)
	node := threshold.SilentScheme(1, nopLogger{}, kgf, sf, 1, func(uint8, []byte, []byte, ...uint16) {},
		func() map[tss.UniversalID]tss.PartyID { return membership }, func(topic []byte, expected int) []uint16 { return ids[:expected] })
	payload := frame(1, 1, []byte{9, 9})
	topic := func(i int) []byte { return sha([]byte(fmt.Sprintf("quota-topic-%d", i))) }
	hang := false
	step := func(kind, what string, f func()) {
		if hang {
			return
		}
		before := len(s.Monitor)
		guarded(s, kind, what, f)
		if len(s.Monitor) > before {
			hang = true
		}
	}
	step("silent/topic-quota-flood", "peer 2: one message on each of 10 010 distinct topics", func() {
		for i := 0; i < 10010; i++ {
			node.HandleMessage(&tss.IncMessage{Data: payload, Source: 2, MsgType: uint8(tss.MsgTypeMPC), Topic: topic(i)})
		}
	})
	step("silent/after-topic-quota/other-peer", "peer 3: one message after peer 2 exceeded its topic quota", func() {
		node.HandleMessage(&tss.IncMessage{Data: payload, Source: 3, MsgType: uint8(tss.MsgTypeMPC), Topic: topic(5)})
	})
	step("silent/message-quota-flood", "peer 3: 300 messages on one topic", func() {
		for i := 0; i < 300; i++ {
			node.HandleMessage(&tss.IncMessage{Data: payload, Source: 3, MsgType: uint8(tss.MsgTypeMPC), Topic: topic(7)})
		}
	})
	step("silent/after-quotas/sign", "the node's own Sign on a fresh topic after both floods (its pre-signing traffic goes through the buffer's Send)", func() {
		ctx, cancel := context.WithTimeout(context.Background(), 300*time.Millisecond)
		defer cancel()
		node.Sign(ctx, sha([]byte("m")), "quota-own-topic")
	})
	step("silent/after-quotas/other-peer", "peer 2: one more message after everything", func() {
		node.HandleMessage(&tss.IncMessage{Data: payload, Source: 2, MsgType: uint8(tss.MsgTypeMPC), Topic: topic(20000)})
	})
}

// ---- A: Scheme.HandleMessage in every session state ------------------------------------------------

func fuzzDispatcher(r *prng.R, s *out.Sink, dense bool) {
	ids := []uint16{1, 2, 3}
	dkgTopic := sha([]byte("DKG"))
	topics := [][]byte{dkgTopic, nil, {}, {1}, r.Bytes(3), r.Bytes(4), r.Bytes(7), r.Bytes(8), r.Bytes(31), r.Bytes(32), r.Bytes(33), dkgTopic[:7], dkgTopic[:3]}
	payload := frame(1, 1, []byte{9, 9})
	ack := threshold.VerifNewRBCEncoding(string(sha(payload[1:])), 2, 1)
	shortAck := threshold.VerifNewRBCEncoding("x", 2, 1)
	var datas [][]byte
	datas = append(datas, mutations(r, payload, dense)...)
	datas = append(datas, mutations(r, ack, dense)...)
	datas = append(datas, shortAck, []byte{255}, []byte{0, 0, 0}, []byte{0, 0, 0, 0})
	feed := func(state string, hm func(*tss.IncMessage)) {
		for _, mt := range []uint8{0, 1, 2, 3, 255} {
			for ti, topic := range topics {
				for di, data := range datas {
					if !dense && (ti*7+di*3+int(mt))%5 != 0 && !(ti == 0 && mt == 2) {
						continue
					}
					// any source but the node itself (id 1): the transport never attributes a message to the node's own identity
					// (C16), and the receiver treats an acknowledgement from itself as a programming error (explicit panic,
					// Model/Rbc `receive`: hypothesis `src ≠ self` of C03 never_panics / C10 dispatcher_total)
					src := []uint16{2, 3, 4, 65535, 0}[r.Intn(5)]
					m := &tss.IncMessage{Data: data, Source: src, MsgType: mt, Topic: topic}
					guarded(s, "dispatcher/"+state, fmt.Sprintf("state=%s type=%d topic=%s data=%s src=%d", state, mt, out.Hex(topic), out.Hex(data), src),
						func() { hm(m) })
				}
			}
		}
	}
	// idle: a scheme that never ran a session (tables not even created)
	membership := map[tss.UniversalID]tss.PartyID{1: 1, 2: 2, 3: 3}
	idle := newSchemeRig(1, 2, membership, fixedSyncFactory(ids), false)
	feed("idle-never-used", idle.scheme.HandleMessage)
	// silent mode: the same with the message buffer in front of the dispatcher, idle and with a signing session open
	{
		kgf, sf := factories("bls-hello", 0)
		m2 := identityMembership(ids)
		silent := threshold.SilentScheme(1, nopLogger{}, kgf, sf, 2, func(uint8, []byte, []byte, ...uint16) {},
			func() map[tss.UniversalID]tss.PartyID { return m2 }, func(topic []byte, expected int) []uint16 { return ids[:expected] })
		feed("silent/idle", silent.HandleMessage)
		ctx, cancel := context.WithCancel(context.Background())
		go silent.Sign(ctx, sha([]byte("m")), "DKG") // (its topic hash is the one the fuzz inputs use most)
		time.Sleep(20 * time.Millisecond)
		feed("silent/signing", silent.HandleMessage)
		cancel()
	}
	// protocol running
	ds, err := openDispSession(1, ids, false)
	if err != nil {
		s.Violate("C10", "could not open a session: "+err.Error(), "")
		return
	}
	feed("protocol-running", ds.rg.scheme.HandleMessage)
	ds.close()
	feed("finished", ds.rg.scheme.HandleMessage)
	// synchronising: KeyGen blocked in the first synchronisation
	blocked := newSchemeRig(1, 2, membership, func(members []uint16, _ func([]byte), _ func([]byte, uint16)) tss.Synchronizer {
		return &scriptedSync{members: func([]byte, int) []uint16 { return nil }}
	}, false)
	ctx, cancel := context.WithCancel(context.Background())
	doneCh := make(chan struct{})
	go func() { blocked.scheme.KeyGen(ctx, 3, 2); close(doneCh) }()
	time.Sleep(5 * time.Millisecond)
	feed("synchronising", blocked.scheme.HandleMessage)
	cancel()
	<-doneCh
}

// ---- C: disc.Member.HandleMessage -------------------------------------------------------------------

func fuzzDisc(r *prng.R, s *out.Sink, dense bool) {
	members := []uint16{1, 2, 3, 300, 65535}
	topic := r.Bytes(32)
	mk := func() *disc.Member {
		return &disc.Member{Membership: members, ID: 1, Logger: nopLogger{}, Broadcast: func([]byte) {}, Send: func([]byte, uint16) {}}
	}
	var valid [][2]interface{}
	for _, from := range members[1:] {
		tag := string(disc.VerifPRF(topic, from))
		for mt := uint8(1); mt <= 3; mt++ {
			valid = append(valid, [2]interface{}{from, disc.VerifEncodeTagAndMembershipList(mt, tag, []uint16{1, from})})
			valid = append(valid, [2]interface{}{from, disc.VerifEncodeTagAndMembershipList(mt, tag, nil)})
		}
	}
	feed := func(state string, m *disc.Member) {
		for _, v := range valid {
			from := v[0].(uint16)
			for _, data := range mutations(r, v[1].([]byte), dense) {
				for _, f := range []uint16{from, 2, 1, 9999} {
					guarded(s, "disc/"+state, fmt.Sprintf("state=%s from=%d data=%s", state, f, out.Hex(data)), func() { m.HandleMessage(f, data) })
				}
			}
		}
		// responses from every member, many times: the response queue must never block the handler
		for k := 0; k < 30; k++ {
			for _, from := range members[1:] {
				tag := string(disc.VerifPRF(topic, from))
				data := disc.VerifEncodeTagAndMembershipList(3, tag, []uint16{1, 2, 3})
				guarded(s, "disc/"+state+"/response-burst", fmt.Sprintf("state=%s from=%d response #%d", state, from, k), func() { m.HandleMessage(from, data) })
			}
		}
	}
	feed("idle", mk())
	m := mk()
	ctx, cancel := context.WithCancel(context.Background())
	fin := make(chan struct{})
	go func() {
		m.Synchronize(ctx, func([]uint16) {}, topic, 3, time.Millisecond)
		close(fin)
	}()
	time.Sleep(3 * time.Millisecond)
	feed("synchronising", m)
	cancel()
	<-fin
	feed("finished", m)
}

// ---- D: built-in DKG backends: ClassifyMsg / OnMsg with captured and mutated messages ---------------

func fuzzBackends(r *prng.R, s *out.Sink, dense bool) {
	for _, kind := range []string{"bls", "ps"} {
		parties := []uint16{1, 2, 3}
		d := newDkgRun(kind, parties, 2, 2)
		d.run(r.Fork(), parties, 20*time.Second)
		for _, id := range parties {
			if d.errs[id] != nil {
				s.Violate("C10", fmt.Sprintf("honest %s DKG failed: %v", kind, d.errs[id]), "")
			}
		}
		// one message of every type seen
		seen := map[byte]wireMsg{}
		for _, m := range d.sentLog {
			if len(m.data) > 0 {
				if _, ok := seen[m.data[0]]; !ok {
					seen[m.data[0]] = m
				}
			}
		}
		states := map[string]tss.KeyGenerator{}
		fresh := newBackend(kind, 1, 2)
		fresh.Init(parties, 2, func([]byte, bool, uint16) {})
		states["initialised"] = fresh
		states["finished"] = d.backs[1]
		for state, b := range states {
			for _, m := range seen {
				for _, data := range mutations(r, m.data, dense) {
					data := data
					guarded(s, kind+"/classify", "data="+out.Hex(data), func() { b.ClassifyMsg(data) })
					if len(data) == 0 {
						// the dispatcher never forwards a payload its classifier rejected; empty payloads are rejected
					}
					guarded(s, kind+"/onmsg/"+state, fmt.Sprintf("state=%s from=%d data=%s", state, m.from, out.Hex(data)),
						func() { b.OnMsg(data, m.from, m.bcast) })
				}
			}
		}
		// a running DKG in which party 3 sends mutated messages: the honest parties' KeyGen must return
		// (a result or an error) and nothing may panic in their goroutines
		rounds := 6
		if dense {
			rounds = 40
		}
		for k := 0; k < rounds; k++ {
			d2 := newDkgRun(kind, parties, 2, 2)
			rr := r.Fork()
			d2.tamper = func(m wireMsg) []wireMsg {
				if m.from != 3 || rr.Intn(2) == 0 {
					return []wireMsg{m}
				}
				muts := mutations(rr, m.data, false)
				m.data = muts[rr.Intn(len(muts))]
				if len(m.data) == 0 {
					return nil
				}
				if _, _, err := d2.backs[m.to].ClassifyMsg(m.data); err != nil {
					return nil // the dispatcher would have dropped it
				}
				return []wireMsg{m}
			}
			s.Count(kind + "/dkg-with-mutating-participant")
			s.N++
			d2.run(r.Fork(), []uint16{1, 2}, 600*time.Millisecond)
		}
	}
}

// ---- E: PS signing requests, proofs, keys ------------------------------------------------------------

type psFixture struct {
	tpk      []byte
	shares   map[uint16][]byte
	request  []byte
	secret   *ps.UnblindingSecret
	proof    []byte
	parties  []uint16
	msgLen   int
	signer   func(id uint16) *ps.TPS
	prover   *ps.Prover
	partials map[uint16][]byte
}

func buildPSFixture(r *prng.R, n, t, msgLen int) (*psFixture, error) {
	parties := make([]uint16, n)
	for i := range parties {
		parties[i] = uint16(i + 1)
	}
	d := newDkgRun("ps", parties, t, msgLen)
	d.run(r.Fork(), parties, 60*time.Second)
	fx := &psFixture{shares: map[uint16][]byte{}, parties: parties, msgLen: msgLen, partials: map[uint16][]byte{}}
	for _, id := range parties {
		if d.errs[id] != nil {
			return nil, fmt.Errorf("DKG failed at %d: %v", id, d.errs[id])
		}
		fx.shares[id] = d.results[id]
	}
	tpk, err := d.backs[1].(*ps.TPS).ThresholdPK()
	if err != nil {
		return nil, err
	}
	fx.tpk = tpk
	fx.signer = func(id uint16) *ps.TPS {
		p := &ps.TPS{Party: id, Logger: nopLogger{}, Curve: math.Curves[1], MessageLength: msgLen}
		p.Init(parties, t, func([]byte, bool, uint16) {})
		if err := p.SetShareData(fx.shares[id]); err != nil {
			panic(err)
		}
		return p
	}
	fx.prover = &ps.Prover{Logger: nopLogger{}}
	if err := fx.prover.Init(math.Curves[1], msgLen, tpk, parties); err != nil {
		return nil, err
	}
	msg := make([][]byte, msgLen)
	for i := range msg {
		msg[i] = r.Bytes(r.Intn(20))
	}
	req, secret := fx.prover.Blind(msg)
	fx.request = req.Bytes()
	fx.secret = &secret
	var signers []uint16
	var wits []ps.SignatureWitness
	for _, id := range parties[:t] {
		sig, err := fx.signer(id).Sign(context.Background(), fx.request)
		if err != nil {
			return nil, fmt.Errorf("honest Sign failed: %v", err)
		}
		fx.partials[id] = sig
		w, err := fx.prover.UnBlind(id, sig, fx.secret)
		if err != nil {
			return nil, fmt.Errorf("honest UnBlind failed: %v", err)
		}
		signers = append(signers, id)
		wits = append(wits, w)
	}
	proof := fx.prover.ProveKnowledgeOfSignature(fx.secret, signers, wits)
	fx.proof = proof.Bytes()
	return fx, nil
}

func remarshal(v interface{}) []byte {
	b, err := asn1.Marshal(v)
	if err != nil {
		return nil
	}
	return b
}

func fuzzPSObjects(r *prng.R, s *out.Sink, dense bool) {
	fx, err := buildPSFixture(r, 3, 2, 2)
	if err != nil {
		s.Violate("C10", "could not build PS objects: "+err.Error(), "")
		return
	}
	signer := fx.signer(1)
	var v ps.Verifier
	if err := v.Init(math.Curves[1], fx.msgLen, fx.tpk); err != nil {
		s.Violate("C10", "Verifier.Init failed on honest key: "+err.Error(), "")
		return
	}
	// byte-level mutations
	for _, req := range mutations(r, fx.request, dense) {
		req := req
		guarded(s, "ps/TPS.Sign", "request="+trunc(out.Hex(req), 400), func() { signer.Sign(context.Background(), req) })
	}
	// the prover gets partial blind signatures from the signers: mutated ones must be refused, not crash it
	if part, err := signer.Sign(context.Background(), fx.request); err == nil {
		for _, x := range mutations(r, part, dense) {
			x := x
			guarded(s, "ps/Prover.UnBlind", "partial="+trunc(out.Hex(x), 400), func() { fx.prover.UnBlind(1, x, fx.secret) })
		}
	}
	for _, pr := range mutations(r, fx.proof, dense) {
		pr := pr
		guarded(s, "ps/Verifier.Verify", "proof="+trunc(out.Hex(pr), 400), func() { v.Verify(pr) })
	}
	for _, k := range mutations(r, fx.tpk, dense) {
		k := k
		guarded(s, "ps/Verifier.Init", "tpk="+trunc(out.Hex(k), 400), func() {
			var v2 ps.Verifier
			if v2.Init(math.Curves[1], fx.msgLen, k) == nil {
				v2.Verify(fx.proof)
			}
		})
	}
	// structural mutations: well-formed ASN.1 with lists of the wrong length / nil / unparsable elements
	var raw ps.RawBlindSignature
	asn1.Unmarshal(fx.request, &raw)
	var rawProof ps.RawBlindCorrectProof
	asn1.Unmarshal(raw.CorrectFormProof, &rawProof)
	cut := func(l [][]byte, n int) [][]byte {
		if n > len(l) {
			return append(append([][]byte{}, l...), l[0])
		}
		return append([][]byte{}, l[:n]...)
	}
	junk := func(l [][]byte) [][]byte {
		c := append([][]byte{}, l...)
		c[r.Intn(len(c))] = r.Bytes(r.Intn(40))
		return c
	}
	n := len(raw.A)
	for k := 0; k <= n+1; k++ {
		for field := 0; field < 6; field++ {
			rp := rawProof
			rq := raw
			switch field {
			case 0:
				rq.A = cut(raw.A, k)
			case 1:
				rq.B = cut(raw.B, k)
			case 2:
				rp.X = cut(rawProof.X, k)
			case 3:
				rp.Y = cut(rawProof.Y, k)
			case 4:
				rp.D = cut(rawProof.D, k)
			case 5:
				rp.F = cut(rawProof.F, k)
			}
			rq.CorrectFormProof = remarshal(rp)
			req := remarshal(rq)
			guarded(s, "ps/TPS.Sign/structural", fmt.Sprintf("field=%d length=%d of %d", field, k, n), func() { signer.Sign(context.Background(), req) })
		}
	}
	for k := 0; k < 12; k++ {
		rp := rawProof
		rq := raw
		switch k % 6 {
		case 0:
			rq.A = junk(raw.A)
		case 1:
			rq.B = junk(raw.B)
		case 2:
			rp.D = junk(rawProof.D)
		case 3:
			rp.F = junk(rawProof.F)
		case 4:
			rq.CM = r.Bytes(r.Intn(70))
		case 5:
			rq.U = nil
		}
		rq.CorrectFormProof = remarshal(rp)
		req := remarshal(rq)
		guarded(s, "ps/TPS.Sign/structural", fmt.Sprintf("junk element variant %d", k%6), func() { signer.Sign(context.Background(), req) })
	}
	var rawPok ps.RawSigPok
	asn1.Unmarshal(fx.proof, &rawPok)
	for k := 0; k <= 6; k++ {
		rp := rawPok
		rp.Data = cut(rawPok.Data, k)
		pr := remarshal(rp)
		guarded(s, "ps/Verifier.Verify/structural", fmt.Sprintf("Data length %d of 5", k), func() { v.Verify(pr) })
	}
	var rawPsi ps.RawPoKofSignaturePoCorrectForm
	asn1.Unmarshal(rawPok.Data[0], &rawPsi)
	for k := 0; k <= len(rawPsi.X)+2; k++ {
		rpsi := rawPsi
		if k <= len(rawPsi.X) {
			rpsi.X = cut(rawPsi.X, k)
		} else {
			rpsi.X = append(append([][]byte{}, rawPsi.X...), rawPsi.X[0], rawPsi.X[0])
		}
		rp := rawPok
		rp.Data = append([][]byte{remarshal(rpsi)}, rawPok.Data[1:]...)
		pr := remarshal(rp)
		guarded(s, "ps/Verifier.Verify/structural", fmt.Sprintf("psi.X length %d (key has %d)", len(rpsi.X), len(rawPsi.X)), func() { v.Verify(pr) })
	}
}

// ---- bls.Verifier ---------------------------------------------------------------------------------------

func fuzzBLSVerifier(r *prng.R, s *out.Sink, dense bool) {
	parties := []uint16{1, 2, 3}
	d := newDkgRun("bls", parties, 2, 0)
	d.run(r.Fork(), parties, 20*time.Second)
	if d.errs[1] != nil {
		s.Violate("C10", "honest BLS DKG failed: "+d.errs[1].Error(), "")
		return
	}
	t1 := &bls.TBLS{Party: 1, Logger: nopLogger{}}
	t1.Init(parties, 2, func([]byte, bool, uint16) {})
	t1.SetShareData(d.results[1])
	pp, _ := t1.ThresholdPK()
	digest := sha([]byte("m"))
	sig, _ := t1.Sign(context.Background(), digest)
	for _, k := range mutations(r, pp, dense) {
		k := k
		guarded(s, "bls/Verifier.Init", "pp="+trunc(out.Hex(k), 300), func() {
			var v bls.Verifier
			if v.Init(k) == nil {
				v.Verify(digest, sig)
			}
		})
	}
	var v bls.Verifier
	v.Init(pp)
	for _, x := range mutations(r, sig, dense) {
		x := x
		guarded(s, "bls/Verifier.Verify", "sig="+out.Hex(x), func() { v.Verify(digest, x) })
		guarded(s, "bls/Verifier.Verify", "digest="+out.Hex(x), func() { v.Verify(x, sig) })
	}
	// the combiner gets partial signatures from peers: mutated shares, signer lists that do not fit
	t2 := &bls.TBLS{Party: 2, Logger: nopLogger{}}
	t2.Init(parties, 2, func([]byte, bool, uint16) {})
	t2.SetShareData(d.results[2])
	sig2, _ := t2.Sign(context.Background(), digest)
	for _, x := range mutations(r, sig, dense) {
		x := x
		guarded(s, "bls/Verifier.AggregateSignatures", "share="+out.Hex(x), func() {
			if agg, err := v.AggregateSignatures([][]byte{x, sig2}, []uint16{1, 2}); err == nil {
				v.Verify(digest, agg)
			}
		})
	}
	// (the signer list is the local caller's argument, not peer input: lists that do not fit the shares are a local
	// precondition and outside this property)
	for _, sd := range mutations(r, d.results[1], dense) {
		sd := sd
		guarded(s, "bls/SetShareData", "data="+trunc(out.Hex(sd), 300), func() {
			t := &bls.TBLS{Party: 1, Logger: nopLogger{}}
			t.Init(parties, 2, func([]byte, bool, uint16) {})
			if t.SetShareData(sd) == nil {
				t.Sign(context.Background(), digest)
				t.ThresholdPK()
			}
		})
	}
}
