package main

// Component "frame": the transport's framing and sending side (net/net.go remoteParty.send, readMsg, handleConn,
// SocketRemoteParties.Send, sendMessages), property C17.
//
//  1. enc: the real writer (remoteParty.send on a real TLS connection) against Model/Net.lean encodeFrame, byte for
//     byte for small frames; header + SHA-256 of the payload for large ones.
//  2. read: the real readMsg on model-shaped and broken streams, delivered in arbitrary chunks, against the model's
//     readMsg; every boundary size around the limit by header.
//  3. live: four real parties on loopback TLS; 1-8 goroutines sending concurrently to all; each peer in turn down,
//     stalled or garbling; monitors: per sending goroutine and receiver exactly once, unmodified, in order; the
//     process survives; traffic among the healthy peers completes; a send to a dead peer with a full queue is dropped
//     after its time-out (recorded failure F28: it used to panic).

import (
	"bytes"
	"crypto/rand"
	"crypto/sha256"
	"crypto/tls"
	"crypto/x509"
	"encoding/binary"
	"encoding/hex"
	"fmt"
	"io"
	"net"
	"runtime"
	"strings"
	"sync"
	"sync/atomic"
	"syscall"
	"time"

	tssnet "github.com/IBM/TSS/net"
	"github.com/IBM/TSS/testutil/tlsgen"

	"verif/internal/out"
	"verif/internal/prng"
)

func init() { components["frame"] = runFrame }

// chunkConn is a net.Conn that serves a byte string in arbitrary chunks and then reports EOF
type chunkConn struct {
	net.Conn
	data []byte
	r    *prng.R
}

func (c *chunkConn) Read(p []byte) (int, error) {
	if len(c.data) == 0 {
		return 0, io.EOF
	}
	n := 1 + c.r.Intn(len(p))
	if n > len(c.data) {
		n = len(c.data)
	}
	if n > len(p) {
		n = len(p)
	}
	copy(p, c.data[:n])
	c.data = c.data[n:]
	return n, nil
}
func (c *chunkConn) RemoteAddr() net.Addr { return &net.TCPAddr{IP: net.IPv4(127, 0, 0, 1), Port: 1} }

// zeroConn serves a header followed by `have` zero bytes without materialising them
type zeroConn struct {
	net.Conn
	hdr  []byte
	have int
}

func (c *zeroConn) Read(p []byte) (int, error) {
	if len(c.hdr) > 0 {
		n := copy(p, c.hdr)
		c.hdr = c.hdr[n:]
		return n, nil
	}
	if c.have == 0 {
		return 0, io.EOF
	}
	n := len(p)
	if n > c.have {
		n = c.have
	}
	for i := 0; i < n; i++ {
		p[i] = 0
	}
	c.have -= n
	return n, nil
}
func (c *zeroConn) RemoteAddr() net.Addr { return &net.TCPAddr{IP: net.IPv4(127, 0, 0, 1), Port: 1} }

func runFrame(r *prng.R, s *out.Sink, tier string) {
	frameEnc(r.Fork(), s, tier)
	frameRead(r.Fork(), s, tier)
	frameLive(r.Fork(), s, tier)
}

func legalFrame(r *prng.R, size int) (uint8, []byte, []byte) {
	ty := []uint8{0, 1, 2, 3, 4, 255}[r.Intn(6)]
	var topic []byte
	if ty == 1 || ty == 2 {
		topic = r.Bytes(32)
	}
	return ty, topic, r.Bytes(size)
}

func frameEnc(r *prng.R, s *out.Sink, tier string) {
	rig := newTLSRig()
	defer rig.lsn.Close()
	cli, srv := rig.pair()
	defer func() { cli.Close(); srv.Close() }()
	n := 150
	sizes := []int{0, 1, 31, 32, 33, 255, 256, 1000}
	big := []int{65535, 65536, 1 << 20}
	if tier == "thorough" {
		n = 1500
		big = append(big, tssnet.VerifMaxBuffLen-1, tssnet.VerifMaxBuffLen)
	}
	// boundary lengths: every payload length within reach of a power of two (the header is 5 bytes, a topic 32: sums that
	// cross a power of two are what buffer and record sizes are made of), with and without a topic
	var sweep [][2]int // (size, 1 = with topic / 0 = without)
	maxPow := 17
	if tier == "thorough" {
		maxPow = 21
	}
	for k := 5; k <= maxPow; k++ {
		for d := -45; d <= 5; d++ {
			if l := (1 << uint(k)) + d; l >= 0 {
				sweep = append(sweep, [2]int{l, 0}, [2]int{l, 1})
			}
		}
	}
	total := n + len(big) + len(sweep)
	for i := 0; i < total; i++ {
		size := sizes[r.Intn(len(sizes))]
		if r.Intn(3) == 0 {
			size = r.Intn(600)
		}
		if r.Intn(8) == 0 { // log-uniform up to 256 KiB
			size = r.Intn(1 << uint(3+r.Intn(16)))
		}
		if i >= n && i < n+len(big) {
			size = big[i-n]
		}
		ty, topic, data := legalFrame(r, size)
		if i >= n+len(big) {
			sw := sweep[i-n-len(big)]
			data = r.Bytes(sw[0])
			if sw[1] == 1 {
				ty, topic = 2, r.Bytes(32)
			} else {
				ty, topic = 0, nil
			}
			size = sw[0]
			s.Distinct[fmt.Sprintf("boundary length %d topic %d", sw[0], sw[1])] = struct{}{}
		}
		want := 5 + len(topic) + len(data)
		got := make([]byte, want)
		done := make(chan error, 1)
		srv.SetReadDeadline(time.Now().Add(10 * time.Second))
		go func() { _, err := io.ReadFull(srv, got); done <- err }()
		res := safely(func() string {
			tssnet.VerifSendFrame(cli, func(string, ...interface{}) {}, ty, topic, data)
			return ""
		})
		what := fmt.Sprintf("type %d topic %d bytes data %d bytes", ty, len(topic), len(data))
		if res == "panic" {
			s.Violate("C17", "remoteParty.send panics on a legal frame", what)
			return
		}
		if err := <-done; err != nil {
			s.Violate("C17", fmt.Sprintf("the bytes of a legal frame (%s) did not arrive: %v", what, err), what)
			// the stream is out of step: a fresh connection for the rest
			cli.Close()
			srv.Close()
			cli, srv = rig.pair()
			continue
		}
		if size <= 1000 {
			s.Op(fmt.Sprintf("enc/type-%d", ty), true, fmt.Sprintf("net enc %d %s %s", ty, out.Hex(topic), out.Hex(data)), out.Hex(got))
		} else {
			// header and topic against the model, payload by digest
			s.Op("enc/large", true, fmt.Sprintf("net enchdr %d %s %d", ty, out.Hex(topic), len(data)), out.Hex(got[:5+len(topic)]))
			if sha256.Sum256(got[5+len(topic):]) != sha256.Sum256(data) {
				s.Violate("C17", fmt.Sprintf("payload of a frame (%s) modified in transit", what), what)
			}
		}
	}
	// the writer's own refusals: a topic that is neither empty nor 32 bytes
	for _, tl := range []int{1, 31, 33, 64} {
		res := safely(func() string {
			tssnet.VerifSendFrame(cli, func(string, ...interface{}) {}, 2, make([]byte, tl), []byte{1})
			return "written"
		})
		s.Op("enc/illegal-topic-length", true, fmt.Sprintf("net enc 2 %s 01", strings.Repeat("00", tl)), map[string]string{"panic": "panic", "written": "written"}[res])
	}
}

func realRead(stream []byte, r *prng.R) string {
	c := &chunkConn{data: stream, r: r}
	var ty uint8
	var topic, data []byte
	var err error
	res := safely(func() string { ty, topic, data, err = tssnet.VerifReadMsg(c); return "" })
	switch {
	case res == "panic":
		return "panic"
	case err == nil:
		return fmt.Sprintf("ok %d %s %s rest=%d", ty, out.Hex(topic), out.Hex(data), len(c.data))
	case strings.Contains(err.Error(), "buffer length too big"):
		return "toobig"
	default:
		return "short"
	}
}

func frameRead(r *prng.R, s *out.Sink, tier string) {
	n := 600
	if tier == "thorough" {
		n = 8000
	}
	enc := func(ty uint8, topic, data []byte) []byte {
		h := make([]byte, 5)
		h[0] = ty
		binary.LittleEndian.PutUint32(h[1:], uint32(len(data)))
		return append(append(h, topic...), data...)
	}
	for i := 0; i < n; i++ {
		var stream []byte
		what := "well-formed"
		ty, topic, data := legalFrame(r, []int{0, 1, 31, 32, 33, 100, 255, 256}[r.Intn(8)])
		stream = enc(ty, topic, data)
		switch r.Intn(10) {
		case 0:
			stream = stream[:r.Intn(len(stream)+1)]
			what = "truncated"
		case 1:
			stream = r.Bytes(r.Intn(60))
			what = "random"
		case 2: // type with topic but none sent / type without topic but one sent (what an illegal combination looks like on the wire)
			if ty == 1 || ty == 2 {
				stream = enc(ty, nil, data)
			} else {
				stream = enc(ty, r.Bytes(32), data)
			}
			what = "illegal-combination"
		case 3:
			binary.LittleEndian.PutUint32(stream[1:], uint32(tssnet.VerifMaxBuffLen+1+r.Intn(1000)))
			what = "announces-too-much"
		case 4:
			binary.LittleEndian.PutUint32(stream[1:], 0xffffffff-uint32(r.Intn(3)))
			what = "announces-4GiB"
		}
		if r.Intn(2) == 0 { // more frames follow
			t2, tp2, d2 := legalFrame(r, r.Intn(40))
			stream = append(stream, enc(t2, tp2, d2)...)
		}
		if len(stream) == 0 {
			s.Op("read/"+what, true, "net read -", realRead(nil, r))
			continue
		}
		ans := realRead(append([]byte{}, stream...), r)
		if ans == "panic" {
			s.Violate("C17", "readMsg panics on a broken frame", out.Hex(stream))
			s.Violate("C10", "net.readMsg panics", out.Hex(stream))
		}
		s.Op("read/"+what, true, "net read "+out.Hex(stream), ans)
	}
	// boundary sizes by header only
	lim := tssnet.VerifMaxBuffLen
	for _, ty := range []uint8{0, 1, 2, 3} {
		for _, l := range []int{0, 1, 65535, 65536, 1 << 20, lim - 1, lim, lim + 1, lim + 2, 1 << 25, 1<<32 - 1} {
			for _, have := range []int{0, 31, 32, 33} {
				if tier != "thorough" && l > 1<<20 && l <= lim && have != 32 {
					// most of the full-size reads (20 MiB each) are left to the thorough tier
					continue
				}
				hv := have
				if l <= lim && (r.Intn(2) == 0 || l > 1<<20) {
					hv = l + have // enough for the payload (and the topic, when have >= 32)
				}
				hdr := make([]byte, 5)
				hdr[0] = ty
				binary.LittleEndian.PutUint32(hdr[1:], uint32(l))
				c := &zeroConn{hdr: hdr, have: hv}
				var topic, data []byte
				var err error
				res := safely(func() string { _, topic, data, err = tssnet.VerifReadMsg(c); return "" })
				ans := ""
				switch {
				case res == "panic":
					ans = "panic"
					s.Violate("C17", "readMsg panics", fmt.Sprintf("type %d announces %d, %d bytes follow", ty, l, hv))
				case err == nil:
					ans = fmt.Sprintf("ok topic=%d data=%d rest=%d", len(topic), len(data), c.have)
				case strings.Contains(err.Error(), "buffer length too big"):
					ans = "toobig"
				default:
					ans = "short"
				}
				s.Op("read/boundary", true, fmt.Sprintf("net hdr %d %d %d", ty, l, hv), ans)
			}
		}
	}
}

// ---------------------------------------------------------------------------------------------------

type liveLogger struct{ warns int64 }

func (l *liveLogger) DebugEnabled() bool               { return false }
func (l *liveLogger) Debugf(string, ...interface{})    {}
func (l *liveLogger) Warnf(f string, a ...interface{}) { atomic.AddInt64(&l.warns, 1) }

type liveParty struct {
	id    int
	addr  string
	lsn   net.Listener
	in    <-chan tssnet.InMsg
	stop  func()
	send  tssnet.SocketRemoteParties
	ident *tlsgen.CertKeyPair
	got   []tssnet.InMsg
	mu    sync.Mutex
}

func frameLive(r *prng.R, s *out.Sink, tier string) {
	ca, err := tlsgen.NewCA()
	if err != nil {
		panic(err)
	}
	pool := x509.NewCertPool()
	pool.AppendCertsFromPEM(ca.CertBytes())
	srvCert, err := ca.NewServerCertKeyPair("127.0.0.1")
	if err != nil {
		panic(err)
	}
	scenarios := []string{"healthy", "one-down", "one-stalled", "one-garbling"}
	rounds := 1
	if tier == "thorough" {
		rounds = 4
	}
	for round := 0; round < rounds; round++ {
		for _, sc := range scenarios {
			frameLiveScenario(r, s, sc, ca, pool, srvCert, round)
		}
	}
	frameDeadPeerQueue(r, s, ca, pool, srvCert)
	frameSilentInbound(r, s, ca, pool, srvCert)
	frameFirstSendRace(r, s, tier, ca, pool, srvCert)
	frameBurstOrder(r, s, tier, ca, pool, srvCert)
}

// frameBurstOrder: one goroutine sends a burst to one destination that is larger than the destination's outgoing queue
// (1000 messages), so that the queue is full while the writer is still connecting. Send then has to wait for room — and
// the frames still go out, and arrive, in the order of the Send calls.
func frameBurstOrder(r *prng.R, s *out.Sink, tier string, ca tlsgen.CA, pool *x509.CertPool, srvCert *tlsgen.CertKeyPair) {
	bursts := 3
	if tier == "thorough" {
		bursts = 20
	}
	const count = 2500
	lg := &liveLogger{}
	ident, err := ca.NewClientCertKeyPair()
	if err != nil {
		panic(err)
	}
	p2id := map[string]uint16{hex.EncodeToString(sha2(ident.Cert)): 7}
	for b := 0; b < bursts; b++ {
		l, _ := net.Listen("tcp", "127.0.0.1:0")
		addr := l.Addr().String()
		l.Close()
		lsn := tssnet.Listen(addr, srvCert.Cert, srvCert.Key)
		in, stop := tssnet.ServiceConnections(lsn, p2id, lg)
		var mu sync.Mutex
		var got []uint32
		go func() {
			for m := range in {
				if len(m.Data) >= 4 {
					mu.Lock()
					got = append(got, binary.LittleEndian.Uint32(m.Data))
					mu.Unlock()
				}
			}
		}()
		send := tssnet.SocketRemoteParties{0: tssnet.NewSocketRemoteParty(tssnet.PartyConnectionConfig{AuthFunc: authFuncFor(ident), Id: 0, Endpoint: addr, TlsCAs: pool}, lg)}
		for k := 0; k < count; k++ {
			payload := make([]byte, 4+r.Intn(40))
			binary.LittleEndian.PutUint32(payload, uint32(k))
			send.Send(0, nil, payload, 0)
		}
		deadline := time.Now().Add(10 * time.Second)
		for time.Now().Before(deadline) {
			mu.Lock()
			n := len(got)
			mu.Unlock()
			if n >= count {
				break
			}
			time.Sleep(time.Millisecond)
		}
		stop()
		mu.Lock()
		arrived := append([]uint32(nil), got...)
		mu.Unlock()
		s.N++
		s.Count("burst-order/burst")
		problem := ""
		for i, v := range arrived {
			if v != uint32(i) {
				problem = fmt.Sprintf("the frame received at position %d is number %d of the burst: sending order not preserved (lost, duplicated or reordered)", i, v)
				break
			}
		}
		if problem == "" && len(arrived) != count {
			problem = fmt.Sprintf("%d of the %d frames of the burst arrived within 10 s", len(arrived), count)
		}
		if problem != "" {
			s.Violate("C17", "burst to one destination larger than its outgoing queue: "+problem, fmt.Sprintf("one goroutine, %d frames of 4..43 bytes to a fresh destination, burst %d", count, b))
			return
		}
	}
	s.Distinct[fmt.Sprintf("burst-order %d bursts", bursts)] = struct{}{}
}

// frameFirstSendRace: several goroutines make the very first send to a destination that has never been used, at the same
// moment (released from a spin barrier), trial after trial with a fresh sender each time. One writer and one connection per
// destination: every accepted frame arrives once, unmodified, in its goroutine's order.
func frameFirstSendRace(r *prng.R, s *out.Sink, tier string, ca tlsgen.CA, pool *x509.CertPool, srvCert *tlsgen.CertKeyPair) {
	// (every trial leaves one connection open on the sending side — the transport has no way to close a destination — and,
	// until the listener is stopped, one on the receiving side: the number of trials is bounded by the descriptor limit;
	// the first version ran 3000 and died of it at trial 2029, reported as a violation: a false alarm of the harness)
	trials := 300
	if tier == "thorough" {
		trials = 1200
	}
	var lim syscall.Rlimit
	if syscall.Getrlimit(syscall.RLIMIT_NOFILE, &lim) == nil {
		if room := (int(lim.Cur) - 300) / 2; room < trials {
			trials = room
			s.Count(fmt.Sprintf("first-send-race/trials-bounded-by-descriptor-limit-%d", lim.Cur))
		}
	}
	if trials < 20 {
		return
	}
	const senders, each = 8, 4
	lg := &liveLogger{}
	ident, err := ca.NewClientCertKeyPair()
	if err != nil {
		panic(err)
	}
	p2id := map[string]uint16{hex.EncodeToString(sha2(ident.Cert)): 7}
	l, _ := net.Listen("tcp", "127.0.0.1:0")
	addr := l.Addr().String()
	l.Close()
	lsn := tssnet.Listen(addr, srvCert.Cert, srvCert.Key)
	in, stop := tssnet.ServiceConnections(lsn, p2id, lg)
	defer stop()
	var mu sync.Mutex
	got := map[uint32][][2]uint32{} // trial -> (goroutine, k) in arrival order
	bad := ""
	go func() {
		for m := range in {
			mu.Lock()
			if len(m.Data) != 12+64 || m.From != 7 {
				bad = fmt.Sprintf("a frame of %d bytes attributed to %d arrived (sent: 76 bytes by node 7)", len(m.Data), m.From)
			} else {
				t := binary.LittleEndian.Uint32(m.Data[0:])
				for i := 12; i < len(m.Data); i++ {
					if m.Data[i] != byte(int(t)+i) {
						bad = fmt.Sprintf("trial %d: payload modified in transit", t)
						break
					}
				}
				got[t] = append(got[t], [2]uint32{binary.LittleEndian.Uint32(m.Data[4:]), binary.LittleEndian.Uint32(m.Data[8:])})
			}
			mu.Unlock()
		}
	}()
	for t := 0; t < trials; t++ {
		send := tssnet.SocketRemoteParties{0: tssnet.NewSocketRemoteParty(tssnet.PartyConnectionConfig{AuthFunc: authFuncFor(ident), Id: 0, Endpoint: addr, TlsCAs: pool}, lg)}
		var ready, goFlag int32
		var wg sync.WaitGroup
		for g := 0; g < senders; g++ {
			g := g
			wg.Add(1)
			go func() {
				defer wg.Done()
				atomic.AddInt32(&ready, 1)
				for atomic.LoadInt32(&goFlag) == 0 {
				}
				for k := 0; k < each; k++ {
					payload := make([]byte, 12+64)
					binary.LittleEndian.PutUint32(payload[0:], uint32(t))
					binary.LittleEndian.PutUint32(payload[4:], uint32(g))
					binary.LittleEndian.PutUint32(payload[8:], uint32(k))
					for i := 12; i < len(payload); i++ {
						payload[i] = byte(t + i)
					}
					send.Send(0, nil, payload, 0)
				}
			}()
		}
		for atomic.LoadInt32(&ready) < senders {
			runtime.Gosched()
		}
		atomic.StoreInt32(&goFlag, 1)
		wg.Wait()
		// everything was accepted for sending: wait for it
		deadline := time.Now().Add(5 * time.Second)
		for time.Now().Before(deadline) {
			mu.Lock()
			n := len(got[uint32(t)])
			mu.Unlock()
			if n >= senders*each {
				break
			}
			time.Sleep(200 * time.Microsecond)
		}
		mu.Lock()
		arrived := got[uint32(t)]
		problem := bad
		mu.Unlock()
		s.N++
		s.Count("first-send-race/trial")
		next := map[uint32]uint32{}
		if problem == "" && len(arrived) != senders*each {
			problem = fmt.Sprintf("trial %d: %d of the %d frames accepted for sending arrived (eight goroutines made the first send to a fresh destination at the same moment)", t, len(arrived), senders*each)
		}
		for _, a := range arrived {
			if problem == "" && a[1] != next[a[0]] {
				problem = fmt.Sprintf("trial %d: frame %d of goroutine %d arrived where its frame %d was due (lost, duplicated or reordered on one connection)", t, a[1], a[0], next[a[0]])
			}
			next[a[0]] = a[1] + 1
		}
		if problem != "" {
			s.Violate("C17", "concurrent first send: "+problem, fmt.Sprintf("trial %d of %d, %d goroutines x %d frames of 76 bytes", t, trials, senders, each))
			return
		}
	}
	s.Distinct[fmt.Sprintf("first-send-race %d trials", trials)] = struct{}{}
}

func authFuncFor(id *tlsgen.CertKeyPair) func([]byte) tssnet.Handshake {
	return func(binding []byte) tssnet.Handshake {
		h := tssnet.Handshake{TLSBinding: binding, Identity: id.Cert, Timestamp: time.Now().Unix()}
		d := sha256.Sum256(h.Bytes())
		sig, err := id.Sign(rand.Reader, d[:], nil)
		if err != nil {
			panic(err)
		}
		h.Signature = sig
		return h
	}
}

func frameLiveScenario(r *prng.R, s *out.Sink, sc string, ca tlsgen.CA, pool *x509.CertPool, srvCert *tlsgen.CertKeyPair, round int) {
	const n = 4
	lg := &liveLogger{}
	parties := make([]*liveParty, n)
	p2id := map[string]uint16{}
	faulty := -1
	if sc != "healthy" {
		faulty = r.Intn(n)
	}
	var rawListeners []net.Listener
	for i := 0; i < n; i++ {
		id, err := ca.NewClientCertKeyPair()
		if err != nil {
			panic(err)
		}
		p := &liveParty{id: i, ident: id}
		p2id[hex.EncodeToString(sha2(id.Cert))] = uint16(i)
		switch {
		case i == faulty && sc == "one-down":
			// an address nobody listens on
			l, _ := net.Listen("tcp", "127.0.0.1:0")
			p.addr = l.Addr().String()
			l.Close()
		case i == faulty && sc == "one-stalled":
			// accepts TCP connections and never says a word
			l, _ := net.Listen("tcp", "127.0.0.1:0")
			p.addr = l.Addr().String()
			rawListeners = append(rawListeners, l)
			go func() {
				for {
					c, err := l.Accept()
					if err != nil {
						return
					}
					defer c.Close()
				}
			}()
		default:
			l, _ := net.Listen("tcp", "127.0.0.1:0")
			p.addr = l.Addr().String()
			l.Close()
			p.lsn = tssnet.Listen(p.addr, srvCert.Cert, srvCert.Key)
		}
		parties[i] = p
	}
	for _, p := range parties {
		if p.lsn != nil {
			p.in, p.stop = tssnet.ServiceConnections(p.lsn, p2id, lg)
			p := p
			go func() {
				for m := range p.in {
					p.mu.Lock()
					p.got = append(p.got, m)
					p.mu.Unlock()
				}
			}()
		}
		p.send = tssnet.SocketRemoteParties{}
		for j, q := range parties {
			if j != p.id {
				p.send[j] = tssnet.NewSocketRemoteParty(tssnet.PartyConnectionConfig{AuthFunc: authFuncFor(p.ident), Id: j, Endpoint: q.addr, TlsCAs: pool}, lg)
			}
		}
	}
	defer func() {
		for _, p := range parties {
			if p.stop != nil {
				p.stop()
			}
		}
		for _, l := range rawListeners {
			l.Close()
		}
	}()
	// the garbling peer: authenticates correctly to every healthy peer and then sends a broken frame
	if sc == "one-garbling" {
		g := parties[faulty]
		for j, q := range parties {
			if j == faulty {
				continue
			}
			conn, err := tls.Dial("tcp", q.addr, &tls.Config{RootCAs: pool, ServerName: "127.0.0.1", MinVersion: tls.VersionTLS13})
			if err != nil {
				continue
			}
			cs := conn.ConnectionState()
			b, _ := cs.ExportKeyingMaterial("MPC", []byte("MPC"), 32)
			h := authFuncFor(g.ident)(b)
			h.Write(conn)
			switch r.Intn(3) {
			case 0:
				conn.Write([]byte{2, 0xff, 0xff, 0xff, 0xff}) // announces 4 GiB
			case 1:
				conn.Write(append([]byte{1, 100, 0, 0, 0}, r.Bytes(20)...)) // truncated
			default:
				conn.Write(r.Bytes(50))
			}
			time.Sleep(time.Millisecond)
			conn.Close()
		}
	}
	// concurrent senders at every healthy party, to all others
	senders := 1 + r.Intn(8)
	perSender := 25
	var wg sync.WaitGroup
	sizes := []int{0, 1, 31, 32, 33, 255, 256, 4000, 70000}
	panicked := int32(0)
	for _, p := range parties {
		if p.id == faulty && sc != "one-garbling" {
			continue
		}
		for g := 0; g < senders; g++ {
			wg.Add(1)
			p, g := p, g
			rr := r.Fork()
			go func() {
				defer wg.Done()
				defer func() {
					if e := recover(); e != nil {
						atomic.StoreInt32(&panicked, 1)
					}
				}()
				for k := 0; k < perSender; k++ {
					ty, topic, _ := legalFrame(rr, 0)
					size := sizes[rr.Intn(len(sizes))]
					if rr.Intn(3) == 0 { // a length within reach of a power of two (payload = 12 bytes of sequence data + size)
						if size = (1 << uint(5+rr.Intn(13))) - 45 + rr.Intn(51) - 12; size < 0 {
							size = 0
						}
					}
					payload := make([]byte, 12+size)
					binary.LittleEndian.PutUint32(payload[0:], uint32(p.id))
					binary.LittleEndian.PutUint32(payload[4:], uint32(g))
					binary.LittleEndian.PutUint32(payload[8:], uint32(k))
					for i := 12; i < len(payload); i++ {
						payload[i] = byte(k + i)
					}
					var to []uint16
					for j := range parties {
						if j != p.id {
							to = append(to, uint16(j))
						}
					}
					p.send.Send(ty, topic, payload, to...)
				}
			}()
		}
	}
	wg.Wait()
	if panicked != 0 {
		s.Violate("C17", "Send panicked ("+sc+")", sc)
	}
	// wait for the healthy pairs to drain
	healthy := func(i int) bool { return !(i == faulty && sc != "one-garbling") && parties[i].lsn != nil }
	expectPer := senders * perSender
	deadline := time.Now().Add(30 * time.Second)
	for time.Now().Before(deadline) {
		done := true
		for _, q := range parties {
			if q.lsn == nil {
				continue
			}
			want := 0
			for _, p := range parties {
				if p.id != q.id && healthy(p.id) {
					want += expectPer
				}
			}
			q.mu.Lock()
			if len(q.got) < want {
				done = false
			}
			q.mu.Unlock()
		}
		if done {
			break
		}
		time.Sleep(5 * time.Millisecond)
	}
	// monitors: per (sender party, goroutine) at each receiver: exactly once, in order, unmodified, attributed to the sender
	for _, q := range parties {
		if q.lsn == nil {
			continue
		}
		q.mu.Lock()
		next := map[[2]uint32]uint32{}
		count := 0
		for _, m := range q.got {
			if len(m.Data) < 12 {
				s.Violate("C17", "a frame nobody sent was delivered ("+sc+")", out.Hex(m.Data))
				continue
			}
			pid, g, k := binary.LittleEndian.Uint32(m.Data[0:]), binary.LittleEndian.Uint32(m.Data[4:]), binary.LittleEndian.Uint32(m.Data[8:])
			if uint32(m.From) != pid {
				s.Violate("C16", fmt.Sprintf("a message sent by party %d was attributed to %d", pid, m.From), sc)
			}
			key := [2]uint32{pid, g}
			if next[key] != k {
				s.Violate("C17", fmt.Sprintf("%s: receiver %d got message %d of goroutine %d of party %d where %d was due (lost, duplicated or reordered)", sc, q.id, k, g, pid, next[key]), sc)
			}
			next[key] = k + 1
			for i := 12; i < len(m.Data); i++ {
				if m.Data[i] != byte(int(k)+i) {
					s.Violate("C17", sc+": payload modified in transit", sc)
					break
				}
			}
			hasTopic := m.Type == 1 || m.Type == 2
			if hasTopic != (len(m.Topic) == 32) {
				s.Violate("C17", sc+": topic does not match the type", sc)
			}
			count++
		}
		want := 0
		for _, p := range parties {
			if p.id != q.id && healthy(p.id) {
				want += expectPer
			}
		}
		q.mu.Unlock()
		if count != want {
			s.Violate("C17", fmt.Sprintf("%s: receiver %d got %d of the %d messages sent to it by the healthy parties within 30 s (faulty peer: %d)", sc, q.id, count, want, faulty), sc)
		}
		s.N += count
		s.Count("live/" + sc + "/delivered-in-order")
	}
	s.Distinct[fmt.Sprintf("live|%s|%d|%d|%d", sc, round, senders, faulty)] = struct{}{}
}

// frameDeadPeerQueue: more messages to an unreachable peer than its queue holds. The 1001st Send waits for its ten-second
// time-out and must then give up on that message only (F28: it used to panic), while the other destination of the
// same Send calls receives everything.
func frameDeadPeerQueue(r *prng.R, s *out.Sink, ca tlsgen.CA, pool *x509.CertPool, srvCert *tlsgen.CertKeyPair) {
	lg := &liveLogger{}
	me, _ := ca.NewClientCertKeyPair()
	l, _ := net.Listen("tcp", "127.0.0.1:0")
	goodAddr := l.Addr().String()
	l.Close()
	l2, _ := net.Listen("tcp", "127.0.0.1:0")
	deadAddr := l2.Addr().String()
	l2.Close()
	p2id := map[string]uint16{hex.EncodeToString(sha2(me.Cert)): 0}
	lsn := tssnet.Listen(goodAddr, srvCert.Cert, srvCert.Key)
	in, stop := tssnet.ServiceConnections(lsn, p2id, lg)
	defer stop()
	var got int64
	go func() {
		for range in {
			atomic.AddInt64(&got, 1)
		}
	}()
	send := tssnet.SocketRemoteParties{
		1: tssnet.NewSocketRemoteParty(tssnet.PartyConnectionConfig{AuthFunc: authFuncFor(me), Id: 1, Endpoint: goodAddr, TlsCAs: pool}, lg),
		2: tssnet.NewSocketRemoteParty(tssnet.PartyConnectionConfig{AuthFunc: authFuncFor(me), Id: 2, Endpoint: deadAddr, TlsCAs: pool}, lg),
	}
	const total = 1001
	res := make(chan string, 1)
	start := time.Now()
	go func() {
		res <- safely(func() string {
			for i := 0; i < total; i++ {
				send.Send(0, nil, []byte{byte(i)}, 1, 2)
			}
			return "returned"
		})
	}()
	select {
	case x := <-res:
		if x == "panic" {
			s.Violate("C17", "Send panics when the queue of an unreachable peer stays full for the time-out", "1001 messages to {reachable, unreachable}")
		}
	case <-time.After(60 * time.Second):
		s.Violate("C17", "Send to {reachable, unreachable} did not return within 60 s", "1001 messages")
	}
	time.Sleep(100 * time.Millisecond)
	if g := atomic.LoadInt64(&got); g != total {
		s.Violate("C17", fmt.Sprintf("the reachable destination received %d of %d messages while the other destination was unreachable", g, total), "")
	}
	s.Count(fmt.Sprintf("live/dead-peer-queue/returned-after-%ds", int(time.Since(start).Seconds())))
	s.N += total
	s.Distinct["live|dead-peer-queue"] = struct{}{}
	_ = bytes.Equal
}

// frameSilentInbound: inbound connections that stall before or during the TLS handshake (a TCP connection that never
// says a word, one that sends half a ClientHello, one that sends garbage slowly) are opened *first*; a healthy peer that
// connects afterwards must still be served ("a slow or stalled peer does not stop traffic between the remaining peers").
func frameSilentInbound(r *prng.R, s *out.Sink, ca tlsgen.CA, pool *x509.CertPool, srvCert *tlsgen.CertKeyPair) {
	lg := &liveLogger{}
	me, _ := ca.NewClientCertKeyPair()
	for _, kind := range []string{"silent", "half-hello", "mixed"} {
		l, _ := net.Listen("tcp", "127.0.0.1:0")
		addr := l.Addr().String()
		l.Close()
		p2id := map[string]uint16{hex.EncodeToString(sha2(me.Cert)): 0}
		lsn := tssnet.Listen(addr, srvCert.Cert, srvCert.Key)
		in, stop := tssnet.ServiceConnections(lsn, p2id, lg)
		var got int64
		go func() {
			for range in {
				atomic.AddInt64(&got, 1)
			}
		}()
		var stalled []net.Conn
		nStalled := 1 + r.Intn(3)
		for i := 0; i < nStalled; i++ {
			c, err := net.Dial("tcp", addr)
			if err != nil {
				continue
			}
			if kind == "half-hello" || (kind == "mixed" && i%2 == 0) {
				// the first bytes of a TLS record header announcing a ClientHello that never comes
				c.Write([]byte{0x16, 0x03, 0x01, 0x02, 0x00, 0x01, 0x00})
			}
			stalled = append(stalled, c)
		}
		time.Sleep(100 * time.Millisecond) // let the accept loop take them
		send := tssnet.SocketRemoteParties{
			1: tssnet.NewSocketRemoteParty(tssnet.PartyConnectionConfig{AuthFunc: authFuncFor(me), Id: 1, Endpoint: addr, TlsCAs: pool}, lg),
		}
		const total = 20
		done := make(chan string, 1)
		go func() {
			done <- safely(func() string {
				for i := 0; i < total; i++ {
					send.Send(0, nil, []byte{byte(i)}, 1)
				}
				return "returned"
			})
		}()
		deadline := time.Now().Add(8 * time.Second)
		for time.Now().Before(deadline) && atomic.LoadInt64(&got) < total {
			time.Sleep(5 * time.Millisecond)
		}
		if g := atomic.LoadInt64(&got); g != total {
			s.Violate("C17", fmt.Sprintf("a healthy peer that connected after %d inbound connection(s) stalled in the TLS handshake (%s) had %d of its %d messages received within 8 s: a stalled peer stops the traffic of the others", len(stalled), kind, g, total),
				fmt.Sprintf("listener; %d raw TCP connection(s) opened first, kind=%s, kept open; then NewSocketRemoteParty(...).Send x %d", len(stalled), kind, total))
		}
		for _, c := range stalled {
			c.Close()
		}
		stop()
		s.Count("live/stalled-inbound/" + kind)
		s.N += total
		s.Distinct["live|stalled-inbound|"+kind] = struct{}{}
	}
}
