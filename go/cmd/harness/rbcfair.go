package main

import (
	"fmt"
	"sort"
	"strings"

	"verif/internal/out"
	"verif/internal/prng"
)

func init() { components["rbcfair"] = runRbcFair }

// workload of one fault-free session
type bcastW struct {
	sender uint16
	round  uint8
	pi     int
}
type p2pW struct {
	from, to uint16
	pi       int
}

type fairRun struct {
	ids  []uint16
	rv   map[uint16]*recv
	inst map[uint16]int
	net  []flight
	hist []string
	got  map[uint16]map[string]int // party -> "b/sender/round/payload" or "p/from/payload" -> count
}

func newFairRun(s *out.Sink, ids []uint16, emit bool) *fairRun {
	fr := &fairRun{ids: ids, rv: map[uint16]*recv{}, inst: map[uint16]int{}, got: map[uint16]map[string]int{}}
	for i, id := range ids {
		fr.rv[id] = newRecv(id, len(ids))
		fr.inst[id] = i
		fr.got[id] = map[string]int{}
		line := fmt.Sprintf("rbc %d new %d %d %s 0", i, id, len(ids), out.U16s(ids))
		if emit {
			s.Op("new", false, line, "ok")
		}
		fr.hist = append(fr.hist, line)
	}
	return fr
}

func (fr *fairRun) inject(p pools, bs []bcastW, ps []p2pW) {
	for _, b := range bs {
		for _, q := range fr.ids {
			if q != b.sender {
				fr.net = append(fr.net, flight{to: q, from: b.sender, m: &hmsg{payload: p.payloads[b.pi], digest: p.digests[b.pi], round: b.round, broadcast: true}})
			}
		}
	}
	for _, x := range ps {
		fr.net = append(fr.net, flight{to: x.to, from: x.from, m: &hmsg{payload: p.payloads[x.pi], round: 9}})
	}
}

// deliverAt delivers the i-th in-flight message, emits the protocol line, routes acknowledgements.
func (fr *fairRun) deliverAt(s *out.Sink, i int, emit bool) {
	f := fr.net[i]
	fr.net = append(fr.net[:i:i], fr.net[i+1:]...)
	ans := fr.rv[f.to].step(f.m, f.from)
	line := opLine(fr.inst[f.to], f.m, f.from)
	fr.hist = append(fr.hist, line)
	if emit {
		kind := "fair-p2p"
		if f.m.isAck {
			kind = "fair-ack"
		} else if f.m.broadcast {
			kind = "fair-bcast"
		}
		if strings.Contains(ans, "deliver") {
			kind += "+deliver"
		}
		s.Op(kind, true, line, ans)
	}
	for _, ev := range strings.Split(ans, " ; ") {
		f2 := strings.Fields(ev)
		switch {
		case len(f2) == 4 && f2[0] == "ack":
			var d []byte
			fmt.Sscanf(f2[1], "%x", &d)
			var sender, round int
			fmt.Sscan(f2[2], &sender)
			fmt.Sscan(f2[3], &round)
			for _, q := range fr.ids {
				if q != f.to {
					fr.net = append(fr.net, flight{to: q, from: f.to, m: &hmsg{isAck: true, digest: d, ackSender: uint16(sender), round: uint8(round)}})
				}
			}
		case len(f2) == 4 && f2[0] == "deliver" && f2[3] == "b":
			fr.got[f.to][fmt.Sprintf("b/%s/%d/%s", f2[2], f.m.round, f2[1])]++
		case len(f2) == 4 && f2[0] == "deliver" && f2[3] == "p":
			fr.got[f.to][fmt.Sprintf("p/%s/%s", f2[2], f2[1])]++
		case ev == "panic":
			s.Violate("C04", "receiver panicked in a fault-free run", strings.Join(fr.hist, "\n"))
		}
	}
}

// checkQuiescent is the direct monitor of C04 on the implementation's hand-over log.
func (fr *fairRun) checkQuiescent(s *out.Sink, p pools, bs []bcastW, ps []p2pW) {
	replay := strings.Join(fr.hist, "\n")
	want := map[uint16]map[string]int{}
	for _, id := range fr.ids {
		want[id] = map[string]int{}
	}
	for _, b := range bs {
		for _, q := range fr.ids {
			if q != b.sender {
				want[q][fmt.Sprintf("b/%d/%d/%s", b.sender, b.round, out.Hex(p.payloads[b.pi]))]++
			}
		}
	}
	for _, x := range ps {
		want[x.to][fmt.Sprintf("p/%d/%s", x.from, out.Hex(p.payloads[x.pi]))]++
	}
	for _, id := range fr.ids {
		for k, n := range want[id] {
			if fr.got[id][k] != n {
				s.Violate("C04", fmt.Sprintf("party %d: %s handed over %d times at quiescence, expected %d", id, k, fr.got[id][k], n), replay)
			}
		}
		for k, n := range fr.got[id] {
			if want[id][k] == 0 {
				s.Violate("C04", fmt.Sprintf("party %d: unexpected hand-over %s (x%d) in a fault-free run", id, k, n), replay)
			}
		}
		// a party that concluded equivocation drops everything: probe it
		probe := &hmsg{payload: []byte{0x70, 0}, round: 9}
		other := fr.ids[0]
		if other == id {
			other = fr.ids[1]
		}
		if ans := fr.rv[id].step(probe, other); !strings.Contains(ans, "deliver") {
			s.Violate("C04", fmt.Sprintf("party %d concluded that equivocation took place in a fault-free run", id), replay)
		}
	}
}

func genWorkload(r *prng.R, ids []uint16) ([]bcastW, []p2pW) {
	var bs []bcastW
	var ps []p2pW
	for _, id := range ids {
		rounds := r.Intn(3)
		for rd := 1; rd <= rounds; rd++ {
			bs = append(bs, bcastW{id, uint8(rd), r.Intn(3)})
		}
	}
	if len(bs) == 0 {
		bs = append(bs, bcastW{ids[0], 1, 0})
	}
	for i := 0; i < r.Intn(4); i++ {
		a, b := ids[r.Intn(len(ids))], ids[r.Intn(len(ids))]
		if a != b {
			ps = append(ps, p2pW{a, b, r.Intn(3)})
		}
	}
	return bs, ps
}

func runRbcFair(r *prng.R, s *out.Sink, tier string) {
	runs := 400
	if tier == "thorough" {
		runs = 6000
	}
	// --- sampled schedules with biases ----------------------------------------------------------
	for k := 0; k < runs; k++ {
		n := 2 + r.Intn(4)
		ids := make([]uint16, n)
		for i := range ids {
			ids[i] = uint16(100*(k%3) + i*3 + 1)
		}
		if k%2 == 1 {
			// identifiers from the corners of the 16-bit range (0 is a legal identifier, and is what the zero value of an
			// acknowledgement's fields looks like)
			ids = pickIDs(r, n)
			sort.Slice(ids, func(i, j int) bool { return ids[i] < ids[j] })
			if k%4 == 1 {
				ids[0] = 0
			}
			s.Count(fmt.Sprintf("ids/with-zero=%v", ids[0] == 0))
		}
		p := mkPools(r)
		bs, ps := genWorkload(r, ids)
		fr := newFairRun(s, ids, true)
		fr.inject(p, bs, ps)
		bias := []string{"uniform", "acks-first", "acks-last", "starve-one", "lifo", "later-round-first"}[r.Intn(6)]
		s.Count("schedule/" + bias)
		starved := ids[r.Intn(n)]
		for len(fr.net) > 0 {
			var cand []int
			for i, f := range fr.net {
				switch bias {
				case "acks-first":
					if f.m.isAck {
						cand = append(cand, i)
					}
				case "acks-last":
					if !f.m.isAck {
						cand = append(cand, i)
					}
				case "starve-one":
					if f.to != starved {
						cand = append(cand, i)
					}
				case "later-round-first":
					if f.m.round >= 2 {
						cand = append(cand, i)
					}
				}
			}
			var i int
			switch {
			case bias == "lifo":
				i = len(fr.net) - 1 - r.Intn(1+r.Intn(2))
				if i < 0 {
					i = 0
				}
			case len(cand) > 0 && r.Intn(10) != 0:
				i = cand[r.Intn(len(cand))]
			default:
				i = r.Intn(len(fr.net))
			}
			fr.deliverAt(s, i, true)
		}
		fr.checkQuiescent(s, p, bs, ps)
	}
	// --- every delivery order of a small session (N = 3, one sender; N = 2, two senders) --------
	p := mkPools(r)
	exhaust := func(ids []uint16, bs []bcastW, ps []p2pW, limit int) int {
		count := 0
		var rec func(prefix []int)
		rec = func(prefix []int) {
			if count >= limit {
				return
			}
			// re-execute the prefix from scratch on fresh real receivers
			fr := newFairRun(s, ids, false)
			fr.inject(p, bs, ps)
			for _, i := range prefix {
				fr.deliverAt(s, i, false)
			}
			if len(fr.net) == 0 {
				count++
				fr.checkQuiescent(s, p, bs, ps)
				// feed one in a hundred complete orders to the model as well
				if count%100 == 1 {
					fr2 := newFairRun(s, ids, true)
					fr2.inject(p, bs, ps)
					for _, i := range prefix {
						fr2.deliverAt(s, i, true)
					}
				}
				return
			}
			for i := range fr.net {
				rec(append(append([]int{}, prefix...), i))
			}
		}
		rec(nil)
		return count
	}
	limit := 800
	if tier == "thorough" {
		limit = 200000
	}
	n0 := exhaust([]uint16{0, 1, 2}, []bcastW{{1, 1, 0}}, []p2pW{{2, 0, 0}}, limit)
	s.Extra["complete_orders_N3_with_party_0"] = n0
	s.N += n0
	n1 := exhaust([]uint16{1, 2, 3}, []bcastW{{1, 1, 0}}, nil, limit)
	n2 := exhaust([]uint16{1, 2}, []bcastW{{1, 1, 0}, {2, 1, 1}, {1, 2, 2}}, []p2pW{{1, 2, 0}}, limit)
	s.Extra["complete_orders_N3_one_sender"] = n1
	s.Extra["complete_orders_N2_two_senders"] = n2
	s.Extra["order_limit"] = limit
	s.N += n1 + n2
	s.Hist["exhaustive-orders"] = n1 + n2
}
