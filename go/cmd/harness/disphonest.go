package main

// Component "disphonest": fault-free sessions at the level of the orchestrator's dispatcher — real Schemes with scripted
// backends, the real acknowledgement and payload encodings on the (simulated) wire, every message delivered, in random
// order. C04: every broadcast-class message is handed to every other participant's backend exactly once, every
// point-to-point message exactly once to its addressee, whatever the identifiers are (one byte, two bytes, low bytes
// that coincide, zero). C03 (attribution through a membership map that is not monotone): what is handed over is
// attributed to the party that the transport-authenticated source node represents.

import (
	"fmt"
	"sort"

	tss "github.com/IBM/TSS/types"

	"verif/internal/out"
	"verif/internal/prng"
)

func init() { components["disphonest"] = runDispHonest }

type dhFlight struct {
	from, to uint16
	data     []byte
}

func runDispHonest(r *prng.R, s *out.Sink, tier string) {
	runs := 40
	if tier == "thorough" {
		runs = 600
	}
	idSets := [][]uint16{{1, 2, 3}, {5, 44, 300}, {0, 255, 256, 65535}, {7, 263}, {200, 456, 712, 968}, {0, 1}, {32768, 32769, 1}}
	for k := 0; k < runs; k++ {
		ids := append([]uint16(nil), idSets[k%len(idSets)]...)
		if k >= 2*len(idSets) {
			ids = pickIDs(r, 2+r.Intn(3))
		}
		sort.Slice(ids, func(i, j int) bool { return ids[i] < ids[j] })
		session := []string{"keygen", "sign"}[k%2]
		// node -> party: identity, or (every third run) a permutation that is not monotone
		party := map[uint16]uint16{}
		for _, id := range ids {
			party[id] = id
		}
		mapKind := "identity"
		if k%3 == 2 && len(ids) >= 3 {
			mapKind = "rotated"
			for i, id := range ids {
				party[id] = ids[(i+1)%len(ids)]
			}
		}
		dispHonestRun(r, s, session, ids, party, mapKind)
	}
}

func dispHonestRun(r *prng.R, s *out.Sink, session string, ids []uint16, party map[uint16]uint16, mapKind string) {
	desc := fmt.Sprintf("%s nodes %v map %s", session, ids, mapKind)
	membership := map[tss.UniversalID]tss.PartyID{}
	for _, id := range ids {
		membership[tss.UniversalID(id)] = tss.PartyID(party[id])
	}
	nodeOf := map[uint16]uint16{}
	for n, p := range party {
		nodeOf[p] = n
	}
	sess := map[uint16]*dispSession{}
	defer func() {
		for _, ds := range sess {
			ds.close()
		}
	}()
	for _, id := range ids {
		ds, err := openDispSessionWith(session, id, membership, ids, false)
		if err != nil {
			s.Violate("C04", fmt.Sprintf("a fault-free %s session does not open at node %d: %v", session, id, err), desc)
			return
		}
		sess[id] = ds
	}
	s.N++
	s.Count("honest/" + session + "/" + mapKind)
	s.Distinct[desc] = struct{}{}
	// every party broadcasts one message of round 1 and sends one point-to-point message of round 2 to the next party
	type want struct {
		payload string
		from    uint16 // party
		bcast   bool
	}
	expect := map[uint16][]want{} // node -> what its backend must be handed
	var net []dhFlight
	collect := func(id uint16) {
		for _, m := range sess[id].rg.takeSent() {
			if m.msgType != uint8(tss.MsgTypeMPC) {
				continue
			}
			for _, to := range m.to {
				net = append(net, dhFlight{id, to, m.data})
			}
		}
	}
	for i, id := range ids {
		b := sess[id].backend
		// backend messages of every small length: two bytes (round and class only), three, four
		bp := []byte{1, 1, byte(i), 0xB0}[:2+i%3]
		b.send(bp, true, 0)
		nextParty := party[ids[(i+1)%len(ids)]]
		pp := []byte{2, 0, byte(i), 0xD0}[:2+(i+1)%3]
		b.send(pp, false, nextParty)
		for _, other := range ids {
			if other != id {
				expect[other] = append(expect[other], want{out.Hex(bp), party[id], true})
			}
		}
		expect[nodeOf[nextParty]] = append(expect[nodeOf[nextParty]], want{out.Hex(pp), party[id], false})
		collect(id)
	}
	for steps := 0; len(net) > 0 && steps < 5000; steps++ {
		i := r.Intn(len(net))
		f := net[i]
		net = append(net[:i], net[i+1:]...)
		ds := sess[f.to]
		if ds == nil {
			s.Violate("C06", fmt.Sprintf("a message of a fault-free session was sent to node %d, which is not in the session", f.to), desc)
			continue
		}
		if safely(func() string {
			ds.rg.scheme.HandleMessage(&tss.IncMessage{Data: f.data, Source: f.from, MsgType: uint8(tss.MsgTypeMPC), Topic: ds.topic})
			return ""
		}) == "panic" {
			s.Violate("C10", "the dispatcher panics on a message of a fault-free session", desc+" data "+out.Hex(f.data))
		}
		collect(f.to)
	}
	// quiescent: compare
	for _, id := range ids {
		got := map[string]int{}
		for _, e := range sess[id].backend.takeEvents() {
			if e.kind != "onmsg" {
				continue
			}
			got[fmt.Sprintf("%s from party %d broadcast=%v", out.Hex(e.payload), e.from, e.bcast)]++
		}
		for _, w := range expect[id] {
			key := fmt.Sprintf("%s from party %d broadcast=%v", w.payload, w.from, w.bcast)
			n := got[key]
			delete(got, key)
			if n == 1 {
				continue
			}
			kind := "point-to-point"
			if w.bcast {
				kind = "broadcast-class"
			}
			// was it handed over under another attribution?
			other := ""
			for g := range got {
				if len(g) >= len(w.payload) && g[:len(w.payload)] == w.payload {
					other = g
				}
			}
			if other != "" {
				s.Violate("C03", fmt.Sprintf("node %d: the %s message %s sent by the node of party %d was handed to the backend as \"%s\" (membership map %s)", id, kind, w.payload, w.from, other, mapKind), desc)
				delete(got, other)
				continue
			}
			s.Violate("C04", fmt.Sprintf("node %d: the %s message %s of party %d was handed to the backend %d times at quiescence of a fault-free session in which every message was delivered (expected exactly once)", id, kind, w.payload, w.from, n), desc)
		}
		for g, n := range got {
			s.Violate("C04", fmt.Sprintf("node %d: its backend was handed \"%s\" %d times, which nobody sent to it in this fault-free session", id, g, n), desc)
		}
	}
}
