package main

import (
	"context"
	"fmt"
	"sort"
	"strings"
	"time"

	tss "github.com/IBM/TSS/types"

	"verif/internal/out"
	"verif/internal/prng"
)

func init() { components["translate"] = runTranslate }

func mapSpec(m map[tss.UniversalID]tss.PartyID) string {
	var keys []int
	for k := range m {
		keys = append(keys, int(k))
	}
	sort.Ints(keys)
	var parts []string
	for _, k := range keys {
		parts = append(parts, fmt.Sprintf("%d:%d", k, m[tss.UniversalID(k)]))
	}
	if len(parts) == 0 {
		return "-"
	}
	return strings.Join(parts, ";")
}

// waitBackend waits until the rig's most recent backend of the given kind has been initialised and its
// protocol function blocks, or the call returned.
func waitBackend(get func() *scriptedBackend, done chan error) (*scriptedBackend, error, bool) {
	deadline := time.After(5 * time.Second)
	for {
		if b := get(); b != nil {
			select {
			case <-b.started:
				return b, nil, true
			default:
			}
		}
		select {
		case err := <-done:
			return get(), err, false
		case <-deadline:
			return get(), fmt.Errorf("session neither started nor returned"), false
		case <-time.After(200 * time.Microsecond):
		}
	}
}

// translateMapChange: one long-lived Scheme whose application changes the membership map between two sessions (a node
// replaced, a replica handed to another party, parties re-numbered). Every session is translated with the map in force
// when it starts: Init gets the sorted parties of the agreed nodes under the *current* map, and an incoming message is
// attributed to its sender's *current* party.
func translateMapChange(s *out.Sink) {
	type change struct {
		name          string
		before, after map[uint16]uint16
		second        []uint16 // agreed nodes of the second session
	}
	changes := []change{
		{"node 3 replaced by node 4 for party 3", map[uint16]uint16{1: 1, 2: 2, 3: 3}, map[uint16]uint16{1: 1, 2: 2, 4: 3}, []uint16{1, 2, 4}},
		{"replica 4 handed from party 3 to party 2", map[uint16]uint16{1: 1, 2: 2, 3: 3, 4: 3}, map[uint16]uint16{1: 1, 2: 2, 3: 3, 4: 2}, []uint16{1, 4}},
		{"parties re-numbered", map[uint16]uint16{1: 1, 2: 2, 3: 3}, map[uint16]uint16{1: 1, 2: 300, 3: 20}, []uint16{1, 2, 3}},
		{"party 0 appears", map[uint16]uint16{1: 1, 2: 2, 3: 3}, map[uint16]uint16{1: 5, 2: 0, 3: 3}, []uint16{1, 2, 3}},
	}
	for _, ch := range changes {
		for _, second := range []string{"sign", "keygen"} {
			current := map[tss.UniversalID]tss.PartyID{}
			for n, p := range ch.before {
				current[tss.UniversalID(n)] = tss.PartyID(p)
			}
			var agreed []uint16
			syncF := func(members []uint16, _ func([]byte), _ func([]byte, uint16)) tss.Synchronizer {
				return fixedSyncFactory(agreed)(members, nil, nil)
			}
			var first []uint16
			for n := range ch.before {
				first = append(first, n)
			}
			sort.Slice(first, func(i, j int) bool { return first[i] < first[j] })
			// distinct parties only in the first session
			seen := map[uint16]bool{}
			var firstAgreed []uint16
			for _, n := range first {
				if !seen[ch.before[n]] {
					seen[ch.before[n]] = true
					firstAgreed = append(firstAgreed, n)
				}
			}
			agreed = firstAgreed
			rg := newSchemeRig(1, len(agreed)-1, current, syncF, false)
			rg.scheme.SetStoredData([]byte("stored"))
			desc := fmt.Sprintf("%s; first session: sign among nodes %v; second: %s among nodes %v", ch.name, firstAgreed, second, ch.second)
			run := func(session string) (*scriptedBackend, chan error, context.CancelFunc, bool) {
				ctx, cancel := context.WithCancel(context.Background())
				done := make(chan error, 1)
				get := func() *scriptedBackend { rg.mu.Lock(); defer rg.mu.Unlock(); return rg.kg }
				if session == "sign" {
					get = func() *scriptedBackend { rg.mu.Lock(); defer rg.mu.Unlock(); return rg.signer }
					go func() { _, err := rg.scheme.Sign(ctx, sha([]byte("d")), "map-change-"+session+second); done <- err }()
				} else {
					go func() { _, err := rg.scheme.KeyGen(ctx, len(agreed), len(agreed)-1); done <- err }()
				}
				b, _, started := waitBackend(get, done)
				return b, done, cancel, started
			}
			b, done, cancel, started := run("sign")
			if !started {
				cancel()
				continue
			}
			b.release <- nil
			select {
			case <-done:
			case <-time.After(5 * time.Second):
			}
			cancel()
			// the application changes the map (in place: Membership() returns the map in force)
			for n := range current {
				delete(current, n)
			}
			for n, p := range ch.after {
				current[tss.UniversalID(n)] = tss.PartyID(p)
			}
			agreed = ch.second
			rg.scheme.Threshold = len(agreed) - 1
			rg.mu.Lock()
			rg.kg, rg.signer = nil, nil
			rg.mu.Unlock()
			b, done, cancel, started = run(second)
			s.N++
			s.Count("map-change/" + second)
			s.Distinct["map change "+desc] = struct{}{}
			var want []uint16
			for _, n := range agreed {
				want = append(want, ch.after[n])
			}
			sort.Slice(want, func(i, j int) bool { return want[i] < want[j] })
			if !started {
				s.Violate("C06", fmt.Sprintf("after the membership map changed (%s) a %s session among nodes %v does not start", ch.name, second, agreed), desc)
				cancel()
				continue
			}
			for _, e := range b.takeEvents() {
				if e.kind == "init" && out.U16s(e.parties) != out.U16s(want) {
					s.Violate("C06", fmt.Sprintf("after the membership map changed (%s) the backend of a %s session among nodes %v was initialised with parties %s; under the map in force they are %s", ch.name, second, agreed, out.U16s(e.parties), out.U16s(want)), desc)
				}
			}
			topic := sha([]byte("DKG"))
			if second == "sign" {
				topic = sha([]byte("map-change-" + second + second))
			}
			for _, n := range agreed {
				if n == 1 {
					continue
				}
				rg.scheme.HandleMessage(&tss.IncMessage{Data: frame(3, 0, []byte{byte(n)}), Source: n, MsgType: uint8(tss.MsgTypeMPC), Topic: topic})
				from := "none"
				for _, e := range b.takeEvents() {
					if e.kind == "onmsg" {
						from = fmt.Sprint(e.from)
					}
				}
				if from != fmt.Sprint(ch.after[n]) {
					s.Violate("C06", fmt.Sprintf("after the membership map changed (%s) a message of node %d (now party %d) reached the backend attributed to %s", ch.name, n, ch.after[n], from), desc)
				}
			}
			b.release <- nil
			select {
			case <-done:
			case <-time.After(5 * time.Second):
			}
			cancel()
		}
	}
}

func runTranslate(r *prng.R, s *out.Sink, tier string) {
	translateMapChange(s)
	maps := 60
	if tier == "thorough" {
		maps = 600
	}
	for k := 0; k < maps; k++ {
		// --- a membership map ---------------------------------------------------------------------
		nParties := 2 + r.Intn(4)
		membership := map[tss.UniversalID]tss.PartyID{}
		var nodes []uint16
		kind := []string{"identity", "shift", "permutation", "replicas", "wide-ids", "replicas-3"}[k%6]
		base := uint16(1)
		if kind == "wide-ids" {
			base = uint16(65000 + r.Intn(500))
		}
		perm := r.Perm(nParties)
		// every other map of the kinds with small party identifiers contains party identifier 0 (a legal identifier, and the
		// zero value that a failed look-up yields)
		zeroParty := -1
		if (k/6)%2 == 1 && kind != "wide-ids" {
			zeroParty = r.Intn(nParties)
		}
		for p := 0; p < nParties; p++ {
			var pid tss.PartyID
			switch kind {
			case "identity":
				pid = tss.PartyID(base + uint16(p))
			case "shift", "replicas", "replicas-3":
				pid = tss.PartyID(base + uint16(p) + 10)
			case "permutation":
				pid = tss.PartyID(base + uint16(perm[p]))
			case "wide-ids":
				pid = tss.PartyID(uint16(r.Intn(65536)))
				for dup := true; dup; {
					dup = false
					for _, q := range membership {
						if q == pid {
							dup = true
							pid = tss.PartyID(uint16(r.Intn(65536)))
						}
					}
				}
			}
			if p == zeroParty {
				pid = 0
			}
			reps := 1
			if kind == "replicas" {
				reps = 1 + r.Intn(2)
			} else if kind == "replicas-3" {
				reps = 1 + r.Intn(3)
			}
			for q := 0; q < reps; q++ {
				u := base + uint16(p) + uint16(q)*100
				membership[tss.UniversalID(u)] = pid
				nodes = append(nodes, u)
			}
		}
		sort.Slice(nodes, func(i, j int) bool { return nodes[i] < nodes[j] })
		ms := mapSpec(membership)
		// --- an agreed list: usually one replica per party, sometimes two replicas of one party -----
		var agreed []uint16
		byParty := map[tss.PartyID][]uint16{}
		for _, u := range nodes {
			byParty[membership[tss.UniversalID(u)]] = append(byParty[membership[tss.UniversalID(u)]], u)
		}
		var pids []int
		for p := range byParty {
			pids = append(pids, int(p))
		}
		sort.Ints(pids)
		for _, p := range pids {
			reps := byParty[tss.PartyID(p)]
			agreed = append(agreed, reps[r.Intn(len(reps))])
			if len(reps) > 1 && r.Intn(6) == 0 {
				agreed = append(agreed, reps[(r.Intn(len(reps)-1)+1)%len(reps)]) // possibly a second replica of the same party
			}
		}
		// dedupe node ids, keep sorted as the synchroniser delivers them
		seen := map[uint16]bool{}
		var L []uint16
		for _, u := range agreed {
			if !seen[u] {
				seen[u] = true
				L = append(L, u)
			}
		}
		sort.Slice(L, func(i, j int) bool { return L[i] < L[j] })
		self := L[r.Intn(len(L))]
		for _, session := range []string{"keygen", "sign"} {
			desc := fmt.Sprintf("%s map=%s L=%s self=%d (%s)", session, ms, out.U16s(L), self, kind)
			rg := newSchemeRig(self, len(L)-1, membership, fixedSyncFactory(L), false)
			rg.scheme.SetStoredData([]byte("stored"))
			ctx, cancel := context.WithCancel(context.Background())
			done := make(chan error, 1)
			get := func() *scriptedBackend { rg.mu.Lock(); defer rg.mu.Unlock(); return rg.kg }
			if session == "sign" {
				get = func() *scriptedBackend { rg.mu.Lock(); defer rg.mu.Unlock(); return rg.signer }
				go func() { _, err := rg.scheme.Sign(ctx, sha([]byte("d")), "topic"); done <- err }()
			} else {
				go func() { _, err := rg.scheme.KeyGen(ctx, len(L), len(L)-1); done <- err }()
			}
			b, err, started := waitBackend(get, done)
			// Init argument
			initRes := "refused"
			if started {
				var initEv *backendEvent
				for _, e := range b.takeEvents() {
					if e.kind == "init" {
						e := e
						initEv = &e
					}
				}
				if initEv != nil {
					initRes = "init " + out.U16s(initEv.parties)
				} else {
					initRes = "started-without-init"
				}
			} else if err == nil {
				initRes = "returned-nil-without-starting"
			}
			s.Op(session+"/init/"+kind, true, fmt.Sprintf("tr init %s %s", ms, out.U16s(L)), initRes)
			// direct monitors (independent of the model): two selected nodes of one party => refused; otherwise the backend is
			// initialised with exactly the sorted party identifiers of the agreed nodes
			{
				var want []uint16
				dupParty := false
				seenP := map[uint16]bool{}
				for _, u := range L {
					p := uint16(membership[tss.UniversalID(u)])
					if seenP[p] {
						dupParty = true
					}
					seenP[p] = true
					want = append(want, p)
				}
				sort.Slice(want, func(i, j int) bool { return want[i] < want[j] })
				switch {
				case dupParty && initRes != "refused":
					s.Violate("C06", fmt.Sprintf("a %s session in which two selected nodes represent the same party was not refused (%s)", session, initRes), desc)
				case !dupParty && initRes != "init "+out.U16s(want):
					s.Violate("C06", fmt.Sprintf("%s: the backend was not initialised with exactly the sorted party identifiers %s of the agreed participants: %s", session, out.U16s(want), initRes), desc)
				}
			}
			if len(s.Samples) < 8 {
				s.Samples = append(s.Samples, desc+" => "+initRes)
			}
			if started {
				topic := sha([]byte("DKG"))
				if session == "sign" {
					topic = sha([]byte("topic"))
				}
				// attribution: a point-to-point frame from every other agreed node
				for _, u := range L {
					if u == self {
						continue
					}
					rg.scheme.HandleMessage(&tss.IncMessage{Data: frame(3, 0, []byte{byte(u)}), Source: u, MsgType: uint8(tss.MsgTypeMPC), Topic: topic})
					from := "none"
					for _, e := range b.takeEvents() {
						if e.kind == "onmsg" {
							from = fmt.Sprint(e.from)
						}
					}
					s.Op(session+"/attr/"+kind, true, fmt.Sprintf("tr attr %s %d", ms, u), from)
					if want := fmt.Sprint(uint16(membership[tss.UniversalID(u)])); from != want {
						s.Violate("C06", fmt.Sprintf("%s: a message whose authenticated sender is node %d (party %s) reached the backend attributed to %s", session, u, want, from), desc)
					}
				}
				// destinations of point-to-point sends to every party in the session and to one outside it
				rg.takeSent()
				targets := map[uint16]bool{}
				for _, u := range L {
					targets[uint16(membership[tss.UniversalID(u)])] = true
				}
				targets[uint16(r.Intn(65536))] = true
				var ts []int
				for t := range targets {
					ts = append(ts, int(t))
				}
				sort.Ints(ts)
				for _, t := range ts {
					b.send([]byte{3, 0, 9}, false, uint16(t))
					sent := rg.takeSent()
					dst := "none"
					if len(sent) == 1 && len(sent[0].to) == 1 {
						dst = fmt.Sprint(sent[0].to[0])
					} else if len(sent) != 0 {
						dst = fmt.Sprintf("multiple:%d", len(sent))
					}
					s.Op(session+"/dest/"+kind, true, fmt.Sprintf("tr dest %s %s %d", ms, out.U16s(L), t), dst)
					// direct monitor: exactly one node, a node of the session, representing the addressed party
					inSession := false
					for _, u := range L {
						if uint16(membership[tss.UniversalID(u)]) == uint16(t) {
							inSession = true
						}
					}
					if inSession {
						okDst := false
						for _, u := range L {
							if fmt.Sprint(u) == dst && uint16(membership[tss.UniversalID(u)]) == uint16(t) {
								okDst = true
							}
						}
						if !okDst {
							s.Violate("C06", fmt.Sprintf("point-to-point message for party %d went to %s, not to the node that represents it in the session", t, dst), desc)
						}
					} else if dst != "none" {
						s.Violate("C06", fmt.Sprintf("point-to-point message for party %d, which is not in the session, was sent to node %s", t, dst), desc)
					}
				}
				b.release <- nil
				select {
				case <-done:
				case <-time.After(5 * time.Second):
				}
			}
			cancel()
		}
	}
}
