package main

import (
	"bytes"
	"fmt"
	"os"
	"runtime/debug"

	disc "github.com/IBM/TSS/disc"
	"github.com/IBM/TSS/threshold"

	"verif/internal/out"
	"verif/internal/prng"
)

func init() { components["wire"] = runWire }

var boundaryIDs = []uint16{0, 1, 254, 255, 256, 257, 511, 512, 32767, 32768, 65279, 65280, 65534, 65535}

func safely(f func() string) (res string) {
	defer func() {
		if e := recover(); e != nil {
			res = "panic"
			if os.Getenv("VERIF_PANIC_TRACE") != "" {
				fmt.Fprintf(os.Stderr, "panic: %v\n%s\n", e, debug.Stack())
			}
		}
	}()
	return f()
}

func ackEnc(d []byte, s uint16, r uint8) ([]byte, string) {
	var enc []byte
	res := safely(func() string {
		enc = threshold.VerifNewRBCEncoding(string(d), s, r)
		return out.Hex(enc)
	})
	return enc, res
}

func ackDec(m []byte) (string, []byte, uint16, uint8, bool) {
	var d []byte
	var s uint16
	var r uint8
	isAck := false
	res := safely(func() string {
		var err error
		d, s, r, err = threshold.VerifRBCEncodingAck(m)
		if err != nil {
			return "malformed"
		}
		if len(d) == 0 {
			return "payload"
		}
		isAck = true
		return fmt.Sprintf("ack %s %d %d", out.Hex(d), s, r)
	})
	return res, d, s, r, isAck
}

func viewDec(m []byte) (string, uint8, string, []uint16, bool) {
	var t uint8
	var tag string
	var peers []uint16
	ok := false
	res := safely(func() string {
		var err error
		t, tag, peers, err = disc.VerifDecodeTagAndMembershipList(m)
		if err != nil {
			return "malformed"
		}
		ok = true
		return fmt.Sprintf("ok %d %s %s", t, out.Hex([]byte(tag)), out.U16s(peers))
	})
	return res, t, tag, peers, ok
}

func runWire(r *prng.R, s *out.Sink, tier string) {
	digests := [][]byte{r.Bytes(32), {0x7f}, r.Bytes(8), r.Bytes(33)}
	rounds := []uint8{0, 1, 64, 127}
	nd, nr := 1, 1
	if tier == "thorough" {
		nd, nr = len(digests), len(rounds)
	}
	// --- acknowledgements: every 16-bit sender -------------------------------------------------
	for id := 0; id < 65536; id++ {
		for di := 0; di < nd; di++ {
			for ri := 0; ri < nr; ri++ {
				d := digests[(id+di)%len(digests)]
				rd := rounds[(id/7+ri)%len(rounds)]
				enc, res := ackEnc(d, uint16(id), rd)
				s.Op("ackenc", true, fmt.Sprintf("wire ackenc %s %d %d", out.Hex(d), id, rd), res)
				if res == "panic" {
					s.Violate("C13", "newRBCEncoding panicked on a legal round", fmt.Sprintf("sender=%d round=%d", id, rd))
					continue
				}
				dres, dd, ds, dr, isAck := ackDec(enc)
				s.Op("ackdec-valid", true, "wire ackdec "+out.Hex(enc), dres)
				if !isAck || !bytes.Equal(dd, d) || ds != uint16(id) || dr != rd {
					s.Violate("C13", fmt.Sprintf("acknowledgement (digest %s, sender %d, round %d) decoded as %q", out.Hex(d), id, rd, dres),
						fmt.Sprintf("wire ackenc %s %d %d", out.Hex(d), id, rd))
				}
			}
		}
	}
	// rounds outside 0..127 must be refused by the encoder (explicit panic), all 128 of them
	for rd := 128; rd < 256; rd++ {
		_, res := ackEnc(digests[0], uint16(r.Intn(65536)), uint8(rd))
		s.Op("ackenc-badround", true, fmt.Sprintf("wire ackenc %s %d %d", out.Hex(digests[0]), 7, rd), func() string { _, x := ackEnc(digests[0], 7, uint8(rd)); return x }())
		_ = res
	}
	// --- acknowledgement decoding of arbitrary bytes -------------------------------------------
	nMal := 4000
	if tier == "thorough" {
		nMal = 60000
	}
	for i := 0; i < nMal; i++ {
		var m []byte
		switch i % 4 {
		case 0:
			m = r.Bytes(r.Intn(6))
		case 1:
			m = r.Bytes(r.Intn(40))
		case 2:
			m = r.Bytes(r.Intn(40))
			if len(m) > 0 {
				m[0] &= 0x7f
			}
		case 3:
			m = r.Bytes(r.Intn(8))
			if len(m) > 0 {
				m[0] = []byte{0, 1, 127, 128, 255}[r.Intn(5)]
			}
		}
		res, _, _, _, _ := ackDec(m)
		s.Op("ackdec-arbitrary/"+res[:3], true, "wire ackdec "+out.Hex(m), res)
		if res == "panic" {
			s.Violate("C10", "rbcEncoding.Ack panics", "wire ackdec "+out.Hex(m))
		}
	}
	// --- views ----------------------------------------------------------------------------------
	tag := string(r.Bytes(32))
	view := func(t uint8, peers []uint16) {
		var enc []byte
		res := safely(func() string {
			enc = disc.VerifEncodeTagAndMembershipList(t, tag, peers)
			return out.Hex(enc)
		})
		s.Op("viewenc", true, fmt.Sprintf("wire viewenc %d %s %s", t, out.Hex([]byte(tag)), out.U16s(peers)), res)
		if res == "panic" {
			if t >= 1 && t <= 3 {
				s.Violate("C13", "encodeTagAndMembershipList panicked on a legal view", out.U16s(peers))
			}
			return
		}
		dres, dt, dtag, dpeers, ok := viewDec(enc)
		s.Op("viewdec-valid", true, "wire viewdec "+out.Hex(enc), dres)
		same := ok && dt == t && dtag == tag && len(dpeers) == len(peers)
		if same {
			for i := range peers {
				if peers[i] != dpeers[i] {
					same = false
				}
			}
		}
		if !same {
			s.Violate("C13", fmt.Sprintf("view %v (type %d) decoded as %q", peers, t, dres), fmt.Sprintf("wire viewenc %d %s %s", t, out.Hex([]byte(tag)), out.U16s(peers)))
		}
	}
	for _, a := range boundaryIDs {
		view(1, []uint16{a})
		for _, b := range boundaryIDs {
			view(2, []uint16{a, b})
			for _, c := range boundaryIDs {
				view(uint8(1+(int(a)+int(b)+int(c))%3), []uint16{a, b, c})
			}
		}
	}
	view(1, nil)
	view(0, []uint16{1})
	view(4, []uint16{1})
	nViews := 1000
	if tier == "thorough" {
		nViews = 20000
	}
	for i := 0; i < nViews; i++ {
		n := r.Intn(12)
		peers := make([]uint16, n)
		for j := range peers {
			if r.Intn(3) == 0 {
				peers[j] = boundaryIDs[r.Intn(len(boundaryIDs))]
			} else {
				peers[j] = uint16(r.Intn(65536))
			}
		}
		view(uint8(1+r.Intn(3)), peers)
	}
	// arbitrary bytes into the view decoder: every length 0..70, then random
	for l := 0; l <= 70; l++ {
		for k := 0; k < 4; k++ {
			m := r.Bytes(l)
			if l > 0 {
				m[0] = byte(k)
			}
			res, _, _, _, _ := viewDec(m)
			s.Op("viewdec-arbitrary/"+res[:2], true, "wire viewdec "+out.Hex(m), res)
			if res == "panic" {
				s.Violate("C10", "decodeTagAndMembershipList panics", "wire viewdec "+out.Hex(m))
			}
		}
	}
	// --- topic name and PRF input ---------------------------------------------------------------
	for i := 0; i < 300; i++ {
		n := r.Intn(8)
		ms := make([]uint16, n)
		for j := range ms {
			ms[j] = boundaryIDs[r.Intn(len(boundaryIDs))]
			if r.Bool() {
				ms[j] = uint16(r.Intn(65536))
			}
		}
		s.Op("topicpre", n > 0, "wire topicpre "+out.U16s(ms), "sha256:"+out.Hex(threshold.VerifMembershipSyncTopicName(ms)))
	}
	key := r.Bytes(32)
	// direct monitor: distinct members get distinct tags and distinct topic names, over the whole identifier space
	tags := map[string]int{}
	names := map[string]int{}
	for id := 0; id < 65536; id++ {
		t := string(disc.VerifPRF(key, uint16(id)))
		if other, dup := tags[t]; dup {
			s.Violate("C13", fmt.Sprintf("members %d and %d get the same synchroniser tag (messages of one are attributed to / dropped for the other)", other, id), fmt.Sprintf("wire prfin %d ; wire prfin %d", other, id))
			break
		}
		tags[t] = id
		n := string(threshold.VerifMembershipSyncTopicName([]uint16{7, uint16(id)}))
		if other, dup := names[n]; dup {
			s.Violate("C13", fmt.Sprintf("member lists [7 %d] and [7 %d] derive the same synchronisation topic", other, id), fmt.Sprintf("wire topicpre 7,%d ; wire topicpre 7,%d", other, id))
			break
		}
		names[n] = id
	}
	s.Count("prf+topic distinctness over all ids")
	s.N += 2 * 65536
	for _, x := range boundaryIDs {
		s.Op("prfin", true, fmt.Sprintf("wire prfin %d", x), "hmac:"+out.Hex(key)+":"+out.Hex(disc.VerifPRF(key, x)))
	}
	for i := 0; i < 200; i++ {
		x := uint16(r.Intn(65536))
		s.Op("prfin", true, fmt.Sprintf("wire prfin %d", x), "hmac:"+out.Hex(key)+":"+out.Hex(disc.VerifPRF(key, x)))
	}
}
