package main

import (
	"context"
	"fmt"
	"sort"
	"strings"
	"sync"
	"sync/atomic"
	"time"

	tss "github.com/IBM/TSS/types"

	"verif/internal/out"
	"verif/internal/prng"
)

func init() { components["orch"] = runOrch }

// gatedSync is a synchroniser whose Synchronize blocks at a gate until the harness lets it pass (the
// continuation is invoked with the agreed list, even if the context has been cancelled meanwhile: this is
// the "callback passes its synchronisation at the very moment the caller gives up" case) or fail.
type gatedSync struct {
	rig     *orchRig
	members []uint16
}

type syncGate struct {
	topic   string
	release chan bool // true: pass, false: fail
	done    chan struct{}
}

func (g *gatedSync) Synchronize(ctx context.Context, f func([]uint16), topic []byte, expected int, _ time.Duration) error {
	gate := &syncGate{topic: string(topic), release: make(chan bool, 1), done: make(chan struct{})}
	g.rig.mu.Lock()
	g.rig.gates = append(g.rig.gates, gate)
	g.rig.mu.Unlock()
	defer close(gate.done)
	if pass := <-gate.release; !pass {
		return fmt.Errorf("scripted synchronisation failure")
	}
	m := append([]uint16(nil), g.members...)
	if expected < len(m) {
		m = m[:expected]
	}
	f(m)
	return nil
}

func (g *gatedSync) HandleMessage(uint16, []byte) {}

type orchRig struct {
	*schemeRig
	mu    sync.Mutex
	gates []*syncGate
}

// waitGate waits for a not yet released gate on the given topic.
func (rg *orchRig) waitGate(topic []byte, used map[*syncGate]bool) *syncGate {
	deadline := time.Now().Add(5 * time.Second)
	for time.Now().Before(deadline) {
		rg.mu.Lock()
		for _, g := range rg.gates {
			if g.topic == string(topic) && !used[g] {
				used[g] = true
				rg.mu.Unlock()
				return g
			}
		}
		rg.mu.Unlock()
		time.Sleep(100 * time.Microsecond)
	}
	return nil
}

type keyNames struct {
	m    map[string]int
	next int
}

func (kn *keyNames) id(topic []byte) int {
	if v, ok := kn.m[string(topic)]; ok {
		return v
	}
	kn.next++
	kn.m[string(topic)] = kn.next
	return kn.next
}

func (rg *orchRig) snapshot(kn *keyNames) string {
	t := rg.scheme.VerifTables()
	show := func(keys []string) string {
		var ids []int
		for _, k := range keys {
			ids = append(ids, kn.id([]byte(k)))
		}
		sort.Ints(ids)
		if len(ids) == 0 {
			return "-"
		}
		parts := make([]string, len(ids))
		for i, x := range ids {
			parts[i] = fmt.Sprint(x)
		}
		return strings.Join(parts, ",")
	}
	d := 0
	if t.DKGRunning {
		d = 1
	}
	return fmt.Sprintf("sync=%s rbc=%s cls=%s dkg=%d", show(t.Syncs), show(t.RBCs), show(t.Classifiers), d)
}

func membersSyncTopic(members []uint16) []byte {
	var b []byte
	for _, m := range members {
		b = append(b, byte(m), byte(m>>8))
	}
	return sha(b)
}

var errAbortHistory = fmt.Errorf("abort history")

// orchStop: a call hung; the remaining histories would only hang too
var orchStop bool

func runOrch(r *prng.R, s *out.Sink, tier string) {
	histories := 60
	if tier == "thorough" {
		histories = 700
	}
	// four configured members, three of them take part in a session (threshold 2): node 4 is a member that is not a
	// participant
	members := []uint16{1, 2, 3, 4}
	orchDerivedTopicPair(s, members)
	for k := 0; k < 5; k++ {
		orchSimultaneousSigns(s, members)
	}
	for h := 0; h < histories && !orchStop; h++ {
		func() {
			defer func() {
				if e := recover(); e != nil && e != errAbortHistory {
					panic(e)
				}
			}()
			rg := &orchRig{}
			rg.schemeRig = newSchemeRig(1, 2, identityMembership(members), nil, false)
			rg.scheme.SyncFactory = func(m []uint16, _ func([]byte), _ func([]byte, uint16)) tss.Synchronizer {
				return &gatedSync{rig: rg, members: members}
			}
			rg.scheme.SetStoredData([]byte("stored"))
			kn := &keyNames{m: map[string]int{}}
			used := map[*syncGate]bool{}
			var hist []string
			emit := func(kind, op, ans string) {
				s.Op(kind, true, op, ans)
				hist = append(hist, op+"   => "+ans)
			}
			emit("new", "orch new", "ok")
			sid := 0
			// quiet: an action whose effect is only observable together with the next one (the real code does not stop in between)
			quiet := func(name string, id int, key []byte) {
				emit("act/"+name, fmt.Sprintf("orch quiet %s %d %d", name, id, kn.id(key)), "ok")
			}
			act := func(name string, id int, key []byte, admitted bool) {
				a := "refused"
				if admitted {
					a = "admitted"
				}
				emit("act/"+name, fmt.Sprintf("orch act %s %d %d", name, id, kn.id(key)), a+" "+rg.snapshot(kn))
			}
			// a call that does not come back is a C11 violation with the history as replay; the history ends there
			await := func(ch chan error) error {
				select {
				case err := <-ch:
					return err
				case <-time.After(20 * time.Second):
					s.Violate("C11", "a KeyGen/Sign call did not return within 20 s of the event that ends its session (context cancelled, synchronisation failed or backend finished)", strings.Join(hist, "\n"))
					orchStop = true
					panic(errAbortHistory)
				}
			}
			awaitCB := func(ch chan struct{}) {
				select {
				case <-ch:
				case <-time.After(20 * time.Second):
					s.Violate("C11", "a synchronisation callback did not return within 20 s", strings.Join(hist, "\n"))
					panic(errAbortHistory)
				}
			}
			calls := 3 + r.Intn(5)
			aborted := false
			for c := 0; c < calls; c++ {
				sid++
				id := sid
				if r.Intn(4) == 0 {
					// ---------------- KeyGen ---------------------------------------------------------------
					kd := sha([]byte("DKG"))
					km := membersSyncTopic(members[:3]) // the three agreed participants
					ctx, cancel := context.WithCancel(context.Background())
					done := make(chan error, 1)
					go func() { _, err := rg.scheme.KeyGen(ctx, 3, 2); done <- err }()
					g1 := rg.waitGate(kd, used)
					if g1 == nil {
						s.Violate("C12", "KeyGen neither refused nor reached its synchronisation", strings.Join(hist, "\n"))
						cancel()
						continue
					}
					act("dkgEnter", id, kd, true)
					// further concurrent KeyGens must each be refused and change nothing (also not each other's refusal)
					bad := false
					for extra := r.Intn(3); extra > 0 && !bad; extra-- {
						sid++
						var err error
						c2, cancel2 := context.WithTimeout(context.Background(), 2*time.Second)
						if safely(func() string { _, err = rg.scheme.KeyGen(c2, 3, 2); return "" }) == "panic" {
							s.Violate("C12", "a concurrent KeyGen was admitted while one is running, and panicked", strings.Join(hist, "\n"))
							bad = true
						} else if err == nil || !strings.Contains(err.Error(), "already running") {
							s.Violate("C12", fmt.Sprintf("a concurrent KeyGen was not refused while one is running (err=%v)", err), strings.Join(hist, "\n"))
							bad = true
						}
						cancel2()
						act("dkgEnter", sid, kd, false)
					}
					if bad { // the tables are no longer those of the history: end it here
						cancel()
						g1.release <- false
						await(done)
						aborted = true
						break
					}
					path := r.Intn(5)
					s.Count(fmt.Sprintf("keygen/path-%d", path))
					switch path {
					case 0: // first synchronisation fails
						g1.release <- false
						await(done)
						act("dkgExit", id, kd, true)
					case 1: // caller gives up while synchronising; the callback passes afterwards (late)
						cancel()
						await(done)
						act("dkgExit", id, kd, true)
						g1.release <- true
						awaitCB(g1.done)
						act("dkgRegRbc", id, kd, true)
					default:
						g1.release <- true
						g2 := rg.waitGate(km, used)
						if g2 == nil {
							s.Violate("C12", "KeyGen callback did not reach the member-list synchronisation", strings.Join(hist, "\n"))
							cancel()
							continue
						}
						quiet("dkgRegRbc", id, kd)
						act("dkgRegSync", id, km, true)
						switch path {
						case 2: // caller gives up during the second synchronisation (the callback sees the cancellation too and unregisters)
							cancel()
							await(done)
							g2.release <- false
							awaitCB(g1.done)
							quiet("dkgExit", id, kd)
							act("dkgUnregSync", id, km, true)
						case 3: // backend fails
							g2.release <- true
							b, _, _ := waitBackend(func() *scriptedBackend { rg.schemeRig.mu.Lock(); defer rg.schemeRig.mu.Unlock(); return rg.kg }, done)
							b.release <- fmt.Errorf("scripted backend failure")
							await(done)
							awaitCB(g1.done)
							quiet("dkgExit", id, kd)
							act("dkgUnregSync", id, km, true)
						default: // success
							g2.release <- true
							b, _, _ := waitBackend(func() *scriptedBackend { rg.schemeRig.mu.Lock(); defer rg.schemeRig.mu.Unlock(); return rg.kg }, done)
							// the same participant filter for the key generation (participants 1,2,3 of the members 1..4)
							if b != nil {
								reaches := func(src uint16) bool {
									b.takeEvents()
									rg.scheme.HandleMessage(&tss.IncMessage{Data: frame(3, 0, []byte{byte(src)}), Source: src, MsgType: uint8(tss.MsgTypeMPC), Topic: kd})
									for _, e := range b.takeEvents() {
										if e.kind == "onmsg" {
											return true
										}
									}
									return false
								}
								s.Count("dkg/participant-filter")
								if reaches(2) {
									if reaches(4) {
										s.Violate("C12", "point-to-point traffic of member 4, which is not a participant of the key generation (participants 1,2,3), reached its protocol instance", strings.Join(hist, "\n"))
									}
									if reaches(9) {
										s.Violate("C12", "point-to-point traffic of node 9, which is not a member, reached the protocol instance of a key generation", strings.Join(hist, "\n"))
									}
								} else {
									s.Count("dkg/participant-filter/control-not-delivered")
								}
							}
							b.release <- nil
							if err := await(done); err != nil {
								s.Violate("C12", "KeyGen failed on the success path: "+err.Error(), strings.Join(hist, "\n"))
							}
							awaitCB(g1.done)
							quiet("dkgExit", id, kd)
							act("dkgUnregSync", id, km, true)
						}
					}
					cancel()
					continue
				}
				// ---------------- Sign ---------------------------------------------------------------------
				topic := fmt.Sprintf("topic-%d", r.Intn(3))
				k1 := sha([]byte(topic))
				k2 := sha(k1)
				// the way this call ends is drawn first: on the paths on which the caller gives up, every second time the session
				// ends because its deadline passes (context.DeadlineExceeded) instead of by an explicit cancel (context.Canceled)
				path := r.Intn(7)
				byDeadline := (path == 1 || path == 3 || path == 4) && r.Intn(2) == 0
				ctx, cancel := context.WithCancel(context.Background())
				if byDeadline {
					cancel()
					ctx, cancel = context.WithTimeout(context.Background(), 150*time.Millisecond)
					s.Count("sign/ends-by-deadline")
				}
				giveUp := func() {
					if byDeadline {
						<-ctx.Done()
					} else {
						cancel()
					}
				}
				done := make(chan error, 1)
				go func() { _, err := rg.scheme.Sign(ctx, sha([]byte("digest")), topic); done <- err }()
				g1 := rg.waitGate(k1, used)
				if g1 == nil {
					s.Violate("C12", "Sign on a topic without a live session was refused or did not reach its synchronisation (residue of an earlier session?)", strings.Join(hist, "\n"))
					cancel()
					continue
				}
				act("signEnter", id, k1, true)
				// a second concurrent Sign on the same topic must be refused and change nothing
				if r.Intn(3) == 0 {
					sid++
					_, err := rg.scheme.Sign(context.Background(), sha([]byte("digest")), topic)
					if err == nil || !strings.Contains(err.Error(), "already signing") {
						s.Violate("C12", fmt.Sprintf("a second concurrent Sign on the same topic was not refused (err=%v)", err), strings.Join(hist, "\n"))
					}
					act("signEnter", sid, k1, false)
				}
				s.Count(fmt.Sprintf("sign/path-%d", path))
				signer := func() *scriptedBackend { rg.schemeRig.mu.Lock(); defer rg.schemeRig.mu.Unlock(); return rg.signer }
				switch path {
				case 0: // first synchronisation fails
					g1.release <- false
					await(done)
					act("signExit", id, k1, true)
				case 1: // caller gives up while synchronising; the callback passes afterwards (late)
					giveUp()
					await(done)
					act("signExit", id, k1, true)
					g1.release <- true
					// the session is over: its late callback must find that out and return without registering anything. If
					// it does not return, look at what it left in the tables of the finished session.
					select {
					case <-g1.done:
					case <-time.After(2 * time.Second):
						if snap := rg.snapshot(kn); strings.Contains(snap, "rbc=") && !strings.Contains(snap, "rbc=-") {
							how := "was cancelled"
							if byDeadline {
								how = "ended because its deadline passed"
							}
							s.Violate("C12", fmt.Sprintf("a Sign call that %s had returned; its first synchronisation then completed (late) and the callback registered handlers for the finished session and went on: %s", how, snap), strings.Join(hist, "\n"))
							for _, g := range rg.allGates() {
								select {
								case g.release <- false:
								default:
								}
							}
							orchStop = true
							panic(errAbortHistory)
						}
						awaitCB(g1.done)
					}
					act("signPrepare", id, k1, true)
				case 2: // stored share data unusable: preparation fails
					rg.schemeRig.mu.Lock()
					rg.failShareData = true
					rg.schemeRig.mu.Unlock()
					g1.release <- true
					err := await(done)
					awaitCB(g1.done)
					rg.schemeRig.mu.Lock()
					rg.failShareData = false
					rg.schemeRig.mu.Unlock()
					if err == nil || strings.Contains(err.Error(), "context") {
						s.Violate("C11", fmt.Sprintf("Sign with unusable share data did not return the preparation error (err=%v)", err), strings.Join(hist, "\n"))
					}
					act("signExit", id, k1, true)
				default:
					g1.release <- true
					g2 := rg.waitGate(k2, used)
					if g2 == nil {
						s.Violate("C12", "Sign callback did not reach the second synchronisation", strings.Join(hist, "\n"))
						cancel()
						continue
					}
					quiet("signPrepare", id, k1)
					act("regSync2", id, k2, true)
					switch path {
					case 3: // caller gives up during the second synchronisation, which then fails
						giveUp()
						await(done)
						act("signExit", id, k1, true)
						g2.release <- false
						awaitCB(g1.done)
						act("unregSync2", id, k2, true)
					case 4: // caller gives up; the second synchronisation passes late
						giveUp()
						await(done)
						act("signExit", id, k1, true)
						g2.release <- true
						awaitCB(g1.done)
						act("unregSync2", id, k2, true)
					case 5: // backend fails
						g2.release <- true
						b, _, _ := waitBackend(signer, done)
						b.release <- fmt.Errorf("scripted backend failure")
						await(done)
						awaitCB(g1.done)
						quiet("signExit", id, k1)
						act("unregSync2", id, k2, true)
					default: // success
						g2.release <- true
						b, _, _ := waitBackend(signer, done)
						// while the protocol instance runs: point-to-point traffic on the session's topic from a participant
						// (control), from a member that was not selected for this session, and from a node outside the membership
						if b != nil {
							reaches := func(src uint16) bool {
								b.takeEvents()
								rg.scheme.HandleMessage(&tss.IncMessage{Data: frame(3, 0, []byte{byte(src)}), Source: src, MsgType: uint8(tss.MsgTypeMPC), Topic: k1})
								for _, e := range b.takeEvents() {
									if e.kind == "onmsg" {
										return true
									}
								}
								return false
							}
							s.Count("sign/participant-filter")
							if reaches(2) {
								if reaches(4) {
									s.Violate("C12", "point-to-point traffic of member 4, which is not a participant of the signing session (participants 1,2,3), reached its protocol instance", strings.Join(hist, "\n"))
								}
								if reaches(9) {
									s.Violate("C12", "point-to-point traffic of node 9, which is not a member, reached the protocol instance of a signing session", strings.Join(hist, "\n"))
								}
							} else {
								s.Count("sign/participant-filter/control-not-delivered")
							}
						}
						b.release <- nil
						if err := await(done); err != nil {
							s.Violate("C12", "Sign failed on the success path: "+err.Error(), strings.Join(hist, "\n"))
						}
						awaitCB(g1.done)
						quiet("signExit", id, k1)
						act("unregSync2", id, k2, true)
					}
				}
				cancel()
				// late / foreign traffic for the finished session: must reach no backend and must not crash
				before := len(rg.signers)
				for _, mt := range []uint8{uint8(tss.MsgTypeSync), uint8(tss.MsgTypeMPC)} {
					for _, tp := range [][]byte{k1, k2} {
						rg.scheme.HandleMessage(&tss.IncMessage{Data: frame(1, 0, []byte{1}), Source: 2, MsgType: mt, Topic: tp})
					}
				}
				emit("dispatch", fmt.Sprintf("orch dispatch %d", kn.id(k1)), "sync->- mpc->-")
				for _, b := range rg.signers[:before] {
					for _, e := range b.takeEvents() {
						if e.kind == "onmsg" {
							s.Violate("C12", "a message arriving after its session ended reached a protocol instance", strings.Join(hist, "\n"))
						}
					}
				}
			}
			// at the end of every history nothing may be left
			if snap := rg.snapshot(kn); !aborted && snap != "sync=- rbc=- cls=- dkg=0" {
				s.Violate("C12", "handler tables are not empty after all sessions ended: "+snap, strings.Join(hist, "\n"))
			}
		}()
	}
}

// orchSimultaneousSigns: two Sign calls on one topic that enter at the same moment — both are inside the (application-
// supplied) synchroniser factory before either has registered. Exactly one of them must be refused; the other keeps its
// registration.
func orchSimultaneousSigns(s *out.Sink, members []uint16) {
	rg := &orchRig{}
	rg.schemeRig = newSchemeRig(1, 2, identityMembership(members), nil, false)
	var inFactory int32
	rg.scheme.SyncFactory = func(m []uint16, _ func([]byte), _ func([]byte, uint16)) tss.Synchronizer {
		atomic.AddInt32(&inFactory, 1)
		for deadline := time.Now().Add(300 * time.Millisecond); atomic.LoadInt32(&inFactory) < 2 && time.Now().Before(deadline); {
			time.Sleep(100 * time.Microsecond)
		}
		return &gatedSync{rig: rg, members: members}
	}
	rg.scheme.SetStoredData([]byte("stored"))
	ctx, cancel := context.WithTimeout(context.Background(), 3*time.Second)
	defer cancel()
	done := make(chan error, 2)
	for i := 0; i < 2; i++ {
		go func() { _, err := rg.scheme.Sign(ctx, sha([]byte("digest")), "simultaneous-topic"); done <- err }()
	}
	s.N++
	s.Count("simultaneous-signs")
	s.Distinct["simultaneous signs"] = struct{}{}
	var first error
	select {
	case first = <-done:
	case <-time.After(1500 * time.Millisecond):
	}
	refused := first != nil && strings.Contains(first.Error(), "already signing")
	kn := &keyNames{m: map[string]int{}}
	during := rg.snapshot(kn)
	if !refused {
		s.Violate("C12", fmt.Sprintf("two Sign calls on one topic that entered at the same moment (both inside the synchroniser factory before either had registered): neither was refused within 1.5 s (first result: %v); tables: %s", first, during), "orch simultaneous signs")
	}
	cancel()
	for _, g := range rg.allGates() {
		select {
		case g.release <- false:
		default:
		}
	}
	n := 1
	if first == nil {
		n = 2
	}
	for i := 0; i < n; i++ {
		select {
		case <-done:
		case <-time.After(10 * time.Second):
			s.Violate("C11", "a Sign call did not return within 10 s of the end of its context (simultaneous signs)", "orch simultaneous signs")
			return
		}
	}
	time.Sleep(20 * time.Millisecond)
	if snap := rg.snapshot(kn); refused && snap != "sync=- rbc=- cls=- dkg=0" {
		s.Violate("C12", "handler tables are not empty after two simultaneous Sign calls on one topic ended: "+snap, "orch simultaneous signs")
	}
}

func (rg *orchRig) allGates() []*syncGate {
	rg.mu.Lock()
	defer rg.mu.Unlock()
	return append([]*syncGate(nil), rg.gates...)
}

// orchDerivedTopicPair runs the one pair of distinct topics whose derived keys collide by construction:
// t2 is the string sha256(t1), so the first key of Sign(t2) equals the second (pre-signing) key of Sign(t1).
func orchDerivedTopicPair(s *out.Sink, members []uint16) {
	rg := &orchRig{}
	rg.schemeRig = newSchemeRig(1, 2, identityMembership(members), nil, false)
	rg.scheme.SyncFactory = func(m []uint16, _ func([]byte), _ func([]byte, uint16)) tss.Synchronizer {
		return &gatedSync{rig: rg, members: members}
	}
	rg.scheme.SetStoredData([]byte("stored"))
	used := map[*syncGate]bool{}
	t1 := "pair-topic"
	k1 := sha([]byte(t1))
	k2 := sha(k1)
	t2 := string(k1)
	ctx, cancel := context.WithCancel(context.Background())
	defer cancel()
	done := make(chan error, 1)
	go func() { _, err := rg.scheme.Sign(ctx, sha([]byte("digest")), t1); done <- err }()
	g1 := rg.waitGate(k1, used)
	if g1 == nil {
		return
	}
	g1.release <- true
	g2 := rg.waitGate(k2, used)
	if g2 == nil {
		return
	}
	s.Count("derived-topic-pair")
	s.N++
	ctx2, cancel2 := context.WithTimeout(context.Background(), 300*time.Millisecond)
	defer cancel2()
	_, err := rg.scheme.Sign(ctx2, sha([]byte("digest")), t2)
	if err != nil && strings.Contains(err.Error(), "already signing") {
		s.Violate("C12", "derived-topic collision: Sign(t2) with t2 = string(sha256(t1)) is refused as 'already signing' while only Sign(t1) runs (its pre-signing synchroniser is registered under sha256(sha256(t1)))",
			"Sign(\"pair-topic\") up to its second synchronisation, then Sign(string(sha256(\"pair-topic\")))")
	}
	g2.release <- false
	cancel()
	select {
	case <-done:
	case <-time.After(20 * time.Second):
		s.Violate("C11", "Sign did not return within 20 s after its pre-signing synchronisation failed and its context was cancelled",
			"Sign(\"pair-topic\"): first synchronisation passes, second synchronisation fails, context cancelled")
		orchStop = true
	}
}
