// Command harness runs the real IBM/TSS code (built from /repo with -tags verif) on generated
// inputs and writes, per run directory: ops.txt (operations for the Lean driver), impl.txt (the
// implementation's canonicalised answers, line by line), stats.json (measured distribution,
// property-monitor violations).
package main

import (
	"flag"
	"fmt"
	"os"
	"syscall"

	"verif/internal/out"
	"verif/internal/prng"
)

type runFn func(r *prng.R, s *out.Sink, tier string)

var components = map[string]runFn{}

func main() {
	seed := flag.Uint64("seed", 1, "PRNG seed")
	tier := flag.String("tier", "quick", "quick|thorough")
	dir := flag.String("dir", "", "output directory")
	flag.Parse()
	if flag.NArg() != 1 || *dir == "" {
		fmt.Fprintln(os.Stderr, "usage: harness -dir D [-seed N] [-tier quick|thorough] <component>")
		os.Exit(2)
	}
	f, ok := components[flag.Arg(0)]
	if !ok {
		fmt.Fprintf(os.Stderr, "unknown component %q\n", flag.Arg(0))
		os.Exit(2)
	}
	// the network components open many connections: use what the hard descriptor limit allows
	var lim syscall.Rlimit
	if syscall.Getrlimit(syscall.RLIMIT_NOFILE, &lim) == nil && lim.Cur < lim.Max {
		lim.Cur = lim.Max
		if lim.Cur > 65536 {
			lim.Cur = 65536
		}
		syscall.Setrlimit(syscall.RLIMIT_NOFILE, &lim)
	}
	s := out.New(*dir)
	f(prng.New(*seed), s, *tier)
	s.Close()
}
