package main

import (
	"context"
	"sync"
	"time"

	"github.com/IBM/TSS/threshold"
	tss "github.com/IBM/TSS/types"

	"verif/internal/prng"
)

// simNet is a deterministic-as-far-as-possible in-process network for full-stack runs: every node is a
// real threshold.Scheme (loud or silent mode); Send enqueues on per-link FIFO queues; one scheduler
// goroutine picks, with the run's PRNG, which link delivers next and calls the destination's
// HandleMessage. Faults are injected by the drop / hold hooks.
type simNet struct {
	mu         sync.Mutex
	cond       *sync.Cond
	nodes      map[uint16]tss.MpcParty
	queues     map[[2]uint16][]*tss.IncMessage
	sentCount  map[uint16]int // messages sent so far, per source
	log        []netEvent
	drop       func(from, to uint16, m *tss.IncMessage, nthFromSource int) bool
	onSend     func(from, to uint16, m *tss.IncMessage)
	hold       func(from, to uint16, m *tss.IncMessage) bool // true: the head of this link stays queued for now
	stopped    bool
	wg         sync.WaitGroup
	concurrent bool // one dispatcher goroutine per link instead of the single scheduler (race runs)
}

type netEvent struct {
	from, to uint16
	msgType  uint8
	topic    string
	size     int
}

func newSimNet() *simNet {
	n := &simNet{nodes: map[uint16]tss.MpcParty{}, queues: map[[2]uint16][]*tss.IncMessage{}, sentCount: map[uint16]int{}}
	n.cond = sync.NewCond(&n.mu)
	return n
}

// sendFrom is the Send function handed to node `from`.
func (n *simNet) sendFrom(from uint16) func(msgType uint8, topic []byte, msg []byte, to ...uint16) {
	return func(msgType uint8, topic []byte, msg []byte, to ...uint16) {
		n.mu.Lock()
		defer n.mu.Unlock()
		for _, dst := range to {
			// like the bundled transport (net.SocketRemoteParties.Send queues the slices it is given and writes them from another
			// goroutine), the network keeps the caller's slices by reference until delivery: a sender that reuses a buffer
			// after Send returned damages what is still in flight
			m := &tss.IncMessage{Data: msg, Source: from, MsgType: msgType, Topic: topic}
			n.sentCount[from]++
			if n.onSend != nil {
				n.onSend(from, dst, m)
			}
			if n.drop != nil && n.drop(from, dst, m, n.sentCount[from]) {
				continue
			}
			k := [2]uint16{from, dst}
			n.queues[k] = append(n.queues[k], m)
		}
		n.cond.Broadcast()
	}
}

// start launches the scheduler. It runs until stop().
func (n *simNet) start(r *prng.R) {
	n.wg.Add(1)
	go func() {
		defer n.wg.Done()
		n.mu.Lock()
		for !n.stopped {
			var links [][2]uint16
			for k, q := range n.queues {
				if len(q) > 0 && (n.hold == nil || !n.hold(k[0], k[1], q[0])) {
					links = append(links, k)
				}
			}
			if len(links) == 0 {
				n.cond.Wait()
				continue
			}
			sortLinks(links)
			k := links[r.Intn(len(links))]
			m := n.queues[k][0]
			n.queues[k] = n.queues[k][1:]
			node := n.nodes[k[1]]
			n.log = append(n.log, netEvent{k[0], k[1], m.MsgType, string(m.Topic), len(m.Data)})
			n.mu.Unlock()
			if node != nil {
				node.HandleMessage(m)
			}
			n.mu.Lock()
		}
		n.mu.Unlock()
	}()
}

func (n *simNet) stop() {
	n.mu.Lock()
	n.stopped = true
	n.mu.Unlock()
	n.cond.Broadcast()
	n.wg.Wait()
}

// inject delivers a message as if `from` had sent it (used for corrupted / foreign / late traffic).
func (n *simNet) inject(from, to uint16, msgType uint8, topic, data []byte) {
	n.mu.Lock()
	k := [2]uint16{from, to}
	n.queues[k] = append(n.queues[k], &tss.IncMessage{Data: data, Source: from, MsgType: msgType, Topic: topic})
	n.mu.Unlock()
	n.cond.Broadcast()
}

// quiesce waits until all queues are empty (and stay empty for a moment).
func (n *simNet) quiesce(timeout time.Duration) bool {
	deadline := time.Now().Add(timeout)
	for time.Now().Before(deadline) {
		n.mu.Lock()
		empty := true
		for _, q := range n.queues {
			if len(q) > 0 {
				empty = false
			}
		}
		n.mu.Unlock()
		if empty {
			time.Sleep(3 * time.Millisecond)
			n.mu.Lock()
			still := true
			for _, q := range n.queues {
				if len(q) > 0 {
					still = false
				}
			}
			n.mu.Unlock()
			if still {
				return true
			}
		}
		time.Sleep(time.Millisecond)
	}
	return false
}

// loudNode builds a real loud-mode Scheme (real disc.Member, real rbc.Receiver) on the network.
func (n *simNet) loudNode(id uint16, thresholdT int, membership map[tss.UniversalID]tss.PartyID, kgf tss.KeyGenFactory, sf tss.SignerFactory) *threshold.Scheme {
	p := threshold.LoudScheme(id, nopLogger{}, kgf, sf, thresholdT, n.sendFrom(id), func() map[tss.UniversalID]tss.PartyID { return membership })
	n.mu.Lock()
	n.nodes[id] = p
	n.mu.Unlock()
	return p.(*threshold.Scheme)
}

// silentNode builds a real silent-mode Scheme (message box in front of the dispatcher).
func (n *simNet) silentNode(id uint16, thresholdT int, membership map[tss.UniversalID]tss.PartyID, kgf tss.KeyGenFactory, sf tss.SignerFactory,
	pick func(topic []byte, expected int) []uint16) tss.MpcParty {
	p := threshold.SilentScheme(id, nopLogger{}, kgf, sf, thresholdT, n.sendFrom(id), func() map[tss.UniversalID]tss.PartyID { return membership }, pick)
	n.mu.Lock()
	n.nodes[id] = p
	n.mu.Unlock()
	return p
}

func identityMembership(ids []uint16) map[tss.UniversalID]tss.PartyID {
	m := map[tss.UniversalID]tss.PartyID{}
	for _, id := range ids {
		m[tss.UniversalID(id)] = tss.PartyID(id)
	}
	return m
}

type callResult struct {
	data []byte
	err  error
	took time.Duration
}

// keygenAll runs KeyGen concurrently on the given nodes.
func keygenAll(nodes map[uint16]tss.MpcParty, ids []uint16, n, t int, timeout time.Duration) map[uint16]callResult {
	res := map[uint16]callResult{}
	var mu sync.Mutex
	var wg sync.WaitGroup
	for _, id := range ids {
		wg.Add(1)
		go func(id uint16) {
			defer wg.Done()
			ctx, cancel := context.WithTimeout(context.Background(), timeout)
			defer cancel()
			t0 := time.Now()
			d, err := nodes[id].KeyGen(ctx, n, t)
			mu.Lock()
			res[id] = callResult{d, err, time.Since(t0)}
			mu.Unlock()
		}(id)
	}
	wg.Wait()
	return res
}

func signAll(nodes map[uint16]tss.MpcParty, ids []uint16, digest []byte, topic string, timeout time.Duration) map[uint16]callResult {
	res := map[uint16]callResult{}
	var mu sync.Mutex
	var wg sync.WaitGroup
	for _, id := range ids {
		wg.Add(1)
		go func(id uint16) {
			defer wg.Done()
			ctx, cancel := context.WithTimeout(context.Background(), timeout)
			defer cancel()
			t0 := time.Now()
			d, err := nodes[id].Sign(ctx, digest, topic)
			mu.Lock()
			res[id] = callResult{d, err, time.Since(t0)}
			mu.Unlock()
		}(id)
	}
	wg.Wait()
	return res
}
