package main

// Scenario "back-pressure" of component faults (C11): the application's Send blocks (a synchronous link, a full bounded
// queue) because the peer stopped taking messages right after it sent its synchronisation query. The dispatcher goroutine
// that answers the query is stuck in Send — that is the transport's business — but the local Sign must still return when
// its context ends: nothing it needs may be held by a goroutine that is inside Send.

import (
	"context"
	"fmt"
	"time"

	discovery "github.com/IBM/TSS/disc"
	tss "github.com/IBM/TSS/types"

	"verif/internal/out"
)

func faultsBackPressure(s *out.Sink) {
	for _, session := range []string{"sign", "keygen"} {
		ids := []uint16{1, 2}
		membership := identityMembership(ids)
		rg := newSchemeRig(1, 1, membership, nil, false) // the real (loud) synchroniser
		rg.scheme.SetStoredData([]byte("stored"))
		block := make(chan struct{})
		inSend := make(chan struct{}, 8)
		var topic []byte
		rg.mu.Lock()
		rg.onSend = func(m sentMsg) {
			// the peer takes nothing any more: a point-to-point synchronisation message (the response to its query) blocks
			if m.msgType == uint8(tss.MsgTypeSync) && len(m.to) == 1 && len(m.data) > 0 && m.data[0] == 3 {
				inSend <- struct{}{}
				<-block
			}
		}
		rg.mu.Unlock()
		ctx, cancel := context.WithTimeout(context.Background(), 600*time.Millisecond)
		done := make(chan error, 1)
		if session == "sign" {
			topic = sha([]byte("back-pressure-topic"))
			go func() { _, err := rg.scheme.Sign(ctx, sha([]byte("m")), "back-pressure-topic"); done <- err }()
		} else {
			topic = sha([]byte("DKG"))
			go func() { _, err := rg.scheme.KeyGen(ctx, 2, 1); done <- err }()
		}
		time.Sleep(50 * time.Millisecond) // the session has registered its synchroniser
		// peer 2's query arrives; the dispatcher goroutine answers it and gets stuck in Send
		query := discovery.VerifEncodeTagAndMembershipList(2, string(discovery.VerifPRF(topic, 2)), []uint16{1, 2})
		go rg.scheme.HandleMessage(&tss.IncMessage{Data: query, Source: 2, MsgType: uint8(tss.MsgTypeSync), Topic: topic})
		stuck := false
		select {
		case <-inSend:
			stuck = true
		case <-time.After(400 * time.Millisecond):
		}
		s.N++
		s.Count(fmt.Sprintf("back-pressure/%s/dispatcher-stuck-in-send=%v", session, stuck))
		s.Distinct["back-pressure "+session] = struct{}{}
		select {
		case <-done:
		case <-time.After(600*time.Millisecond + 3*time.Second):
			s.Violate("C11", fmt.Sprintf("%s did not return within 3 s of the end of its context while a dispatcher goroutine was blocked in the application's Send (the peer froze right after its synchronisation query; dispatcher stuck in Send: %v)", session, stuck),
				fmt.Sprintf("%s at node 1 of {1,2}, real synchroniser; Send of the response to peer 2's query blocks; context of 600 ms", session))
		}
		cancel()
		close(block)
	}
}
