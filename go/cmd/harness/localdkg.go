package main

import (
	"context"
	"fmt"
	"sync"
	"time"

	"github.com/IBM/TSS/mpc/bls"
	"github.com/IBM/TSS/mpc/ps"
	tss "github.com/IBM/TSS/types"
	math "github.com/IBM/mathlib"

	"verif/internal/prng"
)

// wireMsg is one protocol message on the in-process network of a backend-level run.
type wireMsg struct {
	from, to uint16
	bcast    bool
	data     []byte
}

// dkgRun wires n built-in backends (bls or ps) directly: sends go to a queue, a scheduler delivers
// them to OnMsg one at a time in an order chosen by the PRNG that keeps every sender->receiver link
// FIFO. An optional tamper hook lets the harness play a misbehaving participant.
type dkgRun struct {
	kind      string
	parties   []uint16
	t         int
	msgLen    int
	backs     map[uint16]tss.KeyGenerator
	mu        sync.Mutex
	cond      *sync.Cond
	queues    map[[2]uint16][]wireMsg // link -> FIFO
	sentLog   []wireMsg               // every message, in send order
	delivered []wireMsg               // in delivery order
	results   map[uint16][]byte
	errs      map[uint16]error
	done      int
	// tamper may rewrite, drop (return nil) or duplicate messages of corrupted parties at send time
	tamper func(m wireMsg) []wireMsg
	// silentAfter: party -> number of its messages after which everything it sends is dropped
	hold func(m wireMsg) bool // true: keep the message in its queue for now
	// reorder: deliver any message of the chosen link, not only its oldest (the reliable broadcast does not order a
	// sender's consecutive broadcasts: a key may overtake its commitment)
	reorder bool
	// overtake: on this link (sender, receiver) the sender's commitment is kept back until its key is queued behind it, and
	// the key is then delivered first — the overtaking that `reorder` only produces by chance. Zero value: none.
	overtake     [2]uint16
	overtakeDone bool // the key went first; the link is ordinary again
}

func onlyKind(q []wireMsg, kind byte) bool {
	for _, m := range q {
		if len(m.data) == 0 || m.data[0] != kind {
			return false
		}
	}
	return true
}

func hasKind(q []wireMsg, kind byte) int {
	for i, m := range q {
		if len(m.data) > 0 && m.data[0] == kind {
			return i
		}
	}
	return -1
}

func newBackend(kind string, id uint16, msgLen int) tss.KeyGenerator {
	switch kind {
	case "bls":
		return &bls.TBLS{Party: id, Logger: nopLogger{}}
	case "ps":
		return &ps.TPS{Party: id, Logger: nopLogger{}, Curve: math.Curves[1], MessageLength: msgLen}
	}
	panic("unknown backend kind " + kind)
}

func newDkgRun(kind string, parties []uint16, t int, msgLen int) *dkgRun {
	d := &dkgRun{kind: kind, parties: parties, t: t, msgLen: msgLen, backs: map[uint16]tss.KeyGenerator{},
		queues: map[[2]uint16][]wireMsg{}, results: map[uint16][]byte{}, errs: map[uint16]error{}}
	d.cond = sync.NewCond(&d.mu)
	for _, id := range parties {
		d.backs[id] = newBackend(kind, id, msgLen)
	}
	for _, id := range parties {
		id := id
		d.backs[id].Init(append([]uint16(nil), parties...), t, func(msg []byte, isBroadcast bool, to uint16) {
			d.send(id, msg, isBroadcast, to)
		})
	}
	return d
}

func (d *dkgRun) enqueue(m wireMsg) {
	k := [2]uint16{m.from, m.to}
	d.queues[k] = append(d.queues[k], m)
}

func (d *dkgRun) send(from uint16, msg []byte, bcast bool, to uint16) {
	d.mu.Lock()
	defer d.mu.Unlock()
	var dests []uint16
	if bcast {
		for _, q := range d.parties {
			if q != from {
				dests = append(dests, q)
			}
		}
	} else {
		dests = []uint16{to}
	}
	for _, q := range dests {
		m := wireMsg{from: from, to: q, bcast: bcast, data: append([]byte(nil), msg...)}
		d.sentLog = append(d.sentLog, m)
		if d.tamper != nil {
			for _, tm := range d.tamper(m) {
				d.enqueue(tm)
			}
		} else {
			d.enqueue(m)
		}
	}
	d.cond.Broadcast()
}

// run starts KeyGen at the listed parties (the others are played by the harness through inject)
// and schedules deliveries until all of them returned or the deadline passed.
func (d *dkgRun) run(r *prng.R, active []uint16, timeout time.Duration) {
	ctx, cancel := context.WithTimeout(context.Background(), timeout)
	defer cancel()
	for _, id := range active {
		id := id
		go func() {
			res, err := d.backs[id].KeyGen(ctx)
			d.mu.Lock()
			d.results[id] = res
			d.errs[id] = err
			d.done++
			d.mu.Unlock()
			d.cond.Broadcast()
		}()
	}
	stop := make(chan struct{})
	go func() {
		select {
		case <-ctx.Done():
		case <-stop:
		}
		d.cond.Broadcast()
	}()
	isActive := map[uint16]bool{}
	for _, id := range active {
		isActive[id] = true
	}
	d.mu.Lock()
	for d.done < len(active) {
		var links [][2]uint16
		for k, q := range d.queues {
			if len(q) > 0 && (d.hold == nil || !d.hold(q[0])) {
				if k == d.overtake && !d.overtakeDone && ctx.Err() == nil && hasKind(q, 3) < 0 && onlyKind(q, 2) {
					continue // only the commitment is there: wait for the key
				}
				links = append(links, k)
			}
		}
		if len(links) == 0 {
			if ctx.Err() != nil {
				// let the KeyGen goroutines observe the expiry
				d.mu.Unlock()
				time.Sleep(time.Millisecond)
				d.mu.Lock()
				continue
			}
			d.cond.Wait()
			continue
		}
		// deterministic order of candidate links, then a PRNG pick
		sortLinks(links)
		k := links[r.Intn(len(links))]
		idx := 0
		if d.reorder {
			idx = r.Intn(len(d.queues[k]))
		}
		if k == d.overtake && !d.overtakeDone && hasKind(d.queues[k], 2) >= 0 {
			if i3 := hasKind(d.queues[k], 3); i3 >= 0 {
				idx = i3 // the key first
				d.overtakeDone = true
			} else if ctx.Err() == nil {
				for i, m := range d.queues[k] { // anything but the commitment
					if len(m.data) == 0 || m.data[0] != 2 {
						idx = i
						break
					}
				}
			}
		}
		m := d.queues[k][idx]
		d.queues[k] = append(append([]wireMsg{}, d.queues[k][:idx]...), d.queues[k][idx+1:]...)
		d.delivered = append(d.delivered, m)
		d.mu.Unlock()
		if isActive[m.to] {
			d.backs[m.to].OnMsg(m.data, m.from, m.bcast)
		}
		d.mu.Lock()
	}
	d.mu.Unlock()
	close(stop)
}

func sortLinks(l [][2]uint16) {
	for i := 1; i < len(l); i++ {
		for j := i; j > 0 && (l[j][0] < l[j-1][0] || (l[j][0] == l[j-1][0] && l[j][1] < l[j-1][1])); j-- {
			l[j], l[j-1] = l[j-1], l[j]
		}
	}
}

func (d *dkgRun) describe() string {
	return fmt.Sprintf("%s DKG parties=%v t=%d delivered=%d reorder=%v", d.kind, d.parties, d.t, len(d.delivered), d.reorder)
}
