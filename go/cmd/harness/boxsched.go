package main

import (
	"fmt"
	"sort"
	"strings"
	"time"

	"github.com/IBM/TSS/msg"
	tss "github.com/IBM/TSS/types"

	"verif/internal/out"
	"verif/internal/prng"
)

func init() { components["boxsched"] = runBoxSched }

// A controlled scheduler for the real msg.Box: every thread is a real goroutine running a script of
// Box calls; exactly one goroutine runs at a time; control changes hands only at the yield points
// (msg.VerifYield), which sit where the running goroutine holds no lock. A schedule is the sequence of
// thread indices picked at the scheduling points; executions are replayed from scratch.

type boxCall struct {
	tick  bool // the clock ticks (the epoch counter advances by one)
	send  bool
	topic int
	src   uint16
	id    int
}

type schedThread struct {
	script []boxCall
	resume chan struct{}
	done   bool
}

type schedEvent struct {
	thread int
	what   string // h<id> | fs<topic>
}

type schedRun struct {
	threads  []*schedThread
	current  int
	back     chan string // "yield:<point>" | "done" | "panic"
	events   []schedEvent
	box      *msg.Box
	ids      map[*tss.IncMessage]int
	segments []string // per scheduling step: "<thread>:<events>:<stopped at>"
}

func (sr *schedRun) HandleMessage(m *tss.IncMessage) {
	sr.events = append(sr.events, schedEvent{sr.current, fmt.Sprintf("h%d", sr.ids[m])})
}

// execute runs the given scripts under the schedule chooser; choose is called with the list of
// runnable thread indices and returns the index (into that list) to run next.
func executeSched(scripts [][]boxCall, maxTopics int, choose func(step int, runnable []int) int) (*schedRun, bool) {
	return executeSchedTicks(scripts, maxTopics, 0, choose)
}

// executeSchedTicks: as executeSched, after preTicks clock ticks (so that a garbage collection is due at the first Send)
func executeSchedTicks(scripts [][]boxCall, maxTopics int, preTicks int, choose func(step int, runnable []int) int) (*schedRun, bool) {
	sr := &schedRun{back: make(chan string), ids: map[*tss.IncMessage]int{}}
	topicIx := map[string]int{}
	for t := 0; t < 16; t++ {
		topicIx[string(topicBytes(t))] = t
	}
	tick := make(chan time.Time)
	sr.box = &msg.Box{Logger: nopLogger{}, MaxInFlightTopicsBySender: maxTopics, GCSweep: time.Second, GCExpire: 4 * time.Second,
		NewTicker:      func(time.Duration) *time.Ticker { return &time.Ticker{C: tick} },
		MessageHandler: sr,
		ForwardSend: func(_ uint8, topic []byte, _ []byte, _ ...tss.UniversalID) {
			sr.events = append(sr.events, schedEvent{sr.current, fmt.Sprintf("fs%d", topicIx[string(topic)])})
		}}
	sr.box.VerifSnapshot() // initialise (starts the clock goroutine, which ticks only when a script says so)
	doTick := func() {
		e := sr.box.VerifSnapshot().Epoch
		tick <- time.Time{}
		for sr.box.VerifSnapshot().Epoch == e {
			time.Sleep(20 * time.Microsecond)
		}
	}
	for i := 0; i < preTicks; i++ {
		doTick()
	}
	msg.VerifYield = func(point string) {
		t := sr.threads[sr.current]
		sr.back <- "yield:" + point
		<-t.resume
	}
	defer func() { msg.VerifYield = nil }()
	for i, sc := range scripts {
		th := &schedThread{script: sc, resume: make(chan struct{})}
		sr.threads = append(sr.threads, th)
		go func(i int, th *schedThread) {
			<-th.resume
			res := safely(func() string {
				for _, c := range th.script {
					if c.tick {
						doTick()
					} else if c.send {
						sr.box.Send(uint8(tss.MsgTypeMPC), topicBytes(c.topic), []byte{1}, 1)
					} else {
						m := &tss.IncMessage{Data: []byte{1}, Source: c.src, MsgType: uint8(tss.MsgTypeMPC), Topic: topicBytes(c.topic)}
						sr.ids[m] = c.id
						sr.box.HandleMessage(m)
					}
				}
				return "done"
			})
			sr.back <- res
		}(i, th)
	}
	for step := 0; ; step++ {
		var runnable []int
		for i, th := range sr.threads {
			if !th.done {
				runnable = append(runnable, i)
			}
		}
		if len(runnable) == 0 {
			return sr, true
		}
		if step > 2000 {
			return sr, false
		}
		pick := runnable[choose(step, runnable)]
		sr.current = pick
		before := len(sr.events)
		sr.threads[pick].resume <- struct{}{}
		var res string
		select {
		case res = <-sr.back:
		case <-time.After(10 * time.Second):
			return sr, false // a goroutine blocked although it was the only one running
		}
		var evs []string
		for _, e := range sr.events[before:] {
			evs = append(evs, e.what)
		}
		ev := "-"
		if len(evs) > 0 {
			ev = strings.Join(evs, " ")
		}
		if res == "done" || res == "panic" {
			sr.threads[pick].done = true
		}
		sr.segments = append(sr.segments, fmt.Sprintf("%d|%s|%s", pick, ev, res))
	}
}

// scenario: threads and what each received message's fate must be
type schedScenario struct {
	name     string
	scripts  [][]boxCall
	preTicks int // > 0: a garbage collection is due; monitor-only (the interleaved model has no clock)
}

func schedScenarios() []schedScenario {
	recv := func(src uint16, topic, id int) boxCall { return boxCall{src: src, topic: topic, id: id} }
	send := func(topic int) boxCall { return boxCall{send: true, topic: topic} }
	tick := func() boxCall { return boxCall{tick: true} }
	return []schedScenario{
		{"1recv-1send", [][]boxCall{{recv(1, 0, 1)}, {send(0)}}, 0},
		{"2recv-1send", [][]boxCall{{recv(1, 0, 1)}, {recv(2, 0, 2)}, {send(0)}}, 0},
		{"1recv(2msgs)-1send", [][]boxCall{{recv(1, 0, 1), recv(1, 0, 2)}, {send(0)}}, 0},
		{"2recv(2msgs)-1send", [][]boxCall{{recv(1, 0, 1), recv(1, 0, 2)}, {recv(2, 0, 3), recv(2, 0, 4)}, {send(0)}}, 0},
		{"1recv-2send-same-topic", [][]boxCall{{recv(1, 0, 1), recv(1, 0, 2)}, {send(0)}, {send(0)}}, 0},
		{"2topics", [][]boxCall{{recv(1, 0, 1), recv(1, 1, 2)}, {send(0)}, {send(1)}}, 0},
		{"3recv-1send", [][]boxCall{{recv(1, 0, 1)}, {recv(2, 0, 2)}, {recv(3, 0, 3)}, {send(0)}}, 0},
		// a history rather than a race: one sender, one topic in flight at any time (the limit is 3), six topics one after
		// the other, each with an early message, the first send and a late message — accounting that is not released when
		// a topic starts would throttle the sender from the fifth topic on
		{"sequential-topics", [][]boxCall{{recv(1, 0, 1), send(0), recv(1, 0, 2), recv(1, 1, 3), send(1), recv(1, 1, 4), recv(1, 2, 5), send(2), recv(1, 2, 6),
			recv(1, 3, 7), send(3), recv(1, 3, 8), recv(1, 4, 9), send(4), recv(1, 4, 10), recv(1, 5, 11), send(5), recv(1, 5, 12)}}, 0},
		// a topic that stays in use: the local party sends on it every three epochs (expiry 4), the third send runs a
		// garbage collection; the topic is active, so it must survive it and a later arrival must be handed over
		{"keep-alive", [][]boxCall{{send(0), tick(), tick(), tick(), send(0), tick(), tick(), tick(), send(0), recv(1, 0, 1)}}, 0},
		{"keep-alive/2", [][]boxCall{{send(0), tick(), tick(), tick(), send(0), tick(), tick(), tick(), send(0), tick(), tick(), tick(), send(1), recv(1, 0, 1), recv(2, 0, 2)}}, 0},
		{"sequential-topics/2", [][]boxCall{{recv(1, 0, 1), send(0), recv(1, 1, 3), send(1), recv(1, 2, 5), send(2), recv(1, 3, 7), send(3), recv(1, 4, 9), send(4), recv(1, 5, 11), send(5)},
			{recv(2, 0, 21), recv(2, 5, 22)}}, 0},
		// a garbage collection is due at the first Send (4 epochs have passed); the clock ticks and a message arrives /
		// a topic starts while that collection is under way; nothing is old enough to expire, so nothing may be lost
		{"gc-window/arrival", [][]boxCall{{send(1)}, {tick()}, {recv(1, 0, 1), send(0)}}, 4},
		{"gc-window/start", [][]boxCall{{send(1)}, {tick()}, {send(0), recv(1, 0, 1)}}, 4},
		{"gc-window/both", [][]boxCall{{send(2)}, {tick()}, {recv(1, 0, 1), send(0)}, {send(1), recv(2, 1, 2)}}, 4},
	}
}

// checkSchedOutcome is the direct monitor of C14 on the implementation's hand-over log.
func checkSchedOutcome(s *out.Sink, sc schedScenario, sr *schedRun, schedule []int) {
	replay := fmt.Sprintf("scenario=%s schedule=%v segments=%s", sc.name, schedule, strings.Join(sr.segments, " ; "))
	handed := map[int]int{}
	var order []int
	for _, e := range sr.events {
		if strings.HasPrefix(e.what, "h") {
			var id int
			fmt.Sscanf(e.what, "h%d", &id)
			handed[id]++
			order = append(order, id)
		}
	}
	started := map[int]bool{}
	for _, th := range sc.scripts {
		for _, c := range th {
			if c.send {
				started[c.topic] = true
			}
		}
	}
	pos := map[int]int{}
	for i, id := range order {
		pos[id] = i
	}
	by := map[int]int{} // message id -> thread that handed it over
	for _, e := range sr.events {
		if strings.HasPrefix(e.what, "h") {
			var id int
			fmt.Sscanf(e.what, "h%d", &id)
			by[id] = e.thread
		}
	}
	for ti, th := range sc.scripts {
		// arrival order is required per sender *and topic*: messages of one sender for different topics are released by
		// different first sends, in whatever order the local party makes those
		lastOf := map[int]int{}
		lastIDOf := map[int]int{}
		for _, c := range th {
			last, seen := lastOf[c.topic]
			if !seen {
				last = -1
			}
			lastID := lastIDOf[c.topic]
			if c.send || c.tick {
				continue
			}
			n := handed[c.id]
			if n > 1 {
				s.Violate("C14", fmt.Sprintf("message %d handed to the dispatcher %d times", c.id, n), replay)
			}
			if started[c.topic] && n == 0 {
				s.Violate("C14", fmt.Sprintf("message %d on a started topic was never handed to the dispatcher (lost or stuck in the buffer)", c.id), replay)
			}
			if n >= 1 {
				if pos[c.id] < last {
					how := "other"
					if by[c.id] == ti && by[lastID] != ti {
						// the later arrival was forwarded by its own receiving thread while another thread (a Send) was
						// still draining the earlier, buffered one
						how = "arrival forwarded during a drain"
					}
					s.Violate("C14", fmt.Sprintf("order (%s): message %d of sender %d overtook message %d (arrived earlier on the same connection)", how, c.id, c.src, lastID), replay)
				}
				lastOf[c.topic], lastIDOf[c.topic] = pos[c.id], c.id
			}
		}
	}
}

// boxManySenders: more messages than any one sender may buffer, but from several senders each well within its own limit
// of 100 per topic, are held for a topic before the local party's first send (a large committee and a late local party:
// with reliable broadcast a dozen signers suffice). Every one of them is handed over exactly once at the first send.
func boxManySenders(s *out.Sink) {
	for _, cfg := range [][2]int{{4, 40}, {12, 12}, {3, 100}} {
		senders, each := cfg[0], cfg[1]
		rg := newBoxRig(3, 4)
		id := 0
		for k := 0; k < each; k++ {
			for src := 1; src <= senders; src++ {
				id++
				rg.recv(uint16(src), 0, id)
			}
		}
		ans := rg.send(0)
		handed := map[int]int{}
		for _, f := range strings.Fields(strings.Split(ans, "|")[0]) {
			var x int
			if n, _ := fmt.Sscanf(f, "h%d", &x); n == 1 {
				handed[x]++
			}
		}
		s.N++
		s.Count("many-senders/run")
		s.Distinct[fmt.Sprintf("many senders %dx%d", senders, each)] = struct{}{}
		missing, dup := 0, 0
		first := 0
		for i := 1; i <= id; i++ {
			switch {
			case handed[i] == 0:
				missing++
				if first == 0 {
					first = i
				}
			case handed[i] > 1:
				dup++
			}
		}
		if missing > 0 || dup > 0 {
			s.Violate("C14", fmt.Sprintf("%d senders, %d messages each (every sender within its limit of 100 per topic) held for one topic before the first send: %d of the %d messages were never handed to the dispatcher (the first: message %d of sender %d), %d more than once", senders, each, missing, id, first, (first-1)%senders+1, dup),
				fmt.Sprintf("box with limits 3 topics / 100 messages per sender and topic; %d rounds of one message from each of senders 1..%d on topic 0; then Send on topic 0", each, senders))
		}
	}
}

func runBoxSched(r *prng.R, s *out.Sink, tier string) {
	boxManySenders(s)
	// per scenario: depth-first enumeration of all schedules up to `limit`; a scenario with more schedules than that is
	// not exhausted by a depth-first prefix (which only varies the end of the schedule), so `extra` uniformly random
	// schedules follow
	limit, extra := 4000, 1500
	if tier == "thorough" {
		limit, extra = 60000, 30000
	}
	total := 0
	for _, sc := range schedScenarios() {
		// stateless depth-first enumeration of all schedules: re-execute with a growing prefix
		type frame struct{ choice, width int }
		var stack []frame
		count := 0
		exhaustive := true
		for {
			var trace []frame
			sr, ok := executeSchedTicks(sc.scripts, 3, sc.preTicks, func(step int, runnable []int) int {
				c := 0
				if step < len(stack) {
					c = stack[step].choice
				}
				trace = append(trace, frame{c, len(runnable)})
				return c
			})
			var schedule []int
			for _, sg := range sr.segments {
				var t int
				fmt.Sscanf(sg, "%d|", &t)
				schedule = append(schedule, t)
			}
			count++
			s.Count("schedules/" + sc.name)
			s.Distinct[fmt.Sprintf("%s %v", sc.name, schedule)] = struct{}{}
			if !ok {
				s.Violate("C14", "a goroutine blocked or the run did not terminate under the controlled scheduler", fmt.Sprintf("scenario=%s schedule=%v", sc.name, schedule))
			}
			checkSchedOutcome(s, sc, sr, schedule)
			// feed a sample of complete schedules to the model, step by step
			if sc.preTicks == 0 && !scriptTicks(sc) && (count%97 == 1 || count <= 3) {
				emitSchedOps(s, sc, sr)
			}
			// next schedule
			stack = trace
			for len(stack) > 0 && stack[len(stack)-1].choice+1 >= stack[len(stack)-1].width {
				stack = stack[:len(stack)-1]
			}
			if len(stack) == 0 {
				break
			}
			stack[len(stack)-1].choice++
			if count >= limit {
				exhaustive = false
				break
			}
		}
		if !exhaustive {
			for k := 0; k < extra; k++ {
				sr, ok := executeSchedTicks(sc.scripts, 3, sc.preTicks, func(step int, runnable []int) int { return r.Intn(len(runnable)) })
				var schedule []int
				for _, sg := range sr.segments {
					var t int
					fmt.Sscanf(sg, "%d|", &t)
					schedule = append(schedule, t)
				}
				count++
				s.Count("schedules-random/" + sc.name)
				s.Distinct[fmt.Sprintf("%s %v", sc.name, schedule)] = struct{}{}
				if !ok {
					s.Violate("C14", "a goroutine blocked or the run did not terminate under the controlled scheduler", fmt.Sprintf("scenario=%s schedule=%v", sc.name, schedule))
				}
				checkSchedOutcome(s, sc, sr, schedule)
				if sc.preTicks == 0 && !scriptTicks(sc) && k%97 == 1 {
					emitSchedOps(s, sc, sr)
				}
			}
		}
		s.Extra["schedules/"+sc.name] = count
		s.Extra["exhaustive/"+sc.name] = exhaustive
		total += count
	}
	s.N += total
	keys := make([]string, 0)
	for k := range s.Extra {
		keys = append(keys, k)
	}
	sort.Strings(keys)
}

// scriptTicks: does a scenario move the clock? (the Lean model of the interleaved box has no clock: such scenarios are
// judged by the direct monitors only)
func scriptTicks(sc schedScenario) bool {
	for _, th := range sc.scripts {
		for _, c := range th {
			if c.tick {
				return true
			}
		}
	}
	return false
}

// emitSchedOps writes one complete schedule as operations for the Lean model of the interleaved box.
func emitSchedOps(s *out.Sink, sc schedScenario, sr *schedRun) {
	s.Op("conc/new", false, "boxc new 3 100 4", "ok")
	for i, th := range sc.scripts {
		var parts []string
		for _, c := range th {
			if c.send {
				parts = append(parts, fmt.Sprintf("s%d", c.topic))
			} else {
				parts = append(parts, fmt.Sprintf("r%d.%d.%d", c.src, c.topic, c.id))
			}
		}
		s.Op("conc/thread", false, fmt.Sprintf("boxc thread %d %s", i, strings.Join(parts, ",")), "ok")
	}
	for _, sg := range sr.segments {
		f := strings.SplitN(sg, "|", 3)
		stop := f[2]
		if strings.HasPrefix(stop, "yield:") {
			stop = "y"
		}
		s.Op("conc/step", true, "boxc step "+f[0], f[1]+" | "+stop)
	}
}
