package main

import (
	"context"
	"fmt"
	"runtime"
	"strings"
	"sync"
	"sync/atomic"
	"time"

	"github.com/IBM/TSS/threshold"
	tss "github.com/IBM/TSS/types"

	"verif/internal/out"
	"verif/internal/prng"
)

func init() { components["disp"] = runDisp }

// dispSession holds one real Scheme whose key-generation session is open (reliable-broadcast
// instance registered, backend initialised, backend's KeyGen blocked) so that HandleMessage calls of
// type MPC run the whole dispatch path: handleMPC -> handleAck/handleRBC -> rbcFilter ->
// threadSafeRBC -> rbc.Receiver -> forward closure -> backend.OnMsg, with acknowledgements leaving
// through Send.
type dispSession struct {
	rg      *schemeRig
	cancel  context.CancelFunc
	done    chan error
	topic   []byte
	self    uint16
	ids     []uint16 // the nodes acknowledgements are broadcast to
	session string
	backend *scriptedBackend
}

func openDispSession(self uint16, ids []uint16, permissive bool) (*dispSession, error) {
	return openDispSessionOf("keygen", self, ids, ids, permissive)
}

// openDispSessionOf opens a key-generation or signing session at node `self`: `configured` is the whole
// membership, `agreed` (a subset containing self) the list the synchroniser returns.
func openDispSessionOf(session string, self uint16, configured, agreed []uint16, permissive bool) (*dispSession, error) {
	membership := map[tss.UniversalID]tss.PartyID{}
	for _, id := range configured {
		membership[tss.UniversalID(id)] = tss.PartyID(id)
	}
	ds, err := openDispSessionWith(session, self, membership, agreed, permissive)
	if ds != nil && session != "sign" {
		ds.ids = configured
	}
	return ds, err
}

// openDispSessionWith: the same with an arbitrary node -> party map
func openDispSessionWith(session string, self uint16, membership map[tss.UniversalID]tss.PartyID, agreed []uint16, permissive bool) (*dispSession, error) {
	var configured []uint16
	for id := range membership {
		configured = append(configured, uint16(id))
	}
	rg := newSchemeRig(self, len(agreed)-1, membership, fixedSyncFactory(agreed), permissive)
	rg.scheme.SetStoredData([]byte("stored"))
	ctx, cancel := context.WithCancel(context.Background())
	ds := &dispSession{rg: rg, cancel: cancel, done: make(chan error, 1), topic: sha([]byte("DKG")), self: self, ids: configured, session: session}
	get := func() *scriptedBackend { rg.mu.Lock(); defer rg.mu.Unlock(); return rg.kg }
	if session == "sign" {
		ds.topic = sha([]byte("sign-topic"))
		ds.ids = agreed
		get = func() *scriptedBackend { rg.mu.Lock(); defer rg.mu.Unlock(); return rg.signer }
		go func() {
			_, err := rg.scheme.Sign(ctx, sha([]byte("digest")), "sign-topic")
			ds.done <- err
		}()
	} else {
		go func() {
			_, err := rg.scheme.KeyGen(ctx, len(agreed), len(agreed)-1)
			ds.done <- err
		}()
	}
	b, err, started := waitBackend(get, ds.done)
	if !started {
		cancel()
		return nil, fmt.Errorf("session did not open: %v", err)
	}
	ds.backend = b
	b.takeEvents()
	rg.takeSent()
	return ds, nil
}

func (ds *dispSession) close() {
	ds.backend.release <- nil
	select {
	case <-ds.done:
	case <-time.After(5 * time.Second):
	}
	ds.cancel()
}

// handle feeds one MPC message and returns the canonical answer: backend hand-overs and
// acknowledgements in the order they happened.
func (ds *dispSession) handle(s *out.Sink, src uint16, data []byte) string {
	var evs []string
	order := 0
	_ = order
	ds.backend.onEvent = func(e backendEvent) {
		cls := "p"
		if e.bcast {
			cls = "b"
		}
		evs = append(evs, fmt.Sprintf("deliver %s %d %s", out.Hex(e.payload), e.from, cls))
	}
	ds.rg.onSend = func(m sentMsg) {
		if m.msgType != uint8(tss.MsgTypeMPC) || len(m.data) < 4 || m.data[0] >= 128 {
			evs = append(evs, "send-other")
			return
		}
		evs = append(evs, fmt.Sprintf("ack %s %d %d", out.Hex(m.data[3:]), uint16(m.data[1])<<8|uint16(m.data[2]), m.data[0]))
		// destinations: every configured node but ourselves
		want := 0
		for _, id := range ds.ids {
			if id != ds.self {
				want++
			}
		}
		if len(m.to) != want {
			s.Violate("C04", fmt.Sprintf("acknowledgement sent to %v, expected all %d other members", m.to, want), "")
		}
	}
	res := safely(func() string {
		ds.rg.scheme.HandleMessage(&tss.IncMessage{Data: data, Source: src, MsgType: uint8(tss.MsgTypeMPC), Topic: ds.topic})
		return ""
	})
	ds.backend.onEvent = nil
	ds.rg.onSend = nil
	ds.backend.takeEvents()
	ds.rg.takeSent()
	if res == "panic" {
		evs = append(evs, "panic")
	}
	if len(evs) == 0 {
		return "-"
	}
	return strings.Join(evs, " ; ")
}

func frame(round uint8, class uint8, body []byte) []byte {
	return append([]byte{255, round, class}, body...)
}

func runDisp(r *prng.R, s *out.Sink, tier string) {
	defer dispSearch(r.Fork(), s, tier)
	defer dispConcurrentEquivocation(s, tier)
	defer dispCrossedAcks(s)
	sessions := 150
	if tier == "thorough" {
		sessions = 3000
	}
	for k := 0; k < sessions; k++ {
		n := 2 + r.Intn(4)
		ids := make([]uint16, n)
		base := []uint16{0, 1, 250, 65000}[r.Intn(4)]
		for i := range ids {
			ids[i] = base + uint16(i) + uint16(i)*uint16(r.Intn(2))*128
		}
		self := ids[r.Intn(n)]
		permissive := k%6 == 5
		// the configured membership may be larger than the agreed list: members that were not selected for the
		// session are non-participants, and so are unconfigured outsiders
		configured := append([]uint16{}, ids...)
		var bystanders []uint16
		for e := 0; e < r.Intn(3); e++ {
			b := ids[n-1] + uint16(7+e)
			configured = append(configured, b)
			bystanders = append(bystanders, b)
		}
		session := "keygen"
		if k%2 == 1 {
			session = "sign"
		}
		ds, err := openDispSessionOf(session, self, configured, ids, permissive)
		if err != nil {
			s.Violate("C10", "could not open a session: "+err.Error(), fmt.Sprint(ids))
			continue
		}
		perm := "0"
		if permissive {
			perm = "1"
		}
		newLine := fmt.Sprintf("rbc 0 new %d %d %s %s", self, n, out.U16s(ids), perm)
		s.Op("new/"+session, false, newLine, "ok")
		hist := []string{newLine, fmt.Sprintf("# %s session at node %d, configured %v, agreed %v", session, self, configured, ids)}
		bodies := [][]byte{r.Bytes(3), r.Bytes(1), {}}
		var valid [][2]interface{} // (src, data)
		add := func(src uint16, data []byte) { valid = append(valid, [2]interface{}{src, data}) }
		// honest-looking traffic: every other member broadcasts in rounds 1..2 and everybody acknowledges
		for _, sdr := range ids {
			if sdr == self {
				continue
			}
			for rd := uint8(1); rd <= 2; rd++ {
				pl := frame(rd, 1, bodies[r.Intn(3)])
				add(sdr, pl)
				for _, q := range ids {
					if q != sdr && q != self {
						add(q, threshold.VerifNewRBCEncoding(string(sha(pl[1:])), sdr, rd))
					}
				}
			}
			add(sdr, frame(3, 0, bodies[r.Intn(3)]))
		}
		order := r.Perm(len(valid))
		outsider := uint16(30000 + r.Intn(100))
		for _, oi := range order {
			src := valid[oi][0].(uint16)
			data := valid[oi][1].([]byte)
			tag := "valid"
			switch r.Intn(14) {
			case 0:
				data, tag = data[:r.Intn(len(data)+1)], "truncated"
			case 1:
				data, tag = append(append([]byte{}, data...), r.Bytes(1+r.Intn(3))...), "extended"
			case 2:
				d := append([]byte{}, data...)
				if len(d) > 0 {
					d[r.Intn(len(d))] ^= byte(1 << uint(r.Intn(8)))
				}
				data, tag = d, "bitflip"
			case 3:
				src, tag = outsider, "outsider"
				if len(bystanders) > 0 && r.Bool() {
					src, tag = bystanders[r.Intn(len(bystanders))], "non-selected-member"
				}
			case 4:
				data, tag = []byte{}, "empty"
			case 5:
				data, tag = []byte{[]byte{0, 1, 127, 128, 255}[r.Intn(5)]}, "one-byte"
			case 6:
				data, tag = r.Bytes(r.Intn(12)), "random"
			case 7:
				// acknowledgement with a short digest
				data, tag = threshold.VerifNewRBCEncoding(string(r.Bytes(1+r.Intn(7))), ids[r.Intn(n)], uint8(r.Intn(128))), "short-digest-ack"
			case 8:
				// the sender vouches for itself
				data, tag = threshold.VerifNewRBCEncoding(string(sha(frame(1, 1, bodies[0])[1:])), src, 1), "self-ack"
			}
			ans := ds.handle(s, src, data)
			var tail []byte
			if len(data) > 0 {
				tail = data[1:]
			}
			line := fmt.Sprintf("rbc 0 bytes %d %s %s", src, out.Hex(data), out.Hex(sha(tail)))
			hist = append(hist, line)
			if strings.Contains(ans, "deliver") {
				tag += "+deliver"
			}
			s.Op(tag, true, line, ans)
			if strings.Contains(ans, "panic") {
				s.Violate("C10", "HandleMessage panics on an MPC message", strings.Join(hist, "\n"))
				break
			}
			// C03 at the dispatcher: nothing of an outsider ever reaches the backend or is acknowledged
			if (src == outsider || tag == "non-selected-member" || tag == "non-selected-member+deliver") && ans != "-" {
				s.Violate("C03", "traffic of a non-participant had an effect: "+ans, strings.Join(hist, "\n"))
			}
		}
		ds.close()
	}
}

// dispSearch: a cheap adversary search for C02 through the real dispatcher. Two honest selected signers (1 and 2) of a
// signing session whose agreed list {1,2,3} is a strict subset of the membership {1,2,3,4}; 3 is a corrupted selected
// signer, 4 a corrupted member that was not selected. The adversary picks moves from a menu (either payload to either
// victim, acknowledgements of either digest attributed to 3 or to 4, towards either victim); the honest parties'
// own acknowledgements travel to the other honest party in any order, or not at all. Monitor: the two honest parties
// never hand different payloads of sender 3, round 1 to their protocol instances.
func dispSearch(r *prng.R, s *out.Sink, tier string) {
	trials := 150
	if tier == "thorough" {
		trials = 3000
	}
	configured := []uint16{1, 2, 3, 4}
	agreed := []uint16{1, 2, 3}
	P := [][]byte{frame(1, 1, []byte{0xA1}), frame(1, 1, []byte{0xB2})}
	ackOf := func(p []byte, sender uint16) []byte {
		return threshold.VerifNewRBCEncoding(string(sha(p[1:])), sender, 1)
	}
	found := 0
	for k := 0; k < trials && found < 2; k++ {
		sess := map[uint16]*dispSession{}
		okOpen := true
		for _, id := range []uint16{1, 2} {
			ds, err := openDispSessionOf("sign", id, configured, agreed, false)
			if err != nil {
				okOpen = false
				break
			}
			sess[id] = ds
		}
		if !okOpen {
			for _, ds := range sess {
				ds.close()
			}
			continue
		}
		type fl struct {
			from, to uint16
			data     []byte
			what     string
		}
		var pending []fl
		var hist []string
		handed := map[uint16]string{}
		moves := 4 + r.Intn(7)
		for step := 0; step < 60 && (moves > 0 || len(pending) > 0); step++ {
			var f fl
			if moves > 0 && (len(pending) == 0 || r.Intn(4) != 0) {
				moves--
				to := uint16(1 + r.Intn(2))
				// mostly the consistent split (payload 0 for signer 1, payload 1 for signer 2), sometimes anything
				pi := int(to) - 1
				if r.Intn(5) == 0 {
					pi = r.Intn(2)
				}
				switch r.Intn(4) {
				case 0, 1:
					f = fl{3, to, P[pi], fmt.Sprintf("3 sends payload %d to %d", pi, to)}
				case 2:
					f = fl{4, to, ackOf(P[pi], 3), fmt.Sprintf("4 (not selected) acknowledges payload %d of 3 to %d", pi, to)}
				default:
					f = fl{3, to, ackOf(P[pi], 3), fmt.Sprintf("3 acknowledges its own payload %d to %d", pi, to)}
				}
			} else {
				i := r.Intn(len(pending))
				f = pending[i]
				pending = append(pending[:i:i], pending[i+1:]...)
				if r.Intn(6) == 0 {
					hist = append(hist, "(lost) "+f.what)
					continue
				}
			}
			ans := sess[f.to].handle(s, f.from, f.data)
			hist = append(hist, f.what+"  =>  "+ans)
			for _, ev := range strings.Split(ans, " ; ") {
				w := strings.Fields(ev)
				switch {
				case len(w) == 4 && w[0] == "ack":
					// the honest party's acknowledgement, on its way to the other honest party
					var d []byte
					fmt.Sscanf(w[1], "%x", &d)
					var snd, rnd int
					fmt.Sscanf(w[2], "%d", &snd)
					fmt.Sscanf(w[3], "%d", &rnd)
					other := uint16(3) - f.to
					pending = append(pending, fl{f.to, other, threshold.VerifNewRBCEncoding(string(d), uint16(snd), uint8(rnd)),
						fmt.Sprintf("%d's acknowledgement of %s.. reaches %d", f.to, w[1][:8], other)})
				case len(w) == 4 && w[0] == "deliver" && w[2] == "3" && w[3] == "b":
					handed[f.to] = w[1]
				}
			}
		}
		s.N++
		s.Count("search/dispatcher-trial")
		if handed[1] != "" && handed[2] != "" && handed[1] != handed[2] {
			found++
			s.Violate("C02", fmt.Sprintf("agreement (through the dispatcher): for sender 3, round 1, honest signer 1 handed over %s and honest signer 2 handed over %s", handed[1], handed[2]), strings.Join(hist, "\n"))
		}
		for _, ds := range sess {
			ds.close()
		}
	}
}

// dispConcurrentEquivocation: a corrupted signer (1) sends two different payloads for one round to honest party 2 at the
// same moment, through two dispatcher goroutines (one per connection, say). One message at a time per reliable-broadcast
// instance: party 2 takes one of them and halts at the other. The split is then completed with honest party 3 (which gets
// payload B, party 2's acknowledgement of it, then A) and the hand-overs of the two honest parties are compared.
func dispConcurrentEquivocation(s *out.Sink, tier string) {
	trials := 200
	if tier == "thorough" {
		trials = 2000
	}
	rigLogger = slowRegisterLogger{}
	defer func() { rigLogger = nopLogger{} }()
	ids := []uint16{1, 2, 3}
	A, B := frame(1, 1, []byte{0xA1}), frame(1, 1, []byte{0xB2})
	digestOf := func(p []byte) string { return string(sha(p[1:])) }
	for k := 0; k < trials; k++ {
		P, err := openDispSessionOf("sign", 2, ids, ids, false)
		if err != nil {
			continue
		}
		Q, err := openDispSessionOf("sign", 3, ids, ids, false)
		if err != nil {
			P.close()
			continue
		}
		s.N++
		s.Count("concurrent-equivocation/trial")
		var mu sync.Mutex
		acked := map[uint16]map[string]bool{2: {}, 3: {}}
		handed := map[uint16][]string{}
		watch := func(ds *dispSession) {
			ds.rg.mu.Lock()
			ds.rg.onSend = func(m sentMsg) {
				if m.msgType == uint8(tss.MsgTypeMPC) && len(m.data) > 3 && m.data[0] < 128 {
					mu.Lock()
					acked[ds.self][string(m.data[3:])] = true
					mu.Unlock()
				}
			}
			ds.rg.mu.Unlock()
			ds.backend.mu.Lock()
			ds.backend.onEvent = func(e backendEvent) {
				if e.kind == "onmsg" {
					mu.Lock()
					handed[ds.self] = append(handed[ds.self], out.Hex(e.payload))
					mu.Unlock()
				}
			}
			ds.backend.mu.Unlock()
		}
		watch(P)
		watch(Q)
		give := func(ds *dispSession, src uint16, data []byte) {
			safely(func() string {
				ds.rg.scheme.HandleMessage(&tss.IncMessage{Data: data, Source: src, MsgType: uint8(tss.MsgTypeMPC), Topic: ds.topic})
				return ""
			})
		}
		var ready, goFlag int32
		var wg sync.WaitGroup
		for _, p := range [][]byte{A, B} {
			p := p
			wg.Add(1)
			go func() {
				defer wg.Done()
				atomic.AddInt32(&ready, 1)
				for atomic.LoadInt32(&goFlag) == 0 {
				}
				give(P, 1, p)
			}()
		}
		for atomic.LoadInt32(&ready) < 2 {
			runtime.Gosched()
		}
		atomic.StoreInt32(&goFlag, 1)
		wg.Wait()
		// (party 2 acknowledges both payloads in either case: a receiver that detects the conflict halts, but still
		// acknowledges — Props/C02 agreement covers that. What must not happen is that it stays un-halted.) Complete the
		// split with honest party 3 and compare what the two honest parties hand over.
		ack := func(p []byte) []byte { return threshold.VerifNewRBCEncoding(digestOf(p), 1, 1) }
		give(Q, 1, B)      // the corrupted signer shows B to party 3
		give(Q, 2, ack(B)) // party 2's acknowledgement of B arrives: party 3 hands B over
		give(Q, 1, A)      // now A as well: party 3 halts (and acknowledges A)
		give(P, 3, ack(A)) // party 3's acknowledgement of A reaches party 2
		mu.Lock()
		hp, hq := append([]string(nil), handed[2]...), append([]string(nil), handed[3]...)
		mu.Unlock()
		if len(hp) > 0 && len(hq) > 0 && hp[0] != hq[0] {
			desc := fmt.Sprintf("trial %d: signers 1,2,3; 1 sends payloads a1 and b2 (round 1) to party 2 through two goroutines at once; then to party 3: b2 from 1, 2's acknowledgement of b2, a1 from 1; to party 2: 3's acknowledgement of a1; handed over: party 2 %v, party 3 %v", k, hp, hq)
			s.Violate("C02", fmt.Sprintf("two honest parties handed different payloads of sender 1, round 1 to their protocol instances (party 2: %v, party 3: %v): party 2, given two conflicting payloads at the same moment by two dispatcher goroutines, did not halt", hp, hq), desc)
			P.close()
			Q.close()
			return
		}
		if len(hp) > 0 {
			s.Count("concurrent-equivocation/party-2-handed-over")
		}
		P.close()
		Q.close()
	}
	s.Distinct[fmt.Sprintf("concurrent equivocation %d trials", trials)] = struct{}{}
}

// dispCrossedAcks: two corrupted participants whose identifiers agree in their low byte (1 and 257) show crossed payloads
// to the two honest ones (2 and 3) in one round: 1 sends A to 2 and B to 3, 257 sends B to 2 and A to 3. The honest
// acknowledgements about 257 reach the other honest party before those about 1, followed by 257's own acknowledgement of
// 1's payload. Acknowledgements are attributed to exactly the sender they name: nothing about 257 may count for 1.
func dispCrossedAcks(s *out.Sink) {
	for _, pair := range [][2]uint16{{1, 257}, {44, 300}, {0, 256}, {255, 65535}} {
		x, y := pair[0], pair[1]
		ids := []uint16{x, 2, 3, y}
		membership := map[tss.UniversalID]tss.PartyID{}
		for _, id := range ids {
			membership[tss.UniversalID(id)] = tss.PartyID(id)
		}
		A, err := openDispSessionWith("keygen", 2, membership, ids, false)
		if err != nil {
			continue
		}
		B, err := openDispSessionWith("keygen", 3, membership, ids, false)
		if err != nil {
			A.close()
			continue
		}
		s.N++
		s.Count("crossed-acks/scenario")
		s.Distinct[fmt.Sprintf("crossed acks %d %d", x, y)] = struct{}{}
		mA, mB := frame(1, 1, []byte{0xA1}), frame(1, 1, []byte{0xB2})
		give := func(ds *dispSession, src uint16, data []byte) {
			safely(func() string {
				ds.rg.scheme.HandleMessage(&tss.IncMessage{Data: data, Source: src, MsgType: uint8(tss.MsgTypeMPC), Topic: ds.topic})
				return ""
			})
		}
		acksOf := func(ds *dispSession) (aboutY, aboutX [][]byte) {
			for _, m := range ds.rg.takeSent() {
				if m.msgType != uint8(tss.MsgTypeMPC) || len(m.data) < 4 || m.data[0] >= 128 {
					continue
				}
				switch uint16(m.data[1])<<8 | uint16(m.data[2]) {
				case y:
					aboutY = append(aboutY, m.data)
				case x:
					aboutX = append(aboutX, m.data)
				}
			}
			return
		}
		A.rg.takeSent()
		B.rg.takeSent()
		give(A, x, mA)
		give(B, x, mB)
		give(A, y, mB)
		give(B, y, mA)
		ayA, axA := acksOf(A)
		ayB, axB := acksOf(B)
		digest := func(p []byte) string { return string(sha(p[1:])) }
		for _, a := range ayB { // 3's acknowledgements about y reach 2 first ...
			give(A, 3, a)
		}
		give(A, y, threshold.VerifNewRBCEncoding(digest(mA), x, 1)) // ... then y's own acknowledgement of x's payload A
		for _, a := range ayA {
			give(B, 2, a)
		}
		give(B, y, threshold.VerifNewRBCEncoding(digest(mB), x, 1))
		for _, a := range axB {
			give(A, 3, a)
		}
		for _, a := range axA {
			give(B, 2, a)
		}
		fromX := func(ds *dispSession) []string {
			var l []string
			for _, e := range ds.backend.takeEvents() {
				if e.kind == "onmsg" && e.from == x {
					l = append(l, out.Hex(e.payload))
				}
			}
			return l
		}
		ha, hb := fromX(A), fromX(B)
		if len(ha) > 0 && len(hb) > 0 && ha[0] != hb[0] {
			s.Violate("C02", fmt.Sprintf("two honest parties handed different payloads of sender %d, round 1 to their protocol instances (party 2: %v, party 3: %v): acknowledgements about participant %d were counted for participant %d", x, ha, hb, y, x),
				fmt.Sprintf("participants %v; %d sends a1 to 2 and b2 to 3, %d sends b2 to 2 and a1 to 3 (round 1); each honest party then gets the other's acknowledgements about %d, %d's acknowledgement of %d's payload, and the acknowledgements about %d", ids, x, y, y, y, x, x))
		}
		A.close()
		B.close()
	}
}
