package main

// Component "auth": the transport's connection authentication (net/net.go authenticateConnection, handleConn),
// property C16. Real TLS 1.3 connections over loopback TCP; from a valid handshake of a registered identity every
// field is altered / substituted / replayed, every key type, truncations and garbage. The facts the decision depends
// on (does it decode, does the binding match this connection, PEM, x509, key type, does it re-marshal, does the
// signature verify over the re-marshalled handshake without signature, what does the table say under
// hex(sha256(domain || identity))) are computed here with the standard library, the Lean model
// (Model/Net.lean authenticate) predicts the outcome and the rejecting stage, and the real function's outcome
// and stage (from its log line) are compared. handleConn is then run on a subset to check that a marker frame is
// attributed exactly when, and as, the model says.

import (
	"bytes"
	"crypto/ecdsa"
	"crypto/ed25519"
	"crypto/elliptic"
	"crypto/rand"
	"crypto/rsa"
	"crypto/sha256"
	"crypto/tls"
	"crypto/x509"
	"crypto/x509/pkix"
	"encoding/asn1"
	"encoding/binary"
	"encoding/hex"
	"encoding/pem"
	"fmt"
	"math/big"
	"net"
	"strings"
	"sync"
	"time"

	tssnet "github.com/IBM/TSS/net"
	"github.com/IBM/TSS/testutil/tlsgen"

	"verif/internal/out"
	"verif/internal/prng"
)

func init() { components["auth"] = runAuth }

// stageLogger records which rejection line authenticateConnection logged
type stageLogger struct {
	mu    sync.Mutex
	lines []string
}

func (l *stageLogger) DebugEnabled() bool { return false }
func (l *stageLogger) Debugf(f string, a ...interface{}) {
	l.mu.Lock()
	l.lines = append(l.lines, "D:"+f)
	l.mu.Unlock()
}
func (l *stageLogger) Warnf(f string, a ...interface{}) {
	l.mu.Lock()
	l.lines = append(l.lines, "W:"+f)
	l.mu.Unlock()
}

func (l *stageLogger) stage() string {
	l.mu.Lock()
	defer l.mu.Unlock()
	for _, f := range l.lines {
		switch {
		case strings.HasPrefix(f, "W:failed authenticating"):
			return "read"
		case strings.HasPrefix(f, "W:TLS binding mismatch"):
			return "binding"
		case strings.HasPrefix(f, "W:Identity received is not a PEM"):
			return "pem"
		case strings.Contains(f, "is not a valid x509 certificate"):
			return "x509"
		case strings.Contains(f, "unsupported public key type"):
			return "keytype"
		case strings.Contains(f, "cannot be encoded"):
			return "marshal"
		case strings.HasPrefix(f, "W:Signature mismatch"):
			return "signature"
		case strings.Contains(f, "doesn't exist"):
			return "lookup"
		}
	}
	return "?"
}

type tlsRig struct {
	lsn     net.Listener
	srvConf *tls.Config
	cliConf *tls.Config
}

func newTLSRig() *tlsRig {
	ca, err := tlsgen.NewCA()
	if err != nil {
		panic(err)
	}
	pool := x509.NewCertPool()
	pool.AppendCertsFromPEM(ca.CertBytes())
	sc, err := ca.NewServerCertKeyPair("127.0.0.1")
	if err != nil {
		panic(err)
	}
	cert, err := tls.X509KeyPair(sc.Cert, sc.Key)
	if err != nil {
		panic(err)
	}
	l, err := net.Listen("tcp", "127.0.0.1:0")
	if err != nil {
		panic(err)
	}
	return &tlsRig{lsn: l,
		srvConf: &tls.Config{Certificates: []tls.Certificate{cert}, MinVersion: tls.VersionTLS13, SessionTicketsDisabled: true},
		cliConf: &tls.Config{RootCAs: pool, ServerName: "127.0.0.1", MinVersion: tls.VersionTLS13}}
}

// pair returns the two ends of a fresh, completed TLS 1.3 connection
func (t *tlsRig) pair() (*tls.Conn, *tls.Conn) {
	type acc struct {
		c   net.Conn
		err error
	}
	ch := make(chan acc, 1)
	go func() { c, err := t.lsn.Accept(); ch <- acc{c, err} }()
	raw, err := net.Dial("tcp", t.lsn.Addr().String())
	if err != nil {
		panic(err)
	}
	a := <-ch
	if a.err != nil {
		panic(a.err)
	}
	srv := tls.Server(a.c, t.srvConf)
	cli := tls.Client(raw, t.cliConf)
	done := make(chan error, 1)
	go func() { done <- srv.Handshake() }()
	if err := cli.Handshake(); err != nil {
		panic(err)
	}
	if err := <-done; err != nil {
		panic(err)
	}
	return cli, srv
}

type ident struct {
	name string
	pemB []byte
	sign func(digest []byte) []byte // nil: no usable key
}

func ecdsaIdent(ca tlsgen.CA, name string) ident {
	p, err := ca.NewClientCertKeyPair()
	if err != nil {
		panic(err)
	}
	return ident{name: name, pemB: p.Cert, sign: func(d []byte) []byte {
		s, err := p.Sign(rand.Reader, d, nil)
		if err != nil {
			panic(err)
		}
		return s
	}}
}

func selfSigned(name string, pub, priv interface{}) []byte {
	tpl := &x509.Certificate{SerialNumber: big.NewInt(7), Subject: pkix.Name{CommonName: name}, NotBefore: time.Now().Add(-time.Hour), NotAfter: time.Now().Add(time.Hour)}
	der, err := x509.CreateCertificate(rand.Reader, tpl, tpl, pub, priv)
	if err != nil {
		panic(err)
	}
	return pem.EncodeToMemory(&pem.Block{Type: "CERTIFICATE", Bytes: der})
}

func sha2(b ...[]byte) []byte {
	h := sha256.New()
	for _, x := range b {
		h.Write(x)
	}
	return h.Sum(nil)
}

func tableKey(domain string, identity []byte) string {
	return hex.EncodeToString(sha2([]byte(domain), identity))
}

func hsBytes(h tssnet.Handshake) ([]byte, bool) {
	b, err := asn1.Marshal(h)
	return b, err == nil
}

func frameHS(b []byte) []byte {
	l := make([]byte, 2)
	binary.LittleEndian.PutUint16(l, uint16(len(b)))
	return append(l, b...)
}

// rawDomainHS encodes a handshake whose Domain is an arbitrary ASN.1 string type with arbitrary bytes
func rawDomainHS(tag int, domain []byte, h tssnet.Handshake) []byte {
	b, err := asn1.Marshal(struct {
		Domain     asn1.RawValue
		TLSBinding []byte
		Identity   []byte
		Timestamp  int64
		Signature  []byte
	}{asn1.RawValue{Class: 0, Tag: tag, Bytes: domain}, h.TLSBinding, h.Identity, h.Timestamp, h.Signature})
	if err != nil {
		panic(err)
	}
	return b
}

func runAuth(r *prng.R, s *out.Sink, tier string) {
	cases := 500
	if tier == "thorough" {
		cases = 6000
	}
	rig := newTLSRig()
	defer rig.lsn.Close()
	ca, _ := tlsgen.NewCA()
	otherCA, _ := tlsgen.NewCA()
	// registered identities under domains
	domains := []string{"", "alpha", "beta", "ab\n"}
	var reg []ident
	var regDomain []string
	p2id := map[string]uint16{}
	ids := []uint16{0, 1, 2, 300, 65535}
	for i := range ids {
		id := ecdsaIdent(ca, fmt.Sprintf("reg%d", i))
		reg = append(reg, id)
		d := domains[i%len(domains)]
		regDomain = append(regDomain, d)
		p2id[tableKey(d, id.pemB)] = ids[i]
	}
	// one identity is registered under two domains (with different node numbers): what it signed for one of them must
	// not attribute it under the other
	p2id[tableKey("beta", reg[0].pemB)] = 900
	stranger := ecdsaIdent(otherCA, "stranger")
	rsaKey, _ := rsa.GenerateKey(rand.Reader, 2048)
	rsaPEM := selfSigned("rsa", &rsaKey.PublicKey, rsaKey)
	edPub, edPriv, _ := ed25519.GenerateKey(rand.Reader)
	edPEM := selfSigned("ed", edPub, edPriv)
	p384, _ := ecdsa.GenerateKey(elliptic.P384(), rand.Reader)
	p384PEM := selfSigned("p384", &p384.PublicKey, p384)
	// a registered RSA identity: registration alone must not get an unsupported key type through (nor crash)
	p2id[tableKey("alpha", rsaPEM)] = 77
	p2id[tableKey("", edPEM)] = 78

	var recorded [][]byte // complete valid handshakes recorded on earlier connections
	for c := 0; c < cases; c++ {
		cli, srv := rig.pair()
		cs := cli.ConnectionState()
		binding, err := cs.ExportKeyingMaterial("MPC", []byte("MPC"), 32)
		if err != nil {
			panic(err)
		}
		who := r.Intn(len(reg))
		me := reg[who]
		h := tssnet.Handshake{Domain: regDomain[who], TLSBinding: binding, Identity: me.pemB, Timestamp: time.Now().Unix()}
		signer := me.sign
		what := "valid"
		resign := true
		var wire []byte    // when set, sent instead of the encoding of h
		signedDomain := "" // when what == "signed-for-its-other-registered-domain": the domain the signature covers
		mut := r.Intn(32)
		if c < 32 {
			mut = c
		}
		switch mut {
		case 0, 1, 2:
		case 3:
			h.TLSBinding = append([]byte{}, binding...)
			h.TLSBinding[r.Intn(32)] ^= 1 << uint(r.Intn(8))
			what = "binding-flipped-and-signed"
		case 4:
			h.TLSBinding = nil
			what = "binding-empty"
		case 5:
			if len(recorded) > 0 {
				wire = recorded[r.Intn(len(recorded))]
				what = "replay-of-a-handshake-recorded-on-another-connection"
			}
		case 6:
			other := reg[(who+1)%len(reg)]
			h.Identity = other.pemB
			h.Domain = regDomain[(who+1)%len(reg)]
			what = "another-registered-identity-signed-with-own-key"
		case 7:
			h.Identity, signer = stranger.pemB, stranger.sign
			what = "unregistered-identity-correctly-signed"
		case 8:
			h.Identity, signer = rsaPEM, func(d []byte) []byte {
				sg, _ := rsa.SignPKCS1v15(rand.Reader, rsaKey, 5 /* crypto.SHA256 */, d)
				return sg
			}
			h.Domain = "alpha"
			what = "registered-rsa-identity"
		case 9:
			h.Identity, signer = edPEM, func(d []byte) []byte { return ed25519.Sign(edPriv, d) }
			h.Domain = ""
			what = "registered-ed25519-identity"
		case 10:
			h.Identity, signer = p384PEM, func(d []byte) []byte { sg, _ := ecdsa.SignASN1(rand.Reader, p384, d); return sg }
			what = "unregistered-p384-identity"
		case 11:
			h.Identity = []byte("not a pem at all")
			what = "identity-not-pem"
		case 12:
			h.Identity = pem.EncodeToMemory(&pem.Block{Type: "CERTIFICATE", Bytes: r.Bytes(40 + r.Intn(200))})
			what = "identity-pem-of-garbage"
		case 13:
			resign = false
			what = "signature-missing"
		case 14:
			what = "signature-flipped"
		case 15:
			signer = reg[(who+1)%len(reg)].sign
			what = "signature-by-another-registered-key"
		case 16:
			what = "signature-over-another-domain"
		case 17:
			h.Domain = domains[(who+1)%len(domains)]
			if h.Domain == regDomain[who] {
				h.Domain = "gamma"
			}
			what = "other-domain-correctly-signed"
		case 18:
			what = "truncated-encoding"
		case 19:
			wire = r.Bytes(1 + r.Intn(300))
			what = "random-bytes"
		case 20:
			what = "domain-as-T61String-with-invalid-utf8"
		case 21:
			what = "domain-as-other-string-type"
		case 22:
			h.Timestamp = time.Now().Add(-24 * time.Hour).Unix()
			what = "old-timestamp"
		case 23:
			// the registered pair ("ab\n", I) claimed as ("a", "b\n" || I): same table key, PEM decoding skips the line before the block
			who = 3 % len(reg)
			for i := range reg {
				if regDomain[i] == "ab\n" {
					who = i
				}
			}
			me = reg[who]
			signer = me.sign
			h.Domain = "a"
			h.Identity = append([]byte("b\n"), me.pemB...)
			what = "domain-identity-boundary-shifted"
		case 24:
			h.Identity = append(append([]byte{}, me.pemB...), []byte("trailing")...)
			what = "identity-with-trailing-bytes"
		case 25:
			what = "length-prefix-larger-than-data"
		case 26:
			what = "trailing-bytes-after-handshake"
		case 27, 28:
			// reg[0] is registered as ("", I) and as ("beta", I): signed for the one, presented under the other
			who = 0
			me = reg[0]
			signer = me.sign
			if mut == 27 {
				signedDomain, h.Domain = "", "beta"
			} else {
				signedDomain, h.Domain = "beta", ""
			}
			what = "signed-for-its-other-registered-domain"
		default:
		}
		if resign {
			b, ok := hsBytes(h)
			if ok {
				d := sha2(b)
				if what == "signature-over-another-domain" {
					h2 := h
					h2.Domain = h.Domain + "x"
					b2, _ := hsBytes(h2)
					d = sha2(b2)
				}
				if what == "signed-for-its-other-registered-domain" {
					h2 := h
					h2.Domain = signedDomain
					b2, _ := hsBytes(h2)
					d = sha2(b2)
				}
				h.Signature = signer(d)
				if what == "signature-flipped" && len(h.Signature) > 0 {
					h.Signature[r.Intn(len(h.Signature))] ^= 1 << uint(r.Intn(8))
				}
			}
		}
		if wire == nil {
			enc, ok := hsBytes(h)
			if !ok {
				panic("harness: handshake does not marshal")
			}
			switch what {
			case "domain-as-T61String-with-invalid-utf8":
				enc = rawDomainHS(20, []byte{0xff, 0xfe, 'x'}, h)
			case "domain-as-other-string-type":
				enc = rawDomainHS([]int{19, 22, 18, 12, 20}[r.Intn(5)], []byte(regDomain[who]), h)
			case "truncated-encoding":
				enc = enc[:r.Intn(len(enc))]
			}
			wire = frameHS(enc)
			switch what {
			case "length-prefix-larger-than-data":
				binary.LittleEndian.PutUint16(wire, uint16(len(enc)+1+r.Intn(50)))
			case "trailing-bytes-after-handshake":
				// (what follows the handshake is the first frame; nothing to do here)
			case "valid":
				if len(recorded) < 20 {
					recorded = append(recorded, wire)
				}
			}
		}
		// ---- facts, computed independently of authenticateConnection --------------------------------------------
		// (Handshake.Read sees the whole stream: a length prefix that reaches into the first frame swallows part of it)
		marker := r.Bytes(8)
		frame := append([]byte{0, 8, 0, 0, 0}, marker...)
		var dh tssnet.Handshake
		readOK := dh.Read(bytes.NewReader(append(append([]byte{}, wire...), frame...))) == nil
		facts := []string{out.Hex(binding)}
		pemOK, parseOK, keyOK, marshalOK, verifyOK := false, false, false, false, false
		table := "-"
		if readOK {
			if bl, _ := pem.Decode(dh.Identity); bl != nil {
				pemOK = true
				if cert, err := x509.ParseCertificate(bl.Bytes); err == nil {
					parseOK = true
					if pk, ok := cert.PublicKey.(*ecdsa.PublicKey); ok {
						keyOK = true
						h0 := dh
						h0.Signature = nil
						if b, ok := hsBytes(h0); ok {
							marshalOK = true
							verifyOK = ecdsa.VerifyASN1(pk, sha2(b), dh.Signature)
						}
					}
				}
			}
			if id, ok := p2id[tableKey(dh.Domain, dh.Identity)]; ok {
				table = fmt.Sprint(id)
			}
		}
		b01 := func(b bool) string {
			if b {
				return "1"
			}
			return "0"
		}
		facts = append(facts, b01(readOK), out.Hex([]byte(dh.Domain)), out.Hex(dh.TLSBinding), b01(pemOK), b01(parseOK), b01(keyOK), b01(marshalOK), b01(verifyOK), table)
		// ---- the real function ------------------------------------------------------------------------------------
		lg := &stageLogger{}
		go func() {
			cli.Write(wire)
			// one frame after the handshake: type 0, no topic
			cli.Write(frame)
			time.Sleep(2 * time.Millisecond)
			cli.Close()
		}()
		// (a length prefix that reaches into the first frame damages that frame: the outcome of the authentication is then
		// not observable through a delivered message, so that case always goes through authenticateConnection)
		viaHandle := r.Intn(3) == 0 && what != "length-prefix-larger-than-data"
		ans := ""
		if !viaHandle {
			var d string
			var id uint16
			var ok bool
			srv.SetReadDeadline(time.Now().Add(20 * time.Second))
			res := safely(func() string { d, id, ok = tssnet.VerifAuthenticateConnection(p2id, srv, lg); return "" })
			switch {
			case res == "panic":
				ans = "panic"
				s.Violate("C16", "authenticateConnection panics on a handshake a remote peer can send: "+what, out.Hex(wire))
				s.Violate("C10", "net.authenticateConnection panics ("+what+")", out.Hex(wire))
			case ok:
				ans = fmt.Sprintf("accept %s %d", out.Hex([]byte(d)), id)
			default:
				ans = "reject " + lg.stage()
			}
		} else {
			// through handleConn: what appears on the channel
			in := make(chan tssnet.InMsg, 4)
			var stop uint32
			srv.SetReadDeadline(time.Now().Add(20 * time.Second))
			res := safely(func() string { tssnet.VerifHandleConn(p2id, srv, in, &stop, lg); return "" })
			close(in)
			var got []tssnet.InMsg
			for m := range in {
				got = append(got, m)
			}
			switch {
			case res == "panic":
				ans = "panic"
				s.Violate("C16", "handleConn panics on a handshake a remote peer can send: "+what, out.Hex(wire))
			case len(got) == 0:
				ans = "reject " + lg.stage()
			default:
				ans = fmt.Sprintf("accept %s %d", out.Hex([]byte(got[0].Domain)), got[0].From)
				if what != "length-prefix-larger-than-data" && (len(got) != 1 || !bytes.Equal(got[0].Data, marker) || got[0].Type != 0 || len(got[0].Topic) != 0) {
					s.Violate("C17", "the frame sent after the handshake was not delivered exactly once and unmodified", out.Hex(wire))
				}
			}
		}
		srv.Close()
		// direct monitor, independent of the model: attribution only with all of the facts
		if strings.HasPrefix(ans, "accept") {
			okAll := readOK && bytes.Equal(dh.TLSBinding, binding) && pemOK && parseOK && keyOK && marshalOK && verifyOK && table != "-"
			if !okAll {
				s.Violate("C16", fmt.Sprintf("a connection was attributed (%s) although not all conditions hold (%s): facts %v", ans, what, facts), out.Hex(wire))
			}
			// the label: was (domain, identity) registered as such?
			if okAll && what == "domain-identity-boundary-shifted" {
				s.Violate("C16", "domain/identity boundary: the pair registered as (\"ab\\n\", I) is attributed under the never-registered domain \"a\" when it claims (\"a\", \"b\\n\"||I)", out.Hex(wire))
			}
		}
		mode := "auth"
		if viaHandle {
			mode = "handle"
		}
		s.Op("auth/"+mode+"/"+what, true, "net auth "+strings.Join(facts, " "), ans)
	}
}
