package main

// Component "reuse": a second signing session on a topic that was used before, in silent mode (C12: "a later Sign on the
// same topic is admitted and can succeed"). Two parties, the BLS partial signer made interactive by one point-to-point
// round (helloSigner). The first session runs to completion at both. In the second session party 1 calls Sign first; its
// message reaches party 2 before party 2 has called Sign — as a faster party's first message does in every session.
// In a session on a fresh topic the silent-mode buffer keeps that message until party 2's own first send. Here the
// buffer still lists the topic as started (it does so until the topic expires, two minutes after its first send), hands
// the message straight to the dispatcher, which has no session registered yet and drops it; party 2 then waits for it
// until its deadline.

import (
	"context"
	"fmt"
	"time"

	"verif/internal/out"
	"verif/internal/prng"
)

func init() { components["reuse"] = runReuse }

func runReuse(r *prng.R, s *out.Sink, tier string) {
	ids := []uint16{1, 2}
	c := stackCfg{scheme: "bls-hello", mode: "silent", n: 2, t: 2, ids: ids, msgLen: 0}
	net, nodes := buildStack(r, c)
	defer net.stop()
	res := keygenAll(nodes, ids, 2, 2, 60*time.Second)
	for _, id := range ids {
		if res[id].err != nil {
			s.Violate("C01", fmt.Sprintf("KeyGen failed at party %d in a fault-free run: %v", id, res[id].err), "topic-reuse scenario")
			return
		}
		nodes[id].SetStoredData(res[id].data)
	}
	digest := sha([]byte("m"))
	run := func(topic string, stagger time.Duration) map[uint16]error {
		errs := map[uint16]error{}
		ch := make(chan struct {
			id  uint16
			err error
		}, 2)
		for i, id := range ids {
			id := id
			delay := time.Duration(i) * stagger
			go func() {
				time.Sleep(delay)
				ctx, cancel := context.WithTimeout(context.Background(), 3*time.Second)
				defer cancel()
				_, err := nodes[id].Sign(ctx, digest, topic)
				ch <- struct {
					id  uint16
					err error
				}{id, err}
			}()
		}
		for range ids {
			x := <-ch
			errs[x.id] = x.err
		}
		return errs
	}
	s.N++
	s.Count("reuse/scenario")
	s.Distinct["silent-mode topic reuse"] = struct{}{}
	// control 1: a fresh topic, party 2 late by 150 ms: the buffer bridges the gap
	if e := run("reuse-fresh-topic", 150*time.Millisecond); e[1] != nil || e[2] != nil {
		s.Violate("C12", fmt.Sprintf("harness control: a staggered silent-mode Sign on a fresh topic failed (%v / %v)", e[1], e[2]), "topic-reuse scenario")
		return
	}
	// the topic's first session
	if e := run("reuse-topic", 0); e[1] != nil || e[2] != nil {
		s.Violate("C12", fmt.Sprintf("harness control: the first silent-mode Sign on the topic failed (%v / %v)", e[1], e[2]), "topic-reuse scenario")
		return
	}
	// the second session on the same topic, party 2 late by 150 ms
	e := run("reuse-topic", 150*time.Millisecond)
	s.Count(fmt.Sprintf("reuse/second-session party1-ok=%v party2-ok=%v", e[1] == nil, e[2] == nil))
	if e[1] != nil || e[2] != nil {
		s.Violate("C12", fmt.Sprintf("silent-mode topic reuse: the second Sign on a topic whose first session has ended does not succeed when one party calls Sign 150 ms after the other (party 1: %v, party 2: %v); the same staggered Sign on a fresh topic succeeds", e[1], e[2]),
			"silent mode, n=2, t=2, BLS signer with one point-to-point round; Sign(topic) completes at both parties; Sign(topic) again, party 2 starting 150 ms after party 1")
	}
}
