package main

import (
	"fmt"
	"strings"
	"time"

	"github.com/IBM/TSS/msg"
	tss "github.com/IBM/TSS/types"

	"verif/internal/out"
	"verif/internal/prng"
)

func init() { components["box"] = runBox }

// boxRig is a real msg.Box with an injected ticker (virtual epoch clock), a recording dispatcher and
// a recording ForwardSend.
type boxRig struct {
	box    *msg.Box
	tickCh chan time.Time
	events []string
	ids    map[*tss.IncMessage]int
}

type recHandler struct{ rig *boxRig }

func (h recHandler) HandleMessage(m *tss.IncMessage) {
	h.rig.events = append(h.rig.events, fmt.Sprintf("h%d", h.rig.ids[m]))
}

func topicBytes(t int) []byte { return sha([]byte(fmt.Sprintf("topic-%d", t))) }

func newBoxRig(maxTopics int, expiryEpochs int) *boxRig {
	rg := &boxRig{tickCh: make(chan time.Time), ids: map[*tss.IncMessage]int{}}
	topicIx := map[string]int{}
	for t := 0; t < 64; t++ {
		topicIx[string(topicBytes(t))] = t
	}
	rg.box = &msg.Box{
		Logger:                    nopLogger{},
		MaxInFlightTopicsBySender: maxTopics,
		GCSweep:                   time.Second,
		GCExpire:                  time.Duration(expiryEpochs) * time.Second,
		NewTicker:                 func(time.Duration) *time.Ticker { return &time.Ticker{C: rg.tickCh} },
		MessageHandler:            recHandler{rg},
		ForwardSend: func(msgType uint8, topic []byte, m []byte, to ...tss.UniversalID) {
			rg.events = append(rg.events, fmt.Sprintf("fs%d", topicIx[string(topic)]))
		},
	}
	return rg
}

func (rg *boxRig) snap() string {
	s := rg.box.VerifSnapshot()
	return fmt.Sprintf("P%d B%d S%d I%d E%d G%d", s.PendingTopics, s.BufferedMsgs, s.StartedTopics, s.InFlightTopics, s.Epoch, s.LastGC)
}

func (rg *boxRig) take() string {
	ev := "-"
	if len(rg.events) > 0 {
		ev = strings.Join(rg.events, " ")
	}
	rg.events = rg.events[:0]
	return ev + " | " + rg.snap()
}

func (rg *boxRig) recv(src uint16, topic int, id int) string {
	m := &tss.IncMessage{Data: []byte{1}, Source: src, MsgType: uint8(tss.MsgTypeMPC), Topic: topicBytes(topic)}
	rg.ids[m] = id
	r := safely(func() string { rg.box.HandleMessage(m); return "" })
	if r == "panic" {
		return "panic"
	}
	return rg.take()
}

func (rg *boxRig) send(topic int) string {
	r := safely(func() string { rg.box.Send(uint8(tss.MsgTypeMPC), topicBytes(topic), []byte{2}, 1); return "" })
	if r == "panic" {
		return "panic"
	}
	return rg.take()
}

func (rg *boxRig) tick() string {
	before := rg.box.VerifSnapshot().Epoch
	rg.tickCh <- time.Now()
	for i := 0; rg.box.VerifSnapshot().Epoch == before; i++ {
		time.Sleep(20 * time.Microsecond)
		if i > 200000 {
			return "clock-stuck"
		}
	}
	return rg.take()
}

// boxMonitor checks C15 directly on the implementation: a sender that is within the limits at every
// moment must have every message handed over once its topic starts (no stale throttling), and after
// a long idle stretch followed by a Send nothing buffered earlier may remain.
type boxMonitor struct {
	live    map[uint16]map[int]bool // sender -> topics it has unfinished (not started, not expired) messages on
	within  map[uint16]bool         // sender never exceeded the limits
	waiting map[int][]int           // topic -> ids accepted as within-limit, not yet handed over
}

func runBox(r *prng.R, s *out.Sink, tier string) {
	histories, maxOps := 120, 300
	if tier == "thorough" {
		histories, maxOps = 1500, 1500
	}
	nextID := 0
	// a scripted history first: two topics that never start are kept busy by senders that are over the per-topic message
	// limit (so their messages are dropped). Dropped traffic must not keep a topic alive: what sender 1 buffered on them at
	// epoch 0 is discarded after the expiry period and its in-flight accounting with it, so that sender 1 — silent ever
	// since — is not throttled on a fresh topic many periods later.
	for _, expiry := range []int{2, 3, 4} {
		rg := newBoxRig(1, expiry)
		var hist []string
		emit := func(kind string, op, ans string) string {
			s.Op(kind, true, op, ans)
			hist = append(hist, op+"   => "+ans)
			return ans
		}
		handedIn := func(ans string, id int) bool {
			for _, f := range strings.Fields(strings.Split(ans, "|")[0]) {
				var x int
				if n, _ := fmt.Sscanf(f, "h%d", &x); n == 1 && x == id {
					return true
				}
			}
			return false
		}
		emit("new", fmt.Sprintf("box new 1 100 %d", expiry), "ok")
		nextID++
		a := nextID
		emit("keepalive/honest", fmt.Sprintf("box recv 1 50 %d", a), rg.recv(1, 50, a))
		nextID++
		emit("keepalive/honest", fmt.Sprintf("box recv 1 49 %d", nextID), rg.recv(1, 49, nextID))
		for k := 0; k < 104; k++ {
			nextID++
			emit("keepalive/flood", fmt.Sprintf("box recv 2 50 %d", nextID), rg.recv(2, 50, nextID))
			nextID++
			emit("keepalive/flood", fmt.Sprintf("box recv 3 49 %d", nextID), rg.recv(3, 49, nextID))
		}
		for period := 0; period < 4; period++ {
			for k := 0; k < expiry+1; k++ {
				emit("keepalive/tick", "box tick", rg.tick())
			}
			nextID++
			emit("keepalive/over-limit", fmt.Sprintf("box recv 2 50 %d", nextID), rg.recv(2, 50, nextID))
			nextID++
			emit("keepalive/over-limit", fmt.Sprintf("box recv 3 49 %d", nextID), rg.recv(3, 49, nextID))
			emit("keepalive/send", fmt.Sprintf("box send %d", 51+period), rg.send(51+period))
		}
		nextID++
		z := nextID
		emit("keepalive/fresh", fmt.Sprintf("box recv 1 60 %d", z), rg.recv(1, 60, z))
		if ans := emit("keepalive/fresh-send", "box send 60", rg.send(60)); !handedIn(ans, z) {
			s.Violate("C15", fmt.Sprintf("sender 1, silent for %d expiry periods, is throttled on a fresh topic because of two never-started topics that only dropped (over-limit) traffic of others kept busy (expiry %d epochs): %s", 4, expiry, rg.snap()), strings.Join(hist, "\n"))
		}
		if ans := emit("keepalive/stale-send", "box send 50", rg.send(50)); handedIn(ans, a) {
			s.Violate("C15", fmt.Sprintf("a message buffered at epoch 0 for a topic that did not start for %d expiry periods (expiry %d epochs) was never discarded: it is handed over when the topic finally starts", 4, expiry), strings.Join(hist, "\n"))
		}
	}
	// steady traffic: the local party sends on a fresh topic every two epochs (less than the expiry period apart) for many
	// expiry periods. The collection runs during Sends, at most once per expiry period — but it must keep running: what
	// sender 7 parked at epoch 0 on topics that never start is discarded, and sender 7 is served on a fresh topic.
	for _, expiry := range []int{3, 4, 6} {
		rg := newBoxRig(2, expiry)
		var hist []string
		emit := func(kind string, op, ans string) string {
			s.Op(kind, true, op, ans)
			hist = append(hist, op+"   => "+ans)
			return ans
		}
		emit("new", fmt.Sprintf("box new 2 100 %d", expiry), "ok")
		for t := 0; t < 3; t++ {
			nextID++
			emit("steady/park", fmt.Sprintf("box recv 7 %d %d", 40+t, nextID), rg.recv(7, 40+t, nextID))
		}
		for k := 0; k < 5*expiry; k++ {
			emit("steady/tick", "box tick", rg.tick())
			emit("steady/tick", "box tick", rg.tick())
			emit("steady/send", fmt.Sprintf("box send %d", k%30), rg.send(k%30))
		}
		if sn := rg.box.VerifSnapshot(); sn.BufferedMsgs != 0 || sn.PendingTopics != 0 || sn.InFlightTopics != 0 {
			s.Violate("C15", fmt.Sprintf("under steady traffic (a Send every two epochs for %d epochs, expiry %d) data parked at epoch 0 on topics that never start was never discarded: %s", 10*expiry, expiry, rg.snap()), strings.Join(hist, "\n"))
		}
		nextID++
		z := nextID
		emit("steady/fresh", fmt.Sprintf("box recv 7 60 %d", z), rg.recv(7, 60, z))
		ans := emit("steady/fresh-send", "box send 60", rg.send(60))
		found := false
		for _, f := range strings.Fields(strings.Split(ans, "|")[0]) {
			var x int
			if n, _ := fmt.Sscanf(f, "h%d", &x); n == 1 && x == z {
				found = true
			}
		}
		if !found {
			s.Violate("C15", fmt.Sprintf("sender 7, silent for %d epochs (expiry %d) while the local party kept sending, is still throttled by its expired topics: its message on a fresh topic is not handed over", 10*expiry, expiry), strings.Join(hist, "\n"))
		}
	}
	for h := 0; h < histories; h++ {
		maxTopics := 1 + r.Intn(4)
		expiry := 2 + r.Intn(3)
		rg := newBoxRig(maxTopics, expiry)
		var hist []string
		emit := func(kind string, nontrivial bool, op, ans string) {
			s.Op(kind, nontrivial, op, ans)
			hist = append(hist, op)
			if ans == "panic" || ans == "clock-stuck" {
				s.Violate("C15", "message box "+ans+" (shedding must never fail)", strings.Join(hist, "\n"))
			}
		}
		emit("new", false, fmt.Sprintf("box new %d 100 %d", maxTopics, expiry), "ok")
		// well-behaved sender 9: at most maxTopics live topics, few messages each; must never lose a message
		// on a topic that starts before it expires. Tracked by epoch arithmetic on the harness side.
		type liveT struct {
			lastUsed int
			ids      []int
		}
		good := map[int]*liveT{}
		srcOf := map[int]uint16{}
		epoch := 0
		lastGC := uint64(0)
		// a collection (observable through lastGC) discards, as documented, what was unused for more than
		// `expiry` epochs; until it runs, expired topics still count against the sender
		collect := func() {
			if g := rg.box.VerifSnapshot().LastGC; g != lastGC {
				lastGC = g
				for t, lt := range good {
					if int(g)-lt.lastUsed > expiry {
						delete(good, t)
					}
				}
			}
		}
		nOps := 40 + r.Intn(maxOps)
		for i := 0; i < nOps; i++ {
			switch x := r.Intn(100); {
			case x < 45:
				src := uint16(1 + r.Intn(3))
				topic := r.Intn(8)
				nextID++
				srcOf[nextID] = src
				emit("recv", true, fmt.Sprintf("box recv %d %d %d", src, topic, nextID), rg.recv(src, topic, nextID))
			case x < 60:
				// the well-behaved sender, only if it stays within the limits
				topic := 10 + r.Intn(10)
				if _, ok := good[topic]; !ok && len(good) >= maxTopics {
					continue
				}
				nextID++
				srcOf[nextID] = 9
				ans := rg.recv(9, topic, nextID)
				emit("recv-good", true, fmt.Sprintf("box recv 9 %d %d", topic, nextID), ans)
				if strings.HasPrefix(ans, "h") {
					continue // topic already started: handed over at once
				}
				if good[topic] == nil {
					good[topic] = &liveT{}
				}
				good[topic].lastUsed = epoch
				good[topic].ids = append(good[topic].ids, nextID)
			case x < 75:
				topic := r.Intn(8)
				if r.Intn(2) == 0 {
					topic = 10 + r.Intn(10)
				}
				ans := rg.send(topic)
				emit("send", true, fmt.Sprintf("box send %d", topic), ans)
				if lt, ok := good[topic]; ok {
					{
						for _, id := range lt.ids {
							if !strings.Contains(" "+strings.Split(ans, "|")[0], fmt.Sprintf(" h%d ", id)) {
								s.Violate("C15", fmt.Sprintf("within-limit sender 9: message %d on topic %d was not handed over when the topic started (stale throttling or loss)", id, topic), strings.Join(hist, "\n"))
							}
						}
					}
					delete(good, topic)
				}
				collect()
			case x < 90:
				emit("tick", true, "box tick", rg.tick())
				epoch++
			case x < 94:
				// burst across the per-sender limit
				src := uint16(1 + r.Intn(3))
				topic := r.Intn(8)
				for k := 0; k < 95+r.Intn(15); k++ {
					nextID++
					srcOf[nextID] = src
					emit("burst", true, fmt.Sprintf("box recv %d %d %d", src, topic, nextID), rg.recv(src, topic, nextID))
				}
			case x < 97:
				// idle stretch longer than the expiry, then a Send: everything buffered before must be gone
				for k := 0; k < 2*expiry+2; k++ {
					emit("idle-tick", true, "box tick", rg.tick())
					epoch++
				}
				ans := rg.send(30)
				emit("send-after-idle", true, "box send 30", ans)
				if sn := rg.box.VerifSnapshot(); sn.BufferedMsgs != 0 || sn.PendingTopics != 0 || sn.InFlightTopics != 0 {
					s.Violate("C15", fmt.Sprintf("data buffered before an idle stretch of %d epochs (expiry %d) survived the next Send: %s", 2*expiry+2, expiry, rg.snap()), strings.Join(hist, "\n"))
				}
				good = map[int]*liveT{}
				collect()
			default:
				// many topics from one sender: crosses MaxInFlightTopicsBySender
				src := uint16(1 + r.Intn(3))
				for k := 0; k < maxTopics+3; k++ {
					nextID++
					srcOf[nextID] = src
					emit("topic-flood", true, fmt.Sprintf("box recv %d %d %d", src, 40+k, nextID), rg.recv(src, 40+k, nextID))
				}
			}
			// bound on buffered topics per sender, by behaviour: now and then start every topic and count, per sender,
			// on how many topics messages of that sender come out of the buffer at this one moment
			if i == nOps-1 || r.Intn(60) == 0 {
				perSender := map[uint16]map[int]bool{}
				perST := map[[2]int]int{} // messages of one sender that come out of the buffer for one topic
				for t := 0; t < 64; t++ {
					if rg.box.VerifSnapshot().BufferedMsgs == 0 {
						break
					}
					ans := rg.send(t)
					emit("release-all", true, fmt.Sprintf("box send %d", t), ans)
					for _, f := range strings.Fields(strings.Split(ans, "|")[0]) {
						var id int
						if n, _ := fmt.Sscanf(f, "h%d", &id); n == 1 {
							src := srcOf[id]
							if perSender[src] == nil {
								perSender[src] = map[int]bool{}
							}
							perSender[src][t] = true
							perST[[2]int{int(src), t}]++
						}
					}
				}
				for st, n := range perST {
					if n > 100+1 {
						s.Violate("C15", fmt.Sprintf("%d messages of sender %d were buffered for topic %d, the limit per sender and topic is 100 (give or take one)", n, st[0], st[1]), strings.Join(hist, "\n"))
					}
				}
				for src, ts := range perSender {
					if len(ts) > maxTopics+1 {
						s.Violate("C15", fmt.Sprintf("sender %d had messages buffered on %d topics at once, the limit is %d (give or take one)", src, len(ts), maxTopics), strings.Join(hist, "\n"))
					}
				}
				good = map[int]*liveT{}
				collect()
			}
			// bounds, directly on the implementation
			sn := rg.box.VerifSnapshot()
			if sn.InFlightTopics > 4*(maxTopics+1) {
				s.Violate("C15", fmt.Sprintf("in-flight topics %d exceed senders x (max+1) = %d", sn.InFlightTopics, 4*(maxTopics+1)), strings.Join(hist, "\n"))
			}
		}
	}
}
