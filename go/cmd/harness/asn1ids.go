package main

import (
	"encoding/asn1"
	"fmt"

	"github.com/IBM/TSS/mpc/bls"
	math "github.com/IBM/mathlib"

	"verif/internal/out"
	"verif/internal/prng"
)

func init() { components["asn1ids"] = runASN1IDs }

// Saved key material and public parameters across the identifier range: real Marshal/Unmarshal,
// real Verifier.Init, and the party -> evaluation point table must know every encoded party.
func runASN1IDs(r *prng.R, s *out.Sink, tier string) {
	c := math.Curves[1]
	g2 := c.GenG2.Bytes()
	g1 := c.GenG1.Bytes()
	try := func(parties []uint16) {
		s.Count("party-lists")
		s.Distinct[out.U16s(parties)] = struct{}{}
		s.N++
		res := safely(func() string {
			pks := make([][]byte, len(parties))
			sigs := make([][]byte, len(parties))
			for i := range pks {
				pks[i] = g2
				sigs[i] = g1
			}
			sd, err := asn1.Marshal(bls.StoredData{Sk: c.NewZrFromInt(5).Bytes(), PublicKeys: pks, ThresholdPK: g2})
			if err != nil {
				return "marshal: " + err.Error()
			}
			t := &bls.TBLS{Party: parties[0]}
			t.Init(parties, 2, func([]byte, bool, uint16) {})
			if err := t.SetShareData(sd); err != nil {
				return "SetShareData: " + err.Error()
			}
			pp, err := t.ThresholdPK()
			if err != nil {
				return "ThresholdPK: " + err.Error()
			}
			var back bls.PublicParams
			if _, err := asn1.Unmarshal(pp, &back); err != nil {
				return "unmarshal: " + err.Error()
			}
			if len(back.Parties) != len(parties) {
				return "party count changed"
			}
			for i := range parties {
				if uint16(back.Parties[i]) != parties[i] || back.Parties[i] != int(parties[i]) {
					return fmt.Sprintf("party %d came back as %d", parties[i], back.Parties[i])
				}
			}
			v := &bls.Verifier{}
			if err := v.Init(pp); err != nil {
				return "Verifier.Init: " + err.Error()
			}
			if _, err := v.AggregateSignatures(sigs, parties); err != nil {
				return "AggregateSignatures: " + err.Error()
			}
			return "ok"
		})
		if len(s.Samples) < 4 {
			s.Samples = append(s.Samples, fmt.Sprintf("stored data + public parameters for parties %v => %s", parties, res))
		}
		if res != "ok" {
			s.Violate("C13", "public parameters for parties "+out.U16s(parties)+" do not survive serialisation: "+res, out.U16s(parties))
		}
	}
	for _, a := range boundaryIDs {
		for _, b := range boundaryIDs {
			if a < b {
				try([]uint16{a, b})
			}
		}
	}
	n := 40
	if tier == "thorough" {
		n = 400
	}
	for i := 0; i < n; i++ {
		k := 2 + r.Intn(5)
		seen := map[uint16]bool{}
		var ps []uint16
		for len(ps) < k {
			x := uint16(r.Intn(65536))
			if !seen[x] {
				seen[x] = true
				ps = append(ps, x)
			}
		}
		try(ps)
	}
}
