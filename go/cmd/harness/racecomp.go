package main

// Component "race": workloads for the race-instrumented build of this harness (go build -race), property C20. The
// same component runs in the ordinary build too (it then only checks that the runs succeed).
//
//  1. backends: n real BLS / PS key-generation backends; every sender->receiver link has its own dispatcher goroutine
//     (one per peer connection), so OnMsg runs concurrently with itself and with the KeyGen goroutine; a replayer
//     goroutine per party re-delivers earlier messages (duplicates, out of phase) and, at the very start, a
//     well-formed key attributed to a peer (an early reveal from a fast or misbehaving participant).
//  1b. box: the silent-mode buffer alone (msg.Box with its real clock): four dispatcher goroutines deliver traffic of four
//     senders on a moving window of topics while two goroutines make the first Send on those topics (which drains what
//     was buffered and releases the per-sender accounting) and the garbage collector runs every few hundred microseconds.
//  2. stack: real threshold.Schemes (loud and silent) on a network with one dispatcher goroutine per link; KeyGen,
//     then two signing sessions at once per party, duplicates of earlier traffic re-injected concurrently.
//
// The race detector's reports are collected by the check (GORACE log_path) — each is a violation with the two stacks
// as its replay.

import (
	"context"
	"fmt"
	"runtime"
	"sync"
	"sync/atomic"
	"time"

	"github.com/IBM/TSS/mpc/bls"
	"github.com/IBM/TSS/msg"
	"github.com/IBM/TSS/threshold"
	tss "github.com/IBM/TSS/types"

	"verif/internal/out"
	"verif/internal/prng"
)

func init() { components["race"] = runRace }

// a well-formed key message per backend kind, taken from an earlier run, offered early in later runs
var (
	raceEarlyMu sync.Mutex
	raceEarly   = map[string][]byte{}
)

func runRace(r *prng.R, s *out.Sink, tier string) {
	rounds := 12
	if tier == "thorough" {
		rounds = 300
	}
	for i := 0; i < rounds; i++ {
		for _, kind := range []string{"bls", "ps"} {
			n := 3 + r.Intn(3)
			raceBackends(r, s, kind, n, 2+r.Intn(n-1), 1)
		}
	}
	for i := 0; i < rounds; i++ {
		raceBox(r, s)
	}
	threshold.SyncInterval = 3 * time.Millisecond
	for i := 0; i < rounds; i++ {
		for _, mode := range []string{"loud", "silent"} {
			raceStack(r, s, mode, 3, 2)
		}
	}
}

func raceBackends(r *prng.R, s *out.Sink, kind string, n, t, msgLen int) {
	parties := make([]uint16, n)
	for i := range parties {
		parties[i] = uint16(i + 1)
	}
	backs := map[uint16]tss.KeyGenerator{}
	links := map[[2]uint16]chan wireMsg{}
	var wg sync.WaitGroup
	var recMu sync.Mutex
	recorded := map[uint16][]wireMsg{}
	var stopped int32
	for _, id := range parties {
		backs[id] = newBackend(kind, id, msgLen)
	}
	for _, a := range parties {
		for _, b := range parties {
			if a == b {
				continue
			}
			ch := make(chan wireMsg, 4096)
			links[[2]uint16{a, b}] = ch
			b := b
			wg.Add(1)
			go func() { // the dispatcher of one peer connection
				defer wg.Done()
				for m := range ch {
					backs[b].OnMsg(m.data, m.from, m.bcast)
					recMu.Lock()
					recorded[b] = append(recorded[b], m)
					recMu.Unlock()
				}
			}()
		}
	}
	for _, id := range parties {
		id := id
		backs[id].Init(append([]uint16(nil), parties...), t, func(msg []byte, isBroadcast bool, to uint16) {
			data := append([]byte(nil), msg...)
			if isBroadcast {
				for _, q := range parties {
					if q != id {
						links[[2]uint16{id, q}] <- wireMsg{from: id, to: q, bcast: true, data: data}
					}
				}
			} else {
				links[[2]uint16{id, to}] <- wireMsg{from: id, to: to, data: data}
			}
		})
	}
	// replayers: duplicates / out-of-phase copies, and one early well-formed key
	raceEarlyMu.Lock()
	early := raceEarly[kind]
	raceEarlyMu.Unlock()
	if early == nil && kind == "bls" {
		early = append([]byte{3}, bls.VerifCurve().GenG2.Bytes()...)
	}
	var rwg sync.WaitGroup
	for _, id := range parties {
		id := id
		seed := r.U64()
		rwg.Add(1)
		go func() {
			defer rwg.Done()
			rr := prng.New(seed)
			for atomic.LoadInt32(&stopped) == 0 {
				// an early (later: duplicate) well-formed key attributed to some peer: touches the key table at any moment
				if early != nil {
					if peer := parties[rr.Intn(len(parties))]; peer != id {
						backs[id].OnMsg(early, peer, true)
					}
				}
				recMu.Lock()
				var m *wireMsg
				if l := recorded[id]; len(l) > 0 {
					x := l[rr.Intn(len(l))]
					m = &x
				}
				recMu.Unlock()
				if m != nil {
					backs[id].OnMsg(m.data, m.from, m.bcast)
					if len(m.data) > 0 && m.data[0] == 3 {
						raceEarlyMu.Lock()
						if raceEarly[kind] == nil {
							raceEarly[kind] = append([]byte(nil), m.data...)
						}
						raceEarlyMu.Unlock()
					}
				}
				runtime.Gosched()
			}
		}()
	}
	ctx, cancel := context.WithTimeout(context.Background(), 20*time.Second)
	var kwg sync.WaitGroup
	var failures int32
	for _, id := range parties {
		id := id
		kwg.Add(1)
		go func() {
			defer kwg.Done()
			defer func() {
				if e := recover(); e != nil {
					s.Violate("C20", fmt.Sprintf("%s KeyGen of party %d panicked under concurrent dispatch: %v", kind, id, e), fmt.Sprintf("%s n=%d t=%d", kind, n, t))
				}
			}()
			if _, err := backs[id].KeyGen(ctx); err != nil {
				atomic.AddInt32(&failures, 1)
			}
		}()
	}
	kwg.Wait()
	cancel()
	atomic.StoreInt32(&stopped, 1)
	rwg.Wait()
	for _, ch := range links {
		close(ch)
	}
	wg.Wait()
	s.N++
	s.Count(fmt.Sprintf("backends/%s/failed=%d", kind, failures))
	s.Distinct[fmt.Sprintf("backends|%s|%d|%d|%d", kind, n, t, r.Intn(1<<30))] = struct{}{}
}

// concurrent network for the full stack: one dispatcher goroutine per link
type cNet struct {
	mu      sync.Mutex
	nodes   map[uint16]tss.MpcParty
	links   map[[2]uint16]chan *tss.IncMessage
	wg      sync.WaitGroup
	seen    []*tss.IncMessage
	seenTo  []uint16
	stopped bool
}

func (n *cNet) sendFrom(from uint16) func(msgType uint8, topic []byte, msg []byte, to ...uint16) {
	return func(msgType uint8, topic []byte, msg []byte, to ...uint16) {
		for _, dst := range to {
			m := &tss.IncMessage{Data: append([]byte(nil), msg...), Source: from, MsgType: msgType, Topic: append([]byte(nil), topic...)}
			n.mu.Lock()
			if n.stopped {
				n.mu.Unlock()
				return
			}
			k := [2]uint16{from, dst}
			ch, ok := n.links[k]
			if !ok {
				ch = make(chan *tss.IncMessage, 1<<14)
				n.links[k] = ch
				dst := dst
				n.wg.Add(1)
				go func() {
					defer n.wg.Done()
					for m := range ch {
						n.mu.Lock()
						node := n.nodes[dst]
						if len(n.seen) < 4000 {
							n.seen = append(n.seen, m)
							n.seenTo = append(n.seenTo, dst)
						}
						n.mu.Unlock()
						if node != nil {
							node.HandleMessage(m)
						}
					}
				}()
			}
			n.mu.Unlock()
			select {
			case ch <- m:
			default:
			}
		}
	}
}

func (n *cNet) stop() {
	n.mu.Lock()
	n.stopped = true
	for _, ch := range n.links {
		close(ch)
	}
	n.mu.Unlock()
	n.wg.Wait()
}

type countHandler struct{ n *int64 }

func (h countHandler) HandleMessage(*tss.IncMessage) { atomic.AddInt64(h.n, 1) }

// raceBox: concurrent receive calls, first sends and garbage collections on one msg.Box
func raceBox(r *prng.R, s *out.Sink) {
	var handled, forwarded int64
	box := &msg.Box{
		Logger:                    nopLogger{},
		MaxInFlightTopicsBySender: 6,
		GCSweep:                   300 * time.Microsecond,
		GCExpire:                  3 * time.Millisecond,
		NewTicker:                 time.NewTicker,
		MessageHandler:            countHandler{&handled},
		ForwardSend:               func(uint8, []byte, []byte, ...tss.UniversalID) { atomic.AddInt64(&forwarded, 1) },
	}
	const topics = 60
	var wg sync.WaitGroup
	var front int64 // topics below `front` have been (or are being) started
	for src := uint16(1); src <= 4; src++ {
		src := src
		rr := r.Fork()
		wg.Add(1)
		go func() {
			defer wg.Done()
			for k := 0; k < 600; k++ {
				f := int(atomic.LoadInt64(&front))
				t := f - 2 + rr.Intn(6) // around the front: some started, some being started, some not yet
				if t < 0 {
					t = 0
				}
				box.HandleMessage(&tss.IncMessage{Data: []byte{byte(k)}, Source: src, MsgType: uint8(tss.MsgTypeMPC), Topic: topicBytes(t % topics)})
				if rr.Intn(8) == 0 {
					runtime.Gosched()
				}
			}
		}()
	}
	for g := 0; g < 2; g++ {
		rr := r.Fork()
		wg.Add(1)
		go func() {
			defer wg.Done()
			for {
				t := int(atomic.AddInt64(&front, 1)) - 1
				if t >= topics {
					return
				}
				box.Send(uint8(tss.MsgTypeMPC), topicBytes(t), []byte{1}, 1, 2)
				time.Sleep(time.Duration(20+rr.Intn(120)) * time.Microsecond)
			}
		}()
	}
	wg.Wait()
	box.Stop()
	s.N++
	s.Count("box/run")
	s.Distinct[fmt.Sprintf("box|%d|%d", handled, r.Intn(1<<30))] = struct{}{}
	if forwarded != topics {
		s.Violate("C14", fmt.Sprintf("race workload: %d first sends were forwarded, %d were made", forwarded, topics), "")
	}
}

func raceStack(r *prng.R, s *out.Sink, mode string, n, t int) {
	ids := make([]uint16, n)
	for i := range ids {
		ids[i] = uint16(i + 1)
	}
	net := &cNet{nodes: map[uint16]tss.MpcParty{}, links: map[[2]uint16]chan *tss.IncMessage{}}
	kgf, sf := factories("bls-hello", 0)
	membership := identityMembership(ids)
	for _, id := range ids {
		var p tss.MpcParty
		if mode == "loud" {
			p = threshold.LoudScheme(id, nopLogger{}, kgf, sf, t-1, net.sendFrom(id), func() map[tss.UniversalID]tss.PartyID { return membership })
		} else {
			all := append([]uint16(nil), ids...)
			p = threshold.SilentScheme(id, nopLogger{}, kgf, sf, t-1, net.sendFrom(id), func() map[tss.UniversalID]tss.PartyID { return membership },
				func(topic []byte, expected int) []uint16 { return all[:expected] })
		}
		net.mu.Lock()
		net.nodes[id] = p
		net.mu.Unlock()
	}
	// duplicates of earlier traffic, re-injected concurrently with everything else
	var stopped int32
	var rwg sync.WaitGroup
	seed := r.U64()
	rwg.Add(1)
	go func() {
		defer rwg.Done()
		rr := prng.New(seed)
		for atomic.LoadInt32(&stopped) == 0 {
			net.mu.Lock()
			var m *tss.IncMessage
			var node tss.MpcParty
			if len(net.seen) > 0 {
				i := rr.Intn(len(net.seen))
				c := *net.seen[i]
				m = &c
				node = net.nodes[net.seenTo[i]]
			}
			net.mu.Unlock()
			if m != nil && node != nil {
				node.HandleMessage(m)
			}
			time.Sleep(time.Duration(100+rr.Intn(400)) * time.Microsecond)
		}
	}()
	desc := fmt.Sprintf("stack %s n=%d t=%d", mode, n, t)
	res := keygenAll(net.nodes, ids, n, t, 30*time.Second)
	ok := true
	for _, id := range ids {
		if res[id].err != nil {
			ok = false
		} else {
			net.nodes[id].SetStoredData(res[id].data)
		}
	}
	s.N++
	s.Count(fmt.Sprintf("stack/%s/keygen-ok=%v", mode, ok))
	if ok {
		// two signing sessions at once at every signer
		signers := ids[:t]
		var wg sync.WaitGroup
		var signFail int32
		for k := 0; k < 2; k++ {
			topic := fmt.Sprintf("race-topic-%d-%d", k, r.Intn(1<<30))
			for _, id := range signers {
				id := id
				wg.Add(1)
				go func() {
					defer wg.Done()
					ctx, cancel := context.WithTimeout(context.Background(), 10*time.Second)
					defer cancel()
					if _, err := net.nodes[id].Sign(ctx, sha([]byte("m")), topic); err != nil {
						atomic.AddInt32(&signFail, 1)
					}
				}()
			}
		}
		wg.Wait()
		s.N++
		s.Count(fmt.Sprintf("stack/%s/sign-failures=%d", mode, signFail))
	}
	atomic.StoreInt32(&stopped, 1)
	rwg.Wait()
	net.stop()
	s.Distinct["stack|"+desc+fmt.Sprint(r.Intn(1<<30))] = struct{}{}
}
