// Package prng is the single source of randomness of the harness (SplitMix64), so that every run is
// replayable from VERIF_SEED.
package prng

type R struct{ s uint64 }

func New(seed uint64) *R { return &R{s: seed*0x9E3779B97F4A7C15 + 0x1234567} }

func (r *R) U64() uint64 {
	r.s += 0x9E3779B97F4A7C15
	z := r.s
	z = (z ^ (z >> 30)) * 0xBF58476D1CE4E5B9
	z = (z ^ (z >> 27)) * 0x94D049BB133111EB
	return z ^ (z >> 31)
}

func (r *R) Intn(n int) int {
	if n <= 0 {
		return 0
	}
	return int(r.U64() % uint64(n))
}

func (r *R) Bool() bool { return r.U64()&1 == 1 }

func (r *R) Bytes(n int) []byte {
	b := make([]byte, n)
	for i := range b {
		b[i] = byte(r.U64())
	}
	return b
}

// Read implements io.Reader (used to replace crypto/rand.Reader).
func (r *R) Read(p []byte) (int, error) {
	for i := range p {
		p[i] = byte(r.U64())
	}
	return len(p), nil
}

// Fork derives an independent stream.
func (r *R) Fork() *R { return New(r.U64()) }

// Perm returns a random permutation of 0..n-1.
func (r *R) Perm(n int) []int {
	p := make([]int, n)
	for i := range p {
		p[i] = i
	}
	for i := n - 1; i > 0; i-- {
		j := r.Intn(i + 1)
		p[i], p[j] = p[j], p[i]
	}
	return p
}
