// Package out collects what a harness run produces: the operation lines for the Lean driver, the
// implementation's canonicalised answers (one per operation), property-monitor violations observed
// directly on the implementation, and measured statistics for the evidence file.
package out

import (
	"bufio"
	"encoding/hex"
	"encoding/json"
	"fmt"
	"os"
	"sort"
	"strings"
)

type Sink struct {
	ops, impl *bufio.Writer
	fo, fi    *os.File
	N         int
	Hist      map[string]int
	Distinct  map[string]struct{}
	Samples   []string
	Monitor   []Violation
	Extra     map[string]interface{}
	statsPath string
	perKind   map[string]int
}

type Violation struct {
	Property string `json:"property"`
	What     string `json:"what"`
	Replay   string `json:"replay"`
}

func New(dir string) *Sink {
	if err := os.MkdirAll(dir, 0o755); err != nil {
		panic(err)
	}
	fo, err := os.Create(dir + "/ops.txt")
	if err != nil {
		panic(err)
	}
	fi, err := os.Create(dir + "/impl.txt")
	if err != nil {
		panic(err)
	}
	return &Sink{ops: bufio.NewWriterSize(fo, 1<<20), impl: bufio.NewWriterSize(fi, 1<<20), fo: fo, fi: fi,
		Hist: map[string]int{}, Distinct: map[string]struct{}{}, Extra: map[string]interface{}{}, statsPath: dir + "/stats.json"}
}

// Op records one operation and the implementation's answer. kind feeds the input-distribution
// histogram; nontrivial marks the case as counting towards distinct_nontrivial.
func (s *Sink) Op(kind string, nontrivial bool, op, impl string) {
	if strings.ContainsAny(op, "\n\r") || strings.ContainsAny(impl, "\n\r") {
		panic("newline in protocol line")
	}
	s.ops.WriteString(op)
	s.ops.WriteByte('\n')
	s.impl.WriteString(impl)
	s.impl.WriteByte('\n')
	s.N++
	s.Hist[kind]++
	if nontrivial {
		s.Distinct[op] = struct{}{}
	}
	if len(s.Samples) < 12 && s.Hist[kind] <= 2 {
		s.Samples = append(s.Samples, op+"  =>  "+impl)
	}
}

// Count adds to the histogram without emitting a protocol line.
func (s *Sink) Count(kind string) { s.Hist[kind]++ }

// Violate records a monitor violation: at most 5 per kind (property + the first 40 characters of the description),
// at most 400 in all, so that a frequent one (e.g. a known finding) cannot crowd out a rare one.
func (s *Sink) Violate(prop, what, replay string) {
	k := what
	if len(k) > 40 {
		k = k[:40]
	}
	k = prop + "|" + k
	if s.perKind == nil {
		s.perKind = map[string]int{}
	}
	s.perKind[k]++
	if s.perKind[k] <= 5 && len(s.Monitor) < 400 {
		s.Monitor = append(s.Monitor, Violation{prop, what, replay})
	}
}

func (s *Sink) Close() {
	s.ops.Flush()
	s.impl.Flush()
	s.fo.Close()
	s.fi.Close()
	keys := make([]string, 0, len(s.Hist))
	for k := range s.Hist {
		keys = append(keys, k)
	}
	sort.Strings(keys)
	st := map[string]interface{}{
		"ops":                 s.N,
		"distinct_nontrivial": len(s.Distinct),
		"histogram":           s.Hist,
		"samples":             s.Samples,
		"monitor_violations":  s.Monitor,
		"extra":               s.Extra,
	}
	b, _ := json.MarshalIndent(st, "", " ")
	if err := os.WriteFile(s.statsPath, b, 0o644); err != nil {
		panic(err)
	}
}

func Hex(b []byte) string {
	if len(b) == 0 {
		return "-"
	}
	return hex.EncodeToString(b)
}

func U16s(l []uint16) string {
	if len(l) == 0 {
		return "-"
	}
	parts := make([]string, len(l))
	for i, x := range l {
		parts[i] = fmt.Sprint(x)
	}
	return strings.Join(parts, ",")
}
