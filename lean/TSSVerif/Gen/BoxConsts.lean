-- REGENERATED on every run by /verif/go/cmd/extract from /repo — do not edit.
-- Constants and comparison operators of msg/msgbox.go that the model Model/Box.lean hard-codes.
namespace TSSVerif.Gen.BoxConsts

def limitPerSender : Nat := 100
def addDropsWhen : String := "sm.messageCountPerSender[msg.Source] > limitPerSender"
def topicsDropWhen : String := "len(activeTopicsFromSource) > b.MaxInFlightTopicsBySender"
def gcSkipsWhen : String := "time.Duration(now - lastGC) < epochsAfterWhichWeGC"
def markPendingWhen : String := "time.Duration(now - messages.lastUsed()) > epochsAfterWhichWeGC"
def markStartedWhen : String := "time.Duration(now - lastSent) > epochsAfterWhichWeGC"
def clockRequires : String := "b.GCExpire / b.GCSweep < 2"

end TSSVerif.Gen.BoxConsts
