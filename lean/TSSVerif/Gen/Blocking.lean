-- REGENERATED on every run by /verif/go/cmd/extract from /repo — do not edit.
-- Census of blocking constructs (select, channel send/receive outside select, Wait) in the functions of a KeyGen/Sign call:
-- (file|function|construct, escape) with escape in ctx | default | loop-ctx | closechan | none.
namespace TSSVerif.Gen.Blocking

def sites : List (String × String) := [
  ("disc/discovery.go|Member.Synchronize|select{<-ctx.Done(); <-ticker.C; <-tpv.receivedMsg}", "ctx"),
  ("disc/discovery.go|Member.Synchronize|select{peers := <-tpv.responses; <-ctx.Done()}", "ctx"),
  ("mpc/binance/ecdsa/mpc.go|party.KeyGen|endWG.Wait()", "none"),
  ("mpc/binance/ecdsa/mpc.go|party.KeyGen|select{<-ctx.Done(); dkgOut := <-end; msg := <-p.in}", "ctx"),
  ("mpc/binance/ecdsa/mpc.go|party.Sign|endWG.Wait()", "none"),
  ("mpc/binance/ecdsa/mpc.go|party.Sign|select{<-ctx.Done(); sigOut := <-end; msg := <-p.in}", "ctx"),
  ("mpc/binance/ecdsa/mpc.go|party.sendMessages|select{<-p.closeChan; msg := <-p.out}", "closechan"),
  ("mpc/binance/eddsa/mpc.go|party.KeyGen|endWG.Wait()", "none"),
  ("mpc/binance/eddsa/mpc.go|party.KeyGen|select{<-ctx.Done(); dkgOut := <-end; msg := <-p.in}", "ctx"),
  ("mpc/binance/eddsa/mpc.go|party.Sign|endWG.Wait()", "none"),
  ("mpc/binance/eddsa/mpc.go|party.Sign|select{<-ctx.Done(); sigOut := <-end; msg := <-p.in}", "ctx"),
  ("mpc/binance/eddsa/mpc.go|party.sendMessages|select{<-p.closeChan; msg := <-p.out}", "closechan"),
  ("mpc/bls/mpc.go|TBLS.waitForShareDistribution|tbls.signal.Wait()", "loop-ctx"),
  ("mpc/bls/mpc.go|TBLS.waitForCommitmentDistribution|tbls.signal.Wait()", "loop-ctx"),
  ("mpc/bls/mpc.go|TBLS.waitForDeCommitmentDistribution|tbls.signal.Wait()", "loop-ctx"),
  ("mpc/bls/mpc.go|TBLS.monitorContextTimeout|select{<-keygenFinished; <-ctx.Done()}", "closechan"),
  ("mpc/ps/tps.go|TPS.waitForShareDistribution|tps.signal.Wait()", "loop-ctx"),
  ("mpc/ps/tps.go|TPS.waitForCommitmentDistribution|tps.signal.Wait()", "loop-ctx"),
  ("mpc/ps/tps.go|TPS.waitForDeCommitmentDistribution|tps.signal.Wait()", "loop-ctx"),
  ("mpc/ps/tps.go|TPS.monitorContextTimeout|select{<-keygenFinished; <-ctx.Done()}", "closechan"),
  ("threshold/threshold.go|Scheme.runDKG|send resultChan", "none"),
  ("threshold/threshold.go|Scheme.runDKG|select{<-membershipConsensus; <-ctx.Done()}", "ctx"),
  ("threshold/threshold.go|Scheme.runDKG|select{<-ctx.Done(); res := <-resultChan}", "ctx"),
  ("threshold/threshold.go|Scheme.Sign|send resultChan", "none"),
  ("threshold/threshold.go|Scheme.Sign|select{<-ctx.Done(); res := <-resultChan}", "ctx")
]

end TSSVerif.Gen.Blocking
