-- REGENERATED on every run by /verif/go/cmd/extract from /repo — do not edit.
-- Integer expressions of the wire codecs, translated from the Go AST with Go's typing
-- (a shift has the type of its left operand; conversions truncate / zero-extend).
import TSSVerif.Model.WireBase
set_option linter.unusedVariables false
namespace TSSVerif.Gen.Wire
open TSSVerif.Model

/-! `newRBCEncoding` (threshold/threshold.go:941) -/
def ackEncPanics (sender : B16) (msgRound : B8) : Bool := ((msgRound >>> 7) != 0#8)
def ackEncByte0 (sender : B16) (msgRound : B8) : B8 := msgRound
def ackEncByte1 (sender : B16) (msgRound : B8) : B8 := (BitVec.setWidth 8 (sender >>> 8))
def ackEncByte2 (sender : B16) (msgRound : B8) : B8 := (BitVec.setWidth 8 sender)
def ackEncShape : Bool := true  -- header bytes, then the digest appended verbatim

/-! `rbcEncoding.Ack` (threshold/threshold.go:955): guards in source order, then the field assignments -/
def ackDecGuards : List AckGuard := [
  { needs := 0, cond := fun len r0 r1 r2 => decide (len = 0), out := .malformed },
  { needs := 1, cond := fun len r0 r1 r2 => ((r0 >>> 7) != 0#8), out := .payload },
  { needs := 0, cond := fun len r0 r1 r2 => decide (len < 4), out := .malformed }
]
def ackDecNeeds : Nat := 3
def ackDecRound (r0 r1 r2 : B8) : B8 := r0
def ackDecSender (r0 r1 r2 : B8) : B16 := (((BitVec.setWidth 16 r1) <<< 8) + (BitVec.setWidth 16 r2))
def ackDecDigestFrom : Nat := 3

end TSSVerif.Gen.Wire
