-- REGENERATED on every run by /verif/go/cmd/extract from /repo and the pinned tss-lib sources — do not edit.
namespace TSSVerif.Gen.Adapter

/-- `msgURL2Round` of mpc/binance/ecdsa/mpc.go -/
def ecdsaRounds : List (String × Nat) := [
  ("type.googleapis.com/binance.tsslib.ecdsa.keygen.KGRound1Message", 1),
  ("type.googleapis.com/binance.tsslib.ecdsa.keygen.KGRound2Message1", 2),
  ("type.googleapis.com/binance.tsslib.ecdsa.keygen.KGRound2Message2", 3),
  ("type.googleapis.com/binance.tsslib.ecdsa.keygen.KGRound3Message", 4),
  ("type.googleapis.com/binance.tsslib.ecdsa.signing.SignRound1Message1", 5),
  ("type.googleapis.com/binance.tsslib.ecdsa.signing.SignRound1Message2", 6),
  ("type.googleapis.com/binance.tsslib.ecdsa.signing.SignRound2Message", 7),
  ("type.googleapis.com/binance.tsslib.ecdsa.signing.SignRound3Message", 8),
  ("type.googleapis.com/binance.tsslib.ecdsa.signing.SignRound4Message", 9),
  ("type.googleapis.com/binance.tsslib.ecdsa.signing.SignRound5Message", 10),
  ("type.googleapis.com/binance.tsslib.ecdsa.signing.SignRound6Message", 11),
  ("type.googleapis.com/binance.tsslib.ecdsa.signing.SignRound7Message", 12),
  ("type.googleapis.com/binance.tsslib.ecdsa.signing.SignRound8Message", 13),
  ("type.googleapis.com/binance.tsslib.ecdsa.signing.SignRound9Message", 14)
]
/-- keys of `broadcastMessages` -/
def ecdsaBroadcast : List String := [
  "type.googleapis.com/binance.tsslib.ecdsa.keygen.KGRound1Message",
  "type.googleapis.com/binance.tsslib.ecdsa.keygen.KGRound2Message2",
  "type.googleapis.com/binance.tsslib.ecdsa.keygen.KGRound3Message",
  "type.googleapis.com/binance.tsslib.ecdsa.signing.SignRound1Message2",
  "type.googleapis.com/binance.tsslib.ecdsa.signing.SignRound3Message",
  "type.googleapis.com/binance.tsslib.ecdsa.signing.SignRound4Message",
  "type.googleapis.com/binance.tsslib.ecdsa.signing.SignRound5Message",
  "type.googleapis.com/binance.tsslib.ecdsa.signing.SignRound6Message",
  "type.googleapis.com/binance.tsslib.ecdsa.signing.SignRound7Message",
  "type.googleapis.com/binance.tsslib.ecdsa.signing.SignRound8Message",
  "type.googleapis.com/binance.tsslib.ecdsa.signing.SignRound9Message"
]
/-- `if round > 4 { round = round - 4 }` -/
def ecdsaPhaseShift : Nat × Nat := (4, 4)
def ecdsaSenderCheck : String := "claimedFrom != from"
def ecdsaKeyRangeCheck : String := "key == nil || key.Cmp(big.NewInt(int64(math.MaxUint16))) >= 0"
def ecdsaDigestCheck : String := "!bytes.Equal(sigOut.M, msgToSign.Bytes())"
/-- message constructors of tss-lib v2.0.2 (ecdsa): (phase, type URL, IsBroadcast) -/
def ecdsaLib : List (String × String × Bool) := [
  ("keygen", "type.googleapis.com/binance.tsslib.ecdsa.keygen.KGRound1Message", true),
  ("keygen", "type.googleapis.com/binance.tsslib.ecdsa.keygen.KGRound2Message1", false),
  ("keygen", "type.googleapis.com/binance.tsslib.ecdsa.keygen.KGRound2Message2", true),
  ("keygen", "type.googleapis.com/binance.tsslib.ecdsa.keygen.KGRound3Message", true),
  ("signing", "type.googleapis.com/binance.tsslib.ecdsa.signing.SignRound1Message1", false),
  ("signing", "type.googleapis.com/binance.tsslib.ecdsa.signing.SignRound1Message2", true),
  ("signing", "type.googleapis.com/binance.tsslib.ecdsa.signing.SignRound2Message", false),
  ("signing", "type.googleapis.com/binance.tsslib.ecdsa.signing.SignRound3Message", true),
  ("signing", "type.googleapis.com/binance.tsslib.ecdsa.signing.SignRound4Message", true),
  ("signing", "type.googleapis.com/binance.tsslib.ecdsa.signing.SignRound5Message", true),
  ("signing", "type.googleapis.com/binance.tsslib.ecdsa.signing.SignRound6Message", true),
  ("signing", "type.googleapis.com/binance.tsslib.ecdsa.signing.SignRound7Message", true),
  ("signing", "type.googleapis.com/binance.tsslib.ecdsa.signing.SignRound8Message", true),
  ("signing", "type.googleapis.com/binance.tsslib.ecdsa.signing.SignRound9Message", true)
]

/-- `msgURL2Round` of mpc/binance/eddsa/mpc.go -/
def eddsaRounds : List (String × Nat) := [
  ("type.googleapis.com/binance.tsslib.eddsa.keygen.KGRound1Message", 1),
  ("type.googleapis.com/binance.tsslib.eddsa.keygen.KGRound2Message1", 2),
  ("type.googleapis.com/binance.tsslib.eddsa.keygen.KGRound2Message2", 3),
  ("type.googleapis.com/binance.tsslib.eddsa.signing.SignRound1Message", 5),
  ("type.googleapis.com/binance.tsslib.eddsa.signing.SignRound2Message", 6),
  ("type.googleapis.com/binance.tsslib.eddsa.signing.SignRound3Message", 7)
]
/-- keys of `broadcastMessages` -/
def eddsaBroadcast : List String := [
  "type.googleapis.com/binance.tsslib.eddsa.keygen.KGRound1Message",
  "type.googleapis.com/binance.tsslib.eddsa.keygen.KGRound2Message2",
  "type.googleapis.com/binance.tsslib.eddsa.signing.SignRound1Message",
  "type.googleapis.com/binance.tsslib.eddsa.signing.SignRound2Message",
  "type.googleapis.com/binance.tsslib.eddsa.signing.SignRound3Message"
]
/-- `if round > 4 { round = round - 4 }` -/
def eddsaPhaseShift : Nat × Nat := (4, 4)
def eddsaSenderCheck : String := "claimedFrom != from"
def eddsaKeyRangeCheck : String := "key == nil || key.Cmp(big.NewInt(int64(math.MaxUint16))) >= 0"
def eddsaDigestCheck : String := "!bytes.Equal(sigOut.M, msgToSign.Bytes())"
/-- message constructors of tss-lib v2.0.2 (eddsa): (phase, type URL, IsBroadcast) -/
def eddsaLib : List (String × String × Bool) := [
  ("keygen", "type.googleapis.com/binance.tsslib.eddsa.keygen.KGRound1Message", true),
  ("keygen", "type.googleapis.com/binance.tsslib.eddsa.keygen.KGRound2Message1", false),
  ("keygen", "type.googleapis.com/binance.tsslib.eddsa.keygen.KGRound2Message2", true),
  ("signing", "type.googleapis.com/binance.tsslib.eddsa.signing.SignRound1Message", true),
  ("signing", "type.googleapis.com/binance.tsslib.eddsa.signing.SignRound2Message", true),
  ("signing", "type.googleapis.com/binance.tsslib.eddsa.signing.SignRound3Message", true)
]

end TSSVerif.Gen.Adapter
