-- REGENERATED on every run by /verif/go/cmd/extract from /repo — do not edit.
-- Classification tables of the built-in DKG backends (mpc/bls, mpc/ps).
namespace TSSVerif.Gen.Classify

/-- `TBLS.ClassifyMsg` (mpc/bls/mpc.go:94): (first byte, round, broadcast-class) per case, in source order -/
def blsTable : List (Nat × Nat × Bool) := [(1, 1, false), (2, 2, true), (3, 3, true)]
def blsEmptyRejected : Bool := true   -- a length test precedes `msgBytes[0]`
def blsDefaultIsError : Bool := true

/-- `TPS.ClassifyMsg` (mpc/ps/tps.go:107): (first byte, round, broadcast-class) per case, in source order -/
def psTable : List (Nat × Nat × Bool) := [(1, 1, false), (2, 2, true), (3, 3, true)]
def psEmptyRejected : Bool := true   -- a length test precedes `msgBytes[0]`
def psDefaultIsError : Bool := true

end TSSVerif.Gen.Classify
