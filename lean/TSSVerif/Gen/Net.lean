-- REGENERATED on every run by /verif/go/cmd/extract from /repo — do not edit.
-- Decision sequence of authenticateConnection and frame constants of net/net.go that Model/Net.lean hard-codes.
namespace TSSVerif.Gen.Net

def authRejects : List String := [
  "err := h.Read(conn); err != nil",
  "NOT-REJECTING: createTime.Add(time.Second * 30).Before(now)",
  "!bytes.Equal(binding, h.TLSBinding)",
  "bl == nil",
  "err != nil",
  "!isECDSA",
  "err != nil",
  "!ecdsa.VerifyASN1(pk, sha256Digest(signedBytes), sig)",
  "!exists"
]
def authSignedBytes : String := "signedBytes, err := asn1.Marshal(h)"
def authBlanksSignature : String := "h.Signature = nil"
def authTableKey : String := "hex.EncodeToString(sha256Digest([]byte(h.Domain), h.Identity))"
def authAccepts : String := "return h.Domain, uint16(from), true"
def handleConnShape : List String := ["domain, from, authenticationSucceeded := authenticateConnection(p2id, conn, l)", "if !authenticationSucceeded return", "for … (1 channel sends)"]
def maxBuffLen : String := "1024 * 1024 * 20"
def shouldHaveTopic : String := "map[MsgType]bool{MsgTypeMPC: true, MsgTypeDiscovery: true}"
def msgTypeDiscovery : Nat := 1
def msgTypeMPC : Nat := 2
def readTooBigWhen : String := "int(bufferLength) > maxBuffLen"
def readLayout : String := "make([]byte, 5) ; MsgType(typeAndLengthBuff[0]) ; binary.LittleEndian.Uint32(typeAndLengthBuff[1:]) ; shouldHaveTopic[msgType] ; make([]byte, 32) ; make([]byte, bufferLength)"
def sendLayout : String := "1 + 4 + len(msg.topic) ; uint8(msg.msgType) ; binary.LittleEndian.PutUint32(header[1:], uint32(dataLen)) ; copy(header[5:], msg.topic) ; rp.conn.Write(header) ; rp.conn.Write(msg.data)"
def sendPanics : List String := ["panic(fmt.Sprintf(\"party %d doesn't exist\", dst))"]
def writerPanics : List String := ["panic(\"topic should be either empty or 32 bytes\")", "panic(fmt.Sprintf(\"data too large (doesn't fit in 16 bits): %d\", dataLen))"]
def writerLoopPanics : List String := []

end TSSVerif.Gen.Net
