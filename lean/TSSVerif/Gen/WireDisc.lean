-- REGENERATED on every run by /verif/go/cmd/extract from /repo — do not edit.
-- Integer expressions of the wire codecs, translated from the Go AST with Go's typing
-- (a shift has the type of its left operand; conversions truncate / zero-extend).
import TSSVerif.Model.WireBase
set_option linter.unusedVariables false
namespace TSSVerif.Gen.WireDisc
open TSSVerif.Model

/-! `membershipSyncTopicName`: the two bytes hashed per member, in order -/
def topicMemberByte0 (x : B16) : B8 := (BitVec.setWidth 8 x)
def topicMemberByte1 (x : B16) : B8 := (BitVec.setWidth 8 (x >>> 8))

/-! `encodeTagAndMembershipList` -/
def viewEncTagLen : Nat := 32
def viewEncStart : Nat := 33
def viewEncStep : Nat := 2
def viewEncByteAt0 (p : B16) : B8 := (BitVec.setWidth 8 p)
def viewEncByteAt1 (p : B16) : B8 := (BitVec.setWidth 8 (p >>> 8))
def viewEncShape : Bool := true  -- buff[0] = type, buff[1:33] = tag, then 2 bytes per peer, size exact

/-! `decodeTagAndMembershipList` -/
def viewDecMinLen : Nat := 33      -- shorter messages are rejected with an error
def viewDecOddTailRejected : Bool := true  -- an explicit guard rejects a dangling last byte
def viewDecLoopGuardsPair : Bool := false  -- loop condition `offset < len`
def viewDecStart : Nat := 33
def viewDecStep : Nat := 2
def viewDecTagLo : Nat := 1
def viewDecTagHi : Nat := 33
def viewDecPeer (lo hi : B8) : B16 := (((BitVec.setWidth 16 hi) <<< 8) + (BitVec.setWidth 16 lo))
def viewDecShape : Bool := true

/-! `makePRF`: the two bytes fed to HMAC for identifier x -/
def prfByte0 (x : B16) : B8 := (BitVec.setWidth 8 x)
def prfByte1 (x : B16) : B8 := (BitVec.setWidth 8 (x >>> 8))

end TSSVerif.Gen.WireDisc
