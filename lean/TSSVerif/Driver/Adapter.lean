import TSSVerif.Driver.Util
import TSSVerif.Model.Adapter
namespace TSSVerif.Driver
open TSSVerif.Model.Adapter

def adpOp (args : List String) : Option String :=
  match args with
  | [which, "classify", url] =>
    let r := if which = "ecdsa" then some (ecdsa url) else if which = "eddsa" then some (eddsa url) else none
    r.map fun (rd, bc) => s!"{rd} {if bc then 1 else 0}"
  | ["hashtoint", h] => do
    let b ← parseHex h
    pure (toString (hashToInt 256 (b.map (·.toNat))))
  | _ => none

end TSSVerif.Driver
