import TSSVerif.Driver.Util
import TSSVerif.Model.Disc
namespace TSSVerif.Driver
open TSSVerif.Model TSSVerif.Model.Disc
open TSSVerif.Model.Translate (isort)

/-- one real `Member` under test per line-protocol run (instances are numbered) -/
structure DiscD where
  ms : List (Nat × Member) := []

def DiscD.get (d : DiscD) (i : Nat) : Option Member := (d.ms.find? (fun e => e.1 = i)).map (·.2)
def DiscD.set (d : DiscD) (i : Nat) (m : Member) : DiscD :=
  { ms := (i, m) :: d.ms.filter (fun e => e.1 ≠ i) }

def dsShowKind : Kind → String
  | .membership => "membership" | .query => "query" | .response => "response"

def dsShowView (v : View) : String := showNatList v

def dsShowOut : Out → String
  | .send to k v => s!"send:{to}:{dsShowKind k}:{dsShowView v}"
  | .bcast k v => s!"bcast:{dsShowKind k}:{dsShowView v}"
  | .cont l => s!"cont:{dsShowView l}"
  | .ret ok => if ok then "ret:nil" else "ret:err"
  | .blocked => "blocked"

def dsShowOuts (l : List Out) : String := if l.isEmpty then "-" else " ".intercalate (l.map dsShowOut)

def dsShowPhase : Phase → String
  | .collect => "collect"
  | .query l _ => s!"query {dsShowView l}"
  | .done l => s!"done {dsShowView l}"
  | .failed => "failed"

/-- canonical snapshot: keys in increasing order with their views, responded in increasing order, queue length -/
def discSnap (s : TSt) : String :=
  let ks := isort s.keys
  let vs := ks.map (fun k => s!"{k}:[{dsShowView (s.val k)}]")
  let kv := if vs.isEmpty then "-" else ";".intercalate vs
  s!"views={kv} responded={showNatList (isort s.responded)} queued={s.queue.length}"

def parseTagTable (s : String) : Option (List (Nat × Bytes)) :=
  if s = "-" then some [] else
  (s.splitOn ",").mapM fun e =>
    match e.splitOn ":" with
    | [i, h] => do
      let i ← parseNat i
      let h ← parseHex h
      pure (i, h)
    | _ => none

/-- atomic pass over the table (lockstep drive: no handler runs during a pass) -/
def dsReadAll (s : TSt) : TSt := s.keys.foldl TSt.visit s.beginRead

def discOp (d : DiscD) (args : List String) : Option (DiscD × String) :=
  match args with
  | ["new", i, self, cfg] => do
    let i ← parseNat i; let self ← parseNat self; let cfg ← parseNatList cfg
    pure (d.set i { self := self, cfg := cfg }, "ok")
  | ["reg", i, topic, expected, tags] => do
    let i ← parseNat i; let t ← parseHex topic; let e ← parseNat expected
    let tbl ← parseTagTable tags
    let m ← d.get i
    let prf := fun id => match tbl.find? (fun x => x.1 = id) with
      | some x => x.2
      | none => []
    match m.register t e prf with
    | some m' => pure (d.set i m', "ok")
    | none => pure (d, "already")
  | ["handle", i, src, msg] => do
    let i ← parseNat i; let src ← parseNat src; let msg ← parseHex msg
    let m ← d.get i
    let r := m.handle src msg
    let o := match r.2 with
      | .panic => "panic"
      | .ignored => "-"
      | .handled _ outs => dsShowOuts outs
    pure (d.set i r.1, o)
  | ["snap", i, topic] => do
    let i ← parseNat i; let t ← parseHex topic
    let m ← d.get i
    match m.topic? t with
    | some s => pure (d, discSnap s)
    | none => pure (d, "unregistered")
  | ["intersect", i, topic] => do
    let i ← parseNat i; let t ← parseHex topic
    let m ← d.get i
    let s ← m.topic? t
    pure (d, dsShowView (intersect s.self (s.keys.map (fun k => (k, s.val k)))))
  | ["ownview", i, topic] => do
    let i ← parseNat i; let t ← parseHex topic
    let m ← d.get i
    match m.topic? t with
    | some s => pure (d, dsShowView (ownView s.self s.keys))
    | none => pure (d, "-")
  | ["pop", i, topic] => do
    let i ← parseNat i; let t ← parseHex topic
    let m ← d.get i
    let s ← m.topic? t
    match s.queue with
    | [] => pure (d, "none")
    | v :: q => pure (d.set i (m.setTopic t { s with queue := q }), s!"some {dsShowView v}")
  | ["sync", i, topic, what] => do
    let i ← parseNat i; let t ← parseHex topic
    let m ← d.get i
    let s ← m.topic? t
    let r ← match what with
      | "read" => some ((dsReadAll s, []) : TSt × List Out)
      | "eval" => some s.finishIntersect
      | "tick" => some (dsReadAll s).finishTick
      | "resp" => some s.recvResponse
      | "ctx" => some s.ctxDone
      | _ => none
    pure (d.set i (m.setTopic t r.1), s!"{dsShowOuts r.2} / {dsShowPhase r.1.phase}")
  | _ => none

end TSSVerif.Driver
