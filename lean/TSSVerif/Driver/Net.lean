import TSSVerif.Driver.Util
import TSSVerif.Model.Net
namespace TSSVerif.Driver
open TSSVerif.Model TSSVerif.Model.Net

def showStage : Stage → String
  | .read => "read" | .binding => "binding" | .pem => "pem" | .x509 => "x509" | .keytype => "keytype"
  | .marshal => "marshal" | .signature => "signature" | .lookup => "lookup"

def parseFlag (s : String) : Option Bool := if s = "1" then some true else if s = "0" then some false else none

def showFrame (f : Frame) : String := s!"{f.ty.toNat} {toHex f.topic} {toHex f.data}"

def netOp (args : List String) : Option String :=
  match args with
  | ["auth", exporter, readOK, domain, binding, pemOK, parseOK, keyOK, marshalOK, verifyOK, table] => do
    let exporter ← parseHex exporter
    let readOK ← parseFlag readOK
    let domain ← parseHex domain
    let binding ← parseHex binding
    let pemOK ← parseFlag pemOK
    let parseOK ← parseFlag parseOK
    let keyOK ← parseFlag keyOK
    let marshalOK ← parseFlag marshalOK
    let verifyOK ← parseFlag verifyOK
    let table ← if table = "-" then some none else (parseNat table).map some
    -- the environment says exactly what the harness measured about this handshake on this connection
    let env : Env Unit Unit Unit := {
      exporter := fun _ => exporter
      read := fun _ => if readOK then some ⟨domain, binding, [], 0, []⟩ else none
      pem := fun _ => if pemOK then some [] else none
      parse := fun _ => if parseOK then some () else none
      key := fun _ => if keyOK then some () else none
      marshal := fun _ => if marshalOK then some [] else none
      digest := fun b => b
      verify := fun _ _ _ => verifyOK
      tkey := fun b => b
      table := fun _ => table }
    match authenticate env () [] with
    | .accept d i => pure s!"accept {toHex d} {i}"
    | .reject st => pure s!"reject {showStage st}"
  | ["enc", ty, topic, data] => do
    let ty ← parseB8 ty; let topic ← parseHex topic; let data ← parseHex data
    match encodeFrame ⟨ty, topic, data⟩ with
    | some b => pure (toHex b)
    | none => pure "panic"
  | ["enchdr", ty, topic, len] => do
    let ty ← parseB8 ty; let topic ← parseHex topic; let len ← parseNat len
    -- header and topic of a frame with `len` payload bytes (the payload itself is compared by digest)
    match encodeFrame ⟨ty, topic, []⟩ with
    | some _ => if len > 4294967295 then pure "panic" else pure (toHex (ty :: le32 len ++ topic))
    | none => pure "panic"
  | ["read", stream] => do
    let s ← parseHex stream
    match readMsg s with
    | .ok f rest => pure s!"ok {showFrame f} rest={rest.length}"
    | .tooBig => pure "toobig"
    | .short => pure "short"
  | ["hdr", ty, len, have_] => do
    -- a header announcing `len` data bytes followed by `have_` bytes of stream (contents irrelevant): only the verdict
    let ty ← parseB8 ty; let len ← parseNat len; let have_ ← parseNat have_
    match readMsg (ty :: le32 len ++ List.replicate have_ 0) with
    | .ok f rest => pure s!"ok topic={f.topic.length} data={f.data.length} rest={rest.length}"
    | .tooBig => pure "toobig"
    | .short => pure "short"
  | _ => none

end TSSVerif.Driver
