import TSSVerif.Driver.Util
import TSSVerif.Model.Dkg
namespace TSSVerif.Driver
open TSSVerif.Model TSSVerif.Model.Dkg

structure DkgInst where
  p : P
  hashes : List (Bytes × Bytes) := []     -- SHA-256 of every key seen, supplied by the harness
  agree : Bool := true                    -- do all C(n,t) interpolations of the final key table coincide (measured)

structure DkgD where
  is : List (Nat × DkgInst) := []

def DkgD.get (d : DkgD) (i : Nat) : Option DkgInst := (d.is.find? (fun e => e.1 = i)).map (·.2)
def DkgD.set (d : DkgD) (i : Nat) (x : DkgInst) : DkgD := { is := (i, x) :: d.is.filter (fun e => e.1 ≠ i) }

def DkgInst.env (x : DkgInst) : Env :=
  { ownPk := [],
    hash := fun b => match x.hashes.find? (fun e => e.1 = b) with
      | some e => e.2
      | none => [],
    subsetsAgree := fun _ => x.agree }

def showDkgOut : Dkg.Out → String
  | .sendShares => "shares"
  | .bcastCommit _ => "commit"
  | .bcastReveal _ => "reveal"
  | .ret ok => if ok then "ret:ok" else "ret:err"
  | .panic => "panic"

def showDkgOuts (l : List Dkg.Out) : String := if l.isEmpty then "-" else " ".intercalate (l.map showDkgOut)

def dkgOp (d : DkgD) (args : List String) : Option (DkgD × String) :=
  match args with
  | ["new", i, self, parties] => do
    let i ← parseNat i; let self ← parseNat self; let parties ← parseNatList parties
    pure (d.set i { p := { self := self, parties := parties } }, "ok")
  | ["facts", i, agree] => do
    let i ← parseNat i; let a ← parseNat agree
    let x ← d.get i
    pure (d.set i { x with agree := a == 1 }, "ok")
  | ["ctx", i] => do
    let i ← parseNat i
    let x ← d.get i
    pure (d.set i { x with p := { x.p with ctxDone := true } }, "-")
  | ["wake", i] => do
    let i ← parseNat i
    let x ← d.get i
    let r := x.p.wake x.env
    pure (d.set i { x with p := r.1 }, showDkgOuts r.2)
  | "msg" :: i :: src :: rest => do
    let i ← parseNat i; let src ← parseNat src
    let x ← d.get i
    let (m, x') ← match rest with
      | ["share", wf] => do let wf ← parseNat wf; pure (Msg.share [] (wf == 1), x)
      | ["commit", c] => do let c ← parseHex c; pure (Msg.commit c, x)
      | ["reveal", pk, h, wf] => do
        let pk ← parseHex pk; let h ← parseHex h; let wf ← parseNat wf
        pure (Msg.reveal pk (wf == 1), { x with hashes := (pk, h) :: x.hashes })
      | ["junk"] => pure (Msg.junk, x)
      | _ => none
    pure (d.set i { x' with p := x'.p.onMsg src m }, "-")
  | _ => none

end TSSVerif.Driver
