import TSSVerif.Driver.Util
import TSSVerif.Model.Dispatch
namespace TSSVerif.Driver
open TSSVerif.Model TSSVerif.Model.Rbc

def showOut : Out → String
  | .deliverB p k => s!"deliver {toHex p} {k.s} b"
  | .deliverP p src => s!"deliver {toHex p} {src} p"
  | .ack k => s!"ack {toHex k.d} {k.s} {k.r}"
  | .panic => "panic"

def showOuts (os : List Out) : String :=
  if os.isEmpty then "-" else " ; ".intercalate (os.map showOut)

/-- The scripted classifier of the harness backend: payload = round byte, class byte (0 = p2p,
1 = broadcast), body. Anything shorter, a round ≥ 128 or another class byte is an error. -/
def scriptedClassify (p : Bytes) : Option (Round × Bool) :=
  match p with
  | r :: c :: _ =>
    if r.toNat ≥ 128 then none
    else if c = 0#8 then some (r.toNat, false)
    else if c = 1#8 then some (r.toNat, true)
    else none
  | _ => none

/-- A classifier that accepts everything (round = first byte mod 128 or 0, class = low bit of the
second byte): lets the empty-payload quirk through. -/
def permissiveClassify (p : Bytes) : Option (Round × Bool) :=
  match p with
  | [] => some (0, true)
  | [r] => some (r.toNat % 128, true)
  | r :: c :: _ => some (r.toNat % 128, c.toNat % 2 = 1)

structure RbcD where
  st : St
  allowed : List Id
  permissive : Bool

/-- `rbc …` (receiver level) and `disp …` (bytes level) operations. The digest of a payload is
supplied by the harness on the same line (SHA-256 is a parameter of the model). -/
def rbcOp (d : Option RbcD) (args : List String) : Option (Option RbcD × String) :=
  match args with
  | ["new", self, n, allowed, perm] => do
    let self ← parseNat self; let n ← parseNat n; let al ← parseNatList allowed
    pure (some { st := { self := self, n := n }, allowed := al, permissive := perm = "1" }, "ok")
  | ["ack", src, dig, sender, round] => do
    let d ← d
    let src ← parseNat src; let dig ← parseHex dig; let sender ← parseNat sender; let round ← parseNat round
    let r := receive d.st (.ack ⟨dig, sender, round⟩) src
    pure (some { d with st := r.1 }, showOuts r.2)
  | ["bcast", src, pay, dig, round] => do
    let d ← d
    let src ← parseNat src; let pay ← parseHex pay; let dig ← parseHex dig; let round ← parseNat round
    let r := receive d.st (.bcast pay dig round) src
    pure (some { d with st := r.1 }, showOuts r.2)
  | ["p2p", src, pay] => do
    let d ← d
    let src ← parseNat src; let pay ← parseHex pay
    let r := receive d.st (.p2p pay) src
    pure (some { d with st := r.1 }, showOuts r.2)
  | ["bytes", src, data, digestOfTail] => do
    let d ← d
    let src ← parseNat src; let data ← parseHex data; let dg ← parseHex digestOfTail
    let cfg : Dispatch.Cfg := { allowed := d.allowed,
                                classify := if d.permissive then permissiveClassify else scriptedClassify,
                                H := fun _ => dg }
    let r := Dispatch.dispatch cfg d.st src data
    pure (some { d with st := r.1 }, showOuts r.2)
  | _ => none

end TSSVerif.Driver
