import TSSVerif.Driver.Util
import TSSVerif.Model.Sss
namespace TSSVerif.Driver
open TSSVerif.Model.Sss

def parseIntList (s : String) : Option (List Int) := (parseNatList s).map (·.map Int.ofNat)

def showSubsets (l : List (List Nat)) : String :=
  if l.isEmpty then "-" else ";".intercalate (l.map showNatList)

def sssOp (args : List String) : Option String :=
  match args with
  | ["lagrange", p, i, pts] => do
    let p ← parseNat p; let i ← parseNat i; let pts ← parseIntList pts
    pure (match lagrangeCoefficient p i pts with | none => "panic" | some v => toString (zrCanon v p))
  | ["valueat", p, coeffs, x] => do
    let p ← parseNat p; let cs ← parseIntList coeffs; let x ← parseNat x
    pure (toString (zrCanon (valueAt p cs x) p))
  | ["reconstruct", p, shares, pts] => do
    let p ← parseNat p; let sh ← parseIntList shares; let pts ← parseIntList pts
    pure (match reconstruct p sh pts with | none => "panic" | some v => toString (zrCanon v p))
  | ["choose", n, k] => do
    let n ← parseNat n; let k ← parseNat k
    pure (showSubsets (chooseKoutOfN n k))
  | _ => none

end TSSVerif.Driver
