import TSSVerif.Driver.Util
import TSSVerif.Model.Orch
namespace TSSVerif.Driver
open TSSVerif.Model.Orch

structure OrchD where
  st : St := {}
  keys : List Nat := []

def showTable (keys : List Nat) (f : Nat → Option Nat) : String :=
  let l := keys.filterMap (fun k => (f k).map (fun _ => s!"{k}"))
  if l.isEmpty then "-" else ",".intercalate l

/-- keys in increasing order so that the two sides print alike -/
def orchSnapshot (d : OrchD) : String :=
  let ks := d.keys.mergeSort (fun a b => decide (a ≤ b))
  s!"sync={showTable ks d.st.t.sync} rbc={showTable ks d.st.t.rbc} cls={showTable ks d.st.t.cls} dkg={if d.st.t.dkgRunning then 1 else 0}"

def parseAct (name : String) (s k : Nat) : Option Act :=
  match name with
  | "signEnter" => some (.signEnter s k)
  | "signPrepare" => some (.signPrepare s k)
  | "regSync2" => some (.regSync2 s k)
  | "unregSync2" => some (.unregSync2 s k)
  | "signExit" => some (.signExit s k)
  | "dkgEnter" => some (.dkgEnter s k)
  | "dkgRegRbc" => some (.dkgRegRbc s k)
  | "dkgRegSync" => some (.dkgRegSync s k)
  | "dkgUnregSync" => some (.dkgUnregSync s k)
  | "dkgExit" => some (.dkgExit s k)
  | _ => none

def orchOp (d : OrchD) (args : List String) : Option (OrchD × String) :=
  match args with
  | ["new"] => some ({}, "ok")
  | ["act", name, s, k] => do
    let s ← parseNat s; let k ← parseNat k
    let a ← parseAct name s k
    let d' : OrchD := { st := apply d.st a, keys := if k ∈ d.keys then d.keys else k :: d.keys }
    let adm := if d'.st.admitted s then "admitted" else "refused"
    pure (d', s!"{adm} {orchSnapshot d'}")
  | ["quiet", name, s, k] => do
    let s ← parseNat s; let k ← parseNat k
    let a ← parseAct name s k
    pure ({ st := apply d.st a, keys := if k ∈ d.keys then d.keys else k :: d.keys }, "ok")
  | ["snap"] => some (d, orchSnapshot d)
  | ["dispatch", k] => do
    let k ← parseNat k
    let y := match dispatchSync d.st.t k with | some s => toString s | none => "-"
    let m := match dispatchMPC d.st.t k with | some s => toString s | none => "-"
    pure (d, s!"sync->{y} mpc->{m}")
  | _ => none

end TSSVerif.Driver
