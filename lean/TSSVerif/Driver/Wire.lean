import TSSVerif.Driver.Util
import TSSVerif.Model.Wire
import TSSVerif.Model.WireDisc
namespace TSSVerif.Driver
open TSSVerif.Model

def showAckDec : AckDec → String
  | .panic => "panic"
  | .payload => "payload"
  | .malformed => "malformed"
  | .ack d s r => s!"ack {toHex d} {s.toNat} {r.toNat}"

def showViewDec : ViewDec → String
  | .panic => "panic"
  | .malformed => "malformed"
  | .ok t tag peers => s!"ok {t.toNat} {toHex tag} {showNatList (peers.map (·.toNat))}"

/-- `wire …` operations (stateless). -/
def wireOp (args : List String) : Option String :=
  match args with
  | ["ackenc", d, s, r] => do
    let d ← parseHex d; let s ← parseB16 s; let r ← parseB8 r
    pure (match encodeAck d s r with | none => "panic" | some b => toHex b)
  | ["ackdec", m] => do
    let m ← parseHex m
    pure (showAckDec (decodeAck m))
  | ["viewenc", t, tag, peers] => do
    let t ← parseB8 t; let tag ← parseHex tag; let peers ← parseB16List peers
    pure (match encodeView t tag peers with | none => "panic" | some b => toHex b)
  | ["viewdec", m] => do
    let m ← parseHex m
    pure (showViewDec (decodeView m))
  | ["topicpre", members] => do
    let ms ← parseB16List members
    pure (toHex (topicPreimage ms))
  | ["prfin", x] => do
    let x ← parseB16 x
    pure (toHex (prfInput x))
  | _ => none

end TSSVerif.Driver
