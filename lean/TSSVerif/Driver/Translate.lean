import TSSVerif.Driver.Util
import TSSVerif.Model.Translate
namespace TSSVerif.Driver
open TSSVerif.Model.Translate

/-- `u:p;u:p;…` -/
def parseMap (s : String) : Option MemMap :=
  if s = "-" then some [] else
  (s.splitOn ";").mapM fun e =>
    match e.splitOn ":" with
    | [a, b] => do let a ← a.toNat?; let b ← b.toNat?; pure (a, b)
    | _ => none

def trOp (args : List String) : Option String :=
  match args with
  | ["init", m, l] => do
    let m ← parseMap m; let l ← parseNatList l
    pure (match initArgs m l with | none => "refused" | some ps => s!"init {showNatList ps}")
  | ["attr", m, src] => do
    let m ← parseMap m; let src ← parseNat src
    pure (toString (attributeTo m src))
  | ["dest", m, l, pid] => do
    let m ← parseMap m; let l ← parseNatList l; let pid ← parseNat pid
    pure (match destination m l pid with | none => "none" | some u => toString u)
  | _ => none

end TSSVerif.Driver
