import TSSVerif.Driver.Util
import TSSVerif.Model.Box
namespace TSSVerif.Driver
open TSSVerif.Model.Box

structure BoxD where
  cfg : Cfg
  box : Box := {}
  topics : List Nat := []     -- every topic seen so far (to enumerate the function-valued maps)
  senders : List Nat := []

def showEv : Ev → String
  | .handover m => s!"h{m.id}"
  | .fwdSend t => s!"fs{t}"

def addKey (k : Nat) (l : List Nat) : List Nat := if k ∈ l then l else k :: l

/-- sizes as `VerifSnapshot` reports them: pending topics, buffered messages, started topics, sum of
in-flight topics over senders, epoch, lastGC -/
def snapshot (d : BoxD) : String :=
  let pend := d.topics.filter (fun t => (d.box.pending t).isSome)
  let buffered := (pend.map (fun t => match d.box.pending t with | some p => p.msgs.length | none => 0)).sum
  let started := (d.topics.filter (fun t => (d.box.started t).isSome)).length
  let infl := (d.senders.map (fun s => (d.box.inflight s).length)).sum
  s!"P{pend.length} B{buffered} S{started} I{infl} E{d.box.epoch} G{d.box.lastGC}"

/-- Driver-level compaction: rebuild the function-valued maps as look-ups in tables over the keys
seen so far. Extensionally the identity (unseen keys hold the default in both), it only keeps the
closures that the model's updates build from growing with the length of the history. -/
def tableFn {α : Type} (tbl : List (Nat × α)) (dflt : α) : Nat → α :=
  fun k => match tbl.find? (fun e => e.1 == k) with | some e => e.2 | none => dflt

def compactPend (senders : List Nat) (p : Pend) : Pend :=
  { p with count := tableFn (senders.map (fun s => (s, p.count s))) 0 }

def compact (d : BoxD) : BoxD :=
  let b := d.box
  { d with box :=
    { b with
      pending := tableFn (d.topics.map (fun t => (t, (b.pending t).map (compactPend d.senders)))) none
      started := tableFn (d.topics.map (fun t => (t, b.started t))) none
      inflight := tableFn (d.senders.map (fun s => (s, b.inflight s))) [] } }

def showEvs (l : List Ev) : String := if l.isEmpty then "-" else " ".intercalate (l.map showEv)

def boxOp (d : Option BoxD) (args : List String) : Option (Option BoxD × String) :=
  match args with
  | ["new", mx, lim, ex] => do
    let mx ← parseNat mx; let lim ← parseNat lim; let ex ← parseNat ex
    pure (some { cfg := { maxTopics := mx, limit := lim, expiry := ex } }, "ok")
  | ["recv", src, topic, id] => do
    let d ← d
    let src ← parseNat src; let topic ← parseNat topic; let id ← parseNat id
    let r := recv d.cfg d.box ⟨src, topic, id⟩
    let d' := compact { d with box := r.1, topics := addKey topic d.topics, senders := addKey src d.senders }
    pure (some d', s!"{showEvs r.2} | {snapshot d'}")
  | ["send", topic] => do
    let d ← d
    let topic ← parseNat topic
    let r := send d.cfg d.box topic
    let d' := compact { d with box := r.1, topics := addKey topic d.topics }
    pure (some d', s!"{showEvs r.2} | {snapshot d'}")
  | ["tick"] => do
    let d ← d
    let d' := { d with box := tick d.box }
    pure (some d', s!"- | {snapshot d'}")
  | _ => none

end TSSVerif.Driver
