import TSSVerif.Driver.Util
import TSSVerif.Model.Classify
namespace TSSVerif.Driver
open TSSVerif.Model

def showCls : Classify.Res → String
  | .panic => "panic"
  | .error => "error"
  | .ok r b => s!"ok {r} {if b then 1 else 0}"

def clsOp (args : List String) : Option String :=
  match args with
  | ["bls", p] => do let p ← parseHex p; pure (showCls (Classify.bls p))
  | ["ps", p] => do let p ← parseHex p; pure (showCls (Classify.ps p))
  | _ => none

end TSSVerif.Driver
