import TSSVerif.Model.WireBase
/-! Line-protocol helpers for the driver: hex, numbers, lists. Core Lean only. Anything that does
not parse is `none`, which the driver answers with `bad-op` — never a default value. -/
namespace TSSVerif.Driver
open TSSVerif.Model

def hexDigit (c : Char) : Option Nat :=
  if '0' ≤ c ∧ c ≤ '9' then some (c.toNat - '0'.toNat)
  else if 'a' ≤ c ∧ c ≤ 'f' then some (c.toNat - 'a'.toNat + 10)
  else none

def parseHexChars : List Char → Option Bytes
  | [] => some []
  | [_] => none
  | a :: b :: rest => do
    let x ← hexDigit a
    let y ← hexDigit b
    let r ← parseHexChars rest
    pure (BitVec.ofNat 8 (x * 16 + y) :: r)

/-- `-` is the empty byte string. -/
def parseHex (s : String) : Option Bytes :=
  if s = "-" then some [] else parseHexChars s.toList

def hexChar (n : Nat) : Char :=
  if n < 10 then Char.ofNat ('0'.toNat + n) else Char.ofNat ('a'.toNat + n - 10)

def toHex (b : Bytes) : String :=
  if b.isEmpty then "-"
  else String.ofList (b.flatMap fun x => [hexChar (x.toNat / 16), hexChar (x.toNat % 16)])

def parseNat (s : String) : Option Nat := s.toNat?

def parseB16 (s : String) : Option B16 := do
  let n ← s.toNat?
  if n < 65536 then some (BitVec.ofNat 16 n) else none

def parseB8 (s : String) : Option B8 := do
  let n ← s.toNat?
  if n < 256 then some (BitVec.ofNat 8 n) else none

/-- comma-separated naturals; `-` is the empty list. -/
def parseNatList (s : String) : Option (List Nat) :=
  if s = "-" then some [] else (s.splitOn ",").mapM (·.toNat?)

def parseB16List (s : String) : Option (List B16) := do
  let l ← parseNatList s
  l.mapM fun n => if n < 65536 then some (BitVec.ofNat 16 n) else none

def showNatList (l : List Nat) : String :=
  if l.isEmpty then "-" else ",".intercalate (l.map toString)

end TSSVerif.Driver
