import TSSVerif.Driver.Box
import TSSVerif.Model.BoxConc
namespace TSSVerif.Driver
open TSSVerif.Model.Box TSSVerif.Model.BoxConc

structure BoxCD where
  cfg : Cfg
  sys : Sys := {}

/-- `r<src>.<topic>.<id>` or `s<topic>` -/
def parseCall (s : String) : Option Call :=
  match s.toList with
  | 'r' :: rest =>
    match (String.ofList rest).splitOn "." with
    | [a, b, c] => do
      let a ← a.toNat?; let b ← b.toNat?; let c ← c.toNat?
      pure (.recv ⟨a, b, c⟩)
    | _ => none
  | 's' :: rest => (String.ofList rest).toNat?.map .send
  | _ => none

def boxcOp (d : Option BoxCD) (args : List String) : Option (Option BoxCD × String) :=
  match args with
  | ["new", mx, lim, ex] => do
    let mx ← parseNat mx; let lim ← parseNat lim; let ex ← parseNat ex
    pure (some { cfg := { maxTopics := mx, limit := lim, expiry := ex } }, "ok")
  | ["thread", i, script] => do
    let d ← d
    let i ← parseNat i
    let calls ← (script.splitOn ",").mapM parseCall
    if i ≠ d.sys.threads.length then none
    pure (some { d with sys := { d.sys with threads := d.sys.threads ++ [{ pc := .idle, script := calls }] } }, "ok")
  | ["step", i] => do
    let d ← d
    let i ← parseNat i
    let th ← d.sys.threads[i]?
    let o := stepThread d.cfg d.sys.box th
    let σ' := sysStep d.cfg d.sys i
    let stop := match o.thread.pc with | .finished => "done" | _ => "y"
    pure (some { d with sys := σ' }, s!"{showEvs o.evs} | {stop}")
  | _ => none

end TSSVerif.Driver
