import Mathlib.LinearAlgebra.BilinearMap
import Mathlib.Algebra.BigOperators.Group.Finset.Basic
import Mathlib.Algebra.Module.BigOperators
import Mathlib.Tactic.Module
import Mathlib.Tactic.LinearCombination
/-!
The Pointcheval–Sanders blind threshold signature of `mpc/ps/ps.go`, `prover.go`, `tps.go` and the BLS
signature of `mpc/bls/tbls.go`, as equations over abstract groups: `G1`, `G2`, `GT` are modules over the
scalar field `F` (written additively: the code's `X.Mul(s)` is `s • X`, `X.Add(Y)` is `X + Y`), the pairing
is a bilinear map. Every definition is the transcription of the arithmetic statements of one Go function;
the statements themselves are regenerated from the source on every run (`Gen/Ps.lean`) and a theorem in
`Props/C08.lean` pins them to the ones transcribed here.

Message indices `ι` range over the `n = ℓ + 1` positions (the last one carries `m′`).
This file needs Mathlib (modules, big operators) and is not part of the executable driver.
-/
open Finset
namespace TSSVerif.Model.Ps

variable {F : Type*} [Field F]
variable {G1 G2 GT : Type*} [AddCommGroup G1] [Module F G1] [AddCommGroup G2] [Module F G2] [AddCommGroup GT] [Module F GT]
variable {ι : Type*} [Fintype ι]

/-- `PP`: `Setup` -/
structure PP (G1 G2 : Type*) (ι : Type*) where
  g : G1
  g0 : G1
  gs : ι → G1
  g2 : G2

/-- `SK` and the `PK` it determines (`LocalKeyGen`, and share-wise in `TPS.KeyGen`) -/
structure SK (F : Type*) (ι : Type*) where
  x : F
  ys : ι → F

structure PK (G2 : Type*) (ι : Type*) where
  X : G2
  Y : ι → G2

def SK.pk (pp : PP G1 G2 ι) (sk : SK F ι) : PK G2 ι := { X := sk.x • pp.g2, Y := fun i => sk.ys i • pp.g2 }

/-- `commit` (with `m′` already in the vector, as after `cm.Add(gs[last].Mul(mPrime))`) -/
def commit (pp : PP G1 G2 ι) (rcm : F) (m : ι → F) : G1 := rcm • pp.g0 + ∑ i, m i • pp.gs i

/-- the blinded request: `encrypt` and `proveBlindingIsWellFormed` -/
structure Request (F G1 : Type*) (ι : Type*) where
  cm : G1
  u : G1
  a : ι → G1
  b : ι → G1
  -- ξ
  d : ι → G1
  f : ι → G1
  s : G1
  x : ι → F
  y : ι → F
  z : F

/-- everything `Blind` draws -/
structure BlindRand (F : Type*) (ι : Type*) where
  rcm : F
  z : F
  r : ι → F
  α : ι → F
  β : ι → F
  γ : F

/-- `Blind`, given the hash-derived `h` and the Fiat–Shamir challenge `e` -/
def blind (pp : PP G1 G2 ι) (m : ι → F) (ρ : BlindRand F ι) (h : G1) (e : F) : Request F G1 ι :=
  let u := ρ.z • pp.g
  { cm := commit pp ρ.rcm m
    u := u
    a := fun i => ρ.r i • pp.g
    b := fun i => m i • h + ρ.r i • u
    d := fun i => ρ.β i • h + ρ.α i • u
    f := fun i => ρ.α i • pp.g
    s := ρ.γ • pp.g0 + ∑ i, ρ.β i • pp.gs i
    x := fun i => ρ.α i + e * ρ.r i
    y := fun i => ρ.β i + e * m i
    z := ρ.γ + e * ρ.rcm }

/-- `BlindCorrectFormProof.Verify` for challenge `e` -/
def Request.verify (pp : PP G1 G2 ι) (q : Request F G1 ι) (h : G1) (e : F) : Prop :=
  (∀ i, q.x i • q.u + q.y i • h = q.d i + e • q.b i) ∧
  (∀ i, q.x i • pp.g = q.f i + e • q.a i) ∧
  (e • q.cm + q.s = q.z • pp.g0 + ∑ i, q.y i • pp.gs i)

/-- `SignBlindSignature` after the request's proof verified: `(a, b)` -/
def signBlind (q : Request F G1 ι) (h : G1) (sk : SK F ι) : G1 × G1 :=
  (∑ i, sk.ys i • q.a i, sk.x • h + ∑ i, sk.ys i • q.b i)

/-- `UnBlind`: the witness `h′ = b − z·a` … -/
def unblind (σ : G1 × G1) (z : F) : G1 := σ.2 + (-z) • σ.1

variable (e : G1 →ₗ[F] G2 →ₗ[F] GT)

/-- … accepted when `e(h′, −g2) · e(h, X + Σ mᵢYᵢ) = 1` -/
def unblindCheck (pp : PP G1 G2 ι) (pk : PK G2 ι) (h h' : G1) (m : ι → F) : Prop :=
  e h' (-pp.g2) + e h (pk.X + ∑ i, m i • pk.Y i) = 0

/-- the proof of knowledge: `PoKofSig` and `proveProofOfKnowledgeOfSignatureIsCorrectlyFormed` -/
structure SigPoK (F G1 G2 : Type*) (ι : Type*) where
  hε : G1
  hPrimeε : G1
  ν : G1
  κ : G2
  -- ψ
  Γ : G2
  Φ : G1
  x : ι → F
  y : F

structure PoKRand (F : Type*) (ι : Type*) where
  ε : F
  δ : F
  μ : F
  γ : ι → F

def pokOfSig (pp : PP G1 G2 ι) (pk : PK G2 ι) (h h' : G1) (m : ι → F) (ρ : PoKRand F ι) (c : F) : SigPoK F G1 G2 ι :=
  let hε := ρ.ε • h
  { hε := hε
    hPrimeε := ρ.ε • h'
    ν := ρ.δ • hε
    κ := pk.X + ∑ i, m i • pk.Y i + ρ.δ • pp.g2
    Γ := ρ.μ • pp.g2 + ∑ i, ρ.γ i • pk.Y i
    Φ := ρ.μ • hε
    x := fun i => ρ.γ i + c * m i
    y := ρ.μ + c * ρ.δ }

/-- `PoKofSignaturePoCorrectForm.Verify` (with `checkcommitmentForm`) for challenge `c` -/
def SigPoK.verifyForm (pp : PP G1 G2 ι) (pk : PK G2 ι) (π : SigPoK F G1 G2 ι) (c : F) : Prop :=
  (π.y • pp.g2 + ∑ i, π.x i • pk.Y i = π.Γ + c • (π.κ + -pk.X)) ∧ (π.y • π.hε = c • π.ν + π.Φ)

/-- `SigPoK.Verify` -/
def SigPoK.verify (pp : PP G1 G2 ι) (pk : PK G2 ι) (π : SigPoK F G1 G2 ι) (c : F) : Prop :=
  π.verifyForm pp pk c ∧ π.hε ≠ 0 ∧ e π.hε π.κ + e (π.hPrimeε + π.ν) (-pp.g2) = 0

/-! ## BLS (`mpc/bls/tbls.go`) -/

/-- `localVerify`: `e(sig, −g2) · e(H(m), pk) = 1` -/
def blsVerify (g2 pk : G2) (hm sig : G1) : Prop := e sig (-g2) + e hm pk = 0

end TSSVerif.Model.Ps
