import TSSVerif.Model.Rbc
/-!
A fault-free session on an exactly-once network: every member is honest and runs the receiver of
`Model/Rbc.lean`; the backends emit broadcasts (pairwise distinct (sender, round)) and point-to-point
messages at arbitrary moments; the network delivers every message exactly once, in **any** order
(no FIFO assumption), including acknowledgements overtaking the payload they refer to.
Core Lean only.
-/
namespace TSSVerif.Model.RbcNet
open TSSVerif.Model TSSVerif.Model.Rbc

/-- one broadcast of the workload -/
structure BW where
  s : Id
  r : Round
  p : Pay
deriving DecidableEq, Repr

/-- a message in flight -/
structure Flight where
  to : Id
  src : Id
  m : Msg
deriving DecidableEq, Repr

structure Cfg where
  members : List Id
  H : Pay → Dig

structure Net where
  st : Id → St
  inbox : Id → List (Id × Msg)   -- ghost: what each member has received so far, in arrival order
  flight : List Flight
  sentB : List BW
  sentP : List Flight

def bkey (c : Cfg) (b : BW) : Key := ⟨c.H b.p, b.s, b.r⟩

def direct (c : Cfg) (b : BW) (q : Id) : Flight := ⟨q, b.s, .bcast b.p (c.H b.p) b.r⟩

/-- the direct copies of a broadcast: one per other member -/
def copies (c : Cfg) (b : BW) : List Flight := (c.members.filter (· ≠ b.s)).map (direct c b)

/-- acknowledgements emitted by `me` are broadcast to every other member -/
def acksOf (c : Cfg) (me : Id) (outs : List Out) : List Flight :=
  outs.flatMap fun o =>
    match o with
    | .ack k => (c.members.filter (· ≠ me)).map (fun q => ⟨q, me, .ack k⟩)
    | _ => []

def fresh (c : Cfg) (q : Id) : St := { self := q, n := c.members.length }

def init (c : Cfg) : Net :=
  { st := fresh c, inbox := fun _ => [], flight := [], sentB := [], sentP := [] }

def deliver (c : Cfg) (σ : Net) (f : Flight) : Net :=
  { σ with
    st := fun q => if q = f.to then (receive (σ.st f.to) f.m f.src).1 else σ.st q
    inbox := fun q => if q = f.to then σ.inbox q ++ [(f.src, f.m)] else σ.inbox q
    flight := σ.flight.erase f ++ acksOf c f.to (receive (σ.st f.to) f.m f.src).2 }

inductive Reach (c : Cfg) : Net → Prop
  | init : Reach c (init c)
  | emitB {σ} (h : Reach c σ) (b : BW) (hs : b.s ∈ c.members)
      (hfresh : ∀ b' ∈ σ.sentB, ¬ (b'.s = b.s ∧ b'.r = b.r)) :
      Reach c { σ with flight := σ.flight ++ copies c b, sentB := b :: σ.sentB }
  | emitP {σ} (h : Reach c σ) (src to : Id) (p : Pay) (hs : src ∈ c.members) (ht : to ∈ c.members)
      (hne : src ≠ to) :
      Reach c { σ with flight := σ.flight ++ [⟨to, src, .p2p p⟩], sentP := ⟨to, src, .p2p p⟩ :: σ.sentP }
  | deliver {σ} (h : Reach c σ) (f : Flight) (hf : f ∈ σ.flight) : Reach c (deliver c σ f)

end TSSVerif.Model.RbcNet
