import TSSVerif.Model.WireBase
import TSSVerif.Gen.WireDisc
/-!
Codec model, synchroniser side: the view encoding (`disc/discovery.go` `encodeTagAndMembershipList`,
`decodeTagAndMembershipList`), the bytes hashed by `membershipSyncTopicName` and the PRF input of `makePRF`.

The integer expressions, guards, offsets and strides come from `Gen/WireDisc.lean`, which is regenerated from the Go AST
on every run; this file only supplies the list plumbing around them. Go's partiality (index / slice out of range,
explicit `panic`) is an explicit outcome.
-/
namespace TSSVerif.Model
open TSSVerif.Gen.WireDisc

/-! ### synchroniser views -/

def encodePeers : List B16 → Bytes
  | [] => []
  | p :: ps => viewEncByteAt0 p :: viewEncByteAt1 p :: encodePeers ps

/-- `encodeTagAndMembershipList`; `none` = one of its two explicit panics. -/
def encodeView (t : B8) (tag : Bytes) (peers : List B16) : Option Bytes :=
  if tag.length ≠ viewEncTagLen then none
  else if t < 1 ∨ t > 3 then none
  else some (t :: tag ++ encodePeers peers)

inductive ViewDec
  | panic
  | malformed
  | ok (t : B8) (tag : Bytes) (peers : List B16)
deriving DecidableEq, Repr

/-- The decoding loop over the member bytes; `none` = `msg[offset+1]` out of range on a dangling
byte (unless the loop condition itself guards the pair, in which case the byte is ignored). -/
def decodePeers : Bytes → Option (List B16)
  | [] => some []
  | [_] => if viewDecLoopGuardsPair then some [] else none
  | lo :: hi :: rest => (decodePeers rest).map (viewDecPeer lo hi :: ·)

/-- `decodeTagAndMembershipList`. -/
def decodeView (m : Bytes) : ViewDec :=
  if m.length < viewDecMinLen then .malformed
  else match m with
    | [] => .panic                                   -- msg[0]
    | t :: _ =>
      if t < 1 ∨ t > 3 then .malformed
      else if viewDecOddTailRejected ∧ (m.length - viewDecStart) % 2 ≠ 0 then .malformed
      else match decodePeers (m.drop viewDecStart) with
        | none => .panic
        | some peers =>
          if m.length < viewDecTagHi then .panic     -- msg[1:33]
          else .ok t ((m.drop viewDecTagLo).take (viewDecTagHi - viewDecTagLo)) peers

/-- Bytes hashed by `membershipSyncTopicName`. -/
def topicPreimage (members : List B16) : Bytes :=
  members.flatMap (fun x => [topicMemberByte0 x, topicMemberByte1 x])

/-- Bytes fed to HMAC by `makePRF(key)(x)`. -/
def prfInput (x : B16) : Bytes := [prfByte0 x, prfByte1 x]

end TSSVerif.Model
