import TSSVerif.Model.WireBase
/-!
Reliable-broadcast receiver — model of `rbc/rbc.go` (`Receiver.Receive`, `registerMsg`), line by
line, *as repaired* by the three `fix:` commits recorded in known_findings.json (F01–F03):
an acknowledgement by the sender about its own message is ignored, a message is forwarded at most
once (`delivered`), and never without its payload.

State uses function-valued maps (still executable; far easier to reason about than association
lists). Core Lean only.
-/
namespace TSSVerif.Model.Rbc
open TSSVerif.Model

abbrev Id := Nat
abbrev Round := Nat
abbrev Dig := Bytes
abbrev Pay := Bytes

structure Key where
  d : Dig
  s : Id
  r : Round
deriving DecidableEq, Repr

structure Slot where
  m : Option Pay := none
  ids : List Id := []
  delivered : Bool := false
deriving Repr

structure St where
  self : Id
  n : Nat
  pinned : Id × Round → Option Dig := fun _ => none
  slot : Key → Slot := fun _ => {}
  halted : Bool := false

inductive Msg where
  | ack (k : Key)
  | bcast (p : Pay) (d : Dig) (r : Round)
  | p2p (p : Pay)
deriving DecidableEq, Repr

inductive Out where
  | deliverB (p : Pay) (k : Key)
  | deliverP (p : Pay) (src : Id)
  | ack (k : Key)
  | panic
deriving DecidableEq, Repr

def ins (x : Id) (l : List Id) : List Id := if x ∈ l then l else x :: l

theorem mem_ins {x y : Id} {l : List Id} : y ∈ ins x l ↔ y = x ∨ y ∈ l := by
  unfold ins; split <;> simp_all

theorem nodup_ins {x : Id} {l : List Id} (h : l.Nodup) : (ins x l).Nodup := by
  unfold ins; split <;> simp_all

def pin (s : St) (k : Key) : Option St :=
  match s.pinned (k.s, k.r) with
  | some d => if d = k.d then some s else none
  | none => some { s with pinned := fun x => if x = (k.s, k.r) then some k.d else s.pinned x }

/-- the payload slot after a registration: a directly received payload replaces the placeholder -/
def mergePay (m : Option Pay) (old : Option Pay) : Option Pay :=
  match m with
  | some p => some p
  | none => old

def vouch (s : St) (k : Key) (src : Id) (m : Option Pay) : St × List Out :=
  let sl := s.slot k
  let ids := ins src sl.ids
  let m' := mergePay m sl.m
  let fire := decide (ids.length = s.n - 1) && !sl.delivered && m'.isSome
  ({ s with slot := fun k' => if k' = k then { m := m', ids := ids, delivered := sl.delivered || fire } else s.slot k' },
   match fire, m' with
   | true, some p => [.deliverB p k]
   | _, _ => [])

def register (s : St) (k : Key) (src : Id) (m : Option Pay) : St × List Out :=
  match pin s k with
  | none => ({ s with halted := true }, [])
  | some s1 => vouch s1 k src m

def receive (s : St) (msg : Msg) (src : Id) : St × List Out :=
  if s.halted then (s, []) else
  match msg with
  | .ack k =>
    if src = s.self then (s, [.panic])
    else if k.s = s.self then (s, [])
    else if src = k.s then (s, [])
    else register s k src none
  | .p2p p => (s, [.deliverP p src])
  | .bcast p d r =>
    let k : Key := ⟨d, src, r⟩
    let res := register s k s.self (some p)
    (res.1, res.2 ++ [.ack k])

/-! ## the session as a system: honest receivers, adversarial everything else -/

structure Cfg where
  members : List Id
  honest : Id → Bool

structure Sys where
  st : Id → St
  hist : List (Id × Out)

def init (c : Cfg) : Sys := { st := fun p => { self := p, n := c.members.length }, hist := [] }

def Sys.recv (c : Cfg) (σ : Sys) (p src : Id) (msg : Msg) : Sys :=
  if src ∈ c.members then
    { st := fun q => if q = p then (receive (σ.st p) msg src).1 else σ.st q,
      hist := σ.hist ++ (receive (σ.st p) msg src).2.map (fun o => (p, o)) }
  else σ

/-- Any honest member may be handed any message attributed to any source other than itself, at any
time, except that an acknowledgement attributed to an honest source (about somebody else's message —
an acknowledgement about one's own message is ignored by every receiver anyway) must have been
emitted by it. -/
inductive Reach (c : Cfg) : Sys → Prop
  | init : Reach c (init c)
  | step {σ} (h : Reach c σ) (p src : Id) (msg : Msg)
      (hp : c.honest p = true) (hpm : p ∈ c.members) (hsrc : src ≠ p)
      (hauth : c.honest src = true → ∀ k, msg = .ack k → src ≠ k.s → (src, Out.ack k) ∈ σ.hist) :
      Reach c (σ.recv c p src msg)

end TSSVerif.Model.Rbc
