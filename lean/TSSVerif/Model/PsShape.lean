/-!
Shape-level, panic-aware model of the PS entry points that take bytes from untrusted clients:
`TPS.Sign` (→ `BlindSignature.fromBytes` → `SignBlindSignature` → `BlindCorrectFormProof.Verify`)
and `Verifier.Verify` (→ `SigPoK.fromBytes` → `SigPoK.Verify` → `ψ.Verify` →
`checkcommitmentForm`) of `mpc/ps/ps.go`, `mpc/ps/tps.go`, `mpc/ps/verifier.go`.

Only what decides whether Go panics is modelled: the lengths of the decoded lists, whether each
element parses as a curve point (IBM/mathlib recovers internally and returns an error), and the
order of the guards. The algebraic equations are an arbitrary Boolean parameter. ASN.1 decoding is a
total parameter (it yields some shape or an error). Core Lean only.
-/
namespace TSSVerif.Model.PsShape

inductive Outcome
  | panic (site : String)
  | reject          -- an error is returned
  | accept
deriving DecidableEq, Repr

/-- what `asn1.Unmarshal` produced for a blinded signing request; per point list, whether each
element parses -/
structure ReqShape where
  a : List Bool
  b : List Bool
  xs : Nat
  ys : Nat
  d : List Bool
  f : List Bool
  sOK : Bool
  cmOK : Bool
  uOK : Bool
deriving Repr

/-- a loop `for i := 0; i < n; i++` indexing slices of the given lengths panics iff one is shorter -/
def loopOK (n : Nat) (lens : List Nat) : Bool := lens.all (fun l => decide (n ≤ l))

/-- `TPS.Sign(request)` with `n = len(pp.gs)` generators and `skYs = len(sk.ys)` key components;
`eqOK`: the proof's equations hold. -/
def sign (n skYs : Nat) (decodes : Bool) (r : ReqShape) (eqOK : Bool) : Outcome :=
  if !decodes then .reject                                   -- asn1.Unmarshal failed
  -- ξ.fromBytes: s, then every d, then every f must parse
  else if !r.sOK || !r.d.all id || !r.f.all id then .reject
  else if !r.cmOK || !r.uOK then .reject
  -- a[i], b[i]: parse errors are returned
  else if !r.a.all id || !r.b.all id then .reject
  -- SignBlindSignature: pp.gs[len(pp.gs)-1]
  else if n = 0 then .panic "pp.gs[len(pp.gs)-1]"
  -- ξ.Verify: the length guard
  else if r.xs ≠ n ∨ r.ys ≠ n ∨ r.d.length ≠ n ∨ r.f.length ≠ n then .reject
  else if r.a.length ≠ n ∨ r.b.length ≠ n then .reject
  -- the loops of Verify / randomOracleForBlindingProof
  else if !loopOK n [r.xs, r.ys, r.d.length, r.f.length, r.a.length, r.b.length] then .panic "Verify: index"
  else if !eqOK then .reject
  -- the signing loops: σ.a[i], σ.b[i], sk.ys[i] for i < len(pp.gs)
  else if !loopOK n [r.a.length, r.b.length, skYs] then .panic "SignBlindSignature: index"
  else .accept

/-- shape of a proof of knowledge: number of decoded top-level elements, whether each parses, the
number of responses in ψ -/
structure PokShape where
  dataLen : Nat
  partsOK : Bool      -- ψ, hε, h'ε, ν, κ all parse
  psiX : Nat
deriving Repr

/-- `Verifier.Verify(proof)` against a key with `keyY` components -/
def verify (keyY : Nat) (decodes : Bool) (p : PokShape) (eqOK : Bool) : Outcome :=
  if !decodes then .reject
  else if p.dataLen ≠ 5 then .reject
  else if !loopOK 5 [p.dataLen] then .panic "rspok.Data[i]"
  else if !p.partsOK then .reject
  else if p.psiX > keyY then .reject                          -- ψ.Verify's guard
  else if !loopOK p.psiX [keyY, p.psiX] then .panic "checkcommitmentForm: Y[i]"
  else if !eqOK then .reject
  else .accept

end TSSVerif.Model.PsShape
