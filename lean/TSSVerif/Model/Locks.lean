/-!
Synchronisation discipline — the abstract machine behind C20: threads acquire and release mutexes (exclusive) and
read-write mutexes (shared / exclusive) in any order the locks permit; an access to a location is *disciplined* if the
thread holds the location's guard in a sufficient mode (shared for a read, exclusive for a write). Core Lean only.
-/
namespace TSSVerif.Model.Locks

abbrev Thread := Nat
abbrev Mutex := Nat
abbrev Loc := Nat

inductive Mode
  | shared | exclusive
deriving DecidableEq, Repr

structure St where
  writer : Mutex → Option Thread := fun _ => none
  readers : Mutex → List Thread := fun _ => []

inductive Ev
  | lock (t : Thread) (m : Mutex)
  | rlock (t : Thread) (m : Mutex)
  | unlock (t : Thread) (m : Mutex)
  | runlock (t : Thread) (m : Mutex)
deriving Repr

/-- `none`: the event is not enabled (the thread would block, or releases what it does not hold) -/
def step (s : St) : Ev → Option St
  | .lock t m =>
    if s.writer m = none ∧ s.readers m = [] then
      some { s with writer := fun x => if x = m then some t else s.writer x }
    else none
  | .rlock t m =>
    if s.writer m = none then
      some { s with readers := fun x => if x = m then t :: s.readers m else s.readers x }
    else none
  | .unlock t m =>
    if s.writer m = some t then
      some { s with writer := fun x => if x = m then none else s.writer x }
    else none
  | .runlock t m =>
    if t ∈ s.readers m then
      some { s with readers := fun x => if x = m then (s.readers m).erase t else s.readers x }
    else none

inductive Reach : St → Prop
  | init : Reach {}
  | step {s s'} (h : Reach s) (e : Ev) (he : step s e = some s') : Reach s'

def holds (s : St) (t : Thread) (m : Mutex) : Mode → Prop
  | .exclusive => s.writer m = some t
  | .shared => s.writer m = some t ∨ t ∈ s.readers m

/-- what an access needs -/
inductive RW
  | read | write
deriving DecidableEq, Repr

def need : RW → Mode
  | .read => .shared
  | .write => .exclusive

/-- an access by thread `t` to location `x` is disciplined in state `s` under the protection map `guard` -/
def disciplined (guard : Loc → Mutex) (s : St) (t : Thread) (x : Loc) (rw : RW) : Prop :=
  holds s t (guard x) (need rw)

end TSSVerif.Model.Locks
