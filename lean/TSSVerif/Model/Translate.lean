/-!
Node-identifier / party-identifier translation of the orchestrator — model of
`threshold/threshold.go` `computeMembership`, `membership.partyIDByUniversalID`,
`membership.partyIDsByUniversalIDs`, `membership.universalIDsByPartyIDs`, and of how `runDKG`,
`prepareSigning`, `initializeDKG`, `initializeThresholdSigning` use them (as repaired by F08a/F08b).
Core Lean only.
-/
namespace TSSVerif.Model.Translate

abbrev UID := Nat
abbrev PID := Nat

/-- `Membership()`: a finite map node ↦ party, as an association list (first entry wins; Go maps have
unique keys, so the harness never produces two entries for one node) -/
abbrev MemMap := List (UID × PID)

/-- `partyIDByUniversalID`: a missing key yields Go's zero value -/
def partyOf (M : MemMap) (u : UID) : PID :=
  match M.find? (fun e => e.1 == u) with
  | some e => e.2
  | none => 0

/-- the loop of `partyIDsByUniversalIDs`: `none` = "party tried to participate twice" -/
def collect (M : MemMap) : List UID → List PID → Option (List PID)
  | [], acc => some acc
  | u :: rest, acc =>
    let p := partyOf M u
    if p ∈ acc then none else collect M rest (acc ++ [p])

/-- sorting (`sort.Sort` on distinct identifiers: any correct sort gives this list) -/
def insSorted (a : Nat) : List Nat → List Nat
  | [] => [a]
  | b :: l => if a ≤ b then a :: b :: l else b :: insSorted a l

def isort : List Nat → List Nat
  | [] => []
  | a :: l => insSorted a (isort l)

/-- `partyIDsByUniversalIDs(ids)`: the sorted party identifiers of the agreed nodes, or the refusal -/
def partyIDs (M : MemMap) (L : List UID) : Option (List PID) :=
  (collect M L []).map isort

/-- `universalIDsByPartyIDs(ids)[π]`: the node that represents party π in this session (the last
one in list order, were there several — but such a session is refused before it is used) -/
def nodeOf (M : MemMap) (L : List UID) (π : PID) : Option UID :=
  (L.reverse.find? (fun u => partyOf M u == π))

/-- what the backend's `Init` receives -/
def initArgs (M : MemMap) (L : List UID) : Option (List PID) := partyIDs M L

/-- what `OnMsg` receives as the sender for a message whose authenticated source is node `src` -/
def attributeTo (M : MemMap) (src : UID) : PID := partyOf M src

/-- where a point-to-point message addressed to party π is sent (`none`: dropped with a warning) -/
def destination (M : MemMap) (L : List UID) (π : PID) : Option UID := nodeOf M L π

end TSSVerif.Model.Translate
