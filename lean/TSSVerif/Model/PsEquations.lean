/-!
Committed expectation of `Gen/Ps.lean`: the arithmetic statements of the PS / BLS functions, in source order, from which
`Model/PsAlgebra.lean` was transcribed (one definition per function), and the aliasing census of the verifying functions.
`Props/C08.equations_as_modelled` asserts, on every run, that the regenerated lists equal these.
Written by tools/mk_pseq.py at development time; never at check time.
-/
namespace TSSVerif.Model.PsEq

def blind : List String := [
  "rcm := c.NewRandomZr(rand.Reader)",
  "z := c.NewRandomZr(rand.Reader)",
  "u := pp.g.Mul(z)",
  "cm := commit(pp, rcm, m)",
  "oldCM := cm.Copy()",
  "mPrime := pp.c.HashToZr(hash(cm.Bytes()))",
  "cm.Add(pp.gs[len(pp.gs)-1].Mul(mPrime))",
  "h := pp.c.HashToG1(cm.Bytes())",
  "a, b, r := encrypt(pp, c, msg, h, u)",
  "ξ := proveBlindingIsWellFormed(c, msg, r, a, b, rcm, pp.g, pp.g0, h, u, cm, pp.gs)"
]
def commit : List String := [
  "cm := pp.g0.Mul(rcm)",
  "for i := 0; i < len(m); i++ {",
  "cm.Add(pp.gs[i].Mul(m[i]))",
  "}"
]
def encrypt : List String := [
  "for i := 0; i < len(r); i++ {",
  "r[i] = c.NewRandomZr(rand.Reader)",
  "}",
  "for i := 0; i < len(a); i++ {",
  "a[i] = pp.g.Mul(r[i])",
  "}",
  "for i := 0; i < len(m); i++ {",
  "bi := h.Mul(m[i])",
  "bi.Add(u.Mul(r[i]))",
  "}"
]
def proveBlinding : List String := [
  "for i := 0; i < n; i++ {",
  "α[i] = c.NewRandomZr(rand.Reader)",
  "}",
  "for i := 0; i < n; i++ {",
  "β[i] = c.NewRandomZr(rand.Reader)",
  "}",
  "γ := c.NewRandomZr(rand.Reader)",
  "s := g0.Mul(γ)",
  "for i := 0; i < n; i++ {",
  "s.Add(gs[i].Mul(β[i]))",
  "d[i] = h.Mul(β[i])",
  "d[i].Add(u.Mul(α[i]))",
  "f[i] = g.Mul(α[i])",
  "}",
  "digest := randomOracleForBlindingProof(n, d, f, s, a, b, cm, g, g0, h, u, gs)",
  "e := c.HashToZr(digest)",
  "z := γ.Plus(e.Mul(rcm))",
  "for i := 0; i < n; i++ {",
  "x[i] = α[i].Plus(e.Mul(r[i]))",
  "y[i] = β[i].Plus(e.Mul(m[i]))",
  "}"
]
def roBlinding : List String := [
  "for i := 0; i < n; i++ {",
  "hash.Write(d[i].Bytes())",
  "hash.Write(f[i].Bytes())",
  "hash.Write(a[i].Bytes())",
  "hash.Write(b[i].Bytes())",
  "}",
  "hash.Write(s.Bytes())",
  "hash.Write(cm.Bytes())",
  "hash.Write(g.Bytes())",
  "hash.Write(g0.Bytes())",
  "hash.Write(h.Bytes())",
  "hash.Write(u.Bytes())",
  "for i := 0; i < n; i++ {",
  "gs[i].Bytes()",
  "}"
]
def verifyBlinding : List String := [
  "digest := randomOracleForBlindingProof(n, ξ.d, ξ.f, ξ.s, a, b, cm, g, g0, h, u, gs)",
  "e := c.HashToZr(digest)",
  "for i := 0; i < n; i++ {",
  "left := u.Mul(ξ.x[i])",
  "left.Add(h.Mul(ξ.y[i]))",
  "right := ξ.d[i].Copy()",
  "right.Add(b[i].Mul(e))",
  "if !left.Equals(right) { return",
  "}",
  "}",
  "for i := 0; i < n; i++ {",
  "left := g.Mul(ξ.x[i])",
  "right := ξ.f[i].Copy()",
  "right.Add(a[i].Mul(e))",
  "if !left.Equals(right) { return",
  "}",
  "}",
  "left := cm.Mul(e)",
  "left.Add(ξ.s)",
  "right := g0.Mul(ξ.z)",
  "for i := 0; i < n; i++ {",
  "right.Add(gs[i].Mul(ξ.y[i]))",
  "}",
  "if !left.Equals(right) { return",
  "}"
]
def signBlind : List String := [
  "mPrime := pp.c.HashToZr(hash(σ.cm.Bytes()))",
  "cm := σ.cm.Copy()",
  "cm.Add(pp.gs[len(pp.gs)-1].Mul(mPrime))",
  "h := pp.c.HashToG1(cm.Bytes())",
  "err := σ.ξ.Verify(pp.c, len(pp.gs), σ.a, σ.b, cm, pp.g, pp.g0, h, σ.u, pp.gs)",
  "a := pp.c.GenG1.Copy()",
  "a.Sub(a)",
  "for i := 0; i < len(pp.gs); i++ {",
  "a.Add(σ.a[i].Mul(sk.ys[i]))",
  "}",
  "b := h.Mul(sk.x)",
  "for i := 0; i < len(pp.gs); i++ {",
  "b.Add(σ.b[i].Mul(sk.ys[i]))",
  "}"
]
def unblind : List String := [
  "negZ := pp.c.ModNeg(z, pp.c.GroupOrder)",
  "hPrime := σ.b.Copy()",
  "hPrime.Add(σ.a.Mul(negZ))",
  "E := pk.X.Copy()",
  "for i := 0; i < len(msg); i++ {",
  "E.Add(pk.Y[i].Mul(msg[i]))",
  "}",
  "shouldBeOne := pp.c.Pairing2(pp.g2Inverse, hPrime, E, h)",
  "shouldBeOne = pp.c.FExp(shouldBeOne)",
  "if !shouldBeOne.IsUnity() { return",
  "}"
]
def pokOfSig : List String := [
  "ε, δ := pp.c.NewRandomZr(rand.Reader), pp.c.NewRandomZr(rand.Reader)",
  "κ := pk.X.Copy()",
  "for i := 0; i < len(pk.Y); i++ {",
  "κ.Add(pk.Y[i].Mul(msg[i]))",
  "}",
  "κ.Add(pp.g2.Mul(δ))",
  "hε := h.Mul(ε)",
  "ν := hε.Mul(δ)",
  "hPrimeε := hPrime.Mul(ε)",
  "ψ := proveProofOfKnowledgeOfSignatureIsCorrectlyFormed(pp.c, msg, δ, ν, hε, κ, pp.g2, pk.X, pk.Y)"
]
def provePoK : List String := [
  "μ := c.NewRandomZr(rand.Reader)",
  "for i := 0; i < n; i++ {",
  "γ[i] = c.NewRandomZr(rand.Reader)",
  "}",
  "Γ := g2.Mul(μ)",
  "for i := 0; i < n; i++ {",
  "Γ.Add(Y[i].Mul(γ[i]))",
  "}",
  "Φ := hε.Mul(μ)",
  "e := c.HashToZr(randomOracleForPoKofSignature(Γ, Φ, ν, hε, g2, X, κ, Y))",
  "for i := 0; i < len(m); i++ {",
  "x[i] = γ[i].Plus(e.Mul(m[i]))",
  "}",
  "y := μ.Plus(e.Mul(δ))"
]
def roPoK : List String := [
  "for i := 0; i < len(Y); i++ {",
  "hash.Write(Y[i].Bytes())",
  "}",
  "hash.Write(X.Bytes())",
  "hash.Write(g2.Bytes())",
  "hash.Write(Γ.Bytes())",
  "hash.Write(Φ.Bytes())",
  "hash.Write(ν.Bytes())",
  "hash.Write(hε.Bytes())",
  "hash.Write(κ.Bytes())"
]
def verifyPoKForm : List String := [
  "digest := randomOracleForPoKofSignature(ψ.Γ, ψ.Φ, ν, hε, g2, X, κ, Y)",
  "e := c.HashToZr(digest)",
  "if err := ψ.checkcommitmentForm(c, e, g2, X, κ, Y); err != nil { return",
  "}",
  "left := hε.Copy().Mul(ψ.y)",
  "right := ν.Mul(e)",
  "right.Add(ψ.Φ)",
  "if !left.Equals(right) { return",
  "}"
]
def checkCommitmentForm : List String := [
  "left := g2.Mul(ψ.y)",
  "for i := 0; i < len(ψ.x); i++ {",
  "left.Add(Y[i].Mul(ψ.x[i]))",
  "}",
  "right := ψ.Γ.Copy()",
  "κ = κ.Copy()",
  "κ.Add(neg(c, X))",
  "κ = κ.Mul(e)",
  "right.Add(κ)",
  "if !left.Equals(right) { return",
  "}"
]
def verifySigPoK : List String := [
  "if err := sigPoK.ψ.Verify(pp.c, sigPoK.ν, sigPoK.hε, pp.g2, pk.X, sigPoK.κ, pk.Y); err != nil { return",
  "}",
  "zero := pp.c.GenG1.Copy()",
  "zero.Sub(zero)",
  "if zero.Equals(sigPoK.hε) { return",
  "}",
  "hPrimeεν := sigPoK.hPrimeε.Copy()",
  "hPrimeεν.Add(sigPoK.ν)",
  "shouldBeOne := pp.c.Pairing2(sigPoK.κ, sigPoK.hε, pp.g2Inverse, hPrimeεν)",
  "shouldBeOne = pp.c.FExp(shouldBeOne)",
  "if !shouldBeOne.IsUnity() { return",
  "}"
]
def localKeyGen : List String := [
  "sk.x = pp.c.NewRandomZr(rand.Reader)",
  "for i := 0; i < len(sk.ys); i++ {",
  "sk.ys[i] = pp.c.NewRandomZr(rand.Reader)",
  "}",
  "pk := PK{X: pp.g2.Mul(sk.x), Y: make([]*math.G2, len(sk.ys))}",
  "for i := 0; i < len(sk.ys); i++ {",
  "pk.Y[i] = pp.g2.Mul(sk.ys[i])",
  "}"
]
def proveKnowledge : List String := [
  "hPrime := p.c.GenG1.Copy()",
  "hPrime.Sub(hPrime)",
  "for i, _ := range signers {",
  "l := lagrangeCoefficient(evaluationPoints[i], evaluationPoints...)",
  "hPrime.Add(w.Mul(l))",
  "}"
]
def proverUnBlind : List String := [
]
def blsSign : List String := [
  "return c.HashToG1(digest).Mul(sk)"
]
def blsVerify : List String := [
  "digestProjectedOnG1 := c.HashToG1(digest)",
  "shouldBeOne := c.Pairing2(negG2, sig, pk, digestProjectedOnG1)",
  "shouldBeOne = c.FExp(shouldBeOne)",
  "if shouldBeOne.IsUnity() { return",
  "}"
]
def blsAggregateSignatures : List String := [
  "zero := c.GenG1.Copy()",
  "zero.Sub(zero)",
  "for _, evaluationPoint := range evaluationPoints {",
  "sum.Add(signatures[signatureIndex].Mul(lagrangeCoefficient(evaluationPoint, evaluationPoints...)))",
  "}"
]
def blsAggregatePublicKeys : List String := [
  "zero := c.GenG2.Copy()",
  "zero.Sub(c.GenG2)",
  "for i := 0; i < len(evaluationPoints); i++ {",
  "sum.Add(pks[evaluationPoints[i]-1].Mul(lagrangeCoefficient(evaluationPoints[i], evaluationPoints...)))",
  "}"
]
def blsCreatePublicKeys : List String := [
  "for i := 0; i < len(shares); i++ {",
  "publicKeys[i] = c.GenG2.Copy().Mul(shares[i])",
  "}"
]
def aliasCensus : List String := [
  "mpc/bls/tbls.go|localAggregatePublicKeys|sum.Add|fresh|zero := c.GenG2.Copy()",
  "mpc/bls/tbls.go|localAggregatePublicKeys|zero.Sub|fresh|c.GenG2.Copy()",
  "mpc/bls/tbls.go|localAggregateSignatures|sum.Add|fresh|zero := c.GenG1.Copy()",
  "mpc/bls/tbls.go|localAggregateSignatures|zero.Sub|fresh|c.GenG1.Copy()",
  "mpc/ps/prover.go|Prover.ProveKnowledgeOfSignature|hPrime.Add|fresh|p.c.GenG1.Copy()",
  "mpc/ps/prover.go|Prover.ProveKnowledgeOfSignature|hPrime.Sub|fresh|p.c.GenG1.Copy()",
  "mpc/ps/ps.go|BlindCorrectFormProof.Verify|left.Add|fresh|cm.Mul(e)",
  "mpc/ps/ps.go|BlindCorrectFormProof.Verify|left.Add|fresh|u.Mul(ξ.x[i])",
  "mpc/ps/ps.go|BlindCorrectFormProof.Verify|right.Add|fresh|g0.Mul(ξ.z)",
  "mpc/ps/ps.go|BlindCorrectFormProof.Verify|right.Add|fresh|ξ.d[i].Copy()",
  "mpc/ps/ps.go|BlindCorrectFormProof.Verify|right.Add|fresh|ξ.f[i].Copy()",
  "mpc/ps/ps.go|PoKofSignaturePoCorrectForm.Verify|right.Add|fresh|ν.Mul(e)",
  "mpc/ps/ps.go|PoKofSignaturePoCorrectForm.checkcommitmentForm|left.Add|fresh|g2.Mul(ψ.y)",
  "mpc/ps/ps.go|PoKofSignaturePoCorrectForm.checkcommitmentForm|right.Add|fresh|ψ.Γ.Copy()",
  "mpc/ps/ps.go|PoKofSignaturePoCorrectForm.checkcommitmentForm|κ.Add|fresh|κ.Copy()",
  "mpc/ps/ps.go|SigPoK.Verify|hPrimeεν.Add|fresh|sigPoK.hPrimeε.Copy()",
  "mpc/ps/ps.go|SigPoK.Verify|zero.Sub|fresh|pp.c.GenG1.Copy()",
  "mpc/ps/ps.go|SignBlindSignature|a.Add|fresh|pp.c.GenG1.Copy()",
  "mpc/ps/ps.go|SignBlindSignature|a.Sub|fresh|pp.c.GenG1.Copy()",
  "mpc/ps/ps.go|SignBlindSignature|b.Add|fresh|h.Mul(sk.x)",
  "mpc/ps/ps.go|SignBlindSignature|cm.Add|fresh|σ.cm.Copy()",
  "mpc/ps/ps.go|UnBlind|E.Add|fresh|pk.X.Copy()",
  "mpc/ps/ps.go|UnBlind|hPrime.Add|fresh|σ.b.Copy()",
  "mpc/ps/ps.go|neg|zero.Sub|fresh|c.GenG2.Copy()",
  "mpc/ps/ps.go|neg|zero.Sub|fresh|c.GenG2.Copy()"
]
def aliasKinds : List String := ["fresh", "fresh", "fresh", "fresh", "fresh", "fresh", "fresh", "fresh", "fresh", "fresh", "fresh", "fresh", "fresh", "fresh", "fresh", "fresh", "fresh", "fresh", "fresh", "fresh", "fresh", "fresh", "fresh", "fresh", "fresh"]

end TSSVerif.Model.PsEq
