/-!
Handler tables of the orchestrator and the life cycle of sessions — model of `threshold/threshold.go`
(`syncsInProgress`, `rbcInProgress`, `messageClassifiers`, `dkgRunning`; `KeyGen`/`runDKG`,
`Sign`/`prepareSigning`, `initializeHandlers`, `initializeSyncForSigning`, `registerWhileActive`,
`cleanup`, `cleanupSyncTopic`, `handleSync`/`handleMPC` look-ups), as repaired by F09.

Every action is one acquisition of `Scheme.lock`. A session consists of a caller thread (enter …
exit) and a callback thread (registrations made by the synchroniser's continuation, possibly still
running after the caller has returned); their actions interleave freely with each other and with the
actions of any other session. Core Lean only.
-/
namespace TSSVerif.Model.Orch

abbrev Key := Nat     -- a topic key (a SHA-256 value in the code)
abbrev Sid := Nat     -- session identity

structure Tables where
  sync : Key → Option Sid := fun _ => none
  rbc : Key → Option Sid := fun _ => none
  cls : Key → Option Sid := fun _ => none
  dkgRunning : Bool := false

structure St where
  t : Tables := {}
  active : Sid → Bool := fun _ => false      -- the session's context is not cancelled
  admitted : Sid → Bool := fun _ => false    -- the session got past its entry check

inductive Act
  /-- `Sign`: `initializeSyncForSigning` — refuse if a synchroniser is registered under `k1` -/
  | signEnter (s : Sid) (k1 : Key)
  /-- callback: `prepareSigning` → `registerWhileActive`: broadcast instance and classifier under `k1` -/
  | signPrepare (s : Sid) (k1 : Key)
  /-- callback: `registerWhileActive`: second synchroniser under `k2` -/
  | regSync2 (s : Sid) (k2 : Key)
  /-- callback: `cleanupSyncTopic` -/
  | unregSync2 (s : Sid) (k2 : Key)
  /-- `Sign` returns: cancel, then `cleanup` (delete sync/cls/rbc under `k1`) -/
  | signExit (s : Sid) (k1 : Key)
  /-- `KeyGen`: `ensureDKGNotRunning`, then `initializeHandlers` (sync + classifier under `kd`) -/
  | dkgEnter (s : Sid) (kd : Key)
  /-- callback: `registerWhileActive`: broadcast instance under `kd` -/
  | dkgRegRbc (s : Sid) (kd : Key)
  /-- callback: `registerWhileActive`: member-list synchroniser under `km` -/
  | dkgRegSync (s : Sid) (km : Key)
  /-- callback: deferred delete of the member-list synchroniser -/
  | dkgUnregSync (s : Sid) (km : Key)
  /-- `KeyGen` returns: cancel (in `runDKG`), `cleanup`, `dkgRunning = false` -/
  | dkgExit (s : Sid) (kd : Key)
deriving DecidableEq, Repr

def Act.sid : Act → Sid
  | .signEnter s _ | .signPrepare s _ | .regSync2 s _ | .unregSync2 s _ | .signExit s _ => s
  | .dkgEnter s _ | .dkgRegRbc s _ | .dkgRegSync s _ | .dkgUnregSync s _ | .dkgExit s _ => s

def Act.key : Act → Key
  | .signEnter _ k | .signPrepare _ k | .regSync2 _ k | .unregSync2 _ k | .signExit _ k => k
  | .dkgEnter _ k | .dkgRegRbc _ k | .dkgRegSync _ k | .dkgUnregSync _ k | .dkgExit _ k => k

def upd (f : Key → Option Sid) (k : Key) (v : Option Sid) : Key → Option Sid :=
  fun k' => if k' = k then v else f k'

def setB (f : Sid → Bool) (s : Sid) (v : Bool) : Sid → Bool := fun s' => if s' = s then v else f s'

def apply (σ : St) : Act → St
  | .signEnter s k1 =>
    match σ.t.sync k1 with
    | some _ => σ                                                   -- "already signing topic": nothing changes
    | none => { t := { σ.t with sync := upd σ.t.sync k1 (some s) },
                active := setB σ.active s true, admitted := setB σ.admitted s true }
  | .signPrepare s k1 =>
    if σ.active s then { σ with t := { σ.t with rbc := upd σ.t.rbc k1 (some s), cls := upd σ.t.cls k1 (some s) } }
    else σ
  | .regSync2 s k2 =>
    if σ.active s then { σ with t := { σ.t with sync := upd σ.t.sync k2 (some s) } } else σ
  | .unregSync2 _ k2 => { σ with t := { σ.t with sync := upd σ.t.sync k2 none } }
  | .signExit s k1 =>
    if σ.admitted s then
      { σ with t := { σ.t with sync := upd σ.t.sync k1 none, cls := upd σ.t.cls k1 none, rbc := upd σ.t.rbc k1 none },
               active := setB σ.active s false }
    else σ
  | .dkgEnter s kd =>
    if σ.t.dkgRunning then σ                                         -- "key generation already running"
    else { t := { σ.t with dkgRunning := true, sync := upd σ.t.sync kd (some s), cls := upd σ.t.cls kd (some s) },
           active := setB σ.active s true, admitted := setB σ.admitted s true }
  | .dkgRegRbc s kd =>
    if σ.active s then { σ with t := { σ.t with rbc := upd σ.t.rbc kd (some s) } } else σ
  | .dkgRegSync s km =>
    if σ.active s then { σ with t := { σ.t with sync := upd σ.t.sync km (some s) } } else σ
  | .dkgUnregSync _ km => { σ with t := { σ.t with sync := upd σ.t.sync km none } }
  | .dkgExit s kd =>
    if σ.admitted s then
      { σ with t := { σ.t with sync := upd σ.t.sync kd none, cls := upd σ.t.cls kd none, rbc := upd σ.t.rbc kd none,
                               dkgRunning := false },
               active := setB σ.active s false }
    else σ

def run (σ : St) : List Act → St
  | [] => σ
  | a :: rest => run (apply σ a) rest

/-- `handleSync` / `handleMPC`: which session, if any, an incoming message of the given type for the
given topic key reaches (MPC needs both the broadcast instance and the classifier) -/
def dispatchSync (t : Tables) (k : Key) : Option Sid := t.sync k
def dispatchMPC (t : Tables) (k : Key) : Option Sid :=
  match t.rbc k, t.cls k with
  | some s, some _ => some s
  | _, _ => none

end TSSVerif.Model.Orch
