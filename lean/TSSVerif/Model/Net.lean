import TSSVerif.Model.WireBase
/-!
The bundled transport — model of `net/net.go`:

* `authenticate`: the decision logic of `authenticateConnection` (as repaired by F04: the key type is
  checked, and F27: a handshake that cannot be re-encoded is rejected instead of panicking), in source
  order. Everything the standard library and cryptography contribute is a parameter (`Env`): the TLS
  exporter value of the connection, `Handshake.Read` (length prefix + `asn1.Unmarshal`), `pem.Decode`,
  `x509.ParseCertificate`, the key-type assertion, `asn1.Marshal`, SHA-256, `ecdsa.VerifyASN1`, and the
  registered table.
* `serve`: `handleConn` — frames are attributed only after `authenticate` accepted, and all to that result.
* `encodeFrame` / `readMsg`: the frame format of `remoteParty.send` and `readMsg`.
* `SendQ`: the per-destination queue of `SocketRemoteParties.Send` / `sendMessages` (as repaired by F28:
  an enqueue that times out reports and drops instead of panicking).
Core Lean only.
-/
namespace TSSVerif.Model.Net
open TSSVerif.Model

abbrev Id := Nat

structure HS where
  domain : Bytes
  binding : Bytes
  identity : Bytes
  timestamp : Int
  signature : Bytes
deriving DecidableEq, Repr

inductive Stage
  | read | binding | pem | x509 | keytype | marshal | signature | lookup
deriving DecidableEq, Repr

inductive Res
  | accept (domain : Bytes) (id : Id)
  | reject (s : Stage)
deriving DecidableEq, Repr

structure Env (Conn Cert Key : Type) where
  exporter : Conn → Bytes
  read : Bytes → Option HS
  pem : Bytes → Option Bytes
  parse : Bytes → Option Cert
  key : Cert → Option Key
  marshal : HS → Option Bytes
  digest : Bytes → Bytes
  verify : Key → Bytes → Bytes → Bool
  tkey : Bytes → Bytes
  table : Bytes → Option Id

variable {Conn Cert Key : Type}

/-- `authenticateConnection` -/
def authenticate (env : Env Conn Cert Key) (c : Conn) (sent : Bytes) : Res :=
  match env.read sent with
  | none => .reject .read
  | some h =>
    if env.exporter c ≠ h.binding then .reject .binding else
    match env.pem h.identity with
    | none => .reject .pem
    | some der =>
      match env.parse der with
      | none => .reject .x509
      | some cert =>
        match env.key cert with
        | none => .reject .keytype
        | some k =>
          match env.marshal { h with signature := [] } with
          | none => .reject .marshal
          | some b =>
            if env.verify k (env.digest b) h.signature = false then .reject .signature else
            match env.table (env.tkey (h.domain ++ h.identity)) with
            | none => .reject .lookup
            | some i => .accept h.domain i

structure InMsg (F : Type) where
  domain : Bytes
  src : Id
  frame : F
deriving Repr

/-- `handleConn`: what appears on the channel for a connection on which the peer sent `sent` and then `frames` -/
def serve {F : Type} (env : Env Conn Cert Key) (c : Conn) (sent : Bytes) (frames : List F) : List (InMsg F) :=
  match authenticate env c sent with
  | .accept d i => frames.map (fun f => ⟨d, i, f⟩)
  | .reject _ => []

/-! ## frames -/

structure Frame where
  ty : B8
  topic : Bytes
  data : Bytes
deriving DecidableEq, Repr

def maxBuff : Nat := 20971520

def hasTopic (ty : B8) : Bool := ty = 1 || ty = 2

def legal (f : Frame) : Prop := (hasTopic f.ty = true ∧ f.topic.length = 32) ∨ (hasTopic f.ty = false ∧ f.topic = [])

instance (f : Frame) : Decidable (legal f) := by unfold legal; exact inferInstance

def le32 (n : Nat) : Bytes :=
  [BitVec.ofNat 8 n, BitVec.ofNat 8 (n / 256), BitVec.ofNat 8 (n / 65536), BitVec.ofNat 8 (n / 16777216)]

def unle32 (b0 b1 b2 b3 : B8) : Nat := b0.toNat + 256 * b1.toNat + 65536 * b2.toNat + 16777216 * b3.toNat

/-- `remoteParty.send`: `none` is one of its two panics (topic neither empty nor 32 bytes; data ≥ 2³²) -/
def encodeFrame (f : Frame) : Option Bytes :=
  if f.topic.length ≠ 0 ∧ f.topic.length ≠ 32 then none
  else if f.data.length > 4294967295 then none
  else some (f.ty :: le32 f.data.length ++ f.topic ++ f.data)

inductive RRes
  | ok (f : Frame) (rest : Bytes)
  | tooBig
  | short                       -- `io.ReadFull` fails: the stream ended inside a frame
deriving DecidableEq, Repr

/-- `readMsg` on the bytes still to come on the connection -/
def readMsg (s : Bytes) : RRes :=
  match s with
  | ty :: b0 :: b1 :: b2 :: b3 :: s1 =>
    let n := unle32 b0 b1 b2 b3
    if n > maxBuff then .tooBig
    else if hasTopic ty then
      if s1.length < 32 then .short
      else if (s1.drop 32).length < n then .short
      else .ok ⟨ty, s1.take 32, (s1.drop 32).take n⟩ ((s1.drop 32).drop n)
    else if s1.length < n then .short
    else .ok ⟨ty, [], s1.take n⟩ (s1.drop n)
  | _ => .short

/-- the loop of `handleConn` after authentication: frames until the stream ends or a frame is refused -/
def readAll : Nat → Bytes → List Frame
  | 0, _ => []
  | fuel + 1, s =>
    match readMsg s with
    | .ok f rest => f :: readAll fuel rest
    | _ => []

/-! ## the sending side: one queue and one writer per destination -/

inductive Ev
  | enq (dst : Nat) (g : Nat) (f : Frame)     -- goroutine `g` calls Send for destination `dst`
  | write (dst : Nat)                          -- the writer of `dst` takes the next message and writes it
  | fail (dst : Nat)                           -- the writer of `dst` fails to connect or to write (message lost)
deriving DecidableEq, Repr

inductive SOut
  | accepted (dst g : Nat) (f : Frame)
  | dropped (dst g : Nat) (f : Frame)          -- queue full for the whole timeout: reported, dropped
  | wrote (dst : Nat) (bytes : Bytes)
  | lost (dst : Nat) (f : Frame)
  | panic
deriving DecidableEq, Repr

structure SendSt where
  cap : Nat
  q : Nat → List Frame := fun _ => []

def SendSt.step (s : SendSt) : Ev → SendSt × List SOut
  | .enq d g f =>
    if (s.q d).length < s.cap then ({ s with q := fun x => if x = d then s.q d ++ [f] else s.q x }, [.accepted d g f])
    else (s, [.dropped d g f])
  | .write d =>
    match s.q d with
    | [] => (s, [])
    | f :: rest =>
      ({ s with q := fun x => if x = d then rest else s.q x },
       match encodeFrame f with
       | some b => [.wrote d b]
       | none => [.panic])
  | .fail d =>
    match s.q d with
    | [] => (s, [])
    | f :: rest => ({ s with q := fun x => if x = d then rest else s.q x }, [.lost d f])

def SendSt.run (s : SendSt) : List Ev → SendSt × List SOut
  | [] => (s, [])
  | e :: es =>
    let r := s.step e
    let r' := r.1.run es
    (r'.1, r.2 ++ r'.2)

end TSSVerif.Model.Net
