import TSSVerif.Model.WireBase
import TSSVerif.Gen.Wire
/-!
Codec model: acknowledgement encoding of the reliable-broadcast layer (`threshold/threshold.go`
`newRBCEncoding`, `rbcEncoding.Ack`, `rbcEncoding.Payload`) (the synchroniser's
codecs are in `Model/WireDisc.lean`, on a generated module of their own).

The integer expressions, guards, offsets and strides come from `Gen/Wire.lean`, which is regenerated
from the Go AST on every run; this file only supplies the list plumbing around them. Go's partiality
(index / slice out of range, explicit `panic`) is an explicit outcome.
-/
namespace TSSVerif.Model
open TSSVerif.Gen.Wire

/-- `m[i]`, used only below a length test that makes it in-range (`AckGuard.needs`, `ackDecNeeds`). -/
def byteAt (m : Bytes) (i : Nat) : B8 := m.getD i 0

inductive AckDec
  | panic                                              -- Go would panic (index out of range)
  | payload                                            -- not an acknowledgement
  | malformed                                          -- rejected with an error
  | ack (digest : Bytes) (sender : B16) (round : B8)
deriving DecidableEq, Repr

def GuardOut.toAckDec : GuardOut → AckDec
  | .payload => .payload
  | .malformed => .malformed

/-- Guards in source order; `none` = fall through to the field assignments. -/
def runGuards (gs : List AckGuard) (m : Bytes) : Option AckDec :=
  match gs with
  | [] => none
  | g :: rest =>
    if m.length < g.needs then some .panic
    else if g.cond m.length (byteAt m 0) (byteAt m 1) (byteAt m 2) then some g.out.toAckDec
    else runGuards rest m

/-- `rbcEncoding(m).Ack()`. -/
def decodeAck (m : Bytes) : AckDec :=
  match runGuards ackDecGuards m with
  | some r => r
  | none =>
    if m.length < ackDecNeeds then .panic
    else .ack (m.drop ackDecDigestFrom)
              (ackDecSender (byteAt m 0) (byteAt m 1) (byteAt m 2))
              (ackDecRound (byteAt m 0) (byteAt m 1) (byteAt m 2))

/-- `newRBCEncoding(digest, sender, round)`; `none` = the explicit panic on rounds ≥ 128. -/
def encodeAck (d : Bytes) (s : B16) (r : B8) : Option Bytes :=
  if ackEncPanics s r then none
  else some ([ackEncByte0 s r, ackEncByte1 s r, ackEncByte2 s r] ++ d)

/-- What the sender puts on the wire for an MPC payload: `255 :: payload` (`initializeDKG`,
`initializeThresholdSigning`). -/
def encodePayload (p : Bytes) : Bytes := 255#8 :: p

end TSSVerif.Model
