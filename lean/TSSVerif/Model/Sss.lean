/-!
Scalar arithmetic, Shamir sharing and t-subset enumeration — model of `mpc/bls/sss.go`,
`mpc/bls/choose.go` (and the identical copies in `mpc/ps`), over IBM/mathlib's `Zr` semantics:
a `Zr` is a big integer; `Plus` does **not** reduce, `Mul` reduces modulo the group order, `Mod`
reduces in place, `PowMod` is modular exponentiation, `InvModP` the modular inverse, `ModSub` the
reduced difference, `Bytes` reduces when the value is negative or above the modulus.
Core Lean only (the driver runs these definitions with the real BN254 group order).
-/
namespace TSSVerif.Model.Sss

/-- `b^e mod p` by square-and-multiply. -/
def powMod (b : Int) (e : Nat) (p : Int) : Int :=
  if h : e = 0 then 1 % p
  else
    let half := powMod b (e / 2) p
    let sq := (half * half) % p
    if e % 2 = 1 then (sq * (b % p)) % p else sq
termination_by e
decreasing_by omega

/-- `Zr.Mul` -/
def mulZ (a b p : Int) : Int := (a * b) % p

/-- `Curve.ModSub` -/
def modSub (a b p : Int) : Int := (a - b) % p

/-- `Zr.InvModP` for a prime modulus: the inverse by Fermat's little theorem (what `big.Int`'s
extended Euclid returns for an invertible argument). -/
def invModP (a p : Int) : Int := powMod a (p.toNat - 2) p

/-- the factors `j / (j - i)` of `lagrangeCoefficient`, in the order of the Go loop -/
def lagrangeFactors (p : Int) (i : Int) : List Int → List Int
  | [] => []
  | j :: rest =>
    if i = j then lagrangeFactors p i rest
    else mulZ j (invModP (modSub j i p) p) p :: lagrangeFactors p i rest

/-- `lagrangeCoefficient(evaluatedAt, evaluationPoints...)`; `none` = the explicit panic on an
empty product. -/
def lagrangeCoefficient (p : Int) (i : Int) (pts : List Int) : Option Int :=
  match lagrangeFactors p i pts with
  | [] => none
  | f :: fs => some (fs.foldl (fun acc x => mulZ acc x p) f)

/-- `Polynomial.ValueAt(x)`: Σ (x^i mod p)·cᵢ with `Plus` unreduced, reduced at the end. -/
def valueAtAux (p : Int) (x : Int) : Nat → List Int → Int → Int
  | _, [], acc => acc
  | i, c :: cs, acc => valueAtAux p x (i + 1) cs (acc + mulZ (powMod x i p) c p)

def valueAt (p : Int) (coeffs : List Int) (x : Int) : Int := (valueAtAux p x 0 coeffs 0) % p

/-- `SSS.Gen` given the random coefficients: shares at 1..n -/
def gen (p : Int) (coeffs : List Int) (n : Nat) : List Int :=
  (List.range n).map (fun (k : Nat) => valueAt p coeffs ((k : Int) + 1))

/-- one iteration of `Shares.reconstruct`: `sum = (sum + s[x-1]·λₓ) mod p` -/
def reconStep (p : Int) (shares : List Int) (all : List Int) (sum : Int) (x : Int) : Option Int := do
  let idx := x - 1
  if idx < 0 then none
  let s ← shares[idx.toNat]?
  let l ← lagrangeCoefficient p x all
  pure ((sum + mulZ s l p) % p)

/-- `Shares.reconstruct(evaluationPoints...)`; `none` = index out of range or the Lagrange panic. -/
def reconstruct (p : Int) (shares : List Int) (pts : List Int) : Option Int :=
  pts.foldlM (reconStep p shares pts) 0

/-- `Zr.Bytes()` as a number: reduced only when negative or above the modulus. -/
def zrCanon (a p : Int) : Int := if a < 0 ∨ a > p then a % p else a

/-! ### `chooseKoutOfN` -/

/-- `choose(n, targetAmount, i, currentSubGroup, f)`: the list of subsets handed to `f`, in call
order. The extra test `n ≤ i` only affects states that `chooseKoutOfN` never reaches (a current
subgroup longer than the target), where the Go code would recurse for ever. -/
def choose (n target i : Nat) (cur : List Nat) : List (List Nat) :=
  if cur.length = target then [cur]
  else if target - cur.length > n - i then []
  else if n ≤ i then []
  else choose n target (i + 1) (cur ++ [i + 1]) ++ choose n target (i + 1) cur
termination_by n - i
decreasing_by all_goals omega

def chooseKoutOfN (n k : Nat) : List (List Nat) := choose n k 0 []

end TSSVerif.Model.Sss
