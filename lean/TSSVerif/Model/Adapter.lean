import TSSVerif.Gen.Adapter
/-!
tss-lib adapters (`mpc/binance/ecdsa/mpc.go`, `mpc/binance/eddsa/mpc.go`): the receiver-side
classification as a function of the regenerated tables, the sender check of `OnMsg`, the digest check
of `Sign`, and `hashToInt`. Core Lean only.
-/
namespace TSSVerif.Model.Adapter

def lookupRound (t : List (String × Nat)) (url : String) : Nat :=
  match t.find? (fun e => e.1 == url) with
  | some e => e.2
  | none => 0                         -- Go: missing map key ⇒ zero value

/-- `ClassifyMsg` after a successful protobuf parse: (round, broadcast-class) for a type URL -/
def classify (rounds : List (String × Nat)) (bcast : List String) (shift : Nat × Nat) (url : String) : Nat × Bool :=
  let r := lookupRound rounds url
  (if r > shift.1 then r - shift.2 else r, bcast.contains url)

def ecdsa : String → Nat × Bool := classify Gen.Adapter.ecdsaRounds Gen.Adapter.ecdsaBroadcast Gen.Adapter.ecdsaPhaseShift
def eddsa : String → Nat × Bool := classify Gen.Adapter.eddsaRounds Gen.Adapter.eddsaBroadcast Gen.Adapter.eddsaPhaseShift

/-- `OnMsg`: is the parsed message passed on to the protocol? `claimed` is the sender key embedded
in the parsed message (`none`: nil key), `src` the transport-authenticated sender. -/
def onMsgAccepts (claimed : Option Nat) (src : Nat) : Bool :=
  match claimed with
  | none => false
  | some k => if k ≥ 65535 then false else decide (k % 65536 = src)

/-- `Sign`: a signature is returned only if the signed message equals the requested one -/
def signReturns (requested signed : List Nat) : Bool := decide (signed = requested)

/-- big-endian bytes to integer -/
def beNat : List Nat → Nat
  | l => l.foldl (fun acc b => acc * 256 + b) 0

/-- `hashToInt(hash, curve)` for a curve whose order has `orderBits` bits -/
def hashToInt (orderBits : Nat) (hash : List Nat) : Nat :=
  let orderBytes := (orderBits + 7) / 8
  let h := if hash.length > orderBytes then hash.take orderBytes else hash
  let ret := beNat h
  let excess := h.length * 8 - orderBits   -- truncated subtraction: positive excess only
  if h.length * 8 > orderBits then ret >>> excess else ret

end TSSVerif.Model.Adapter
