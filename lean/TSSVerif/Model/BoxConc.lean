import TSSVerif.Model.Box
/-!
The message buffer under concurrency: any number of threads, each running a script of
`Box.HandleMessage` / `Box.Send` calls, interleaved at lock granularity. A thread's program is cut at
the yield points of the source (`verifYield`, build tag `verif`): immediately before the box lock is
requested in `storeOrForward` and `Send`, before a forwarded message is handed to the dispatcher,
before the real send, and before each hand-over of a drain. Between two yield points a thread runs
one critical section or one callback; a scheduling step runs the chosen thread from its current
yield point to the next one (or to the end of its script).

The epoch clock does not tick here (C14 quantifies over interleavings of receive and send calls), so
`maybeGC` finds nothing due and has no step. Core Lean only.
-/
namespace TSSVerif.Model.BoxConc
open TSSVerif.Model.Box

inductive Call
  | recv (m : Msg)
  | send (t : Nat)
deriving DecidableEq, Repr

/-- what remains to be done when a `HandleMessage` call returns -/
inductive Kont
  | ret                                   -- return to the script
  | drain (t : Nat) (rest : List Msg)     -- continue the drain loop of `Send t`
deriving DecidableEq, Repr

/-- where a thread is parked -/
inductive Pc
  | idle                                     -- not started yet / between calls (only before its first step)
  | atStore (m : Msg) (k : Kont)             -- yield "storeOrForward": about to enter the critical section
  | atFwd (m : Msg) (k : Kont)               -- yield "storeOrForward.forward": about to call the dispatcher
  | atSend (t : Nat)                         -- yield "Send"
  | atSendFwd (t : Nat) (msgs : List Msg)    -- yield "Send.forward": about to do the real send
  | atDrain (t : Nat) (msgs : List Msg)      -- yield "Send.drain": about to hand over the head of msgs
  | finished
deriving DecidableEq, Repr

structure Thread where
  pc : Pc := .idle
  script : List Call := []
deriving Repr

/-- run to the first yield point of the next call of the script -/
def startNext (script : List Call) : Thread :=
  match script with
  | [] => { pc := .finished, script := [] }
  | .recv m :: rest => { pc := .atStore m .ret, script := rest }
  | .send t :: rest => { pc := .atSend t, script := rest }

/-- a `HandleMessage` call returned -/
def resume (k : Kont) (script : List Call) : Thread :=
  match k with
  | .ret => startNext script
  | .drain _ [] => startNext script               -- drain finished; maybeGC not due; Send returns
  | .drain t (m :: rest) => { pc := .atDrain t (m :: rest), script := script }

structure StepOut where
  box : Box
  thread : Thread
  evs : List Ev := []
  dropped : List Msg := []     -- ghost: messages shed by a limit in this step

/-- one scheduling step of a thread -/
def stepThread (c : Cfg) (b : Box) (th : Thread) : StepOut :=
  match th.pc with
  | .idle => { box := b, thread := startNext th.script }
  | .finished => { box := b, thread := th }
  | .atStore m k =>
    match csStore c b m with
    | (b', .forward) => { box := b', thread := { th with pc := .atFwd m k } }
    | (b', .stored) => { box := b', thread := resume k th.script }
    | (b', _) => { box := b', thread := resume k th.script, dropped := [m] }
  | .atFwd m k => { box := b, thread := resume k th.script, evs := [.handover m] }
  | .atSend t =>
    let r := csSend b t
    { box := r.1, thread := { th with pc := .atSendFwd t r.2 } }
  | .atSendFwd t msgs => { box := b, thread := resume (.drain t msgs) th.script, evs := [.fwdSend t] }
  | .atDrain t msgs =>
    match msgs with
    | [] => { box := b, thread := startNext th.script }
    | m :: rest => { box := b, thread := { th with pc := .atStore m (.drain t rest) } }

structure Sys where
  box : Box := {}
  threads : List Thread := []
  log : List Ev := []
  dropped : List Msg := []

/-- the scheduler picks thread `i` -/
def sysStep (c : Cfg) (σ : Sys) (i : Nat) : Sys :=
  match σ.threads[i]? with
  | none => σ
  | some th =>
    let o := stepThread c σ.box th
    { box := o.box, threads := σ.threads.set i o.thread, log := σ.log ++ o.evs, dropped := σ.dropped ++ o.dropped }

def runSched (c : Cfg) (σ : Sys) : List Nat → Sys
  | [] => σ
  | i :: rest => runSched c (sysStep c σ i) rest

def initSys (scripts : List (List Call)) : Sys :=
  { threads := scripts.map (fun s => { pc := .idle, script := s }) }

end TSSVerif.Model.BoxConc
