/-!
Base types shared by the regenerated wire expressions (`Gen/Wire.lean`) and the hand-written
codec model (`Model/Wire.lean`). Core Lean only.
-/
namespace TSSVerif.Model

abbrev B8 := BitVec 8
abbrev B16 := BitVec 16
abbrev Bytes := List B8

/-- What a guard (`if … { return … }`) of `rbcEncoding.Ack` returns. -/
inductive GuardOut
  | payload    -- `nil, 0, 0, nil`: not an acknowledgement, the caller treats the data as a payload
  | malformed  -- an error
deriving DecidableEq, Repr

/-- One guard of `rbcEncoding.Ack`, as read from the source: `needs` is the slice length below which
evaluating the condition itself panics (index out of range). -/
structure AckGuard where
  needs : Nat
  cond : Nat → B8 → B8 → B8 → Bool   -- len r, r[0], r[1], r[2]
  out : GuardOut

/- Placeholder the extractor emits for source shapes it does not understand. It is deliberately
*not* defined anywhere: a generated file that mentions it does not compile, so every theorem that
depends on that file stops checking. -/
-- (intentionally no definition of `unknown_shape`)

end TSSVerif.Model
