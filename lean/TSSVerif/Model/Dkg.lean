import TSSVerif.Model.WireBase
/-!
The built-in distributed key generation — data-level model of one party of `mpc/bls/mpc.go` and
`mpc/ps/tps.go` (`Init`, `OnMsg`, `KeyGen` with its three wait loops, `combineShares`, `commitPhase`,
`revealPhase`, `validateCommitments`, `assembleThresholdPublicKey`), as repaired by F11 (a wait loop
that ends with the context returns the context error) and F10/F12 (arity checks in `OnMsg`).

Payloads are byte strings; what the curve contributes is a parameter: whether a share / key is
well-formed (`OnMsg` rejects malformed ones), the hash of a revealed key (SHA-256), and whether all
`C(n,t)` interpolations of a complete key table coincide. `Model/Ctl.lean` is the projection of this
machine onto counts. Core Lean only.
-/
namespace TSSVerif.Model.Dkg
open TSSVerif.Model

abbrev Id := Nat

inductive Phase
  | shares | commits | reveals
  | returned (ok : Bool)
  | panicked
deriving DecidableEq, Repr

inductive Msg
  | share (v : Bytes) (wellFormed : Bool)
  | commit (c : Bytes)
  | reveal (pk : Bytes) (wellFormed : Bool)
  | junk                                    -- empty message or unknown tag
deriving DecidableEq, Repr

inductive Out
  | sendShares
  | bcastCommit (c : Bytes)
  | bcastReveal (pk : Bytes)
  | ret (ok : Bool)
  | panic
deriving DecidableEq, Repr

/-- a first-value-wins table keyed by sender, in arrival order -/
abbrev Tab := List (Id × Bytes)

def Tab.get (t : Tab) (k : Id) : Option Bytes := (t.find? (fun e => e.1 = k)).map (·.2)
def Tab.has (t : Tab) (k : Id) : Bool := t.any (fun e => e.1 = k)
def Tab.put (t : Tab) (k : Id) (v : Bytes) : Tab := if t.has k then t else t ++ [(k, v)]

structure P where
  self : Id
  parties : List Id
  shares : Tab := []
  commits : Tab := []
  reveals : Tab := []          -- includes the own key once `combineShares` ran
  phase : Phase := .shares
  ctxDone : Bool := false
  result : Option (List (Option Bytes)) := none   -- the public material reported (`StoredData.PublicKeys`), fixed at completion
deriving Repr

/-- what the curve / hash contribute -/
structure Env where
  ownPk : Bytes                          -- sk • g2 after combining the shares (`combineShares`)
  hash : Bytes → Bytes                   -- SHA-256
  subsetsAgree : List (Option Bytes) → Bool   -- all C(n,t) interpolations of the key table (in party order) coincide

/-- `OnMsg`: first value per sender wins; malformed shares (PS) and keys are not stored; no check of the sender
(the orchestrator only forwards traffic of the session's members: C03) -/
def P.onMsg (p : P) (src : Id) : Msg → P
  | .share v wf => if wf then { p with shares := p.shares.put src v } else p
  | .commit c => { p with commits := p.commits.put src c }
  | .reveal pk wf => if wf then { p with reveals := p.reveals.put src pk } else p
  | .junk => p

def others (p : P) : List Id := p.parties.filter (· ≠ p.self)

/-- `validateCommitments`: every other party's revealed key hashes to its commitment; `none` = the "programming
error" panic (a revealed key without a commitment) -/
def validate (p : P) (env : Env) : Option Bool :=
  (p.reveals.filter (fun e => e.1 ≠ p.self)).foldl
    (fun acc e => match acc with
      | none => none
      | some false => some false
      | some true =>
        match p.commits.get e.1 with
        | none => none
        | some c => some (decide (env.hash e.2 = c)))
    (some true)

/-- the public material a completed party reports: the key table in party order -/
def P.publicKeys (p : P) : List (Option Bytes) := p.parties.map (fun k => p.reveals.get k)

/-- after the last wait: `validateCommitments`, `assembleThresholdPublicKey` (panics on a missing key), the single-key check -/
def finish (p : P) (env : Env) : P × List Out :=
  match validate p env with
  | none => ({ p with phase := .panicked }, [.panic])
  | some false => ({ p with phase := .returned false }, [.ret false])
  | some true =>
    if p.parties.all (fun k => p.reveals.has k) then
      let ok := env.subsetsAgree p.publicKeys
      ({ p with phase := .returned ok, result := if ok then some p.publicKeys else none }, [.ret ok])
    else ({ p with phase := .panicked }, [.panic])

/-- the KeyGen goroutine runs until it blocks or returns -/
def revealsStep (p : P) (env : Env) : P × List Out :=
  if p.reveals.length = p.parties.length then finish p env
  else if p.ctxDone then ({ p with phase := .returned false }, [.ret false])
  else ({ p with phase := .reveals }, [])

def commitsStep (p : P) (env : Env) : P × List Out :=
  if p.commits.length = p.parties.length - 1 then
    let r := revealsStep p env
    (r.1, .bcastReveal env.ownPk :: r.2)
  else if p.ctxDone then ({ p with phase := .returned false }, [.ret false])
  else ({ p with phase := .commits }, [])

def sharesStep (p : P) (env : Env) : P × List Out :=
  if p.shares.length = p.parties.length - 1 then
    -- combineShares: a share of every other party must be there
    if (others p).all (fun k => p.shares.has k) then
      let p1 := { p with reveals := p.reveals.put p.self env.ownPk }
      let r := commitsStep p1 env
      (r.1, .bcastCommit (env.hash env.ownPk) :: r.2)
    else ({ p with phase := .panicked }, [.panic])
  else if p.ctxDone then ({ p with phase := .returned false }, [.ret false])
  else (p, [])

def P.wake (p : P) (env : Env) : P × List Out :=
  match p.phase with
  | .shares => sharesStep p env
  | .commits => commitsStep p env
  | .reveals => revealsStep p env
  | .returned _ => (p, [])
  | .panicked => (p, [])

inductive Ev
  | msg (src : Id) (m : Msg)
  | ctx
  | wake
deriving Repr

def P.step (p : P) (env : Env) : Ev → P × List Out
  | .msg src m => (p.onMsg src m, [])
  | .ctx => ({ p with ctxDone := true }, [])
  | .wake => p.wake env

def P.run (p : P) (env : Env) : List Ev → P × List Out
  | [] => (p, [])
  | e :: rest =>
    let r1 := p.step env e
    let r2 := r1.1.run env rest
    (r2.1, r1.2 ++ r2.2)

/-! ## the session: honest parties on the reliable broadcast, adversarial everything else -/

/-- what the broadcast layer hands out for each sender (agreement and at-most-once: C02/C03 — every honest receiver of a
commitment / key attributed to `j` receives the same bytes), and which parties are honest -/
structure Session where
  honest : Id → Bool
  env : Id → Env
  bc : Id → Bytes            -- the commitment delivered for sender j
  br : Id → Bytes            -- the key delivered for sender j
  brwf : Id → Bool           -- … and whether it is a well-formed point
  parties : List Id

def Session.init (S : Session) (x : Id) : P := { self := x, parties := S.parties }

/-- reachable joint states: any honest party is handed, at any time and in any order, any share (point-to-point: it
may differ per receiver), the session's commitment or key of any other sender, any junk, the end of its context, or
runs its KeyGen goroutine -/
inductive Reach (S : Session) : (Id → P) → Prop
  | init : Reach S S.init
  | share {σ} (h : Reach S σ) (x j : Id) (v : Bytes) (wf : Bool) (hx : S.honest x = true) (hj : j ≠ x) :
      Reach S (fun y => if y = x then (σ x).onMsg j (.share v wf) else σ y)
  | commit {σ} (h : Reach S σ) (x j : Id) (hx : S.honest x = true) (hj : j ≠ x) :
      Reach S (fun y => if y = x then (σ x).onMsg j (.commit (S.bc j)) else σ y)
  | reveal {σ} (h : Reach S σ) (x j : Id) (hx : S.honest x = true) (hj : j ≠ x) :
      Reach S (fun y => if y = x then (σ x).onMsg j (.reveal (S.br j) (S.brwf j)) else σ y)
  | junk {σ} (h : Reach S σ) (x j : Id) (hx : S.honest x = true) :
      Reach S (fun y => if y = x then (σ x).onMsg j .junk else σ y)
  | ctx {σ} (h : Reach S σ) (x : Id) (hx : S.honest x = true) :
      Reach S (fun y => if y = x then { σ x with ctxDone := true } else σ y)
  | wake {σ} (h : Reach S σ) (x : Id) (hx : S.honest x = true) :
      Reach S (fun y => if y = x then ((σ x).wake (S.env x)).1 else σ y)

end TSSVerif.Model.Dkg
