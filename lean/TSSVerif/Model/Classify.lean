import TSSVerif.Model.WireBase
import TSSVerif.Gen.Classify
/-!
`ClassifyMsg` of the built-in DKG backends as a function of the regenerated tables.
-/
namespace TSSVerif.Model.Classify
open TSSVerif.Model

inductive Res
  | panic                              -- `msgBytes[0]` on an empty slice
  | error
  | ok (round : Nat) (broadcast : Bool)
deriving DecidableEq, Repr

def lookup (t : List (Nat × Nat × Bool)) (b : Nat) : Option (Nat × Bool) :=
  match t with
  | [] => none
  | (k, r, bc) :: rest => if k = b then some (r, bc) else lookup rest b

def classify (table : List (Nat × Nat × Bool)) (emptyRejected defaultIsError : Bool) (p : Bytes) : Res :=
  match p with
  | [] => if emptyRejected then .error else .panic
  | b :: _ =>
    match lookup table b.toNat with
    | some (r, bc) => .ok r bc
    | none => if defaultIsError then .error else .ok 0 false

def bls : Bytes → Res := classify Gen.Classify.blsTable Gen.Classify.blsEmptyRejected Gen.Classify.blsDefaultIsError
def ps : Bytes → Res := classify Gen.Classify.psTable Gen.Classify.psEmptyRejected Gen.Classify.psDefaultIsError

end TSSVerif.Model.Classify
