import TSSVerif.Model.Wire
import TSSVerif.Model.Rbc
/-!
MPC dispatch path of the orchestrator for one open session — model of `threshold/threshold.go`
`handleMPC` (after the table lookups), `handleAck`, `handleRBC`, `rbcMsg.Ack`, `rbcFilter.Receive`,
`threadSafeRBC.Receive` (one message at a time: one atomic step) feeding `rbc.Receiver.Receive`.

Parameters: the receiver's own classifier (round, broadcast-class?, or an error), the digest function
(SHA-256 in the code), and the list of session participants the filter lets through.
-/
namespace TSSVerif.Model.Dispatch
open TSSVerif.Model TSSVerif.Model.Rbc

structure Cfg where
  allowed : List Id
  classify : Bytes → Option (Round × Bool)   -- `none`: the classifier returned an error
  H : Bytes → Dig

/-- What the bytes of one MPC message mean to the receiver, before the participant filter. -/
inductive Parsed
  | drop                         -- malformed, or the classifier rejected the payload
  | panic                        -- would panic (proved unreachable: `parse_never_panics`)
  | msg (m : Msg)
deriving DecidableEq, Repr

/-- `handleMPC` → `handleAck` / `handleRBC`, then how `Receiver.Receive` reads the `rbcMsg` back
through `rbcMsg.Ack()`: an `rbcMsg` with an *empty* payload is read as an acknowledgement carrying
the digest of the empty string, about the source itself. -/
def parse (cfg : Cfg) (src : Id) (data : Bytes) : Parsed :=
  match decodeAck data with
  | .panic => .panic
  | .malformed => .drop
  | .ack d sender round => .msg (.ack ⟨d, sender.toNat, round.toNat⟩)
  | .payload =>
    let p := data.tail                     -- `rbcEncoding.Payload()` = r[1:]
    match cfg.classify p with
    | none => .drop
    | some (round, b) =>
      if p = [] then .msg (.ack ⟨cfg.H p, src, round⟩)
      else if b then .msg (.bcast p (cfg.H p) round)
      else .msg (.p2p p)

/-- One `HandleMessage` call of type MPC for the open session. -/
def dispatch (cfg : Cfg) (s : St) (src : Id) (data : Bytes) : St × List Out :=
  match parse cfg src data with
  | .drop => (s, [])
  | .panic => (s, [.panic])
  | .msg m => if src ∈ cfg.allowed then receive s m src else (s, [])

def run (cfg : Cfg) (s : St) : List (Id × Bytes) → St × List Out
  | [] => (s, [])
  | (src, data) :: rest =>
    let r1 := dispatch cfg s src data
    let r2 := run cfg r1.1 rest
    (r2.1, r1.2 ++ r2.2)

end TSSVerif.Model.Dispatch
