import TSSVerif.Model.WireDisc
import TSSVerif.Model.Translate
/-!
Membership synchronisation — model of `disc/discovery.go` (`Member.Synchronize`, `intersectedView`,
`myMemberViewSorted`, `HandleMessage`, `handleMembershipMessage`, `respondToQuery`, `handleResponse`,
`registerInterestInTopic`, `precomputeTagsForTopic`), *as repaired* by the two `fix:` commits recorded
in known_findings.json (F25: the own view is built in the same pass that compares the peers' views;
F26: `intersectedView` returns the own view, so a synchronisation expecting one member completes).

What is modelled how:
* the peer table `memberToView` is a key list plus a total value function; keys only grow;
* comparing views by their `%v` rendering and length is list equality (`fmt.Sprintf("%v", []uint16)`
  is injective up to nil/empty — checked against the real renderer by the harness);
* the `Synchronize` goroutine is **not** serialised with the handlers, and `sync.Map.Range` is not a
  snapshot: a pass over the table is a sequence of per-key `visit` steps, in any order, interleaved
  with handler steps; a pass may finish once every key that was present when it began has been
  visited (keys stored meanwhile may or may not have been);
* `receivedMsg` (wake-up) and the ticker are not state: a pass may begin whenever the goroutine is in
  its collecting loop;
* HMAC-SHA256 (`makePRF`) is a parameter: the tag of (topic, id) is supplied by the caller.
Core Lean only.
-/
namespace TSSVerif.Model.Disc
open TSSVerif.Model
open TSSVerif.Model.Translate (isort insSorted)

abbrev Id := Nat
abbrev View := List Id

inductive Kind
  | membership | query | response
deriving DecidableEq, Repr

inductive Phase
  | collect
  | query (l : View) (left : Nat)
  | done (l : View)
  | failed
deriving DecidableEq, Repr

inductive Out
  | send (to : Id) (k : Kind) (v : View)
  | bcast (k : Kind) (v : View)
  | cont (l : View)          -- the continuation `f(members)`
  | ret (ok : Bool)          -- `Synchronize` returns nil / an error
  | blocked                  -- a handler would block on the full `responses` channel
deriving DecidableEq, Repr

def ins (x : Id) (l : List Id) : List Id := if x ∈ l then l else l ++ [x]

/-- state of one member for one topic (`topicPeerView` plus the `Synchronize` goroutine) -/
structure TSt where
  self : Id
  expected : Nat
  cap : Nat                                   -- capacity of `responses`: len(Membership) − 1
  keys : List Id := []                        -- keys of `memberToView`
  val : Id → View := fun _ => []              -- its values
  responded : List Id := []                   -- `responsesReceived`
  queue : List View := []                     -- contents of `responses`
  phase : Phase := .collect
  acc : Option (List (Id × View)) := none     -- a pass over the table in progress: entries visited
  start : List Id := []                       -- keys present when it began

/-- `myMemberViewSorted` / the own view of `intersectedView` over the visited keys -/
def ownView (self : Id) (ks : List Id) : View := isort (self :: ks)

def TSt.store (s : TSt) (src : Id) (v : View) : TSt :=
  { s with keys := ins src s.keys, val := fun k => if k = src then v else s.val k }

/-- `handleMembershipMessage`, `respondToQuery`, `handleResponse` — after `HandleMessage` has accepted
the tag for this topic and this authenticated sender -/
def TSt.handle (s : TSt) (src : Id) (k : Kind) (v : View) : TSt × List Out :=
  match k with
  | .membership => (s.store src v, [])
  | .query =>
    let s' := s.store src v
    (s', [.send src .response (ownView s'.self s'.keys)])
  | .response =>
    if src ∈ s.responded then (s, [])
    else if s.queue.length < s.cap then
      ({ s with responded := src :: s.responded, queue := s.queue ++ [v] }, [])
    else ({ s with responded := src :: s.responded }, [.blocked])

def accKeys (a : List (Id × View)) : List Id := a.map (·.1)

/-- a pass over the peer table begins (collecting loop only) -/
def TSt.beginRead (s : TSt) : TSt :=
  match s.phase, s.acc with
  | .collect, none => { s with acc := some [], start := s.keys }
  | _, _ => s

/-- the pass visits key `k` -/
def TSt.visit (s : TSt) (k : Id) : TSt :=
  match s.acc with
  | some a => if k ∈ s.keys ∧ k ∉ accKeys a then { s with acc := some (a ++ [(k, s.val k)]) } else s
  | none => s

/-- `intersectedView` on the visited entries: the own view if every visited view equals it, else nil -/
def intersect (self : Id) (a : List (Id × View)) : View :=
  let own := ownView self (accKeys a)
  if a.all (fun kv => kv.2 = own) then own else []

def covered (s : TSt) (a : List (Id × View)) : Bool := s.start.all (fun k => k ∈ accKeys a)

/-- the pass of `intersectedView` ends and `Synchronize` acts on the result -/
def TSt.finishIntersect (s : TSt) : TSt × List Out :=
  match s.acc with
  | none => (s, [])
  | some a =>
    if ¬ covered s a then (s, [])
    else
      let m := intersect s.self a
      let s1 := { s with acc := none }
      if m.length < s.expected then (s1, [])
      else if m.length > s.expected then ({ s1 with phase := .failed }, [.ret false])
      else if s.expected - 1 = 0 then
        ({ s1 with phase := .done m }, [.bcast .query m, .cont m, .ret true])
      else ({ s1 with phase := .query m (s.expected - 1) }, [.bcast .query m])

/-- the pass of `myMemberViewSorted` on a tick ends: the view is broadcast -/
def TSt.finishTick (s : TSt) : TSt × List Out :=
  match s.acc with
  | none => (s, [])
  | some a =>
    if ¬ covered s a then (s, [])
    else ({ s with acc := none }, [.bcast .membership (ownView s.self (accKeys a))])

/-- the confirmation loop takes one response from the channel -/
def TSt.recvResponse (s : TSt) : TSt × List Out :=
  match s.phase, s.queue with
  | .query l (n + 1), v :: q =>
    if v = l then
      if n = 0 then ({ s with queue := q, phase := .done l }, [.cont l, .ret true])
      else ({ s with queue := q, phase := .query l n }, [])
    else ({ s with queue := q }, [])
  | _, _ => (s, [])

/-- the context ends while `Synchronize` waits in either loop -/
def TSt.ctxDone (s : TSt) : TSt × List Out :=
  match s.phase with
  | .collect => ({ s with phase := .failed, acc := none }, [.ret false])
  | .query _ _ => ({ s with phase := .failed }, [.ret false])
  | _ => (s, [])

/-! ## the member: several topics, tags, bytes -/

abbrev Topic := Bytes
abbrev Tag := Bytes

structure Member where
  self : Id
  cfg : List Id                                  -- `Membership`
  tags : List (Tag × (Topic × Id)) := []         -- `tagsToIDsAndTopics`; a later Store hides an earlier one
  topics : List (Topic × TSt) := []              -- `topicsToMemberViews`

def Member.topic? (m : Member) (t : Topic) : Option TSt :=
  (m.topics.find? (fun e => e.1 = t)).map (·.2)

def Member.setTopic (m : Member) (t : Topic) (s : TSt) : Member :=
  { m with topics := m.topics.map (fun e => if e.1 = t then (t, s) else e) }

def Member.lookup (m : Member) (g : Tag) : Option (Topic × Id) :=
  (m.tags.find? (fun e => e.1 = g)).map (·.2)

/-- `registerInterestInTopic` + `precomputeTagsForTopic`; `prf id` is the tag of `id` on this topic.
`none` = "already synchronizing on topic". -/
def Member.register (m : Member) (t : Topic) (expected : Nat) (prf : Id → Tag) : Option Member :=
  match m.topic? t with
  | some _ => none
  | none =>
    let fresh := (m.cfg.filter (· ≠ m.self)).map (fun i => (prf i, (t, i)))
    some { m with
      topics := m.topics ++ [(t, { self := m.self, expected := expected, cap := m.cfg.length - 1 })],
      tags := fresh.reverse ++ m.tags }

def kindOf (t : B8) : Option Kind :=
  if t = 1 then some .membership else if t = 2 then some .query else if t = 3 then some .response else none

inductive HOut
  | panic
  | ignored
  | handled (t : Topic) (outs : List Out)
deriving DecidableEq, Repr

/-- `HandleMessage(from, msg)` -/
def Member.handle (m : Member) (src : Id) (msg : Bytes) : Member × HOut :=
  match decodeView msg with
  | .panic => (m, .panic)
  | .malformed => (m, .ignored)
  | .ok ty tag peers =>
    match m.lookup tag with
    | none => (m, .ignored)
    | some (t, id) =>
      if id ≠ src then (m, .ignored)
      else match m.topic? t, kindOf ty with
        | some s, some k =>
          let r := s.handle src k (peers.map (·.toNat))
          (m.setTopic t r.1, .handled t r.2)
        | _, _ => (m, .ignored)

/-! ## one topic as a system: honest members, adversarial everything else -/

structure Cfg where
  members : List Id
  honest : Id → Bool
  exp : Id → Nat

structure Sys where
  st : Id → Option TSt            -- none: has not called `Synchronize` on the topic
  ann : List (Id × View)          -- every view an honest member broadcast (membership or query)
  heard : List (Id × Id)          -- (receiver, sender) of every accepted membership/query message
  hist : List (Id × Out)

def Sys.init : Sys := { st := fun _ => none, ann := [], heard := [], hist := [] }

def annOf (x : Id) (outs : List Out) : List (Id × View) :=
  outs.filterMap fun o =>
    match o with
    | .bcast _ v => some (x, v)
    | _ => none

/-- member `x` makes a local step with result `r` -/
def Sys.upd (σ : Sys) (x : Id) (r : TSt × List Out) : Sys :=
  { σ with
    st := fun y => if y = x then some r.1 else σ.st y,
    ann := σ.ann ++ annOf x r.2,
    hist := σ.hist ++ r.2.map (fun o => (x, o)) }

def TSt.fresh (c : Cfg) (x : Id) : TSt :=
  { self := x, expected := c.exp x, cap := c.members.length - 1 }

/-- `Synchronize` is called: the topic is registered -/
def Sys.startAt (c : Cfg) (σ : Sys) (x : Id) : Sys :=
  { σ with st := fun y => if y = x then some (TSt.fresh c x) else σ.st y }

/-- member `x` handles an accepted message -/
def Sys.handleAt (σ : Sys) (x src : Id) (k : Kind) (v : View) (s : TSt) : Sys :=
  { (σ.upd x (s.handle src k v)) with
    heard := if k = .response then σ.heard else σ.heard ++ [(x, src)] }

inductive Op
  | begin | visit (k : Id) | finishI | finishT | resp | ctx
deriving DecidableEq, Repr

def TSt.op (s : TSt) : Op → TSt × List Out
  | .begin => (s.beginRead, [])
  | .visit k => (s.visit k, [])
  | .finishI => s.finishIntersect
  | .finishT => s.finishTick
  | .resp => s.recvResponse
  | .ctx => s.ctxDone

/-- Reachable states of the topic. An honest member is handed any message attributed to any configured
member other than itself, at any time and in any order, except that a membership or query message
attributed to an honest member carries a view that member did broadcast. (Responses are not
constrained at all: no safety statement depends on them.) -/
inductive Reach (c : Cfg) : Sys → Prop
  | init : Reach c Sys.init
  | start {σ} (h : Reach c σ) (x : Id) (hx : c.honest x = true) (hm : x ∈ c.members) (hn : σ.st x = none) :
      Reach c (σ.startAt c x)
  | handle {σ} (h : Reach c σ) (x src : Id) (k : Kind) (v : View) (s : TSt)
      (hx : c.honest x = true) (hs : σ.st x = some s) (hsrc : src ∈ c.members) (hne : src ≠ x)
      (hauth : c.honest src = true → k ≠ .response → (src, v) ∈ σ.ann) :
      Reach c (σ.handleAt x src k v s)
  | op {σ} (h : Reach c σ) (x : Id) (o : Op) (s : TSt) (hx : c.honest x = true) (hs : σ.st x = some s) :
      Reach c (σ.upd x (s.op o))

end TSSVerif.Model.Disc
