/-!
Control-flow model for cancellation (C11) and for the order of disclosure (C05): the `KeyGen` of the
built-in DKG backends (`mpc/bls/mpc.go`, `mpc/ps/tps.go`, as repaired by F11) as a state machine over
the blocking points that exist in the source — the three `waitFor*` loops on a condition variable
woken by `OnMsg` and by the context monitor — and the result channel of the orchestrator
(`runDKG` / `Sign`, capacity 1).

Silence of a peer is simply the absence of further message events, so quantifying over event
sequences covers every point at which any peer may stop, and every single withheld message.
Core Lean only.
-/
namespace TSSVerif.Model.Ctl

inductive Phase
  | shares      -- shares sent; in waitForShareDistribution
  | commits     -- commitment broadcast; in waitForCommitmentDistribution
  | reveals     -- public key revealed; in waitForDeCommitmentDistribution
  | returned (ok : Bool)
  | panicked    -- combineShares on a missing share, "programming error" panics
deriving DecidableEq, Repr

inductive Out
  | sendShares | sendCommit | sendReveal
  | ret (ok : Bool)
  | panic
deriving DecidableEq, Repr

structure KG where
  n : Nat                 -- number of parties
  phase : Phase := .shares
  sharesHave : Nat := 0   -- distinct peers whose share arrived (first value per peer wins)
  commitsHave : Nat := 0
  revealsHave : Nat := 0  -- peers' revealed keys (the own key is added by combineShares)
  ctxDone : Bool := false
deriving Repr

inductive Ev
  | share | commit | reveal   -- a first message of that type from one more peer is handed to OnMsg
  | ctxDone                   -- the context expires or is cancelled (the monitor signals the condition)
  | wake                      -- the KeyGen goroutine runs until it blocks again or returns
deriving DecidableEq, Repr

/-- the KeyGen goroutine runs from its current wait loop until it blocks or returns. In each loop:
condition satisfied → next phase; otherwise context done → return the context error; otherwise
`signal.Wait()`. `validOK`: commitments match and all t-subsets agree. -/
def wake (s : KG) (validOK : Bool) : KG × List Out :=
  match s.phase with
  | .shares =>
    if s.sharesHave = s.n - 1 then
      -- combineShares, commitPhase
      if s.commitsHave = s.n - 1 then
        -- revealPhase
        if s.revealsHave = s.n - 1 then ({ s with phase := .returned validOK }, [.sendCommit, .sendReveal, .ret validOK])
        else if s.ctxDone then ({ s with phase := .returned false }, [.sendCommit, .sendReveal, .ret false])
        else ({ s with phase := .reveals }, [.sendCommit, .sendReveal])
      else if s.ctxDone then ({ s with phase := .returned false }, [.sendCommit, .ret false])
      else ({ s with phase := .commits }, [.sendCommit])
    else if s.ctxDone then ({ s with phase := .returned false }, [.ret false])
    else (s, [])
  | .commits =>
    if s.commitsHave = s.n - 1 then
      if s.revealsHave = s.n - 1 then ({ s with phase := .returned validOK }, [.sendReveal, .ret validOK])
      else if s.ctxDone then ({ s with phase := .returned false }, [.sendReveal, .ret false])
      else ({ s with phase := .reveals }, [.sendReveal])
    else if s.ctxDone then ({ s with phase := .returned false }, [.ret false])
    else (s, [])
  | .reveals =>
    if s.revealsHave = s.n - 1 then ({ s with phase := .returned validOK }, [.ret validOK])
    else if s.ctxDone then ({ s with phase := .returned false }, [.ret false])
    else (s, [])
  | .returned _ => (s, [])
  | .panicked => (s, [])

def bump (have_ n : Nat) : Nat := if have_ < n - 1 then have_ + 1 else have_

def step (s : KG) (validOK : Bool) : Ev → KG × List Out
  | .share => ({ s with sharesHave := bump s.sharesHave s.n }, [])
  | .commit => ({ s with commitsHave := bump s.commitsHave s.n }, [])
  | .reveal => ({ s with revealsHave := bump s.revealsHave s.n }, [])
  | .ctxDone => ({ s with ctxDone := true }, [])
  | .wake => wake s validOK

def run (s : KG) (validOK : Bool) : List Ev → KG × List Out
  | [] => (s, [])
  | e :: rest =>
    let r1 := step s validOK e
    let r2 := run r1.1 validOK rest
    (r2.1, r1.2 ++ r2.2)

/-! ### the result channel of `runDKG` / `Sign` (capacity 1) -/

/-- who may send to the result channel of one call, and when -/
structure Chan where
  callbackInvoked : Bool := false   -- the first synchronisation invoked the continuation
  callbackSent : Bool := false      -- the continuation has taken one of its (mutually exclusive) sending exits
  syncReturned : Bool := false      -- the first Synchronize returned (nil iff the continuation ran)
  sent : Nat := 0                   -- values sent so far
deriving Repr

inductive ChanEv
  | invokeCallback      -- Synchronize calls the continuation (and will return nil)
  | callbackSends       -- the continuation reaches a send
  | syncFails           -- Synchronize returns an error; the goroutine around it sends that error
deriving DecidableEq, Repr

/-- Synchronize invokes the continuation at most once and fails only if it did not invoke it; the
continuation sends at most once (each exit path has one send or none) -/
def chanStep (c : Chan) : ChanEv → Chan
  | .invokeCallback => if c.syncReturned then c else { c with callbackInvoked := true, syncReturned := true }
  | .callbackSends => if c.callbackInvoked && !c.callbackSent then { c with callbackSent := true, sent := c.sent + 1 } else c
  | .syncFails => if c.syncReturned then c else { c with syncReturned := true, sent := c.sent + 1 }

def chanRun (c : Chan) : List ChanEv → Chan
  | [] => c
  | e :: rest => chanRun (chanStep c e) rest

end TSSVerif.Model.Ctl
