/-!
Silent-mode message buffer — model of `msg/msgbox.go` (`Box`, `storedMessages`), *as repaired* by the
`fix:` commits F15–F19 of known_findings.json: the critical sections of `storeOrForward`, `Send`,
`mark`, `sweep`, and the sequential composition of whole calls over a virtual epoch clock (the
injected ticker). Interleavings at lock granularity are in `Model/BoxConc.lean`.

Maps are function-valued (executable; the driver enumerates the keys it has seen to print sizes).
Core Lean only.
-/
namespace TSSVerif.Model.Box

structure Msg where
  src : Nat
  topic : Nat
  id : Nat
deriving DecidableEq, Repr

/-- `storedMessages` -/
structure Pend where
  msgs : List Msg := []
  count : Nat → Nat := fun _ => 0      -- messageCountPerSender
  lastUsed : Nat := 0                  -- lastUsedEpoch

structure Cfg where
  maxTopics : Nat      -- MaxInFlightTopicsBySender
  limit : Nat          -- limitPerSender (100 in the source)
  expiry : Nat         -- GCExpire / GCSweep, in epochs (startClock requires ≥ 2)

structure Box where
  pending : Nat → Option Pend := fun _ => none
  started : Nat → Option Nat := fun _ => none      -- topic ↦ epoch of the last Send
  inflight : Nat → List Nat := fun _ => []         -- sender ↦ its in-flight topics (duplicate-free)
  epoch : Nat := 0                                 -- currentGCEpochNum
  lastGC : Nat := 0

inductive StoreRes
  | forward        -- the topic has started: the caller hands the message to the dispatcher
  | dropTopics     -- too many in-flight topics from this sender
  | dropLimit      -- too many buffered messages from this sender for this topic
  | stored
deriving DecidableEq, Repr

def insTopic (t : Nat) (l : List Nat) : List Nat := if t ∈ l then l else t :: l

/-- the critical section of `storeOrForward` -/
def csStore (c : Cfg) (b : Box) (m : Msg) : Box × StoreRes :=
  match b.started m.topic with
  | some _ => (b, .forward)
  | none =>
    if (b.inflight m.src).length > c.maxTopics then (b, .dropTopics)
    else
      let infl := fun s => if s = m.src then insTopic m.topic (b.inflight m.src) else b.inflight s
      let p : Pend := (b.pending m.topic).getD {}
      if p.count m.src > c.limit then
        ({ b with inflight := infl, pending := fun t => if t = m.topic then some p else b.pending t }, .dropLimit)
      else
        let p' : Pend := { msgs := p.msgs ++ [m],
                           count := fun s => if s = m.src then p.count m.src + 1 else p.count s,
                           lastUsed := if b.epoch > p.lastUsed then b.epoch else p.lastUsed }
        ({ b with inflight := infl, pending := fun t => if t = m.topic then some p' else b.pending t }, .stored)

/-- the critical section of `Send`: mark started, take the buffered messages, release the
bookkeeping -/
def csSend (b : Box) (t : Nat) : Box × List Msg :=
  match b.pending t with
  | none => ({ b with started := fun t' => if t' = t then some b.epoch else b.started t' }, [])
  | some p =>
    ({ b with started := fun t' => if t' = t then some b.epoch else b.started t',
              pending := fun t' => if t' = t then none else b.pending t',
              inflight := fun s => if p.count s > 0 then (b.inflight s).erase t else b.inflight s },
     p.msgs)

/-- `maybeGC`'s test -/
def gcDue (c : Cfg) (b : Box) : Bool := !(decide (b.epoch - b.lastGC < c.expiry))

/-- `mark`: is topic `t` to be deleted, judged at epoch `now` -/
def expired (c : Cfg) (now : Nat) (b : Box) (t : Nat) : Bool :=
  (match b.pending t with | some p => decide (now - p.lastUsed > c.expiry) | none => false) ||
  (match b.started t with | some e => decide (now - e > c.expiry) | none => false)

/-- `sweep` of the topics selected by `del` -/
def sweep (b : Box) (del : Nat → Bool) : Box :=
  { b with
    inflight := fun s => (b.inflight s).filter fun t =>
      !(del t && (match b.pending t with | some p => decide (p.count s > 0) | none => false))
    pending := fun t => if del t then none else b.pending t
    started := fun t => if del t then none else b.started t }

/-! ### whole calls, run sequentially -/

inductive Ev
  | handover (m : Msg)        -- MessageHandler.HandleMessage(m)
  | fwdSend (t : Nat)         -- ForwardSend on topic t
deriving DecidableEq, Repr

/-- `Box.HandleMessage(m)` for an MPC message -/
def recv (c : Cfg) (b : Box) (m : Msg) : Box × List Ev :=
  match csStore c b m with
  | (b', .forward) => (b', [.handover m])
  | (b', _) => (b', [])

def drain (c : Cfg) (b : Box) : List Msg → Box × List Ev
  | [] => (b, [])
  | m :: rest =>
    let r1 := recv c b m
    let r2 := drain c r1.1 rest
    (r2.1, r1.2 ++ r2.2)

def gc (c : Cfg) (b : Box) : Box :=
  if gcDue c b then sweep { b with lastGC := b.epoch } (expired c b.epoch b) else b

/-- `Box.Send(topic)` -/
def send (c : Cfg) (b : Box) (t : Nat) : Box × List Ev :=
  let (b1, msgs) := csSend b t
  let r := drain c b1 msgs
  (gc c r.1, .fwdSend t :: r.2)

def tick (b : Box) : Box := { b with epoch := b.epoch + 1 }

inductive Op
  | recv (m : Msg)
  | send (t : Nat)
  | tick
deriving DecidableEq, Repr

def step (c : Cfg) (b : Box) : Op → Box × List Ev
  | .recv m => recv c b m
  | .send t => send c b t
  | .tick => (tick b, [])

def run (c : Cfg) (b : Box) : List Op → Box × List Ev
  | [] => (b, [])
  | o :: rest =>
    let r1 := step c b o
    let r2 := run c r1.1 rest
    (r2.1, r1.2 ++ r2.2)

end TSSVerif.Model.Box
