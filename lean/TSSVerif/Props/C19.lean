import TSSVerif.Model.Adapter
import TSSVerif.Gen.Stmts
import TSSVerif.Model.StmtsExpected
/-!
# C19 — tss-lib adapters: receiver-side classification and sender binding

Finite tables, regenerated on every run from the adapters' sources and from the sources of the
tss-lib version their `go.mod` pins; decided by kernel evaluation over the whole tables.
-/
namespace TSSVerif.Props.C19
open TSSVerif.Model.Adapter TSSVerif.Gen.Adapter

/-- every library message type of the four packages is classified broadcast-class exactly when the
library routes it as a broadcast -/
theorem classify_agrees_with_library :
    ecdsaLib.all (fun e => (ecdsa e.2.1).2 == e.2.2) = true ∧
    eddsaLib.all (fun e => (eddsa e.2.1).2 == e.2.2) = true := by decide +kernel

/-- every library message type has an entry in the round table (a missing one would silently get
round 0, point-to-point) -/
theorem library_types_covered :
    ecdsaLib.all (fun e => (ecdsaRounds.map (·.1)).contains e.2.1) = true ∧
    eddsaLib.all (fun e => (eddsaRounds.map (·.1)).contains e.2.1) = true := by decide +kernel

/-- … and the tables contain nothing the library does not have -/
theorem no_stale_entries :
    ecdsaRounds.all (fun e => (ecdsaLib.map (·.2.1)).contains e.1) = true ∧
    eddsaRounds.all (fun e => (eddsaLib.map (·.2.1)).contains e.1) = true ∧
    ecdsaBroadcast.all (fun u => (ecdsaLib.map (·.2.1)).contains u) = true ∧
    eddsaBroadcast.all (fun u => (eddsaLib.map (·.2.1)).contains u) = true := by decide +kernel

def bcastRoundsOf (lib : List (String × String × Bool)) (cls : String → Nat × Bool) (phase : String) : List Nat :=
  ((lib.filter (fun e => e.1 == phase && (cls e.2.1).2)).map (fun e => (cls e.2.1).1))

/-- distinct broadcast-class message types of one session phase get distinct rounds (the
hypothesis of C04's workload, and what the pinning of (sender, round) needs) -/
theorem broadcast_rounds_distinct_per_phase :
    (bcastRoundsOf ecdsaLib ecdsa "keygen").Nodup ∧ (bcastRoundsOf ecdsaLib ecdsa "signing").Nodup ∧
    (bcastRoundsOf eddsaLib eddsa "keygen").Nodup ∧ (bcastRoundsOf eddsaLib eddsa "signing").Nodup := by
  decide +kernel

/-- every round fits the seven bits of the acknowledgement encoding (otherwise `newRBCEncoding`
panics) -/
theorem rounds_fit :
    ecdsaLib.all (fun e => decide ((ecdsa e.2.1).1 < 128)) = true ∧
    eddsaLib.all (fun e => decide ((eddsa e.2.1).1 < 128)) = true := by decide +kernel

/-- **Sender binding**: a message is passed to the protocol only if its embedded sender equals the
transport-authenticated one. -/
theorem sender_mismatch_dropped (claimed : Option Nat) (src : Nat) (h : onMsgAccepts claimed src = true) :
    ∃ k, claimed = some k ∧ k < 65535 ∧ k = src := by
  unfold onMsgAccepts at h
  cases claimed with
  | none => simp at h
  | some k =>
    by_cases hk : k ≥ 65535
    · simp [hk] at h
    · simp [hk] at h
      exact ⟨k, rfl, by omega, by omega⟩

/-- the comparisons of `OnMsg` and `Sign` are, textually, the ones the model encodes -/
theorem checks_as_modelled :
    ecdsaSenderCheck = "claimedFrom != from" ∧ eddsaSenderCheck = "claimedFrom != from" ∧
    ecdsaKeyRangeCheck = "key == nil || key.Cmp(big.NewInt(int64(math.MaxUint16))) >= 0" ∧
    eddsaKeyRangeCheck = "key == nil || key.Cmp(big.NewInt(int64(math.MaxUint16))) >= 0" ∧
    ecdsaDigestCheck = "!bytes.Equal(sigOut.M, msgToSign.Bytes())" ∧
    eddsaDigestCheck = "!bytes.Equal(sigOut.M, msgToSign.Bytes())" ∧
    ecdsaPhaseShift = (4, 4) ∧ eddsaPhaseShift = (4, 4) := by decide

/-- **A signature is returned only for the requested digest.** -/
theorem signature_only_for_requested_digest (requested signed : List Nat)
    (h : signReturns requested signed = true) : signed = requested := by
  simpa [signReturns] using h

/-- `hashToInt` for a 256-bit order: the integer value of the first 32 bytes, for every digest of
every length. -/
theorem hashToInt_spec (hash : List Nat) : hashToInt 256 hash = beNat (hash.take 32) := by
  unfold hashToInt
  simp only []
  by_cases h : hash.length > 32
  · have hl : (hash.take 32).length = 32 := by simp; omega
    simp [h, hl]
  · have ht : hash.take 32 = hash := List.take_of_length_le (by omega)
    have : ¬ (hash.length * 8 > 256) := by omega
    simp [h, ht, this]

example : ecdsa "type.googleapis.com/binance.tsslib.ecdsa.signing.SignRound3Message" = (4, true) := by decide +kernel
example : eddsa "type.googleapis.com/binance.tsslib.eddsa.keygen.KGRound2Message1" = (2, false) := by decide +kernel
example : onMsgAccepts (some 7) 7 = true ∧ onMsgAccepts (some 7) 8 = false := by decide

/-- **The source the model was transcribed from is the current source**: the statements of `ClassifyMsg`, `OnMsg`, `Sign`, `hashToInt`, `digest`, `sendMessages`, `Init` and the identifier helpers of both adapters, regenerated from
`/repo` on this run, are the committed ones (logging left out). A change of any of them — harmless or not — fails here
first; the differential and monitored runs of this property are then the search for an input on which it fails. -/
theorem source_as_modelled : TSSVerif.Gen.Stmts.adapter = TSSVerif.Model.StmtsExpected.adapter := by
  decide +kernel

end TSSVerif.Props.C19
