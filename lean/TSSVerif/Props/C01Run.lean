import TSSVerif.Props.C11Dkg
/-!
# C01 on the data-level key-generation model: completion

`Props/C01.lean` proves what a *completed* fault-free run has produced (the algebra of the shares and keys) and that the
public material is identical. This file proves, on `Model/Dkg.lean` — the model that the lockstep component `dkgstep`
compares with the real `KeyGen` goroutines step by step — that a party *does* complete once everything has arrived:
with a share, a commitment and a key of every other member in its tables, the next wake-up returns; and when the keys
match their commitments and the subsets agree (what a fault-free run delivers: C02/C03 for the broadcast, C18 for the
subsets), it returns success and reports the key table in party order. Which wake-up that is, in which order the
messages came and how often they were repeated does not matter (first value wins: `Props/C05 put_keeps`).
-/
set_option linter.unusedSimpArgs false
set_option linter.unusedVariables false
namespace TSSVerif.Props.C01Run
open TSSVerif.Model TSSVerif.Model.Dkg TSSVerif.Props.C05 TSSVerif.Props.C11Dkg

/-- the fold of `validateCommitments` says `some true` when every entry has its matching commitment -/
theorem validate_fold_all (commits : Tab) (hash : Bytes → Bytes) :
    ∀ (l : Tab), (∀ e ∈ l, commits.get e.1 = some (hash e.2)) →
      l.foldl (fun acc e => match acc with
        | none => none
        | some false => some false
        | some true =>
          match commits.get e.1 with
          | none => none
          | some c => some (decide (hash e.2 = c))) (some true) = some true
  | [], _ => rfl
  | e :: l, h => by
    rw [List.foldl_cons]
    have he := h e List.mem_cons_self
    simp only [he, decide_true]
    exact validate_fold_all commits hash l (fun e' he' => h e' (List.mem_cons_of_mem _ he'))

/-- not waiting and not dead = returned -/
theorem returned_of {q : P} (h1 : ¬ waiting q) (h2 : q.phase ≠ .panicked) : ∃ ok, q.phase = .returned ok := by
  unfold waiting at h1
  cases hq : q.phase with
  | shares => exact absurd (Or.inl hq) h1
  | commits => exact absurd (Or.inr (Or.inl hq)) h1
  | reveals => exact absurd (Or.inr (Or.inr hq)) h1
  | returned ok => exact ⟨ok, rfl⟩
  | panicked => exact absurd hq h2

theorem length_put_new {t : Tab} {k : Id} {v : Bytes} (h : k ∉ t.map (·.1)) : (t.put k v).length = t.length + 1 := by
  unfold Tab.put
  have : t.has k = false := by
    cases hh : t.has k with
    | false => rfl
    | true =>
      exfalso; apply h
      unfold Tab.has at hh
      obtain ⟨e, he, hk⟩ := List.any_eq_true.mp hh
      exact List.mem_map.mpr ⟨e, he, by simpa using hk⟩
  rw [this]
  simp

/-- **Everything has arrived ⇒ the call returns.** A member in its first loop that holds a share and a commitment of every
other member and the keys of all of them returns at its next wake-up (with success or with an error, never a panic). -/
theorem complete_inputs_return {p : P} (env : Env) (h : Members p) (hph : p.phase = .shares)
    (hs : p.shares.length = p.parties.length - 1) (hc : p.commits.length = p.parties.length - 1)
    (hr : p.reveals.length = p.parties.length - 1) :
    ∃ ok, (p.wake env).1.phase = .returned ok ∧ Out.panic ∉ (p.wake env).2 := by
  have hpp : p.phase ≠ .panicked := by rw [hph]; simp
  obtain ⟨w1, w2, _⟩ := wake_ok_members env h hpp
  have hpos : 1 ≤ p.parties.length := List.length_pos_of_mem h.self_mem
  -- the wake-up does not stop in any of the three loops
  have hnw : ¬ waiting (p.wake env).1 := by
    unfold P.wake
    rw [hph]
    simp only
    unfold sharesStep
    rw [if_pos hs]
    have hfull := full_table h.parties_nodup h.self_mem p.shares h.shares_nodup h.shares_mem hs
    have hall : (others p).all (fun k => p.shares.has k) = true := by
      rw [List.all_eq_true]; intro k hk; exact hfull k hk
    rw [if_pos hall]
    simp only
    unfold commitsStep
    rw [if_pos (by exact hc)]
    simp only
    unfold revealsStep
    have hlen : (p.reveals.put p.self env.ownPk).length = p.parties.length := by
      rw [length_put_new (h.own_late hph), hr]; omega
    rw [if_pos (by exact hlen)]
    exact finish_not_waiting _ env
  obtain ⟨ok, hok⟩ := returned_of hnw w2
  exact ⟨ok, hok, w1⟩

theorem mem_put {t : Tab} {k : Id} {v : Bytes} {e : Id × Bytes} (h : e ∈ t.put k v) : e ∈ t ∨ e = (k, v) := by
  unfold Tab.put at h
  split at h
  · exact Or.inl h
  · rcases List.mem_append.mp h with h | h
    · exact Or.inl h
    · simp at h; exact Or.inr h

/-- a duplicate-free key table over the parties with `n` entries has a key for every party -/
theorem all_keys {q : P} (h : Core q) (hr : q.reveals.length = q.parties.length) :
    q.parties.all (fun k => q.reveals.has k) = true := by
  have hsub := List.subperm_of_subset h.reveals_nodup h.reveals_mem
  have hlen : q.parties.length ≤ (q.reveals.map (·.1)).length := by rw [List.length_map, hr]; exact Nat.le_refl _
  have hp := hsub.perm_of_length_le hlen
  rw [List.all_eq_true]
  intro k hk
  exact has_of_mem_keys ((hp.mem_iff).mpr hk)

/-- **A fault-free set of inputs ⇒ success, with the key table as public material.** When moreover every recorded key
hashes to the commitment recorded for its sender and the `t`-subsets of the completed key table agree, the wake-up
broadcasts the commitment and the key, returns success, and reports exactly the key table in party order. -/
theorem matching_inputs_succeed {p : P} (env : Env) (h : Members p) (hph : p.phase = .shares)
    (hs : p.shares.length = p.parties.length - 1) (hc : p.commits.length = p.parties.length - 1)
    (hr : p.reveals.length = p.parties.length - 1)
    (hm : ∀ e ∈ p.reveals, p.commits.get e.1 = some (env.hash e.2))
    (hagree : env.subsetsAgree ({ p with reveals := p.reveals.put p.self env.ownPk } : P).publicKeys = true) :
    (p.wake env).1.phase = .returned true ∧
    (p.wake env).1.result = some ({ p with reveals := p.reveals.put p.self env.ownPk } : P).publicKeys ∧
    (p.wake env).2 = [.bcastCommit (env.hash env.ownPk), .bcastReveal env.ownPk, .ret true] := by
  have hpos : 1 ≤ p.parties.length := List.length_pos_of_mem h.self_mem
  have hfull := full_table h.parties_nodup h.self_mem p.shares h.shares_nodup h.shares_mem hs
  have hall : (others p).all (fun k => p.shares.has k) = true := by
    rw [List.all_eq_true]; intro k hk; exact hfull k hk
  have hlen : (p.reveals.put p.self env.ownPk).length = p.parties.length := by
    rw [length_put_new (h.own_late hph), hr]; omega
  -- the state after the own key entered the table
  have h1 : Core ({ p with reveals := p.reveals.put p.self env.ownPk } : P) := by
    refine ⟨h.parties_nodup, h.self_mem, h.shares_nodup, h.shares_mem, h.commits_nodup, h.commits_mem,
      nodup_keys_put _ _ _ h.reveals_nodup, ?_⟩
    intro k hk
    rcases mem_keys_put hk with rfl | hk
    · exact h.self_mem
    · exact h.reveals_mem k hk
  have hval : validate ({ p with reveals := p.reveals.put p.self env.ownPk } : P) env = some true := by
    unfold validate
    apply validate_fold_all
    intro e he
    have he' := List.mem_filter.mp he
    rcases mem_put he'.1 with hin | heq
    · exact hm e hin
    · exfalso
      have : e.1 = p.self := by rw [heq]
      simpa [this] using he'.2
  have hkeys := all_keys h1 hlen
  unfold P.wake
  rw [hph]
  simp only
  unfold sharesStep
  rw [if_pos hs, if_pos hall]
  simp only
  unfold commitsStep
  rw [if_pos (by exact hc)]
  simp only
  unfold revealsStep
  rw [if_pos (by exact hlen)]
  unfold finish
  rw [hval]
  simp only
  rw [if_pos hkeys]
  simp only [hagree, if_true]
  refine ⟨?_, ?_, ?_⟩ <;> first | trivial | rfl

/-- the same from the second loop (the own key is in the table already) … -/
theorem complete_inputs_return_commits {p : P} (env : Env) (h : Members p) (hph : p.phase = .commits)
    (hc : p.commits.length = p.parties.length - 1) (hr : p.reveals.length = p.parties.length) :
    ∃ ok, (p.wake env).1.phase = .returned ok ∧ Out.panic ∉ (p.wake env).2 := by
  have hpp : p.phase ≠ .panicked := by rw [hph]; simp
  obtain ⟨w1, w2, _⟩ := wake_ok_members env h hpp
  have hnw : ¬ waiting (p.wake env).1 := by
    unfold P.wake
    rw [hph]
    simp only
    unfold commitsStep
    rw [if_pos hc]
    simp only
    unfold revealsStep
    rw [if_pos hr]
    exact finish_not_waiting _ env
  obtain ⟨ok, hok⟩ := returned_of hnw w2
  exact ⟨ok, hok, w1⟩

/-- … and from the third (all commitments were there when it was entered: `Members.commits_full`) -/
theorem complete_inputs_return_reveals {p : P} (env : Env) (h : Members p) (hph : p.phase = .reveals)
    (hr : p.reveals.length = p.parties.length) :
    ∃ ok, (p.wake env).1.phase = .returned ok ∧ Out.panic ∉ (p.wake env).2 := by
  have hpp : p.phase ≠ .panicked := by rw [hph]; simp
  obtain ⟨w1, w2, _⟩ := wake_ok_members env h hpp
  have hnw : ¬ waiting (p.wake env).1 := by
    unfold P.wake
    rw [hph]
    simp only
    unfold revealsStep
    rw [if_pos hr]
    exact finish_not_waiting _ env
  obtain ⟨ok, hok⟩ := returned_of hnw w2
  exact ⟨ok, hok, w1⟩

/-- tables never shrink: what has arrived stays (so "everything has arrived" is stable until the wake-up) -/
theorem onMsg_tables_grow (p : P) (src : Id) (m : Msg) :
    p.shares.length ≤ (p.onMsg src m).shares.length ∧ p.commits.length ≤ (p.onMsg src m).commits.length ∧
    p.reveals.length ≤ (p.onMsg src m).reveals.length := by
  have hput : ∀ (t : Tab) (k : Id) (v : Bytes), t.length ≤ (t.put k v).length := by
    intro t k v; unfold Tab.put; split <;> simp
  cases m with
  | share v wf => simp only [P.onMsg]; split <;> simp [hput]
  | commit c => simp only [P.onMsg]; simp [hput]
  | reveal pk wf => simp only [P.onMsg]; split <;> simp [hput]
  | junk => simp [P.onMsg]

/-- non-vacuity: the three-party run of `Props/C11Dkg` ends exactly so -/
example : (exP.run exEnv evsGood).1.phase = .returned true ∧
    (exP.run exEnv evsGood).1.result = some [some [9], some [5], some [7]] := by decide

end TSSVerif.Props.C01Run
