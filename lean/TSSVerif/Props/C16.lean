import TSSVerif.Model.Net
import TSSVerif.Gen.Net
import TSSVerif.Gen.Stmts
import TSSVerif.Model.StmtsExpected
/-!
# C16 — the transport attributes traffic only to peers that proved their registered identity

Model: `Model/Net.lean` (`authenticate`, `serve`). The theorems hold for **every** environment: whatever the
TLS exporter, the ASN.1 / PEM / x509 decoders, the signature scheme and the table are, a connection is
attributed exactly when the whole conjunction below holds, over exactly these byte strings. What the
conjuncts *mean* (only the key holder can produce the signature, the exporter value is unique to the
connection) are the cryptographic assumptions stated in the evidence.
-/
set_option linter.unusedSimpArgs false
set_option linter.unusedVariables false
namespace TSSVerif.Props.C16
open TSSVerif.Model TSSVerif.Model.Net

variable {Conn Cert Key : Type}

/-- everything a connection must exhibit to be attributed to `i` under domain `d` -/
def Proved (env : Env Conn Cert Key) (c : Conn) (sent : Bytes) (d : Bytes) (i : Id) : Prop :=
  ∃ hs der cert k b,
    env.read sent = some hs ∧                                  -- a well-formed handshake was received on this connection
    env.exporter c = hs.binding ∧                              -- carrying this very connection's channel binding
    env.pem hs.identity = some der ∧ env.parse der = some cert ∧  -- an identity that is a certificate
    env.key cert = some k ∧                                    -- with a supported (ECDSA) key
    env.marshal { hs with signature := [] } = some b ∧         -- the handshake with the signature field blanked …
    env.verify k (env.digest b) hs.signature = true ∧          -- … is what the identity's key signed
    env.table (env.tkey (hs.domain ++ hs.identity)) = some i ∧ -- and (domain, identity) is in the table, for node i
    d = hs.domain

/-- **Attribution exactly when everything is proved** (both directions). -/
theorem attributed_iff (env : Env Conn Cert Key) (c : Conn) (sent : Bytes) (d : Bytes) (i : Id) :
    authenticate env c sent = .accept d i ↔ Proved env c sent d i := by
  unfold authenticate Proved
  constructor
  · intro h
    split at h
    · cases h
    · rename_i hs hr
      split at h
      · cases h
      · rename_i hb
        split at h
        · cases h
        · rename_i der hp
          split at h
          · cases h
          · rename_i cert hc
            split at h
            · cases h
            · rename_i k hk
              split at h
              · cases h
              · rename_i b hm
                split at h
                · cases h
                · rename_i hv
                  split at h
                  · cases h
                  · rename_i i' ht
                    injection h with h1 h2
                    subst h1 h2
                    refine ⟨hs, der, cert, k, b, hr, ?_, hp, hc, hk, hm, ?_, ht, rfl⟩
                    · exact Classical.not_not.mp hb
                    · cases hvv : env.verify k (env.digest b) hs.signature
                      · exact absurd hvv hv
                      · rfl
  · rintro ⟨hs, der, cert, k, b, hr, hb, hp, hc, hk, hm, hv, ht, rfl⟩
    simp only [hr, hb, ne_eq, not_true_eq_false, if_false, hp, hc, hk, hm, hv, Bool.true_eq_false, ht]

theorem attributed_only_if (env : Env Conn Cert Key) (c : Conn) (sent : Bytes) (d : Bytes) (i : Id)
    (h : authenticate env c sent = .accept d i) : Proved env c sent d i := (attributed_iff env c sent d i).mp h

/-- **A handshake recorded on another connection is rejected**: the same bytes that are accepted on a connection
with one exporter value are refused on any connection with a different one (at the binding check). -/
theorem replay_rejected (env : Env Conn Cert Key) (c c' : Conn) (sent : Bytes) (d : Bytes) (i : Id)
    (hne : env.exporter c ≠ env.exporter c') (h : authenticate env c' sent = .accept d i) :
    authenticate env c sent = .reject .binding := by
  obtain ⟨hs, der, cert, k, b, hr, hb, _⟩ := attributed_only_if env c' sent d i h
  unfold authenticate
  simp only [hr]
  rw [if_pos]
  rw [← hb]
  exact hne

/-- each way of failing, named (corollaries of `attributed_iff`): no attribution without … -/
theorem malformed_rejected (env : Env Conn Cert Key) (c : Conn) (sent : Bytes) (h : env.read sent = none) :
    authenticate env c sent = .reject .read := by
  unfold authenticate; simp [h]

theorem unsupported_key_never_attributed (env : Env Conn Cert Key) (c : Conn) (sent : Bytes) (d : Bytes) (i : Id)
    (h : ∀ hs der cert, env.read sent = some hs → env.pem hs.identity = some der → env.parse der = some cert → env.key cert = none) :
    authenticate env c sent ≠ .accept d i := by
  intro ha
  obtain ⟨hs, der, cert, k, b, hr, _, hp, hc, hk, _⟩ := attributed_only_if env c sent d i ha
  rw [h hs der cert hr hp hc] at hk
  cases hk

theorem bad_signature_never_attributed (env : Env Conn Cert Key) (c : Conn) (sent : Bytes) (d : Bytes) (i : Id)
    (h : ∀ hs der cert k b, env.read sent = some hs → env.pem hs.identity = some der → env.parse der = some cert →
      env.key cert = some k → env.marshal { hs with signature := [] } = some b → env.verify k (env.digest b) hs.signature = false) :
    authenticate env c sent ≠ .accept d i := by
  intro ha
  obtain ⟨hs, der, cert, k, b, hr, _, hp, hc, hk, hm, hv, _⟩ := attributed_only_if env c sent d i ha
  rw [h hs der cert k b hr hp hc hk hm] at hv
  cases hv

theorem unregistered_never_attributed (env : Env Conn Cert Key) (c : Conn) (sent : Bytes) (d : Bytes) (i : Id)
    (h : ∀ hs, env.read sent = some hs → env.table (env.tkey (hs.domain ++ hs.identity)) = none) :
    authenticate env c sent ≠ .accept d i := by
  intro ha
  obtain ⟨hs, _, _, _, _, hr, _, _, _, _, _, _, ht, _⟩ := attributed_only_if env c sent d i ha
  rw [h hs hr] at ht
  cases ht

/-- **No attributed message without authentication, and every message of a connection carries that connection's
authenticated (domain, node)** — `handleConn`. -/
theorem served_only_authenticated {F : Type} (env : Env Conn Cert Key) (c : Conn) (sent : Bytes) (frames : List F)
    (m : InMsg F) (h : m ∈ serve env c sent frames) :
    authenticate env c sent = .accept m.domain m.src ∧ m.frame ∈ frames := by
  unfold serve at h
  split at h
  · rename_i d i ha
    obtain ⟨f, hf, rfl⟩ := List.mem_map.mp h
    exact ⟨ha, hf⟩
  · cases h

theorem unauthenticated_emits_nothing {F : Type} (env : Env Conn Cert Key) (c : Conn) (sent : Bytes) (frames : List F)
    (h : ∀ d i, authenticate env c sent ≠ .accept d i) : serve env c sent frames = [] := by
  unfold serve
  split
  · rename_i d i ha; exact absurd ha (h d i)
  · rfl

/-- what the signature covers: two received handshakes whose blanked encodings coincide agree on domain, binding,
identity and timestamp, provided the encoding is injective (a law of DER, parameter here) -/
theorem signed_fields (marshal : HS → Option Bytes)
    (hinj : ∀ a b x, marshal a = some x → marshal b = some x → a = b) (h1 h2 : HS) (x : Bytes)
    (e1 : marshal { h1 with signature := [] } = some x) (e2 : marshal { h2 with signature := [] } = some x) :
    h1.domain = h2.domain ∧ h1.binding = h2.binding ∧ h1.identity = h2.identity ∧ h1.timestamp = h2.timestamp := by
  have := hinj _ _ x e1 e2
  injection this with a b c d _
  exact ⟨a, b, c, d⟩

/-! ## the label: "registered for i under the claimed domain" -/

structure Reg where
  domain : Bytes
  identity : Bytes
  id : Id

/-- the table an application builds from its registrations: keyed by `tkey (domain ++ identity)` -/
def tableOf (tkey : Bytes → Bytes) (R : List Reg) (k : Bytes) : Option Id :=
  (R.find? (fun r => tkey (r.domain ++ r.identity) = k)).map (·.id)

/-- **Partial.** The claimed (domain, identity) pair is a registered pair for `i` *provided* the table key is
collision-free and no registered pair can be re-split: whenever `d ++ I = d' ++ I'` for a registered `(d, I)`, then
`(d', I') = (d, I)`. The second hypothesis is **not** met by the code's key `sha256(domain ‖ identity)`:
`boundary_shift_witness` below, and known finding KF-C16-domain-boundary. -/
theorem label_registered_partial (env : Env Conn Cert Key) (R : List Reg) (ht : env.table = tableOf env.tkey R)
    (hinj : ∀ a b, env.tkey a = env.tkey b → a = b)
    (hsplit : ∀ r ∈ R, ∀ d' I', r.domain ++ r.identity = d' ++ I' → d' = r.domain ∧ I' = r.identity)
    (c : Conn) (sent : Bytes) (d : Bytes) (i : Id) (h : authenticate env c sent = .accept d i) :
    ∃ hs, env.read sent = some hs ∧ ∃ r ∈ R, r.domain = d ∧ r.identity = hs.identity ∧ r.id = i := by
  obtain ⟨hs, _, _, _, _, hr, _, _, _, _, _, _, htab, rfl⟩ := attributed_only_if env c sent d i h
  refine ⟨hs, hr, ?_⟩
  rw [ht] at htab
  unfold tableOf at htab
  cases hf : R.find? (fun r => env.tkey (r.domain ++ r.identity) = env.tkey (hs.domain ++ hs.identity)) with
  | none => rw [hf] at htab; cases htab
  | some r =>
    rw [hf] at htab
    have hmem := List.mem_of_find?_eq_some hf
    have hk := List.find?_some hf
    have hk' : env.tkey (r.domain ++ r.identity) = env.tkey (hs.domain ++ hs.identity) := by simpa using hk
    obtain ⟨e1, e2⟩ := hsplit r hmem _ _ (hinj _ _ hk')
    exact ⟨r, hmem, e1.symm, e2.symm, by simpa using htab⟩

/-- **Witness (kernel-checked) that the unconditional label statement fails** for a key made of the plain
concatenation: with the single registration `("ab", I)`, `I = [45]`, a PEM decoder that — like `pem.Decode` — skips
what precedes the block, and the key holder signing, the handshake claiming `("a", "b" ++ I)` is attributed under
domain `"a"`, which was never registered. (The harness replays exactly this against the real code: registered
domain `"ab\n"`, claimed `"a"` with identity `"b\n" ++ PEM`.) -/
def wEnv : Env Unit Unit Unit where
  exporter := fun _ => [9]
  read := fun s => some ⟨[97], [9], 98 :: s, 0, [1]⟩             -- claims domain "a", identity "b" ++ sent
  pem := fun i => some (i.dropWhile (· ≠ 45))                     -- skips up to the block
  parse := fun _ => some ()
  key := fun _ => some ()
  marshal := fun _ => some []
  digest := fun b => b
  verify := fun _ _ _ => true
  tkey := fun b => b
  table := tableOf (fun b => b) [⟨[97, 98], [45], 7⟩]            -- ("ab", I) ↦ 7

theorem boundary_shift_witness :
    authenticate wEnv () [45] = .accept [97] 7 ∧
    ¬ ∃ r ∈ [(⟨[97, 98], [45], 7⟩ : Reg)], r.domain = [97] := by
  constructor
  · decide
  · simp

/-! ## the regenerated decision sequence -/

/-- the rejecting conditions of `authenticateConnection`, in source order, the bytes the signature is verified over,
the table key and the accepting return are the ones modelled (the time-stamp comparison only logs);
`handleConn` sends on the channel only inside the loop that follows a successful authentication. -/
theorem decision_sequence_as_modelled :
    TSSVerif.Gen.Net.authRejects =
      ["err := h.Read(conn); err != nil",
       "NOT-REJECTING: createTime.Add(time.Second * 30).Before(now)",
       "!bytes.Equal(binding, h.TLSBinding)",
       "bl == nil",
       "err != nil",
       "!isECDSA",
       "err != nil",
       "!ecdsa.VerifyASN1(pk, sha256Digest(signedBytes), sig)",
       "!exists"] ∧
    TSSVerif.Gen.Net.authBlanksSignature = "h.Signature = nil" ∧
    TSSVerif.Gen.Net.authSignedBytes = "signedBytes, err := asn1.Marshal(h)" ∧
    TSSVerif.Gen.Net.authTableKey = "hex.EncodeToString(sha256Digest([]byte(h.Domain), h.Identity))" ∧
    TSSVerif.Gen.Net.authAccepts = "return h.Domain, uint16(from), true" ∧
    TSSVerif.Gen.Net.handleConnShape =
      ["domain, from, authenticationSucceeded := authenticateConnection(p2id, conn, l)",
       "if !authenticationSucceeded return", "for … (1 channel sends)"] := by
  decide +kernel

/-- non-vacuity: an environment in which a connection is attributed, and the same bytes on another connection are not -/
def okEnv : Env Nat Unit Unit where
  exporter := fun c => [BitVec.ofNat 8 c]
  read := fun s => some ⟨[1], s, [2], 0, [3]⟩
  pem := fun _ => some []
  parse := fun _ => some ()
  key := fun _ => some ()
  marshal := fun _ => some []
  digest := fun b => b
  verify := fun _ _ sg => sg == [3]
  tkey := fun b => b
  table := fun k => if k = [1, 2] then some 5 else none

example : authenticate okEnv 4 [4] = .accept [1] 5 ∧ authenticate okEnv 6 [4] = .reject .binding := by decide

/-- **The source the model was transcribed from is the current source**: the statements of `handleConn`, `authenticateConnection`, `sha256Digest`, `extractTLSBinding`, the handshake codec and `ServiceConnections`, regenerated from
`/repo` on this run, are the committed ones (logging left out). A change of any of them — harmless or not — fails here
first; the differential and monitored runs of this property are then the search for an input on which it fails. -/
theorem source_as_modelled : TSSVerif.Gen.Stmts.auth = TSSVerif.Model.StmtsExpected.auth := by
  decide +kernel

end TSSVerif.Props.C16
