import TSSVerif.Proofs.Dispatch
import TSSVerif.Gen.Stmts
import TSSVerif.Model.StmtsExpected
/-!
# C02 — reliable broadcast agreement: honest parties never accept conflicting payloads

The session as a system: any number of members, any subset of them honest (each running the
dispatcher + filter + receiver of `Model/Dispatch.lean`), everybody else — corrupted members and
outsiders — may hand **any bytes** to **any honest member at any time, in any order, any number of
times**. The only thing the adversary cannot do is forge the transport-authenticated source of an
honest member (C16): bytes attributed to an honest member are bytes that member put on the wire,
i.e. a payload frame of its backend or the encoding of an acknowledgement it emitted.

No bound on the number of members (so in particular every N ≥ 3), corrupted members, rounds,
messages or steps. SHA-256 is a parameter `H`: the conclusion is "equal payloads, or an explicit
collision of `H`".
-/
set_option linter.unusedSimpArgs false
namespace TSSVerif.Props.C02
open TSSVerif.Model TSSVerif.Model.Rbc TSSVerif.Model.Dispatch

/-- Session configuration at the byte level. All honest members run the same deterministic
classifier (they run the same backend) and the same digest function. -/
structure BCfg where
  members : List Id
  honest : Id → Bool
  classify : Bytes → Option (Round × Bool)
  H : Bytes → Dig

def BCfg.toRbc (c : BCfg) : Rbc.Cfg := { members := c.members, honest := c.honest }
def BCfg.toDisp (c : BCfg) : Dispatch.Cfg := { allowed := c.members, classify := c.classify, H := c.H }

/-- the bytes of acknowledgement `k` as `newRBCEncoding` writes them -/
def ackBytes (k : Key) : Option Bytes := encodeAck k.d (BitVec.ofNat 16 k.s) (BitVec.ofNat 8 k.r)

/-- What an honest member `src` can have put on the wire in state `σ`: a payload frame of its
backend (any payload), or the encoding of an acknowledgement it has emitted. -/
def SentBy (σ : Sys) (src : Id) (data : Bytes) : Prop :=
  (∃ p, data = encodePayload p) ∨
  (∃ k, (src, Out.ack k) ∈ σ.hist ∧ k.s < 65536 ∧ k.r < 128 ∧ k.d ≠ [] ∧ ackBytes k = some data)

/-- one `HandleMessage` call at honest member `p` with bytes attributed to `src` -/
def brecv (c : BCfg) (σ : Sys) (p src : Id) (data : Bytes) : Sys :=
  match parse c.toDisp src data with
  | .msg m => σ.recv c.toRbc p src m
  | _ => σ

inductive BReach (c : BCfg) : Sys → Prop
  | init : BReach c (Rbc.init c.toRbc)
  | step {σ} (h : BReach c σ) (p src : Id) (data : Bytes)
      (hp : c.honest p = true) (hpm : p ∈ c.members) (hsrc : src ≠ p)
      (hauth : c.honest src = true → SentBy σ src data) :
      BReach c (brecv c σ p src data)

/-- messages produced by the dispatcher carry the digest the receiver computed itself -/
def HConsistent (c : BCfg) : Msg → Prop
  | .bcast p d _ => d = c.H p
  | _ => True

theorem parse_consistent (c : BCfg) (src : Id) (data : Bytes) (m : Msg)
    (h : parse c.toDisp src data = .msg m) : HConsistent c m := by
  unfold parse at h
  split at h
  · cases h
  · cases h
  · cases h; trivial
  · simp only [] at h
    split at h
    · cases h
    · split at h
      · cases h; trivial
      · split at h
        · cases h; rfl
        · cases h; trivial

/-- an acknowledgement read from a payload frame is about the source itself -/
theorem parse_payload_ack (c : BCfg) (src : Id) (p : Bytes) (k : Key)
    (h : parse c.toDisp src (encodePayload p) = .msg (.ack k)) : k.s = src := by
  unfold parse at h
  rw [TSSVerif.Props.C13.payload_frame_is_payload] at h
  simp only [] at h
  split at h
  · cases h
  · split at h
    · cases h; rfl
    · split at h <;> cases h

theorem parse_ackBytes (c : BCfg) (src : Id) (k : Key) (data : Bytes)
    (hs : k.s < 65536) (hr : k.r < 128) (hd : k.d ≠ []) (hb : ackBytes k = some data) :
    parse c.toDisp src data = .msg (.ack k) := by
  have e1 : k.s % 2 ^ 16 = k.s := Nat.mod_eq_of_lt (Nat.lt_of_lt_of_le hs (by decide))
  have e2 : k.r % 2 ^ 8 = k.r := Nat.mod_eq_of_lt (Nat.lt_trans hr (by decide))
  have hr8 : BitVec.ofNat 8 k.r < 128#8 := by
    rw [BitVec.lt_def]; simp only [BitVec.toNat_ofNat]
    have h128 : (128 : Nat) % 2 ^ 8 = 128 := by decide
    rw [e2, h128]; exact hr
  have rt := TSSVerif.Props.C13.ack_roundtrip k.d (BitVec.ofNat 16 k.s) (BitVec.ofNat 8 k.r) hr8 hd
  unfold ackBytes at hb
  rw [hb] at rt
  simp only [Option.map_some, Option.some.injEq] at rt
  unfold parse
  rw [rt]
  simp only [BitVec.toNat_ofNat]
  rw [e1, e2]

/-- Every byte-level execution is an execution of the receiver-level system of `Model/Rbc.lean`. -/
theorem breach_reach (c : BCfg) {σ : Sys} (h : BReach c σ) : Reach c.toRbc σ := by
  induction h with
  | init => exact Reach.init
  | step h p src data hp hpm hsrc hauth ih =>
    unfold brecv
    cases hm : parse c.toDisp src data with
    | drop => exact ih
    | panic => exact ih
    | msg m =>
      simp only []
      refine Reach.step ih p src m hp hpm hsrc ?_
      intro hh k hk hne
      subst hk
      rcases hauth hh with ⟨pl, hpl⟩ | ⟨k', hk', hs, hr, hd, hb⟩
      · subst hpl
        exact absurd (parse_payload_ack c src pl k hm).symm hne
      · have := parse_ackBytes c src k' data hs hr hd hb
        rw [this] at hm
        cases hm
        exact hk'

/-- every payload an honest member holds or has handed over carries the digest `H payload` -/
structure DigInv (c : BCfg) (σ : Sys) : Prop where
  slot : ∀ q k pay, ((σ.st q).slot k).m = some pay → k.d = c.H pay
  hist : ∀ q pay k, (q, Out.deliverB pay k) ∈ σ.hist → k.d = c.H pay

theorem diginv (c : BCfg) {σ : Sys} (h : BReach c σ) : DigInv c σ := by
  induction h with
  | init => exact ⟨by intro q k pay h; simp [Rbc.init] at h, by intro q pay k h; simp [Rbc.init] at h⟩
  | @step σ h p src data hp hpm hsrc hauth ih =>
    unfold brecv
    cases hm : parse c.toDisp src data with
    | drop => exact ih
    | panic => exact ih
    | msg m =>
      simp only []
      have hc := parse_consistent c src data m hm
      by_cases hs : src ∈ c.toRbc.members
      case neg => simpa [Sys.recv, hs] using ih
      have slot' : ∀ k pay, ((receive (σ.st p) m src).1.slot k).m = some pay → k.d = c.H pay := by
        intro k pay hk
        rcases (receive_facts2 (σ.st p) m src).m_src k pay hk with h1 | ⟨h1, _⟩
        · exact ih.slot p k pay h1
        · rw [h1] at hc; exact hc
      constructor
      · intro q k pay hk
        rw [st_recv hs] at hk
        split at hk
        · exact slot' k pay hk
        · exact ih.slot q k pay hk
      · intro q pay k hk
        rcases (mem_hist_recv hs q _).mp hk with h1 | ⟨_, h1⟩
        · exact ih.hist q pay k h1
        · exact slot' k pay ((receive_facts (σ.st p) m src).del_out pay k h1).2.2.2.1

/-- **Agreement.** If two honest members each hand a broadcast-class message attributed to the same
sender and round to their backends, the payloads are byte-identical — or the two payloads are an
explicit SHA-256 collision. Whatever the sender, other participants and outsiders transmit, in
whatever order it arrives, for every session size. -/
theorem agreement (c : BCfg) (hnd : c.members.Nodup) {σ : Sys} (h : BReach c σ)
    (p q : Id) (pay pay' : Pay) (k k' : Key)
    (h1 : (p, Out.deliverB pay k) ∈ σ.hist) (h2 : (q, Out.deliverB pay' k') ∈ σ.hist)
    (es : k.s = k'.s) (er : k.r = k'.r) :
    pay = pay' ∨ (pay ≠ pay' ∧ c.H pay = c.H pay') := by
  have hd : k.d = k'.d := Rbc.agreement c.toRbc hnd (breach_reach c h) p q pay pay' k k' h1 h2 es er
  have D := diginv c h
  have e1 := D.hist p pay k h1
  have e2 := D.hist q pay' k' h2
  by_cases hpp : pay = pay'
  · exact Or.inl hpp
  · exact Or.inr ⟨hpp, by rw [← e1, ← e2, hd]⟩

/-- Only honest members' hand-overs are recorded, and they are exactly the model's `deliverB`
outputs: the history never contains a hand-over by a party that is not an honest member. -/
theorem deliveries_by_honest_members (c : BCfg) {σ : Sys} (h : BReach c σ) (p : Id) (o : Out)
    (ho : (p, o) ∈ σ.hist) : c.honest p = true ∧ p ∈ c.members := by
  induction h with
  | init => simp [Rbc.init] at ho
  | step h p' src data hp hpm hsrc hauth ih =>
    unfold brecv at ho
    cases hm : parse c.toDisp src data with
    | drop => rw [hm] at ho; exact ih ho
    | panic => rw [hm] at ho; exact ih ho
    | msg m =>
      rw [hm] at ho
      simp only [] at ho
      by_cases hs : src ∈ c.toRbc.members
      · rcases (mem_hist_recv hs p o).mp ho with h1 | ⟨h1, _⟩
        · exact ih h1
        · rw [h1]; exact ⟨hp, hpm⟩
      · simp [Sys.recv, hs] at ho; exact ih ho

/-! ## non-vacuity

N = 4, members 0..3, member 0 corrupted and equivocating: it sends payload A to member 1 and payload
B to member 2 (and vouches for both itself). The trace is reachable; nobody delivers conflicting
payloads (here: the honest victims detect the conflict when they see each other's
acknowledgements). The hypotheses of `agreement` are met by a real hand-over in the second example:
an honest run in which member 1 delivers member 0's broadcast. -/

def exC : BCfg :=
  { members := [0, 1, 2],
    honest := fun i => i != 0,
    classify := fun p => match p with | r :: c :: _ => some (r.toNat, c = 1#8) | _ => none,
    H := fun p => p.take 3 }

/-- member 1 receives payload `[1,1,7]` of member 0 directly, then member 2 (honest) receives it and
emits its acknowledgement, which member 1 then receives: member 1 hands the payload over. -/
def exRun : Sys :=
  let σ0 := Rbc.init exC.toRbc
  let σ1 := brecv exC σ0 1 0 [255#8, 1#8, 1#8, 7#8]
  let σ2 := brecv exC σ1 2 0 [255#8, 1#8, 1#8, 7#8]
  brecv exC σ2 1 2 [1#8, 0#8, 0#8, 1#8, 1#8, 7#8]

example : (1, Out.deliverB [1#8, 1#8, 7#8] ⟨[1#8, 1#8, 7#8], 0, 1⟩) ∈ exRun.hist := by decide

example : BReach exC exRun := by
  unfold exRun
  refine BReach.step (BReach.step (BReach.step BReach.init 1 0 _ (by decide) (by decide) (by decide) ?_)
    2 0 _ (by decide) (by decide) (by decide) ?_) 1 2 _ (by decide) (by decide) (by decide) ?_
  · intro h; exact absurd h (by decide)
  · intro h; exact absurd h (by decide)
  · intro _
    right
    refine ⟨⟨[1#8, 1#8, 7#8], 0, 1⟩, by decide, by decide, by decide, by decide, by decide⟩


/-- **The source the model was transcribed from is the current source**: the statements of `Receiver.Receive`, `registerMsg`, `initIfNeeded` and the dispatch path `handleMPC` / `handleRBC` / `handleAck` / `rbcFilter.Receive` / `threadSafeRBC.Receive`, regenerated from
`/repo` on this run, are the committed ones (logging left out). A change of any of them — harmless or not — fails here
first; the differential and monitored runs of this property are then the search for an input on which it fails. -/
theorem source_as_modelled : TSSVerif.Gen.Stmts.rbc = TSSVerif.Model.StmtsExpected.rbc := by
  decide +kernel

end TSSVerif.Props.C02
