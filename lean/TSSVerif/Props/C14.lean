import TSSVerif.Model.BoxConc
import TSSVerif.Props.C15
import TSSVerif.Gen.Stmts
import TSSVerif.Model.StmtsExpected
/-!
# C14 — silent-mode buffer: exactly-once hand-off across the first-send race

`Model/BoxConc.lean`: any number of threads, each any script of receive and send calls on any
topics, interleaved arbitrarily at lock granularity (every schedule = any list of thread indices,
of any length). The model is the code repaired by F19 (`fix: message box decides and stores in one
critical section`).

Proved for **every** set of scripts and **every** schedule: messages are conserved (each is, with
multiplicity, in exactly one place: still to be received, parked in a thread, buffered, handed
over, or shed by a limit), hence never duplicated; once all threads have finished, every message
that was not shed is handed over exactly once if its topic was started, and is still buffered —
with no hand-over — if its topic never started.

Per-sender *order* does **not** hold for every interleaving: an arrival that is forwarded while a
drain of the same topic is in progress overtakes the buffered messages of the same sender
(`order_violated_witness`, reproduced on the real code by the controlled scheduler; recorded as
known finding KF-C14-order). The full statement is kept below as a comment.
-/
set_option linter.unusedSimpArgs false
set_option linter.unusedVariables false
namespace TSSVerif.Props.C14
open TSSVerif.Model.Box TSSVerif.Model.BoxConc TSSVerif.Props.C15

/-! ## where a message can be -/

def cntCalls (m : Msg) (l : List Call) : Nat := l.count (.recv m)

def cntKont (m : Msg) : Kont → Nat
  | .ret => 0
  | .drain _ rest => rest.count m

def one (m' m : Msg) : Nat := if m' = m then 1 else 0

def cntPc (m : Msg) : Pc → Nat
  | .idle => 0
  | .finished => 0
  | .atSend _ => 0
  | .atStore m' k => one m' m + cntKont m k
  | .atFwd m' k => one m' m + cntKont m k
  | .atSendFwd _ msgs => msgs.count m
  | .atDrain _ msgs => msgs.count m

def cntThread (m : Msg) (th : Thread) : Nat := cntPc m th.pc + cntCalls m th.script

def cntPending (m : Msg) (b : Box) : Nat :=
  match b.pending m.topic with
  | some p => p.msgs.count m
  | none => 0

def cntLog (m : Msg) (log : List Ev) : Nat := log.count (.handover m)

/-- how often message `m` exists in the whole system -/
def total (m : Msg) (σ : Sys) : Nat :=
  (σ.threads.map (cntThread m)).sum + cntPending m σ.box + cntLog m σ.log + σ.dropped.count m

theorem count_cons_one (m' m : Msg) (l : List Msg) : (m' :: l).count m = one m' m + l.count m := by
  unfold one
  by_cases e : m' = m
  · subst e; simp; omega
  · have : ¬ (m' == m) = true := by simpa using e
    simp [List.count_cons, this, e]

theorem cnt_startNext (m : Msg) (s : List Call) : cntThread m (startNext s) = cntCalls m s := by
  unfold startNext cntThread cntCalls
  cases s with
  | nil => simp [cntPc]
  | cons c rest =>
    cases c with
    | recv m' =>
      simp only [cntPc, cntKont, one]
      by_cases e : m' = m
      · subst e; simp; omega
      · have : ¬ (Call.recv m' == Call.recv m) = true := by simpa using e
        simp [List.count_cons, this, e]
    | send t =>
      have : ¬ (Call.send t == Call.recv m) = true := by simp
      simp [cntPc, List.count_cons, this]

theorem cnt_resume (m : Msg) (k : Kont) (s : List Call) :
    cntThread m (resume k s) = cntKont m k + cntCalls m s := by
  unfold resume
  cases k with
  | ret => simp [cnt_startNext, cntKont]
  | drain t rest =>
    cases rest with
    | nil => simp [cnt_startNext, cntKont]
    | cons a as => simp [cntThread, cntPc, cntKont]

/-- what one scheduling step does to the places of `m`: nothing is created or destroyed -/
theorem step_conserves (c : Cfg) (b : Box) (th : Thread) (m : Msg) (hw : Wf c b) :
    let o := stepThread c b th
    cntThread m o.thread + cntPending m o.box + cntLog m o.evs + o.dropped.count m =
      cntThread m th + cntPending m b := by
  intro o
  have ho : o = stepThread c b th := rfl
  unfold stepThread at ho
  have hth : ∀ pc, th.pc = pc → cntThread m th = cntPc m pc + cntCalls m th.script := by
    intro pc h; unfold cntThread; rw [h]
  cases hpc : th.pc with
  | idle =>
    simp only [hpc] at ho
    rw [ho]; dsimp only
    rw [cnt_startNext, hth _ hpc]
    simp [cntPc, cntLog]
  | finished =>
    simp only [hpc] at ho
    rw [ho]; dsimp only
    simp [cntLog]
  | atFwd m' k =>
    simp only [hpc] at ho
    rw [ho]; dsimp only
    rw [cnt_resume, hth _ hpc]
    simp only [cntPc, cntLog]
    unfold one
    by_cases e : m' = m
    · subst e; simp; omega
    · have : ¬ (Ev.handover m' == Ev.handover m) = true := by simpa using e
      simp [e, List.count_cons, this]
  | atSendFwd t msgs =>
    simp only [hpc] at ho
    rw [ho]; dsimp only
    rw [cnt_resume, hth _ hpc]
    have : ¬ (Ev.fwdSend t == Ev.handover m) = true := by simp
    simp [cntPc, cntLog, cntKont, List.count_cons, this]
  | atDrain t msgs =>
    simp only [hpc] at ho
    cases msgs with
    | nil =>
      rw [ho]; dsimp only
      rw [cnt_startNext, hth _ hpc]
      simp [cntPc, cntLog]
    | cons m' rest =>
      rw [ho]; dsimp only
      rw [hth _ hpc]
      simp only [cntThread, cntPc, cntKont, cntLog, count_cons_one]
      simp
  | atSend t =>
    simp only [hpc] at ho
    rw [ho]; dsimp only
    rw [hth _ hpc]
    simp only [cntThread, cntPc, cntLog]
    unfold csSend cntPending
    cases hp : b.pending t with
    | none =>
      simp only []
      simp
    | some p =>
      simp only []
      by_cases et : m.topic = t
      · subst et; simp [hp]; omega
      · have hnot : p.msgs.count m = 0 := by
          apply List.count_eq_zero.mpr
          intro hm
          exact et (hw.topic_ok t p hp m hm)
        simp [et, hnot]
  | atStore m' k =>
    simp only [hpc] at ho
    -- the critical section of storeOrForward
    have hcs : ∀ b' r, csStore c b m' = (b', r) →
        (r = .forward → b' = b) ∧
        (r = .dropTopics → b' = b) ∧
        (r = .dropLimit → cntPending m b' = cntPending m b) ∧
        (r = .stored → cntPending m b' = cntPending m b + one m' m) := by
      intro b' r hcs
      unfold csStore at hcs
      split at hcs
      · cases hcs; simp
      · split at hcs
        · cases hcs; simp
        · dsimp only at hcs
          split at hcs
          · cases hcs
            refine ⟨by simp, by simp, ?_, by simp⟩
            intro _
            unfold cntPending
            by_cases et : m.topic = m'.topic
            · simp only [et, if_true]
              cases hp : b.pending m'.topic <;> simp
            · simp [et]
          · cases hcs
            refine ⟨by simp, by simp, by simp, ?_⟩
            intro _
            unfold cntPending
            by_cases et : m.topic = m'.topic
            · simp only [et, if_true]
              cases hp : b.pending m'.topic with
              | none =>
                simp only [Option.getD_none]
                unfold one
                by_cases e : m' = m
                · subst e; simp
                · have : ¬ (m' == m) = true := by simpa using e
                  simp [e, List.count_cons, this]
              | some p =>
                simp only [Option.getD_some, List.count_append]
                unfold one
                by_cases e : m' = m
                · subst e; simp
                · have : ¬ (m' == m) = true := by simpa using e
                  simp [e, List.count_cons, this]
            · have hne : m' ≠ m := fun e => et (by rw [e])
              simp [et, one, hne]
    cases hres : csStore c b m' with
    | mk b' r =>
      obtain ⟨h1, h2, h3, h4⟩ := hcs b' r hres
      rw [hres] at ho
      cases r with
      | forward =>
        simp only [] at ho
        rw [ho]; dsimp only
        rw [hth _ hpc, h1 rfl]
        simp [cntThread, cntPc, cntLog]
      | stored =>
        simp only [] at ho
        rw [ho]; dsimp only
        rw [cnt_resume, hth _ hpc, h4 rfl]
        simp [cntPc, cntLog]; omega
      | dropTopics =>
        simp only [] at ho
        rw [ho]; dsimp only
        rw [cnt_resume, hth _ hpc, h2 rfl]
        simp only [cntPc, cntLog, count_cons_one]
        simp; omega
      | dropLimit =>
        simp only [] at ho
        rw [ho]; dsimp only
        rw [cnt_resume, hth _ hpc, h3 rfl]
        simp only [cntPc, cntLog, count_cons_one]
        simp; omega

theorem stepThread_wf (c : Cfg) (b : Box) (th : Thread) (hw : Wf c b) : Wf c (stepThread c b th).box := by
  unfold stepThread
  cases hpc : th.pc with
  | idle => exact hw
  | finished => exact hw
  | atFwd m' k => exact hw
  | atSendFwd t msgs => exact hw
  | atDrain t msgs => cases msgs <;> exact hw
  | atSend t => exact csSend_wf c b t hw
  | atStore m' k =>
    simp only []
    have := csStore_wf c b m' hw
    cases hres : csStore c b m' with
    | mk b' r =>
      rw [hres] at this
      cases r <;> exact this

theorem sum_set {α : Type} (l : List α) (f : α → Nat) (i : Nat) (x y : α) (h : l[i]? = some y) :
    ((l.set i x).map f).sum + f y = (l.map f).sum + f x := by
  induction l generalizing i with
  | nil => simp at h
  | cons a as ih =>
    cases i with
    | zero => simp at h; subst h; simp; omega
    | succ j =>
      simp at h
      have := ih j h
      simp only [List.set_cons_succ, List.map_cons, List.sum_cons]
      omega

theorem sysStep_conserves (c : Cfg) (σ : Sys) (i : Nat) (m : Msg) (hw : Wf c σ.box) :
    total m (sysStep c σ i) = total m σ ∧ Wf c (sysStep c σ i).box := by
  unfold sysStep
  cases hth : σ.threads[i]? with
  | none => exact ⟨rfl, hw⟩
  | some th =>
    simp only []
    refine ⟨?_, stepThread_wf c σ.box th hw⟩
    have hs := step_conserves c σ.box th m hw
    have hset := sum_set σ.threads (cntThread m) i (stepThread c σ.box th).thread th hth
    unfold total
    simp only [cntLog, List.count_append] at hs ⊢
    omega

theorem run_conserves (c : Cfg) (σ : Sys) (sched : List Nat) (m : Msg) (hw : Wf c σ.box) :
    total m (runSched c σ sched) = total m σ ∧ Wf c (runSched c σ sched).box := by
  induction sched generalizing σ with
  | nil => exact ⟨rfl, hw⟩
  | cons i rest ih =>
    obtain ⟨h1, h2⟩ := sysStep_conserves c σ i m hw
    obtain ⟨h3, h4⟩ := ih (sysStep c σ i) h2
    exact ⟨by simp only [runSched]; rw [h3, h1], by simp only [runSched]; exact h4⟩

/-- how often `m` is received according to the scripts -/
def received (m : Msg) (scripts : List (List Call)) : Nat := (scripts.map (cntCalls m)).sum

theorem total_init (m : Msg) (scripts : List (List Call)) : total m (initSys scripts) = received m scripts := by
  unfold total initSys received cntPending cntLog
  simp only [List.map_map]
  have : (cntThread m ∘ fun s => ({ pc := .idle, script := s } : Thread)) = cntCalls m := by
    funext s; simp [cntThread, cntPc]
  simp [this]

/-- **Conservation, for every set of scripts and every schedule.** -/
theorem conservation (c : Cfg) (scripts : List (List Call)) (sched : List Nat) (m : Msg) :
    total m (runSched c (initSys scripts) sched) = received m scripts := by
  rw [(run_conserves c (initSys scripts) sched m (by exact wf_init c)).1, total_init]

/-- **Never duplicated**: at every moment of every interleaving, a message that is received once is
handed to the dispatcher at most once. -/
theorem no_duplicates (c : Cfg) (scripts : List (List Call)) (sched : List Nat) (m : Msg)
    (hone : received m scripts ≤ 1) :
    cntLog m (runSched c (initSys scripts) sched).log ≤ 1 := by
  have := conservation c scripts sched m
  unfold total at this
  omega

/-- all threads have run to completion -/
def Quiescent (σ : Sys) : Prop := ∀ th ∈ σ.threads, th.pc = .finished ∧ th.script = []

theorem sum_zero (l : List Nat) (h : ∀ x ∈ l, x = 0) : l.sum = 0 := by
  induction l with
  | nil => rfl
  | cons a as ih =>
    simp only [List.sum_cons]
    rw [h a List.mem_cons_self, ih (fun x hx => h x (List.mem_cons_of_mem _ hx))]

theorem quiescent_threads (m : Msg) (σ : Sys) (hq : Quiescent σ) : (σ.threads.map (cntThread m)).sum = 0 := by
  apply sum_zero
  intro x hx
  obtain ⟨th, hth, rfl⟩ := List.mem_map.mp hx
  obtain ⟨h1, h2⟩ := hq th hth
  simp [cntThread, h1, h2, cntPc, cntCalls]

/-- **Exactly once, across the first-send race.** When all threads have finished, whatever the
interleaving was: a message received once and not shed by a limit has been handed to the dispatcher
exactly once if its topic is started … -/
theorem exactly_once_started (c : Cfg) (scripts : List (List Call)) (sched : List Nat) (m : Msg)
    (hone : received m scripts = 1)
    (hq : Quiescent (runSched c (initSys scripts) sched))
    (hnd : (runSched c (initSys scripts) sched).dropped.count m = 0)
    (hst : ((runSched c (initSys scripts) sched).box.started m.topic).isSome = true) :
    cntLog m (runSched c (initSys scripts) sched).log = 1 := by
  have hc := conservation c scripts sched m
  have hw := (run_conserves c (initSys scripts) sched m (by exact wf_init c)).2
  generalize runSched c (initSys scripts) sched = σ at *
  have hp : cntPending m σ.box = 0 := by
    unfold cntPending
    cases hp : σ.box.pending m.topic with
    | none => rfl
    | some p => have := hw.excl m.topic p hp; rw [this] at hst; cases hst
  unfold total at hc
  rw [quiescent_threads m σ hq, hp, hnd] at hc
  omega

/-! … and a message is handed over only if its topic has been started -/

/-- a message parked for forwarding, or already handed over, belongs to a started topic -/
def FwdStarted (σ : Sys) : Prop :=
  (∀ th ∈ σ.threads, ∀ m k, th.pc = .atFwd m k → (σ.box.started m.topic).isSome = true) ∧
  (∀ m, Ev.handover m ∈ σ.log → (σ.box.started m.topic).isSome = true)

theorem started_mono (c : Cfg) (b : Box) (th : Thread) (t : Nat) (h : (b.started t).isSome = true) :
    ((stepThread c b th).box.started t).isSome = true := by
  unfold stepThread
  cases hpc : th.pc with
  | idle => exact h
  | finished => exact h
  | atFwd m' k => exact h
  | atSendFwd t' msgs => exact h
  | atDrain t' msgs => cases msgs <;> exact h
  | atSend t' =>
    simp only [csSend]
    split <;> (simp only []; by_cases e : t = t' <;> simp [e, h])
  | atStore m' k =>
    simp only []
    have : (csStore c b m').1.started = b.started := by
      unfold csStore
      split
      · rfl
      · split
        · rfl
        · dsimp only; split <;> rfl
    cases hres : csStore c b m' with
    | mk b' r =>
      rw [hres] at this
      simp only [] at this
      cases r <;> simp only [] <;> rw [this] <;> exact h

theorem startNext_not_atFwd (s : List Call) (m : Msg) (k : Kont) : (startNext s).pc ≠ .atFwd m k := by
  unfold startNext
  split
  · simp
  · simp
  · simp

theorem resume_not_atFwd (k' : Kont) (s : List Call) (m : Msg) (k : Kont) : (resume k' s).pc ≠ .atFwd m k := by
  unfold resume
  split
  · exact startNext_not_atFwd s m k
  · exact startNext_not_atFwd s m k
  · simp

/-- a thread gets parked for forwarding only by the critical section that saw the topic started -/
theorem step_atFwd (c : Cfg) (b : Box) (th : Thread) (m : Msg) (k : Kont)
    (hnot : th.pc ≠ .atFwd m k) (h : (stepThread c b th).thread.pc = .atFwd m k) :
    ((stepThread c b th).box.started m.topic).isSome = true := by
  unfold stepThread at h ⊢
  split at h
  · exact absurd h (startNext_not_atFwd _ m k)
  · exact absurd h hnot
  · rename_i m' k' hpc
    split at h
    · rename_i b' hres
      simp only [Pc.atFwd.injEq] at h
      obtain ⟨rfl, _⟩ := h
      dsimp only
      unfold csStore at hres
      split at hres
      · rename_i e hst
        cases hres; rw [hst]; rfl
      · split at hres
        · cases hres
        · dsimp only at hres; split at hres <;> cases hres
    · exact absurd h (resume_not_atFwd _ _ m k)
    · exact absurd h (resume_not_atFwd _ _ m k)
  · exact absurd h (resume_not_atFwd _ _ m k)
  · simp at h
  · exact absurd h (resume_not_atFwd _ _ m k)
  · split at h
    · exact absurd h (startNext_not_atFwd _ m k)
    · simp at h

/-- a hand-over is made only by a thread parked for forwarding that very message -/
theorem step_handover (c : Cfg) (b : Box) (th : Thread) (m : Msg)
    (h : Ev.handover m ∈ (stepThread c b th).evs) : ∃ k, th.pc = .atFwd m k := by
  unfold stepThread at h
  split at h
  · simp at h
  · simp at h
  · split at h <;> simp at h
  · rename_i m' k' hpc
    simp only [List.mem_singleton, Ev.handover.injEq] at h
    subst h; exact ⟨k', hpc⟩
  · simp at h
  · simp at h
  · split at h <;> simp at h

theorem fwdStarted_step (c : Cfg) (σ : Sys) (i : Nat) (h : FwdStarted σ) : FwdStarted (sysStep c σ i) := by
  unfold sysStep
  cases hth : σ.threads[i]? with
  | none => exact h
  | some th =>
    simp only []
    have hmem : th ∈ σ.threads := List.mem_of_getElem? hth
    constructor
    · intro th' hth' m k hpc
      rcases List.mem_or_eq_of_mem_set hth' with hold | hnew
      · exact started_mono c σ.box th m.topic (h.1 th' hold m k hpc)
      · subst hnew
        by_cases hwas : th.pc = .atFwd m k
        · exact started_mono c σ.box th m.topic (h.1 th hmem m k hwas)
        · exact step_atFwd c σ.box th m k hwas hpc
    · intro m hm
      rcases List.mem_append.mp hm with hold | hnew
      · exact started_mono c σ.box th m.topic (h.2 m hold)
      · obtain ⟨k, hk⟩ := step_handover c σ.box th m hnew
        exact started_mono c σ.box th m.topic (h.1 th hmem m k hk)

theorem fwdStarted_run (c : Cfg) (σ : Sys) (sched : List Nat) (h : FwdStarted σ) :
    FwdStarted (runSched c σ sched) := by
  induction sched generalizing σ with
  | nil => exact h
  | cons i rest ih => exact ih _ (fwdStarted_step c σ i h)

/-- … and for a topic that was never started nothing is handed over and the message is still
buffered. -/
theorem never_started_still_pending (c : Cfg) (scripts : List (List Call)) (sched : List Nat) (m : Msg)
    (hone : received m scripts = 1)
    (hq : Quiescent (runSched c (initSys scripts) sched))
    (hnd : (runSched c (initSys scripts) sched).dropped.count m = 0)
    (hst : (runSched c (initSys scripts) sched).box.started m.topic = none) :
    cntLog m (runSched c (initSys scripts) sched).log = 0 ∧
    cntPending m (runSched c (initSys scripts) sched).box = 1 := by
  have hc := conservation c scripts sched m
  have hf := fwdStarted_run c (initSys scripts) sched (by
    constructor
    · intro th hth m k hpc
      simp only [initSys, List.mem_map] at hth
      obtain ⟨s, _, rfl⟩ := hth
      cases hpc
    · intro m hm; simp [initSys] at hm)
  generalize runSched c (initSys scripts) sched = σ at *
  have hl : cntLog m σ.log = 0 := by
    unfold cntLog
    apply List.count_eq_zero.mpr
    intro hm
    have := hf.2 m hm
    rw [hst] at this; cases this
  unfold total at hc
  rw [quiescent_threads m σ hq, hl, hnd] at hc
  exact ⟨hl, by omega⟩

/-! ## per-sender order

Full statement (NOT provable, see the witness): *for one receiving thread per sender, the hand-overs
of a sender's messages on a topic occur in their arrival order, for every interleaving.*

Witness: thread 0 receives messages 1 and 2 of sender 1 on topic 0, thread 1 sends on topic 0.
Message 1 is buffered; the send's critical section runs; message 2 now finds the topic started and
is forwarded by its own thread before the send thread has handed over message 1. -/

def witnessScripts : List (List Call) := [[.recv ⟨1, 0, 1⟩, .recv ⟨1, 0, 2⟩], [.send 0]]
def witnessSched : List Nat := [0, 0, 1, 1, 0, 0, 1, 1, 1, 1]
def exCfg : Cfg := { maxTopics := 3, limit := 100, expiry := 4 }

theorem order_violated_witness :
    (runSched exCfg (initSys witnessScripts) witnessSched).log =
      [.handover ⟨1, 0, 2⟩, .fwdSend 0, .handover ⟨1, 0, 1⟩] := by decide

/-- the hypotheses of the exactly-once theorems are met by that very run: both messages are handed
over exactly once although the order is wrong -/
example : Quiescent (runSched exCfg (initSys witnessScripts) witnessSched) := by
  have : (runSched exCfg (initSys witnessScripts) witnessSched).threads.all
      (fun th => th.pc == .finished && th.script == []) = true := by decide
  intro th hth
  have := List.all_eq_true.mp this th hth
  simp at this
  exact this
example : cntLog ⟨1, 0, 1⟩ (runSched exCfg (initSys witnessScripts) witnessSched).log = 1 := by decide


/-- **The source the model was transcribed from is the current source**: the statements of `HandleMessage`, `storeOrForward`, `Send`, `getOrCreateMessagesByTopic`, `markTopicForSender`, `storedMessages.add`, `maybeGC`, `mark`, `sweep`, `startClock`, regenerated from
`/repo` on this run, are the committed ones (logging left out). A change of any of them — harmless or not — fails here
first; the differential and monitored runs of this property are then the search for an input on which it fails. -/
theorem source_as_modelled : TSSVerif.Gen.Stmts.box = TSSVerif.Model.StmtsExpected.box := by
  decide +kernel

end TSSVerif.Props.C14
