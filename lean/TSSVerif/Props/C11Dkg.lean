import TSSVerif.Props.C05
import Batteries.Data.List.Perm
/-!
# C11 on the data-level key-generation model

`Props/C11.lean` proves cancellation and panic freedom on the count projection `Model/Ctl.lean`, which is tied to the
code by fault-point enumeration. The same facts are proved here directly on `Model/Dkg.lean`, the model that the
lockstep harness (`dkgstep`) compares with the real `KeyGen` goroutines step by step: after the context ended the next
wake-up returns (an error unless everything had arrived), a returned call stays returned, and — in a session whose
traffic comes from its members only (what the orchestrator guarantees: C03 `outsiders_inert`) — no event sequence
reaches a panic.
-/
set_option linter.unusedSimpArgs false
set_option linter.unusedVariables false
namespace TSSVerif.Props.C11Dkg
open TSSVerif.Model TSSVerif.Model.Dkg TSSVerif.Props.C05

def waiting (p : P) : Prop := p.phase = .shares ∨ p.phase = .commits ∨ p.phase = .reveals

theorem finish_not_waiting (p : P) (env : Env) : ¬ waiting (finish p env).1 := by
  unfold finish waiting
  split
  · simp
  · simp
  · split <;> simp

theorem revealsStep_cancelled (p : P) (env : Env) (hc : p.ctxDone = true) : ¬ waiting (revealsStep p env).1 := by
  unfold revealsStep
  split
  · exact finish_not_waiting p env
  · simp [waiting, hc]

theorem commitsStep_cancelled (p : P) (env : Env) (hc : p.ctxDone = true) : ¬ waiting (commitsStep p env).1 := by
  unfold commitsStep
  split
  · exact revealsStep_cancelled p env hc
  · simp [waiting, hc]

/-- **After the context ended, the next wake-up returns** (or the call had already returned): it never goes back to
waiting, whichever loop it was in and whatever had arrived. -/
theorem cancelled_wake_returns (p : P) (env : Env) (hc : p.ctxDone = true) : ¬ waiting (p.wake env).1 := by
  unfold P.wake
  split
  · unfold sharesStep
    split
    · split
      · exact commitsStep_cancelled _ env hc
      · simp [waiting]
    · simp [waiting, hc]
  · exact commitsStep_cancelled p env hc
  · exact revealsStep_cancelled p env hc
  · rename_i ok h; simp [waiting, h]
  · rename_i h; simp [waiting, h]

/-- a call that returned (or died) never does anything again: its phase is absorbing under every event -/
theorem returned_absorbing (p : P) (env : Env) (e : Ev) (h : ¬ waiting p) :
    (p.step env e).1.phase = p.phase ∧ (p.step env e).2 = [] := by
  cases e with
  | msg src m =>
    cases m <;> simp only [P.step, P.onMsg]
    · split <;> simp
    · simp
    · split <;> simp
    · simp
  | ctx => exact ⟨rfl, rfl⟩
  | wake =>
    simp only [P.step, P.wake]
    cases hp : p.phase with
    | shares => exact absurd (Or.inl hp) h
    | commits => exact absurd (Or.inr (Or.inl hp)) h
    | reveals => exact absurd (Or.inr (Or.inr hp)) h
    | returned ok => simp [hp]
    | panicked => simp [hp]

/-- the result after a cancellation is an error unless every check passed on complete tables -/
theorem cancelled_result (p : P) (env : Env) (hc : p.ctxDone = true) (hw : waiting p)
    (h : (p.wake env).1.phase = .returned true) : Completed (p.wake env).1 env := by
  apply wake_ok h
  rcases hw with hp | hp | hp <;> rw [hp] <;> simp

/-! ## no panic among members -/

/-- tables hold at most one entry per sender, only for other members of the session -/
structure Core (p : P) : Prop where
  parties_nodup : p.parties.Nodup
  self_mem : p.self ∈ p.parties
  shares_nodup : (p.shares.map (·.1)).Nodup
  shares_mem : ∀ k ∈ p.shares.map (·.1), k ∈ others p
  commits_nodup : (p.commits.map (·.1)).Nodup
  commits_mem : ∀ k ∈ p.commits.map (·.1), k ∈ others p
  reveals_nodup : (p.reveals.map (·.1)).Nodup
  reveals_mem : ∀ k ∈ p.reveals.map (·.1), k ∈ p.parties

/-- … and the own key enters the key table only when the first loop is left -/
structure Members (p : P) : Prop extends Core p where
  own_late : p.phase = .shares → p.self ∉ p.reveals.map (·.1)
  commits_full : p.phase = .reveals → p.commits.length = p.parties.length - 1

theorem others_length (p : P) (h1 : p.parties.Nodup) (h2 : p.self ∈ p.parties) : (others p).length = p.parties.length - 1 := by
  unfold others
  have : (p.parties.filter (· ≠ p.self)) = p.parties.erase p.self := by
    rw [List.Nodup.erase_eq_filter h1]
    congr 1
    funext x
    by_cases h : x = p.self <;> simp [h]
  rw [this, List.length_erase_of_mem h2]

theorem has_of_mem_keys {t : Tab} {k : Id} (h : k ∈ t.map (·.1)) : t.has k = true := by
  unfold Tab.has
  rw [List.any_eq_true]
  obtain ⟨e, he, rfl⟩ := List.mem_map.mp h
  exact ⟨e, he, by simp⟩

theorem keys_put (t : Tab) (k : Id) (v : Bytes) : (t.put k v).map (·.1) = if t.has k then t.map (·.1) else t.map (·.1) ++ [k] := by
  unfold Tab.put
  split <;> simp

/-- a duplicate-free table over the other members with `n − 1` entries has an entry for every other member -/
theorem full_table {p : P} (hn : p.parties.Nodup) (hs : p.self ∈ p.parties) (t : Tab) (h1 : (t.map (·.1)).Nodup)
    (h2 : ∀ k ∈ t.map (·.1), k ∈ others p) (hl : t.length = p.parties.length - 1) : ∀ k ∈ others p, t.has k = true := by
  have hsub := List.subperm_of_subset h1 h2
  have hlen : (others p).length ≤ (t.map (·.1)).length := by
    rw [others_length p hn hs, List.length_map, hl]
    exact Nat.le_refl _
  have hp := hsub.perm_of_length_le hlen
  intro k hk
  exact has_of_mem_keys ((hp.mem_iff).mpr hk)

theorem mem_others {p : P} {k : Id} : k ∈ others p ↔ k ∈ p.parties ∧ k ≠ p.self := by
  unfold others
  simp [List.mem_filter]

theorem nodup_keys_put (t : Tab) (k : Id) (v : Bytes) (h : (t.map (·.1)).Nodup) : ((t.put k v).map (·.1)).Nodup :=
  keys_nodup_put t k v h

theorem mem_keys_put {t : Tab} {k k' : Id} {v : Bytes} (h : k' ∈ (t.put k v).map (·.1)) : k' = k ∨ k' ∈ t.map (·.1) := by
  rw [keys_put] at h
  split at h
  · exact Or.inr h
  · rcases List.mem_append.mp h with h | h
    · exact Or.inr h
    · simp at h; exact Or.inl h

theorem members_onMsg {p : P} (h : Members p) {src : Id} (hsrc : src ∈ others p) (m : Msg) : Members (p.onMsg src m) := by
  have hs := mem_others.mp hsrc
  cases m with
  | share v wf =>
    simp only [P.onMsg]
    split
    · exact { h with
        shares_nodup := nodup_keys_put _ _ _ h.shares_nodup
        shares_mem := fun k hk => by
          rcases mem_keys_put hk with rfl | hk
          · exact hsrc
          · exact h.shares_mem k hk }
    · exact h
  | commit c =>
    simp only [P.onMsg]
    exact { h with
      commits_nodup := nodup_keys_put _ _ _ h.commits_nodup
      commits_mem := fun k hk => by
        rcases mem_keys_put hk with rfl | hk
        · exact hsrc
        · exact h.commits_mem k hk
      commits_full := fun hp => by
        have hl := h.commits_full hp
        have hfull := full_table h.parties_nodup h.self_mem p.commits h.commits_nodup h.commits_mem hl
        show (p.commits.put src c).length = _
        unfold Tab.put
        rw [if_pos (hfull src hsrc)]
        exact hl }
  | reveal pk wf =>
    simp only [P.onMsg]
    split
    · exact { h with
        reveals_nodup := nodup_keys_put _ _ _ h.reveals_nodup
        reveals_mem := fun k hk => by
          rcases mem_keys_put hk with rfl | hk
          · exact hs.1
          · exact h.reveals_mem k hk
        own_late := fun hp hmem => by
          rcases mem_keys_put hmem with e | hmem
          · exact hs.2 e.symm
          · exact h.own_late hp hmem }
    · exact h
  | junk => exact h

/-- the fold of `validateCommitments` never hits a missing commitment when every key's sender has one -/
theorem validate_fold_some (commits : Tab) (hash : Bytes → Bytes) :
    ∀ (l : Tab) (acc : Option Bool), acc ≠ none → (∀ e ∈ l, commits.has e.1 = true) →
      l.foldl (fun acc e => match acc with
        | none => none
        | some false => some false
        | some true =>
          match commits.get e.1 with
          | none => none
          | some c => some (decide (hash e.2 = c))) acc ≠ none
  | [], acc, h, _ => h
  | e :: l, acc, h, hall => by
    rw [List.foldl_cons]
    apply validate_fold_some commits hash l _ _ (fun e' he' => hall e' (List.mem_cons_of_mem _ he'))
    cases acc with
    | none => exact absurd rfl h
    | some b =>
      cases b with
      | false => simp
      | true =>
        obtain ⟨c, hc⟩ := has_get (hall e List.mem_cons_self)
        simp [hc]

theorem finish_no_panic {p : P} (env : Env) (h : Core p) (hc : p.commits.length = p.parties.length - 1)
    (hr : p.reveals.length = p.parties.length) : Out.panic ∉ (finish p env).2 ∧ (finish p env).1.phase ≠ .panicked := by
  have hfull := full_table h.parties_nodup h.self_mem p.commits h.commits_nodup h.commits_mem hc
  have hv : validate p env ≠ none := by
    unfold validate
    apply validate_fold_some p.commits env.hash _ _ (by simp)
    intro e he
    have he' := List.mem_filter.mp he
    have hk : e.1 ∈ p.parties := h.reveals_mem e.1 (List.mem_map.mpr ⟨e, he'.1, rfl⟩)
    have hne : e.1 ≠ p.self := by simpa using he'.2
    exact hfull e.1 (mem_others.mpr ⟨hk, hne⟩)
  have hall : p.parties.all (fun k => p.reveals.has k) = true := by
    -- a duplicate-free table over the parties with n entries has an entry for every party
    have hsub := List.subperm_of_subset h.reveals_nodup h.reveals_mem
    have hlen : p.parties.length ≤ (p.reveals.map (·.1)).length := by rw [List.length_map, hr]; exact Nat.le_refl _
    have hp := hsub.perm_of_length_le hlen
    rw [List.all_eq_true]
    intro k hk
    exact has_of_mem_keys ((hp.mem_iff).mpr hk)
  unfold finish
  split
  · rename_i hn; exact absurd hn hv
  · simp
  · rw [if_pos hall]
    simp

theorem core_congr {p q : P} (h : Core p) (e1 : q.self = p.self) (e2 : q.parties = p.parties) (e3 : q.shares = p.shares)
    (e4 : q.commits = p.commits) (e5 : q.reveals = p.reveals) : Core q := by
  refine ⟨by rw [e2]; exact h.parties_nodup, by rw [e1, e2]; exact h.self_mem, by rw [e3]; exact h.shares_nodup, ?_,
    by rw [e4]; exact h.commits_nodup, ?_, by rw [e5]; exact h.reveals_nodup, by rw [e5, e2]; exact h.reveals_mem⟩
  · intro k hk
    rw [e3] at hk
    have := h.shares_mem k hk
    unfold others at this ⊢
    rw [e1, e2]; exact this
  · intro k hk
    rw [e4] at hk
    have := h.commits_mem k hk
    unfold others at this ⊢
    rw [e1, e2]; exact this

theorem members_of_core {q : P} (h : Core q) (hq : q.phase ≠ .shares)
    (hf : q.phase = .reveals → q.commits.length = q.parties.length - 1) : Members q :=
  { h with own_late := fun e => absurd e hq, commits_full := hf }

theorem finish_keeps (p : P) (env : Env) : (finish p env).1.self = p.self ∧ (finish p env).1.parties = p.parties ∧
    (finish p env).1.shares = p.shares ∧ (finish p env).1.commits = p.commits ∧ (finish p env).1.reveals = p.reveals ∧
    (finish p env).1.phase ≠ .shares := by
  unfold finish
  split
  · exact ⟨rfl, rfl, rfl, rfl, rfl, by simp⟩
  · exact ⟨rfl, rfl, rfl, rfl, rfl, by simp⟩
  · split <;> exact ⟨rfl, rfl, rfl, rfl, rfl, by simp⟩

/-- what the last two loops leave behind: the table invariant, never the first loop again, and the last loop only
with all commitments -/
def After (q : P) : Prop :=
  Core q ∧ q.phase ≠ .shares ∧ (q.phase = .reveals → q.commits.length = q.parties.length - 1)

theorem After.members {q : P} (h : After q) : Members q := members_of_core h.1 h.2.1 h.2.2

/-- the last two loops: no panic, membership kept, never back to the first loop -/
theorem revealsStep_ok {p : P} (env : Env) (h : Core p) (hc : p.commits.length = p.parties.length - 1) :
    Out.panic ∉ (revealsStep p env).2 ∧ (revealsStep p env).1.phase ≠ .panicked ∧ After (revealsStep p env).1 := by
  unfold revealsStep
  split
  · rename_i hr
    obtain ⟨f1, f2⟩ := finish_no_panic env h hc hr
    obtain ⟨e1, e2, e3, e4, e5, e6⟩ := finish_keeps p env
    have hw := finish_not_waiting p env
    exact ⟨f1, f2, core_congr h e1 e2 e3 e4 e5, e6, fun e => absurd (Or.inr (Or.inr e)) hw⟩
  · split
    · exact ⟨by simp, by simp, core_congr h rfl rfl rfl rfl rfl, by simp, by simp⟩
    · exact ⟨by simp, by simp, core_congr h rfl rfl rfl rfl rfl, by simp, fun _ => hc⟩

theorem commitsStep_ok {p : P} (env : Env) (h : Core p) :
    Out.panic ∉ (commitsStep p env).2 ∧ (commitsStep p env).1.phase ≠ .panicked ∧ After (commitsStep p env).1 := by
  unfold commitsStep
  split
  · rename_i hc
    obtain ⟨r1, r2, r3⟩ := revealsStep_ok env h hc
    refine ⟨?_, r2, r3⟩
    simp only [List.mem_cons]
    rintro (e | e)
    · cases e
    · exact r1 e
  · split
    · exact ⟨by simp, by simp, core_congr h rfl rfl rfl rfl rfl, by simp, by simp⟩
    · exact ⟨by simp, by simp, core_congr h rfl rfl rfl rfl rfl, by simp, by simp⟩

/-- **No wake-up panics in a session whose traffic comes from its members**, and the membership invariant is kept. -/
theorem wake_ok_members {p : P} (env : Env) (h : Members p) (hp : p.phase ≠ .panicked) :
    Out.panic ∉ (p.wake env).2 ∧ (p.wake env).1.phase ≠ .panicked ∧ Members (p.wake env).1 := by
  unfold P.wake
  split
  · rename_i hph
    unfold sharesStep
    split
    · rename_i hl
      have hfull := full_table h.parties_nodup h.self_mem p.shares h.shares_nodup h.shares_mem hl
      have hall : (others p).all (fun k => p.shares.has k) = true := by
        rw [List.all_eq_true]; intro k hk; exact hfull k hk
      rw [if_pos hall]
      -- the own key enters the table
      have h1 : Core { p with reveals := p.reveals.put p.self env.ownPk } := by
        refine ⟨h.parties_nodup, h.self_mem, h.shares_nodup, h.shares_mem, h.commits_nodup, h.commits_mem,
          nodup_keys_put _ _ _ h.reveals_nodup, ?_⟩
        intro k hk
        rcases mem_keys_put hk with rfl | hk
        · exact h.self_mem
        · exact h.reveals_mem k hk
      obtain ⟨c1, c2, c3⟩ := commitsStep_ok env h1
      refine ⟨?_, c2, c3.members⟩
      simp only [List.mem_cons]
      rintro (e | e)
      · cases e
      · exact c1 e
    · split
      · exact ⟨by simp, by simp, members_of_core (core_congr h.toCore rfl rfl rfl rfl rfl) (by simp) (by simp)⟩
      · exact ⟨by simp, hp, h⟩
  · rename_i hph
    obtain ⟨c1, c2, c3⟩ := commitsStep_ok env h.toCore
    exact ⟨c1, c2, c3.members⟩
  · rename_i hph
    obtain ⟨r1, r2, r3⟩ := revealsStep_ok env h.toCore (h.commits_full hph)
    exact ⟨r1, r2, r3.members⟩
  · exact ⟨by simp, hp, h⟩
  · exact ⟨by simp, hp, h⟩

theorem revealsStep_keeps (p : P) (env : Env) :
    (revealsStep p env).1.self = p.self ∧ (revealsStep p env).1.parties = p.parties := by
  unfold revealsStep
  split
  · exact ⟨(finish_keeps p env).1, (finish_keeps p env).2.1⟩
  · split <;> exact ⟨rfl, rfl⟩

theorem commitsStep_keeps (p : P) (env : Env) :
    (commitsStep p env).1.self = p.self ∧ (commitsStep p env).1.parties = p.parties := by
  unfold commitsStep
  split
  · exact revealsStep_keeps p env
  · split <;> exact ⟨rfl, rfl⟩

theorem wake_keeps (p : P) (env : Env) : (p.wake env).1.self = p.self ∧ (p.wake env).1.parties = p.parties := by
  unfold P.wake
  split
  · unfold sharesStep
    split
    · split
      · exact commitsStep_keeps _ env
      · exact ⟨rfl, rfl⟩
    · split <;> exact ⟨rfl, rfl⟩
  · exact commitsStep_keeps p env
  · exact revealsStep_keeps p env
  · exact ⟨rfl, rfl⟩
  · exact ⟨rfl, rfl⟩

theorem onMsg_keeps (p : P) (src : Id) (m : Msg) :
    (p.onMsg src m).phase = p.phase ∧ (p.onMsg src m).self = p.self ∧ (p.onMsg src m).parties = p.parties := by
  cases m <;> simp only [P.onMsg] <;> (try split) <;> simp

/-- the events of a session in which every message is attributed to another member -/
def FromMembers (p : P) : List Ev → Prop
  | [] => True
  | .msg src _ :: rest => (src ∈ p.parties ∧ src ≠ p.self) ∧ FromMembers p rest
  | _ :: rest => FromMembers p rest

/-- one event of a session whose messages come from members: no panic, invariant kept -/
theorem step_ok_members {p : P} (env : Env) (h : Members p) (hp : p.phase ≠ .panicked) (e : Ev)
    (hsrc : ∀ src m, e = .msg src m → src ∈ p.parties ∧ src ≠ p.self) :
    Out.panic ∉ (p.step env e).2 ∧ (p.step env e).1.phase ≠ .panicked ∧ Members (p.step env e).1 ∧
    (p.step env e).1.self = p.self ∧ (p.step env e).1.parties = p.parties := by
  cases e with
  | msg src m =>
    obtain ⟨k1, k2, k3⟩ := onMsg_keeps p src m
    simp only [P.step]
    exact ⟨by simp, by rw [k1]; exact hp, members_onMsg h (mem_others.mpr (hsrc src m rfl)) m, k2, k3⟩
  | ctx =>
    simp only [P.step]
    refine ⟨by simp, hp, ?_, by trivial, by trivial⟩
    exact { core_congr h.toCore rfl rfl rfl rfl rfl with own_late := h.own_late, commits_full := h.commits_full }
  | wake =>
    simp only [P.step]
    obtain ⟨w1, w2, w3⟩ := wake_ok_members env h hp
    refine ⟨w1, w2, w3, ?_, ?_⟩
    · exact (wake_keeps p env).1
    · exact (wake_keeps p env).2

/-- **No event sequence with member-attributed traffic reaches a panic** — whatever the order, the repetitions, the
payloads, the moment the context ends and the number of wake-ups. -/
theorem run_no_panic_members (env : Env) : ∀ (evs : List Ev) (p : P), Members p → p.phase ≠ .panicked → FromMembers p evs →
    Out.panic ∉ (p.run env evs).2 ∧ (p.run env evs).1.phase ≠ .panicked
  | [], p, _, hp, _ => ⟨by simp [P.run], by simpa [P.run] using hp⟩
  | e :: rest, p, h, hp, hf => by
    have hsrc : ∀ src m, e = .msg src m → src ∈ p.parties ∧ src ≠ p.self := by
      intro src m he; subst he; exact hf.1
    have hrest : FromMembers p rest := by
      cases e <;> first | exact hf.2 | exact hf
    obtain ⟨s1, s2, s3, s4, s5⟩ := step_ok_members env h hp e hsrc
    have hrest' : FromMembers (p.step env e).1 rest := by
      have : ∀ (l : List Ev) (q : P), q.self = p.self → q.parties = p.parties → FromMembers p l → FromMembers q l := by
        intro l
        induction l with
        | nil => intros; trivial
        | cons x l ih =>
          intro q e1 e2 hl
          cases x with
          | msg src m => exact ⟨by rw [e1, e2]; exact hl.1, ih q e1 e2 hl.2⟩
          | ctx => exact ih q e1 e2 hl
          | wake => exact ih q e1 e2 hl
      exact this rest _ s4 s5 hrest
    obtain ⟨r1, r2⟩ := run_no_panic_members env rest _ s3 s2 hrest'
    simp only [P.run]
    refine ⟨?_, r2⟩
    rw [List.mem_append]
    rintro (x | x)
    · exact s1 x
    · exact r1 x

/-- a fresh party of a duplicate-free membership that contains it satisfies the invariant (non-vacuity of the above) -/
theorem fresh_members (self : Id) (parties : List Id) (h1 : parties.Nodup) (h2 : self ∈ parties) :
    Members { self := self, parties := parties } :=
  { parties_nodup := h1, self_mem := h2, shares_nodup := by simp, shares_mem := by simp, commits_nodup := by simp,
    commits_mem := by simp, reveals_nodup := by simp, reveals_mem := by simp, own_late := by simp,
    commits_full := by simp }

/-! ## the hypotheses are met, and needed -/

def exEnv : Env := { ownPk := [9], hash := fun b => 0 :: b, subsetsAgree := fun _ => true }

def exP : P := { self := 1, parties := [1, 2, 3] }
def evsGood : List Ev := [.msg 2 (.share [1] true), .msg 3 (.share [2] true), .wake, .msg 3 (.commit [0, 7]),
  .msg 2 (.commit [0, 5]), .wake, .msg 2 (.reveal [5] true), .msg 3 (.reveal [7] true), .wake]
def evsBad : List Ev := [.msg 2 (.share [1] true), .msg 3 (.share [2] true), .wake, .msg 3 (.commit [0, 7]),
  .msg 2 (.commit [0, 5]), .wake, .msg 2 (.reveal [5] true), .msg 4 (.reveal [7] true), .wake]

/-- a complete three-party run from members only: returns success, no panic -/
example : FromMembers exP evsGood ∧ Members exP := by
  refine ⟨by simp [FromMembers, evsGood, exP], fresh_members 1 [1, 2, 3] (by decide) (by decide)⟩
example : (exP.run exEnv evsGood).1.phase = .returned true ∧ (exP.run exEnv evsGood).2.contains .panic = false := by
  decide

/-- the member hypothesis is needed: a key attributed to an identity outside the membership (which never sent a
commitment) drives `validateCommitments` into its "programming error" panic — what the orchestrator's member filter
(C03 `outsiders_inert`) keeps away from the backend -/
theorem outsider_key_panics : ¬ FromMembers exP evsBad ∧ (exP.run exEnv evsBad).2.contains .panic = true := by
  refine ⟨by simp [FromMembers, evsBad, exP], by decide⟩

end TSSVerif.Props.C11Dkg
