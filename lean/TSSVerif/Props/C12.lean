import TSSVerif.Model.Orch
import TSSVerif.Gen.Stmts
import TSSVerif.Model.StmtsExpected
/-!
# C12 — sessions leave no residue and do not interfere with one another

`Model/Orch.lean`: the three handler tables and `dkgRunning`, sessions as a caller thread plus a
callback thread whose table actions interleave arbitrarily — with each other and with the actions of
any number of other sessions.
-/
set_option linter.unusedSimpArgs false
set_option linter.unusedVariables false
namespace TSSVerif.Props.C12
open TSSVerif.Model.Orch

/-! ## what one action can touch -/

theorem frame_tables (σ : St) (a : Act) (k : Key) (hk : k ≠ a.key) :
    (apply σ a).t.sync k = σ.t.sync k ∧ (apply σ a).t.rbc k = σ.t.rbc k ∧ (apply σ a).t.cls k = σ.t.cls k := by
  cases a <;> simp only [apply, Act.key] at hk ⊢ <;> (try split) <;> (try split) <;> simp [upd, hk]

theorem frame_session (σ : St) (a : Act) (s : Sid) (hs : s ≠ a.sid) :
    (apply σ a).active s = σ.active s ∧ (apply σ a).admitted s = σ.admitted s := by
  cases a <;> simp only [apply, Act.sid] at hs ⊢ <;> (try split) <;> (try split) <;> simp [setB, hs]

/-! ## a signing session on its own: every interleaving of its two threads -/

/-- the complete schedules of one signing session: the caller enters and exits; the callback runs
after the entry and performs a prefix of [prepare, register second synchroniser, unregister it]
(once registered, the second synchroniser is always unregistered: by the deferred call or by the
error path); the exit may fall anywhere between the callback's actions — before them (late
callback), in the middle, or after them. -/
def signSchedules (s : Sid) (k1 k2 : Key) : List (List Act) :=
  let en := Act.signEnter s k1
  let ex := Act.signExit s k1
  let p := Act.signPrepare s k1
  let r := Act.regSync2 s k2
  let u := Act.unregSync2 s k2
  [ [en, ex],
    [en, ex, p], [en, p, ex],
    [en, ex, p, r, u], [en, p, ex, r, u], [en, p, r, ex, u], [en, p, r, u, ex] ]

/-- the session's keys hold nothing -/
def Clear (t : Tables) (k1 k2 : Key) : Prop :=
  t.sync k1 = none ∧ t.rbc k1 = none ∧ t.cls k1 = none ∧ t.sync k2 = none

/-- **No residue (signing).** Whatever the outcome — success, backend error, failed
synchronisation, expired context at any intermediate point, a callback that is still running when
the caller returns — once the caller has returned and the callback has ended, the tables hold
nothing under the session's keys, exactly as before the call. -/
theorem sign_no_residue (σ : St) (s : Sid) (k1 k2 : Key) (hne : k1 ≠ k2)
    (h0 : Clear σ.t k1 k2) (sch : List Act) (hsch : sch ∈ signSchedules s k1 k2) :
    Clear (run σ sch).t k1 k2 ∧ (run σ sch).active s = false := by
  obtain ⟨h1, h2, h3, h4⟩ := h0
  have hne' : k2 ≠ k1 := fun e => hne e.symm
  simp only [signSchedules, List.mem_cons, List.mem_nil_iff, or_false] at hsch
  rcases hsch with rfl | rfl | rfl | rfl | rfl | rfl | rfl <;>
    simp [run, apply, Clear, upd, setB, h1, h2, h3, h4, hne, hne']

/-- **Re-admission**: after the session is over, a new `Sign` on the same topic is admitted. -/
theorem readmission (σ : St) (s s' : Sid) (k1 k2 : Key) (hne : k1 ≠ k2) (h0 : Clear σ.t k1 k2)
    (sch : List Act) (hsch : sch ∈ signSchedules s k1 k2) :
    (apply (run σ sch) (.signEnter s' k1)).admitted s' = true := by
  have := (sign_no_residue σ s k1 k2 hne h0 sch hsch).1.1
  simp [apply, this, setB]

/-- **A second concurrent session on the same topic is refused**, and changes nothing. -/
theorem duplicate_refused (σ : St) (s x : Sid) (k1 : Key) (h : σ.t.sync k1 = some x) :
    apply σ (.signEnter s k1) = σ := by
  simp [apply, h]

theorem second_keygen_refused (σ : St) (s : Sid) (kd : Key) (h : σ.t.dkgRunning = true) :
    apply σ (.dkgEnter s kd) = σ := by
  simp [apply, h]

/-- **Late traffic is inert**: a message for a topic under which nothing is registered reaches no
session. -/
theorem late_traffic_inert (t : Tables) (k : Key) (h : t.sync k = none ∧ t.rbc k = none) :
    dispatchSync t k = none ∧ dispatchMPC t k = none := by
  simp [dispatchSync, dispatchMPC, h.1, h.2]

/-! ## key generation on its own -/

def dkgSchedules (s : Sid) (kd km : Key) : List (List Act) :=
  let en := Act.dkgEnter s kd
  let ex := Act.dkgExit s kd
  let r := Act.dkgRegRbc s kd
  let m := Act.dkgRegSync s km
  let u := Act.dkgUnregSync s km
  [ [en, ex],
    [en, ex, r], [en, r, ex],
    [en, ex, r, m, u], [en, r, ex, m, u], [en, r, m, ex, u], [en, r, m, u, ex] ]

theorem dkg_no_residue (σ : St) (s : Sid) (kd km : Key) (hne : kd ≠ km)
    (h0 : Clear σ.t kd km) (hrun : σ.t.dkgRunning = false) (sch : List Act) (hsch : sch ∈ dkgSchedules s kd km) :
    Clear (run σ sch).t kd km ∧ (run σ sch).t.dkgRunning = false := by
  obtain ⟨h1, h2, h3, h4⟩ := h0
  have hne' : km ≠ kd := fun e => hne e.symm
  simp only [dkgSchedules, List.mem_cons, List.mem_nil_iff, or_false] at hsch
  rcases hsch with rfl | rfl | rfl | rfl | rfl | rfl | rfl <;>
    simp [run, apply, Clear, upd, setB, h1, h2, h3, h4, hne, hne', hrun]

/-! ## non-interference -/

def isSignAct : Act → Bool
  | .signEnter _ _ | .signPrepare _ _ | .regSync2 _ _ | .unregSync2 _ _ | .signExit _ _ => true
  | _ => false

/-- two states look the same to session `s` with key set `K` -/
def Agree (K : List Key) (s : Sid) (σ σ' : St) : Prop :=
  (∀ k ∈ K, σ.t.sync k = σ'.t.sync k ∧ σ.t.rbc k = σ'.t.rbc k ∧ σ.t.cls k = σ'.t.cls k) ∧
  σ.active s = σ'.active s ∧ σ.admitted s = σ'.admitted s

theorem upd_agree (f f' : Key → Option Sid) (j k : Key) (v : Option Sid) (h : f k = f' k) :
    upd f j v k = upd f' j v k := by
  unfold upd; split <;> simp [h]

theorem own_step (K : List Key) (s : Sid) (σ σ' : St) (a : Act) (ha : a.sid = s) (hk : a.key ∈ K)
    (hsign : isSignAct a = true) (h : Agree K s σ σ') : Agree K s (apply σ a) (apply σ' a) := by
  obtain ⟨ht, hact, hadm⟩ := h
  have hkey := ht a.key hk
  cases a with
  | signEnter s0 k1 =>
    simp only [Act.sid] at ha; subst ha
    simp only [Act.key] at hkey
    simp only [apply]
    rw [← hkey.1]
    cases hs : σ.t.sync k1 with
    | some x => exact ⟨ht, hact, hadm⟩
    | none =>
      refine ⟨?_, by simp [setB], by simp [setB]⟩
      intro k hkK
      obtain ⟨a1, a2, a3⟩ := ht k hkK
      exact ⟨upd_agree _ _ _ _ _ a1, a2, a3⟩
  | signPrepare s0 k1 =>
    simp only [Act.sid] at ha; subst ha
    simp only [apply]
    rw [← hact]
    cases hs : σ.active s0 with
    | false => exact ⟨ht, hact, hadm⟩
    | true =>
      refine ⟨?_, hact, hadm⟩
      intro k hkK
      obtain ⟨a1, a2, a3⟩ := ht k hkK
      exact ⟨a1, upd_agree _ _ _ _ _ a2, upd_agree _ _ _ _ _ a3⟩
  | regSync2 s0 k2 =>
    simp only [Act.sid] at ha; subst ha
    simp only [apply]
    rw [← hact]
    cases hs : σ.active s0 with
    | false => exact ⟨ht, hact, hadm⟩
    | true =>
      refine ⟨?_, hact, hadm⟩
      intro k hkK
      obtain ⟨a1, a2, a3⟩ := ht k hkK
      exact ⟨upd_agree _ _ _ _ _ a1, a2, a3⟩
  | unregSync2 s0 k2 =>
    simp only [apply]
    refine ⟨?_, hact, hadm⟩
    intro k hkK
    obtain ⟨a1, a2, a3⟩ := ht k hkK
    exact ⟨upd_agree _ _ _ _ _ a1, a2, a3⟩
  | signExit s0 k1 =>
    simp only [Act.sid] at ha; subst ha
    simp only [apply]
    rw [← hadm]
    cases hs : σ.admitted s0 with
    | false => exact ⟨ht, hact, hadm⟩
    | true =>
      refine ⟨?_, by simp [setB], hadm⟩
      intro k hkK
      obtain ⟨a1, a2, a3⟩ := ht k hkK
      exact ⟨upd_agree _ _ _ _ _ a1, upd_agree _ _ _ _ _ a2, upd_agree _ _ _ _ _ a3⟩
  | dkgEnter _ _ => simp [isSignAct] at hsign
  | dkgRegRbc _ _ => simp [isSignAct] at hsign
  | dkgRegSync _ _ => simp [isSignAct] at hsign
  | dkgUnregSync _ _ => simp [isSignAct] at hsign
  | dkgExit _ _ => simp [isSignAct] at hsign

theorem other_step (K : List Key) (s : Sid) (σ σ' : St) (a : Act) (ha : a.sid ≠ s) (hk : a.key ∉ K)
    (h : Agree K s σ σ') : Agree K s (apply σ a) σ' := by
  obtain ⟨ht, hact, hadm⟩ := h
  refine ⟨?_, ?_, ?_⟩
  · intro k hkK
    have hne : k ≠ a.key := fun e => hk (e ▸ hkK)
    obtain ⟨f1, f2, f3⟩ := frame_tables σ a k hne
    rw [f1, f2, f3]; exact ht k hkK
  · rw [(frame_session σ a s (fun e => ha e.symm)).1]; exact hact
  · rw [(frame_session σ a s (fun e => ha e.symm)).2]; exact hadm

/-- **Non-interference.** Take any global interleaving `acts` of any number of sessions. If every
action of *another* session uses a key outside the key set `K` of signing session `s` (distinct
topics give disjoint derived key sets, except by hash collision and except for the constructed pair
of the witness below), then as far as `s`'s keys and `s`'s own state are concerned, the run is
indistinguishable from the run in which the other sessions do not exist. -/
theorem noninterference (K : List Key) (s : Sid) (acts : List Act)
    (hown : ∀ a ∈ acts, a.sid = s → a.key ∈ K ∧ isSignAct a = true)
    (hothers : ∀ a ∈ acts, a.sid ≠ s → a.key ∉ K) (σ σ' : St) (h : Agree K s σ σ') :
    Agree K s (run σ acts) (run σ' (acts.filter (fun a => a.sid == s))) := by
  induction acts generalizing σ σ' with
  | nil => exact h
  | cons a rest ih =>
    have hrest_own : ∀ b ∈ rest, b.sid = s → b.key ∈ K ∧ isSignAct b = true :=
      fun b hb => hown b (List.mem_cons_of_mem _ hb)
    have hrest_oth : ∀ b ∈ rest, b.sid ≠ s → b.key ∉ K :=
      fun b hb => hothers b (List.mem_cons_of_mem _ hb)
    by_cases ha : a.sid = s
    · obtain ⟨hk, hsg⟩ := hown a List.mem_cons_self ha
      have : (a :: rest).filter (fun a => a.sid == s) = a :: rest.filter (fun a => a.sid == s) := by
        simp [List.filter_cons, ha]
      rw [this]
      simp only [run]
      exact ih hrest_own hrest_oth _ _ (own_step K s σ σ' a ha hk hsg h)
    · have : (a :: rest).filter (fun a => a.sid == s) = rest.filter (fun a => a.sid == s) := by
        simp [List.filter_cons, ha]
      rw [this]
      simp only [run]
      exact ih hrest_own hrest_oth _ _ (other_step K s σ σ' a ha (hothers a List.mem_cons_self ha) h)

/-- Corollary: a signing session surrounded by arbitrary other traffic on disjoint keys leaves no
residue either. -/
theorem sign_no_residue_among_others (s : Sid) (k1 k2 : Key) (hne : k1 ≠ k2) (acts : List Act)
    (hothers : ∀ a ∈ acts, a.sid ≠ s → a.key ∉ [k1, k2])
    (hown : ∀ a ∈ acts, a.sid = s → a.key ∈ [k1, k2] ∧ isSignAct a = true)
    (hsch : acts.filter (fun a => a.sid == s) ∈ signSchedules s k1 k2)
    (σ : St) (h0 : Clear σ.t k1 k2) : Clear (run σ acts).t k1 k2 := by
  have hag := noninterference [k1, k2] s acts hown hothers σ σ
    ⟨fun _ _ => ⟨rfl, rfl, rfl⟩, rfl, rfl⟩
  obtain ⟨c1, c2, c3, c4⟩ := (sign_no_residue σ s k1 k2 hne h0 _ hsch).1
  obtain ⟨ht, _, _⟩ := hag
  have a1 := ht k1 (by simp)
  have a2 := ht k2 (by simp)
  exact ⟨by rw [a1.1]; exact c1, by rw [a1.2.1]; exact c2, by rw [a1.2.2]; exact c3, by rw [a2.1]; exact c4⟩

/-! ## the excluded pair (known finding KF-C12-derived-topic)

Session 1 signs topic t₁ (keys h(t₁) = 5 and h(h(t₁)) = 7); session 2 signs the topic whose *name*
is the string h(t₁), so its first key is h(h(t₁)) = 7 as well. Session 2 enters first; session 1's
callback registers its second synchroniser under 7 without a check, overwriting session 2's handler,
and later unregisters it: session 2, still running, has lost its synchroniser. -/
theorem derived_topic_collision_witness :
    let σ := run {} [.signEnter 2 7, .signEnter 1 5, .signPrepare 1 5, .regSync2 1 7, .unregSync2 1 7]
    σ.active 2 = true ∧ σ.t.sync 7 = none := by decide

/-! ## non-vacuity -/

example : (run {} [.signEnter 1 5, .signPrepare 1 5, .regSync2 1 7]).t.sync 7 = some 1 := by decide
example : dispatchMPC (run {} [.signEnter 1 5, .signPrepare 1 5]).t 5 = some 1 := by decide


/-- **The source the model was transcribed from is the current source**: the statements of `KeyGen`, `runDKG`, `Sign`, `prepareSigning`, `initializeHandlers`, `initializeSyncForSigning`, `registerWhileActive`, `ensureDKGNotRunning`, `runSigningProtocol`, regenerated from
`/repo` on this run, are the committed ones (logging left out). A change of any of them — harmless or not — fails here
first; the differential and monitored runs of this property are then the search for an input on which it fails. -/
theorem source_as_modelled : TSSVerif.Gen.Stmts.orch = TSSVerif.Model.StmtsExpected.orch := by
  decide +kernel

end TSSVerif.Props.C12
