import TSSVerif.Props.C14Order
/-!
# C12 in silent mode: why a topic cannot be reused while the buffer remembers it (known finding KF-C12-silent-reuse)

The silent-mode buffer (`Model/Box.lean`) marks a topic as started at the local party's first send and keeps that mark
until the topic expires. The orchestrator does not tell the buffer that a session has ended. So for a second session on the
same topic the buffer does not do what it is there for: an arrival that precedes the local party's (second) call is not
kept for it but handed to the dispatcher at once — which has no session registered and drops it.
-/
namespace TSSVerif.Props.C12Box
open TSSVerif.Model.Box TSSVerif.Model.BoxConc TSSVerif.Props.C14Order

/-- the first send marks the topic started … -/
theorem send_marks_started (b : Box) (t : Nat) : ((csSend b t).1.started t).isSome = true := by
  unfold csSend
  split <;> simp

/-- … and from then on every arrival for it bypasses the buffer, whatever else is in the box -/
theorem started_topic_bypasses_buffer (c : Cfg) (b : Box) (m : Msg) (h : (b.started m.topic).isSome = true) :
    csStore c b m = (b, .forward) := csStore_started c b m h

/-- nothing but expiry removes the mark: receiving and sending keep it (so it outlives the session) -/
theorem mark_survives_store (c : Cfg) (b : Box) (m : Msg) (t : Nat) (h : (b.started t).isSome = true) :
    ((csStore c b m).1.started t).isSome = true := by
  have : (csStore c b m).1.started = b.started := by
    unfold csStore
    split
    · rfl
    · split
      · rfl
      · dsimp only; split <;> rfl
  rw [this]; exact h

theorem mark_survives_send (b : Box) (t t' : Nat) (h : (b.started t).isSome = true) :
    ((csSend b t').1.started t).isSome = true := by
  unfold csSend
  split <;> (simp only []; by_cases e : t = t' <;> simp [e, h])

end TSSVerif.Props.C12Box
