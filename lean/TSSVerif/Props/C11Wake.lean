/-!
# C11 — the context monitor's wake-up cannot get lost (and why its lock matters)

The three wait loops of the built-in key generation have the shape

    lock; for !done() { if ctxEnded() { unlock; return err }; cond.Wait() }; unlock

and `monitorContextTimeout` runs `<-ctx.Done(); lock; cond.Signal(); unlock` once. `Model/Ctl.lean` and `Model/Dkg.lean`
treat "the context ended" and "the waiter wakes up" as one event, which is justified only if the monitor's single signal
cannot fall into the gap between the waiter's test of the context and its `Wait`. This file models exactly that gap, at the
granularity of lock operations, for both variants of the monitor:

* `locked_signal_never_lost` — with the signal under the lock (the code as it is; pinned by `Props/C11 source_as_modelled`,
  function `monitorContextTimeout` of both backends), in every reachable state in which the monitor has finished the
  waiter is not parked: every schedule ends with the waiter returning;
* `unlocked_signal_lost_witness` — with the signal outside the lock (seeded change C11c) there is a schedule that ends
  with the monitor finished and the waiter parked for ever. The lockstep harness produces that schedule on the real code
  by ending the context inside the park hook (`dkgstep`, cancel-at-park).

No message ever arrives in this model (the peers are silent): that is the case in which only the monitor can wake the
waiter. Core Lean only.
-/
namespace TSSVerif.Props.C11Wake

inductive WPc
  | checking      -- holds the lock, about to test the context
  | aboutToWait   -- holds the lock, has seen the context alive, about to call Wait
  | parked        -- in Wait: lock released, waiting for a signal
  | woken         -- signalled, must re-acquire the lock
  | returned
deriving DecidableEq, Repr

inductive MPc
  | idle          -- blocked on <-ctx.Done()
  | wantLock      -- the context ended; about to lock (locked variant) / to signal (unlocked variant)
  | holding       -- holds the lock, about to signal (locked variant only)
  | finished
deriving DecidableEq, Repr

structure St where
  w : WPc := .checking
  m : MPc := .idle
  ctxDone : Bool := false
  lockFree : Bool := false     -- the waiter starts inside its critical section
deriving DecidableEq, Repr

inductive Ev
  | ctxEnds | waiter | monitor
deriving DecidableEq, Repr

/-- one step; `locked` selects the variant of the monitor. A step that is not enabled leaves the state unchanged. -/
def step (locked : Bool) (s : St) : Ev → St
  | .ctxEnds => if s.ctxDone then s else { s with ctxDone := true, m := if s.m = .idle then .wantLock else s.m }
  | .waiter =>
    match s.w with
    | .checking => if s.ctxDone then { s with w := .returned, lockFree := true } else { s with w := .aboutToWait }
    | .aboutToWait => { s with w := .parked, lockFree := true }          -- Wait: unlock and park, atomically
    | .parked => s
    | .woken => if s.lockFree then { s with w := .checking, lockFree := false } else s
    | .returned => s
  | .monitor =>
    match s.m with
    | .idle => s
    | .wantLock =>
      if locked then (if s.lockFree then { s with m := .holding, lockFree := false } else s)
      else { s with m := .finished, w := if s.w = .parked then .woken else s.w }   -- Signal without the lock
    | .holding => { s with m := .finished, lockFree := true, w := if s.w = .parked then .woken else s.w }
    | .finished => s

def run (locked : Bool) (s : St) (evs : List Ev) : St := evs.foldl (step locked) s

/-- the invariant of the locked variant -/
structure Inv (s : St) : Prop where
  /-- the lock is held by exactly the one who is in a critical section -/
  lock : s.lockFree = true ↔ (s.w ≠ .checking ∧ s.w ≠ .aboutToWait ∧ s.m ≠ .holding)
  /-- the monitor moves only after the context ended -/
  mon : s.m ≠ .idle → s.ctxDone = true
  idle : s.ctxDone = true → s.m ≠ .idle
  /-- once the monitor is through, the waiter is neither parked nor about to park -/
  fin : s.m = .finished → s.w ≠ .parked ∧ s.w ≠ .aboutToWait
  /-- while the monitor holds the lock the waiter is outside its critical section -/
  hold : s.m = .holding → s.w ≠ .checking ∧ s.w ≠ .aboutToWait

theorem inv_init : Inv {} := by
  refine ⟨by simp, by simp, by simp, by simp, by simp⟩

theorem inv_step (s : St) (e : Ev) (h : Inv s) : Inv (step true s e) := by
  obtain ⟨hl, hm, hi, hf, hh⟩ := h
  cases s with
  | mk w m c l =>
  cases e <;> cases w <;> cases m <;> cases c <;> cases l <;>
    simp_all [step] <;> (try constructor) <;> simp_all

/-- **The signal under the lock is never lost**: in every state any schedule can reach, a finished monitor means the
waiter is not parked (it has returned, or is on its way to test the context again — which it will find ended). -/
theorem locked_signal_never_lost (evs : List Ev) :
    (run true {} evs).m = .finished → (run true {} evs).w ≠ .parked := by
  have : ∀ (evs : List Ev) (s : St), Inv s → Inv (run true s evs) := by
    intro evs
    induction evs with
    | nil => intro s h; exact h
    | cons e rest ih => intro s h; exact ih _ (inv_step s e h)
  intro hfin
  exact ((this evs {} inv_init).fin hfin).1

/-- … and after the context ended the waiter never parks again: a waiter that tests the context returns -/
theorem checks_after_end_return (s : St) (hc : s.ctxDone = true) (hw : s.w = .checking) :
    (step true s .waiter).w = .returned := by
  simp [step, hw, hc]

/-- **Without the lock the signal can be lost** (seeded change C11c): the waiter tests the context, the context ends, the
monitor signals at once — nobody is parked yet —, the waiter parks: monitor finished, waiter parked, no event changes
that any more. -/
theorem unlocked_signal_lost_witness :
    let s := run false {} [.waiter, .ctxEnds, .monitor, .waiter]
    s.m = .finished ∧ s.w = .parked ∧ ∀ e, step false s e = s := by
  refine ⟨by decide, by decide, ?_⟩
  intro e; cases e <;> decide

/-- the same schedule is harmless with the lock: the monitor cannot take it before the waiter is parked -/
example : (run true {} [.waiter, .ctxEnds, .monitor, .waiter, .monitor, .monitor, .waiter, .waiter]).w = .returned := by
  decide

end TSSVerif.Props.C11Wake
