import TSSVerif.Model.PsAlgebra
import TSSVerif.Props.C18
import TSSVerif.Gen.Ps
import TSSVerif.Model.PsEquations
/-!
# C09 — verification rejects anything altered; verifying is side-effect free

"Only if produced by ≥ t genuine shares" is a computational statement (unforgeability) and cannot be a theorem about
equations. What is decided here is its algebraic content, for **every** field, groups, bilinear pairing that is
non-degenerate at the generator, key, message and perturbation:

* BLS: verification is *equivalent* to `σ = x • H(m)` (`bls_verify_iff`), so the valid signature is unique, and for each
  way of altering an input the set of alterations that still verify is pinned down exactly;
* PS: every verification equation has the form `L = A + e • B`; with any bound field altered it holds for at most one
  value of the challenge `e` — which the code derives by hashing exactly the bound fields (`roBlinding`, `roPoK`,
  regenerated) — and with the challenge fixed every committed value is determined by the rest;
* the request's proof is checked before any key share is applied (`signBlindChecked`);
* no verifying function mutates, through a mathlib method, anything but its own fresh locals (`no_aliased_mutation`,
  regenerated census), so a second verdict is computed from the same object as the first.
-/
set_option linter.unusedSimpArgs false
set_option linter.unusedVariables false
set_option linter.unusedSectionVars false
open Finset
namespace TSSVerif.Props.C09
open TSSVerif.Model.Ps TSSVerif.Props.C18

variable {F : Type*} [Field F]
variable {G1 G2 GT : Type*} [AddCommGroup G1] [Module F G1] [AddCommGroup G2] [Module F G2] [AddCommGroup GT] [Module F GT]
variable {ι : Type*} [Fintype ι]
variable (e : G1 →ₗ[F] G2 →ₗ[F] GT)

/-- the pairing is non-degenerate at the generator of `G2` -/
def NonDegenerate (g2 : G2) : Prop := ∀ a : G1, e a g2 = 0 → a = 0

/-! ## BLS -/

/-- **Verification is exactly `σ = x • H(m)`**: the valid signature under key `x • g2` on `H(m)` is unique. -/
theorem bls_verify_iff {g2 : G2} (hnd : NonDegenerate e g2) (x : F) (hm sig : G1) :
    blsVerify e g2 (x • g2) hm sig ↔ sig = x • hm := by
  unfold blsVerify
  have key : e sig (-g2) + e hm (x • g2) = e (x • hm - sig) g2 := by
    simp only [map_neg, map_smul, map_sub, LinearMap.sub_apply, LinearMap.smul_apply]
    abel
  rw [key]
  constructor
  · intro h
    have := hnd _ h
    exact (sub_eq_zero.mp this).symm
  · intro h
    rw [h, sub_self]
    simp

/-- another message: accepted exactly when it hashes to the same point (or the key is zero) -/
theorem bls_wrong_message {g2 : G2} (hnd : NonDegenerate e g2) (x : F) (hm hm' : G1) :
    blsVerify e g2 (x • g2) hm' (x • hm) ↔ x = 0 ∨ hm = hm' := by
  rw [bls_verify_iff e hnd]
  constructor
  · intro h
    by_cases hx : x = 0
    · exact Or.inl hx
    · right
      have : x • (hm - hm') = 0 := by rw [smul_sub, h, sub_self]
      rcases smul_eq_zero.mp this with h0 | h0
      · exact absurd h0 hx
      · exact sub_eq_zero.mp h0
  · rintro (h | h)
    · rw [h]; simp
    · rw [h]

/-- another key: accepted exactly when it is the same key (or the message hashes to zero) -/
theorem bls_wrong_key {g2 : G2} (hnd : NonDegenerate e g2) (x x' : F) (hm : G1) :
    blsVerify e g2 (x' • g2) hm (x • hm) ↔ x = x' ∨ hm = 0 := by
  rw [bls_verify_iff e hnd]
  constructor
  · intro h
    have : (x - x') • hm = 0 := by rw [sub_smul, h, sub_self]
    rcases smul_eq_zero.mp this with h0 | h0
    · exact Or.inl (sub_eq_zero.mp h0)
    · exact Or.inr h0
  · rintro (h | h)
    · rw [h]
    · rw [h]; simp

/-- **An altered share**: with share `j ∈ S` changed by `δ`, the aggregate changes by `λⱼ • δ`, and `λⱼ ≠ 0`: the
aggregate of the altered shares verifies exactly when nothing was altered. -/
theorem bls_altered_share {κ : Type*} [DecidableEq κ] {g2 : G2} (hnd : NonDegenerate e g2) (S : Finset κ) (v : κ → F)
    (hv : Set.InjOn v S) (h0 : ∀ k ∈ S, v k ≠ 0) (sh : κ → G1) (x : F) (hm : G1)
    (hgood : ∑ k ∈ S, lam S v k • sh k = x • hm) (j : κ) (hj : j ∈ S) (δ : G1) :
    blsVerify e g2 (x • g2) hm (∑ k ∈ S, lam S v k • (sh k + if k = j then δ else 0)) ↔ δ = 0 := by
  rw [bls_verify_iff e hnd]
  have hsum : ∑ k ∈ S, lam S v k • (sh k + if k = j then δ else 0) = x • hm + lam S v j • δ := by
    simp only [smul_add, Finset.sum_add_distrib, hgood]
    congr 1
    rw [Finset.sum_eq_single j]
    · simp
    · intro b _ hb; simp [hb]
    · intro hn; exact absurd hj hn
  rw [hsum]
  constructor
  · intro h
    have : lam S v j • δ = 0 := by
      have := congrArg (fun t => t - x • hm) h
      simpa using this
    rcases smul_eq_zero.mp this with hl | hd
    · exact absurd hl (lam_ne_zero S v hv h0 j hj)
    · exact hd
  · intro h; rw [h]; simp

/-- **A swapped signer-to-share assignment**: combining share `i` under `j`'s coefficient and vice versa changes the
aggregate by `(λᵢ − λⱼ) • (sⱼ − sᵢ)`; it verifies exactly when that vanishes (equal coefficients or equal shares). -/
theorem bls_swapped_assignment {g2 : G2} (hnd : NonDegenerate e g2) (x : F) (hm : G1) (rest : G1) (li lj : F) (si sj : G1)
    (hgood : rest + li • si + lj • sj = x • hm) :
    blsVerify e g2 (x • g2) hm (rest + li • sj + lj • si) ↔ li = lj ∨ si = sj := by
  rw [bls_verify_iff e hnd]
  have : rest + li • sj + lj • si = x • hm + (li - lj) • (sj - si) := by
    rw [← hgood]; module
  rw [this]
  constructor
  · intro h
    have h' : (li - lj) • (sj - si) = 0 := by
      have := congrArg (fun t => t - x • hm) h
      simpa using this
    rcases smul_eq_zero.mp h' with h1 | h1
    · exact Or.inl (sub_eq_zero.mp h1)
    · exact Or.inr (sub_eq_zero.mp h1).symm
  · rintro (h | h)
    · rw [h]; simp
    · rw [h]; simp

/-! ## PS: every equation is `L = A + e • B` -/

/-- an equation `L = A + e • B` with `B ≠ 0` holds for at most one challenge -/
theorem at_most_one_challenge {G : Type*} [AddCommGroup G] [Module F G] (L A B : G) (hB : B ≠ 0) (e1 e2 : F)
    (h1 : L = A + e1 • B) (h2 : L = A + e2 • B) : e1 = e2 := by
  have : (e1 - e2) • B = 0 := by
    rw [sub_smul]
    have := h1.symm.trans h2
    have h3 : e1 • B = e2 • B := add_left_cancel this
    rw [h3, sub_self]
  rcases smul_eq_zero.mp this with h | h
  · exact sub_eq_zero.mp h
  · exact absurd h hB

/-- **With the challenge fixed, the request's proof pins its commitments**: `d`, `f`, `s` are determined by the
responses, the request and the challenge — any other value is rejected. -/
theorem blinding_commitments_determined (pp : PP G1 G2 ι) (q : Request F G1 ι) (h : G1) (c : F) (hv : q.verify pp h c) :
    (∀ i, q.d i = q.x i • q.u + q.y i • h - c • q.b i) ∧ (∀ i, q.f i = q.x i • pp.g - c • q.a i) ∧
    q.s = q.z • pp.g0 + ∑ i, q.y i • pp.gs i - c • q.cm := by
  obtain ⟨h1, h2, h3⟩ := hv
  refine ⟨fun i => ?_, fun i => ?_, ?_⟩
  · rw [h1 i]; abel
  · rw [h2 i]; abel
  · rw [← h3]; abel

theorem altered_d_rejected (pp : PP G1 G2 ι) (q : Request F G1 ι) (h : G1) (c : F) (hv : q.verify pp h c)
    (d' : ι → G1) (i : ι) (hne : d' i ≠ q.d i) : ¬ ({ q with d := d' } : Request F G1 ι).verify pp h c := by
  intro hv'
  have a := (blinding_commitments_determined pp q h c hv).1 i
  have b := (blinding_commitments_determined pp _ h c hv').1 i
  exact hne (b.trans a.symm)

theorem altered_f_rejected (pp : PP G1 G2 ι) (q : Request F G1 ι) (h : G1) (c : F) (hv : q.verify pp h c)
    (f' : ι → G1) (i : ι) (hne : f' i ≠ q.f i) : ¬ ({ q with f := f' } : Request F G1 ι).verify pp h c := by
  intro hv'
  have a := (blinding_commitments_determined pp q h c hv).2.1 i
  have b := (blinding_commitments_determined pp _ h c hv').2.1 i
  exact hne (b.trans a.symm)

theorem altered_s_rejected (pp : PP G1 G2 ι) (q : Request F G1 ι) (h : G1) (c : F) (hv : q.verify pp h c)
    (s' : G1) (hne : s' ≠ q.s) : ¬ ({ q with s := s' } : Request F G1 ι).verify pp h c := by
  intro hv'
  have a := (blinding_commitments_determined pp q h c hv).2.2
  have b := (blinding_commitments_determined pp _ h c hv').2.2
  exact hne (b.trans a.symm)

/-- **An altered ciphertext component `bᵢ` (≠ 0) verifies for at most one challenge** — and the challenge is the hash
of, among others, every `bᵢ` (`roBlinding`). Likewise `aᵢ` and the commitment `cm`. -/
theorem altered_b_one_challenge (pp : PP G1 G2 ι) (q : Request F G1 ι) (h : G1) (b' : ι → G1) (i : ι) (hb : b' i ≠ 0)
    (c1 c2 : F) (h1 : ({ q with b := b' } : Request F G1 ι).verify pp h c1)
    (h2 : ({ q with b := b' } : Request F G1 ι).verify pp h c2) : c1 = c2 :=
  at_most_one_challenge _ (q.d i) (b' i) hb c1 c2 (h1.1 i) (h2.1 i)

theorem altered_a_one_challenge (pp : PP G1 G2 ι) (q : Request F G1 ι) (h : G1) (a' : ι → G1) (i : ι) (ha : a' i ≠ 0)
    (c1 c2 : F) (h1 : ({ q with a := a' } : Request F G1 ι).verify pp h c1)
    (h2 : ({ q with a := a' } : Request F G1 ι).verify pp h c2) : c1 = c2 :=
  at_most_one_challenge _ (q.f i) (a' i) ha c1 c2 (h1.2.1 i) (h2.2.1 i)

theorem altered_cm_one_challenge (pp : PP G1 G2 ι) (q : Request F G1 ι) (h : G1) (cm' : G1) (hc : cm' ≠ 0)
    (c1 c2 : F) (h1 : ({ q with cm := cm' } : Request F G1 ι).verify pp h c1)
    (h2 : ({ q with cm := cm' } : Request F G1 ι).verify pp h c2) : c1 = c2 := by
  have e1 := h1.2.2
  have e2 := h2.2.2
  simp only at e1 e2
  have a1 : q.z • pp.g0 + ∑ i, q.y i • pp.gs i = q.s + c1 • cm' := by rw [← e1]; abel
  have a2 : q.z • pp.g0 + ∑ i, q.y i • pp.gs i = q.s + c2 • cm' := by rw [← e2]; abel
  exact at_most_one_challenge _ q.s cm' hc c1 c2 a1 a2

/-- **The request is checked before any share is applied**: `SignBlindSignature` returns a signature only if the
request's proof verifies (for the challenge `chal` the hash yields). -/
noncomputable def signBlindChecked (pp : PP G1 G2 ι) (q : Request F G1 ι) (h : G1) (chal : F) (sk : SK F ι) :
    Option (G1 × G1) :=
  haveI := Classical.propDecidable (q.verify pp h chal)
  if q.verify pp h chal then some (signBlind q h sk) else none

theorem request_checked_first (pp : PP G1 G2 ι) (q : Request F G1 ι) (h : G1) (chal : F) (sk : SK F ι) (σ : G1 × G1)
    (hs : signBlindChecked pp q h chal sk = some σ) : q.verify pp h chal := by
  unfold signBlindChecked at hs
  by_contra hn
  rw [if_neg hn] at hs
  cases hs

/-- the proof of knowledge: with the challenge fixed, `Γ` and `Φ` are determined; an altered `κ` (≠ X) or `ν` (≠ 0)
verifies for at most one challenge -/
theorem pok_commitments_determined (pp : PP G1 G2 ι) (pk : PK G2 ι) (π : SigPoK F G1 G2 ι) (c : F) (hv : π.verifyForm pp pk c) :
    π.Γ = π.y • pp.g2 + ∑ i, π.x i • pk.Y i - c • (π.κ + -pk.X) ∧ π.Φ = π.y • π.hε - c • π.ν := by
  obtain ⟨h1, h2⟩ := hv
  constructor
  · rw [h1]; abel
  · rw [h2]; abel

theorem altered_nu_one_challenge (pp : PP G1 G2 ι) (pk : PK G2 ι) (π : SigPoK F G1 G2 ι) (ν' : G1) (hν : ν' ≠ 0) (c1 c2 : F)
    (h1 : ({ π with ν := ν' } : SigPoK F G1 G2 ι).verifyForm pp pk c1)
    (h2 : ({ π with ν := ν' } : SigPoK F G1 G2 ι).verifyForm pp pk c2) : c1 = c2 := by
  have a1 : π.y • π.hε = π.Φ + c1 • ν' := by rw [h1.2]; abel
  have a2 : π.y • π.hε = π.Φ + c2 • ν' := by rw [h2.2]; abel
  exact at_most_one_challenge _ π.Φ ν' hν c1 c2 a1 a2

theorem altered_kappa_one_challenge (pp : PP G1 G2 ι) (pk : PK G2 ι) (π : SigPoK F G1 G2 ι) (κ' : G2) (hκ : κ' + -pk.X ≠ 0)
    (c1 c2 : F) (h1 : ({ π with κ := κ' } : SigPoK F G1 G2 ι).verifyForm pp pk c1)
    (h2 : ({ π with κ := κ' } : SigPoK F G1 G2 ι).verifyForm pp pk c2) : c1 = c2 :=
  at_most_one_challenge _ π.Γ (κ' + -pk.X) hκ c1 c2 h1.1 h2.1

/-- the pairing equation pins the randomised witness: given `hε`, `κ`, `ν` there is exactly one `h′^ε` that passes -/
theorem pok_witness_unique (pp : PP G1 G2 ι) (hnd : NonDegenerate e pp.g2) (pk : PK G2 ι) (π : SigPoK F G1 G2 ι) (c : F)
    (w' : G1) (h1 : π.verify e pp pk c) (h2 : ({ π with hPrimeε := w' } : SigPoK F G1 G2 ι).verify e pp pk c) :
    w' = π.hPrimeε := by
  have e1 := h1.2.2
  have e2 := h2.2.2
  simp only at e1 e2
  have h3 : e (π.hPrimeε + π.ν) (-pp.g2) = e (w' + π.ν) (-pp.g2) := add_left_cancel (e1.trans e2.symm)
  have h4 : e (w' - π.hPrimeε) pp.g2 = 0 := by
    have h5 : e (w' - π.hPrimeε) (-pp.g2) = 0 := by
      have : w' - π.hPrimeε = (w' + π.ν) - (π.hPrimeε + π.ν) := by abel
      rw [this, map_sub, LinearMap.sub_apply, h3, sub_self]
    rw [map_neg] at h5
    exact neg_eq_zero.mp h5
  exact sub_eq_zero.mp (hnd _ h4)


/-! ## fewer than `t` shares -/

open Polynomial in
/-- **Fewer than `t` shares determine nothing about the key**: for every set of fewer than `t` non-zero evaluation points
there are two sharing polynomials of degree `< t` that give exactly the same shares at those points and different keys
(values at 0). So no function of fewer than `t` genuine shares — in particular not their Lagrange combination — is the
signature under the key being verified against, except for one value of the key in `|F|`. -/
theorem fewer_than_t_undetermined {κ : Type*} [DecidableEq κ] (S : Finset κ) (v : κ → F) (h0 : ∀ k ∈ S, v k ≠ 0)
    (t : ℕ) (hlt : S.card < t) :
    ∃ P Q : F[X], P.degree < t ∧ Q.degree < t ∧ (∀ k ∈ S, P.eval (v k) = Q.eval (v k)) ∧ P.eval 0 ≠ Q.eval 0 := by
  refine ⟨0, ∏ k ∈ S, (X - C (v k)), ?_, ?_, ?_, ?_⟩
  · rw [degree_zero]
    exact WithBot.bot_lt_coe _
  · rw [degree_prod]
    have : ∑ k ∈ S, (X - C (v k)).degree = (S.card : WithBot ℕ) := by
      rw [Finset.sum_congr rfl (fun k _ => degree_X_sub_C (v k))]
      simp
    rw [this]
    exact_mod_cast hlt
  · intro k hk
    rw [eval_zero, eval_prod]
    symm
    apply Finset.prod_eq_zero hk
    simp
  · rw [eval_zero, eval_prod]
    intro h
    have := (Finset.prod_eq_zero_iff.mp h.symm)
    obtain ⟨k, hk, hz⟩ := this
    simp at hz
    exact h0 k hk hz

/-- **The guard `h^ε ≠ 0` of `SigPoK.Verify` is load-bearing**: the proof that anybody can make with no signer involved —
the prover's own routine run on `h = h' = 0` — satisfies both Fiat–Shamir equations and the pairing equation for *every*
key, message and challenge; it is the guard alone that refuses it (seeded change C09f removed the guard: the harness
scenario `forged` of `psflow` replays exactly this proof against the real `SigPoK.Verify` / `Verifier.Verify`). -/
theorem zero_proof_only_guard (pp : PP G1 G2 ι) (pk : PK G2 ι) (m : ι → F) (ρ : PoKRand F ι) (c : F) :
    (pokOfSig pp pk (0 : G1) (0 : G1) m ρ c).verifyForm pp pk c ∧
    e (pokOfSig pp pk (0 : G1) (0 : G1) m ρ c).hε (pokOfSig pp pk (0 : G1) (0 : G1) m ρ c).κ
      + e ((pokOfSig pp pk (0 : G1) (0 : G1) m ρ c).hPrimeε + (pokOfSig pp pk (0 : G1) (0 : G1) m ρ c).ν) (-pp.g2) = 0 ∧
    ¬ (pokOfSig pp pk (0 : G1) (0 : G1) m ρ c).verify e pp pk c := by
  refine ⟨⟨?_, ?_⟩, ?_, ?_⟩
  · simp only [pokOfSig]
    have : ∑ i, (ρ.γ i + c * m i) • pk.Y i = ∑ i, ρ.γ i • pk.Y i + c • ∑ i, m i • pk.Y i := by
      rw [Finset.smul_sum, ← Finset.sum_add_distrib]
      apply Finset.sum_congr rfl
      intro i _
      rw [add_smul, mul_smul]
    rw [this]
    module
  · simp [pokOfSig]
  · simp [pokOfSig]
  · intro h
    exact h.2.1 (by simp [pokOfSig])

open Polynomial in
/-- **A BLS signature aggregated from `t − 1` genuine shares is rejected** under the threshold key `f(0) • g2`, for every
sharing polynomial of degree exactly `t − 1 = |S|`, every set `S` of non-zero distinct points and every message that does
not hash to the identity (`Props/C18.t_minus_one_shares_miss` carried through `bls_verify_iff`). For fewer shares, or a
vanishing leading coefficient, `fewer_than_t_undetermined` / `C18.fewer_than_t_not_determined` are what can be said. -/
theorem bls_t_minus_one_shares_rejected {κ : Type*} [DecidableEq κ] {g2 : G2} (hnd : NonDegenerate e g2) (S : Finset κ)
    (v : κ → F) (hv : Set.InjOn v S) (h0 : ∀ k ∈ S, v k ≠ 0) (f : F[X]) (hf : f.degree = ((S.card : ℕ) : WithBot ℕ))
    (hm : G1) (hne : hm ≠ 0) :
    ¬ blsVerify e g2 (f.eval 0 • g2) hm (∑ k ∈ S, lam S v k • (f.eval (v k) • hm)) := by
  rw [bls_verify_iff e hnd, aggregate_in_exponent]
  intro h
  have h2 : ((∑ k ∈ S, lam S v k * f.eval (v k)) - f.eval 0) • hm = 0 := by rw [sub_smul, h, sub_self]
  rcases smul_eq_zero.mp h2 with h1 | h1
  · apply t_minus_one_shares_miss S v hv h0 f hf
    rw [← sub_eq_zero.mp h1]
    apply Finset.sum_congr rfl
    intro i _; ring
  · exact hne h1

/-! ## verifying is side-effect free -/

/-- **No verifying function mutates, through a receiver-mutating mathlib method (`Add`, `Sub`, `Clone`, `Affine`, `Mod`,
`InvModP`, `Inverse`), anything but a fresh local**: every such call in the regenerated census has a receiver last
assigned from `Copy` / `Mul` / a constructor (recorded failure F29: `right := ξ.d[i]` without `Copy()`). The census
itself is the committed one. -/
theorem no_aliased_mutation :
    TSSVerif.Gen.Ps.aliasCensus = TSSVerif.Model.PsEq.aliasCensus ∧
    TSSVerif.Gen.Ps.aliasKinds.all (fun k => k == "fresh") = true := by
  constructor
  · decide +kernel
  · decide +kernel

/-- **The challenges hash exactly the bound fields, and the verifying functions are the ones modelled**: the inputs of the two
Fiat–Shamir oracles (`randomOracleForBlindingProof`: every `dᵢ fᵢ aᵢ bᵢ`, `s`, `cm`, `g`, `g0`, `h`, `u`;
`randomOracleForPoKofSignature`: every `Yᵢ`, `X`, `g2`, `Γ`, `Φ`, `ν`, `h^ε`, `κ`), regenerated from the source, are the
committed ones, as are the statements of every verifying / signing function. (`altered_*_one_challenge` and
`*_commitments_determined` above are what this binding is needed for: the equations alone accept a response shifted
together with its commitment — the harness runs exactly those shifts against the real verifiers.) -/
theorem oracle_inputs_as_modelled :
    TSSVerif.Gen.Ps.roBlinding = TSSVerif.Model.PsEq.roBlinding ∧ TSSVerif.Gen.Ps.roPoK = TSSVerif.Model.PsEq.roPoK ∧
    TSSVerif.Gen.Ps.verifyBlinding = TSSVerif.Model.PsEq.verifyBlinding ∧
    TSSVerif.Gen.Ps.verifyPoKForm = TSSVerif.Model.PsEq.verifyPoKForm ∧
    TSSVerif.Gen.Ps.checkCommitmentForm = TSSVerif.Model.PsEq.checkCommitmentForm ∧
    TSSVerif.Gen.Ps.verifySigPoK = TSSVerif.Model.PsEq.verifySigPoK ∧
    TSSVerif.Gen.Ps.signBlind = TSSVerif.Model.PsEq.signBlind ∧ TSSVerif.Gen.Ps.unblind = TSSVerif.Model.PsEq.unblind ∧
    TSSVerif.Gen.Ps.provePoK = TSSVerif.Model.PsEq.provePoK ∧ TSSVerif.Gen.Ps.proveBlinding = TSSVerif.Model.PsEq.proveBlinding := by
  decide +kernel

/-- the BLS functions are the ones modelled -/
theorem bls_equations_as_modelled :
    TSSVerif.Gen.Ps.blsSign = TSSVerif.Model.PsEq.blsSign ∧ TSSVerif.Gen.Ps.blsVerify = TSSVerif.Model.PsEq.blsVerify ∧
    TSSVerif.Gen.Ps.blsAggregateSignatures = TSSVerif.Model.PsEq.blsAggregateSignatures ∧
    TSSVerif.Gen.Ps.blsAggregatePublicKeys = TSSVerif.Model.PsEq.blsAggregatePublicKeys ∧
    TSSVerif.Gen.Ps.blsCreatePublicKeys = TSSVerif.Model.PsEq.blsCreatePublicKeys := by
  decide +kernel

end TSSVerif.Props.C09
