import TSSVerif.Model.PsAlgebra
import TSSVerif.Props.C18
import TSSVerif.Gen.Ps
import TSSVerif.Model.PsEquations
import TSSVerif.Gen.Stmts
import TSSVerif.Model.StmtsExpected
/-!
# C08 — threshold blind PS signatures are complete

Model: `Model/PsAlgebra.lean`. Quantifiers: **every** scalar field, every triple of modules over it with
a bilinear pairing, every message vector of every length (index type `ι`), every choice of the random
values, every hash value `h` and every challenge; for the threshold part every polynomial sharing of the
key of degree `< t` and every set `S` of at least `t` signers with distinct evaluation points.
-/
set_option linter.unusedSimpArgs false
set_option linter.unusedVariables false
set_option linter.unusedSectionVars false
open Finset Polynomial
namespace TSSVerif.Props.C08
open TSSVerif.Model.Ps

variable {F : Type*} [Field F]
variable {G1 G2 GT : Type*} [AddCommGroup G1] [Module F G1] [AddCommGroup G2] [Module F G2] [AddCommGroup GT] [Module F GT]
variable {ι : Type*} [Fintype ι]

/-- **The prover's request carries a proof that verifies** — for every message vector, all randomness, every `h`
and every challenge. -/
theorem blind_proof_verifies (pp : PP G1 G2 ι) (m : ι → F) (ρ : BlindRand F ι) (h : G1) (e : F) :
    (blind pp m ρ h e).verify pp h e := by
  refine ⟨?_, ?_, ?_⟩
  · intro i
    simp only [blind]
    module
  · intro i
    simp only [blind]
    module
  · simp only [blind, commit]
    have : ∑ i, (ρ.β i + e * m i) • pp.gs i = ∑ i, ρ.β i • pp.gs i + e • ∑ i, m i • pp.gs i := by
      rw [Finset.smul_sum, ← Finset.sum_add_distrib]
      apply Finset.sum_congr rfl
      intro i _
      rw [add_smul, mul_smul]
    rw [this]
    module

/-- the key a signer uses: its own shares, or the whole key -/
def keySum (sk : SK F ι) (m : ι → F) : F := sk.x + ∑ i, sk.ys i * m i

/-- **Each partial signature unblinds to the witness `(x + Σ yᵢ mᵢ) • h`** of that signer's key. -/
theorem unblind_eq (pp : PP G1 G2 ι) (m : ι → F) (ρ : BlindRand F ι) (h : G1) (e : F) (sk : SK F ι) :
    unblind (signBlind (blind pp m ρ h e) h sk) ρ.z = keySum sk m • h := by
  simp only [unblind, signBlind, blind, keySum]
  have h1 : ∑ i, sk.ys i • (m i • h + ρ.r i • ρ.z • pp.g) =
      (∑ i, sk.ys i * m i) • h + ρ.z • ∑ i, (sk.ys i * ρ.r i) • pp.g := by
    rw [Finset.sum_smul, Finset.smul_sum, ← Finset.sum_add_distrib]
    apply Finset.sum_congr rfl
    intro i _
    module
  have h2 : ∑ i, sk.ys i • ρ.r i • pp.g = ∑ i, (sk.ys i * ρ.r i) • pp.g := by
    apply Finset.sum_congr rfl
    intro i _
    rw [mul_smul]
  rw [h1, h2]
  module

variable (e : G1 →ₗ[F] G2 →ₗ[F] GT)

/-- **… which is valid under that signer's published key**: `UnBlind`'s pairing check passes. -/
theorem unblind_check_passes (pp : PP G1 G2 ι) (m : ι → F) (h : G1) (sk : SK F ι) :
    unblindCheck e pp (sk.pk pp) h (keySum sk m • h) m := by
  unfold unblindCheck SK.pk keySum
  simp only
  have hs : ∑ i, m i • sk.ys i • pp.g2 = (∑ i, sk.ys i * m i) • pp.g2 := by
    rw [Finset.sum_smul]
    apply Finset.sum_congr rfl
    intro i _
    rw [smul_smul, mul_comm]
  rw [hs, ← add_smul]
  simp only [map_smul, map_neg, LinearMap.smul_apply, LinearMap.neg_apply]
  exact neg_add_cancel _

/-- end to end for one signer: request → partial signature → accepted witness -/
theorem signer_round_trip (pp : PP G1 G2 ι) (m : ι → F) (ρ : BlindRand F ι) (h : G1) (c : F) (sk : SK F ι) :
    (blind pp m ρ h c).verify pp h c ∧
    unblindCheck e pp (sk.pk pp) h (unblind (signBlind (blind pp m ρ h c) h sk) ρ.z) m := by
  refine ⟨blind_proof_verifies pp m ρ h c, ?_⟩
  rw [unblind_eq]
  exact unblind_check_passes e pp m h sk

/-! ## the threshold part -/

/-- the key is shared polynomial-wise: `x` and every `yᵢ` by its own polynomial (`TPS.KeyGen`: C18) -/
structure Sharing (F : Type*) [Field F] (ι : Type*) where
  px : F[X]
  py : ι → F[X]

def Sharing.shareAt (σ : Sharing F ι) (v : F) : SK F ι := { x := σ.px.eval v, ys := fun i => (σ.py i).eval v }
def Sharing.secret (σ : Sharing F ι) : SK F ι := σ.shareAt 0

open TSSVerif.Props.C18 in
/-- **The witnesses of any set of at least `t` signers aggregate, with the Lagrange coefficients of the set, to the
witness of the threshold key.** (`Prover.ProveKnowledgeOfSignature`) -/
theorem witnesses_aggregate {κ : Type*} [DecidableEq κ] (S : Finset κ) (v : κ → F) (hv : Set.InjOn v S)
    (σ : Sharing F ι) (t : ℕ) (ht : t ≤ S.card) (hx : σ.px.degree < t) (hy : ∀ i, (σ.py i).degree < t)
    (m : ι → F) (h : G1) :
    ∑ k ∈ S, lam S v k • (keySum (σ.shareAt (v k)) m • h) = keySum σ.secret m • h := by
  have hlt : ∀ f : F[X], f.degree < t → f.degree < S.card := fun f hf =>
    lt_of_lt_of_le hf (by exact_mod_cast ht)
  -- the combined polynomial P = px + Σ mᵢ · pyᵢ has degree < t and keySum (share at v) = P(v)
  let P : F[X] := σ.px + ∑ i, m i • σ.py i
  have hP : ∀ w, keySum (σ.shareAt w) m = P.eval w := by
    intro w
    simp only [keySum, Sharing.shareAt, P, eval_add, eval_finsetSum, eval_smul, smul_eq_mul]
    congr 1
    apply Finset.sum_congr rfl
    intro i _
    ring
  have hdeg : P.degree < S.card := by
    apply lt_of_le_of_lt (degree_add_le _ _)
    apply max_lt (hlt _ hx)
    apply lt_of_le_of_lt (degree_sum_le _ _)
    have hb : (⊥ : WithBot ℕ) < S.card := WithBot.bot_lt_coe _
    rw [Finset.sup_lt_iff hb]
    intro i _
    have : (m i • σ.py i).degree ≤ (σ.py i).degree := degree_smul_le _ _
    exact lt_of_le_of_lt this (hlt _ (hy i))
  have := TSSVerif.Props.C18.public_keys_aggregate S v hv P hdeg h
  simp only [Sharing.secret]
  rw [hP 0, ← this]
  apply Finset.sum_congr rfl
  intro k _
  rw [hP]

/-- **The proof of knowledge built from a valid witness verifies under the threshold key** — both
Fiat–Shamir equations and the pairing equation, whenever `ε • h ≠ 0` (the only case the code rejects). -/
theorem pok_verifies (pp : PP G1 G2 ι) (sk : SK F ι) (h : G1) (m : ι → F) (ρ : PoKRand F ι) (c : F)
    (hne : ρ.ε • h ≠ 0) :
    (pokOfSig pp (sk.pk pp) h (keySum sk m • h) m ρ c).verify e pp (sk.pk pp) c := by
  refine ⟨⟨?_, ?_⟩, hne, ?_⟩
  · simp only [pokOfSig, SK.pk]
    have : ∑ i, (ρ.γ i + c * m i) • sk.ys i • pp.g2 = ∑ i, ρ.γ i • sk.ys i • pp.g2 + c • ∑ i, m i • sk.ys i • pp.g2 := by
      rw [Finset.smul_sum, ← Finset.sum_add_distrib]
      apply Finset.sum_congr rfl
      intro i _
      rw [add_smul, mul_smul]
    rw [this]
    module
  · simp only [pokOfSig]
    module
  · simp only [pokOfSig, SK.pk, keySum]
    have hs : ∑ i, m i • sk.ys i • pp.g2 = (∑ i, sk.ys i * m i) • pp.g2 := by
      rw [Finset.sum_smul]
      apply Finset.sum_congr rfl
      intro i _
      rw [smul_smul, mul_comm]
    rw [hs]
    simp only [map_smul, map_neg, map_add, LinearMap.smul_apply, LinearMap.neg_apply, LinearMap.add_apply, smul_smul]
    module

/-- **End to end**: a request, `t` or more partial signatures from shares of the key, unblinded and aggregated,
give a proof of knowledge that verifies under the threshold public key. -/
theorem threshold_flow_complete {κ : Type*} [DecidableEq κ] (S : Finset κ) (v : κ → F) (hv : Set.InjOn v S)
    (σ : Sharing F ι) (t : ℕ) (ht : t ≤ S.card) (hx : σ.px.degree < t) (hy : ∀ i, (σ.py i).degree < t)
    (pp : PP G1 G2 ι) (m : ι → F) (ρ : BlindRand F ι) (h : G1) (c c' : F) (ρ' : PoKRand F ι) (hne : ρ'.ε • h ≠ 0) :
    let req := blind pp m ρ h c
    let wit := fun k => unblind (signBlind req h (σ.shareAt (v k))) ρ.z
    let agg := ∑ k ∈ S, TSSVerif.Props.C18.lam S v k • wit k
    req.verify pp h c ∧ (∀ k ∈ S, unblindCheck e pp ((σ.shareAt (v k)).pk pp) h (wit k) m) ∧
    (pokOfSig pp (σ.secret.pk pp) h agg m ρ' c').verify e pp (σ.secret.pk pp) c' := by
  intro req wit agg
  refine ⟨blind_proof_verifies pp m ρ h c, ?_, ?_⟩
  · intro k _
    show unblindCheck e pp _ h (unblind (signBlind (blind pp m ρ h c) h (σ.shareAt (v k))) ρ.z) m
    rw [unblind_eq]
    exact unblind_check_passes e pp m h _
  · have hagg : agg = keySum σ.secret m • h := by
      show ∑ k ∈ S, TSSVerif.Props.C18.lam S v k • unblind (signBlind (blind pp m ρ h c) h (σ.shareAt (v k))) ρ.z = _
      rw [← witnesses_aggregate S v hv σ t ht hx hy m h]
      apply Finset.sum_congr rfl
      intro k _
      rw [unblind_eq]
    rw [hagg]
    exact pok_verifies e pp σ.secret h m ρ' c' hne

/-! ## the regenerated equations -/

/-- the arithmetic statements of every function of the scheme, regenerated from the current source, are the ones
`Model/PsAlgebra.lean` was transcribed from -/
theorem equations_as_modelled :
    TSSVerif.Gen.Ps.blind = TSSVerif.Model.PsEq.blind ∧ TSSVerif.Gen.Ps.commit = TSSVerif.Model.PsEq.commit ∧
    TSSVerif.Gen.Ps.encrypt = TSSVerif.Model.PsEq.encrypt ∧ TSSVerif.Gen.Ps.proveBlinding = TSSVerif.Model.PsEq.proveBlinding ∧
    TSSVerif.Gen.Ps.roBlinding = TSSVerif.Model.PsEq.roBlinding ∧ TSSVerif.Gen.Ps.verifyBlinding = TSSVerif.Model.PsEq.verifyBlinding ∧
    TSSVerif.Gen.Ps.signBlind = TSSVerif.Model.PsEq.signBlind ∧ TSSVerif.Gen.Ps.unblind = TSSVerif.Model.PsEq.unblind ∧
    TSSVerif.Gen.Ps.pokOfSig = TSSVerif.Model.PsEq.pokOfSig ∧ TSSVerif.Gen.Ps.provePoK = TSSVerif.Model.PsEq.provePoK ∧
    TSSVerif.Gen.Ps.roPoK = TSSVerif.Model.PsEq.roPoK ∧ TSSVerif.Gen.Ps.verifyPoKForm = TSSVerif.Model.PsEq.verifyPoKForm ∧
    TSSVerif.Gen.Ps.checkCommitmentForm = TSSVerif.Model.PsEq.checkCommitmentForm ∧
    TSSVerif.Gen.Ps.verifySigPoK = TSSVerif.Model.PsEq.verifySigPoK ∧ TSSVerif.Gen.Ps.localKeyGen = TSSVerif.Model.PsEq.localKeyGen ∧
    TSSVerif.Gen.Ps.proveKnowledge = TSSVerif.Model.PsEq.proveKnowledge ∧ TSSVerif.Gen.Ps.proverUnBlind = TSSVerif.Model.PsEq.proverUnBlind := by
  decide +kernel

/-! ### the evaluation points of the shares and of the coefficients must be the same (defect F31)

`witnesses_aggregate` uses one map `v` from signers to evaluation points, both for the point at which a signer's share
was evaluated and for the Lagrange coefficient. Until fix F31 the code used two: the key generation evaluates at the
party's position + 1, `Prover.ProveKnowledgeOfSignature` computed the coefficients from the party *identifiers*. The
witness below is the smallest instance of what then goes wrong (parties `[2, 3]`: positions 1, 2; polynomial `X`). -/

theorem univ_erase_zero : (Finset.univ : Finset (Fin 2)).erase 0 = {1} := by decide
theorem univ_erase_one : (Finset.univ : Finset (Fin 2)).erase 1 = {0} := by decide

open TSSVerif.Props.C18 in
/-- coefficients for the points 2, 3 applied to shares taken at the points 1, 2 do not reconstruct the secret -/
theorem mismatched_points_witness :
    ∑ k ∈ (Finset.univ : Finset (Fin 2)), (X : ℚ[X]).eval (![1, 2] k) * lam Finset.univ ![(2 : ℚ), 3] k
      ≠ (X : ℚ[X]).eval 0 := by
  rw [Fin.sum_univ_two]
  simp only [lam, univ_erase_zero, univ_erase_one, Finset.prod_singleton, eval_X]
  norm_num

/-- **The key generation this property's flows start from is the one modelled** (`Model/Dkg`, shared with C01/C05): the
statements of the PS backend's `OnMsg`, `KeyGen`, its three wait loops and its commit / reveal / validation functions,
regenerated from `/repo` on this run, are the committed ones. (The property quantifies over DKG delivery schedules: a
change in how arriving shares, commitments and keys are recorded is a change to what it is about.) -/
theorem source_as_modelled : TSSVerif.Gen.Stmts.dkgps = TSSVerif.Model.StmtsExpected.dkgps := by
  decide +kernel

end TSSVerif.Props.C08
