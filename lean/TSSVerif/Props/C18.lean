import TSSVerif.Proofs.SssAlgebra
import TSSVerif.Proofs.Choose
import TSSVerif.Gen.Stmts
import TSSVerif.Model.StmtsExpected
/-!
# C18 — secret sharing algebra: any t shares reconstruct; all t-subsets cross-checked

Three layers, all unbounded in n, t, subsets and polynomials:
* pure algebra over an arbitrary field / an arbitrary module over it (`reconstruct_eq`,
  `aggregate_in_exponent`, `on_polynomial_accepted`, `single_bad_key_detected`);
* the **executable** scalar model that the driver runs against the real `sss.go`
  (`exec_lagrange_is_lagrange`, `exec_reconstruct_correct`: for every prime modulus, every
  coefficient list, every n below the modulus, every duplicate-free list of ≥ t points);
* the subset enumeration (`choose_spec`: every k-subset exactly once, for all n, k).
-/
open Polynomial Finset
namespace TSSVerif.Props.C18
open TSSVerif.Model.Sss TSSVerif.Proofs.Sss TSSVerif.Proofs.Choose

/-- the Lagrange coefficient at zero of node `i` within the node set `s` -/
noncomputable def lam {F : Type*} [Field F] {ι : Type*} [DecidableEq ι] (s : Finset ι) (v : ι → F) (i : ι) : F :=
  ∏ j ∈ s.erase i, (v j / (v j - v i))

/-- **Any |S| shares of a polynomial of degree < |S| reconstruct its value at 0** (the dealt
secret), over every field, for pairwise distinct evaluation points. -/
theorem reconstruct_eq {F : Type*} [Field F] {ι : Type*} [DecidableEq ι] (s : Finset ι) (v : ι → F)
    (hv : Set.InjOn v s) (f : F[X]) (hf : f.degree < s.card) :
    ∑ i ∈ s, f.eval (v i) * lam s v i = f.eval 0 :=
  TSSVerif.Proofs.Sss.reconstruct_eq s v hv f hf

/-- **Aggregation in the exponent**: combining the public keys (or partial signatures) `sᵢ • g`
with coefficients `λᵢ` gives `(Σ λᵢ sᵢ) • g`, in any module over the scalar field. -/
theorem aggregate_in_exponent {F : Type*} [Field F] {G : Type*} [AddCommGroup G] [Module F G]
    {ι : Type*} (s : Finset ι) (l sh : ι → F) (g : G) :
    ∑ i ∈ s, l i • (sh i • g) = (∑ i ∈ s, l i * sh i) • g := by
  rw [Finset.sum_smul]
  apply Finset.sum_congr rfl
  intro i _; rw [smul_smul]

/-- "Equivalently: the public keys of the shares aggregate to the public key of the secret." -/
theorem public_keys_aggregate {F : Type*} [Field F] {G : Type*} [AddCommGroup G] [Module F G]
    {ι : Type*} [DecidableEq ι] (s : Finset ι) (v : ι → F) (hv : Set.InjOn v s) (f : F[X])
    (hf : f.degree < s.card) (g : G) :
    ∑ i ∈ s, lam s v i • (f.eval (v i) • g) = f.eval 0 • g := by
  rw [aggregate_in_exponent, ← reconstruct_eq s v hv f hf]
  congr 1
  apply Finset.sum_congr rfl
  intro i _; ring

/-- **Keys on one polynomial are always accepted** by the cross-check: every t-subset aggregates to
the same value `f(0) • g`, so the set of distinct aggregates has one element. -/
theorem on_polynomial_accepted {F : Type*} [Field F] {G : Type*} [AddCommGroup G] [Module F G]
    {ι : Type*} [DecidableEq ι] (v : ι → F) (f : F[X]) (g : G) (s s' : Finset ι)
    (hv : Set.InjOn v s) (hv' : Set.InjOn v s') (hf : f.degree < s.card) (hf' : f.degree < s'.card) :
    ∑ i ∈ s, lam s v i • (f.eval (v i) • g) = ∑ i ∈ s', lam s' v i • (f.eval (v i) • g) := by
  rw [public_keys_aggregate s v hv f hf g, public_keys_aggregate s' v hv' f hf' g]

theorem lam_ne_zero {F : Type*} [Field F] {ι : Type*} [DecidableEq ι] (s : Finset ι) (v : ι → F)
    (hv : Set.InjOn v s) (h0 : ∀ i ∈ s, v i ≠ 0) (j : ι) (hj : j ∈ s) : lam s v j ≠ 0 := by
  unfold lam
  rw [Finset.prod_ne_zero_iff]
  intro m hm
  have hms := Finset.mem_of_mem_erase hm
  have hne : v m ≠ v j := fun e => (Finset.ne_of_mem_erase hm) (hv hms hj e)
  exact div_ne_zero (h0 m hms) (sub_ne_zero.mpr hne)

/-- **A single off-polynomial key is detected whichever party it belongs to**: if party `j`'s key is
`(f(vⱼ) + δ) • g` with `δ ≠ 0` and everybody else's is on `f`, then a t-subset containing `j` and a
t-subset not containing `j` (which exists as soon as t < n) aggregate to different values. Needs
non-zero, pairwise distinct evaluation points (1..n with n below the group order) and `g ≠ 0`. -/
theorem single_bad_key_detected {F : Type*} [Field F] {G : Type*} [AddCommGroup G] [Module F G]
    [Module.IsTorsionFree F G]
    {ι : Type*} [DecidableEq ι] (v : ι → F) (f : F[X]) (g : G) (hg : g ≠ 0) (j : ι) (δ : F) (hδ : δ ≠ 0)
    (s s' : Finset ι) (hj : j ∈ s) (hj' : j ∉ s')
    (hv : Set.InjOn v s) (hv' : Set.InjOn v s') (h0 : ∀ i ∈ s, v i ≠ 0)
    (hf : f.degree < s.card) (hf' : f.degree < s'.card) :
    let y : ι → F := fun i => if i = j then f.eval (v i) + δ else f.eval (v i)
    ∑ i ∈ s, lam s v i • (y i • g) ≠ ∑ i ∈ s', lam s' v i • (y i • g) := by
  intro y
  have h2 : ∑ i ∈ s', lam s' v i • (y i • g) = f.eval 0 • g := by
    rw [← public_keys_aggregate s' v hv' f hf' g]
    apply Finset.sum_congr rfl
    intro i hi
    have : i ≠ j := fun e => hj' (e ▸ hi)
    simp [y, this]
  have h1 : ∑ i ∈ s, lam s v i • (y i • g) = f.eval 0 • g + (lam s v j * δ) • g := by
    rw [← public_keys_aggregate s v hv f hf g, aggregate_in_exponent, aggregate_in_exponent, ← add_smul]
    congr 1
    have : ∀ i ∈ s, lam s v i * y i = lam s v i * f.eval (v i) + (if i = j then lam s v j * δ else 0) := by
      intro i _
      by_cases e : i = j
      · subst e; simp [y]; ring
      · simp [y, e]
    rw [Finset.sum_congr rfl this, Finset.sum_add_distrib, Finset.sum_ite_eq' s j]
    simp [hj]
  rw [h1, h2]
  intro e
  have : (lam s v j * δ) • g = 0 := by
    have := congrArg (fun x => x - f.eval 0 • g) e
    simpa using this
  rcases smul_eq_zero.mp this with h | h
  · exact (mul_ne_zero (lam_ne_zero s v hv h0 j hj) hδ) h
  · exact hg h

/-! ## the executable model (what the driver runs against `sss.go`) -/

/-- the executable `lagrangeCoefficient`, whenever it does not panic, is the Lagrange coefficient -/
theorem exec_lagrange_is_lagrange (p : ℕ) [Fact p.Prime] (i : Int) (pts : List Int)
    (hd : ∀ j ∈ pts, j ≠ i → ((j : ZMod p) - (i : ZMod p)) ≠ 0) (v : Int)
    (h : lagrangeCoefficient (p : Int) i pts = some v) :
    (v : ZMod p) = ((pts.filter (fun j => decide (j ≠ i))).map
        (fun (j : Int) => (j : ZMod p) / ((j : ZMod p) - (i : ZMod p)))).prod :=
  lagrange_cast p i pts hd v h

/-- … and it panics exactly when there is no other evaluation point -/
theorem exec_lagrange_panics_iff (p : ℕ) [Fact p.Prime] (i : Int) (pts : List Int) :
    lagrangeCoefficient (p : Int) i pts = none ↔ pts.filter (fun j => decide (j ≠ i)) = [] :=
  lagrange_panics_iff p i pts

/-- **End to end on the executable model**: for every prime modulus `p`, every coefficient list
(threshold t = its length), every n < p, every duplicate-free list of at least t (and at least 2)
evaluation points among 1..n: `reconstruct (gen …)` does not panic and returns the dealt secret. -/
theorem exec_reconstruct_correct (p : ℕ) [Fact p.Prime] (c0 : Int) (cs : List Int) (n : Nat) (hn : n < p)
    (pts : List Int) (hnd : pts.Nodup) (hr : ∀ x ∈ pts, 1 ≤ x ∧ x ≤ n)
    (ht : (c0 :: cs).length ≤ pts.length) (h2 : 2 ≤ pts.length) :
    ∃ v, reconstruct (p : Int) (gen (p : Int) (c0 :: cs) n) pts = some v ∧ ((v : Int) : ZMod p) = (c0 : ZMod p) :=
  reconstruct_correct p c0 cs n hn pts hnd hr ht h2

/-! ## subset enumeration -/

/-- **`chooseKoutOfN n k` lists every k-subset of {1..n} as an increasing list, exactly once**, for
all n and k — so the DKG cross-check really covers every t-subset. -/
theorem choose_spec (n k : Nat) :
    (chooseKoutOfN n k).Nodup ∧
    ∀ l, l ∈ chooseKoutOfN n k ↔ (l.Pairwise (· < ·) ∧ l.length = k ∧ ∀ x ∈ l, 1 ≤ x ∧ x ≤ n) := by
  refine ⟨nodup_choose n k 0 [], ?_⟩
  intro l
  unfold chooseKoutOfN
  rw [mem_choose]
  constructor
  · rintro ⟨ext, e, hs, hr, hl⟩
    simp only [List.nil_append] at e
    subst e
    exact ⟨hs, by simpa using hl, fun x hx => by have := hr x hx; omega⟩
  · rintro ⟨hs, hl, hr⟩
    exact ⟨l, by simp, hs, fun x hx => by have := hr x hx; omega, by simpa using hl⟩

/-! ## non-vacuity -/

example : chooseKoutOfN 4 2 = [[1, 2], [1, 3], [1, 4], [2, 3], [2, 4], [3, 4]] := by decide +kernel
example : reconstruct 101 (gen 101 [5, 3, 2] 4) [4, 1, 3] = some 5 := by decide +kernel
example : lagrangeCoefficient 101 1 [1] = none := by decide +kernel

/-- **The source the model was transcribed from is the current source**: the statements of `ValueAt`, `reconstruct`, `Gen`, `lagrangeCoefficient`, `chooseKoutOfN` / `choose` / `concatInts` and the aggregation functions, in both the `mpc/bls` and the `mpc/ps` copy, regenerated from
`/repo` on this run, are the committed ones (logging left out). A change of any of them — harmless or not — fails here
first; the differential and monitored runs of this property are then the search for an input on which it fails. -/
theorem source_as_modelled : TSSVerif.Gen.Stmts.sss = TSSVerif.Model.StmtsExpected.sss := by
  decide +kernel

end TSSVerif.Props.C18
