import TSSVerif.Proofs.SssAlgebra
import TSSVerif.Proofs.Choose
import TSSVerif.Gen.Stmts
import TSSVerif.Model.StmtsExpected
/-!
# C18 — secret sharing algebra: any t shares reconstruct; all t-subsets cross-checked

Three layers, all unbounded in n, t, subsets and polynomials:
* pure algebra over an arbitrary field / an arbitrary module over it (`reconstruct_eq`,
  `aggregate_in_exponent`, `on_polynomial_accepted`, `single_bad_key_detected`);
* the **executable** scalar model that the driver runs against the real `sss.go`
  (`exec_lagrange_is_lagrange`, `exec_reconstruct_correct`: for every prime modulus, every
  coefficient list, every n below the modulus, every duplicate-free list of ≥ t points);
* the subset enumeration (`choose_spec`: every k-subset exactly once, for all n, k).
-/
open Polynomial Finset
namespace TSSVerif.Props.C18
open TSSVerif.Model.Sss TSSVerif.Proofs.Sss TSSVerif.Proofs.Choose

/-- the Lagrange coefficient at zero of node `i` within the node set `s` -/
noncomputable def lam {F : Type*} [Field F] {ι : Type*} [DecidableEq ι] (s : Finset ι) (v : ι → F) (i : ι) : F :=
  ∏ j ∈ s.erase i, (v j / (v j - v i))

/-- **Any |S| shares of a polynomial of degree < |S| reconstruct its value at 0** (the dealt
secret), over every field, for pairwise distinct evaluation points. -/
theorem reconstruct_eq {F : Type*} [Field F] {ι : Type*} [DecidableEq ι] (s : Finset ι) (v : ι → F)
    (hv : Set.InjOn v s) (f : F[X]) (hf : f.degree < s.card) :
    ∑ i ∈ s, f.eval (v i) * lam s v i = f.eval 0 :=
  TSSVerif.Proofs.Sss.reconstruct_eq s v hv f hf

/-- **Aggregation in the exponent**: combining the public keys (or partial signatures) `sᵢ • g`
with coefficients `λᵢ` gives `(Σ λᵢ sᵢ) • g`, in any module over the scalar field. -/
theorem aggregate_in_exponent {F : Type*} [Field F] {G : Type*} [AddCommGroup G] [Module F G]
    {ι : Type*} (s : Finset ι) (l sh : ι → F) (g : G) :
    ∑ i ∈ s, l i • (sh i • g) = (∑ i ∈ s, l i * sh i) • g := by
  rw [Finset.sum_smul]
  apply Finset.sum_congr rfl
  intro i _; rw [smul_smul]

/-- "Equivalently: the public keys of the shares aggregate to the public key of the secret." -/
theorem public_keys_aggregate {F : Type*} [Field F] {G : Type*} [AddCommGroup G] [Module F G]
    {ι : Type*} [DecidableEq ι] (s : Finset ι) (v : ι → F) (hv : Set.InjOn v s) (f : F[X])
    (hf : f.degree < s.card) (g : G) :
    ∑ i ∈ s, lam s v i • (f.eval (v i) • g) = f.eval 0 • g := by
  rw [aggregate_in_exponent, ← reconstruct_eq s v hv f hf]
  congr 1
  apply Finset.sum_congr rfl
  intro i _; ring

/-- **Keys on one polynomial are always accepted** by the cross-check: every t-subset aggregates to
the same value `f(0) • g`, so the set of distinct aggregates has one element. -/
theorem on_polynomial_accepted {F : Type*} [Field F] {G : Type*} [AddCommGroup G] [Module F G]
    {ι : Type*} [DecidableEq ι] (v : ι → F) (f : F[X]) (g : G) (s s' : Finset ι)
    (hv : Set.InjOn v s) (hv' : Set.InjOn v s') (hf : f.degree < s.card) (hf' : f.degree < s'.card) :
    ∑ i ∈ s, lam s v i • (f.eval (v i) • g) = ∑ i ∈ s', lam s' v i • (f.eval (v i) • g) := by
  rw [public_keys_aggregate s v hv f hf g, public_keys_aggregate s' v hv' f hf' g]

theorem lam_ne_zero {F : Type*} [Field F] {ι : Type*} [DecidableEq ι] (s : Finset ι) (v : ι → F)
    (hv : Set.InjOn v s) (h0 : ∀ i ∈ s, v i ≠ 0) (j : ι) (hj : j ∈ s) : lam s v j ≠ 0 := by
  unfold lam
  rw [Finset.prod_ne_zero_iff]
  intro m hm
  have hms := Finset.mem_of_mem_erase hm
  have hne : v m ≠ v j := fun e => (Finset.ne_of_mem_erase hm) (hv hms hj e)
  exact div_ne_zero (h0 m hms) (sub_ne_zero.mpr hne)

/-- **A single off-polynomial key is detected whichever party it belongs to**: if party `j`'s key is
`(f(vⱼ) + δ) • g` with `δ ≠ 0` and everybody else's is on `f`, then a t-subset containing `j` and a
t-subset not containing `j` (which exists as soon as t < n) aggregate to different values. Needs
non-zero, pairwise distinct evaluation points (1..n with n below the group order) and `g ≠ 0`. -/
theorem single_bad_key_detected {F : Type*} [Field F] {G : Type*} [AddCommGroup G] [Module F G]
    [Module.IsTorsionFree F G]
    {ι : Type*} [DecidableEq ι] (v : ι → F) (f : F[X]) (g : G) (hg : g ≠ 0) (j : ι) (δ : F) (hδ : δ ≠ 0)
    (s s' : Finset ι) (hj : j ∈ s) (hj' : j ∉ s')
    (hv : Set.InjOn v s) (hv' : Set.InjOn v s') (h0 : ∀ i ∈ s, v i ≠ 0)
    (hf : f.degree < s.card) (hf' : f.degree < s'.card) :
    let y : ι → F := fun i => if i = j then f.eval (v i) + δ else f.eval (v i)
    ∑ i ∈ s, lam s v i • (y i • g) ≠ ∑ i ∈ s', lam s' v i • (y i • g) := by
  intro y
  have h2 : ∑ i ∈ s', lam s' v i • (y i • g) = f.eval 0 • g := by
    rw [← public_keys_aggregate s' v hv' f hf' g]
    apply Finset.sum_congr rfl
    intro i hi
    have : i ≠ j := fun e => hj' (e ▸ hi)
    simp [y, this]
  have h1 : ∑ i ∈ s, lam s v i • (y i • g) = f.eval 0 • g + (lam s v j * δ) • g := by
    rw [← public_keys_aggregate s v hv f hf g, aggregate_in_exponent, aggregate_in_exponent, ← add_smul]
    congr 1
    have : ∀ i ∈ s, lam s v i * y i = lam s v i * f.eval (v i) + (if i = j then lam s v j * δ else 0) := by
      intro i _
      by_cases e : i = j
      · subst e; simp [y]; ring
      · simp [y, e]
    rw [Finset.sum_congr rfl this, Finset.sum_add_distrib, Finset.sum_ite_eq' s j]
    simp [hj]
  rw [h1, h2]
  intro e
  have : (lam s v j * δ) • g = 0 := by
    have := congrArg (fun x => x - f.eval 0 • g) e
    simpa using this
  rcases smul_eq_zero.mp this with h | h
  · exact (mul_ne_zero (lam_ne_zero s v hv h0 j hj) hδ) h
  · exact hg h

/-! ## fewer than `t` shares -/

/-- **Fewer than `t` shares are consistent with every secret**: for every set of fewer than `t` non-zero evaluation
points, every dealt polynomial `f` of degree `< t` and every candidate secret `c` there is a polynomial of degree `< t`
with exactly the same shares at those points and value `c` at 0 (`f + a·∏(X − vᵢ)`). -/
theorem fewer_than_t_any_secret {F : Type*} [Field F] {ι : Type*} [DecidableEq ι] (s : Finset ι) (v : ι → F)
    (h0 : ∀ i ∈ s, v i ≠ 0) (t : ℕ) (hs : s.card < t) (f : F[X]) (hf : f.degree < t) (c : F) :
    ∃ f' : F[X], f'.degree < t ∧ f'.eval 0 = c ∧ ∀ i ∈ s, f'.eval (v i) = f.eval (v i) := by
  have hP0 : (∏ i ∈ s, (X - C (v i))).eval 0 ≠ 0 := by
    rw [eval_prod]
    apply Finset.prod_ne_zero_iff.mpr
    intro i hi
    simpa using h0 i hi
  have hPdeg : (∏ i ∈ s, (X - C (v i))).degree ≤ (s.card : WithBot ℕ) := by
    apply degree_le_of_natDegree_le
    rw [natDegree_finsetProd_X_sub_C_eq_card]
  refine ⟨f + C ((c - f.eval 0) / (∏ i ∈ s, (X - C (v i))).eval 0) * ∏ i ∈ s, (X - C (v i)), ?_, ?_, ?_⟩
  · apply lt_of_le_of_lt (degree_add_le _ _)
    apply max_lt hf
    refine lt_of_le_of_lt ?_ (show ((s.card : ℕ) : WithBot ℕ) < t by exact_mod_cast hs)
    calc _ ≤ (C ((c - f.eval 0) / (∏ i ∈ s, (X - C (v i))).eval 0)).degree + (∏ i ∈ s, (X - C (v i))).degree :=
          degree_mul_le _ _
      _ ≤ 0 + (s.card : WithBot ℕ) := add_le_add degree_C_le hPdeg
      _ = s.card := zero_add _
  · simp only [eval_add, eval_mul, eval_C]
    rw [div_mul_cancel₀ _ hP0]; ring
  · intro i hi
    have hz : (∏ j ∈ s, (X - C (v j))).eval (v i) = 0 := by
      rw [eval_prod]; exact Finset.prod_eq_zero hi (by simp)
    simp only [eval_add, eval_mul, hz, mul_zero, add_zero]

/-- hence **no way of combining fewer than `t` shares** (any function of the shares at those points — in particular the
library's Lagrange combination) **yields the secret of every dealt polynomial**. -/
theorem fewer_than_t_not_determined {F : Type*} [Field F] {ι : Type*} [DecidableEq ι] (s : Finset ι) (v : ι → F)
    (h0 : ∀ i ∈ s, v i ≠ 0) (t : ℕ) (hs : s.card < t)
    (comb : (ι → F) → F) (hcomb : ∀ y y' : ι → F, (∀ i ∈ s, y i = y' i) → comb y = comb y') :
    ∃ f : F[X], f.degree < t ∧ comb (fun i => f.eval (v i)) ≠ f.eval 0 := by
  have ht : (0 : F[X]).degree < (t : WithBot ℕ) := by simp [degree_zero]
  by_cases h : comb (fun i => (0 : F[X]).eval (v i)) = (0 : F[X]).eval 0
  · obtain ⟨f', hd, hz, hag⟩ := fewer_than_t_any_secret s v h0 t hs 0 ht 1
    refine ⟨f', hd, ?_⟩
    rw [hcomb (fun i => f'.eval (v i)) (fun i => (0 : F[X]).eval (v i)) hag, h, hz]
    simp
  · exact ⟨0, ht, h⟩

/-- **`t − 1` shares never give the secret under the library's own combination**: for a dealt polynomial of degree
exactly `|S|` (threshold `t = |S| + 1`, leading coefficient non-zero — all but a fraction `1/p` of what `SSS.Gen` deals),
the Lagrange combination of its shares at `S` differs from the secret: it is `f(0) − lc(f)·∏(−vᵢ)`. So a signature
aggregated from `t − 1` shares is never the signature under the threshold key (`Props/C09.bls_verify_iff`). -/
theorem t_minus_one_shares_miss {F : Type*} [Field F] {ι : Type*} [DecidableEq ι] (s : Finset ι) (v : ι → F)
    (hv : Set.InjOn v s) (h0 : ∀ i ∈ s, v i ≠ 0) (f : F[X]) (hf : f.degree = s.card) :
    ∑ i ∈ s, f.eval (v i) * lam s v i ≠ f.eval 0 := by
  have hf0 : f ≠ 0 := by
    intro e; rw [e, degree_zero] at hf; exact WithBot.bot_ne_natCast _ hf
  have hlc : f.leadingCoeff ≠ 0 := leadingCoeff_ne_zero.mpr hf0
  have hPm : (∏ i ∈ s, (X - C (v i))).Monic := monic_prod_of_monic _ _ (fun i _ => monic_X_sub_C (v i))
  have hPd : (∏ i ∈ s, (X - C (v i))).degree = ((s.card : ℕ) : WithBot ℕ) := by
    rw [degree_eq_natDegree hPm.ne_zero, natDegree_finsetProd_X_sub_C_eq_card]
  have hP0 : (∏ i ∈ s, (X - C (v i))).eval 0 ≠ 0 := by
    rw [eval_prod]
    apply Finset.prod_ne_zero_iff.mpr
    intro i hi
    simpa using h0 i hi
  have hQd : (C f.leadingCoeff * ∏ i ∈ s, (X - C (v i))).degree = ((s.card : ℕ) : WithBot ℕ) := by
    rw [degree_C_mul hlc, hPd]
  have hQl : (C f.leadingCoeff * ∏ i ∈ s, (X - C (v i))).leadingCoeff = f.leadingCoeff := by
    rw [leadingCoeff_mul, leadingCoeff_C, hPm.leadingCoeff, mul_one]
  have hg : (f - C f.leadingCoeff * ∏ i ∈ s, (X - C (v i))).degree < ((s.card : ℕ) : WithBot ℕ) := by
    have := degree_sub_lt_left (hf.trans hQd.symm) hf0 hQl.symm
    rwa [hf] at this
  have hag : ∀ i ∈ s, (f - C f.leadingCoeff * ∏ j ∈ s, (X - C (v j))).eval (v i) = f.eval (v i) := by
    intro i hi
    have hz : (∏ j ∈ s, (X - C (v j))).eval (v i) = 0 := by
      rw [eval_prod]; exact Finset.prod_eq_zero hi (by simp)
    simp only [eval_sub, eval_mul, hz, mul_zero, sub_zero]
  have hr := reconstruct_eq s v hv _ hg
  rw [Finset.sum_congr rfl (fun i hi => by rw [hag i hi])] at hr
  rw [hr]
  simp only [eval_sub, eval_mul, eval_C]
  intro e
  have : f.leadingCoeff * (∏ i ∈ s, (X - C (v i))).eval 0 = 0 := by linear_combination -e
  exact (mul_ne_zero hlc hP0) this

/-- non-vacuity: the hypotheses of `t_minus_one_shares_miss` are met by the points 1, 2 over ℚ and `f = X²` (t = 3);
the same data meet those of `fewer_than_t_any_secret` / `fewer_than_t_not_determined` with t = 3 -/
example : ∃ (s : Finset (Fin 2)) (v : Fin 2 → ℚ) (f : ℚ[X]),
    Set.InjOn v s ∧ (∀ i ∈ s, v i ≠ 0) ∧ f.degree = ((s.card : ℕ) : WithBot ℕ) ∧ s.card < 3 ∧ f.degree < ((3 : ℕ) : WithBot ℕ) := by
  refine ⟨Finset.univ, fun i => (i.val : ℚ) + 1, X ^ 2, ?_, ?_, ?_, ?_, ?_⟩
  · intro a _ b _ h
    have : (a.val : ℚ) = b.val := by simpa using h
    exact Fin.ext (by exact_mod_cast this)
  · intro i _
    positivity
  · rw [degree_X_pow]; simp
  · simp
  · rw [degree_X_pow]; exact_mod_cast (by norm_num : (2 : ℕ) < 3)

/-! ## the executable model (what the driver runs against `sss.go`) -/

/-- the executable `lagrangeCoefficient`, whenever it does not panic, is the Lagrange coefficient -/
theorem exec_lagrange_is_lagrange (p : ℕ) [Fact p.Prime] (i : Int) (pts : List Int)
    (hd : ∀ j ∈ pts, j ≠ i → ((j : ZMod p) - (i : ZMod p)) ≠ 0) (v : Int)
    (h : lagrangeCoefficient (p : Int) i pts = some v) :
    (v : ZMod p) = ((pts.filter (fun j => decide (j ≠ i))).map
        (fun (j : Int) => (j : ZMod p) / ((j : ZMod p) - (i : ZMod p)))).prod :=
  lagrange_cast p i pts hd v h

/-- … and it panics exactly when there is no other evaluation point -/
theorem exec_lagrange_panics_iff (p : ℕ) [Fact p.Prime] (i : Int) (pts : List Int) :
    lagrangeCoefficient (p : Int) i pts = none ↔ pts.filter (fun j => decide (j ≠ i)) = [] :=
  lagrange_panics_iff p i pts

/-- **End to end on the executable model**: for every prime modulus `p`, every coefficient list
(threshold t = its length), every n < p, every duplicate-free list of at least t (and at least 2)
evaluation points among 1..n: `reconstruct (gen …)` does not panic and returns the dealt secret. -/
theorem exec_reconstruct_correct (p : ℕ) [Fact p.Prime] (c0 : Int) (cs : List Int) (n : Nat) (hn : n < p)
    (pts : List Int) (hnd : pts.Nodup) (hr : ∀ x ∈ pts, 1 ≤ x ∧ x ≤ n)
    (ht : (c0 :: cs).length ≤ pts.length) (h2 : 2 ≤ pts.length) :
    ∃ v, reconstruct (p : Int) (gen (p : Int) (c0 :: cs) n) pts = some v ∧ ((v : Int) : ZMod p) = (c0 : ZMod p) :=
  reconstruct_correct p c0 cs n hn pts hnd hr ht h2

/-! ## subset enumeration -/

/-- **`chooseKoutOfN n k` lists every k-subset of {1..n} as an increasing list, exactly once**, for
all n and k — so the DKG cross-check really covers every t-subset. -/
theorem choose_spec (n k : Nat) :
    (chooseKoutOfN n k).Nodup ∧
    ∀ l, l ∈ chooseKoutOfN n k ↔ (l.Pairwise (· < ·) ∧ l.length = k ∧ ∀ x ∈ l, 1 ≤ x ∧ x ≤ n) := by
  refine ⟨nodup_choose n k 0 [], ?_⟩
  intro l
  unfold chooseKoutOfN
  rw [mem_choose]
  constructor
  · rintro ⟨ext, e, hs, hr, hl⟩
    simp only [List.nil_append] at e
    subst e
    exact ⟨hs, by simpa using hl, fun x hx => by have := hr x hx; omega⟩
  · rintro ⟨hs, hl, hr⟩
    exact ⟨l, by simp, hs, fun x hx => by have := hr x hx; omega, by simpa using hl⟩

/-! ## non-vacuity -/

example : chooseKoutOfN 4 2 = [[1, 2], [1, 3], [1, 4], [2, 3], [2, 4], [3, 4]] := by decide +kernel
example : reconstruct 101 (gen 101 [5, 3, 2] 4) [4, 1, 3] = some 5 := by decide +kernel
example : lagrangeCoefficient 101 1 [1] = none := by decide +kernel

/-- **The source the model was transcribed from is the current source**: the statements of `ValueAt`, `reconstruct`, `Gen`, `lagrangeCoefficient`, `chooseKoutOfN` / `choose` / `concatInts` and the aggregation functions, in both the `mpc/bls` and the `mpc/ps` copy, regenerated from
`/repo` on this run, are the committed ones (logging left out). A change of any of them — harmless or not — fails here
first; the differential and monitored runs of this property are then the search for an input on which it fails. -/
theorem source_as_modelled : TSSVerif.Gen.Stmts.sss = TSSVerif.Model.StmtsExpected.sss := by
  decide +kernel

end TSSVerif.Props.C18
