import TSSVerif.Model.Ctl
import TSSVerif.Gen.Blocking
import TSSVerif.Gen.Stmts
import TSSVerif.Model.StmtsExpected
/-!
# C11 — KeyGen and Sign fail cleanly on timeout, cancellation or a vanished peer

`Model/Ctl.lean`: the built-in DKG `KeyGen` as a state machine over its blocking points, for **every
event sequence**: any number of shares, commitments and revealed keys in any order (so every point at
which any peer may fall silent, and every single withheld message), wake-ups at any moments, and the
end of the context at any position. Real time, the Go scheduler and the `context` package are not
modelled; the fault-point enumeration on the real stack (harness component `faults`) is the tie.
-/
set_option linter.unusedSimpArgs false
set_option linter.unusedVariables false
namespace TSSVerif.Props.C11
open TSSVerif.Model.Ctl

def returned (s : KG) : Bool := match s.phase with | .returned _ => true | _ => false

theorem wake_phase_cases (s : KG) (v : Bool) :
    (wake s v).1.phase ≠ .panicked ∨ s.phase = .panicked := by
  cases hp : s.phase with
  | panicked => right; rfl
  | returned ok => left; simp [wake, hp]
  | shares => left; simp only [wake, hp]; by_cases a : s.sharesHave = s.n - 1 <;> by_cases b : s.commitsHave = s.n - 1 <;> by_cases c : s.revealsHave = s.n - 1 <;> by_cases d : s.ctxDone = true <;> simp_all
  | commits => left; simp only [wake, hp]; by_cases a : s.sharesHave = s.n - 1 <;> by_cases b : s.commitsHave = s.n - 1 <;> by_cases c : s.revealsHave = s.n - 1 <;> by_cases d : s.ctxDone = true <;> simp_all
  | reveals => left; simp only [wake, hp]; by_cases a : s.sharesHave = s.n - 1 <;> by_cases b : s.commitsHave = s.n - 1 <;> by_cases c : s.revealsHave = s.n - 1 <;> by_cases d : s.ctxDone = true <;> simp_all

theorem wake_no_panic_out (s : KG) (v : Bool) : Out.panic ∉ (wake s v).2 := by
  cases hp : s.phase with
  | panicked => simp [wake, hp]
  | returned ok => simp [wake, hp]
  | shares => simp only [wake, hp]; by_cases a : s.sharesHave = s.n - 1 <;> by_cases b : s.commitsHave = s.n - 1 <;> by_cases c : s.revealsHave = s.n - 1 <;> by_cases d : s.ctxDone = true <;> simp_all
  | commits => simp only [wake, hp]; by_cases a : s.sharesHave = s.n - 1 <;> by_cases b : s.commitsHave = s.n - 1 <;> by_cases c : s.revealsHave = s.n - 1 <;> by_cases d : s.ctxDone = true <;> simp_all
  | reveals => simp only [wake, hp]; by_cases a : s.sharesHave = s.n - 1 <;> by_cases b : s.commitsHave = s.n - 1 <;> by_cases c : s.revealsHave = s.n - 1 <;> by_cases d : s.ctxDone = true <;> simp_all

/-- **Never a panic**: from a fresh instance no event sequence whatever leads to the panics that the
unrepaired code ran into (`combineShares` on a missing share, "programming error: … not found"). -/
theorem no_panic (n : Nat) (v : Bool) (evs : List Ev) :
    (run { n := n } v evs).1.phase ≠ .panicked ∧ Out.panic ∉ (run { n := n } v evs).2 := by
  suffices h : ∀ s : KG, s.phase ≠ .panicked →
      (run s v evs).1.phase ≠ .panicked ∧ Out.panic ∉ (run s v evs).2 from h _ (by simp)
  induction evs with
  | nil => intro s hs; exact ⟨hs, by simp [run]⟩
  | cons e rest ih =>
    intro s hs
    simp only [run, List.mem_append, not_or]
    have h1 : (step s v e).1.phase ≠ .panicked ∧ Out.panic ∉ (step s v e).2 := by
      cases e with
      | wake =>
        simp only [step]
        refine ⟨?_, ?_⟩
        · rcases wake_phase_cases s v with h | h
          · exact h
          · exact absurd h hs
        · exact wake_no_panic_out s v
      | share => simp [step, hs]
      | commit => simp [step, hs]
      | reveal => simp [step, hs]
      | ctxDone => simp [step, hs]
    obtain ⟨a, b⟩ := ih _ h1.1
    exact ⟨a, h1.2, b⟩

/-- **Cancellation leads to a return.** In whatever state the instance is — whatever arrived so far,
whichever peer stopped wherever — once the context has ended, the next time the KeyGen goroutine
runs it returns (the context monitor guarantees that it runs). -/
theorem cancel_then_wake_returns (s : KG) (v : Bool) (hp : s.phase ≠ .panicked) (hc : s.ctxDone = true) :
    returned (wake s v).1 = true := by
  cases hph : s.phase with
  | panicked => exact absurd hph hp
  | returned ok => simp [wake, returned, hph]
  | shares => simp only [wake, hph, returned]; by_cases a : s.sharesHave = s.n - 1 <;> by_cases b : s.commitsHave = s.n - 1 <;> by_cases c : s.revealsHave = s.n - 1 <;> by_cases d : s.ctxDone = true <;> simp_all
  | commits => simp only [wake, hph, returned]; by_cases a : s.sharesHave = s.n - 1 <;> by_cases b : s.commitsHave = s.n - 1 <;> by_cases c : s.revealsHave = s.n - 1 <;> by_cases d : s.ctxDone = true <;> simp_all
  | reveals => simp only [wake, hph, returned]; by_cases a : s.sharesHave = s.n - 1 <;> by_cases b : s.commitsHave = s.n - 1 <;> by_cases c : s.revealsHave = s.n - 1 <;> by_cases d : s.ctxDone = true <;> simp_all

/-- … for every event prefix: after the context ended and one more wake-up, the call has returned,
and it stays returned. -/
theorem cancel_returns (n : Nat) (v : Bool) (pre post : List Ev) :
    returned (run { n := n } v (pre ++ [.ctxDone, .wake] ++ post)).1 = true := by
  have hrun_append : ∀ (s : KG) (a b : List Ev), (run s v (a ++ b)).1 = (run (run s v a).1 v b).1 := by
    intro s a b
    induction a generalizing s with
    | nil => rfl
    | cons e r ih => simp only [List.cons_append, run]; exact ih _
  have hstay : ∀ (evs : List Ev) (s : KG), returned s = true → returned (run s v evs).1 = true := by
    intro evs
    induction evs with
    | nil => intro s h; exact h
    | cons e r ih =>
      intro s h
      simp only [run]
      apply ih
      unfold returned at h ⊢
      cases hph : s.phase with
      | returned ok =>
        cases e <;> simp [step, wake, hph]
      | shares => simp [hph] at h
      | commits => simp [hph] at h
      | reveals => simp [hph] at h
      | panicked => simp [hph] at h
  rw [hrun_append, hrun_append]
  apply hstay
  have hnp := (no_panic n v pre).1
  generalize (run { n := n } v pre).1 = s at hnp
  simp only [run, step]
  exact cancel_then_wake_returns _ v (by simpa using hnp) rfl

/-- after cancellation the result is an error unless everything had arrived already -/
theorem cancel_result_is_error (s : KG) (v : Bool) (hc : s.ctxDone = true)
    (hmissing : s.sharesHave ≠ s.n - 1 ∨ s.commitsHave ≠ s.n - 1 ∨ s.revealsHave ≠ s.n - 1)
    (hph : s.phase = .shares) : Out.ret true ∉ (wake s v).2 := by
  simp only [wake, hph]
  by_cases a : s.sharesHave = s.n - 1 <;> by_cases b : s.commitsHave = s.n - 1 <;> by_cases c : s.revealsHave = s.n - 1 <;> by_cases d : s.ctxDone = true <;> simp_all

/-- **No disclosure before all commitments are held** (second claim of C05): in every trace, the
public key is revealed only in a state in which the commitments of all other participants have
arrived. -/
theorem reveal_only_with_all_commitments (s : KG) (v : Bool) (h : Out.sendReveal ∈ (wake s v).2) :
    s.commitsHave = s.n - 1 := by
  cases hph : s.phase with
  | panicked => simp [wake, hph] at h
  | returned ok => simp [wake, hph] at h
  | shares => simp only [wake, hph] at h; by_cases a : s.sharesHave = s.n - 1 <;> by_cases b : s.commitsHave = s.n - 1 <;> by_cases c : s.revealsHave = s.n - 1 <;> by_cases d : s.ctxDone = true <;> simp_all
  | commits => simp only [wake, hph] at h; by_cases a : s.sharesHave = s.n - 1 <;> by_cases b : s.commitsHave = s.n - 1 <;> by_cases c : s.revealsHave = s.n - 1 <;> by_cases d : s.ctxDone = true <;> simp_all
  | reveals => simp only [wake, hph] at h; by_cases a : s.sharesHave = s.n - 1 <;> by_cases b : s.commitsHave = s.n - 1 <;> by_cases c : s.revealsHave = s.n - 1 <;> by_cases d : s.ctxDone = true <;> simp_all

/-- … and shares are combined (the commitment is computed and sent) only when all shares arrived -/
theorem commit_only_with_all_shares (s : KG) (v : Bool) (h : Out.sendCommit ∈ (wake s v).2) :
    s.sharesHave = s.n - 1 := by
  cases hph : s.phase with
  | panicked => simp [wake, hph] at h
  | returned ok => simp [wake, hph] at h
  | shares => simp only [wake, hph] at h; by_cases a : s.sharesHave = s.n - 1 <;> by_cases b : s.commitsHave = s.n - 1 <;> by_cases c : s.revealsHave = s.n - 1 <;> by_cases d : s.ctxDone = true <;> simp_all
  | commits => simp only [wake, hph] at h; by_cases a : s.sharesHave = s.n - 1 <;> by_cases b : s.commitsHave = s.n - 1 <;> by_cases c : s.revealsHave = s.n - 1 <;> by_cases d : s.ctxDone = true <;> simp_all
  | reveals => simp only [wake, hph] at h; by_cases a : s.sharesHave = s.n - 1 <;> by_cases b : s.commitsHave = s.n - 1 <;> by_cases c : s.revealsHave = s.n - 1 <;> by_cases d : s.ctxDone = true <;> simp_all

/-! ## the result channel never blocks a sender -/

def ChanInv (c : Chan) : Prop :=
  c.sent = (if c.callbackSent then 1 else 0) + (if c.syncReturned && !c.callbackInvoked then 1 else 0) ∧
  (c.callbackSent = true → c.callbackInvoked = true) ∧ (c.callbackInvoked = true → c.syncReturned = true)

theorem chan_inv (evs : List ChanEv) (c : Chan) (h : ChanInv c) : ChanInv (chanRun c evs) := by
  induction evs generalizing c with
  | nil => exact h
  | cons e rest ih =>
    apply ih
    obtain ⟨h1, h2, h3⟩ := h
    cases e <;> simp only [chanStep] <;> split <;>
      (first | exact ⟨h1, h2, h3⟩ | (unfold ChanInv; cases hA : c.callbackSent <;> cases hB : c.syncReturned <;>
        cases hC : c.callbackInvoked <;> simp_all))

/-- **At most one value is ever sent to the result channel (capacity 1)**, whatever happens: no
goroutine of a call can stay blocked on it after the caller has gone. -/
theorem result_chan_never_blocks (evs : List ChanEv) : (chanRun {} evs).sent ≤ 1 := by
  have h := chan_inv evs {} (by simp [ChanInv])
  obtain ⟨h1, h2, h3⟩ := h
  rw [h1]
  cases hA : (chanRun {} evs).callbackSent <;> cases hB : (chanRun {} evs).syncReturned <;>
    cases hC : (chanRun {} evs).callbackInvoked <;> simp_all

/-! ## census of blocking constructs (regenerated from the source on every run) -/

/-- blocking constructs without a context escape of their own, and why they cannot block for ever -/
def accountedWithoutEscape : List (String × String) := [
  ("threshold/threshold.go|Scheme.runDKG|send resultChan", "capacity 1, at most one send per call: result_chan_never_blocks"),
  ("threshold/threshold.go|Scheme.Sign|send resultChan", "capacity 1, at most one send per call: result_chan_never_blocks"),
  ("mpc/binance/ecdsa/mpc.go|party.KeyGen|endWG.Wait()", "waits for tss-lib's party.Start, which returns once round 1 has been started (partial: library code)"),
  ("mpc/binance/ecdsa/mpc.go|party.Sign|endWG.Wait()", "as above"),
  ("mpc/binance/eddsa/mpc.go|party.KeyGen|endWG.Wait()", "as above"),
  ("mpc/binance/eddsa/mpc.go|party.Sign|endWG.Wait()", "as above") ]

/-- **Every wait has an escape.** Each `select`, channel operation and `Wait()` in the functions that a
`KeyGen` / `Sign` call runs in either has a context case, a `default`, a close-channel case, sits in a
loop that tests the context before waiting — or is one of the accounted-for sites above. A new
blocking construct without an escape breaks this theorem. -/
theorem wait_escape_census :
    Gen.Blocking.sites.all (fun e => e.2 != "none" || accountedWithoutEscape.any (fun a => a.1 == e.1)) = true := by
  decide +kernel

/-! ## non-vacuity: peer 3 never sends anything, the context ends, the call returns an error -/

example : (run { n := 3 } true [.share, .wake, .ctxDone, .wake]).2 = [.ret false] := by decide
example : (run { n := 3 } true [.share, .share, .wake, .commit, .ctxDone, .wake]).2 =
    [.sendCommit, .ret false] := by decide
example : (run { n := 2 } true [.share, .commit, .reveal, .wake]).2 = [.sendCommit, .sendReveal, .ret true] := by decide


/-- **The source the model was transcribed from is the current source**: the statements of `KeyGen`, `runDKG`, `Sign`, `prepareSigning`, `initializeHandlers`, `initializeSyncForSigning`, `registerWhileActive`, `ensureDKGNotRunning`, `runSigningProtocol`, regenerated from
`/repo` on this run, are the committed ones (logging left out). A change of any of them — harmless or not — fails here
first; the differential and monitored runs of this property are then the search for an input on which it fails. -/
theorem source_as_modelled : TSSVerif.Gen.Stmts.orch = TSSVerif.Model.StmtsExpected.orch := by
  decide +kernel

end TSSVerif.Props.C11
