import TSSVerif.Props.C14
/-!
# C14 — the order clause, as far as it holds (`…_partial`)

The full order clause ("messages of one sender are handed over in their arrival order") is false of the code for the
interleaving of `order_violated_witness` (known finding KF-C14-order): an arrival that finds the topic started is
forwarded by its own receiving thread while the sending thread is still draining older, buffered messages.

What *does* hold, for every interleaving, is order **within each thread**, whatever the other threads do to the box in
between (the boxes a thread finds at its steps are arbitrary here, except that a started topic stays started —
`started_mono`; the epoch clock does not tick in this model):

* `drain_in_order_partial` — the sending thread hands the buffered messages over in exactly the order in which they
  were buffered (which, per sender, is their arrival order: `Model/Box.csStore` appends);
* `arrivals_in_order_partial` — a receiving thread hands over the messages it receives for started topics in the
  order in which it receives them (one connection = one receiving thread).

So the only way two messages of one sender can change places is the one of the witness: one of them buffered and
drained by the sending thread, the other forwarded by the receiving thread during that drain.
-/
set_option linter.unusedSimpArgs false
set_option linter.unusedVariables false
namespace TSSVerif.Props.C14Order
open TSSVerif.Model.Box TSSVerif.Model.BoxConc TSSVerif.Props.C14

/-- the steps of one thread: at each of them it finds the box as the other threads left it -/
def runThread (c : Cfg) : List Box → Thread → Thread × List Ev
  | [], th => (th, [])
  | b :: bs, th =>
    let o := stepThread c b th
    let r := runThread c bs o.thread
    (r.1, o.evs ++ r.2)

/-- one of two event sequences is the beginning of the other -/
def Agree (a b : List Ev) : Prop := a <+: b ∨ b <+: a

theorem agree_nil_left (b : List Ev) : Agree [] b := Or.inl List.nil_prefix
theorem agree_nil_right (a : List Ev) : Agree a [] := Or.inr List.nil_prefix
theorem agree_cons (e : Ev) {a b : List Ev} (h : Agree a b) : Agree (e :: a) (e :: b) := by
  rcases h with h | h
  · exact Or.inl ((List.prefix_cons_inj e).mpr h)
  · exact Or.inr ((List.prefix_cons_inj e).mpr h)

theorem csStore_started (c : Cfg) (b : Box) (m : Msg) (h : (b.started m.topic).isSome = true) :
    csStore c b m = (b, .forward) := by
  unfold csStore
  cases hs : b.started m.topic with
  | none => rw [hs] at h; simp at h
  | some e => rfl

/-- what the drain loop still has to hand over, in order -/
def remaining : Pc → Option (Nat × List Msg)
  | .atDrain t msgs => some (t, msgs)
  | .atStore m (.drain t rest) => some (t, m :: rest)
  | .atFwd m (.drain t rest) => some (t, m :: rest)
  | _ => none

/-- **Order within a drain (partial order clause, 1).** From any point of the drain loop of `Send t`, whatever boxes the
thread finds at its further steps (the topic stays started), the events it produces begin with the hand-overs of the
remaining buffered messages in exactly their buffered order — or are a beginning of that sequence, if the thread has
not got further yet. -/
theorem drain_in_order_partial (c : Cfg) (t : Nat) : ∀ (bs : List Box) (th : Thread) (l : List Msg),
    remaining th.pc = some (t, l) → (∀ b ∈ bs, (b.started t).isSome = true) → (∀ m ∈ l, m.topic = t) →
    Agree (runThread c bs th).2 (l.map .handover)
  | [], th, l, _, _, _ => agree_nil_left _
  | b :: bs, th, l, hr, hb, ht => by
    have hbs : ∀ b' ∈ bs, (b'.started t).isSome = true := fun b' h' => hb b' (List.mem_cons_of_mem _ h')
    have hst : (b.started t).isSome = true := hb b List.mem_cons_self
    simp only [runThread]
    cases hpc : th.pc with
    | idle => rw [hpc] at hr; simp [remaining] at hr
    | finished => rw [hpc] at hr; simp [remaining] at hr
    | atSend t' => rw [hpc] at hr; simp [remaining] at hr
    | atSendFwd t' msgs => rw [hpc] at hr; simp [remaining] at hr
    | atDrain t' msgs =>
      rw [hpc] at hr
      simp only [remaining, Option.some.injEq, Prod.mk.injEq] at hr
      obtain ⟨rfl, rfl⟩ := hr
      cases msgs with
      | nil => exact agree_nil_right _
      | cons m rest =>
        have hstep : stepThread c b th = { box := b, thread := { th with pc := .atStore m (.drain t' rest) } } := by
          unfold stepThread; rw [hpc]
        rw [hstep]
        simp only [List.nil_append]
        exact drain_in_order_partial c t' bs _ (m :: rest) (by simp [remaining]) hbs ht
    | atStore m k =>
      rw [hpc] at hr
      cases k with
      | ret => simp [remaining] at hr
      | drain t' rest =>
        simp only [remaining, Option.some.injEq, Prod.mk.injEq] at hr
        obtain ⟨rfl, rfl⟩ := hr
        have hmt : m.topic = t' := ht m List.mem_cons_self
        have hcs := csStore_started c b m (by rw [hmt]; exact hst)
        have hstep : stepThread c b th = { box := b, thread := { th with pc := .atFwd m (.drain t' rest) } } := by
          unfold stepThread; rw [hpc]; simp only [hcs]
        rw [hstep]
        simp only [List.nil_append]
        exact drain_in_order_partial c t' bs _ (m :: rest) (by simp [remaining]) hbs ht
    | atFwd m k =>
      rw [hpc] at hr
      cases k with
      | ret => simp [remaining] at hr
      | drain t' rest =>
        simp only [remaining, Option.some.injEq, Prod.mk.injEq] at hr
        obtain ⟨rfl, rfl⟩ := hr
        have hstep : stepThread c b th =
            { box := b, thread := resume (.drain t' rest) th.script, evs := [.handover m] } := by
          unfold stepThread; rw [hpc]
        rw [hstep]
        simp only [List.map_cons, List.singleton_append]
        apply agree_cons
        cases rest with
        | nil => exact agree_nil_right _
        | cons m' r' =>
          have : resume (.drain t' (m' :: r')) th.script = { pc := .atDrain t' (m' :: r'), script := th.script } := rfl
          rw [this]
          exact drain_in_order_partial c t' bs _ (m' :: r') (by simp [remaining]) hbs
            (fun x hx => ht x (List.mem_cons_of_mem _ hx))

/-- the receive calls at the head of a script, and the rest -/
def recvPrefix : List Call → List Msg
  | .recv m :: rest => m :: recvPrefix rest
  | _ => []

/-- what a receiving thread still has to hand over before its next send call: the message in hand, then the receive
calls that follow in its script -/
def toForward (th : Thread) : Option (List Msg) :=
  match th.pc with
  | .idle => some (recvPrefix th.script)
  | .atStore m .ret => some (m :: recvPrefix th.script)
  | .atFwd m .ret => some (m :: recvPrefix th.script)
  | _ => none

theorem toForward_startNext (s : List Call) (h : recvPrefix s ≠ []) :
    toForward (startNext s) = some (recvPrefix s) := by
  cases s with
  | nil => simp [recvPrefix] at h
  | cons cl rest =>
    cases cl with
    | recv m => simp [startNext, toForward, recvPrefix]
    | send t => simp [recvPrefix] at h

/-- **Order within a receiving thread (partial order clause, 2).** The messages a thread receives one after the other
for topics that are started are handed over in the order in which it receives them, whatever happens to the box between
its steps. -/
theorem arrivals_in_order_partial (c : Cfg) : ∀ (bs : List Box) (th : Thread) (l : List Msg),
    toForward th = some l → (∀ b ∈ bs, ∀ m ∈ l, (b.started m.topic).isSome = true) →
    Agree (runThread c bs th).2 (l.map .handover)
  | [], th, l, _, _ => agree_nil_left _
  | b :: bs, th, l, hf, hb => by
    have hbs : ∀ b' ∈ bs, ∀ m ∈ l, (b'.started m.topic).isSome = true := fun b' h' => hb b' (List.mem_cons_of_mem _ h')
    simp only [runThread]
    cases l with
    | nil => exact agree_nil_right _
    | cons m0 l0 =>
    unfold toForward at hf
    cases hpc : th.pc with
    | finished => rw [hpc] at hf; simp at hf
    | atSend t' => rw [hpc] at hf; simp at hf
    | atSendFwd t' msgs => rw [hpc] at hf; simp at hf
    | atDrain t' msgs => rw [hpc] at hf; simp at hf
    | idle =>
      rw [hpc] at hf
      simp only [Option.some.injEq] at hf
      have hstep : stepThread c b th = { box := b, thread := startNext th.script } := by
        unfold stepThread; rw [hpc]
      rw [hstep]
      simp only [List.nil_append]
      exact arrivals_in_order_partial c bs _ (m0 :: l0) (by rw [toForward_startNext _ (by rw [hf]; simp), hf]) hbs
    | atStore m k =>
      rw [hpc] at hf
      cases k with
      | drain t' rest => simp at hf
      | ret =>
        simp only [Option.some.injEq, List.cons.injEq] at hf
        obtain ⟨rfl, hl0⟩ := hf
        have hcs := csStore_started c b m (hb b List.mem_cons_self m List.mem_cons_self)
        have hstep : stepThread c b th = { box := b, thread := { th with pc := .atFwd m .ret } } := by
          unfold stepThread; rw [hpc]; simp only [hcs]
        rw [hstep]
        simp only [List.nil_append]
        exact arrivals_in_order_partial c bs _ (m :: l0) (by simp [toForward, hl0]) hbs
    | atFwd m k =>
      rw [hpc] at hf
      cases k with
      | drain t' rest => simp at hf
      | ret =>
        simp only [Option.some.injEq, List.cons.injEq] at hf
        obtain ⟨rfl, hl0⟩ := hf
        have hstep : stepThread c b th = { box := b, thread := startNext th.script, evs := [.handover m] } := by
          unfold stepThread; rw [hpc]; rfl
        rw [hstep]
        simp only [List.map_cons, List.singleton_append]
        apply agree_cons
        cases l0 with
        | nil => exact agree_nil_right _
        | cons m1 l1 =>
          exact arrivals_in_order_partial c bs _ (m1 :: l1)
            (by rw [toForward_startNext _ (by rw [hl0]; simp), hl0]) (fun b' h' x hx => hbs b' h' x (List.mem_cons_of_mem _ hx))

/-! ## the hypotheses are met by the witness run itself -/

/-- in the witness, the sending thread's drain hands over its single buffered message; the receiving thread hands over
message 2: each thread in its own order, the two sequences interleaved the wrong way round -/
example : remaining (Pc.atDrain 0 [⟨1, 0, 1⟩]) = some (0, [⟨1, 0, 1⟩]) := rfl
example : toForward { pc := .atStore ⟨1, 0, 2⟩ .ret, script := [] } = some [⟨1, 0, 2⟩] := rfl

end TSSVerif.Props.C14Order
