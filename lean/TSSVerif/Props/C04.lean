import TSSVerif.Proofs.RbcNet
import TSSVerif.Model.Classify
import TSSVerif.Gen.Stmts
import TSSVerif.Model.StmtsExpected
/-!
# C04 — reliable broadcast totality in fault-free runs, for every interleaving

`Model/RbcNet.lean`: all members honest, each running the receiver of `Model/Rbc.lean`; backends
emit broadcasts with pairwise distinct (sender, round) and point-to-point messages at arbitrary
moments; every message in flight is delivered exactly once in an arbitrary order (no FIFO:
acknowledgements may overtake the payload they refer to, several senders and rounds are in flight
at once). "Eventually" is "at quiescence" (`flight = []`), and `deliver_decreases` shows that
quiescence is reached after a bounded number of deliveries under any schedule.

No bound on the session size (N = 2 included), the number of broadcasts, rounds or messages.
-/
set_option linter.unusedSimpArgs false
set_option linter.unusedVariables false
namespace TSSVerif.Props.C04
open TSSVerif.Model TSSVerif.Model.Rbc TSSVerif.Model.RbcNet
open TSSVerif.Model.RbcNet (Reach)

theorem length_le_one_mem {α : Type} {l : List α} {x : α} (h : l.length ≤ 1) (hx : x ∈ l) : l = [x] := by
  cases l with
  | nil => cases hx
  | cons a as =>
    cases as with
    | nil => simp at hx; rw [hx]
    | cons b bs => simp at h

/-- **No party ever concludes that equivocation took place**, at any moment of any fault-free run. -/
theorem no_false_equivocation (c : RbcNet.Cfg) {σ : Net} (h : Reach c σ) (q : Id) : (σ.st q).halted = false :=
  (reach_inv c h).not_halted q

/-- **Totality.** At quiescence every broadcast of the workload has been handed to the backend of
every other member **exactly once**, with exactly the payload that was broadcast: the hand-overs
attributed to that sender and round are precisely that one. -/
theorem quiescent_total (c : RbcNet.Cfg) (hnd : c.members.Nodup) {σ : Net} (h : Reach c σ)
    (hq : σ.flight = []) (b : BW) (hb : b ∈ σ.sentB) (q : Id) (hqm : q ∈ c.members) (hqs : q ≠ b.s) :
    (outsOf c σ q).filter (Out.isDeliverSR b.s b.r) = [Out.deliverB b.p (bkey c b)] := by
  have I := reach_inv c h
  have hsm : b.s ∈ c.members := by
    -- the sender of a workload broadcast is a member (emitB's side condition)
    clear hq hqm hqs
    induction h with
    | init => simp [RbcNet.init] at hb
    | emitB _ b' hs _ ih =>
      simp only [List.mem_cons] at hb
      rcases hb with hb | hb
      · rw [hb]; exact hs
      · exact ih hb (reach_inv c ‹_›)
    | emitP _ _ _ _ _ _ _ ih => exact ih hb (reach_inv c ‹_›)
    | deliver _ f hf ih => exact ih hb (reach_inv c ‹_›)
  -- every member other than the sender vouches
  have hall : ∀ v ∈ c.members, v ≠ b.s → v ∈ ((σ.st q).slot (bkey c b)).ids := by
    intro v hv hvs
    by_cases hvq : v = q
    · subst hvq
      rcases I.track_self b hb v hv hvs with h | h
      · rw [hq] at h; cases h
      · exact h.1
    · rcases I.track_other b hb q hqm hqs v hv hvs hvq with h | h | h
      · exact h
      · rw [hq] at h; cases h
      · rw [hq] at h; cases h
  have hm : ((σ.st q).slot (bkey c b)).m = some b.p := by
    rcases I.track_self b hb q hqm hqs with h | h
    · rw [hq] at h; cases h
    · exact h.2
  obtain ⟨hnod, hsub⟩ := I.ids_ok q (bkey c b)
  -- so the voucher set has exactly N-1 elements
  have hlen : ((σ.st q).slot (bkey c b)).ids.length = (σ.st q).n - 1 := by
    rw [(I.self_n q).2]
    have h1 : ((σ.st q).slot (bkey c b)).ids ⊆ c.members.erase b.s := by
      intro x hx
      obtain ⟨a, b'⟩ := hsub x hx
      exact (List.mem_erase_of_ne b').mpr a
    have h2 : c.members.erase b.s ⊆ ((σ.st q).slot (bkey c b)).ids := by
      intro x hx
      have hxm : x ∈ c.members := List.mem_of_mem_erase hx
      have hxs : x ≠ b.s := by
        intro e; rw [e] at hx
        exact (List.Nodup.mem_erase_iff hnd).mp hx |>.1 rfl
      exact hall x hxm hxs
    have p1 := List.subperm_of_subset hnod h1
    have p2 := List.subperm_of_subset (hnd.erase b.s) h2
    have := (p1.antisymm p2).length_eq
    rw [this, List.length_erase_of_mem hsm]
  have hdel : ((σ.st q).slot (bkey c b)).delivered = true := I.full q (bkey c b) hlen (by rw [hm]; rfl)
  obtain ⟨p', hp'⟩ := I.deliv_out q (bkey c b) hdel
  -- the payload handed over is the one that was broadcast
  have L := linv_run (linv_init q c.members.length) (σ.inbox q)
  simp only [List.nil_append] at L
  have hsrc := L.del_auth p' (bkey c b) hp'
  have hok := I.in_ok q _ hsrc
  have : (⟨b.s, b.r, p'⟩ : BW) = b := I.uniq _ hok.1 b hb rfl rfl
  have hpp : p' = b.p := by rw [← this]
  rw [hpp] at hp'
  -- and it happened once
  have honce := L.sr_once b.s b.r
  apply length_le_one_mem honce
  exact List.mem_filter.mpr ⟨hp', by simp [Out.isDeliverSR, bkey]⟩

/-- **Nothing else is handed over**: every broadcast-class hand-over, at any moment, is a broadcast
of the workload, with its payload, at a member other than its sender's … -/
theorem only_workload (c : RbcNet.Cfg) {σ : Net} (h : Reach c σ) (q : Id) (p : Pay) (k : Key)
    (hd : Out.deliverB p k ∈ outsOf c σ q) : ∃ b ∈ σ.sentB, k = bkey c b ∧ p = b.p := by
  have I := reach_inv c h
  have L := linv_run (linv_init q c.members.length) (σ.inbox q)
  simp only [List.nil_append] at L
  have hsrc := L.del_auth p k hd
  have hok := I.in_ok q _ hsrc
  refine ⟨⟨k.s, k.r, p⟩, hok.1, ?_, rfl⟩
  have h2 : k.d = c.H p := hok.2
  cases k; simp only [bkey] at *; simp [h2]

/-! ## point-to-point: exactly once to the addressee -/

def isP2P (f : Flight) : Bool := match f.m with | .p2p _ => true | _ => false

/-- every point-to-point message sent is either still in flight or in its addressee's inbox,
with multiplicity -/
theorem p2p_conserved (c : RbcNet.Cfg) {σ : Net} (h : Reach c σ) (f : Flight) (hf : isP2P f = true) :
    σ.sentP.count f = σ.flight.count f + (σ.inbox f.to).count (f.src, f.m) := by
  induction h with
  | init => simp [RbcNet.init]
  | emitB _ b hs hfresh ih =>
    simp only [List.count_append]
    have : (copies c b).count f = 0 := by
      apply List.count_eq_zero.mpr
      intro hm
      unfold copies at hm
      obtain ⟨q, _, e⟩ := List.mem_map.mp hm
      rw [← e] at hf; simp [isP2P, direct] at hf
    rw [this]; simpa using ih
  | emitP _ src to p hs ht hne ih =>
    simp only [List.count_append, List.count_cons, List.count_nil]
    rw [ih]
    by_cases e : (⟨to, src, .p2p p⟩ : Flight) = f
    · simp [e]; omega
    · have e' : ¬ ((⟨to, src, .p2p p⟩ : Flight) == f) = true := by simpa using e
      simp [e']
  | @deliver σ _ g hg ih =>
    have hfl : (deliver c σ g).flight = σ.flight.erase g ++ acksOf c g.to (receive (σ.st g.to) g.m g.src).2 := rfl
    have hsp : (deliver c σ g).sentP = σ.sentP := rfl
    rw [hfl, hsp, List.count_append, ih]
    have hacks : (acksOf c g.to (receive (σ.st g.to) g.m g.src).2).count f = 0 := by
      apply List.count_eq_zero.mpr
      intro hm
      obtain ⟨k, _, _, _, _, e⟩ := of_mem_acksOf hm
      simp [isP2P, e] at hf
    rw [hacks, List.count_erase]
    by_cases e : g = f
    · subst e
      have hin : (deliver c σ g).inbox g.to = σ.inbox g.to ++ [(g.src, g.m)] := by simp [deliver]
      have hpos : 0 < σ.flight.count g := List.count_pos_iff.mpr hg
      rw [hin, List.count_append]
      simp
      omega
    · have e1 : ¬ (g == f) = true := by simpa using e
      by_cases ht : f.to = g.to
      · have hin : (deliver c σ g).inbox f.to = σ.inbox f.to ++ [(g.src, g.m)] := by simp [deliver, ht]
        have hne : ¬ ((g.src, g.m) == (f.src, f.m)) = true := by
          intro hh
          simp only [beq_iff_eq, Prod.mk.injEq] at hh
          apply e
          cases g; cases f; simp_all
        rw [hin, List.count_append]
        have hz : List.count (f.src, f.m) [(g.src, g.m)] = 0 := by
          simp only [List.count_cons, List.count_nil, hne]; simp
        simp [e1, hz]
      · have hin : (deliver c σ g).inbox f.to = σ.inbox f.to := by simp [deliver, ht]
        rw [hin]; simp [e1]

/-- **Point-to-point messages: exactly once to the addressee.** At quiescence the number of times
member `to` was handed payload `p` attributed to `src` equals the number of times `src` sent it to
`to` — no loss, no duplication, no misattribution — for every member and every payload. -/
theorem p2p_exactly_once (c : RbcNet.Cfg) {σ : Net} (h : Reach c σ) (hq : σ.flight = [])
    (to src : Id) (p : Pay) :
    ((outsOf c σ to).filterMap Out.asP2P).count (p, src) = σ.sentP.count ⟨to, src, .p2p p⟩ := by
  have I := reach_inv c h
  have hcons := p2p_conserved c h ⟨to, src, .p2p p⟩ rfl
  rw [hq] at hcons
  simp only [List.count_nil, Nat.zero_add] at hcons
  rw [hcons]
  have hnh : (runMsgs (fresh c to) (σ.inbox to)).1.halted = false := by
    rw [← I.run_eq to]; exact I.not_halted to
  unfold outsOf
  rw [run_p2p_exact _ _ hnh]
  -- counting (p, src) among the point-to-point inputs = counting (src, p2p p) among all inputs
  generalize σ.inbox to = l
  induction l with
  | nil => rfl
  | cons x rest ih =>
    obtain ⟨s', m'⟩ := x
    cases m' with
    | p2p p' =>
      simp only [List.filterMap_cons, inP2P, List.count_cons, ih]
      by_cases e : p' = p ∧ s' = src
      · obtain ⟨rfl, rfl⟩ := e; simp
      · have e1 : ¬ ((p', s') == (p, src)) = true := by simpa using e
        have e2 : ¬ ((s', Msg.p2p p') == (src, Msg.p2p p)) = true := by
          simp only [beq_iff_eq, Prod.mk.injEq, Msg.p2p.injEq]; intro hh; exact e ⟨hh.2, hh.1⟩
        simp [e1, e2]
    | ack k =>
      simp only [List.filterMap_cons, inP2P, List.count_cons, ih]
      have e2 : ¬ ((s', Msg.ack k) == (src, Msg.p2p p)) = true := by simp
      simp [e2]
    | bcast p' d r =>
      simp only [List.filterMap_cons, inP2P, List.count_cons, ih]
      have e2 : ¬ ((s', Msg.bcast p' d r) == (src, Msg.p2p p)) = true := by simp
      simp [e2]

/-! ## quiescence is reached under every schedule -/

/-- work still to be done by the network: a direct copy costs itself plus the acknowledgements it
will trigger -/
def weight (c : RbcNet.Cfg) (f : Flight) : Nat :=
  match f.m with
  | .bcast _ _ _ => c.members.length
  | _ => 1

def measure (c : RbcNet.Cfg) (σ : Net) : Nat := (σ.flight.map (weight c)).sum

theorem sum_erase {l : List Flight} {f : Flight} (c : RbcNet.Cfg) (h : f ∈ l) :
    ((l.erase f).map (weight c)).sum + weight c f = (l.map (weight c)).sum := by
  induction l with
  | nil => cases h
  | cons a as ih =>
    by_cases e : a = f
    · subst e; simp [List.erase_cons_head]; omega
    · have e' : ¬ (a == f) = true := by simpa using e
      have hm : f ∈ as := by
        rcases List.mem_cons.mp h with h | h
        · exact absurd h.symm e
        · exact h
      simp only [List.erase_cons, e', Bool.false_eq_true, if_false, List.map_cons, List.sum_cons]
      have := ih hm
      omega

theorem acksOf_append (c : RbcNet.Cfg) (me : Id) (a b : List Out) :
    acksOf c me (a ++ b) = acksOf c me a ++ acksOf c me b := by
  simp [acksOf, List.flatMap_append]

theorem acksOf_register (c : RbcNet.Cfg) (me : Id) (s : St) (k : Key) (v : Id) (m : Option Pay) :
    acksOf c me (register s k v m).2 = [] := by
  rcases register_outs s k v m with h | ⟨p, h⟩ <;> rw [h] <;> simp [acksOf]

/-- acknowledgements leave a receiver only on receipt of a broadcast-class payload, one per other
member -/
theorem acks_shape (c : RbcNet.Cfg) (me : Id) (s : St) (m : Msg) (src : Id) :
    acksOf c me (receive s m src).2 = [] ∨
    ∃ p d r k, m = .bcast p d r ∧
      acksOf c me (receive s m src).2 = (c.members.filter (· ≠ me)).map (fun q => (⟨q, me, .ack k⟩ : Flight)) := by
  unfold receive
  by_cases hh : s.halted = true
  · left; simp [hh, acksOf]
  · have hf : s.halted = false := by simpa using hh
    simp only [hf, Bool.false_eq_true, if_false]
    cases m with
    | p2p p => left; simp [acksOf]
    | ack k =>
      left
      simp only []
      split
      · simp [acksOf]
      · split
        · simp [acksOf]
        · split
          · simp [acksOf]
          · exact acksOf_register c me s k src none
    | bcast p d r =>
      right
      refine ⟨p, d, r, ⟨d, src, r⟩, rfl, ?_⟩
      simp only []
      rw [acksOf_append, acksOf_register]
      simp [acksOf]

theorem sum_weight_acks (c : RbcNet.Cfg) (me : Id) (k : Key) (l : List Id) :
    ((l.map (fun q => (⟨q, me, .ack k⟩ : Flight))).map (weight c)).sum = l.length := by
  induction l with
  | nil => rfl
  | cons a as ih =>
    simp only [List.map_cons, List.sum_cons, List.length_cons, ih]
    simp [weight]; omega

/-- **Every delivery makes progress**: the remaining work strictly decreases, whatever message the
schedule picks. Since delivering is always possible while something is in flight, every schedule
reaches quiescence after at most `measure` deliveries. -/
theorem deliver_decreases (c : RbcNet.Cfg) {σ : Net} (h : Reach c σ) (f : Flight) (hf : f ∈ σ.flight) :
    measure c (deliver c σ f) < measure c σ := by
  have I := reach_inv c h
  obtain ⟨hto, _, _, _⟩ := I.fl_ok f hf
  unfold measure
  have hfl : (deliver c σ f).flight = σ.flight.erase f ++ acksOf c f.to (receive (σ.st f.to) f.m f.src).2 := rfl
  rw [hfl, List.map_append, List.sum_append]
  have hs := sum_erase c hf
  rcases acks_shape c f.to (σ.st f.to) f.m f.src with h0 | ⟨p, d, r, k, hm, h1⟩
  · rw [h0]
    have : 1 ≤ weight c f := by
      unfold weight; split
      · exact List.length_pos_of_mem hto
      · exact Nat.le_refl 1
    simp; omega
  · rw [h1, sum_weight_acks]
    have hw : weight c f = c.members.length := by unfold weight; rw [hm]
    have hlt : (c.members.filter (· ≠ f.to)).length < c.members.length := by
      apply List.length_filter_lt_length_iff_exists.mpr
      exact ⟨f.to, hto, by simp⟩
    omega

/-- `n` consecutive deliveries -/
inductive Delivers (c : RbcNet.Cfg) : Net → Nat → Net → Prop
  | zero (σ) : Delivers c σ 0 σ
  | succ {σ σ' n} (f : Flight) (hf : f ∈ σ.flight) (h : Delivers c (deliver c σ f) n σ') :
      Delivers c σ (n + 1) σ'

/-- no schedule can keep delivering for more than `measure` steps: quiescence is reached -/
theorem quiescence_reached (c : RbcNet.Cfg) {σ σ' : Net} {n : Nat} (h : Reach c σ)
    (hd : Delivers c σ n σ') : n + measure c σ' ≤ measure c σ := by
  induction hd with
  | zero σ => simp
  | succ f hf _ ih =>
    have := deliver_decreases c h f hf
    have := ih (Reach.deliver h f hf)
    omega

/-! ## the workload hypothesis for the built-in backends (regenerated tables)

`emitB` requires pairwise distinct (sender, round) per session. The built-in DKGs send one message
per broadcast-class type; the regenerated `ClassifyMsg` tables give distinct broadcast-class types
distinct rounds, all of which fit the 7 bits of the acknowledgement encoding. -/

def bcastRounds (t : List (Nat × Nat × Bool)) : List Nat := (t.filter (·.2.2)).map (·.2.1)

theorem builtin_broadcast_rounds_distinct :
    (bcastRounds Gen.Classify.blsTable).Nodup ∧ (bcastRounds Gen.Classify.psTable).Nodup := by decide

theorem builtin_rounds_fit :
    (∀ e ∈ Gen.Classify.blsTable, e.2.1 < 128) ∧ (∀ e ∈ Gen.Classify.psTable, e.2.1 < 128) := by decide

theorem builtin_tags_distinct :
    (Gen.Classify.blsTable.map (·.1)).Nodup ∧ (Gen.Classify.psTable.map (·.1)).Nodup := by decide

/-- the built-in classifiers are total: no payload, the empty one included, makes them panic -/
theorem builtin_classify_never_panics (p : Bytes) :
    Classify.bls p ≠ .panic ∧ Classify.ps p ≠ .panic := by
  unfold Classify.bls Classify.ps Classify.classify
  cases p with
  | nil => decide
  | cons b rest =>
    simp only []
    constructor
    · split
      · simp
      · simp [Gen.Classify.blsDefaultIsError]
    · split
      · simp
      · simp [Gen.Classify.psDefaultIsError]

/-! ## non-vacuity: N = 3, member 1 broadcasts, all six messages delivered with the
acknowledgements overtaking the payload at member 3 -/

def exC : RbcNet.Cfg := { members := [1, 2, 3], H := fun p => p ++ [0xEE#8] }
def exB : BW := ⟨1, 1, [7#8]⟩
def exK : Key := bkey exC exB

def exRun : Net :=
  let σ0 : Net := { RbcNet.init exC with flight := copies exC exB, sentB := [exB] }
  let σ1 := deliver exC σ0 (direct exC exB 2)            -- member 2 gets the payload, acknowledges
  let σ2 := deliver exC σ1 ⟨3, 2, .ack exK⟩              -- member 3 gets 2's acknowledgement first
  let σ3 := deliver exC σ2 ⟨1, 2, .ack exK⟩              -- the sender ignores it
  let σ4 := deliver exC σ3 (direct exC exB 3)            -- now the payload reaches member 3
  let σ5 := deliver exC σ4 ⟨2, 3, .ack exK⟩
  deliver exC σ5 ⟨1, 3, .ack exK⟩

example : exRun.flight = [] := by decide
example : (outsOf exC exRun 3).filter (Out.isDeliverSR 1 1) = [Out.deliverB [7#8] exK] := by decide
example : (outsOf exC exRun 2).filter (Out.isDeliverSR 1 1) = [Out.deliverB [7#8] exK] := by decide


/-- **The source the model was transcribed from is the current source**: the statements of `Receiver.Receive`, `registerMsg`, `initIfNeeded` and the dispatch path `handleMPC` / `handleRBC` / `handleAck` / `rbcFilter.Receive` / `threadSafeRBC.Receive`, regenerated from
`/repo` on this run, are the committed ones (logging left out). A change of any of them — harmless or not — fails here
first; the differential and monitored runs of this property are then the search for an input on which it fails. -/
theorem source_as_modelled : TSSVerif.Gen.Stmts.rbc = TSSVerif.Model.StmtsExpected.rbc := by
  decide +kernel

end TSSVerif.Props.C04
