import TSSVerif.Proofs.DiscTrace
import TSSVerif.Gen.Stmts
import TSSVerif.Model.StmtsExpected
/-!
# C07 — membership synchronisation: agreed lists are valid and identical; honest runs finish

Model: `Model/Disc.lean` (the repaired `disc/discovery.go`). Quantifiers: **every** reachable state of
a topic — any number of configured members, any identifiers, any subset corrupted, any interleaving
of handler steps with the unserialised, non-atomic passes of the `Synchronize` goroutines, any
messages whatsoever from corrupted members (lying about views, confirming anything, replaying),
duplicated / reordered / lost honest messages. The only constraint on the environment is that a
membership or query message attributed to an *honest* member carries a view that member broadcast
(`Reach.handle`, `hauth`): authenticated channels plus "the tag of (topic, id) is accepted only from
id" (`Member.handle`), i.e. HMAC-SHA256 tags do not collide.

`expected ≥ 1` is a hypothesis throughout: with `expectedMemberCount = 0` the real code (and the model,
`expected_zero_observation`) runs the continuation with an empty list when the views disagree.
-/
set_option linter.unusedSimpArgs false
set_option linter.unusedVariables false
namespace TSSVerif.Props.C07
open TSSVerif.Model TSSVerif.Model.Disc TSSVerif.Proofs.Disc

variable {c : Cfg} {σ : Sys}

/-- **Validity.** The list an honest member settles on (it is passed to the continuation unchanged,
`continuation_gets_listed`) is strictly sorted (hence duplicate-free), contains the member, has exactly the
expected size, and every other entry is a configured member from which this member accepted a
membership/query message on this topic — and which, if honest, broadcast exactly this list. -/
theorem sync_valid (hpos : ∀ x, 1 ≤ c.exp x) (h : Reach c σ) {x : Id} {s : TSt} (hs : σ.st x = some s)
    {l : View} (hl : Listed s l) :
    l.Pairwise (· < ·) ∧ x ∈ l ∧ l.length = c.exp x ∧
    ∀ k ∈ l, k ≠ x → k ∈ c.members ∧ (x, k) ∈ σ.heard ∧ (c.honest k = true → (k, l) ∈ σ.ann) := by
  have m := (reach_ginv hpos h).minv x s hs
  obtain ⟨f1, f2, S', g1, g2, g3, g4, g5, g6⟩ := m.fin l hl
  subst g1
  refine ⟨?_, mem_ownView.mpr (Or.inl rfl), by rw [f1, m.exp_eq], ?_⟩
  · have hs := ownView_sorted x S'
    have hn : (ownView x S').Pairwise (· ≠ ·) := ownView_nodup g2 g3
    exact (hs.and hn).imp (fun ⟨a, b⟩ => Nat.lt_of_le_of_ne a b)
  · intro k hk hne
    rcases mem_ownView.mp hk with e | hk
    · exact absurd e hne
    · exact ⟨m.keys_mem k (g4 k hk), m.keys_heard k (g4 k hk), g6 k hk⟩

/-- **Agreement.** If honest `a` settles on `la`, honest `b` appears in `la`, and `b` settles on `lb`
(both expecting the same count), then `la = lb` — whatever the corrupted members and the schedule did. -/
theorem sync_agree (hpos : ∀ x, 1 ≤ c.exp x) (h : Reach c σ) {a b : Id} {sa sb : TSt}
    (ha : σ.st a = some sa) (hb : σ.st b = some sb) {la lb : View} (hla : Listed sa la) (hlb : Listed sb lb)
    (hmem : b ∈ la) (hexp : c.exp a = c.exp b) : la = lb := by
  have g := reach_ginv hpos h
  have ma := g.minv a sa ha
  have mb := g.minv b sb hb
  by_cases e : b = a
  · subst e
    -- the same member: its phase names one list
    have : sa = sb := Option.some.inj (ha.symm.trans hb)
    subst this
    rcases hla with p | ⟨n, p⟩ <;> rcases hlb with q | ⟨m, q⟩ <;> rw [p] at q <;> cases q <;> rfl
  obtain ⟨a1, a2, Sa, rfl, a4, a5, a6, a7, a8⟩ := ma.fin la hla
  obtain ⟨b1, b2, Sb, rfl, b4, b5, b6, b7, b8⟩ := mb.fin lb hlb
  · have hbS : b ∈ Sa := by
      rcases mem_ownView.mp hmem with e' | h'
      · exact absurd e' e
      · exact h'
    have hon := (g.honest_st b sb hb).1
    have hann := a8 b hbS hon
    obtain ⟨S, hS1, hS2, hS3, hS4⟩ := b7 _ hann
    rw [hS1]
    apply ownView_eq_of_subset hS2 b4 hS4
    rw [← hS1, a1, b1, ma.exp_eq, mb.exp_eq, hexp]

/-- the continuation receives exactly the list settled on, the member is then in phase `done` -/
theorem continuation_gets_listed (hpos : ∀ x, 1 ≤ c.exp x) (h : Reach c σ) {x : Id} {l : View}
    (hc : (x, Out.cont l) ∈ σ.hist) : ∃ s, σ.st x = some s ∧ s.phase = .done l := by
  have t := reach_tinv hpos h x
  have hmem : l ∈ outConts (outsOf x σ.hist) := by
    unfold outConts outsOf
    rw [List.mem_filterMap]
    refine ⟨Out.cont l, ?_, rfl⟩
    rw [List.mem_map]
    exact ⟨(x, Out.cont l), by simp [hc], rfl⟩
  cases hst : σ.st x with
  | none =>
    rw [hst] at t
    have : outConts (outsOf x σ.hist) = [] := (Prod.mk.inj t).1
    rw [this] at hmem
    cases hmem
  | some s =>
    rw [hst] at t
    have e : outConts (outsOf x σ.hist) = (tr s.phase).1 := (Prod.mk.inj t).1
    rw [e] at hmem
    refine ⟨s, rfl, ?_⟩
    cases hp : s.phase with
    | collect => rw [hp] at hmem; simp [tr] at hmem
    | query l' n => rw [hp] at hmem; simp [tr] at hmem
    | failed => rw [hp] at hmem; simp [tr] at hmem
    | done l' =>
      rw [hp] at hmem
      simp [tr] at hmem
      rw [hmem]

/-- **Agreement, as the callers see it**: continuations of honest members that list each other get
identical lists. -/
theorem continuations_agree (hpos : ∀ x, 1 ≤ c.exp x) (h : Reach c σ) {a b : Id} {la lb : View}
    (ha : (a, Out.cont la) ∈ σ.hist) (hb : (b, Out.cont lb) ∈ σ.hist) (hmem : b ∈ la)
    (hexp : c.exp a = c.exp b) : la = lb := by
  obtain ⟨sa, hsa, pa⟩ := continuation_gets_listed hpos h ha
  obtain ⟨sb, hsb, pb⟩ := continuation_gets_listed hpos h hb
  exact sync_agree hpos h hsa hsb (Or.inl pa) (Or.inl pb) hmem hexp

/-- **Return value and continuation.** At every moment, what `Synchronize` of member `x` has reported is
one of: nothing yet; the continuation ran exactly once (with the list settled on) and `nil` was
returned; an error was returned and the continuation never ran. -/
theorem result_consistent (hpos : ∀ x, 1 ≤ c.exp x) (h : Reach c σ) (x : Id) :
    let cs := outConts (outsOf x σ.hist)
    let rs := outRets (outsOf x σ.hist)
    (cs = [] ∧ rs = []) ∨ (∃ l, cs = [l] ∧ rs = [true]) ∨ (cs = [] ∧ rs = [false]) := by
  have t := reach_tinv hpos h x
  simp only
  cases hst : σ.st x with
  | none =>
    rw [hst] at t
    exact Or.inl ⟨(Prod.mk.inj t).1, (Prod.mk.inj t).2⟩
  | some s =>
    rw [hst] at t
    have e1 := (Prod.mk.inj t).1
    have e2 := (Prod.mk.inj t).2
    cases hp : s.phase with
    | collect => rw [hp] at e1 e2; exact Or.inl ⟨e1, e2⟩
    | query l n => rw [hp] at e1 e2; exact Or.inl ⟨e1, e2⟩
    | done l => rw [hp] at e1 e2; exact Or.inr (Or.inl ⟨l, e1, e2⟩)
    | failed => rw [hp] at e1 e2; exact Or.inr (Or.inr ⟨e1, e2⟩)

/-! ## liveness, partial: the confirmation round cannot be spoiled by an honest run

The real-time part of the statement ("before the deadline") is outside the model. What is proved:
in a run in which every configured member is honest and no more members than expected invoke the
synchronisation, whenever a member has settled on a list, every member on that list answers its
query with exactly that list (so no confirmation is ever wasted on a mismatch), and the member-local
progress facts `read_completes` and `acks_complete` below. -/

theorem ownView_keys_eq_listed (hpos : ∀ x, 1 ≤ c.exp x) (h : Reach c σ) (hall : ∀ z, z ∈ c.members → c.honest z = true)
    {P : List Id} (hPn : P.Nodup) (hP : ∀ z s, σ.st z = some s → z ∈ P)
    {x y : Id} {sx sy : TSt} (hx : σ.st x = some sx) (hy : σ.st y = some sy) {l : View} (hl : Listed sx l)
    (hPl : P.length ≤ c.exp x) (hyl : y ∈ l) (hne : y ≠ x) : ownView y sy.keys = l := by
  have g := reach_ginv hpos h
  have mx := g.minv x sx hx
  have my := g.minv y sy hy
  obtain ⟨a1, a2, Sx, rfl, a4, a5, a6, a7, a8⟩ := mx.fin l hl
  have hyS : y ∈ Sx := by
    rcases mem_ownView.mp hyl with e | h'
    · exact absurd e hne
    · exact h'
  have hon := (g.honest_st y sy hy).1
  obtain ⟨S, hS1, hS2, hS3, hS4⟩ := my.ann_own _ (a8 y hyS hon)
  have hSk : ∀ k ∈ S, k ∈ sy.keys := fun k hk => base_sub_keys my k (hS4 k hk)
  rw [hS1]
  symm
  apply ownView_eq_of_subset hS2 my.keys_nodup hSk
  -- |keys y| ≤ |P| − 1 ≤ expected − 1 = |S|
  have hkP : ∀ k ∈ y :: sy.keys, k ∈ P := by
    intro k hk
    rcases List.mem_cons.mp hk with rfl | hk
    · exact hP _ sy hy
    · have hkm := my.keys_mem k hk
      have := my.val_auth k hk (hall k hkm)
      have hne := g.ann_st k _ this
      cases hk' : σ.st k with
      | none => exact absurd hk' hne
      | some sk => exact hP k sk hk'
  have hnd : (y :: sy.keys).Nodup := List.nodup_cons.mpr ⟨my.self_notin, my.keys_nodup⟩
  have hle : (y :: sy.keys).length ≤ P.length := (List.subperm_of_subset hnd hkP).length_le
  have hSle : S.length ≤ sy.keys.length := (List.subperm_of_subset hS2 hSk).length_le
  have hlen : (ownView y S).length = c.exp x := by rw [← hS1, a1, mx.exp_eq]
  rw [length_ownView] at hlen ⊢
  rw [length_ownView]
  simp only [List.length_cons] at hle
  omega

/-- **Honest confirmations match.** In an all-honest run with no more callers than expected, the answer
of a listed member to the query of a member that has settled on `l` is `l` itself. -/
theorem honest_responses_confirm (hpos : ∀ x, 1 ≤ c.exp x) (h : Reach c σ) (hall : ∀ z, z ∈ c.members → c.honest z = true)
    {P : List Id} (hPn : P.Nodup) (hP : ∀ z s, σ.st z = some s → z ∈ P)
    {x y : Id} {sx sy : TSt} (hx : σ.st x = some sx) (hy : σ.st y = some sy) {l : View} (hl : Listed sx l)
    (hPl : P.length ≤ c.exp x) (hyl : y ∈ l) (hne : y ≠ x) :
    (sy.handle x .query l).2 = [.send x .response l] := by
  have g := reach_ginv hpos h
  have my := g.minv y sy hy
  have hxk : x ∈ sy.keys := by
    -- x is one of the peers y's own view (= l) is made of
    have e := ownView_keys_eq_listed hpos h hall hPn hP hx hy hl hPl hyl hne
    have mx := g.minv x sx hx
    obtain ⟨a1, a2, Sx, a3, a4, a5, a6, a7, a8⟩ := mx.fin l hl
    have : x ∈ l := by rw [a3]; exact mem_ownView.mpr (Or.inl rfl)
    rw [← e] at this
    rcases mem_ownView.mp this with e' | h'
    · exact absurd e'.symm hne
    · exact h'
  have e := ownView_keys_eq_listed hpos h hall hPn hP hx hy hl hPl hyl hne
  show [Out.send x Kind.response (ownView (sy.store x l).self (sy.store x l).keys)] = _
  have hk : (sy.store x l).keys = sy.keys := by
    show ins x sy.keys = sy.keys
    unfold ins
    rw [if_pos hxk]
  have hself : (sy.store x l).self = y := my.self_eq
  rw [hk, hself, e]


/-! ## member-local progress -/

/-- an uninterrupted pass over the whole table -/
def readAll (s : TSt) : TSt := s.keys.foldl TSt.visit s.beginRead

theorem foldl_visit : ∀ (l : List Id) (s : TSt) (a : List (Id × View)), s.acc = some a → (∀ k ∈ l, k ∈ s.keys) → l.Nodup →
    (∀ k ∈ l, k ∉ accKeys a) →
    l.foldl TSt.visit s = { s with acc := some (a ++ l.map (fun k => (k, s.val k))) }
  | [], s, a, ha, _, _, _ => by
    cases s
    simp at ha
    simp [ha]
  | k :: l, s, a, ha, hk, hn, hd => by
    have h1 : s.visit k = { s with acc := some (a ++ [(k, s.val k)]) } := by
      unfold TSt.visit
      rw [ha]
      simp only
      rw [if_pos ⟨hk k (List.mem_cons_self), hd k (List.mem_cons_self)⟩]
    rw [List.foldl_cons, h1]
    have hn' := List.nodup_cons.mp hn
    refine (foldl_visit l { s with acc := some (a ++ [(k, s.val k)]) } (a ++ [(k, s.val k)]) rfl (fun k' hk' => hk k' (List.mem_cons_of_mem _ hk')) hn'.2 ?_).trans ?_
    rotate_left
    · simp [List.append_assoc]
    · intro k' hk' hmem
      simp only [accKeys, List.map_append, List.map_cons, List.map_nil, List.mem_append, List.mem_singleton] at hmem
      rcases hmem with hmem | rfl
      · exact hd k' (List.mem_cons_of_mem _ hk') hmem
      · exact hn'.1 hk'

/-- **A complete, agreeing table is acted upon**: a member in its collecting loop whose peers — exactly
`expected − 1` of them — all announced its own view settles on that view at its next uninterrupted pass
(and broadcasts the query). -/
theorem read_completes (s : TSt) (hp : s.phase = .collect) (ha : s.acc = none) (hn : s.keys.Nodup)
    (hlen : s.keys.length + 1 = s.expected) (hall : ∀ k ∈ s.keys, s.val k = ownView s.self s.keys) :
    Listed (readAll s).finishIntersect.1 (ownView s.self s.keys) ∧
    Out.bcast .query (ownView s.self s.keys) ∈ (readAll s).finishIntersect.2 := by
  have hb : s.beginRead = { s with acc := some [], start := s.keys } := by
    unfold TSt.beginRead
    rw [hp, ha]
  have hr : readAll s = { s with acc := some (s.keys.map (fun k => (k, s.val k))), start := s.keys } := by
    unfold readAll
    rw [hb]
    refine (foldl_visit s.keys { s with acc := some [], start := s.keys } [] rfl (fun k hk => hk) hn (by simp [accKeys])).trans ?_
    simp
  have hk : accKeys (s.keys.map (fun k => (k, s.val k))) = s.keys := by
    simp [accKeys, List.map_map, Function.comp_def]
  have hi : intersect s.self (s.keys.map (fun k => (k, s.val k))) = ownView s.self s.keys := by
    unfold intersect
    simp only [hk]
    rw [if_pos]
    rw [List.all_eq_true]
    intro kv hkv
    obtain ⟨k, hk', rfl⟩ := List.mem_map.mp hkv
    simpa using hall k hk'
  have hl : (ownView s.self s.keys).length = s.expected := by rw [length_ownView]; exact hlen
  rw [hr]
  unfold TSt.finishIntersect
  simp only [covered, hk, hi, hl, Nat.lt_irrefl, gt_iff_lt, if_false]
  have hc : (s.keys.all fun k => decide (k ∈ s.keys)) = true := by
    rw [List.all_eq_true]; intro k hk'; simpa using hk'
  simp only [hc, not_true_eq_false, if_false]
  split
  · exact ⟨Or.inl rfl, by simp⟩
  · exact ⟨Or.inr ⟨_, rfl⟩, by simp⟩

/-- **Enough matching confirmations complete the call**: with `n` confirmations of the queried list at the head
of the channel, `n` being the number still needed, the member runs its continuation on the list and returns nil. -/
theorem acks_complete : ∀ (n : Nat) (s : TSt) (l : View) (rest : List View), s.phase = .query l (n + 1) →
    s.queue = List.replicate (n + 1) l ++ rest →
    ∃ s', (Nat.repeat (fun t => t.recvResponse.1) (n + 1) s) = s' ∧ s'.phase = .done l ∧ s'.queue = rest
  | 0, s, l, rest, hp, hq => by
    refine ⟨_, rfl, ?_⟩
    simp [Nat.repeat, TSt.recvResponse, hp, hq, List.replicate]
  | n + 1, s, l, rest, hp, hq => by
    have h1 : s.recvResponse.1 = { s with queue := List.replicate (n + 1) l ++ rest, phase := .query l (n + 1) } := by
      simp only [TSt.recvResponse, hp, hq, List.replicate_succ, List.cons_append, if_true]
      simp
    obtain ⟨s', e, h2, h3⟩ := acks_complete n s.recvResponse.1 l rest (by rw [h1]) (by rw [h1])
    refine ⟨s', ?_, h2, h3⟩
    rw [← e]
    -- repeat (n+2) f s = repeat (n+1) f (f s)
    have : ∀ (k : Nat) (f : TSt → TSt) (t : TSt), Nat.repeat f (k + 1) t = Nat.repeat f k (f t) := by
      intro k f
      induction k with
      | zero => intro t; rfl
      | succ k ih => intro t; simp only [Nat.repeat] at ih ⊢; rw [ih]
    exact this (n + 1) _ s

/-! ## the confirmation channel never fills up (used by C10: handlers never block) -/

structure RInv (c : Cfg) (x : Id) (s : TSt) : Prop where
  cap_eq : s.cap = c.members.length - 1
  nodup : s.responded.Nodup
  mem : ∀ k ∈ s.responded, k ∈ c.members ∧ k ≠ x
  qlen : s.queue.length ≤ s.responded.length

theorem rinv_op {x : Id} {s : TSt} (r : RInv c x s) (o : Op) : RInv c x (s.op o).1 := by
  cases o with
  | begin => simp only [TSt.op, TSt.beginRead]; split <;> exact ⟨r.cap_eq, r.nodup, r.mem, r.qlen⟩
  | visit k =>
    simp only [TSt.op, TSt.visit]
    split
    · split <;> exact ⟨r.cap_eq, r.nodup, r.mem, r.qlen⟩
    · exact r
  | finishI =>
    simp only [TSt.op, TSt.finishIntersect]
    split
    · exact r
    · split
      · exact r
      · split
        · exact ⟨r.cap_eq, r.nodup, r.mem, r.qlen⟩
        · split
          · exact ⟨r.cap_eq, r.nodup, r.mem, r.qlen⟩
          · split <;> exact ⟨r.cap_eq, r.nodup, r.mem, r.qlen⟩
  | finishT =>
    simp only [TSt.op, TSt.finishTick]
    split
    · exact r
    · split
      · exact r
      · exact ⟨r.cap_eq, r.nodup, r.mem, r.qlen⟩
  | resp =>
    simp only [TSt.op, TSt.recvResponse]
    split
    · rename_i l n v q hp hq
      have hq' : q.length + 1 ≤ s.responded.length := by
        have := r.qlen
        rw [hq] at this
        simpa using this
      split
      · split <;> exact ⟨r.cap_eq, r.nodup, r.mem, Nat.le_of_succ_le hq'⟩
      · exact ⟨r.cap_eq, r.nodup, r.mem, Nat.le_of_succ_le hq'⟩
    · exact r
  | ctx =>
    simp only [TSt.op, TSt.ctxDone]
    split
    · exact ⟨r.cap_eq, r.nodup, r.mem, r.qlen⟩
    · exact ⟨r.cap_eq, r.nodup, r.mem, r.qlen⟩
    · exact r

/-- the handler never finds the channel full, given a duplicate-free configuration that contains the member -/
theorem rinv_handle (hnd : c.members.Nodup) {x : Id} (hxm : x ∈ c.members) {s : TSt} (r : RInv c x s)
    {src : Id} (hsrc : src ∈ c.members) (hne : src ≠ x) (k : Kind) (v : View) :
    RInv c x (s.handle src k v).1 ∧ Out.blocked ∉ (s.handle src k v).2 := by
  cases k with
  | membership => exact ⟨⟨r.cap_eq, r.nodup, r.mem, r.qlen⟩, by simp [TSt.handle]⟩
  | query => exact ⟨⟨r.cap_eq, r.nodup, r.mem, r.qlen⟩, by simp [TSt.handle]⟩
  | response =>
    unfold TSt.handle
    simp only
    split
    · exact ⟨r, by simp⟩
    · rename_i hnew
      have hnd' : (src :: s.responded).Nodup := List.nodup_cons.mpr ⟨hnew, r.nodup⟩
      have hsub : ∀ k ∈ x :: src :: s.responded, k ∈ c.members := by
        intro k hk
        rcases List.mem_cons.mp hk with rfl | hk
        · exact hxm
        · rcases List.mem_cons.mp hk with rfl | hk
          · exact hsrc
          · exact (r.mem k hk).1
      have hnd2 : (x :: src :: s.responded).Nodup := by
        refine List.nodup_cons.mpr ⟨?_, hnd'⟩
        intro hx
        rcases List.mem_cons.mp hx with e | hx
        · exact hne e.symm
        · exact (r.mem x hx).2 rfl
      have hle : (x :: src :: s.responded).length ≤ c.members.length := (List.subperm_of_subset hnd2 hsub).length_le
      simp only [List.length_cons] at hle
      have hq := r.qlen
      have hcap := r.cap_eq
      split
      · refine ⟨⟨r.cap_eq, hnd', ?_, ?_⟩, by simp⟩
        · intro k hk
          rcases List.mem_cons.mp hk with rfl | hk
          · exact ⟨hsrc, hne⟩
          · exact r.mem k hk
        · simp only [List.length_append, List.length_cons, List.length_nil]
          omega
      · rename_i hfull
        exfalso
        omega

theorem responses_never_block (hnd : c.members.Nodup) (h : Reach c σ) :
    (∀ x s, σ.st x = some s → RInv c x s) ∧ ∀ x, (x, Out.blocked) ∉ σ.hist := by
  induction h with
  | init => exact ⟨fun x s hs => (by cases hs), fun x hx => (by cases hx)⟩
  | @start σ h x hx hm hn ih =>
    refine ⟨?_, ih.2⟩
    intro y sy hy
    have h2 : (if y = x then some (TSt.fresh c x) else σ.st y) = some sy := hy
    by_cases e : y = x
    · subst e
      rw [if_pos rfl] at h2
      have : sy = TSt.fresh c y := (Option.some.inj h2).symm
      subst this
      exact ⟨rfl, List.nodup_nil, by simp [TSt.fresh], by simp [TSt.fresh]⟩
    · rw [if_neg e] at h2
      exact ih.1 y sy h2
  | @handle σ h x src k v s hx hs hsrc hne hauth ih =>
    have hxm : x ∈ c.members := by
      -- only configured members ever start
      have : ∀ {σ}, Reach c σ → ∀ x s, σ.st x = some s → x ∈ c.members := by
        intro σ h
        induction h with
        | init => intro x s hs; cases hs
        | @start σ h x' hx' hm' hn' ih' =>
          intro y sy hy
          have h2 : (if y = x' then some (TSt.fresh c x') else σ.st y) = some sy := hy
          by_cases e : y = x'
          · subst e; exact hm'
          · rw [if_neg e] at h2; exact ih' y sy h2
        | @handle σ h x' src' k' v' s' hx' hs' hsrc' hne' hauth' ih' =>
          intro y sy hy
          have h2 : (if y = x' then some (s'.handle src' k' v').1 else σ.st y) = some sy := hy
          by_cases e : y = x'
          · subst e; exact ih' y s' hs'
          · rw [if_neg e] at h2; exact ih' y sy h2
        | @op σ h x' o' s' hx' hs' ih' =>
          intro y sy hy
          have h2 : (if y = x' then some (s'.op o').1 else σ.st y) = some sy := hy
          by_cases e : y = x'
          · subst e; exact ih' y s' hs'
          · rw [if_neg e] at h2; exact ih' y sy h2
      exact this h x s hs
    obtain ⟨r1, r2⟩ := rinv_handle hnd hxm (ih.1 x s hs) hsrc hne k v
    refine ⟨?_, ?_⟩
    · intro y sy hy
      have h2 : (if y = x then some (s.handle src k v).1 else σ.st y) = some sy := hy
      by_cases e : y = x
      · subst e
        rw [if_pos rfl] at h2
        have : sy = (s.handle src k v).1 := (Option.some.inj h2).symm
        subst this
        exact r1
      · rw [if_neg e] at h2
        exact ih.1 y sy h2
    · intro y hy
      have hy' : (y, Out.blocked) ∈ σ.hist ++ (s.handle src k v).2.map (fun o => (x, o)) := hy
      rcases List.mem_append.mp hy' with hy' | hy'
      · exact ih.2 y hy'
      · obtain ⟨o, ho, e⟩ := List.mem_map.mp hy'
        have : o = Out.blocked := (Prod.mk.inj e).2
        subst this
        exact r2 ho
  | @op σ h x o s hx hs ih =>
    refine ⟨?_, ?_⟩
    · intro y sy hy
      have h2 : (if y = x then some (s.op o).1 else σ.st y) = some sy := hy
      by_cases e : y = x
      · subst e
        rw [if_pos rfl] at h2
        have : sy = (s.op o).1 := (Option.some.inj h2).symm
        subst this
        exact rinv_op (ih.1 y s hs) o
      · rw [if_neg e] at h2
        exact ih.1 y sy h2
    · intro y hy
      have hy' : (y, Out.blocked) ∈ σ.hist ++ (s.op o).2.map (fun o => (x, o)) := hy
      rcases List.mem_append.mp hy' with hy' | hy'
      · exact ih.2 y hy'
      · obtain ⟨o', ho, e⟩ := List.mem_map.mp hy'
        have : o' = Out.blocked := (Prod.mk.inj e).2
        subst this
        exfalso
        cases o with
        | begin => simp [TSt.op] at ho
        | visit k => simp [TSt.op] at ho
        | finishI =>
          simp only [TSt.op, TSt.finishIntersect] at ho
          split at ho
          · simp at ho
          · split at ho
            · simp at ho
            · split at ho
              · simp at ho
              · split at ho
                · simp at ho
                · split at ho <;> simp at ho
        | finishT =>
          simp only [TSt.op, TSt.finishTick] at ho
          split at ho
          · simp at ho
          · split at ho <;> simp at ho
        | resp =>
          simp only [TSt.op, TSt.recvResponse] at ho
          split at ho
          · split at ho
            · split at ho <;> simp at ho
            · simp at ho
          · simp at ho
        | ctx =>
          simp only [TSt.op, TSt.ctxDone] at ho
          split at ho <;> simp at ho

/-! ## executable runs (non-vacuity; also the replay format of the check) -/

inductive Step
  | start (x : Id)
  | handle (x src : Id) (k : Kind) (v : View)
  | op (x : Id) (o : Op)

def execStep (c : Cfg) (σ : Sys) : Step → Option Sys
  | .start x => if c.honest x = true ∧ x ∈ c.members ∧ σ.st x = none then some (σ.startAt c x) else none
  | .handle x src k v =>
    match σ.st x with
    | some s =>
      if c.honest x = true ∧ src ∈ c.members ∧ src ≠ x ∧ (c.honest src = true → k ≠ .response → (src, v) ∈ σ.ann)
      then some (σ.handleAt x src k v s) else none
    | none => none
  | .op x o =>
    match σ.st x with
    | some s => if c.honest x = true then some (σ.upd x (s.op o)) else none
    | none => none

def exec (c : Cfg) : Sys → List Step → Option Sys
  | σ, [] => some σ
  | σ, st :: rest => (execStep c σ st).bind (fun σ' => exec c σ' rest)

theorem exec_reach {c : Cfg} : ∀ (steps : List Step) {σ σ' : Sys}, Reach c σ → exec c σ steps = some σ' → Reach c σ'
  | [], σ, σ', h, e => by
    simp only [exec, Option.some.injEq] at e
    subst e
    exact h
  | st :: rest, σ, σ', h, e => by
    simp only [exec] at e
    cases hs : execStep c σ st with
    | none => rw [hs] at e; simp at e
    | some σ1 =>
      rw [hs] at e
      simp only [Option.bind_some] at e
      refine exec_reach rest ?_ e
      cases st with
      | start x =>
        simp only [execStep] at hs
        split at hs
        · rename_i hc
          cases hs
          exact Reach.start h x hc.1 hc.2.1 hc.2.2
        · cases hs
      | handle x src k v =>
        simp only [execStep] at hs
        split at hs
        · rename_i s hst
          split at hs
          · rename_i hc
            cases hs
            exact Reach.handle h x src k v s hc.1 hst hc.2.1 hc.2.2.1 hc.2.2.2
          · cases hs
        · cases hs
      | op x o =>
        simp only [execStep] at hs
        split at hs
        · rename_i s hst
          split at hs
          · rename_i hc
            cases hs
            exact Reach.op h x o s hc hst
          · cases hs
        · cases hs

/-- three configured members, 3 corrupted, two expected -/
def exCfg : Cfg := { members := [1, 2, 3], honest := fun x => x != 3, exp := fun _ => 2 }

def exRun : List Step :=
  [.start 1, .start 2,
   .op 1 .begin, .op 1 .finishT,                       -- 1 announces [1]
   .handle 2 1 .membership [1],
   .op 2 .begin, .op 2 (.visit 1), .op 2 .finishT,     -- 2 announces [1,2]
   .handle 1 2 .membership [1, 2],
   .handle 1 3 .membership [7, 7, 7],                  -- the corrupted member interferes …
   .op 1 .begin, .op 1 (.visit 2), .op 1 (.visit 3), .op 1 .finishI,   -- … so this evaluation fails
   .handle 1 3 .membership [1, 2, 3],
   .op 1 .begin, .op 1 (.visit 3), .op 1 (.visit 2), .op 1 .finishT,   -- 1 announces [1,2,3]
   .handle 2 1 .membership [1, 2, 3],
   .op 2 .begin, .op 2 (.visit 1), .op 2 .finishI,     -- 2: views differ, keeps collecting
   .handle 2 3 .query [1, 2, 3],                       -- 3 tells 2 the same; 2 answers
   .op 2 .begin, .op 2 (.visit 3), .op 2 (.visit 1), .op 2 .finishI,   -- too many members for 2: it fails
   .op 1 .ctx]

/-- the run above is a reachable history in which member 2 fails with "too many members" and 1 is cancelled -/
example : ((exec exCfg Sys.init exRun).bind (fun σ => (σ.st 2).map (·.phase))) = some .failed := by decide
example : ((exec exCfg Sys.init exRun).map (fun σ => (outRets (outsOf 2 σ.hist), outRets (outsOf 1 σ.hist)))) =
    some ([false], [false]) := by decide

def exRun2 : List Step :=
  [.start 1, .start 2,
   .op 1 .begin, .op 1 .finishT, .handle 2 1 .membership [1],
   .op 2 .begin, .op 2 (.visit 1), .op 2 .finishT, .handle 1 2 .membership [1, 2],
   .op 1 .begin, .op 1 (.visit 2), .op 1 .finishI,     -- 1 settles on [1,2] and queries
   .handle 2 1 .query [1, 2],                          -- 2 answers [1,2]
   .op 2 .begin, .op 2 (.visit 1), .op 2 .finishI,     -- 2 settles on [1,2]
   .handle 1 2 .query [1, 2],
   .handle 1 3 .response [9],                          -- a corrupted confirmation of something else is skipped
   .handle 1 2 .response [1, 2], .handle 2 1 .response [1, 2],
   .op 1 .resp, .op 1 .resp, .op 2 .resp]

/-- **Non-vacuity of `sync_valid` / `sync_agree` / `continuations_agree`**: a reachable history in which two
honest members, with a corrupted third one interfering, both run their continuation on `[1, 2]`. -/
example : ((exec exCfg Sys.init exRun2).map
    (fun σ => ((σ.st 1).map (·.phase), (σ.st 2).map (·.phase), outConts (outsOf 1 σ.hist), outConts (outsOf 2 σ.hist)))) =
    some (some (.done [1, 2]), some (.done [1, 2]), [[1, 2]], [[1, 2]]) := by decide

/-- Observation (outside the property's statement, which presupposes an expected size a list containing
the member can have): with `expectedMemberCount = 0` and disagreeing views the continuation runs with the
empty list — model and code agree on this (lockstep runs with expected 0). -/
theorem expected_zero_observation :
    ({ self := 1, expected := 0, cap := 2, keys := [2], val := fun _ => [5], acc := some [(2, [5])], start := [2] } : TSt).finishIntersect.2
      = [.bcast .query [], .cont [], .ret true] := by decide

/-! ## the member: bytes, tags, several topics -/

/-- A message changes nothing unless it decodes and its tag is the one registered for its authenticated
sender on a registered topic; then exactly that topic's state takes the `TSt.handle` step of the model
above, with the decoded kind and view. -/
theorem member_handle_spec (m : Member) (src : Id) (msg : Bytes) :
    ((m.handle src msg).1 = m ∧ ((m.handle src msg).2 = .ignored ∨ (m.handle src msg).2 = .panic)) ∨
    ∃ ty tag peers t s k, decodeView msg = .ok ty tag peers ∧ m.lookup tag = some (t, src) ∧ m.topic? t = some s ∧
      kindOf ty = some k ∧
      (m.handle src msg).1 = m.setTopic t (s.handle src k (peers.map (·.toNat))).1 ∧
      (m.handle src msg).2 = .handled t (s.handle src k (peers.map (·.toNat))).2 := by
  unfold Member.handle
  split
  · exact Or.inl ⟨rfl, Or.inr rfl⟩
  · exact Or.inl ⟨rfl, Or.inl rfl⟩
  · rename_i ty tag peers hd
    split
    · exact Or.inl ⟨rfl, Or.inl rfl⟩
    · rename_i t id hl
      split
      · exact Or.inl ⟨rfl, Or.inl rfl⟩
      · rename_i hid
        have hid' : id = src := by simpa using hid
        subst hid'
        split
        · rename_i s k hs hk
          exact Or.inr ⟨ty, tag, peers, t, s, k, hd, hl, hs, hk, rfl, rfl⟩
        · exact Or.inl ⟨rfl, Or.inl rfl⟩



/-- **The source the model was transcribed from is the current source**: the statements of `Synchronize`, `intersectedView`, `myMemberViewSorted`, registration, `HandleMessage` and its three handlers, regenerated from
`/repo` on this run, are the committed ones (logging left out). A change of any of them — harmless or not — fails here
first; the differential and monitored runs of this property are then the search for an input on which it fails. -/
theorem source_as_modelled : TSSVerif.Gen.Stmts.disc = TSSVerif.Model.StmtsExpected.disc := by
  decide +kernel

end TSSVerif.Props.C07
