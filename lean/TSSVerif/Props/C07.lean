import TSSVerif.Proofs.DiscTrace
/-!
# C07 — membership synchronisation: agreed lists are valid and identical; honest runs finish

Model: `Model/Disc.lean` (the repaired `disc/discovery.go`). Quantifiers: **every** reachable state of
a topic — any number of configured members, any identifiers, any subset corrupted, any interleaving
of handler steps with the unserialised, non-atomic passes of the `Synchronize` goroutines, any
messages whatsoever from corrupted members (lying about views, confirming anything, replaying),
duplicated / reordered / lost honest messages. The only constraint on the environment is that a
membership or query message attributed to an *honest* member carries a view that member broadcast
(`Reach.handle`, `hauth`): authenticated channels plus "the tag of (topic, id) is accepted only from
id" (`Member.handle`), i.e. HMAC-SHA256 tags do not collide.

`expected ≥ 1` is a hypothesis throughout: with `expectedMemberCount = 0` the real code (and the model,
`expected_zero_observation`) runs the continuation with an empty list when the views disagree.
-/
set_option linter.unusedSimpArgs false
set_option linter.unusedVariables false
namespace TSSVerif.Props.C07
open TSSVerif.Model TSSVerif.Model.Disc TSSVerif.Proofs.Disc

variable {c : Cfg} {σ : Sys}

/-- **Validity.** The list an honest member settles on (it is passed to the continuation unchanged,
`continuation_gets_listed`) is strictly sorted (hence duplicate-free), contains the member, has exactly the
expected size, and every other entry is a configured member from which this member accepted a
membership/query message on this topic — and which, if honest, broadcast exactly this list. -/
theorem sync_valid (hpos : ∀ x, 1 ≤ c.exp x) (h : Reach c σ) {x : Id} {s : TSt} (hs : σ.st x = some s)
    {l : View} (hl : Listed s l) :
    l.Pairwise (· < ·) ∧ x ∈ l ∧ l.length = c.exp x ∧
    ∀ k ∈ l, k ≠ x → k ∈ c.members ∧ (x, k) ∈ σ.heard ∧ (c.honest k = true → (k, l) ∈ σ.ann) := by
  have m := (reach_ginv hpos h).minv x s hs
  obtain ⟨f1, f2, S', g1, g2, g3, g4, g5, g6⟩ := m.fin l hl
  subst g1
  refine ⟨?_, mem_ownView.mpr (Or.inl rfl), by rw [f1, m.exp_eq], ?_⟩
  · have hs := ownView_sorted x S'
    have hn : (ownView x S').Pairwise (· ≠ ·) := ownView_nodup g2 g3
    exact (hs.and hn).imp (fun ⟨a, b⟩ => Nat.lt_of_le_of_ne a b)
  · intro k hk hne
    rcases mem_ownView.mp hk with e | hk
    · exact absurd e hne
    · exact ⟨m.keys_mem k (g4 k hk), m.keys_heard k (g4 k hk), g6 k hk⟩

/-- **Agreement.** If honest `a` settles on `la`, honest `b` appears in `la`, and `b` settles on `lb`
(both expecting the same count), then `la = lb` — whatever the corrupted members and the schedule did. -/
theorem sync_agree (hpos : ∀ x, 1 ≤ c.exp x) (h : Reach c σ) {a b : Id} {sa sb : TSt}
    (ha : σ.st a = some sa) (hb : σ.st b = some sb) {la lb : View} (hla : Listed sa la) (hlb : Listed sb lb)
    (hmem : b ∈ la) (hexp : c.exp a = c.exp b) : la = lb := by
  have g := reach_ginv hpos h
  have ma := g.minv a sa ha
  have mb := g.minv b sb hb
  by_cases e : b = a
  · subst e
    -- the same member: its phase names one list
    have : sa = sb := Option.some.inj (ha.symm.trans hb)
    subst this
    rcases hla with p | ⟨n, p⟩ <;> rcases hlb with q | ⟨m, q⟩ <;> rw [p] at q <;> cases q <;> rfl
  obtain ⟨a1, a2, Sa, rfl, a4, a5, a6, a7, a8⟩ := ma.fin la hla
  obtain ⟨b1, b2, Sb, rfl, b4, b5, b6, b7, b8⟩ := mb.fin lb hlb
  · have hbS : b ∈ Sa := by
      rcases mem_ownView.mp hmem with e' | h'
      · exact absurd e' e
      · exact h'
    have hon := (g.honest_st b sb hb).1
    have hann := a8 b hbS hon
    obtain ⟨S, hS1, hS2, hS3, hS4⟩ := b7 _ hann
    rw [hS1]
    apply ownView_eq_of_subset hS2 b4 hS4
    rw [← hS1, a1, b1, ma.exp_eq, mb.exp_eq, hexp]

/-- the continuation receives exactly the list settled on, the member is then in phase `done` -/
theorem continuation_gets_listed (hpos : ∀ x, 1 ≤ c.exp x) (h : Reach c σ) {x : Id} {l : View}
    (hc : (x, Out.cont l) ∈ σ.hist) : ∃ s, σ.st x = some s ∧ s.phase = .done l := by
  have t := reach_tinv hpos h x
  have hmem : l ∈ outConts (outsOf x σ.hist) := by
    unfold outConts outsOf
    rw [List.mem_filterMap]
    refine ⟨Out.cont l, ?_, rfl⟩
    rw [List.mem_map]
    exact ⟨(x, Out.cont l), by simp [hc], rfl⟩
  cases hst : σ.st x with
  | none =>
    rw [hst] at t
    have : outConts (outsOf x σ.hist) = [] := (Prod.mk.inj t).1
    rw [this] at hmem
    cases hmem
  | some s =>
    rw [hst] at t
    have e : outConts (outsOf x σ.hist) = (tr s.phase).1 := (Prod.mk.inj t).1
    rw [e] at hmem
    refine ⟨s, rfl, ?_⟩
    cases hp : s.phase with
    | collect => rw [hp] at hmem; simp [tr] at hmem
    | query l' n => rw [hp] at hmem; simp [tr] at hmem
    | failed => rw [hp] at hmem; simp [tr] at hmem
    | done l' =>
      rw [hp] at hmem
      simp [tr] at hmem
      rw [hmem]

/-- **Agreement, as the callers see it**: continuations of honest members that list each other get
identical lists. -/
theorem continuations_agree (hpos : ∀ x, 1 ≤ c.exp x) (h : Reach c σ) {a b : Id} {la lb : View}
    (ha : (a, Out.cont la) ∈ σ.hist) (hb : (b, Out.cont lb) ∈ σ.hist) (hmem : b ∈ la)
    (hexp : c.exp a = c.exp b) : la = lb := by
  obtain ⟨sa, hsa, pa⟩ := continuation_gets_listed hpos h ha
  obtain ⟨sb, hsb, pb⟩ := continuation_gets_listed hpos h hb
  exact sync_agree hpos h hsa hsb (Or.inl pa) (Or.inl pb) hmem hexp

/-- **Return value and continuation.** At every moment, what `Synchronize` of member `x` has reported is
one of: nothing yet; the continuation ran exactly once (with the list settled on) and `nil` was
returned; an error was returned and the continuation never ran. -/
theorem result_consistent (hpos : ∀ x, 1 ≤ c.exp x) (h : Reach c σ) (x : Id) :
    let cs := outConts (outsOf x σ.hist)
    let rs := outRets (outsOf x σ.hist)
    (cs = [] ∧ rs = []) ∨ (∃ l, cs = [l] ∧ rs = [true]) ∨ (cs = [] ∧ rs = [false]) := by
  have t := reach_tinv hpos h x
  simp only
  cases hst : σ.st x with
  | none =>
    rw [hst] at t
    exact Or.inl ⟨(Prod.mk.inj t).1, (Prod.mk.inj t).2⟩
  | some s =>
    rw [hst] at t
    have e1 := (Prod.mk.inj t).1
    have e2 := (Prod.mk.inj t).2
    cases hp : s.phase with
    | collect => rw [hp] at e1 e2; exact Or.inl ⟨e1, e2⟩
    | query l n => rw [hp] at e1 e2; exact Or.inl ⟨e1, e2⟩
    | done l => rw [hp] at e1 e2; exact Or.inr (Or.inl ⟨l, e1, e2⟩)
    | failed => rw [hp] at e1 e2; exact Or.inr (Or.inr ⟨e1, e2⟩)

/-! ## liveness, partial: the confirmation round cannot be spoiled by an honest run

The real-time part of the statement ("before the deadline") is outside the model. What is proved:
in a run in which every configured member is honest and no more members than expected invoke the
synchronisation, whenever a member has settled on a list, every member on that list answers its
query with exactly that list (so no confirmation is ever wasted on a mismatch), and the member-local
progress facts `read_completes` and `acks_complete` below. -/

theorem ownView_keys_eq_listed (hpos : ∀ x, 1 ≤ c.exp x) (h : Reach c σ) (hall : ∀ z, z ∈ c.members → c.honest z = true)
    {P : List Id} (hPn : P.Nodup) (hP : ∀ z s, σ.st z = some s → z ∈ P)
    {x y : Id} {sx sy : TSt} (hx : σ.st x = some sx) (hy : σ.st y = some sy) {l : View} (hl : Listed sx l)
    (hPl : P.length ≤ c.exp x) (hyl : y ∈ l) (hne : y ≠ x) : ownView y sy.keys = l := by
  have g := reach_ginv hpos h
  have mx := g.minv x sx hx
  have my := g.minv y sy hy
  obtain ⟨a1, a2, Sx, rfl, a4, a5, a6, a7, a8⟩ := mx.fin l hl
  have hyS : y ∈ Sx := by
    rcases mem_ownView.mp hyl with e | h'
    · exact absurd e hne
    · exact h'
  have hon := (g.honest_st y sy hy).1
  obtain ⟨S, hS1, hS2, hS3, hS4⟩ := my.ann_own _ (a8 y hyS hon)
  have hSk : ∀ k ∈ S, k ∈ sy.keys := fun k hk => base_sub_keys my k (hS4 k hk)
  rw [hS1]
  symm
  apply ownView_eq_of_subset hS2 my.keys_nodup hSk
  -- |keys y| ≤ |P| − 1 ≤ expected − 1 = |S|
  have hkP : ∀ k ∈ y :: sy.keys, k ∈ P := by
    intro k hk
    rcases List.mem_cons.mp hk with rfl | hk
    · exact hP _ sy hy
    · have hkm := my.keys_mem k hk
      have := my.val_auth k hk (hall k hkm)
      have hne := g.ann_st k _ this
      cases hk' : σ.st k with
      | none => exact absurd hk' hne
      | some sk => exact hP k sk hk'
  have hnd : (y :: sy.keys).Nodup := List.nodup_cons.mpr ⟨my.self_notin, my.keys_nodup⟩
  have hle : (y :: sy.keys).length ≤ P.length := (List.subperm_of_subset hnd hkP).length_le
  have hSle : S.length ≤ sy.keys.length := (List.subperm_of_subset hS2 hSk).length_le
  have hlen : (ownView y S).length = c.exp x := by rw [← hS1, a1, mx.exp_eq]
  rw [length_ownView] at hlen ⊢
  rw [length_ownView]
  simp only [List.length_cons] at hle
  omega

/-- **Honest confirmations match.** In an all-honest run with no more callers than expected, the answer
of a listed member to the query of a member that has settled on `l` is `l` itself. -/
theorem honest_responses_confirm (hpos : ∀ x, 1 ≤ c.exp x) (h : Reach c σ) (hall : ∀ z, z ∈ c.members → c.honest z = true)
    {P : List Id} (hPn : P.Nodup) (hP : ∀ z s, σ.st z = some s → z ∈ P)
    {x y : Id} {sx sy : TSt} (hx : σ.st x = some sx) (hy : σ.st y = some sy) {l : View} (hl : Listed sx l)
    (hPl : P.length ≤ c.exp x) (hyl : y ∈ l) (hne : y ≠ x) :
    (sy.handle x .query l).2 = [.send x .response l] := by
  have g := reach_ginv hpos h
  have my := g.minv y sy hy
  have hxk : x ∈ sy.keys := by
    -- x is one of the peers y's own view (= l) is made of
    have e := ownView_keys_eq_listed hpos h hall hPn hP hx hy hl hPl hyl hne
    have mx := g.minv x sx hx
    obtain ⟨a1, a2, Sx, a3, a4, a5, a6, a7, a8⟩ := mx.fin l hl
    have : x ∈ l := by rw [a3]; exact mem_ownView.mpr (Or.inl rfl)
    rw [← e] at this
    rcases mem_ownView.mp this with e' | h'
    · exact absurd e'.symm hne
    · exact h'
  have e := ownView_keys_eq_listed hpos h hall hPn hP hx hy hl hPl hyl hne
  show [Out.send x Kind.response (ownView (sy.store x l).self (sy.store x l).keys)] = _
  have hk : (sy.store x l).keys = sy.keys := by
    show ins x sy.keys = sy.keys
    unfold ins
    rw [if_pos hxk]
  have hself : (sy.store x l).self = y := my.self_eq
  rw [hk, hself, e]

/-! ## the confirmation channel never fills up (used by C10: handlers never block) -/

structure RInv (c : Cfg) (x : Id) (s : TSt) : Prop where
  cap_eq : s.cap = c.members.length - 1
  nodup : s.responded.Nodup
  mem : ∀ k ∈ s.responded, k ∈ c.members ∧ k ≠ x
  qlen : s.queue.length ≤ s.responded.length

theorem rinv_op {x : Id} {s : TSt} (r : RInv c x s) (o : Op) : RInv c x (s.op o).1 := by
  cases o with
  | begin => simp only [TSt.op, TSt.beginRead]; split <;> exact ⟨r.cap_eq, r.nodup, r.mem, r.qlen⟩
  | visit k =>
    simp only [TSt.op, TSt.visit]
    split
    · split <;> exact ⟨r.cap_eq, r.nodup, r.mem, r.qlen⟩
    · exact r
  | finishI =>
    simp only [TSt.op, TSt.finishIntersect]
    split
    · exact r
    · split
      · exact r
      · split
        · exact ⟨r.cap_eq, r.nodup, r.mem, r.qlen⟩
        · split
          · exact ⟨r.cap_eq, r.nodup, r.mem, r.qlen⟩
          · split <;> exact ⟨r.cap_eq, r.nodup, r.mem, r.qlen⟩
  | finishT =>
    simp only [TSt.op, TSt.finishTick]
    split
    · exact r
    · split
      · exact r
      · exact ⟨r.cap_eq, r.nodup, r.mem, r.qlen⟩
  | resp =>
    simp only [TSt.op, TSt.recvResponse]
    split
    · rename_i l n v q hp hq
      have hq' : q.length + 1 ≤ s.responded.length := by
        have := r.qlen
        rw [hq] at this
        simpa using this
      split
      · split <;> exact ⟨r.cap_eq, r.nodup, r.mem, Nat.le_of_succ_le hq'⟩
      · exact ⟨r.cap_eq, r.nodup, r.mem, Nat.le_of_succ_le hq'⟩
    · exact r
  | ctx =>
    simp only [TSt.op, TSt.ctxDone]
    split
    · exact ⟨r.cap_eq, r.nodup, r.mem, r.qlen⟩
    · exact ⟨r.cap_eq, r.nodup, r.mem, r.qlen⟩
    · exact r

/-- the handler never finds the channel full, given a duplicate-free configuration that contains the member -/
theorem rinv_handle (hnd : c.members.Nodup) {x : Id} (hxm : x ∈ c.members) {s : TSt} (r : RInv c x s)
    {src : Id} (hsrc : src ∈ c.members) (hne : src ≠ x) (k : Kind) (v : View) :
    RInv c x (s.handle src k v).1 ∧ Out.blocked ∉ (s.handle src k v).2 := by
  cases k with
  | membership => exact ⟨⟨r.cap_eq, r.nodup, r.mem, r.qlen⟩, by simp [TSt.handle]⟩
  | query => exact ⟨⟨r.cap_eq, r.nodup, r.mem, r.qlen⟩, by simp [TSt.handle]⟩
  | response =>
    unfold TSt.handle
    simp only
    split
    · exact ⟨r, by simp⟩
    · rename_i hnew
      have hnd' : (src :: s.responded).Nodup := List.nodup_cons.mpr ⟨hnew, r.nodup⟩
      have hsub : ∀ k ∈ x :: src :: s.responded, k ∈ c.members := by
        intro k hk
        rcases List.mem_cons.mp hk with rfl | hk
        · exact hxm
        · rcases List.mem_cons.mp hk with rfl | hk
          · exact hsrc
          · exact (r.mem k hk).1
      have hnd2 : (x :: src :: s.responded).Nodup := by
        refine List.nodup_cons.mpr ⟨?_, hnd'⟩
        intro hx
        rcases List.mem_cons.mp hx with e | hx
        · exact hne e.symm
        · exact (r.mem x hx).2 rfl
      have hle : (x :: src :: s.responded).length ≤ c.members.length := (List.subperm_of_subset hnd2 hsub).length_le
      simp only [List.length_cons] at hle
      have hq := r.qlen
      have hcap := r.cap_eq
      split
      · refine ⟨⟨r.cap_eq, hnd', ?_, ?_⟩, by simp⟩
        · intro k hk
          rcases List.mem_cons.mp hk with rfl | hk
          · exact ⟨hsrc, hne⟩
          · exact r.mem k hk
        · simp only [List.length_append, List.length_cons, List.length_nil]
          omega
      · rename_i hfull
        exfalso
        omega

theorem responses_never_block (hnd : c.members.Nodup) (h : Reach c σ) :
    (∀ x s, σ.st x = some s → RInv c x s) ∧ ∀ x, (x, Out.blocked) ∉ σ.hist := by
  induction h with
  | init => exact ⟨fun x s hs => (by cases hs), fun x hx => (by cases hx)⟩
  | @start σ h x hx hm hn ih =>
    refine ⟨?_, ih.2⟩
    intro y sy hy
    have h2 : (if y = x then some (TSt.fresh c x) else σ.st y) = some sy := hy
    by_cases e : y = x
    · subst e
      rw [if_pos rfl] at h2
      have : sy = TSt.fresh c y := (Option.some.inj h2).symm
      subst this
      exact ⟨rfl, List.nodup_nil, by simp [TSt.fresh], by simp [TSt.fresh]⟩
    · rw [if_neg e] at h2
      exact ih.1 y sy h2
  | @handle σ h x src k v s hx hs hsrc hne hauth ih =>
    have hxm : x ∈ c.members := by
      -- only configured members ever start
      have : ∀ {σ}, Reach c σ → ∀ x s, σ.st x = some s → x ∈ c.members := by
        intro σ h
        induction h with
        | init => intro x s hs; cases hs
        | @start σ h x' hx' hm' hn' ih' =>
          intro y sy hy
          have h2 : (if y = x' then some (TSt.fresh c x') else σ.st y) = some sy := hy
          by_cases e : y = x'
          · subst e; exact hm'
          · rw [if_neg e] at h2; exact ih' y sy h2
        | @handle σ h x' src' k' v' s' hx' hs' hsrc' hne' hauth' ih' =>
          intro y sy hy
          have h2 : (if y = x' then some (s'.handle src' k' v').1 else σ.st y) = some sy := hy
          by_cases e : y = x'
          · subst e; exact ih' y s' hs'
          · rw [if_neg e] at h2; exact ih' y sy h2
        | @op σ h x' o' s' hx' hs' ih' =>
          intro y sy hy
          have h2 : (if y = x' then some (s'.op o').1 else σ.st y) = some sy := hy
          by_cases e : y = x'
          · subst e; exact ih' y s' hs'
          · rw [if_neg e] at h2; exact ih' y sy h2
      exact this h x s hs
    obtain ⟨r1, r2⟩ := rinv_handle hnd hxm (ih.1 x s hs) hsrc hne k v
    refine ⟨?_, ?_⟩
    · intro y sy hy
      have h2 : (if y = x then some (s.handle src k v).1 else σ.st y) = some sy := hy
      by_cases e : y = x
      · subst e
        rw [if_pos rfl] at h2
        have : sy = (s.handle src k v).1 := (Option.some.inj h2).symm
        subst this
        exact r1
      · rw [if_neg e] at h2
        exact ih.1 y sy h2
    · intro y hy
      have hy' : (y, Out.blocked) ∈ σ.hist ++ (s.handle src k v).2.map (fun o => (x, o)) := hy
      rcases List.mem_append.mp hy' with hy' | hy'
      · exact ih.2 y hy'
      · obtain ⟨o, ho, e⟩ := List.mem_map.mp hy'
        have : o = Out.blocked := (Prod.mk.inj e).2
        subst this
        exact r2 ho
  | @op σ h x o s hx hs ih =>
    refine ⟨?_, ?_⟩
    · intro y sy hy
      have h2 : (if y = x then some (s.op o).1 else σ.st y) = some sy := hy
      by_cases e : y = x
      · subst e
        rw [if_pos rfl] at h2
        have : sy = (s.op o).1 := (Option.some.inj h2).symm
        subst this
        exact rinv_op (ih.1 y s hs) o
      · rw [if_neg e] at h2
        exact ih.1 y sy h2
    · intro y hy
      have hy' : (y, Out.blocked) ∈ σ.hist ++ (s.op o).2.map (fun o => (x, o)) := hy
      rcases List.mem_append.mp hy' with hy' | hy'
      · exact ih.2 y hy'
      · obtain ⟨o', ho, e⟩ := List.mem_map.mp hy'
        have : o' = Out.blocked := (Prod.mk.inj e).2
        subst this
        exfalso
        cases o with
        | begin => simp [TSt.op] at ho
        | visit k => simp [TSt.op] at ho
        | finishI =>
          simp only [TSt.op, TSt.finishIntersect] at ho
          split at ho
          · simp at ho
          · split at ho
            · simp at ho
            · split at ho
              · simp at ho
              · split at ho
                · simp at ho
                · split at ho <;> simp at ho
        | finishT =>
          simp only [TSt.op, TSt.finishTick] at ho
          split at ho
          · simp at ho
          · split at ho <;> simp at ho
        | resp =>
          simp only [TSt.op, TSt.recvResponse] at ho
          split at ho
          · split at ho
            · split at ho <;> simp at ho
            · simp at ho
          · simp at ho
        | ctx =>
          simp only [TSt.op, TSt.ctxDone] at ho
          split at ho <;> simp at ho

end TSSVerif.Props.C07
