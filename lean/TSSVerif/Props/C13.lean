import TSSVerif.Model.Wire
import TSSVerif.Model.WireDisc
/-!
# C13 — every 16-bit identifier, round and digest survives the wire encodings

The integer expressions below (`ackEncByte*`, `ackDecSender`, `viewEncByteAt*`, `viewDecPeer`,
guards, offsets) are *regenerated from the Go source on every run* (`Gen/Wire.lean`); these theorems
are therefore re-checked against what the code says now. All quantifiers are unbounded: every
`BitVec 16` identifier, every round below 128, every digest, every view of any length.
-/
set_option linter.unusedSimpArgs false
namespace TSSVerif.Props.C13
open TSSVerif.Model TSSVerif.Gen.Wire TSSVerif.Gen.WireDisc

/-! ## helper facts about the regenerated expressions -/

theorem sender_bytes_roundtrip (s : B16) (r : B8) :
    ackDecSender (ackEncByte0 s r) (ackEncByte1 s r) (ackEncByte2 s r) = s := by
  unfold ackDecSender ackEncByte1 ackEncByte2
  apply BitVec.eq_of_toNat_eq
  have := s.isLt
  simp only [BitVec.toNat_add, BitVec.toNat_shiftLeft, BitVec.toNat_setWidth, BitVec.toNat_ushiftRight,
    Nat.shiftRight_eq_div_pow, Nat.shiftLeft_eq]
  omega

theorem round_byte_roundtrip (s : B16) (r : B8) :
    ackDecRound (ackEncByte0 s r) (ackEncByte1 s r) (ackEncByte2 s r) = r := by
  unfold ackDecRound ackEncByte0; rfl

theorem peer_bytes_roundtrip (p : B16) : viewDecPeer (viewEncByteAt0 p) (viewEncByteAt1 p) = p := by
  unfold viewDecPeer viewEncByteAt0 viewEncByteAt1
  apply BitVec.eq_of_toNat_eq
  have := p.isLt
  simp only [BitVec.toNat_add, BitVec.toNat_shiftLeft, BitVec.toNat_setWidth, BitVec.toNat_ushiftRight,
    Nat.shiftRight_eq_div_pow, Nat.shiftLeft_eq]
  omega

theorem legal_round_not_refused (s : B16) (r : B8) (hr : r < 128#8) : ackEncPanics s r = false := by
  unfold ackEncPanics
  have h : r.toNat < 128 := by have := BitVec.lt_def.mp hr; simpa using this
  have : (r >>> 7) = 0#8 := by
    apply BitVec.eq_of_toNat_eq
    simp only [BitVec.toNat_ushiftRight, Nat.shiftRight_eq_div_pow, BitVec.toNat_ofNat]
    omega
  simp [this]

theorem header_msb_clear (s : B16) (r : B8) (hr : r < 128#8) : (ackEncByte0 s r >>> 7) = 0#8 := by
  unfold ackEncByte0
  have h : r.toNat < 128 := by have := BitVec.lt_def.mp hr; simpa using this
  apply BitVec.eq_of_toNat_eq
  simp only [BitVec.toNat_ushiftRight, Nat.shiftRight_eq_div_pow, BitVec.toNat_ofNat]
  omega

/-! ## the property theorems -/

/-- Every acknowledgement a party encodes (any 16-bit sender, any round 0..127, any non-empty
digest) is decoded by its peer to exactly the same digest, sender and round. -/
theorem ack_roundtrip (d : Bytes) (s : B16) (r : B8) (hr : r < 128#8) (hd : d ≠ []) :
    (encodeAck d s r).map decodeAck = some (.ack d s r) := by
  unfold encodeAck
  rw [legal_round_not_refused s r hr]
  simp only [Bool.false_eq_true, if_false, Option.map_some, Option.some.injEq]
  have hlen : 1 ≤ d.length := by
    cases d with
    | nil => exact absurd rfl hd
    | cons _ _ => simp
  have hmsb := header_msb_clear s r hr
  unfold decodeAck
  simp only [ackDecGuards, runGuards, byteAt, List.length_cons, List.length_append, List.length_nil,
    List.getD_cons_zero, List.getD_cons_succ, List.cons_append, List.nil_append, hmsb]
  simp only [ackDecNeeds, ackDecDigestFrom, List.drop_succ_cons, List.drop_zero]
  have h1 : ¬ (d.length + 1 + 1 + 1 < 0) := by omega
  have h2 : ¬ (d.length + 1 + 1 + 1 < 1) := by omega
  have h3 : ¬ (d.length + 1 + 1 + 1 = 0) := by omega
  have h4 : ¬ (d.length + 1 + 1 + 1 < 4) := by omega
  have h5 : ¬ (d.length + 1 + 1 + 1 < 3) := by omega
  simp [h1, h2, h3, h4, h5, sender_bytes_roundtrip, round_byte_roundtrip]

/-- The encoder refuses exactly the rounds that do not fit in seven bits. -/
theorem ack_round_range (d : Bytes) (s : B16) (r : B8) : (encodeAck d s r).isSome ↔ r < 128#8 := by
  unfold encodeAck ackEncPanics
  constructor
  · intro h
    by_cases hp : (r >>> 7 != 0#8) = true
    · simp [hp] at h
    · have : r >>> 7 = 0#8 := by simpa using hp
      have h2 := congrArg BitVec.toNat this
      simp only [BitVec.toNat_ushiftRight, Nat.shiftRight_eq_div_pow, BitVec.toNat_ofNat] at h2
      show r.toNat < (128#8).toNat
      simp only [BitVec.toNat_ofNat]; omega
  · intro h
    have := legal_round_not_refused s r h
    unfold ackEncPanics at this
    simp [this]

/-- Acknowledgements and payload frames are told apart by the first byte alone: what a sender emits
for a payload (`255 :: p`) is never read as an acknowledgement, whatever `p` is. -/
theorem payload_frame_is_payload (p : Bytes) : decodeAck (encodePayload p) = .payload := by
  unfold decodeAck encodePayload
  simp only [ackDecGuards, runGuards, byteAt, List.length_cons, List.getD_cons_zero]
  have h1 : ¬ (p.length + 1 < 0) := by omega
  have h2 : ¬ (p.length + 1 = 0) := by omega
  have h3 : ¬ (p.length + 1 < 1) := by omega
  have : ((255#8 >>> 7) != 0#8) = true := by decide
  simp [h1, h2, h3, this, GuardOut.toAckDec]

/-- … and an encoded acknowledgement is never read as a payload frame. -/
theorem ack_frame_is_not_payload (d : Bytes) (s : B16) (r : B8) (hr : r < 128#8) (hd : d ≠ []) :
    (encodeAck d s r).map decodeAck ≠ some .payload := by
  rw [ack_roundtrip d s r hr hd]; simp

theorem decodePeers_encodePeers (peers : List B16) : decodePeers (encodePeers peers) = some peers := by
  induction peers with
  | nil => rfl
  | cons p ps ih => simp [encodePeers, decodePeers, ih, peer_bytes_roundtrip]

theorem length_encodePeers (peers : List B16) : (encodePeers peers).length = 2 * peers.length := by
  induction peers with
  | nil => rfl
  | cons p ps ih => simp [encodePeers, ih]; omega

/-- The layout constants the list plumbing of the model relies on, as read from the source. -/
theorem view_layout_facts :
    viewEncStart = 1 + viewEncTagLen ∧ viewEncStep = 2 ∧ viewDecStart = viewEncStart ∧ viewDecStep = 2 ∧
    viewDecTagLo = 1 ∧ viewDecTagHi = 1 + viewEncTagLen ∧ viewEncShape = true ∧ viewDecShape = true ∧
    ackEncShape = true := by decide

/-- Every view (message type 1..3, 32-byte tag, any list of 16-bit identifiers of any length) is
decoded to exactly the type, tag and list that were encoded. -/
theorem view_roundtrip (t : B8) (tag : Bytes) (peers : List B16)
    (ht : 1#8 ≤ t ∧ t ≤ 3#8) (htag : tag.length = 32) :
    (encodeView t tag peers).map decodeView = some (.ok t tag peers) := by
  unfold encodeView
  have hl : ¬ (tag.length ≠ viewEncTagLen) := by simp [viewEncTagLen, htag]
  have hT : ¬ (t < 1 ∨ t > 3) := by
    intro h
    rcases h with h | h
    · exact absurd ht.1 (BitVec.not_le.mpr h)
    · exact absurd ht.2 (BitVec.not_le.mpr h)
  simp only [hl, hT, if_false, Option.map_some, Option.some.injEq]
  unfold decodeView
  have hlen : (t :: tag ++ encodePeers peers).length = 33 + 2 * peers.length := by
    simp [htag, length_encodePeers]; omega
  have hdrop : (t :: tag ++ encodePeers peers).drop viewDecStart = encodePeers peers := by
    simp only [viewDecStart, List.cons_append, List.drop_succ_cons]
    rw [List.drop_append_of_le_length (by omega)]
    simp [htag]
  have htagTake : ((t :: tag ++ encodePeers peers).drop viewDecTagLo).take (viewDecTagHi - viewDecTagLo) = tag := by
    simp only [viewDecTagLo, viewDecTagHi, List.cons_append, List.drop_succ_cons, List.drop_zero]
    rw [List.take_append_of_le_length (by omega)]
    exact List.take_of_length_le (by omega)
  rw [hlen]
  have e1 : ¬ (33 + 2 * peers.length < viewDecMinLen) := by simp [viewDecMinLen]
  have e2 : ¬ (viewDecOddTailRejected = true ∧ (33 + 2 * peers.length - viewDecStart) % 2 ≠ 0) := by
    simp [viewDecStart]
  have e3 : ¬ (33 + 2 * peers.length < viewDecTagHi) := by simp [viewDecTagHi]
  simp only [e1, if_false]
  show (if t < 1 ∨ t > 3 then ViewDec.malformed else _) = _
  simp only [hT, if_false, hlen, e2, hdrop, decodePeers_encodePeers, e3, htagTake]

/-- The topic derived from an agreed member list hashes an injective encoding of that list: two
different lists never feed the same bytes to SHA-256. -/
theorem topic_preimage_injective (l l' : List B16) (h : topicPreimage l = topicPreimage l') : l = l' := by
  induction l generalizing l' with
  | nil =>
    cases l' with
    | nil => rfl
    | cons a as => simp [topicPreimage] at h
  | cons a as ih =>
    cases l' with
    | nil => simp [topicPreimage] at h
    | cons b bs =>
      simp only [topicPreimage, List.flatMap_cons, List.cons_append, List.nil_append, List.cons.injEq] at h
      obtain ⟨h0, h1, ht⟩ := h
      have hab : a = b := by
        have ha := peer_bytes_roundtrip a
        have hb := peer_bytes_roundtrip b
        unfold viewEncByteAt0 viewEncByteAt1 at ha hb
        unfold topicMemberByte0 at h0
        unfold topicMemberByte1 at h1
        rw [← ha, ← hb, h0, h1]
      rw [hab, ih bs ht]

/-- The two bytes fed to HMAC determine the identifier: distinct members get distinct PRF inputs. -/
theorem prf_input_injective (x y : B16) (h : prfInput x = prfInput y) : x = y := by
  simp only [prfInput, List.cons.injEq, and_true] at h
  have hx := peer_bytes_roundtrip x
  have hy := peer_bytes_roundtrip y
  unfold viewEncByteAt0 viewEncByteAt1 at hx hy
  unfold prfByte0 prfByte1 at h
  rw [← hx, ← hy, h.1, h.2]

/-- Party identifiers stored as ASN.1 `INTEGER`s (`PublicParams.Parties []int`) survive the
`uint16 → int → uint16` conversions for the whole 16-bit range. -/
theorem party_int_roundtrip (x : B16) : BitVec.ofNat 16 (x.toNat) = x := by
  simp

/-! ## decoders are total (shared with C10): no byte string makes them panic -/

theorem decodeAck_never_panics (m : Bytes) : decodeAck m ≠ .panic := by
  unfold decodeAck
  simp only [ackDecGuards, runGuards, ackDecNeeds, GuardOut.toAckDec]
  cases m with
  | nil => simp
  | cons a as =>
    simp only [List.length_cons]
    have h1 : ¬ (as.length + 1 < 0) := by omega
    have h2 : ¬ (as.length + 1 = 0) := by omega
    have h3 : ¬ (as.length + 1 < 1) := by omega
    simp only [h1, h2, h3, if_false, decide_false, Bool.false_eq_true]
    by_cases hm : (byteAt (a :: as) 0 >>> 7 != 0#8) = true
    · simp [hm]
    · by_cases h4 : as.length + 1 < 4
      · simp [hm, h4]
      · have : ¬ (as.length + 1 < 3) := by omega
        simp [hm, h4, this]

theorem decodePeers_even (m : Bytes) (h : m.length % 2 = 0) : (decodePeers m).isSome := by
  induction m using decodePeers.induct with
  | case1 => rfl
  | case2 _ => simp at h
  | case3 _ => simp at h
  | case4 lo hi rest ih =>
    simp only [List.length_cons] at h
    simp only [decodePeers, Option.isSome_map]
    exact ih (by omega)

theorem decodeView_never_panics (m : Bytes) : decodeView m ≠ .panic := by
  unfold decodeView
  split
  · simp
  · rename_i hlen
    simp only [viewDecMinLen, Nat.not_lt] at hlen
    cases m with
    | nil => simp at hlen
    | cons t rest =>
      simp only []
      split
      · simp
      · split
        · simp
        · rename_i hodd
          simp only [viewDecOddTailRejected, viewDecStart, true_and, ne_eq, Decidable.not_not] at hodd
          have hp : (decodePeers ((t :: rest).drop viewDecStart)).isSome := by
            apply decodePeers_even
            simp only [viewDecStart, List.length_drop]
            exact hodd
          cases hd : decodePeers ((t :: rest).drop viewDecStart) with
          | none => simp [hd] at hp
          | some peers =>
            simp only []
            have : ¬ ((t :: rest).length < viewDecTagHi) := by
              simp only [viewDecTagHi]; omega
            simp only [this, if_false]; simp

/-! ## non-vacuity: concrete instances of the hypotheses, with large identifiers -/

example : (encodeAck [0xAB#8, 0xCD#8] 65535#16 127#8).map decodeAck = some (.ack [0xAB#8, 0xCD#8] 65535#16 127#8) := by
  decide
example : (encodeAck [1#8] 256#16 0#8).map decodeAck = some (.ack [1#8] 256#16 0#8) := by decide
example : decodePeers (encodePeers [0#16, 255#16, 256#16, 65280#16, 65535#16]) =
    some [0#16, 255#16, 256#16, 65280#16, 65535#16] := by decide

end TSSVerif.Props.C13
