import TSSVerif.Props.C03
import TSSVerif.Props.C04
import TSSVerif.Model.PsShape
import TSSVerif.Model.SiteTable
import TSSVerif.Gen.Sites
/-!
# C10 — nothing received from a peer or client can crash or wedge a node

Go partiality is explicit in the models (`panic` outcomes); the theorems say that no input, in any
state, reaches one. This file collects the panic-freedom theorems of the byte-level models
(codecs, dispatcher path, classifiers, PS request/proof shapes) and the census obligation
`sites_covered`. The theorems about the synchroniser handler, the message box and the transport live
with their models (Props/C07, C15, C16, C17) and are re-checked by this property's check as well.
-/
set_option linter.unusedSimpArgs false
namespace TSSVerif.Props.C10
open TSSVerif.Model

/-- every MPC frame, in every reachable state of an open session, from any source other than the
node itself: the dispatcher path (decode → classify → digest → filter → receiver → hand-over) never
panics -/
theorem dispatcher_never_panics (cfg : Dispatch.Cfg) (self n : Nat) (ins : List (Rbc.Id × Bytes))
    (hsrc : ∀ x ∈ ins, x.1 ≠ self) : Rbc.Out.panic ∉ (Dispatch.run cfg (C03.fresh self n) ins).2 :=
  C03.never_panics cfg self n ins hsrc

theorem ack_decoder_total (m : Bytes) : decodeAck m ≠ .panic := C13.decodeAck_never_panics m
theorem view_decoder_total (m : Bytes) : decodeView m ≠ .panic := C13.decodeView_never_panics m

theorem builtin_classifiers_total (p : Bytes) : Classify.bls p ≠ .panic ∧ Classify.ps p ≠ .panic :=
  C04.builtin_classify_never_panics p

open PsShape in
/-- `TPS.Sign` never panics on any request bytes (any decoded shape, any parse results, whether or
not the equations hold), provided the signer is configured (`n ≥ 1` generators) and holds a key
with at least `n` components — local preconditions, not peer input. -/
theorem sign_never_panics (n skYs : Nat) (hn : 1 ≤ n) (hsk : n ≤ skYs) (decodes : Bool) (r : ReqShape)
    (eqOK : Bool) : ∀ site, sign n skYs decodes r eqOK ≠ .panic site := by
  intro site
  unfold sign
  split; · simp
  split; · simp
  split; · simp
  split; · simp
  split; · omega
  split; · simp
  split; · simp
  rename_i h1 h2
  have e1 : r.xs = n ∧ r.ys = n ∧ r.d.length = n ∧ r.f.length = n := by omega
  have e2 : r.a.length = n ∧ r.b.length = n := by omega
  have l1 : loopOK n [r.xs, r.ys, r.d.length, r.f.length, r.a.length, r.b.length] = true := by
    simp [loopOK, e1.1, e1.2.1, e1.2.2.1, e1.2.2.2, e2.1, e2.2]
  have l2 : loopOK n [r.a.length, r.b.length, skYs] = true := by
    simp [loopOK, e2.1, e2.2, hsk]
  simp only [l1, l2, Bool.not_true, Bool.false_eq_true, if_false]
  split <;> simp

open PsShape in
/-- `Verifier.Verify` never panics on any proof bytes, whatever key it was initialised with. -/
theorem verify_never_panics (keyY : Nat) (decodes : Bool) (p : PokShape) (eqOK : Bool) :
    ∀ site, verify keyY decodes p eqOK ≠ .panic site := by
  intro site
  unfold verify
  split; · simp
  split; · simp
  rename_i h5
  have e5 : p.dataLen = 5 := by simpa using h5
  have l1 : loopOK 5 [p.dataLen] = true := by simp [loopOK, e5]
  simp only [l1, Bool.not_true, Bool.false_eq_true, if_false]
  split; · simp
  split; · simp
  rename_i hx
  have l2 : loopOK p.psiX [keyY, p.psiX] = true := by
    simp [loopOK]; omega
  simp only [l2, Bool.not_true, Bool.false_eq_true, if_false]
  split <;> simp

/-- the guards are not vacuous: a well-shaped request is accepted, short lists are rejected (not
panicked on) -/
example : PsShape.sign 3 3 true ⟨[true, true, true], [true, true, true], 3, 3, [true, true, true],
    [true, true, true], true, true, true⟩ true = .accept := by decide
example : PsShape.sign 3 3 true ⟨[true], [true, true, true], 3, 3, [true, true, true],
    [true, true, true], true, true, true⟩ true = .reject := by decide
example : PsShape.verify 3 true ⟨4, true, 3⟩ true = .reject := by decide
example : PsShape.verify 3 true ⟨5, true, 9⟩ true = .reject := by decide

/-- **Census obligation.** Every index, slice, unchecked type assertion, explicit panic and channel
send that the *current* source contains in the input-handling functions (regenerated:
`Gen/Sites.lean`) is one that the hand-maintained table accounts for. A new partial operation in
these functions — or a changed one — breaks this theorem. -/
theorem sites_covered :
    Gen.Sites.sites.all (fun s => SiteTable.accounted.any (fun e => e.1 == s)) = true := by
  decide +kernel

end TSSVerif.Props.C10
