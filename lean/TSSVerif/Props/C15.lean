import TSSVerif.Model.Box
import TSSVerif.Gen.BoxConsts
import TSSVerif.Gen.Stmts
import TSSVerif.Model.StmtsExpected
/-!
# C15 — the silent-mode buffer stays bounded and gives resources back

Sequential histories of arbitrary length over the virtual epoch clock (`Model/Box.lean`: `run`),
any topics, senders, bursts and idle stretches; the concurrency aspect is C14. The model is the
repaired code (F15–F18); limits are parameters (any `maxTopics`, `limit`, `expiry`).
-/
set_option linter.unusedSimpArgs false
set_option linter.unusedVariables false
namespace TSSVerif.Props.C15
open TSSVerif.Model.Box

/-- Structural invariant of the buffer: the in-flight table of a sender is exactly the set of topics
that currently hold buffered messages of that sender; buffered and started exclude each other; the
per-sender counters count the buffered messages and respect the limit. -/
structure Wf (c : Cfg) (b : Box) : Prop where
  nodup : ∀ s, (b.inflight s).Nodup
  infl_iff : ∀ s t, t ∈ b.inflight s ↔ ∃ p, b.pending t = some p ∧ p.count s > 0
  excl : ∀ t p, b.pending t = some p → b.started t = none
  count_eq : ∀ t p s, b.pending t = some p → (p.msgs.filter (fun m => m.src = s)).length = p.count s
  count_le : ∀ t p s, b.pending t = some p → p.count s ≤ c.limit + 1
  topics_le : ∀ s, (b.inflight s).length ≤ c.maxTopics + 1
  clock : b.lastGC ≤ b.epoch ∧ (∀ t p, b.pending t = some p → p.lastUsed ≤ b.epoch) ∧
      (∀ t e, b.started t = some e → e ≤ b.epoch)
  topic_ok : ∀ t p, b.pending t = some p → ∀ m ∈ p.msgs, m.topic = t

theorem wf_init (c : Cfg) : Wf c {} := by
  refine ⟨by simp, ?_, by simp, by simp, by simp, by simp, by simp, by simp⟩
  intro s t; simp

theorem mem_insTopic {t x : Nat} {l : List Nat} : x ∈ insTopic t l ↔ x = t ∨ x ∈ l := by
  unfold insTopic; split <;> simp_all

theorem nodup_insTopic {t : Nat} {l : List Nat} (h : l.Nodup) : (insTopic t l).Nodup := by
  unfold insTopic; split <;> simp_all

theorem length_insTopic_le {t : Nat} {l : List Nat} : (insTopic t l).length ≤ l.length + 1 := by
  unfold insTopic; split <;> simp

theorem csStore_wf (c : Cfg) (b : Box) (m : Msg) (h : Wf c b) : Wf c (csStore c b m).1 := by
  unfold csStore
  split
  · exact h
  · rename_i hst
    split
    · exact h
    · rename_i hlen
      have hlen' : (b.inflight m.src).length ≤ c.maxTopics := by omega
      -- the pending entry before the call
      cases hp : b.pending m.topic with
      | none =>
        -- fresh entry: counters are zero, so the message is stored
        simp only [hp, Option.getD_none]
        have h0 : ¬ ((({} : Pend).count m.src) > c.limit) := by simp
        simp only [h0, if_false]
        refine ⟨?_, ?_, ?_, ?_, ?_, ?_, ?_, ?_⟩
        · intro s; by_cases e : s = m.src
          · simp [e]; exact nodup_insTopic (h.nodup m.src)
          · simp [e]; exact h.nodup s
        · intro s t
          by_cases e : s = m.src <;> by_cases et : t = m.topic
          · subst e; subst et; simp [mem_insTopic]
          · subst e; simp [mem_insTopic, et, h.infl_iff]
          · subst et
            simp only [e, if_false, if_true]
            rw [h.infl_iff]
            simp [hp, e]
          · simp [e, et, h.infl_iff]
        · intro t p hpt
          by_cases et : t = m.topic
          · subst et; exact hst
          · simp [et] at hpt; exact h.excl t p hpt
        · intro t p s hpt
          by_cases et : t = m.topic
          · subst et; simp at hpt; subst hpt
            by_cases e : s = m.src
            · subst e; simp
            · have : ¬ (m.src = s) := fun x => e x.symm
              simp [e, this]
          · simp [et] at hpt; exact h.count_eq t p s hpt
        · intro t p s hpt
          by_cases et : t = m.topic
          · subst et; simp at hpt; subst hpt
            by_cases e : s = m.src <;> simp [e]
          · simp [et] at hpt; exact h.count_le t p s hpt
        · intro s; by_cases e : s = m.src
          · simp [e]; have := @length_insTopic_le m.topic (b.inflight m.src); omega
          · simp [e]; exact h.topics_le s
        · refine ⟨h.clock.1, ?_, h.clock.2.2⟩
          intro t p hpt
          by_cases et : t = m.topic
          · subst et; simp at hpt; subst hpt; simp; split <;> omega
          · simp [et] at hpt; exact h.clock.2.1 t p hpt
        · intro t p hpt m' hm'
          by_cases et : t = m.topic
          · subst et; simp at hpt; subst hpt; simp at hm'; rw [hm']
          · simp [et] at hpt; exact h.topic_ok t p hpt m' hm'
      | some p0 =>
        simp only [hp, Option.getD_some]
        split
        · -- over the per-sender limit: nothing is stored, the bookkeeping is (re)marked
          rename_i hover
          have hc0 : p0.count m.src > 0 := by omega
          have hmem : m.topic ∈ b.inflight m.src := (h.infl_iff m.src m.topic).mpr ⟨p0, hp, hc0⟩
          have hins : insTopic m.topic (b.inflight m.src) = b.inflight m.src := by simp [insTopic, hmem]
          have e1 : (fun s => if s = m.src then insTopic m.topic (b.inflight m.src) else b.inflight s) = b.inflight := by
            funext s; by_cases e : s = m.src <;> simp [e, hins]
          have e2 : (fun t => if t = m.topic then some p0 else b.pending t) = b.pending := by
            funext t; by_cases e : t = m.topic <;> simp [e, hp]
          simp only [e1, e2]
          exact h
        · rename_i hnot
          have hle : p0.count m.src ≤ c.limit := by omega
          refine ⟨?_, ?_, ?_, ?_, ?_, ?_, ?_, ?_⟩
          · intro s; by_cases e : s = m.src
            · simp [e]; exact nodup_insTopic (h.nodup m.src)
            · simp [e]; exact h.nodup s
          · intro s t
            by_cases e : s = m.src <;> by_cases et : t = m.topic
            · subst e; subst et; simp [mem_insTopic]
            · subst e; simp [mem_insTopic, et, h.infl_iff]
            · subst et
              simp only [e, if_false, if_true]
              rw [h.infl_iff]
              simp [hp, e]
            · simp [e, et, h.infl_iff]
          · intro t p hpt
            by_cases et : t = m.topic
            · subst et; exact hst
            · simp [et] at hpt; exact h.excl t p hpt
          · intro t p s hpt
            by_cases et : t = m.topic
            · subst et; simp at hpt; subst hpt
              have := h.count_eq m.topic p0 s hp
              by_cases e : s = m.src
              · subst e; simp [List.filter_append, this]
              · have hne : ¬ (m.src = s) := fun x => e x.symm
                simp [List.filter_append, e, hne, this]
            · simp [et] at hpt; exact h.count_eq t p s hpt
          · intro t p s hpt
            by_cases et : t = m.topic
            · subst et; simp at hpt; subst hpt
              by_cases e : s = m.src
              · simp [e]; omega
              · simp [e]; exact h.count_le m.topic p0 s hp
            · simp [et] at hpt; exact h.count_le t p s hpt
          · intro s; by_cases e : s = m.src
            · simp [e]; have := @length_insTopic_le m.topic (b.inflight m.src); omega
            · simp [e]; exact h.topics_le s
          · refine ⟨h.clock.1, ?_, h.clock.2.2⟩
            intro t p hpt
            by_cases et : t = m.topic
            · subst et; simp at hpt; subst hpt; simp
              have := h.clock.2.1 m.topic p0 hp
              split <;> omega
            · simp [et] at hpt; exact h.clock.2.1 t p hpt
          · intro t p hpt m' hm'
            by_cases et : t = m.topic
            · subst et; simp at hpt; subst hpt; simp at hm'
              rcases hm' with hm' | hm'
              · exact h.topic_ok m.topic p0 hp m' hm'
              · rw [hm']
            · simp [et] at hpt; exact h.topic_ok t p hpt m' hm'


theorem csSend_wf (c : Cfg) (b : Box) (t : Nat) (h : Wf c b) : Wf c (csSend b t).1 := by
  unfold csSend
  cases hp : b.pending t with
  | none =>
    simp only []
    refine ⟨h.nodup, h.infl_iff, ?_, h.count_eq, h.count_le, h.topics_le, ?_, h.topic_ok⟩
    · intro t' p hpt
      by_cases e : t' = t
      · subst e; rw [hp] at hpt; cases hpt
      · simp [e]; exact h.excl t' p hpt
    · refine ⟨h.clock.1, h.clock.2.1, ?_⟩
      intro t' e he
      dsimp only at he ⊢
      by_cases et : t' = t
      · simp [et] at he; omega
      · simp [et] at he; exact h.clock.2.2 t' e he
  | some p0 =>
    simp only []
    refine ⟨?_, ?_, ?_, ?_, ?_, ?_, ?_, ?_⟩
    · intro s; dsimp only; split
      · exact (h.nodup s).erase t
      · exact h.nodup s
    · intro s t'
      by_cases et : t' = t
      · subst et
        simp only [if_true]
        constructor
        · intro hm
          exfalso
          split at hm
          · exact (List.Nodup.mem_erase_iff (h.nodup s)).mp hm |>.1 rfl
          · rename_i hc
            obtain ⟨p, hp', hc'⟩ := (h.infl_iff s t').mp hm
            rw [hp] at hp'; cases hp'; exact hc hc'
        · rintro ⟨p, hp', _⟩; cases hp'
      · simp only [et, if_false]
        rw [← h.infl_iff]
        split
        · exact List.mem_erase_of_ne et
        · exact Iff.rfl
    · intro t' p hpt
      by_cases et : t' = t
      · simp [et] at hpt
      · simp [et] at hpt ⊢; exact h.excl t' p hpt
    · intro t' p s hpt
      by_cases et : t' = t
      · simp [et] at hpt
      · simp [et] at hpt; exact h.count_eq t' p s hpt
    · intro t' p s hpt
      by_cases et : t' = t
      · simp [et] at hpt
      · simp [et] at hpt; exact h.count_le t' p s hpt
    · intro s; dsimp only; split
      · have := List.length_erase_le (a := t) (l := b.inflight s); have := h.topics_le s; omega
      · exact h.topics_le s
    · refine ⟨h.clock.1, ?_, ?_⟩
      · intro t' p hpt
        by_cases et : t' = t
        · simp [et] at hpt
        · simp [et] at hpt; exact h.clock.2.1 t' p hpt
      · intro t' e he
        dsimp only at he ⊢
        by_cases et : t' = t
        · simp [et] at he; omega
        · simp [et] at he; exact h.clock.2.2 t' e he
    · intro t' p hpt
      by_cases et : t' = t
      · simp [et] at hpt
      · simp [et] at hpt; exact h.topic_ok t' p hpt

theorem sweep_wf (c : Cfg) (b : Box) (del : Nat → Bool) (h : Wf c b) : Wf c (sweep b del) := by
  unfold sweep
  refine ⟨?_, ?_, ?_, ?_, ?_, ?_, ?_, ?_⟩
  · intro s; exact (h.nodup s).filter _
  · intro s t
    simp only [List.mem_filter]
    by_cases hd : del t = true
    · simp only [hd, if_true]
      constructor
      · rintro ⟨hm, hf⟩
        obtain ⟨p, hp, hc⟩ := (h.infl_iff s t).mp hm
        simp [hp, hc, hd] at hf
      · rintro ⟨p, hp, _⟩; cases hp
    · have hd' : del t = false := by simpa using hd
      simp only [hd', Bool.false_and, Bool.not_false, and_true, Bool.false_eq_true, if_false]
      exact h.infl_iff s t
  · intro t p hpt
    by_cases hd : del t = true
    · simp [hd] at hpt
    · simp [hd] at hpt ⊢; exact h.excl t p hpt
  · intro t p s hpt
    by_cases hd : del t = true
    · simp [hd] at hpt
    · simp [hd] at hpt; exact h.count_eq t p s hpt
  · intro t p s hpt
    by_cases hd : del t = true
    · simp [hd] at hpt
    · simp [hd] at hpt; exact h.count_le t p s hpt
  · intro s
    exact Nat.le_trans (List.length_filter_le _ _) (h.topics_le s)
  · refine ⟨h.clock.1, ?_, ?_⟩
    · intro t p hpt
      by_cases hd : del t = true
      · simp [hd] at hpt
      · simp [hd] at hpt; exact h.clock.2.1 t p hpt
    · intro t e he
      by_cases hd : del t = true
      · simp [hd] at he
      · simp [hd] at he; exact h.clock.2.2 t e he
  · intro t p hpt
    by_cases hd : del t = true
    · simp [hd] at hpt
    · simp [hd] at hpt; exact h.topic_ok t p hpt

theorem tick_wf (c : Cfg) (b : Box) (h : Wf c b) : Wf c (tick b) := by
  unfold tick
  refine ⟨h.nodup, h.infl_iff, h.excl, h.count_eq, h.count_le, h.topics_le, ?_, h.topic_ok⟩
  refine ⟨by have := h.clock.1; simp; omega, ?_, ?_⟩
  · intro t p hpt; have := h.clock.2.1 t p hpt; simp; omega
  · intro t e he; have := h.clock.2.2 t e he; simp; omega

theorem recv_wf (c : Cfg) (b : Box) (m : Msg) (h : Wf c b) : Wf c (recv c b m).1 := by
  have := csStore_wf c b m h
  unfold recv
  split <;> simp_all

theorem drain_wf (c : Cfg) (b : Box) (l : List Msg) (h : Wf c b) : Wf c (drain c b l).1 := by
  induction l generalizing b with
  | nil => exact h
  | cons m rest ih => simp only [drain]; exact ih _ (recv_wf c b m h)

theorem gc_wf (c : Cfg) (b : Box) (h : Wf c b) : Wf c (gc c b) := by
  unfold gc
  split
  · apply sweep_wf
    exact ⟨h.nodup, h.infl_iff, h.excl, h.count_eq, h.count_le, h.topics_le,
      ⟨Nat.le_refl _, h.clock.2.1, h.clock.2.2⟩, h.topic_ok⟩
  · exact h

theorem send_wf (c : Cfg) (b : Box) (t : Nat) (h : Wf c b) : Wf c (send c b t).1 := by
  unfold send
  simp only []
  exact gc_wf c _ (drain_wf c _ _ (csSend_wf c b t h))

theorem step_wf (c : Cfg) (b : Box) (o : Op) (h : Wf c b) : Wf c (step c b o).1 := by
  cases o with
  | recv m => exact recv_wf c b m h
  | send t => exact send_wf c b t h
  | tick => exact tick_wf c b h

theorem run_wf (c : Cfg) (b : Box) (ops : List Op) (h : Wf c b) : Wf c (run c b ops).1 := by
  induction ops generalizing b with
  | nil => exact h
  | cons o rest ih => simp only [run]; exact ih _ (step_wf c b o h)

/-- every state reachable by any history from the empty buffer -/
theorem reachable_wf (c : Cfg) (ops : List Op) : Wf c (run c {} ops).1 := run_wf c {} ops (wf_init c)


/-! ## the property theorems -/

/-- **Bound per sender and topic** ("give or take one"): in every reachable state the number of
buffered messages of any sender on any topic is at most `limit + 1`. -/
theorem per_sender_bound (c : Cfg) (ops : List Op) (t : Nat) (p : Pend) (s : Nat)
    (hp : (run c {} ops).1.pending t = some p) :
    (p.msgs.filter (fun m => m.src = s)).length ≤ c.limit + 1 := by
  have h := reachable_wf c ops
  rw [h.count_eq t p s hp]; exact h.count_le t p s hp

/-- **Bound on buffered topics per sender**: at most `maxTopics + 1` in every reachable state. -/
theorem per_sender_topics_bound (c : Cfg) (ops : List Op) (s : Nat) :
    ((run c {} ops).1.inflight s).length ≤ c.maxTopics + 1 :=
  (reachable_wf c ops).topics_le s

/-- **Shedding never fails and changes nothing**: an arrival that is over either limit leaves the
buffer exactly as it was and causes no event (the model has no failing outcome at all: the repaired
code has none, which the correspondence run checks on every over-limit arrival). -/
theorem shed_changes_nothing (c : Cfg) (b : Box) (m : Msg) (h : Wf c b)
    (hs : (csStore c b m).2 = .dropTopics ∨ (csStore c b m).2 = .dropLimit) :
    (csStore c b m).1 = b ∧ (recv c b m).2 = [] := by
  have hev : (recv c b m).2 = [] := by
    unfold recv
    rcases hs with hs | hs <;> split <;> simp_all
  refine ⟨?_, hev⟩
  unfold csStore at hs ⊢
  split
  · rfl
  · rename_i hst
    simp only [hst] at hs
    split
    · rfl
    · rename_i hlen
      simp only [hlen, if_false] at hs
      cases hp : b.pending m.topic with
      | none =>
        simp only [hp, Option.getD_none] at hs
        have h0 : ¬ ((({} : Pend).count m.src) > c.limit) := by simp
        simp [h0] at hs
      | some p0 =>
        simp only [hp, Option.getD_some] at hs ⊢
        split
        · rename_i hover
          have hc0 : p0.count m.src > 0 := by omega
          have hmem : m.topic ∈ b.inflight m.src := (h.infl_iff m.src m.topic).mpr ⟨p0, hp, hc0⟩
          have hins : insTopic m.topic (b.inflight m.src) = b.inflight m.src := by simp [insTopic, hmem]
          have e1 : (fun s => if s = m.src then insTopic m.topic (b.inflight m.src) else b.inflight s) = b.inflight := by
            funext s; by_cases e : s = m.src <;> simp [e, hins]
          have e2 : (fun t => if t = m.topic then some p0 else b.pending t) = b.pending := by
            funext t; by_cases e : t = m.topic <;> simp [e, hp]
          simp only [e1, e2]
        · rename_i hnot
          simp [hnot] at hs

/-- **No stale throttling.** A message is refused for "too many topics" only if its sender has, at
this very moment, more than `maxTopics` *distinct* topics that hold buffered messages of that sender
and have neither started nor been collected. Topics that started or expired earlier never count,
however long the history. -/
theorem throttle_only_by_live_topics (c : Cfg) (ops : List Op) (m : Msg)
    (hd : (csStore c (run c {} ops).1 m).2 = .dropTopics) :
    ∃ l : List Nat, l.Nodup ∧ l.length > c.maxTopics ∧
      ∀ t ∈ l, (∃ p, (run c {} ops).1.pending t = some p ∧ p.count m.src > 0) ∧
        (run c {} ops).1.started t = none := by
  have h := reachable_wf c ops
  generalize (run c {} ops).1 = b at h hd
  refine ⟨b.inflight m.src, h.nodup m.src, ?_, ?_⟩
  · unfold csStore at hd
    split at hd
    · cases hd
    · split at hd
      · assumption
      · dsimp only at hd
        split at hd <;> cases hd
  · intro t ht
    obtain ⟨p, hp, hc⟩ := (h.infl_iff m.src t).mp ht
    exact ⟨⟨p, hp, hc⟩, h.excl t p hp⟩

theorem drain_started (c : Cfg) (b : Box) (t : Nat) (l : List Msg) (hs : (b.started t).isSome = true)
    (hl : ∀ m ∈ l, m.topic = t) : drain c b l = (b, l.map Ev.handover) := by
  induction l with
  | nil => rfl
  | cons m rest ih =>
    have hm : m.topic = t := hl m List.mem_cons_self
    have hr : recv c b m = (b, [Ev.handover m]) := by
      unfold recv csStore
      rw [hm]
      cases hst : b.started t with
      | none => rw [hst] at hs; cases hs
      | some e => rfl
    simp only [drain, hr]
    rw [ih (fun m' hm' => hl m' (List.mem_cons_of_mem _ hm'))]
    simp

/-- a collection leaves a topic alone that its mark does not select -/
theorem gc_keep (c : Cfg) (b1 : Box) (t : Nat) (hdel : expired c b1.epoch b1 t = false) :
    (gc c b1).pending t = b1.pending t ∧ (gc c b1).started t = b1.started t ∧
    ∀ s, t ∈ (gc c b1).inflight s → t ∈ b1.inflight s := by
  unfold gc
  split
  · refine ⟨by simp [sweep, hdel], by simp [sweep, hdel], ?_⟩
    intro s hm
    simp only [sweep, List.mem_filter] at hm
    exact hm.1
  · exact ⟨rfl, rfl, fun _ h => h⟩

/-- **Release on start, and the hand-over itself.** `Send` on a topic hands over, after the real
send and in arrival order, exactly the messages buffered for it, and afterwards the topic holds no
buffered data and is in no sender's in-flight table; later arrivals are forwarded at once. -/
theorem release_on_start (c : Cfg) (b : Box) (t : Nat) (h : Wf c b) :
    (send c b t).2 = Ev.fwdSend t ::
        ((match b.pending t with | some p => p.msgs | none => []).map Ev.handover) ∧
    (send c b t).1.pending t = none ∧ (∀ s, t ∉ (send c b t).1.inflight s) ∧
    (send c b t).1.started t = some b.epoch := by
  have hw := csSend_wf c b t h
  have hst : ((csSend b t).1.started t) = some b.epoch := by
    unfold csSend; split <;> simp
  have hpn : (csSend b t).1.pending t = none := by
    unfold csSend; split
    · rename_i hp; simpa using hp
    · simp
  have hmsgs : (csSend b t).2 = (match b.pending t with | some p => p.msgs | none => []) := by
    unfold csSend; split <;> simp_all
  have hep : (csSend b t).1.epoch = b.epoch := by unfold csSend; split <;> rfl
  have htop : ∀ m ∈ (csSend b t).2, m.topic = t := by
    rw [hmsgs]
    cases hp : b.pending t with
    | none => simp
    | some p => exact h.topic_ok t p hp
  have hdr := drain_started c (csSend b t).1 t (csSend b t).2 (by rw [hst]; rfl) htop
  have hdel : expired c (csSend b t).1.epoch (csSend b t).1 t = false := by
    unfold expired
    rw [hpn, hst, hep]
    simp
  obtain ⟨g1, g2, g3⟩ := gc_keep c (csSend b t).1 t hdel
  have hsend : send c b t = (gc c (csSend b t).1, Ev.fwdSend t :: (csSend b t).2.map Ev.handover) := by
    unfold send; simp only [hdr]
  rw [hsend]
  refine ⟨by simp only [hmsgs], by rw [g1]; exact hpn, ?_, by rw [g2]; exact hst⟩
  intro s hm
  obtain ⟨p, hp, _⟩ := (hw.infl_iff s t).mp (g3 s hm)
  rw [hpn] at hp; cases hp

def ticks : Nat → Box → Box
  | 0, b => b
  | n + 1, b => ticks n (tick b)

theorem ticks_spec (n : Nat) (b : Box) :
    (ticks n b).epoch = b.epoch + n ∧ (ticks n b).pending = b.pending ∧ (ticks n b).started = b.started ∧
    (ticks n b).inflight = b.inflight ∧ (ticks n b).lastGC = b.lastGC := by
  induction n generalizing b with
  | zero => simp [ticks]
  | succ n ih =>
    obtain ⟨a1, a2, a3, a4, a5⟩ := ih (tick b)
    simp only [ticks]
    refine ⟨by rw [a1]; simp [tick]; omega, by rw [a2]; rfl, by rw [a3]; rfl, by rw [a4]; rfl, by rw [a5]; rfl⟩

theorem ticks_wf (c : Cfg) (n : Nat) (b : Box) (h : Wf c b) : Wf c (ticks n b) := by
  induction n generalizing b with
  | zero => exact h
  | succ n ih => exact ih _ (tick_wf c b h)

/-- what a due collection removes -/
theorem gc_collects (c : Cfg) (b1 : Box) (hw : Wf c b1) (t : Nat) (hdue : gcDue c b1 = true)
    (hP : ∀ t' p, b1.pending t' = some p → b1.epoch - p.lastUsed > c.expiry)
    (hS : ∀ t' e, t' ≠ t → b1.started t' = some e → b1.epoch - e > c.expiry) :
    (∀ t', (gc c b1).pending t' = none) ∧ (∀ s, (gc c b1).inflight s = []) ∧
    (∀ t', t' ≠ t → (gc c b1).started t' = none) := by
  have hdelP : ∀ t' p, b1.pending t' = some p → expired c b1.epoch b1 t' = true := by
    intro t' p hp
    have := hP t' p hp
    unfold expired; rw [hp]; simp; left; exact this
  have hdelS : ∀ t' e, t' ≠ t → b1.started t' = some e → expired c b1.epoch b1 t' = true := by
    intro t' e hne he
    have := hS t' e hne he
    unfold expired; rw [he]; simp; right; exact this
  unfold gc
  simp only [hdue, if_true]
  refine ⟨?_, ?_, ?_⟩
  · intro t'
    cases hp : b1.pending t' with
    | none => simp [sweep, hp]
    | some p => simp [sweep, hdelP t' p hp]
  · intro s
    simp only [sweep]
    apply List.filter_eq_nil_iff.mpr
    intro t' ht'
    obtain ⟨p, hp, hc⟩ := (hw.infl_iff s t').mp ht'
    simp [hdelP t' p hp, hp, hc]
  · intro t' hne
    cases hs : b1.started t' with
    | none => simp [sweep, hs]
    | some e => simp [sweep, hdelS t' e hne hs]

/-- **Garbage collection keeps running and data for topics that never start is discarded.**
From *any* reachable state, after an idle stretch of more than `expiry` epochs (however long), the
next `Send` — on any topic — collects: afterwards nothing that was buffered before the stretch is
left, no sender has any in-flight topic, and of the started topics only the one just sent on
remains. -/
theorem idle_then_send_collects (c : Cfg) (b : Box) (h : Wf c b) (n : Nat) (hn : c.expiry < n) (t : Nat) :
    let b' := (send c (ticks n b) t).1
    (∀ t', b'.pending t' = none) ∧ (∀ s, b'.inflight s = []) ∧ (∀ t', t' ≠ t → b'.started t' = none) := by
  intro b'
  have hT := ticks_spec n b
  have hwT := ticks_wf c n b h
  have hw := csSend_wf c (ticks n b) t hwT
  have hst : ((csSend (ticks n b) t).1.started t) = some (ticks n b).epoch := by
    unfold csSend; split <;> simp
  have htop : ∀ m ∈ (csSend (ticks n b) t).2, m.topic = t := by
    unfold csSend
    cases hp : (ticks n b).pending t with
    | none => simp
    | some p => simpa using hwT.topic_ok t p hp
  have hdr := drain_started c (csSend (ticks n b) t).1 t (csSend (ticks n b) t).2 (by rw [hst]; rfl) htop
  have hb' : b' = gc c (csSend (ticks n b) t).1 := by
    simp only [b', send, hdr]
  have hep : (csSend (ticks n b) t).1.epoch = b.epoch + n := by
    have : (csSend (ticks n b) t).1.epoch = (ticks n b).epoch := by unfold csSend; split <;> rfl
    rw [this, hT.1]
  have hgc : (csSend (ticks n b) t).1.lastGC = b.lastGC := by
    have : (csSend (ticks n b) t).1.lastGC = (ticks n b).lastGC := by unfold csSend; split <;> rfl
    rw [this, hT.2.2.2.2]
  have hdue : gcDue c (csSend (ticks n b) t).1 = true := by
    unfold gcDue
    rw [hep, hgc]
    have := h.clock.1
    simp; omega
  have hpend : ∀ t' p, (csSend (ticks n b) t).1.pending t' = some p →
      (csSend (ticks n b) t).1.epoch - p.lastUsed > c.expiry := by
    intro t' p hp
    have : b.pending t' = some p := by
      unfold csSend at hp
      split at hp
      · rw [hT.2.1] at hp; exact hp
      · by_cases e : t' = t
        · simp [e] at hp
        · simp [e] at hp; rw [hT.2.1] at hp; exact hp
    have := h.clock.2.1 t' p this
    rw [hep]; omega
  have hstarted : ∀ t' e, t' ≠ t → (csSend (ticks n b) t).1.started t' = some e →
      (csSend (ticks n b) t).1.epoch - e > c.expiry := by
    intro t' e hne he
    have : b.started t' = some e := by
      unfold csSend at he
      split at he <;> simp [hne] at he <;> rw [hT.2.2.1] at he <;> exact he
    have := h.clock.2.2 t' e this
    rw [hep]; omega
  rw [hb']
  exact gc_collects c _ hw t hdue hpend hstarted

/-- **The constants and comparison operators the model hard-codes are the ones in the source**
(regenerated from `msg/msgbox.go` on every run): the per-sender limit, `>` for both limits (which is
what gives "limit + 1"), `<` for the collection test, `>` for both expiry tests, and the requirement
that the expiry is at least two sweep periods. -/
theorem consts_as_modelled :
    Gen.BoxConsts.limitPerSender = 100 ∧
    Gen.BoxConsts.addDropsWhen = "sm.messageCountPerSender[msg.Source] > limitPerSender" ∧
    Gen.BoxConsts.topicsDropWhen = "len(activeTopicsFromSource) > b.MaxInFlightTopicsBySender" ∧
    Gen.BoxConsts.gcSkipsWhen = "time.Duration(now - lastGC) < epochsAfterWhichWeGC" ∧
    Gen.BoxConsts.markPendingWhen = "time.Duration(now - messages.lastUsed()) > epochsAfterWhichWeGC" ∧
    Gen.BoxConsts.markStartedWhen = "time.Duration(now - lastSent) > epochsAfterWhichWeGC" ∧
    Gen.BoxConsts.clockRequires = "b.GCExpire / b.GCSweep < 2" := by decide

/-! ## non-vacuity -/

def exC : Cfg := { maxTopics := 1, limit := 2, expiry := 2 }

/-- sender 7 buffers on topics 1 and 2, is refused a third topic, gets it accepted after topic 1
started -/
example :
    (run exC {} [.recv ⟨7, 1, 100⟩, .recv ⟨7, 2, 101⟩, .recv ⟨7, 3, 102⟩, .send 1, .recv ⟨7, 3, 103⟩]).2 =
      [.fwdSend 1, .handover ⟨7, 1, 100⟩] := by decide
example : (csStore exC (run exC {} [.recv ⟨7, 1, 100⟩, .recv ⟨7, 2, 101⟩]).1 ⟨7, 3, 102⟩).2 = .dropTopics := by
  decide
example : (csStore exC (run exC {} [.recv ⟨7, 1, 100⟩, .recv ⟨7, 2, 101⟩, .send 1]).1 ⟨7, 3, 103⟩).2 = .stored := by
  decide


/-- **The source the model was transcribed from is the current source**: the statements of `HandleMessage`, `storeOrForward`, `Send`, `getOrCreateMessagesByTopic`, `markTopicForSender`, `storedMessages.add`, `maybeGC`, `mark`, `sweep`, `startClock`, regenerated from
`/repo` on this run, are the committed ones (logging left out). A change of any of them — harmless or not — fails here
first; the differential and monitored runs of this property are then the search for an input on which it fails. -/
theorem source_as_modelled : TSSVerif.Gen.Stmts.box = TSSVerif.Model.StmtsExpected.box := by
  decide +kernel

end TSSVerif.Props.C15
