import TSSVerif.Model.PsAlgebra
import TSSVerif.Props.C18
import TSSVerif.Props.C05
import TSSVerif.Proofs.SubsetCheck
import TSSVerif.Gen.Stmts
import TSSVerif.Model.StmtsExpected
/-!
# C01 — threshold key agreement and signing correctness for all n, t, subsets, schedules

The statement decomposes into four obligations; each is a theorem of this framework:

* (a) **barrier** — nobody's first protocol message of a session precedes the registration of every
  participant: C07 (`sync_valid`, `sync_agree`: the second synchronisation runs on a topic derived from
  the agreed list, every member of which announced itself after registering) and C12 (`sign_no_residue`,
  `noninterference`: the tables of a session are in place exactly between registration and exit); in
  silent mode the buffer of C14 (`exactly_once_started`) plays that role;
* (b) **channel** — every protocol message is handed over exactly once, to the right instance, attributed
  to the right party: C04 (`p2p_exactly_once`, `quiescence_reached`), C02 (`agreement`), C03, C06;
* (c) **protocol** — on such a channel, for *every* interleaving, parties that complete the built-in key
  generation report identical public material: `TSSVerif.Props.C05.honest_completions_agree` (which holds even
  with corrupted participants), with `honest_run_material` below saying what that material is;
* (d) **algebra** — this file: the reported material and the stored shares verify for every message and every
  set of at least `t` signers (`threshold_sig_correct`), for every field, groups, bilinear pairing,
  polynomial dealing of degree `< t` by every participant, and every choice of evaluation points.

For orchestrated signing the backend is user code; (a) and (b) are what the orchestrator contributes.
Completion "to completion" under FIFO links is observed on the real stack (component `fullstack`), not proved:
real time and the Go scheduler are outside the model.
-/
set_option linter.unusedSimpArgs false
set_option linter.unusedVariables false
set_option linter.unusedSectionVars false
open Finset Polynomial
namespace TSSVerif.Props.C01
open TSSVerif.Model.Ps TSSVerif.Props.C18

variable {F : Type*} [Field F]
variable {G1 G2 GT : Type*} [AddCommGroup G1] [Module F G1] [AddCommGroup G2] [Module F G2] [AddCommGroup GT] [Module F GT]
variable (e : G1 →ₗ[F] G2 →ₗ[F] GT)

/-- a signature `x • H(m)` verifies under the key `x • g2` (`localSign` / `localVerify`) -/
theorem bls_correct (g2 : G2) (x : F) (hm : G1) : blsVerify e g2 (x • g2) hm (x • hm) := by
  unfold blsVerify
  simp only [map_smul, map_neg, LinearMap.smul_apply, LinearMap.neg_apply]
  exact neg_add_cancel _

/-- **What an honest run produces.** If every participant `j ∈ J` deals a polynomial `P j` of degree `< t`, party `i`
(evaluation point `v i`) ends with the share `Q(v i)`, `Q = Σ P j` (`combineShares` adds what it received), and its
public key is `Q(v i) • g2`; then for **every** set `S` of at least `t` parties with distinct points the Lagrange
combination of the public keys is the same key `Q(0) • g2` — so the all-subsets check of `assembleThresholdPublicKey`
passes, and that is the threshold key everybody reports. -/
theorem honest_run_material {κ J : Type*} [DecidableEq κ] (Jset : Finset J) (P : J → F[X]) (t : ℕ)
    (hdeg : ∀ j ∈ Jset, (P j).degree < t) (S : Finset κ) (v : κ → F) (hv : Set.InjOn v S) (ht : t ≤ S.card) (g2 : G2) :
    ∑ k ∈ S, lam S v k • ((∑ j ∈ Jset, (P j).eval (v k)) • g2) = (∑ j ∈ Jset, (P j).eval 0) • g2 := by
  let Q : F[X] := ∑ j ∈ Jset, P j
  have hQ : ∀ w, ∑ j ∈ Jset, (P j).eval w = Q.eval w := by
    intro w; simp only [Q, eval_finsetSum]
  have hQd : Q.degree < S.card := by
    have hb : (⊥ : WithBot ℕ) < S.card := WithBot.bot_lt_coe _
    apply lt_of_le_of_lt (degree_sum_le _ _)
    rw [Finset.sup_lt_iff hb]
    intro j hj
    exact lt_of_lt_of_le (hdeg j hj) (by exact_mod_cast ht)
  rw [hQ 0, ← public_keys_aggregate S v hv Q hQd g2]
  apply Finset.sum_congr rfl
  intro k _
  rw [hQ]

/-- **Every set of at least `t` signers signs validly under the threshold key**, for every message: the partial
signatures `Q(v k) • H(m)` combined with the Lagrange coefficients of the set verify under `Q(0) • g2`. -/
theorem threshold_sig_correct {κ : Type*} [DecidableEq κ] (S : Finset κ) (v : κ → F) (hv : Set.InjOn v S)
    (Q : F[X]) (hQ : Q.degree < S.card) (g2 : G2) (hm : G1) :
    blsVerify e g2 (Q.eval 0 • g2) hm (∑ k ∈ S, lam S v k • (Q.eval (v k) • hm)) := by
  rw [public_keys_aggregate S v hv Q hQ hm]
  exact bls_correct e g2 _ hm

/-- **What the all-subsets check buys against a misbehaving participant** (C05): if the Lagrange combination of the
recorded keys over a set `S` is the reported key — which `assembleThresholdPublicKey` verified for every set of size
`t` — and every member of `S` holds the share its recorded key belongs to (true of every honest party: it computed
the key from its share itself), then the partial signatures of `S` verify under the reported key, whatever polynomial
or non-polynomial the shares came from. -/
theorem checked_subset_signs {κ : Type*} [DecidableEq κ] (S : Finset κ) (v : κ → F) (pk : κ → G2) (sk : κ → F)
    (g2 tpk : G2) (hcheck : ∑ k ∈ S, lam S v k • pk k = tpk) (hpk : ∀ k ∈ S, pk k = sk k • g2) (hm : G1) :
    blsVerify e g2 tpk hm (∑ k ∈ S, lam S v k • (sk k • hm)) := by
  have h1 : tpk = (∑ k ∈ S, lam S v k * sk k) • g2 := by
    rw [← hcheck, Finset.sum_smul]
    apply Finset.sum_congr rfl
    intro k hk
    rw [hpk k hk, smul_smul]
  have h2 : ∑ k ∈ S, lam S v k • (sk k • hm) = (∑ k ∈ S, lam S v k * sk k) • hm := by
    rw [Finset.sum_smul]
    apply Finset.sum_congr rfl
    intro k _
    rw [smul_smul]
  rw [h1, h2]
  exact bls_correct e g2 _ hm

/-- **… and for signer sets of every size `≥ t`, still without assuming a polynomial**: the all-subsets check verifies the
sets of size exactly `t`; by Neville's recursion (`Proofs/SubsetCheck.check_extends`) the Lagrange combination of the
recorded keys over every larger set is the reported key as well, so every set of at least `t` parties that hold the
shares their recorded keys belong to signs validly under the reported key — the second half of C05's first claim, with
corrupted dealers and arbitrary (non-polynomial) sharings included. -/
theorem checked_sets_sign {κ : Type*} [DecidableEq κ] (U : Finset κ) (v : κ → F) (hv : Set.InjOn v U) (pk : κ → G2) (sk : κ → F)
    (g2 tpk : G2) (t : ℕ) (ht : 1 ≤ t) (hcheck : ∀ S, S ⊆ U → S.card = t → ∑ k ∈ S, lam S v k • pk k = tpk)
    (S : Finset κ) (hS : S ⊆ U) (hcard : t ≤ S.card) (hpk : ∀ k ∈ S, pk k = sk k • g2) (hm : G1) :
    blsVerify e g2 tpk hm (∑ k ∈ S, lam S v k • (sk k • hm)) := by
  obtain ⟨m, hm'⟩ : ∃ m, S.card = t + m := ⟨S.card - t, by omega⟩
  have := TSSVerif.Proofs.SubsetCheck.check_extends U v hv pk tpk t ht hcheck m S hS hm'
  exact checked_subset_signs e S v pk sk g2 tpk this hpk hm

/-- the protocol half, restated here for reference: identical public material at all completing honest parties, for
every schedule and every behaviour of the others -/
theorem public_material_identical {S : TSSVerif.Model.Dkg.Session} {σ : TSSVerif.Model.Dkg.Id → TSSVerif.Model.Dkg.P}
    (h : TSSVerif.Model.Dkg.Reach S σ) (hint : ∀ x, S.honest x = true → S.br x = (S.env x).ownPk)
    {a b : TSSVerif.Model.Dkg.Id} (ha : S.honest a = true) (hb : S.honest b = true) {ra rb : List (Option TSSVerif.Model.Bytes)}
    (hra : (σ a).result = some ra) (hrb : (σ b).result = some rb) : ra = rb :=
  TSSVerif.Props.C05.honest_completions_agree h hint ha hb hra hrb


/-- **The source the model was transcribed from is the current source**: the statements of `OnMsg`, `KeyGen`, the three wait loops, `combineShares`, `commitPhase`, `revealPhase`, `shareDistribution`, `validateCommitments`, `assembleThresholdPublicKey`, `Init` of both built-in backends, regenerated from
`/repo` on this run, are the committed ones (logging left out). A change of any of them — harmless or not — fails here
first; the differential and monitored runs of this property are then the search for an input on which it fails. -/
theorem source_as_modelled : TSSVerif.Gen.Stmts.dkg = TSSVerif.Model.StmtsExpected.dkg := by
  decide +kernel

end TSSVerif.Props.C01
