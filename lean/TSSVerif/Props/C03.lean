import TSSVerif.Proofs.Dispatch
import TSSVerif.Gen.Stmts
import TSSVerif.Model.StmtsExpected
/-!
# C03 — reliable broadcast integrity: authentic, members only, at most once, non-empty

One honest receiver (dispatcher → participant filter → `rbc.Receiver`, modelled in
`Model/Dispatch.lean` / `Model/Rbc.lean`), fed an **arbitrary** sequence of (authenticated source,
bytes) pairs: that quantifies over every adversary, every outsider and every arrival order as far
as one receiver can observe them. No bound on the session size, the number of messages, identifiers,
rounds or payloads. `cfg.classify` (the receiver's own classifier) and `cfg.H` (SHA-256 in the
code) are arbitrary functions.
-/
set_option linter.unusedSimpArgs false
namespace TSSVerif.Props.C03
open TSSVerif.Model TSSVerif.Model.Rbc TSSVerif.Model.Dispatch

/-- the receiver of node `self` in a session of `n` participants, before any message -/
def fresh (self n : Nat) : St := { self := self, n := n }

theorem linv_of_run (cfg : Dispatch.Cfg) (self n : Nat) (ins : List (Id × Bytes)) :
    LInv (ins.filterMap (accepted cfg)) (run cfg (fresh self n) ins).1 (run cfg (fresh self n) ins).2 := by
  rw [run_eq]
  have := linv_run (linv_init self n) (ins.filterMap (accepted cfg))
  simpa [fresh] using this

/-- **Authentic, members only.** A broadcast-class hand-over of payload `p` attributed to sender
`k.s` happens only if `k.s` is a session participant and *itself* transmitted exactly the frame
`255 :: p` directly to this party, which this party's own classifier put in round `k.r` as
broadcast-class, with the digest recomputed locally. -/
theorem bcast_authentic (cfg : Dispatch.Cfg) (self n : Nat) (ins : List (Id × Bytes)) (p : Pay) (k : Key)
    (h : Out.deliverB p k ∈ (run cfg (fresh self n) ins).2) :
    k.s ∈ cfg.allowed ∧ ∃ data, (k.s, data) ∈ ins ∧ decodeAck data = .payload ∧ data.tail = p ∧
      cfg.classify p = some (k.r, true) ∧ k.d = cfg.H p := by
  have I := linv_of_run cfg self n ins
  have hm := I.del_auth p k h
  obtain ⟨x, hx, hacc⟩ := List.mem_filterMap.mp hm
  obtain ⟨e1, e2, e3, e4, _, e6, e7⟩ := accepted_bcast hacc
  refine ⟨e2, x.2, ?_, e3, e4, e6, e7⟩
  rw [← e1]; exact hx

/-- **Never an empty placeholder.** What is handed over is a received, non-empty payload. (In the
model a hand-over carries a payload by construction; that the implementation never forwards its
`nil` placeholder is what the correspondence run checks on every step.) -/
theorem never_placeholder (cfg : Dispatch.Cfg) (self n : Nat) (ins : List (Id × Bytes)) (p : Pay) (k : Key)
    (h : Out.deliverB p k ∈ (run cfg (fresh self n) ins).2) : p ≠ [] := by
  have I := linv_of_run cfg self n ins
  have hm := I.del_auth p k h
  obtain ⟨x, _, hacc⟩ := List.mem_filterMap.mp hm
  exact (accepted_bcast hacc).2.2.2.2.1

/-- **At most once per sender and round**, whatever is replayed, re-sent or acknowledged again. -/
theorem bcast_at_most_once (cfg : Dispatch.Cfg) (self n : Nat) (ins : List (Id × Bytes)) (s : Id) (r : Round) :
    ((run cfg (fresh self n) ins).2.filter (Out.isDeliverSR s r)).length ≤ 1 :=
  (linv_of_run cfg self n ins).sr_once s r

/-- **Point-to-point hand-overs are sound**: attributed to the authenticated source that sent
exactly that payload, which must be a participant. -/
theorem p2p_sound (cfg : Dispatch.Cfg) (self n : Nat) (ins : List (Id × Bytes)) (p : Pay) (src : Id)
    (h : Out.deliverP p src ∈ (run cfg (fresh self n) ins).2) :
    src ∈ cfg.allowed ∧ ∃ data, (src, data) ∈ ins ∧ decodeAck data = .payload ∧ data.tail = p ∧
      ∃ r, cfg.classify p = some (r, false) := by
  have I := linv_of_run cfg self n ins
  have hm := I.p2p_src p src h
  obtain ⟨x, hx, hacc⟩ := List.mem_filterMap.mp hm
  obtain ⟨e1, e2, e3, e4, _, e6⟩ := accepted_p2p hacc
  refine ⟨e2, x.2, ?_, e3, e4, e6⟩
  rw [← e1]; exact hx

/-- **Point-to-point messages are handed over exactly as received**: as long as the instance has
not concluded equivocation, the sequence of point-to-point hand-overs is, in order and with
multiplicity, the sequence of accepted point-to-point inputs. -/
theorem p2p_verbatim (cfg : Dispatch.Cfg) (self n : Nat) (ins : List (Id × Bytes))
    (h : (run cfg (fresh self n) ins).1.halted = false) :
    (run cfg (fresh self n) ins).2.filterMap Out.asP2P = (ins.filterMap (accepted cfg)).filterMap inP2P := by
  rw [run_eq] at h ⊢
  exact run_p2p_exact _ _ h

/-- **Traffic of non-participants is inert**: deleting every input whose authenticated source is
not a session participant changes neither the state nor the outputs. -/
theorem outsiders_inert (cfg : Dispatch.Cfg) (s : St) (ins : List (Id × Bytes)) :
    run cfg s ins = run cfg s (ins.filter (fun x => decide (x.1 ∈ cfg.allowed))) := by
  rw [run_eq, run_eq]
  congr 1
  induction ins with
  | nil => rfl
  | cons x rest ih =>
    by_cases hx : x.1 ∈ cfg.allowed
    · simp [List.filter_cons, hx, List.filterMap_cons, ih]
    · have : accepted cfg x = none := by
        cases h : accepted cfg x with
        | none => rfl
        | some y => exact absurd (accepted_src h).2 hx
      simp [List.filter_cons, hx, List.filterMap_cons, this, ih]

/-- The dispatcher path never panics on anything a peer can send (shared with C10): every byte
string, every source other than the node itself. -/
theorem never_panics (cfg : Dispatch.Cfg) (self n : Nat) (ins : List (Id × Bytes)) (hsrc : ∀ x ∈ ins, x.1 ≠ self) :
    Out.panic ∉ (run cfg (fresh self n) ins).2 := by
  rw [run_eq]
  apply run_no_panic
  intro y hy
  obtain ⟨x, hx, hacc⟩ := List.mem_filterMap.mp hy
  rw [(accepted_src hacc).1]
  exact hsrc x hx

/-! ## non-vacuity: a concrete session in which a hand-over does happen (N = 3, self = 1) -/

def exCfg : Dispatch.Cfg :=
  { allowed := [0, 1, 2],
    classify := fun p => match p with | r :: c :: _ => some (r.toNat, c = 1#8) | _ => none,
    H := fun p => p.take 1 ++ [0xEE#8] }

def exIns : List (Id × Bytes) :=
  [ (0, [255#8, 1#8, 1#8, 7#8]),                 -- sender 0 broadcasts payload [1,1,7] of round 1
    (2, [1#8, 0#8, 0#8, 1#8, 0xEE#8]) ]          -- party 2 acknowledges digest [1,0xEE] of (0, round 1)

example : (run exCfg (fresh 1 3) exIns).2 =
    [ .ack ⟨[1#8, 0xEE#8], 0, 1⟩, .deliverB [1#8, 1#8, 7#8] ⟨[1#8, 0xEE#8], 0, 1⟩ ] := by decide


/-- **The source the model was transcribed from is the current source**: the statements of `Receiver.Receive`, `registerMsg`, `initIfNeeded` and the dispatch path `handleMPC` / `handleRBC` / `handleAck` / `rbcFilter.Receive` / `threadSafeRBC.Receive`, regenerated from
`/repo` on this run, are the committed ones (logging left out). A change of any of them — harmless or not — fails here
first; the differential and monitored runs of this property are then the search for an input on which it fails. -/
theorem source_as_modelled : TSSVerif.Gen.Stmts.rbc = TSSVerif.Model.StmtsExpected.rbc := by
  decide +kernel

end TSSVerif.Props.C03
