import TSSVerif.Model.Dkg
import TSSVerif.Gen.Stmts
import TSSVerif.Model.StmtsExpected
/-!
# C05 — a misbehaving DKG participant cannot split or poison the generated key

Model: `Model/Dkg.lean`. Quantifiers: **every** reachable joint state of a session — any number of
parties, any subset corrupted, any shares to anybody (different per victim), any commitment and key
per sender (the broadcast layer makes it the same bytes at every honest receiver: C02/C03), malformed,
duplicated, withheld and out-of-phase messages, the context ending anywhere, any interleaving.

The algebraic half of the statement ("shares that can jointly sign under the reported key") is in
`Props/C01.lean` (`checked_subset_signs`, `threshold_sig_correct`).
-/
set_option linter.unusedSimpArgs false
set_option linter.unusedVariables false
namespace TSSVerif.Props.C05
open TSSVerif.Model TSSVerif.Model.Dkg

/-! ### tables -/

theorem get_put_self (t : Tab) (k : Id) (v : Bytes) : (t.put k v).get k = some ((t.get k).getD v) := by
  unfold Tab.put Tab.has Tab.get
  by_cases h : t.any (fun e => e.1 = k) = true
  · rw [if_pos h]
    obtain ⟨e, he, hk⟩ := List.any_eq_true.mp h
    cases hf : t.find? (fun e => decide (e.1 = k)) with
    | none =>
      have := List.find?_eq_none.mp hf e he
      simp at this hk
      exact absurd hk this
    | some e' => simp
  · rw [if_neg h]
    have hn : t.find? (fun e => decide (e.1 = k)) = none := by
      rw [List.find?_eq_none]
      intro e he
      have : ¬ (decide (e.1 = k) = true) := by
        intro hd
        exact h (List.any_eq_true.mpr ⟨e, he, hd⟩)
      simpa using this
    rw [List.find?_append, hn]
    simp

theorem get_put_other (t : Tab) (k k' : Id) (v : Bytes) (h : k' ≠ k) : (t.put k v).get k' = t.get k' := by
  unfold Tab.put Tab.get
  split
  · rfl
  · rw [List.find?_append]
    cases hf : t.find? (fun e => decide (e.1 = k')) with
    | some e => simp
    | none => simp [h.symm]

/-- **first value per sender wins**: an entry, once there, is never replaced -/
theorem put_keeps (t : Tab) (k k' : Id) (v w : Bytes) (h : t.get k' = some w) : (t.put k v).get k' = some w := by
  by_cases e : k' = k
  · subst e
    rw [get_put_self, h]
    rfl
  · rw [get_put_other t k k' v e, h]

/-! ### the party -/

/-- the key table of a party only ever holds, for another sender, the key the session's broadcast delivered for it,
and for the party itself its own key -/
def KeysOK (S : Session) (x : Id) (p : P) : Prop :=
  p.self = x ∧ p.parties = S.parties ∧
  (∀ v, p.reveals.get x = some v → v = (S.env x).ownPk) ∧
  (∀ j v, j ≠ x → p.reveals.get j = some v → v = S.br j) ∧
  (∀ j v, j ≠ x → p.commits.get j = some v → v = S.bc j)

theorem keysok_put_reveal {S : Session} {x : Id} {p : P} (h : KeysOK S x p) (j : Id) (hj : j ≠ x) :
    KeysOK S x { p with reveals := p.reveals.put j (S.br j) } := by
  obtain ⟨h1, h2, h3, h4, h5⟩ := h
  refine ⟨h1, h2, ?_, ?_, h5⟩
  · intro v hv
    rw [get_put_other _ _ _ _ (Ne.symm hj)] at hv
    exact h3 v hv
  · intro k v hk hv
    by_cases e : k = j
    · subst e
      rw [get_put_self] at hv
      cases hg : p.reveals.get k with
      | none => rw [hg] at hv; simp at hv; exact hv.symm
      | some w => rw [hg] at hv; simp at hv; subst hv; exact h4 k w hk hg
    · rw [get_put_other _ _ _ _ e] at hv
      exact h4 k v hk hv

theorem keysok_put_commit {S : Session} {x : Id} {p : P} (h : KeysOK S x p) (j : Id) (hj : j ≠ x) :
    KeysOK S x { p with commits := p.commits.put j (S.bc j) } := by
  obtain ⟨h1, h2, h3, h4, h5⟩ := h
  refine ⟨h1, h2, h3, h4, ?_⟩
  intro k v hk hv
  by_cases e : k = j
  · subst e
    rw [get_put_self] at hv
    cases hg : p.commits.get k with
    | none => rw [hg] at hv; simp at hv; exact hv.symm
    | some w => rw [hg] at hv; simp at hv; subst hv; exact h5 k w hk hg
  · rw [get_put_other _ _ _ _ e] at hv
    exact h5 k v hk hv

/-- `finish`, `revealsStep`, `commitsStep` leave the tables alone -/
theorem finish_tables (p : P) (env : Env) : (finish p env).1.reveals = p.reveals ∧ (finish p env).1.commits = p.commits ∧
    (finish p env).1.self = p.self ∧ (finish p env).1.parties = p.parties := by
  unfold finish
  split
  · exact ⟨rfl, rfl, rfl, rfl⟩
  · exact ⟨rfl, rfl, rfl, rfl⟩
  · split <;> exact ⟨rfl, rfl, rfl, rfl⟩

theorem revealsStep_tables (p : P) (env : Env) : (revealsStep p env).1.reveals = p.reveals ∧
    (revealsStep p env).1.commits = p.commits ∧ (revealsStep p env).1.self = p.self ∧ (revealsStep p env).1.parties = p.parties := by
  unfold revealsStep
  split
  · exact finish_tables p env
  · split <;> exact ⟨rfl, rfl, rfl, rfl⟩

theorem commitsStep_tables (p : P) (env : Env) : (commitsStep p env).1.reveals = p.reveals ∧
    (commitsStep p env).1.commits = p.commits ∧ (commitsStep p env).1.self = p.self ∧ (commitsStep p env).1.parties = p.parties := by
  unfold commitsStep
  split
  · exact revealsStep_tables p env
  · split <;> exact ⟨rfl, rfl, rfl, rfl⟩

theorem keysok_congr {S : Session} {x : Id} {p q : P} (h : KeysOK S x p) (e1 : q.reveals = p.reveals) (e2 : q.commits = p.commits)
    (e3 : q.self = p.self) (e4 : q.parties = p.parties) : KeysOK S x q := by
  unfold KeysOK at *
  rw [e1, e2, e3, e4]
  exact h

theorem keysok_wake {S : Session} {x : Id} {p : P} (h : KeysOK S x p) : KeysOK S x (p.wake (S.env x)).1 := by
  unfold P.wake
  split
  · -- sharesStep
    unfold sharesStep
    split
    · split
      · -- the own key enters the table
        have h' : KeysOK S x { p with reveals := p.reveals.put p.self (S.env x).ownPk } := by
          obtain ⟨h1, h2, h3, h4, h5⟩ := h
          refine ⟨h1, h2, ?_, ?_, h5⟩
          · intro v hv
            rw [h1, get_put_self] at hv
            cases hg : p.reveals.get x with
            | none => rw [hg] at hv; simp at hv; exact hv.symm
            | some w => rw [hg] at hv; simp at hv; subst hv; exact h3 w hg
          · intro k v hk hv
            rw [h1, get_put_other _ _ _ _ hk] at hv
            exact h4 k v hk hv
        obtain ⟨e1, e2, e3, e4⟩ := commitsStep_tables { p with reveals := p.reveals.put p.self (S.env x).ownPk } (S.env x)
        exact keysok_congr h' e1 e2 e3 e4
      · exact h
    · split <;> exact h
  · obtain ⟨e1, e2, e3, e4⟩ := commitsStep_tables p (S.env x)
    exact keysok_congr h e1 e2 e3 e4
  · obtain ⟨e1, e2, e3, e4⟩ := revealsStep_tables p (S.env x)
    exact keysok_congr h e1 e2 e3 e4
  · exact h
  · exact h

theorem reach_keysok {S : Session} {σ : Id → P} (h : Reach S σ) : ∀ x, KeysOK S x (σ x) := by
  induction h with
  | init =>
    intro x
    refine ⟨rfl, rfl, ?_, ?_, ?_⟩ <;> intros <;> simp_all [Session.init, Tab.get]
  | @share σ h x j v wf hx hj ih =>
    intro y
    by_cases e : y = x
    · subst e
      simp only [if_true, P.onMsg]
      split
      · exact keysok_congr (ih y) rfl rfl rfl rfl
      · exact ih y
    · simp only [e, if_false]; exact ih y
  | @commit σ h x j hx hj ih =>
    intro y
    by_cases e : y = x
    · subst e
      simp only [if_true, P.onMsg]
      exact keysok_put_commit (ih y) j hj
    · simp only [e, if_false]; exact ih y
  | @reveal σ h x j hx hj ih =>
    intro y
    by_cases e : y = x
    · subst e
      simp only [if_true, P.onMsg]
      split
      · exact keysok_put_reveal (ih y) j hj
      · exact ih y
    · simp only [e, if_false]; exact ih y
  | @junk σ h x j hx ih =>
    intro y
    by_cases e : y = x
    · subst e; simp only [if_true, P.onMsg]; exact ih y
    · simp only [e, if_false]; exact ih y
  | @ctx σ h x hx ih =>
    intro y
    by_cases e : y = x
    · subst e; simp only [if_true]; exact keysok_congr (ih y) rfl rfl rfl rfl
    · simp only [e, if_false]; exact ih y
  | @wake σ h x hx ih =>
    intro y
    by_cases e : y = x
    · subst e; simp only [if_true]; exact keysok_wake (ih y)
    · simp only [e, if_false]; exact ih y

/-! ### what a successful completion means -/

/-- a party that returned success went through `finish` with every check passed -/
def Completed (p : P) (env : Env) : Prop :=
  validate p env = some true ∧ p.parties.all (fun k => p.reveals.has k) = true ∧ env.subsetsAgree p.publicKeys = true

theorem finish_ok {p : P} {env : Env} (h : (finish p env).1.phase = .returned true) (hp : p.phase ≠ .returned true) :
    Completed p env := by
  unfold finish at h
  split at h
  · cases h
  · cases h
  · rename_i hv
    split at h
    · rename_i ha
      simp only at h
      injection h with h
      exact ⟨hv, ha, h⟩
    · cases h

/-- the wake that makes a party return success is one in which all checks passed on its (then final) tables -/
theorem wake_ok {p : P} {env : Env} (h : (p.wake env).1.phase = .returned true) (hp : p.phase ≠ .returned true) :
    Completed (p.wake env).1 env := by
  have key : ∀ q : P, q.phase ≠ .returned true → (revealsStep q env).1.phase = .returned true →
      Completed (revealsStep q env).1 env := by
    intro q hq hr
    unfold revealsStep at hr ⊢
    split at hr
    · have c := finish_ok hr hq
      obtain ⟨e1, e2, e3, e4⟩ := finish_tables q env
      rename_i hl
      rw [if_pos hl]
      unfold Completed validate P.publicKeys at c ⊢
      rw [e1, e2, e3, e4]
      exact c
    · split at hr <;> cases hr
  have key2 : ∀ q : P, q.phase ≠ .returned true → (commitsStep q env).1.phase = .returned true →
      Completed (commitsStep q env).1 env := by
    intro q hq hr
    unfold commitsStep at hr ⊢
    split at hr
    · rename_i hl
      rw [if_pos hl]
      exact key q hq hr
    · split at hr <;> cases hr
  unfold P.wake at h ⊢
  split at h
  · rename_i hph
    unfold sharesStep at h ⊢
    split at h
    · rename_i hl
      rw [if_pos hl]
      split at h
      · rename_i ha
        rw [if_pos ha]
        exact key2 _ (by simp [hph]) h
      · cases h
    · split at h
      · cases h
      · exact absurd h hp
  · rename_i hph
    exact key2 p hp h
  · rename_i hph
    exact key p hp h
  · rename_i ok hph
    rw [hph] at hp
    rw [hph] at h
    exact absurd h hp
  · rename_i hph
    rw [hph] at h
    cases h

/-! ### the reported public material -/

/-- what party `x` must report if it reports anything: its own key at its own position, the session's key of `k` at
every other position -/
def expected (S : Session) (x : Id) : List (Option Bytes) :=
  S.parties.map (fun k => some (if k = x then (S.env x).ownPk else S.br k))

theorem has_get {t : Tab} {k : Id} (h : t.has k = true) : ∃ v, t.get k = some v := by
  unfold Tab.has at h
  unfold Tab.get
  obtain ⟨e, he, hk⟩ := List.any_eq_true.mp h
  cases hf : t.find? (fun e => decide (e.1 = k)) with
  | none =>
    have := List.find?_eq_none.mp hf e he
    exact absurd hk this
  | some e' => exact ⟨e'.2, rfl⟩

theorem publicKeys_expected {S : Session} {x : Id} {p : P} (h : KeysOK S x p)
    (hall : p.parties.all (fun k => p.reveals.has k) = true) : p.publicKeys = expected S x := by
  obtain ⟨h1, h2, h3, h4, h5⟩ := h
  unfold P.publicKeys expected
  rw [h2] at hall ⊢
  apply List.map_congr_left
  intro k hk
  have hk' := List.all_eq_true.mp hall k hk
  obtain ⟨v, hv⟩ := has_get hk'
  rw [hv]
  by_cases e : k = x
  · subst e
    rw [if_pos rfl, h3 v hv]
  · rw [if_neg e, h4 k v e hv]

/-- whatever a party reports is the expected table -/
def ResOK (S : Session) (x : Id) (p : P) : Prop := ∀ r, p.result = some r → r = expected S x

theorem resok_finish {S : Session} {x : Id} {p : P} (env : Env) (hk : KeysOK S x p) (hr : ResOK S x p) :
    ResOK S x (finish p env).1 := by
  unfold finish
  split
  · exact hr
  · exact hr
  · split
    · rename_i ha
      intro r hres
      simp only at hres
      split at hres
      · injection hres with hres
        rw [← hres]
        exact publicKeys_expected hk ha
      · cases hres
    · exact hr

theorem resok_revealsStep {S : Session} {x : Id} {p : P} (env : Env) (hk : KeysOK S x p) (hr : ResOK S x p) :
    ResOK S x (revealsStep p env).1 := by
  unfold revealsStep
  split
  · exact resok_finish env hk hr
  · split <;> exact hr

theorem resok_commitsStep {S : Session} {x : Id} {p : P} (env : Env) (hk : KeysOK S x p) (hr : ResOK S x p) :
    ResOK S x (commitsStep p env).1 := by
  unfold commitsStep
  split
  · exact resok_revealsStep env hk hr
  · split <;> exact hr

theorem resok_wake {S : Session} {x : Id} {p : P} (hk : KeysOK S x p) (hr : ResOK S x p) :
    ResOK S x (p.wake (S.env x)).1 := by
  unfold P.wake
  split
  · unfold sharesStep
    split
    · split
      · have hk' : KeysOK S x { p with reveals := p.reveals.put p.self (S.env x).ownPk } := by
          obtain ⟨h1, h2, h3, h4, h5⟩ := hk
          refine ⟨h1, h2, ?_, ?_, h5⟩
          · intro v hv
            rw [h1, get_put_self] at hv
            cases hg : p.reveals.get x with
            | none => rw [hg] at hv; simp at hv; exact hv.symm
            | some w => rw [hg] at hv; simp at hv; subst hv; exact h3 w hg
          · intro k v hk hv
            rw [h1, get_put_other _ _ _ _ hk] at hv
            exact h4 k v hk hv
        exact resok_commitsStep _ hk' hr
      · exact hr
    · split <;> exact hr
  · exact resok_commitsStep _ hk hr
  · exact resok_revealsStep _ hk hr
  · exact hr
  · exact hr

theorem reach_resok {S : Session} {σ : Id → P} (h : Reach S σ) : ∀ x, ResOK S x (σ x) := by
  induction h with
  | init => intro x r hr; simp [Session.init] at hr
  | @share σ h x j v wf hx hj ih =>
    intro y
    by_cases e : y = x
    · subst e
      simp only [if_true, P.onMsg]
      split
      · exact ih y
      · exact ih y
    · simp only [e, if_false]; exact ih y
  | @commit σ h x j hx hj ih =>
    intro y
    by_cases e : y = x
    · subst e; simp only [if_true, P.onMsg]; exact ih y
    · simp only [e, if_false]; exact ih y
  | @reveal σ h x j hx hj ih =>
    intro y
    by_cases e : y = x
    · subst e
      simp only [if_true, P.onMsg]
      split
      · exact ih y
      · exact ih y
    · simp only [e, if_false]; exact ih y
  | @junk σ h x j hx ih =>
    intro y
    by_cases e : y = x
    · subst e; simp only [if_true, P.onMsg]; exact ih y
    · simp only [e, if_false]; exact ih y
  | @ctx σ h x hx ih =>
    intro y
    by_cases e : y = x
    · subst e; simp only [if_true]; exact ih y
    · simp only [e, if_false]; exact ih y
  | @wake σ h x hx ih =>
    intro y
    by_cases e : y = x
    · subst e; simp only [if_true]; exact resok_wake (reach_keysok h y) (ih y)
    · simp only [e, if_false]; exact ih y

/-- **Honest parties that complete report identical public material** — in every reachable state, whatever the
corrupted participants sent to whom and in whatever order everything arrived. The only facts about the environment:
the broadcast layer hands every honest receiver the same commitment / key per sender (`Session.bc`, `Session.br`:
C02/C03), and what it hands out for an honest sender is what that sender broadcast (its own key). -/
theorem honest_completions_agree {S : Session} {σ : Id → P} (h : Reach S σ)
    (hint : ∀ x, S.honest x = true → S.br x = (S.env x).ownPk)
    {a b : Id} (ha : S.honest a = true) (hb : S.honest b = true) {ra rb : List (Option Bytes)}
    (hra : (σ a).result = some ra) (hrb : (σ b).result = some rb) : ra = rb := by
  rw [reach_resok h a ra hra, reach_resok h b rb hrb]
  unfold expected
  apply List.map_congr_left
  intro k _
  by_cases e1 : k = a <;> by_cases e2 : k = b
  · subst e1; subst e2; rfl
  · subst e1; rw [if_pos rfl, if_neg e2, hint k ha]
  · subst e2; rw [if_neg e1, if_pos rfl, hint k hb]
  · rw [if_neg e1, if_neg e2]

/-! ### commitments -/

/-- the fold of `validateCommitments` says `some true` only if every entry passed -/
theorem validate_fold_true (commits : Tab) (hash : Bytes → Bytes) :
    ∀ (l : Tab) (acc : Option Bool),
      l.foldl (fun acc e => match acc with
        | none => none
        | some false => some false
        | some true =>
          match commits.get e.1 with
          | none => none
          | some c => some (decide (hash e.2 = c))) acc = some true →
      acc = some true ∧ ∀ e ∈ l, commits.get e.1 = some (hash e.2)
  | [], acc, h => ⟨h, fun e he => (by cases he)⟩
  | e :: l, acc, h => by
    rw [List.foldl_cons] at h
    have ih := validate_fold_true commits hash l _ h
    obtain ⟨h1, h2⟩ := ih
    cases acc with
    | none => simp at h1
    | some b =>
      cases b with
      | false => simp at h1
      | true =>
        simp only at h1
        cases hc : commits.get e.1 with
        | none => rw [hc] at h1; simp at h1
        | some c =>
          rw [hc] at h1
          simp only [Option.some.injEq, decide_eq_true_eq] at h1
          refine ⟨rfl, ?_⟩
          intro e' he'
          rcases List.mem_cons.mp he' with rfl | he'
          · rw [hc, h1]
          · exact h2 e' he'

/-- **A revealed key that does not match its commitment aborts**: a party completes successfully only if the key it
recorded for every other party hashes to the commitment it recorded for that party (and such a commitment exists). -/
theorem completed_commitments_match {p : P} {env : Env} (h : Completed p env) :
    ∀ e ∈ p.reveals, e.1 ≠ p.self → p.commits.get e.1 = some (env.hash e.2) := by
  intro e he hne
  have := (validate_fold_true p.commits env.hash _ _ h.1).2 e
  apply this
  rw [List.mem_filter]
  exact ⟨he, by simpa using hne⟩

/-! ### no disclosure before all commitments are held -/

theorem keys_nodup_put (t : Tab) (k : Id) (v : Bytes) (h : (t.map (·.1)).Nodup) : ((t.put k v).map (·.1)).Nodup := by
  unfold Tab.put
  split
  · exact h
  · rename_i hn
    rw [List.map_append, List.nodup_append]
    refine ⟨h, by simp, ?_⟩
    intro a ha b hb
    simp at hb
    subst hb
    intro e
    subst e
    apply hn
    unfold Tab.has
    rw [List.any_eq_true]
    obtain ⟨x, hx, rfl⟩ := List.mem_map.mp ha
    exact ⟨x, hx, by simp⟩

/-- **The key is revealed only in a wake that finds commitments of `n − 1` senders in the table** (`commitsStep` is the only
place that emits it, under exactly that condition; the context ending does not open it: F11). -/
theorem reveal_needs_all_commitments (p : P) (env : Env) (pk : Bytes) (h : Out.bcastReveal pk ∈ (p.wake env).2) :
    p.commits.length = p.parties.length - 1 := by
  have fin : ∀ q : P, Out.bcastReveal pk ∉ (finish q env).2 := by
    intro q hq
    unfold finish at hq
    split at hq
    · simp at hq
    · simp at hq
    · split at hq <;> simp at hq
  have rs : ∀ q : P, Out.bcastReveal pk ∉ (revealsStep q env).2 := by
    intro q hq
    unfold revealsStep at hq
    split at hq
    · exact fin q hq
    · split at hq <;> simp at hq
  have cs : ∀ q : P, Out.bcastReveal pk ∈ (commitsStep q env).2 → q.commits.length = q.parties.length - 1 := by
    intro q hq
    unfold commitsStep at hq
    split at hq
    · rename_i hl; exact hl
    · split at hq <;> simp at hq
  unfold P.wake at h
  split at h
  · unfold sharesStep at h
    split at h
    · split at h
      · simp only [List.mem_cons] at h
        rcases h with h | h
        · cases h
        · exact cs { p with reveals := p.reveals.put p.self env.ownPk } h
      · simp at h
    · split at h <;> simp at h
  · exact cs p h
  · exact absurd h (rs p)
  · simp at h
  · simp at h

/-- … and those are `n − 1` distinct senders: in every state a run can reach, no sender occurs twice in a table -/
theorem commit_senders_distinct (env : Env) : ∀ (evs : List Ev) (p : P), (p.commits.map (·.1)).Nodup →
    ((p.run env evs).1.commits.map (·.1)).Nodup
  | [], p, h => h
  | e :: rest, p, h => by
    simp only [P.run]
    apply commit_senders_distinct env rest
    cases e with
    | msg src m =>
      simp only [P.step]
      cases m with
      | share v wf => simp only [P.onMsg]; split <;> exact h
      | commit c => simp only [P.onMsg]; exact keys_nodup_put _ _ _ h
      | reveal pk wf => simp only [P.onMsg]; split <;> exact h
      | junk => exact h
    | ctx => exact h
    | wake =>
      simp only [P.step]
      have t1 : ∀ q : P, (finish q env).1.commits = q.commits := fun q => (finish_tables q env).2.1
      have t2 : ∀ q : P, (revealsStep q env).1.commits = q.commits := fun q => (revealsStep_tables q env).2.1
      have t3 : ∀ q : P, (commitsStep q env).1.commits = q.commits := fun q => (commitsStep_tables q env).2.1
      unfold P.wake
      split
      · unfold sharesStep
        split
        · split
          · rw [t3]; exact h
          · exact h
        · split <;> exact h
      · rw [t3]; exact h
      · rw [t2]; exact h
      · exact h
      · exact h


/-- **The source the model was transcribed from is the current source**: the statements of `OnMsg`, `KeyGen`, the three wait loops, `combineShares`, `commitPhase`, `revealPhase`, `shareDistribution`, `validateCommitments`, `assembleThresholdPublicKey`, `Init` of both built-in backends, regenerated from
`/repo` on this run, are the committed ones (logging left out). A change of any of them — harmless or not — fails here
first; the differential and monitored runs of this property are then the search for an input on which it fails. -/
theorem source_as_modelled : TSSVerif.Gen.Stmts.dkg = TSSVerif.Model.StmtsExpected.dkg := by
  decide +kernel

end TSSVerif.Props.C05
