import TSSVerif.Model.Net
import TSSVerif.Gen.Net
import TSSVerif.Gen.Stmts
import TSSVerif.Model.StmtsExpected
/-!
# C17 — the transport frames faithfully and isolates a failing peer

Model: `Model/Net.lean` (`encodeFrame`, `readMsg`, `readAll`, `SendSt`). Quantifiers: every legal
frame of every payload length up to the limit (no bound in the proofs), every sequence of frames,
every interleaving of any number of sending goroutines and of the writers' successes and failures.
TCP, the TLS record layer and real time ("slow" = the queue stays full) are outside the model.
-/
set_option linter.unusedSimpArgs false
set_option linter.unusedVariables false
namespace TSSVerif.Props.C17
open TSSVerif.Model TSSVerif.Model.Net

theorem unle32_le32 (n : Nat) (h : n < 4294967296) :
    unle32 (BitVec.ofNat 8 n) (BitVec.ofNat 8 (n / 256)) (BitVec.ofNat 8 (n / 65536)) (BitVec.ofNat 8 (n / 16777216)) = n := by
  unfold unle32
  simp only [BitVec.toNat_ofNat]
  omega

theorem legal_topic_len {f : Frame} (h : legal f) : f.topic.length = if hasTopic f.ty then 32 else 0 := by
  rcases h with ⟨h1, h2⟩ | ⟨h1, h2⟩
  · rw [h1]; exact h2
  · rw [h1, h2]; rfl

/-- **One frame round-trips**: every legal frame with a payload within the limit is written (no panic) and, whatever
follows it on the stream, read back identically — type, topic and payload — leaving exactly what follows. -/
theorem frame_roundtrip (f : Frame) (rest : Bytes) (hl : legal f) (hs : f.data.length ≤ maxBuff) :
    ∃ b, encodeFrame f = some b ∧ readMsg (b ++ rest) = .ok f rest := by
  have hlen : f.data.length < 4294967296 := by unfold maxBuff at hs; omega
  have htl := legal_topic_len hl
  refine ⟨f.ty :: le32 f.data.length ++ f.topic ++ f.data, ?_, ?_⟩
  · unfold encodeFrame
    rw [if_neg, if_neg]
    · omega
    · rw [htl]; split <;> simp
  · simp only [le32, List.cons_append, List.nil_append, List.append_assoc, readMsg]
    rw [unle32_le32 _ hlen]
    rw [if_neg (by unfold maxBuff at hs ⊢; omega)]
    rcases hl with ⟨h1, h2⟩ | ⟨h1, h2⟩
    · rw [h1]
      simp only [if_true]
      have e1 : (f.topic ++ (f.data ++ rest)).drop 32 = f.data ++ rest := List.drop_left' h2
      have e2 : (f.topic ++ (f.data ++ rest)).take 32 = f.topic := List.take_left' h2
      rw [e1, e2]
      rw [if_neg (by simp [h2]), if_neg (by simp)]
      rw [List.take_left' rfl, List.drop_left' rfl]
    · rw [h1, h2]
      simp only [Bool.false_eq_true, if_false, List.nil_append]
      rw [if_neg (by simp)]
      rw [List.take_left' rfl, List.drop_left' rfl]
      cases f
      simp_all

/-- the bytes a list of frames is sent as -/
def encodeAll : List Frame → Bytes
  | [] => []
  | f :: fs => (encodeFrame f).getD [] ++ encodeAll fs

/-- **A stream round-trips: exactly once, unmodified, in order.** Any sequence of legal frames within the limit,
written back to back on one connection, is read as exactly that sequence. -/
theorem stream_roundtrip : ∀ (fs : List Frame) (fuel : Nat), fs.length < fuel →
    (∀ f ∈ fs, legal f ∧ f.data.length ≤ maxBuff) → readAll fuel (encodeAll fs) = fs
  | [], fuel, hf, _ => by
    cases fuel with
    | zero => omega
    | succ n => simp [readAll, encodeAll, readMsg]
  | f :: fs, fuel, hf, h => by
    cases fuel with
    | zero => simp at hf
    | succ n =>
      obtain ⟨hl, hs⟩ := h f (List.mem_cons_self)
      obtain ⟨b, hb, hr⟩ := frame_roundtrip f (encodeAll fs) hl hs
      simp only [readAll, encodeAll, hb, Option.getD_some, hr]
      rw [stream_roundtrip fs n (by simp at hf; omega) (fun g hg => h g (List.mem_cons_of_mem _ hg))]

/-- **A frame announcing more than the limit is refused** — from its five header bytes alone, before anything of
the announced size is allocated or read, whatever follows. -/
theorem oversize_refused (ty : B8) (n : Nat) (rest : Bytes) (h1 : maxBuff < n) (h2 : n < 4294967296) :
    readMsg (ty :: le32 n ++ rest) = .tooBig := by
  simp only [le32, List.cons_append, List.nil_append, readMsg]
  rw [unle32_le32 _ h2, if_pos h1]

/-- what is read is what was on the stream: a successfully read frame is a prefix decomposition of the stream
(nothing is invented, dropped or reordered inside a frame) -/
theorem readMsg_sound (s : Bytes) (f : Frame) (rest : Bytes) (h : readMsg s = .ok f rest) :
    ∃ hdr, hdr.length = 5 ∧ s = hdr ++ f.topic ++ f.data ++ rest ∧ f.data.length ≤ maxBuff ∧
      f.topic.length = (if hasTopic f.ty then 32 else 0) := by
  unfold readMsg at h
  split at h
  · rename_i ty b0 b1 b2 b3 s1
    simp only at h
    split at h
    · cases h
    · rename_i hn
      split at h
      · rename_i ht
        split at h
        · cases h
        · split at h
          · cases h
          · rename_i h32 hnn
            injection h with hf hr
            subst hf hr
            refine ⟨[ty, b0, b1, b2, b3], rfl, ?_, ?_, ?_⟩
            · simp only [List.cons_append, List.nil_append, List.append_assoc]
              rw [List.take_append_drop, List.take_append_drop]
            · simp only [List.length_take]
              omega
            · simp only [ht, if_true, List.length_take]
              omega
      · rename_i ht
        split at h
        · cases h
        · rename_i hnn
          injection h with hf hr
          subst hf hr
          refine ⟨[ty, b0, b1, b2, b3], rfl, ?_, ?_, ?_⟩
          · simp only [List.cons_append, List.nil_append, List.append_assoc]
            rw [List.take_append_drop]
          · simp only [List.length_take]
            omega
          · simp [ht]
  · cases h

/-! ## the sending side -/

def acceptedFor (d : Nat) : List SOut → List Frame
  | [] => []
  | .accepted d' _ f :: r => if d' = d then f :: acceptedFor d r else acceptedFor d r
  | _ :: r => acceptedFor d r

/-- frames the writer of `d` took from its queue, in order (written or lost with a failing connection) -/
def takenFor (d : Nat) : List SOut → List Frame
  | [] => []
  | .wrote d' b :: r => if d' = d then (match readMsg b with | .ok f _ => f | _ => ⟨0, [], []⟩) :: takenFor d r else takenFor d r
  | .lost d' f :: r => if d' = d then f :: takenFor d r else takenFor d r
  | _ :: r => takenFor d r

def evDst : Ev → Nat
  | .enq d _ _ => d
  | .write d => d
  | .fail d => d

def evLegal : Ev → Prop
  | .enq _ _ f => legal f ∧ f.data.length ≤ maxBuff
  | _ => True

def AllLegalQ (s : SendSt) : Prop := ∀ d, ∀ f ∈ s.q d, legal f ∧ f.data.length ≤ maxBuff

theorem step_legal (s : SendSt) (e : Ev) (hq : AllLegalQ s) (he : evLegal e) : AllLegalQ (s.step e).1 := by
  cases e with
  | enq d g f =>
    simp only [SendSt.step]
    split
    · intro x y hy
      simp only at hy
      split at hy
      · rename_i hx
        subst hx
        rcases List.mem_append.mp hy with hy | hy
        · exact hq _ y hy
        · simp at hy; subst hy; exact he
      · exact hq x y hy
    · exact hq
  | write d =>
    simp only [SendSt.step]
    split
    · exact hq
    · rename_i f rest hqd
      intro x y hy
      simp only at hy
      split at hy
      · rename_i hx
        subst hx
        exact hq _ y (by rw [hqd]; exact List.mem_cons_of_mem _ hy)
      · exact hq x y hy
  | fail d =>
    simp only [SendSt.step]
    split
    · exact hq
    · rename_i f rest hqd
      intro x y hy
      simp only at hy
      split at hy
      · rename_i hx
        subst hx
        exact hq _ y (by rw [hqd]; exact List.mem_cons_of_mem _ hy)
      · exact hq x y hy

/-- **No panic on the sending side**: with legal frames only, no interleaving of senders, writers and connection
failures — in particular no unreachable, slow or failing destination — produces a panic; a send that finds the
queue full for the whole time-out is reported and dropped. -/
theorem no_panic : ∀ (evs : List Ev) (s : SendSt), AllLegalQ s → (∀ e ∈ evs, evLegal e) →
    ∀ o ∈ (s.run evs).2, (match o with | .panic => False | _ => True)
  | [], s, _, _ => by intro o ho; simp [SendSt.run] at ho
  | e :: es, s, hq, he => by
    intro o ho
    simp only [SendSt.run] at ho
    rcases List.mem_append.mp ho with ho | ho
    · -- the step itself
      cases e with
      | enq d g f =>
        simp only [SendSt.step] at ho
        split at ho <;> simp at ho <;> subst ho <;> trivial
      | write d =>
        simp only [SendSt.step] at ho
        split at ho
        · simp at ho
        · rename_i f rest hqd
          have hf := hq d f (by rw [hqd]; exact List.mem_cons_self)
          obtain ⟨b, hb, _⟩ := frame_roundtrip f [] hf.1 hf.2
          rw [hb] at ho
          simp at ho
          subst ho
          trivial
      | fail d =>
        simp only [SendSt.step] at ho
        split at ho <;> simp at ho
        subst ho
        trivial
    · exact no_panic es _ (step_legal s e hq (he e List.mem_cons_self)) (fun e' he' => he e' (List.mem_cons_of_mem _ he')) o ho

/-- **The queue serialises concurrent senders (FIFO).** For every interleaving of any number of sending goroutines with
the writer of destination `d`: the frames accepted for `d`, in the order they were accepted (which preserves each
goroutine's own order), are exactly the frames the writer has taken so far, in that order, followed by what is
still queued. So what is written to one connection is a sequence of whole frames in acceptance order — nothing
duplicated, reordered or interleaved. -/
theorem queue_fifo : ∀ (evs : List Ev) (s : SendSt) (d : Nat), AllLegalQ s → (∀ e ∈ evs, evLegal e) →
    s.q d ++ acceptedFor d (s.run evs).2 = takenFor d (s.run evs).2 ++ (s.run evs).1.q d
  | [], s, d, _, _ => by simp [SendSt.run, acceptedFor, takenFor]
  | e :: es, s, d, hq, he => by
    have ih := queue_fifo es (s.step e).1 d (step_legal s e hq (he e List.mem_cons_self))
      (fun e' he' => he e' (List.mem_cons_of_mem _ he'))
    simp only [SendSt.run]
    cases e with
    | enq d' g f =>
      simp only [SendSt.step] at ih ⊢
      split at ih
      · rename_i hcap
        rw [if_pos hcap]
        simp only [List.cons_append, List.nil_append, acceptedFor, takenFor]
        by_cases hd : d' = d
        · subst hd
          simp only [if_true] at ih ⊢
          rw [← ih]
          simp
        · simp only [hd, if_false] at ih ⊢
          have : (if d = d' then s.q d' ++ [f] else s.q d) = s.q d := by
            rw [if_neg (fun e => hd e.symm)]
          rw [this] at ih
          exact ih
      · rename_i hcap
        rw [if_neg hcap]
        simp only [List.cons_append, List.nil_append, acceptedFor, takenFor]
        exact ih
    | write d' =>
      simp only [SendSt.step] at ih ⊢
      split at ih
      · rename_i hqd
        simp only [hqd, List.nil_append]
        exact ih
      · rename_i f rest hqd
        simp only [hqd]
        have hf := hq d' f (by rw [hqd]; exact List.mem_cons_self)
        obtain ⟨b, hb, hr⟩ := frame_roundtrip f [] hf.1 hf.2
        simp only [hb, List.cons_append, List.nil_append, acceptedFor, takenFor]
        by_cases hd : d' = d
        · subst hd
          simp only [if_true] at ih ⊢
          rw [hqd]
          have hr' : readMsg b = .ok f [] := by simpa using hr
          simp only [hr', List.cons_append]
          rw [← ih]
        · simp only [hd, if_false] at ih ⊢
          have : (if d = d' then rest else s.q d) = s.q d := by rw [if_neg (fun e => hd e.symm)]
          rw [this] at ih
          exact ih
    | fail d' =>
      simp only [SendSt.step] at ih ⊢
      split at ih
      · rename_i hqd
        simp only [hqd, List.nil_append]
        exact ih
      · rename_i f rest hqd
        simp only [hqd, List.cons_append, List.nil_append, acceptedFor, takenFor]
        by_cases hd : d' = d
        · subst hd
          simp only [if_true] at ih ⊢
          rw [hqd]
          simp only [List.cons_append]
          rw [← ih]
        · simp only [hd, if_false] at ih ⊢
          have : (if d = d' then rest else s.q d) = s.q d := by rw [if_neg (fun e => hd e.symm)]
          rw [this] at ih
          exact ih

/-- what concerns destination `d` in a run's outputs -/
def outsFor (d : Nat) : List SOut → List SOut
  | [] => []
  | o :: r =>
    (match o with
     | .accepted d' _ _ => if d' = d then [o] else []
     | .dropped d' _ _ => if d' = d then [o] else []
     | .wrote d' _ => if d' = d then [o] else []
     | .lost d' _ => if d' = d then [o] else []
     | .panic => [o]) ++ outsFor d r

theorem outsFor_append (d : Nat) (a b : List SOut) : outsFor d (a ++ b) = outsFor d a ++ outsFor d b := by
  induction a with
  | nil => rfl
  | cons o r ih => simp only [List.cons_append, outsFor, ih, List.append_assoc]

/-- **A failing peer is confined.** Whatever happens at other destinations — unreachable (every writer step fails),
slow (its queue stays full, sends to it time out and are dropped), or anything else — destination `d` sees exactly
what it would have seen had those events not happened at all: the same acceptances, the same bytes written in the
same order, the same final queue. -/
theorem peer_failure_confined : ∀ (evs : List Ev) (s : SendSt) (d : Nat), AllLegalQ s → (∀ e ∈ evs, evLegal e) →
    outsFor d (s.run evs).2 = outsFor d (s.run (evs.filter (fun e => evDst e = d))).2 ∧
    (s.run evs).1.q d = (s.run (evs.filter (fun e => evDst e = d))).1.q d
  | [], s, d, _, _ => by simp [SendSt.run]
  | e :: es, s, d, hq, he => by
    have hq' := step_legal s e hq (he e List.mem_cons_self)
    have he' : ∀ e' ∈ es, evLegal e' := fun e' h' => he e' (List.mem_cons_of_mem _ h')
    by_cases hd : evDst e = d
    · have ih := peer_failure_confined es (s.step e).1 d hq' he'
      simp only [List.filter_cons, hd, decide_true, if_true, SendSt.run, outsFor_append]
      rw [ih.1, ih.2]
      exact ⟨rfl, rfl⟩
    · simp only [List.filter_cons, hd, decide_false, Bool.false_eq_true, if_false, SendSt.run, outsFor_append]
      -- the step at another destination leaves d's queue alone and shows nothing to d
      have hstep : outsFor d (s.step e).2 = [] ∧ (s.step e).1.q d = s.q d ∧ (s.step e).1.cap = s.cap := by
        cases e with
        | enq d' g f =>
          have hd' : d' ≠ d := hd
          simp only [SendSt.step]
          split
          · refine ⟨by simp [outsFor, hd'], ?_, rfl⟩
            show (if d = d' then s.q d' ++ [f] else s.q d) = s.q d
            rw [if_neg (fun e => hd' e.symm)]
          · exact ⟨by simp [outsFor, hd'], rfl, rfl⟩
        | write d' =>
          have hd' : d' ≠ d := hd
          simp only [SendSt.step]
          split
          · exact ⟨by simp [outsFor], rfl, rfl⟩
          · rename_i f rest hqd
            have hf := hq d' f (by rw [hqd]; exact List.mem_cons_self)
            obtain ⟨b, hb, _⟩ := frame_roundtrip f [] hf.1 hf.2
            refine ⟨by simp [outsFor, hb, hd'], ?_, rfl⟩
            show (if d = d' then rest else s.q d) = s.q d
            rw [if_neg (fun e => hd' e.symm)]
        | fail d' =>
          have hd' : d' ≠ d := hd
          simp only [SendSt.step]
          split
          · exact ⟨by simp [outsFor], rfl, rfl⟩
          · rename_i f rest hqd
            refine ⟨by simp [outsFor, hd'], ?_, rfl⟩
            show (if d = d' then rest else s.q d) = s.q d
            rw [if_neg (fun e => hd' e.symm)]
      rw [hstep.1, List.nil_append]
      -- running the rest from a state that agrees on d's queue and on the capacity
      have hagree : ∀ (es : List Ev) (s1 s2 : SendSt), s1.q d = s2.q d → s1.cap = s2.cap → (∀ e ∈ es, evDst e = d) →
          outsFor d (s1.run es).2 = outsFor d (s2.run es).2 ∧ (s1.run es).1.q d = (s2.run es).1.q d := by
        intro es
        induction es with
        | nil => intro s1 s2 h1 _ _; simp [SendSt.run, h1]
        | cons e es ih =>
          intro s1 s2 h1 h2 hall
          have hde := hall e List.mem_cons_self
          have hsame : outsFor d (s1.step e).2 = outsFor d (s2.step e).2 ∧ (s1.step e).1.q d = (s2.step e).1.q d ∧
              (s1.step e).1.cap = (s2.step e).1.cap := by
            cases e with
            | enq d' g f =>
              have : d' = d := hde
              subst this
              simp only [SendSt.step, h1, h2]
              split <;> simp [h1, h2]
            | write d' =>
              have : d' = d := hde
              subst this
              simp only [SendSt.step, h1]
              split <;> simp [h1, h2]
            | fail d' =>
              have : d' = d := hde
              subst this
              simp only [SendSt.step, h1]
              split <;> simp [h1, h2]
          have := ih (s1.step e).1 (s2.step e).1 hsame.2.1 hsame.2.2 (fun e' h' => hall e' (List.mem_cons_of_mem _ h'))
          simp [SendSt.run, outsFor_append, hsame.1, this.1, this.2]
      have ih := peer_failure_confined es (s.step e).1 d hq' he'
      have hfil : ∀ e' ∈ es.filter (fun e => evDst e = d), evDst e' = d := by
        intro e' h'
        simpa using (List.mem_filter.mp h').2
      have := hagree (es.filter (fun e => evDst e = d)) (s.step e).1 s hstep.2.1 hstep.2.2 hfil
      exact ⟨ih.1.trans this.1, ih.2.trans this.2⟩

/-! ## the regenerated facts the model relies on -/

/-- the size limit, the comparison that enforces it, which types carry a topic, the header layout on both sides, and
the panic sites of the sending side are the ones modelled: `Send` panics only for a destination that is not configured
(a local programming error), the writer only on an illegal type/topic combination or a payload of 4 GiB, and neither the
writer loop nor the time-out path panics at all. -/
theorem consts_as_modelled :
    TSSVerif.Gen.Net.maxBuffLen = "1024 * 1024 * 20" ∧ maxBuff = 1024 * 1024 * 20 ∧
    TSSVerif.Gen.Net.readTooBigWhen = "int(bufferLength) > maxBuffLen" ∧
    TSSVerif.Gen.Net.shouldHaveTopic = "map[MsgType]bool{MsgTypeMPC: true, MsgTypeDiscovery: true}" ∧
    TSSVerif.Gen.Net.msgTypeDiscovery = 1 ∧ TSSVerif.Gen.Net.msgTypeMPC = 2 ∧
    TSSVerif.Gen.Net.readLayout = "make([]byte, 5) ; MsgType(typeAndLengthBuff[0]) ; binary.LittleEndian.Uint32(typeAndLengthBuff[1:]) ; shouldHaveTopic[msgType] ; make([]byte, 32) ; make([]byte, bufferLength)" ∧
    TSSVerif.Gen.Net.sendLayout = "1 + 4 + len(msg.topic) ; uint8(msg.msgType) ; binary.LittleEndian.PutUint32(header[1:], uint32(dataLen)) ; copy(header[5:], msg.topic) ; rp.conn.Write(header) ; rp.conn.Write(msg.data)" ∧
    TSSVerif.Gen.Net.sendPanics = ["panic(fmt.Sprintf(\"party %d doesn't exist\", dst))"] ∧
    TSSVerif.Gen.Net.writerPanics = ["panic(\"topic should be either empty or 32 bytes\")", "panic(fmt.Sprintf(\"data too large (doesn't fit in 16 bits): %d\", dataLen))"] ∧
    TSSVerif.Gen.Net.writerLoopPanics = [] := by
  decide +kernel

/-- non-vacuity: a legal frame of each kind, and a run with a dead destination 2 next to a healthy destination 1 -/
example : legal ⟨2, List.replicate 32 7, [1, 2, 3]⟩ ∧ legal ⟨0, [], []⟩ ∧ ¬ legal ⟨2, [], [1]⟩ ∧ ¬ legal ⟨0, List.replicate 32 7, []⟩ := by
  decide

def exF1 : Frame := ⟨0, [], [1]⟩
def exF2 : Frame := ⟨0, [], [2]⟩

example :
    outsFor 1 (({ cap := 1 } : SendSt).run [.enq 2 0 exF1, .enq 2 0 exF2, .enq 1 0 exF1, .fail 2, .write 1, .enq 1 1 exF2, .write 1]).2
      = [.accepted 1 0 exF1, .wrote 1 [0, 1, 0, 0, 0, 1], .accepted 1 1 exF2, .wrote 1 [0, 1, 0, 0, 0, 2]] := by
  decide

/-- **The source the model was transcribed from is the current source**: the statements of `readMsg`, `handleConn`, `remoteParty.send`, `maybeConnect`, `sendMessages`, `outChan.enqueue`, `SocketRemoteParties.Send`, `ServiceConnections`, the handshake codec, regenerated from
`/repo` on this run, are the committed ones (logging left out). A change of any of them — harmless or not — fails here
first; the differential and monitored runs of this property are then the search for an input on which it fails. -/
theorem source_as_modelled : TSSVerif.Gen.Stmts.net = TSSVerif.Model.StmtsExpected.net := by
  decide +kernel

end TSSVerif.Props.C17
