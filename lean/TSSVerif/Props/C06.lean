import TSSVerif.Model.Translate
import TSSVerif.Gen.Stmts
import TSSVerif.Model.StmtsExpected
/-!
# C06 — node-id / party-id translation is transparent; secrets reach only the right node

For **every** membership map (any finite association of nodes to parties, injective or not, any
identifier values) and **every** agreed list of nodes.
-/
set_option linter.unusedSimpArgs false
namespace TSSVerif.Props.C06
open TSSVerif.Model.Translate

theorem collect_spec (M : MemMap) (L : List UID) (acc : List PID) :
    (∀ r, collect M L acc = some r → r = acc ++ L.map (partyOf M) ∧ (acc.Nodup → r.Nodup)) ∧
    (collect M L acc = none → ¬ (acc ++ L.map (partyOf M)).Nodup) := by
  induction L generalizing acc with
  | nil =>
    constructor
    · intro r h; simp [collect] at h; subst h; simp
    · intro h; simp [collect] at h
  | cons u rest ih =>
    simp only [collect]
    by_cases hm : partyOf M u ∈ acc
    · simp only [hm, if_true]
      constructor
      · intro r h; cases h
      · intro _ hnd
        rw [List.map_cons, List.nodup_append] at hnd
        exact hnd.2.2 _ hm _ List.mem_cons_self rfl
    · simp only [hm, if_false]
      obtain ⟨ih1, ih2⟩ := ih (acc ++ [partyOf M u])
      constructor
      · intro r h
        obtain ⟨e, hn⟩ := ih1 r h
        refine ⟨by rw [e]; simp, ?_⟩
        intro hacc
        apply hn
        rw [List.nodup_append]
        refine ⟨hacc, by simp, ?_⟩
        intro a ha b hb
        simp at hb; subst hb
        intro e; subst e; exact hm ha
      · intro h
        have := ih2 h
        simpa [List.append_assoc] using this

theorem insSorted_perm (a : Nat) (l : List Nat) : (insSorted a l).Perm (a :: l) := by
  induction l with
  | nil => simp [insSorted]
  | cons b l ih =>
    simp only [insSorted]
    split
    · exact List.Perm.refl _
    · exact (List.Perm.cons b ih).trans (List.Perm.swap a b l)

theorem isort_perm (l : List Nat) : (isort l).Perm l := by
  induction l with
  | nil => simp [isort]
  | cons a l ih => exact (insSorted_perm a (isort l)).trans (List.Perm.cons a ih)

theorem insSorted_sorted (a : Nat) (l : List Nat) (h : l.Pairwise (· ≤ ·)) : (insSorted a l).Pairwise (· ≤ ·) := by
  induction l with
  | nil => simp [insSorted]
  | cons b l ih =>
    simp only [insSorted]
    rw [List.pairwise_cons] at h
    split
    · rename_i hab
      rw [List.pairwise_cons]
      refine ⟨?_, List.pairwise_cons.mpr h⟩
      intro x hx
      rcases List.mem_cons.mp hx with rfl | hx
      · exact hab
      · exact Nat.le_trans hab (h.1 x hx)
    · rename_i hab
      rw [List.pairwise_cons]
      refine ⟨?_, ih h.2⟩
      intro x hx
      rcases (List.Perm.mem_iff (insSorted_perm a l)).mp hx |> List.mem_cons.mp with rfl | hx
      · exact Nat.le_of_lt (Nat.lt_of_not_le hab)
      · exact h.1 x hx

theorem isort_sorted (l : List Nat) : (isort l).Pairwise (· ≤ ·) := by
  induction l with
  | nil => simp [isort]
  | cons a l ih => exact insSorted_sorted a _ ih

/-- **A session in which two selected nodes represent the same party is refused** (before the
backend is initialised: `initArgs` is the refusal), and only such sessions are. -/
theorem duplicate_party_refused (M : MemMap) (L : List UID) :
    initArgs M L = none ↔ ¬ (L.map (partyOf M)).Nodup := by
  unfold initArgs partyIDs
  obtain ⟨h1, h2⟩ := collect_spec M L []
  constructor
  · intro h
    cases hc : collect M L [] with
    | none => simpa using h2 hc
    | some r => simp [hc] at h
  · intro h
    cases hc : collect M L [] with
    | none => simp
    | some r =>
      obtain ⟨e, hn⟩ := h1 r hc
      simp at e
      exact absurd (e ▸ hn List.nodup_nil) h

/-- **`Init` receives exactly the sorted party identifiers of the agreed participants**: sorted,
duplicate-free, and a permutation of the parties of the agreed nodes. -/
theorem init_sorted_party_ids (M : MemMap) (L : List UID) (ps : List PID) (h : initArgs M L = some ps) :
    ps.Pairwise (· ≤ ·) ∧ ps.Perm (L.map (partyOf M)) ∧ ps.Nodup := by
  unfold initArgs partyIDs at h
  cases hc : collect M L [] with
  | none => simp [hc] at h
  | some r =>
    simp [hc] at h
    obtain ⟨e, hn⟩ := (collect_spec M L []).1 r hc
    simp at e
    subst h
    have hperm : (isort r).Perm r := isort_perm r
    exact ⟨isort_sorted r, by rw [← e]; exact hperm, hperm.nodup_iff.mpr (hn List.nodup_nil)⟩

/-- **Every incoming message is attributed to the party identifier of its authenticated sender.** -/
theorem onmsg_attributed_to_party (M : MemMap) (src : UID) : attributeTo M src = partyOf M src := rfl

theorem find_reverse_unique (M : MemMap) (L : List UID) (hinj : (L.map (partyOf M)).Nodup) (u : UID)
    (hu : u ∈ L) : nodeOf M L (partyOf M u) = some u := by
  unfold nodeOf
  induction L with
  | nil => cases hu
  | cons a rest ih =>
    rw [List.map_cons, List.nodup_cons] at hinj
    simp only [List.reverse_cons, List.find?_append]
    rcases List.mem_cons.mp hu with rfl | hr
    · -- u is the head: nobody in the tail maps to the same party
      have : rest.reverse.find? (fun v => partyOf M v == partyOf M u) = none := by
        apply List.find?_eq_none.mpr
        intro v hv
        simp only [beq_iff_eq]
        intro e
        exact hinj.1 (e ▸ List.mem_map_of_mem (List.mem_reverse.mp hv))
      simp [this]
    · rw [ih hinj.2 hr]; simp

/-- **Every point-to-point message reaches exactly one node: the one that represents the addressed
party in this session.** In an admitted session, for every agreed node `u`, a message addressed to
`u`'s party is sent to `u` — and to nobody else, since `destination` is a single node. -/
theorem p2p_unique_destination (M : MemMap) (L : List UID) (ps : List PID) (h : initArgs M L = some ps)
    (u : UID) (hu : u ∈ L) : destination M L (partyOf M u) = some u := by
  have hnd : (L.map (partyOf M)).Nodup := by
    apply Classical.byContradiction
    intro hc
    rw [(duplicate_party_refused M L).mpr hc] at h; cases h
  exact find_reverse_unique M L hnd u hu

/-- the destination is always a node of the session that represents the addressed party -/
theorem destination_in_session (M : MemMap) (L : List UID) (π : PID) (u : UID)
    (h : destination M L π = some u) : u ∈ L ∧ partyOf M u = π := by
  unfold destination nodeOf at h
  have h1 := List.find?_some h
  have h2 := List.mem_of_find?_eq_some h
  exact ⟨List.mem_reverse.mp h2, by simpa using h1⟩

/-- a party that is not represented in the session gets nothing -/
theorem no_destination_outside (M : MemMap) (L : List UID) (π : PID) (h : π ∉ L.map (partyOf M)) :
    destination M L π = none := by
  unfold destination nodeOf
  apply List.find?_eq_none.mpr
  intro u hu
  simp only [beq_iff_eq]
  intro e
  exact h (e ▸ List.mem_map_of_mem (List.mem_reverse.mp hu))

/-- **Translation is transparent**: addressing a party and translating back is the identity on the
session's nodes, and every party handed to `Init` is addressable. -/
theorem translation_transparent (M : MemMap) (L : List UID) (ps : List PID) (h : initArgs M L = some ps) :
    (∀ u ∈ L, destination M L (attributeTo M u) = some u) ∧
    (∀ π ∈ ps, ∃ u ∈ L, destination M L π = some u ∧ attributeTo M u = π) := by
  refine ⟨fun u hu => p2p_unique_destination M L ps h u hu, ?_⟩
  intro π hπ
  obtain ⟨_, hperm, _⟩ := init_sorted_party_ids M L ps h
  have : π ∈ L.map (partyOf M) := hperm.mem_iff.mp hπ
  obtain ⟨u, hu, rfl⟩ := List.mem_map.mp this
  exact ⟨u, hu, p2p_unique_destination M L ps h u hu, rfl⟩

/-! ## non-vacuity: three nodes per party for party 11, node 4 participates -/

def exM : MemMap := [(1, 11), (2, 12), (3, 13), (4, 11), (5, 11)]

example : initArgs exM [4, 3, 2] = some [11, 12, 13] := by decide
example : destination exM [4, 3, 2] 11 = some 4 := by decide
example : initArgs exM [1, 4, 2] = none := by decide


/-- **The source the model was transcribed from is the current source**: the statements of `computeMembership`, `partyIDsByUniversalIDs`, `universalIDsByPartyIDs`, `partyIDByUniversalID`, `initializeDKG`, `initializeThresholdSigning`, regenerated from
`/repo` on this run, are the committed ones (logging left out). A change of any of them — harmless or not — fails here
first; the differential and monitored runs of this property are then the search for an input on which it fails. -/
theorem source_as_modelled : TSSVerif.Gen.Stmts.translate = TSSVerif.Model.StmtsExpected.translate := by
  decide +kernel

end TSSVerif.Props.C06
