import TSSVerif.Model.Locks
import TSSVerif.Model.LockTable
import TSSVerif.Gen.Locks
/-!
# C20 — concurrent use of the public API is free of data races

A theorem cannot observe the Go runtime. What is decided here is the synchronisation discipline:

* `discipline_implies_race_free` (generic, proved once): on the lock machine of `Model/Locks.lean`, for **every**
  number of threads and **every** schedule, two accesses to one location by different threads, at least one of them a
  write, are never both disciplined in the same reachable state — holding the guard excludes the other;
* `tree_respects_discipline` (regenerated on every run): every read and write of a field of the shared types in the six
  packages, with the locks held at that point as computed from the source, is a row of the committed protection table,
  i.e. it is guarded by its mutex in a sufficient mode, or belongs to one of the classes that need no mutex
  (before publication, configuration, frozen, `sync.Map`, atomic, confined to the API caller, externally serialised),
  each with its justification.

The step from "disciplined rows" to "no data race in the Go memory model" rests on the extractor's lock-set
computation and on the classes' justifications (trusted, stated in the evidence) and is cross-checked on every run by
race-detector runs of the real stack under concurrent dispatch with early / duplicated / out-of-phase traffic; a
report of the detector is the concrete replay.
-/
set_option linter.unusedSimpArgs false
set_option linter.unusedVariables false
namespace TSSVerif.Props.C20
open TSSVerif.Model.Locks

/-- a writer excludes everybody else, on every mutex -/
def Inv (s : St) : Prop := ∀ m t, s.writer m = some t → s.readers m = []

theorem inv_step {s s' : St} (h : Inv s) (e : Ev) (he : step s e = some s') : Inv s' := by
  cases e with
  | lock t m =>
    simp only [step] at he
    split at he
    · rename_i hc
      injection he with he
      subst he
      intro m' t' hw
      simp only at hw ⊢
      by_cases e : m' = m
      · subst e; exact hc.2
      · rw [if_neg e] at hw; exact h m' t' hw
    · cases he
  | rlock t m =>
    simp only [step] at he
    split at he
    · rename_i hc
      injection he with he
      subst he
      intro m' t' hw
      simp only at hw ⊢
      by_cases e : m' = m
      · subst e; rw [hc] at hw; cases hw
      · rw [if_neg e]; exact h m' t' hw
    · cases he
  | unlock t m =>
    simp only [step] at he
    split at he
    · injection he with he
      subst he
      intro m' t' hw
      simp only at hw ⊢
      by_cases e : m' = m
      · subst e; rw [if_pos rfl] at hw; cases hw
      · rw [if_neg e] at hw; exact h m' t' hw
    · cases he
  | runlock t m =>
    simp only [step] at he
    split at he
    · rename_i hc
      injection he with he
      subst he
      intro m' t' hw
      simp only at hw ⊢
      by_cases e : m' = m
      · subst e
        have := h m' t' hw
        rw [this] at hc
        cases hc
      · rw [if_neg e]; exact h m' t' hw
    · cases he

theorem reach_inv {s : St} (h : Reach s) : Inv s := by
  induction h with
  | init => intro m t hw; cases hw
  | step h e he ih => exact inv_step ih e he

/-- **Discipline implies race freedom**: in no reachable state — any threads, any schedule — are two accesses to the same
location by different threads both disciplined when at least one of them is a write. -/
theorem discipline_implies_race_free (guard : Loc → Mutex) {s : St} (h : Reach s) (t1 t2 : Thread) (x : Loc) (rw1 rw2 : RW)
    (hne : t1 ≠ t2) (hw : rw1 = .write ∨ rw2 = .write)
    (d1 : disciplined guard s t1 x rw1) (d2 : disciplined guard s t2 x rw2) : False := by
  have inv := reach_inv h
  unfold disciplined at d1 d2
  -- whoever writes holds the guard exclusively; the other one then cannot hold it at all
  have excl : ∀ (a b : Thread) (rb : RW), a ≠ b → holds s a (guard x) .exclusive → holds s b (guard x) (need rb) → False := by
    intro a b rb hab ha hb
    have hwa : s.writer (guard x) = some a := ha
    have hr := inv (guard x) a hwa
    cases rb with
    | read =>
      rcases hb with hb | hb
      · rw [hwa] at hb; injection hb with hb; exact hab hb
      · rw [hr] at hb; cases hb
    | write =>
      have hb' : s.writer (guard x) = some b := hb
      rw [hwa] at hb'; injection hb' with hb'; exact hab hb'
  rcases hw with rfl | rfl
  · exact excl t1 t2 rw2 hne d1 d2
  · exact excl t2 t1 rw1 (Ne.symm hne) d2 d1

/-- non-vacuity: a reachable state in which one thread holds a mutex exclusively (and may write), after two readers released it -/
example : ∃ s, Reach s ∧ holds s 7 3 .exclusive := by
  refine ⟨_, Reach.step (Reach.step (Reach.step (Reach.step (Reach.step Reach.init (.rlock 1 3) rfl) (.rlock 2 3) rfl) (.runlock 1 3) rfl)
    (.runlock 2 3) rfl) (.lock 7 3) rfl, ?_⟩
  simp [holds]

/-- **The tree respects the discipline**: the regenerated accesses are exactly the rows of the committed protection table
(recorded failure F30: `combineShares` accessed the share and key tables without the lock). -/
theorem tree_respects_discipline :
    TSSVerif.Gen.Locks.accesses = TSSVerif.Model.LockTable.rows.map (·.1) := by
  decide +kernel

/-- every row of the table is in one of the classes the argument covers -/
theorem classes_known :
    TSSVerif.Model.LockTable.rows.all (fun r =>
      ["guarded", "init-phase", "configuration", "frozen-after-init", "frozen-complete", "sync.Map", "atomic", "confined",
       "api-sequenced", "externally-serialised"].contains r.2.1) = true := by
  decide +kernel

end TSSVerif.Props.C20
