import TSSVerif.Proofs.Disc
/-!
What `Synchronize` reports to its caller (continuation, return value), as a function of the phase:
the observable trace of a member is determined by its phase, in every reachable state.
-/
set_option linter.unusedSimpArgs false
set_option linter.unusedVariables false
namespace TSSVerif.Proofs.Disc
open TSSVerif.Model TSSVerif.Model.Disc

def outConts (outs : List Out) : List View :=
  outs.filterMap fun o => match o with
    | .cont l => some l
    | _ => none

def outRets (outs : List Out) : List Bool :=
  outs.filterMap fun o => match o with
    | .ret b => some b
    | _ => none

/-- the outputs of member `x` in the history -/
def outsOf (x : Id) (h : List (Id × Out)) : List Out := (h.filter (fun e => e.1 = x)).map (·.2)

/-- continuation calls and return values a phase accounts for -/
def tr : Phase → List View × List Bool
  | .done l => ([l], [true])
  | .failed => ([], [false])
  | _ => ([], [])

theorem outsOf_append (x : Id) (h h' : List (Id × Out)) : outsOf x (h ++ h') = outsOf x h ++ outsOf x h' := by
  simp [outsOf]

theorem outsOf_self (x : Id) (outs : List Out) : outsOf x (outs.map (fun o => (x, o))) = outs := by
  induction outs with
  | nil => rfl
  | cons o t ih =>
    simp only [outsOf, List.map_cons, List.filter_cons] at ih ⊢
    simp only [decide_true, if_true, List.map_cons]
    rw [ih]

theorem outsOf_other {x y : Id} (h : y ≠ x) (outs : List Out) : outsOf x (outs.map (fun o => (y, o))) = [] := by
  induction outs with
  | nil => rfl
  | cons o t ih =>
    simp only [outsOf, List.map_cons, List.filter_cons] at ih ⊢
    simp only [h, decide_false]
    simpa using ih

theorem trace_handle (s : TSt) (src : Id) (k : Kind) (v : View) :
    outConts (s.handle src k v).2 = [] ∧ outRets (s.handle src k v).2 = [] ∧ (s.handle src k v).1.phase = s.phase := by
  cases k with
  | membership => exact ⟨rfl, rfl, rfl⟩
  | query => exact ⟨rfl, rfl, rfl⟩
  | response =>
    unfold TSt.handle
    simp only
    split
    · exact ⟨rfl, rfl, rfl⟩
    · split <;> exact ⟨rfl, rfl, rfl⟩

theorem trace_op (s : TSt) (hwf : ∀ a, s.acc = some a → s.phase = .collect) (o : Op) :
    (tr s.phase).1 ++ outConts (s.op o).2 = (tr (s.op o).1.phase).1 ∧
    (tr s.phase).2 ++ outRets (s.op o).2 = (tr (s.op o).1.phase).2 := by
  cases o with
  | begin =>
    simp only [TSt.op, TSt.beginRead]
    split <;> simp [outConts, outRets]
  | visit k =>
    simp only [TSt.op, TSt.visit]
    split
    · split <;> simp [outConts, outRets]
    · simp [outConts, outRets]
  | finishI =>
    simp only [TSt.op, TSt.finishIntersect]
    split
    · simp [outConts, outRets]
    · rename_i a ha
      have hp := hwf a ha
      split
      · simp [outConts, outRets]
      · split
        · simp [outConts, outRets, hp, tr]
        · split
          · simp [outConts, outRets, hp, tr]
          · split <;> simp [outConts, outRets, hp, tr]
  | finishT =>
    simp only [TSt.op, TSt.finishTick]
    split
    · simp [outConts, outRets]
    · split <;> simp [outConts, outRets]
  | resp =>
    simp only [TSt.op, TSt.recvResponse]
    split
    · rename_i l n v q hp hq
      split
      · split <;> simp [outConts, outRets, hp, tr]
      · simp [outConts, outRets]
    · simp [outConts, outRets]
  | ctx =>
    simp only [TSt.op, TSt.ctxDone]
    split
    · rename_i hp; simp [outConts, outRets, hp, tr]
    · rename_i l n hp; simp [outConts, outRets, hp, tr]
    · simp [outConts, outRets]

/-- the trace of every member is the one its phase accounts for -/
def TInv (σ : Sys) : Prop :=
  ∀ x, (outConts (outsOf x σ.hist), outRets (outsOf x σ.hist)) =
    match σ.st x with
    | none => ([], [])
    | some s => tr s.phase

theorem outConts_append (a b : List Out) : outConts (a ++ b) = outConts a ++ outConts b := by
  simp [outConts]

theorem outRets_append (a b : List Out) : outRets (a ++ b) = outRets a ++ outRets b := by
  simp [outRets]

theorem tinv_upd {σ : Sys} (t : TInv σ) {x : Id} {s : TSt} (hs : σ.st x = some s) (r : TSt × List Out)
    (h1 : (tr s.phase).1 ++ outConts r.2 = (tr r.1.phase).1) (h2 : (tr s.phase).2 ++ outRets r.2 = (tr r.1.phase).2)
    (heard' : List (Id × Id)) : TInv { (σ.upd x r) with heard := heard' } := by
  intro y
  show (outConts (outsOf y (σ.hist ++ r.2.map (fun o => (x, o)))), outRets (outsOf y (σ.hist ++ r.2.map (fun o => (x, o))))) =
    match (if y = x then some r.1 else σ.st y) with
    | none => ([], [])
    | some s => tr s.phase
  rw [outsOf_append]
  by_cases e : y = x
  · subst e
    rw [if_pos rfl, outsOf_self, outConts_append, outRets_append]
    have := t y
    rw [hs] at this
    simp only at this
    have e1 : outConts (outsOf y σ.hist) = (tr s.phase).1 := by rw [← this]
    have e2 : outRets (outsOf y σ.hist) = (tr s.phase).2 := by rw [← this]
    rw [e1, e2, h1, h2]
  · rw [if_neg e, outsOf_other (Ne.symm e), List.append_nil]
    exact t y

theorem reach_tinv {c : Cfg} (hpos : ∀ x, 1 ≤ c.exp x) {σ : Sys} (h : Reach c σ) : TInv σ := by
  induction h with
  | init => intro x; rfl
  | @start σ h x hx hm hn ih =>
    intro y
    show _ = match (if y = x then some (TSt.fresh c x) else σ.st y) with
      | none => ([], [])
      | some s => tr s.phase
    by_cases e : y = x
    · subst e
      rw [if_pos rfl]
      have := ih y
      rw [hn] at this
      exact this
    · rw [if_neg e]; exact ih y
  | @handle σ h x src k v s hx hs hsrc hne hauth ih =>
    obtain ⟨h1, h2, h3⟩ := trace_handle s src k v
    exact tinv_upd ih hs (s.handle src k v) (by rw [h1, h3, List.append_nil]) (by rw [h2, h3, List.append_nil]) _
  | @op σ h x o s hx hs ih =>
    have g := reach_ginv hpos h
    have hwf : ∀ a, s.acc = some a → s.phase = .collect := fun a ha => ((g.minv x s hs).acc_ok a ha).2.2.2.2
    obtain ⟨h1, h2⟩ := trace_op s hwf o
    exact tinv_upd ih hs (s.op o) h1 h2 σ.heard

end TSSVerif.Proofs.Disc
