import TSSVerif.Props.C18
/-!
What the all-subsets check of `assembleThresholdPublicKey` buys for signer sets larger than `t`: if the Lagrange
combination (at zero) of the recorded keys is the same value for **every** subset of size exactly `t`, it is that
value for every larger subset as well — without assuming that the keys come from a polynomial. The step from `m` to
`m + 1` points is Neville's recursion (`Lagrange.interpolate_eq_add_interpolate_erase`), read off at zero.
-/
set_option linter.unusedSimpArgs false
set_option linter.unusedVariables false
set_option linter.unusedSectionVars false
open Polynomial Finset
namespace TSSVerif.Proofs.SubsetCheck
open TSSVerif.Props.C18

variable {F : Type*} [Field F] {κ : Type*} [DecidableEq κ]

/-- the coefficient of C18 is the Lagrange basis polynomial evaluated at zero -/
theorem lam_eq_basis (s : Finset κ) (v : κ → F) (hv : Set.InjOn v s) {i : κ} (hi : i ∈ s) :
    lam s v i = (Lagrange.basis s v i).eval 0 := by
  unfold lam
  rw [Lagrange.basis, eval_prod]
  apply Finset.prod_congr rfl
  intro j hj
  rw [Lagrange.basisDivisor, eval_mul, eval_C, eval_sub, eval_X, eval_C]
  have hne : v i ≠ v j := by
    intro e
    have := hv hi (Finset.mem_of_mem_erase hj) e
    exact (Finset.ne_of_mem_erase hj) this.symm
  have h1 : v i - v j ≠ 0 := sub_ne_zero.mpr hne
  have h2 : v j - v i ≠ 0 := sub_ne_zero.mpr hne.symm
  field_simp
  ring

/-- interpolating the indicator of `k` gives the basis polynomial of `k` (or zero outside the node set) -/
theorem interpolate_indicator (s : Finset κ) (v : κ → F) (k : κ) :
    Lagrange.interpolate s v (fun l => if l = k then (1 : F) else 0) = if k ∈ s then Lagrange.basis s v k else 0 := by
  rw [Lagrange.interpolate_apply]
  by_cases hk : k ∈ s
  · rw [if_pos hk, Finset.sum_eq_single k]
    · simp
    · intro b _ hb; simp [hb]
    · intro h; exact absurd hk h
  · rw [if_neg hk]
    apply Finset.sum_eq_zero
    intro b hb
    have : b ≠ k := fun e => hk (e ▸ hb)
    simp [this]

/-- Neville's recursion for the coefficients at zero -/
theorem lam_neville (S : Finset κ) (v : κ → F) (hv : Set.InjOn v S) {i j : κ} (hi : i ∈ S) (hj : j ∈ S) (hij : i ≠ j)
    {k : κ} (hk : k ∈ S) :
    lam S v k =
      (if k ∈ S.erase j then lam (S.erase j) v k else 0) * ((v i - v j)⁻¹ * (0 - v j)) +
      (if k ∈ S.erase i then lam (S.erase i) v k else 0) * ((v j - v i)⁻¹ * (0 - v i)) := by
  have hvj : Set.InjOn v (S.erase j) := hv.mono (by intro x hx; exact Finset.mem_coe.mpr (Finset.mem_of_mem_erase (Finset.mem_coe.mp hx)))
  have hvi : Set.InjOn v (S.erase i) := hv.mono (by intro x hx; exact Finset.mem_coe.mpr (Finset.mem_of_mem_erase (Finset.mem_coe.mp hx)))
  have key := Lagrange.interpolate_eq_add_interpolate_erase (r := fun l => if l = k then (1 : F) else 0) hv hi hj hij
  rw [interpolate_indicator, interpolate_indicator, interpolate_indicator, if_pos hk] at key
  have key0 := congrArg (fun p => p.eval 0) key
  simp only [eval_add, eval_mul, Lagrange.basisDivisor, eval_C, eval_sub, eval_X] at key0
  rw [lam_eq_basis S v hv hk, key0]
  congr 1
  · by_cases h : k ∈ S.erase j
    · rw [if_pos h, if_pos h, lam_eq_basis _ v hvj h]
    · rw [if_neg h, if_neg h]; simp
  · by_cases h : k ∈ S.erase i
    · rw [if_pos h, if_pos h, lam_eq_basis _ v hvi h]
    · rw [if_neg h, if_neg h]; simp

variable {G : Type*} [AddCommGroup G] [Module F G]

theorem sum_indicator_erase (S : Finset κ) (j : κ) (a : κ → F) (y : κ → G) :
    ∑ k ∈ S, (if k ∈ S.erase j then a k else 0) • y k = ∑ k ∈ S.erase j, a k • y k := by
  rw [← Finset.sum_filter_add_sum_filter_not S (fun k => k ∈ S.erase j)]
  have h1 : ∑ k ∈ S.filter (fun k => k ∈ S.erase j), (if k ∈ S.erase j then a k else 0) • y k = ∑ k ∈ S.erase j, a k • y k := by
    have : S.filter (fun k => k ∈ S.erase j) = S.erase j := by
      ext x
      simp only [Finset.mem_filter, Finset.mem_erase]
      tauto
    rw [this]
    apply Finset.sum_congr rfl
    intro k hk
    rw [if_pos hk]
  have h2 : ∑ k ∈ S.filter (fun k => ¬ k ∈ S.erase j), (if k ∈ S.erase j then a k else 0) • y k = 0 := by
    apply Finset.sum_eq_zero
    intro k hk
    have := (Finset.mem_filter.mp hk).2
    rw [if_neg this, zero_smul]
  rw [h1, h2, add_zero]

/-- **From all `t`-subsets to all larger subsets.** If the Lagrange combination at zero of the values `y` is `c` for every
subset of size exactly `t ≥ 1` of `U` (distinct points), it is `c` for every subset of `U` of size at least `t`. -/
theorem check_extends (U : Finset κ) (v : κ → F) (hv : Set.InjOn v U) (y : κ → G) (c : G) (t : ℕ) (ht : 1 ≤ t)
    (hcheck : ∀ S, S ⊆ U → S.card = t → ∑ k ∈ S, lam S v k • y k = c) :
    ∀ (m : ℕ) (S : Finset κ), S ⊆ U → S.card = t + m → ∑ k ∈ S, lam S v k • y k = c := by
  intro m
  induction m with
  | zero => intro S hS hc; exact hcheck S hS (by simpa using hc)
  | succ m ih =>
    intro S hS hc
    -- two distinct members
    have h2 : 1 < S.card := by omega
    obtain ⟨i, hi, j, hj, hij⟩ := Finset.one_lt_card.mp h2
    have hvS : Set.InjOn v S := hv.mono (by intro x hx; exact Finset.mem_coe.mpr (hS (Finset.mem_coe.mp hx)))
    have hne : v i ≠ v j := fun e => hij (hvS hi hj e)
    have hsum : ∑ k ∈ S, lam S v k • y k =
        ((v i - v j)⁻¹ * (0 - v j)) • ∑ k ∈ S.erase j, lam (S.erase j) v k • y k +
        ((v j - v i)⁻¹ * (0 - v i)) • ∑ k ∈ S.erase i, lam (S.erase i) v k • y k := by
      rw [← sum_indicator_erase S j (lam (S.erase j) v) y, ← sum_indicator_erase S i (lam (S.erase i) v) y,
        Finset.smul_sum, Finset.smul_sum, ← Finset.sum_add_distrib]
      apply Finset.sum_congr rfl
      intro k hk
      rw [lam_neville S v hvS hi hj hij hk, add_smul, smul_smul, smul_smul, mul_comm _ ((v i - v j)⁻¹ * (0 - v j)),
        mul_comm _ ((v j - v i)⁻¹ * (0 - v i))]
    have cj : (S.erase j).card = t + m := by rw [Finset.card_erase_of_mem hj]; omega
    have ci : (S.erase i).card = t + m := by rw [Finset.card_erase_of_mem hi]; omega
    rw [hsum, ih (S.erase j) ((Finset.erase_subset _ _).trans hS) cj, ih (S.erase i) ((Finset.erase_subset _ _).trans hS) ci,
      ← add_smul]
    have hw : (v i - v j)⁻¹ * (0 - v j) + (v j - v i)⁻¹ * (0 - v i) = 1 := by
      have h1 : v i - v j ≠ 0 := sub_ne_zero.mpr hne
      have h2 : v j - v i ≠ 0 := sub_ne_zero.mpr hne.symm
      field_simp
      ring
    rw [hw, one_smul]

end TSSVerif.Proofs.SubsetCheck
