import Mathlib.LinearAlgebra.Lagrange
import Mathlib.FieldTheory.Finite.Basic
import TSSVerif.Model.Sss
/-!
Algebra behind C18 (and C01/C05/C08): Lagrange reconstruction over an arbitrary field, and the
link between the *executable* scalar model (`Model/Sss.lean`, integers with explicit reductions, as
IBM/mathlib's `Zr` computes) and `ZMod p`.
-/
open Polynomial Finset
namespace TSSVerif.Proofs.Sss
open TSSVerif.Model.Sss

/-- **Lagrange reconstruction at zero** over any field: for pairwise distinct nodes `v i`, `i ∈ s`,
and any polynomial of degree `< |s|`. -/
theorem reconstruct_eq {F : Type*} [Field F] {ι : Type*} [DecidableEq ι] (s : Finset ι) (v : ι → F)
    (hv : Set.InjOn v s) (f : F[X]) (hf : f.degree < s.card) :
    ∑ i ∈ s, f.eval (v i) * ∏ j ∈ s.erase i, (v j / (v j - v i)) = f.eval 0 := by
  have h := Lagrange.eq_interpolate hv hf
  conv_rhs => rw [h]
  rw [Lagrange.interpolate_apply, eval_finsetSum]
  apply Finset.sum_congr rfl
  intro i hi
  rw [eval_mul, eval_C]
  congr 1
  rw [Lagrange.basis, eval_prod]
  apply Finset.prod_congr rfl
  intro j hj
  rw [Lagrange.basisDivisor, eval_mul, eval_C, eval_sub, eval_X, eval_C]
  have hne : v i ≠ v j := by
    intro e
    have := hv hi (Finset.mem_of_mem_erase hj) e
    exact (Finset.ne_of_mem_erase hj) this.symm
  have h1 : v i - v j ≠ 0 := sub_ne_zero.mpr hne
  have h2 : v j - v i ≠ 0 := sub_ne_zero.mpr hne.symm
  field_simp
  ring

variable (p : ℕ) [hp : Fact p.Prime]

theorem powMod_cast (b : Int) (e : Nat) : ((powMod b e (p : Int) : Int) : ZMod p) = (b : ZMod p) ^ e := by
  induction e using Nat.strong_induction_on with
  | _ e ih =>
    rw [powMod]
    split
    · rename_i h; subst h
      rw [ZMod.intCast_mod]; simp
    · rename_i h
      have hlt : e / 2 < e := Nat.div_lt_self (Nat.pos_of_ne_zero h) (by norm_num)
      have ihh := ih (e / 2) hlt
      simp only []
      have hsq : (((powMod b (e / 2) ↑p * powMod b (e / 2) ↑p % (p : Int) : Int)) : ZMod p) = (b : ZMod p) ^ (2 * (e / 2)) := by
        rw [ZMod.intCast_mod, Int.cast_mul, ihh, ← pow_add]; congr 1; ring
      split
      · rename_i hodd
        rw [ZMod.intCast_mod, Int.cast_mul, hsq, ZMod.intCast_mod, ← pow_succ]
        congr 1; omega
      · rename_i heven
        rw [hsq]; congr 1; omega

theorem invModP_cast (a : Int) (ha : (a : ZMod p) ≠ 0) : ((invModP a (p : Int) : Int) : ZMod p) = (a : ZMod p)⁻¹ := by
  unfold invModP
  rw [powMod_cast]
  have h2 : 2 ≤ p := hp.out.two_le
  have hcard := ZMod.pow_card_sub_one_eq_one ha
  simp only [Int.toNat_natCast]
  have : (a : ZMod p) ^ (p - 2) * (a : ZMod p) = 1 := by
    rw [← pow_succ]; rw [show p - 2 + 1 = p - 1 by omega]; exact hcard
  exact eq_inv_of_mul_eq_one_left this

theorem mulZ_cast (a b : Int) : ((mulZ a b (p : Int) : Int) : ZMod p) = (a : ZMod p) * b := by
  unfold mulZ; rw [ZMod.intCast_mod, Int.cast_mul]

theorem modSub_cast (a b : Int) : ((modSub a b (p : Int) : Int) : ZMod p) = (a : ZMod p) - b := by
  unfold modSub; rw [ZMod.intCast_mod, Int.cast_sub]

/-- the factors of the executable Lagrange coefficient, seen in `ZMod p` -/
theorem lagrangeFactors_cast (i : Int) (pts : List Int)
    (hd : ∀ j ∈ pts, j ≠ i → ((j : ZMod p) - (i : ZMod p)) ≠ 0) :
    (lagrangeFactors (p : Int) i pts).map (fun z => ((z : Int) : ZMod p)) =
      (pts.filter (fun j => decide (j ≠ i))).map (fun (j : Int) => (j : ZMod p) / ((j : ZMod p) - (i : ZMod p))) := by
  induction pts with
  | nil => simp [lagrangeFactors]
  | cons j rest ih =>
    have ih' := ih (fun j' hj' => hd j' (List.mem_cons_of_mem _ hj'))
    unfold lagrangeFactors
    by_cases e : i = j
    · subst e; simp [ih']
    · have hne : j ≠ i := fun h => e h.symm
      have hnz := hd j (List.mem_cons_self) hne
      simp only [e, if_false, List.map_cons, ih', List.filter_cons, hne, ne_eq, not_false_eq_true,
        decide_true, if_true]
      congr 1
      rw [mulZ_cast, invModP_cast p _ (by rw [modSub_cast]; exact hnz), modSub_cast, div_eq_mul_inv]

theorem foldl_mulZ_cast (f : Int) (fs : List Int) :
    ((fs.foldl (fun acc x => mulZ acc x (p : Int)) f : Int) : ZMod p) =
      (f : ZMod p) * (fs.map (fun z => ((z : Int) : ZMod p))).prod := by
  induction fs generalizing f with
  | nil => simp
  | cons x xs ih => simp only [List.foldl_cons, ih, mulZ_cast, List.map_cons, List.prod_cons]; ring

/-- **The executable Lagrange coefficient is the Lagrange coefficient**, whenever the Go code does
not panic (at least one other point). -/
theorem lagrange_cast (i : Int) (pts : List Int)
    (hd : ∀ j ∈ pts, j ≠ i → ((j : ZMod p) - (i : ZMod p)) ≠ 0) (v : Int)
    (h : lagrangeCoefficient (p : Int) i pts = some v) :
    (v : ZMod p) = ((pts.filter (fun j => decide (j ≠ i))).map
        (fun (j : Int) => (j : ZMod p) / ((j : ZMod p) - (i : ZMod p)))).prod := by
  unfold lagrangeCoefficient at h
  have hc := lagrangeFactors_cast p i pts hd
  cases hf : lagrangeFactors (p : Int) i pts with
  | nil => rw [hf] at h; cases h
  | cons f fs =>
    rw [hf] at h hc
    simp only [Option.some.injEq] at h
    rw [← h, foldl_mulZ_cast, ← hc]; simp

/-- the executable coefficient panics exactly when there is no other evaluation point -/
theorem lagrange_panics_iff (i : Int) (pts : List Int) :
    lagrangeCoefficient (p : Int) i pts = none ↔ pts.filter (fun j => decide (j ≠ i)) = [] := by
  unfold lagrangeCoefficient
  have : ∀ l : List Int, lagrangeFactors (p : Int) i l = [] ↔ l.filter (fun j => decide (j ≠ i)) = [] := by
    intro l
    induction l with
    | nil => simp [lagrangeFactors]
    | cons j rest ih =>
      unfold lagrangeFactors
      by_cases e : i = j
      · subst e; simp [ih]
      · have hne : j ≠ i := fun h => e h.symm
        simp [e, hne]
  cases hf : lagrangeFactors (p : Int) i pts with
  | nil => simp only [true_iff]; exact (this pts).mp hf
  | cons f fs =>
    simp only [reduceCtorEq, false_iff]
    intro h
    rw [(this pts).mpr h] at hf; cases hf


/-! ## polynomial evaluation and reconstruction, executable versus `ZMod p` -/

/-- the polynomial with coefficient list `cs` (constant term first), in Horner form -/
noncomputable def polyOf : List (ZMod p) → (ZMod p)[X]
  | [] => 0
  | c :: cs => C c + X * polyOf cs

theorem polyOf_degree (cs : List (ZMod p)) : (polyOf p cs).degree < (cs.length : WithBot ℕ) := by
  induction cs with
  | nil => simp [polyOf]
  | cons c cs ih =>
    simp only [polyOf, List.length_cons]
    refine lt_of_le_of_lt (degree_add_le _ _) ?_
    rw [max_lt_iff]
    constructor
    · exact lt_of_le_of_lt degree_C_le (by exact_mod_cast Nat.succ_pos _)
    · by_cases h0 : polyOf p cs = 0
      · rw [h0]; simp
      · rw [mul_comm, degree_mul_X]
        have : (polyOf p cs).degree + 1 < (cs.length : WithBot ℕ) + 1 := by
          rw [degree_eq_natDegree h0] at ih ⊢
          exact_mod_cast Nat.succ_lt_succ (by exact_mod_cast ih)
        exact_mod_cast this

theorem polyOf_eval_zero (c : ZMod p) (cs : List (ZMod p)) : (polyOf p (c :: cs)).eval 0 = c := by
  simp [polyOf]

def castL (cs : List Int) : List (ZMod p) := cs.map (fun (z : Int) => (z : ZMod p))

theorem valueAtAux_cast (x : Int) (i : Nat) (cs : List Int) (acc : Int) :
    ((valueAtAux (p : Int) x i cs acc : Int) : ZMod p) =
      (acc : ZMod p) + (x : ZMod p) ^ i * (polyOf p (castL p cs)).eval (x : ZMod p) := by
  induction cs generalizing i acc with
  | nil => simp [valueAtAux, castL, polyOf]
  | cons c cs ih =>
    simp only [valueAtAux, castL, List.map_cons, polyOf]
    rw [ih]
    simp only [Int.cast_add, mulZ_cast, powMod_cast, castL, eval_add, eval_C, eval_mul, eval_X]
    ring

theorem valueAt_cast (cs : List Int) (x : Int) :
    ((valueAt (p : Int) cs x : Int) : ZMod p) = (polyOf p (castL p cs)).eval (x : ZMod p) := by
  unfold valueAt
  rw [ZMod.intCast_mod, valueAtAux_cast]; simp

theorem gen_get (cs : List Int) (n : Nat) (k : Nat) (hk : k < n) :
    (gen (p : Int) cs n)[k]? = some (valueAt (p : Int) cs ((k : Int) + 1)) := by
  unfold gen
  simp [hk]

theorem foldlM_reconStep (shares all : List Int) (lam : Int → ZMod p) (l : List Int)
    (val : Int → ZMod p)
    (hs : ∀ x ∈ l, 1 ≤ x ∧ ∃ s, shares[(x - 1).toNat]? = some s ∧ ((s : Int) : ZMod p) = val x)
    (hl : ∀ x ∈ l, ∃ v, lagrangeCoefficient (p : Int) x all = some v ∧ ((v : Int) : ZMod p) = lam x)
    (acc : Int) :
    ∃ v, l.foldlM (reconStep (p : Int) shares all) acc = some v ∧
      ((v : Int) : ZMod p) = (acc : ZMod p) + (l.map (fun (x : Int) => val x * lam x)).sum := by
  induction l generalizing acc with
  | nil => exact ⟨acc, rfl, by simp⟩
  | cons x rest ih =>
    obtain ⟨h1, s, hs1, hs2⟩ := hs x List.mem_cons_self
    obtain ⟨lv, hl1, hl2⟩ := hl x List.mem_cons_self
    have hstep : reconStep (p : Int) shares all acc x = some ((acc + mulZ s lv p) % p) := by
      unfold reconStep
      have : ¬ (x - 1 < 0) := by omega
      have e : (x - 1).toNat = x.toNat - 1 := by omega
      rw [e] at hs1
      simp [this, hs1, hl1]
    obtain ⟨v, hv1, hv2⟩ := ih (fun y hy => hs y (List.mem_cons_of_mem _ hy))
      (fun y hy => hl y (List.mem_cons_of_mem _ hy)) ((acc + mulZ s lv p) % p)
    refine ⟨v, ?_, ?_⟩
    · simp only [List.foldlM_cons, hstep]; exact hv1
    · rw [hv2, ZMod.intCast_mod, Int.cast_add, mulZ_cast, hs2, hl2]
      simp only [List.map_cons, List.sum_cons]; ring

theorem cast_injOn (n : Nat) (hn : n < p) (x y : Int) (hx : 1 ≤ x ∧ x ≤ n) (hy : 1 ≤ y ∧ y ≤ n)
    (h : (x : ZMod p) = (y : ZMod p)) : x = y := by
  have := (ZMod.intCast_eq_intCast_iff_dvd_sub x y p).mp h
  obtain ⟨k, hk⟩ := this
  have hp' : (0 : Int) < p := by exact_mod_cast hp.out.pos
  have hnp : (n : Int) < p := by exact_mod_cast hn
  have : k = 0 := by
    by_contra hk0
    have : (p : Int) ≤ |y - x| := by
      rw [hk, abs_mul]
      have : 1 ≤ |k| := Int.one_le_abs hk0
      have hpa : |(p : Int)| = p := abs_of_pos hp'
      rw [hpa]; nlinarith
    have h2 : |y - x| < (p : Int) := by
      rw [abs_lt]; constructor <;> omega
    omega
  rw [this] at hk; omega

/-- **End to end, for the executable model**: dealing with any coefficient list `cs` (threshold
`t = cs.length ≥ 1`) to parties `1..n` (`n < p`) and reconstructing from any duplicate-free list of
at least `t` (and at least 2) evaluation points among `1..n` returns the dealt secret `cs[0]` — in
particular the Go code's panic branches are not taken. -/
theorem reconstruct_correct (c0 : Int) (cs : List Int) (n : Nat) (hn : n < p) (pts : List Int)
    (hnd : pts.Nodup) (hr : ∀ x ∈ pts, 1 ≤ x ∧ x ≤ n) (ht : (c0 :: cs).length ≤ pts.length)
    (h2 : 2 ≤ pts.length) :
    ∃ v, reconstruct (p : Int) (gen (p : Int) (c0 :: cs) n) pts = some v ∧ ((v : Int) : ZMod p) = (c0 : ZMod p) := by
  let f := polyOf p (castL p (c0 :: cs))
  let lam : Int → ZMod p := fun x => ((pts.filter (fun j => decide (j ≠ x))).map
      (fun (j : Int) => (j : ZMod p) / ((j : ZMod p) - (x : ZMod p)))).prod
  have hdist : ∀ x ∈ pts, ∀ j ∈ pts, j ≠ x → ((j : ZMod p) - (x : ZMod p)) ≠ 0 := by
    intro x hx j hj hne h0
    exact hne (cast_injOn p n hn j x (hr j hj) (hr x hx) (sub_eq_zero.mp h0))
  have hs : ∀ x ∈ pts, 1 ≤ x ∧ ∃ s, (gen (p : Int) (c0 :: cs) n)[(x - 1).toNat]? = some s ∧
      ((s : Int) : ZMod p) = f.eval (x : ZMod p) := by
    intro x hx
    obtain ⟨h1, hxn⟩ := hr x hx
    refine ⟨h1, valueAt (p : Int) (c0 :: cs) x, ?_, valueAt_cast p _ x⟩
    have hk : (x - 1).toNat < n := by omega
    rw [gen_get p _ n _ hk]
    congr 2; omega
  have hl : ∀ x ∈ pts, ∃ v, lagrangeCoefficient (p : Int) x pts = some v ∧ ((v : Int) : ZMod p) = lam x := by
    intro x hx
    cases hv : lagrangeCoefficient (p : Int) x pts with
    | none =>
      exfalso
      have hnil := (lagrange_panics_iff p x pts).mp hv
      -- pts has ≥ 2 distinct elements, so one differs from x
      have : ∀ j ∈ pts, j = x := by
        intro j hj
        by_contra hne
        have : j ∈ pts.filter (fun j => decide (j ≠ x)) := List.mem_filter.mpr ⟨hj, by simpa using hne⟩
        rw [hnil] at this; cases this
      have hle : pts.length ≤ 1 := by
        have hsub : pts ⊆ [x] := fun j hj => by simp [this j hj]
        have := (List.subperm_of_subset hnd hsub).length_le
        simpa using this
      omega
    | some v => exact ⟨v, rfl, lagrange_cast p x pts (hdist x hx) v hv⟩
  obtain ⟨v, hv1, hv2⟩ := foldlM_reconStep p (gen (p : Int) (c0 :: cs) n) pts lam pts
    (fun x => f.eval (x : ZMod p)) hs hl 0
  refine ⟨v, hv1, ?_⟩
  rw [hv2]
  simp only [Int.cast_zero, zero_add]
  -- list sum → finset sum, then Lagrange
  have hinj : Set.InjOn (fun (x : Int) => (x : ZMod p)) (pts.toFinset : Set Int) := by
    intro x hx y hy hxy
    simp only [Finset.mem_coe, List.mem_toFinset] at hx hy
    exact cast_injOn p n hn x y (hr x hx) (hr y hy) hxy
  have hdeg : f.degree < (pts.toFinset.card : WithBot ℕ) := by
    rw [List.toFinset_card_of_nodup hnd]
    refine lt_of_lt_of_le (polyOf_degree p _) ?_
    simp only [castL, List.length_map]
    exact_mod_cast ht
  have hrec := reconstruct_eq pts.toFinset (fun (x : Int) => (x : ZMod p)) hinj f hdeg
  have hf0 : f.eval 0 = (c0 : ZMod p) := by
    simp only [f, castL, List.map_cons]; exact polyOf_eval_zero p _ _
  rw [← hf0, ← hrec, ← List.sum_toFinset _ hnd]
  apply Finset.sum_congr rfl
  intro x hx
  congr 1
  simp only [lam]
  rw [← List.prod_toFinset _ (hnd.filter _)]
  apply Finset.prod_congr
  · ext j; simp [Finset.mem_erase, List.mem_filter, and_comm]
  · intro j _; rfl

end TSSVerif.Proofs.Sss
